(* The text side of path evaluation (internal/decoder/map.go, slice.go, interface.go DecodePath): Extract hands out
   parts of its private copy of the document as results -- slices of that buffer, not copies -- while the walk goes on
   reading keys, and with recursive descent reads below a part it has already handed out.  A key with an escape has to
   be unescaped to be compared with a selector; the string decoder does that where the key stands (the decoded bytes
   overwrite the beginning of the literal).  Model/PathEval.v evaluates on trees and cannot see this; here the walk is
   a list of events over the buffer, and whether a key is unescaped where it stands or in a copy is a parameter the
   translator reads from the source (Gen/PathShape.v: path_keys_unescaped_in_a_copy, scalar_stepped_over). *)
From Coq Require Import NArith List Bool Arith.
Import ListNotations.

Inductive event :=
| HandOut (from len : nat)                       (* buf[from : from+len] joins the results *)
| ReadKey (from : nat) (decoded : list N).       (* a key literal starting at from is read and unescaped to `decoded` *)

Fixpoint overwrite (buf : list N) (at_ : nat) (bytes : list N) : list N :=
  match at_, buf with
  | O, _ => (fix go (bytes buf : list N) : list N :=
               match bytes, buf with
               | [], _ => buf
               | _, [] => []
               | b :: bs, _ :: r => b :: go bs r
               end) bytes buf
  | S k, x :: r => x :: overwrite r k bytes
  | S _, [] => []
  end.

Definition slice (buf : list N) (from len : nat) : list N := firstn len (skipn from buf).

(* the buffer after the walk, and the windows handed out on the way *)
Fixpoint walk (in_place : bool) (buf : list N) (evs : list event) (hands : list (nat * nat)) : list N * list (nat * nat) :=
  match evs with
  | [] => (buf, rev hands)
  | HandOut a n :: r => walk in_place buf r ((a, n) :: hands)
  | ReadKey a d :: r => walk in_place (if in_place then overwrite buf a d else buf) r hands
  end.

(* what the caller holds when Extract returns: the windows, read in the buffer as it is then *)
Definition results (in_place : bool) (buf : list N) (evs : list event) : list (list N) :=
  let '(final, hands) := walk in_place buf evs [] in map (fun w => slice final (fst w) (snd w)) hands.
(* what it should hold: the same windows of the document *)
Definition expected (buf : list N) (evs : list event) : list (list N) :=
  map (fun w => slice buf (fst w) (snd w)) (snd (walk false buf evs [])).
