(* Model of the buffer-mode string decoder (internal/decoder/string.go:
   stringDecoder.decodeByte and unescapeString), on the NUL-terminated copy.
   Cursors are suffixes of src = data ++ [0], as in Model/Int.v. *)
From Coq Require Import NArith ZArith List Bool.
From GJ Require Import Base.Bytes Gen.Tables Model.Int.
Import ListNotations.
Open Scope N_scope.

(* utf8.EncodeRune (stdlib, modelled): surrogates and out-of-range -> U+FFFD *)
Definition encode_rune (r : N) : list N :=
  if r <=? 127 then [r]
  else if r <=? 2047 then [192 + r / 64; 128 + r mod 64]
  else if ((55296 <=? r) && (r <=? 57343)) || (1114111 <? r) then [239; 191; 189]
  else if r <=? 65535 then [224 + r / 4096; 128 + (r / 64) mod 64; 128 + r mod 64]
  else [240 + r / 262144; 128 + (r / 4096) mod 64; 128 + (r / 64) mod 64; 128 + r mod 64].

Definition is_hexc (c : N) : bool :=
  ((48 <=? c) && (c <=? 57)) || ((97 <=? c) && (c <=? 102)) || ((65 <=? c) && (c <=? 70)).

Definition is_simple_esc (e : N) : bool :=
  (e =? 34) || (e =? 92) || (e =? 47) || (e =? 98) || (e =? 102) || (e =? 110) || (e =? 114) || (e =? 116).

Inductive sres :=
| SSStuck
| SSErr
| SSOk (content : list N) (escaped : bool) (rest : list N).

(* the scanning loop after the opening quote; l is the suffix at the cursor *)
Fixpoint scan_string (fuel : nat) (l : list N) (acc : list N) (escaped : bool) : sres :=
  match fuel with
  | O => SSStuck
  | S f =>
      match l with
      | [] => SSStuck
      | c :: r =>
          if c =? 92 then
            match r with
            | [] => SSStuck
            | e :: r1 =>
                if is_simple_esc e then scan_string f r1 (acc ++ [c; e]) true
                else if e =? 117 then
                  (* cursor+5 >= buflen : fewer than 6 bytes from 'u' to the end of the array *)
                  if Nat.leb (length r) 5 then SSErr
                  else match r1 with
                       | h1 :: h2 :: h3 :: h4 :: r2 =>
                           if is_hexc h1 && is_hexc h2 && is_hexc h3 && is_hexc h4
                           then scan_string f r2 (acc ++ [c; e; h1; h2; h3; h4]) true
                           else SSErr
                       | _ => SSStuck
                       end
                else SSErr
            end
          else if c =? 34 then SSOk acc escaped r
          else if c =? 0 then SSErr
          else if c <? 32 then SSErr     (* raw control characters must be escaped *)
          else scan_string f r (acc ++ [c]) escaped
      end
  end.

Definition hexv (c : N) : N := tbl0 dec_hexToInt c.
Definition hex4 (a b c d : N) : N :=
  N.lor (N.lor (N.lor (N.shiftl (hexv a) 12) (N.shiftl (hexv b) 8)) (N.shiftl (hexv c) 4)) (hexv d).

(* unescapeString from the first backslash on; None = a read outside the literal *)
Fixpoint unescape (fuel : nat) (l : list N) : option (list N) :=
  match fuel with
  | O => None
  | S f =>
      match l with
      | [] => Some []
      | c :: r =>
          if c =? 92 then
            match r with
            | [] => None
            | e :: r1 =>
                if negb (e =? 117) then
                  match unescape f r1 with Some o => Some (tbl0 dec_unescapeMap e :: o) | None => None end
                else
                  match r1 with
                  | h1 :: h2 :: h3 :: h4 :: r2 =>
                      let code := hex4 h1 h2 h3 h4 in
                      (* high surrogate, and src+11 < end *)
                      let paired :=
                        if (55296 <=? code) && (code <? 56320) && Nat.ltb 11 (length l) then
                          match r2 with
                          | b1 :: u1 :: g1 :: g2 :: g3 :: g4 :: r3 =>
                              let lo := hex4 g1 g2 g3 g4 in
                              if (b1 =? 92) && (u1 =? 117) && (56320 <=? lo) && (lo <? 57344)
                              then Some (N.lor (N.shiftl (code - 55296) 10) (lo - 56320) + 65536, r3)
                              else None
                          | _ => None
                          end
                        else None in
                      match paired with
                      | Some (cp, r3) =>
                          match unescape f r3 with Some o => Some (encode_rune cp ++ o) | None => None end
                      | None =>
                          match unescape f r2 with Some o => Some (encode_rune code ++ o) | None => None end
                      end
                  | _ => None
                  end
            end
          else match unescape f r with Some o => Some (c :: o) | None => None end
      end
  end.

(* literal[:unescapeString(literal)] : the part before the first backslash is kept *)
Fixpoint split_bs (l : list N) : list N * list N :=
  match l with
  | [] => ([], [])
  | c :: r => if c =? 92 then ([], l) else let '(a, b) := split_bs r in (c :: a, b)
  end.

Definition unquote (content : list N) (escaped : bool) : option (list N) :=
  if escaped then
    let '(pre, rest) := split_bs content in
    match unescape (S (length rest)) rest with Some o => Some (pre ++ o) | None => None end
  else Some content.

Inductive strres :=
| StrStuck
| StrRes (err : bool) (value : option (list N)).   (* None = destination untouched *)

(* stringDecoder.decodeByte + Decode + validateEndBuf *)
Fixpoint str_decode_byte (l : list N) : option (option (list N) * list N) + bool :=
  (* inl (Some (value?, rest)) ; inr true = error ; inr false = stuck *)
  match l with
  | [] => inr false
  | c :: r =>
      if is_ws c then str_decode_byte r
      else if c =? 34 then
        match scan_string (S (length r)) r [] false with
        | SSStuck => inr false
        | SSErr => inr true
        | SSOk content escaped rest =>
            match unquote content escaped with
            | Some v => inl (Some (Some v, rest))
            | None => inr false
            end
        end
      else if c =? 110 then
        match validate_null l with Some rest => inl (Some (None, rest)) | None => inr true end
      else inr true
  end.

Definition unmarshal_string (data : list N) : strres :=
  match str_decode_byte (data ++ [0]) with
  | inr false => StrStuck
  | inr true => StrRes true None
  | inl None => StrStuck
  | inl (Some (v, rest)) =>
      match validate_end rest with
      | None => StrStuck
      | Some okb => StrRes (negb okb) v
      end
  end.
