(* []byte values: Marshal writes them as a string holding base64.StdEncoding.Encode of the bytes
   (internal/encoder/encoder.go AppendByteSlice), Unmarshal hands the contents of a string to
   base64.StdEncoding.Decode (internal/decoder/bytes.go).  Both are calls into Go's library; what is modelled here
   is that library's contract as the two sites use it -- the padded standard alphabet, a decoder that steps over
   CR and LF, wants whole quanta, accepts `xx==` and `xxx=` only as the last quantum and nothing but CR / LF behind
   it, and does not look at the unused low bits of the last sextet -- so that the round trip of C04 can be stated
   for byte slices too.  The harness runs both functions beside the implementation and beside encoding/base64
   (ops c04.b64enc, c04.b64dec). *)
From Coq Require Import NArith List Bool.
From GJ Require Import Base.Bytes.
Import ListNotations.
Open Scope N_scope.

Definition b64chr (v : N) : N :=
  if v <? 26 then 65 + v else if v <? 52 then 71 + v else if v <? 62 then v - 4 else if v =? 62 then 43 else 47.

Definition b64val (c : N) : option N :=
  if (65 <=? c) && (c <=? 90) then Some (c - 65)
  else if (97 <=? c) && (c <=? 122) then Some (c - 71)
  else if (48 <=? c) && (c <=? 57) then Some (c + 4)
  else if c =? 43 then Some 62
  else if c =? 47 then Some 63
  else None.

Definition PAD : N := 61.

(* Encode: three bytes give four characters; one or two left over give two or three and padding *)
Fixpoint b64enc (bs : list N) : list N :=
  match bs with
  | a :: b :: c :: r =>
      b64chr (a / 4) :: b64chr ((a mod 4) * 16 + b / 16) :: b64chr ((b mod 16) * 4 + c / 64) :: b64chr (c mod 64) :: b64enc r
  | [a; b] => [b64chr (a / 4); b64chr ((a mod 4) * 16 + b / 16); b64chr ((b mod 16) * 4); PAD]
  | [a] => [b64chr (a / 4); b64chr ((a mod 4) * 16); PAD; PAD]
  | [] => []
  end.

Definition is_nl (c : N) : bool := (c =? 10) || (c =? 13).
Fixpoint skip_nl (l : list N) : list N :=
  match l with c :: r => if is_nl c then skip_nl r else l | [] => [] end.

(* the bytes a quantum of 2, 3 or 4 sextets stands for *)
Definition quantum_bytes (q : list N) : list N :=
  match q with
  | [s0; s1] => [(s0 * 4 + s1 / 16) mod 256]
  | [s0; s1; s2] => [(s0 * 4 + s1 / 16) mod 256; ((s1 mod 16) * 16 + s2 / 4) mod 256]
  | [s0; s1; s2; s3] => [(s0 * 4 + s1 / 16) mod 256; ((s1 mod 16) * 16 + s2 / 4) mod 256; ((s2 mod 4) * 64 + s3) mod 256]
  | _ => []
  end.

(* Decode: q holds the sextets of the quantum being read (in order), out the bytes so far (reversed) *)
Fixpoint b64dec_go (l : list N) (q : list N) (out : list N) : option (list N) :=
  match l with
  | [] => match q with [] => Some (rev out) | _ => None end
  | c :: r =>
      if is_nl c then b64dec_go r q out
      else match b64val c with
           | Some v =>
               let q' := q ++ [v] in
               if Nat.eqb (length q') 4 then b64dec_go r [] (rev (quantum_bytes q') ++ out)
               else b64dec_go r q' out
           | None =>
               if negb (c =? PAD) then None
               else match length q with
                    | 2%nat =>
                        match skip_nl r with
                        | c2 :: r2 => if c2 =? PAD then match skip_nl r2 with [] => Some (rev (rev (quantum_bytes q) ++ out)) | _ => None end
                                      else None
                        | [] => None
                        end
                    | 3%nat => match skip_nl r with [] => Some (rev (rev (quantum_bytes q) ++ out)) | _ => None end
                    | _ => None
                    end
           end
  end.

Definition b64dec (l : list N) : option (list N) := b64dec_go l [] [].

(* the characters Encode writes *)
Definition b64char (c : N) : bool :=
  match b64val c with Some _ => true | None => c =? PAD end.
