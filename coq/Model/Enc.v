(* The encoder's emission discipline (internal/encoder/vm/util.go): every value
   operation appends its text followed by a comma; closers overwrite the last
   comma; the entry point trims the final one.  Values are JSON-facing: scalar
   leaves carry their token (the leaf encoders are C16/C17), objects carry the
   members in emission order with an "omitted" flag (omitempty, nil embedded
   pointers); maps are objects whose members are already sorted. *)
From Coq Require Import NArith List Bool.
From GJ Require Import Spec.Json.
Import ListNotations.
Open Scope N_scope.

Definition COMMA : N := 44. Definition LBR : N := 91. Definition RBR : N := 93.
Definition LBC : N := 123. Definition RBC : N := 125. Definition COLON : N := 58.

Inductive jv :=
| JLeaf (t : tok)                            (* TStr / TNum / TTrue / TFalse / TNull *)
| JArr (l : list jv)
| JObj (l : list (list N * bool * jv)).      (* key body, omitted?, value *)

Definition scalar (t : tok) : bool :=
  match t with TStr _ | TNum _ | TTrue | TFalse | TNull => true | _ => false end.

(* ---- reference: the token sequence a value denotes (what encoding/json writes) ---- *)
Fixpoint sep_toks (l : list (list tok)) : list tok :=
  match l with [] => [] | [x] => x | x :: r => x ++ TComma :: sep_toks r end.

Fixpoint toks (v : jv) : list tok :=
  match v with
  | JLeaf t => [t]
  | JArr l => TLBrack :: sep_toks (map toks l) ++ [TRBrack]
  | JObj l => TLBrace :: sep_toks (flat_map (fun kv => match kv with
                                                       | (k, false, x) => [TStr k :: TColon :: toks x]
                                                       | (_, true, _) => [] end) l) ++ [TRBrace]
  end.

(* ---- the helper algebra of vm/util.go ---- *)
Definition set_last (b : list N) (c : N) : list N := removelast b ++ [c].
Definition appendComma (b : list N) := b ++ [COMMA].
Definition appendArrayHead (b : list N) := b ++ [LBR].
Definition appendArrayEnd (b : list N) := set_last b RBR ++ [COMMA].
Definition appendEmptyArray (b : list N) := b ++ [LBR; RBR; COMMA].
Definition appendStructHead (b : list N) := b ++ [LBC].
Definition appendStructEndSkipLast (b : list N) :=
  if N.eqb (last b 0) COMMA then set_last b RBC ++ [COMMA] else b ++ [RBC; COMMA].
Definition appendKey (b k : list N) := b ++ 34 :: k ++ [34; COLON].

(* emission as the interpreter does it *)
Fixpoint enc (v : jv) (b : list N) : list N :=
  match v with
  | JLeaf t => appendComma (b ++ raw_tok t)
  | JArr [] => appendEmptyArray b
  | JArr l => appendArrayEnd (fold_left (fun acc x => enc x acc) l (appendArrayHead b))
  | JObj l =>
      appendStructEndSkipLast
        (fold_left (fun acc kv => match kv with
                                  | (k, false, x) => enc x (appendKey acc k)
                                  | (_, true, _) => acc end) l (appendStructHead b))
  end.

(* encode.go: the final comma is cut off *)
Definition marshal (v : jv) : list N := removelast (enc v []).

(* ---- wire format used by the harness to hand a value to the extracted model ----
   S<len>:<body>  N<len>:<raw>  T  F  Z  A<count>:<items>  O<count>:(<0|1><len>:<key><value>)*   *)
Fixpoint take_num (l : list N) (acc : nat) (fuel : nat) : option (nat * list N) :=
  match fuel with
  | O => None
  | S f =>
      match l with
      | c :: r => if c =? 58 then Some (acc, r)
                  else if (48 <=? c) && (c <=? 57) then take_num r (acc * 10 + N.to_nat (c - 48)) f
                  else None
      | [] => None
      end
  end.

Fixpoint parse_jv (fuel : nat) (l : list N) : option (jv * list N) :=
  match fuel with
  | O => None
  | S f =>
      match l with
      | [] => None
      | c :: r =>
          if c =? 84 then Some (JLeaf TTrue, r)
          else if c =? 70 then Some (JLeaf TFalse, r)
          else if c =? 90 then Some (JLeaf TNull, r)
          else if (c =? 83) || (c =? 78) then
            match take_num r 0 20 with
            | Some (n, r1) => Some (JLeaf (if c =? 83 then TStr (firstn n r1) else TNum (firstn n r1)), skipn n r1)
            | None => None
            end
          else if c =? 65 then
            match take_num r 0 20 with
            | Some (n, r1) =>
                (fix items (k : nat) (l : list N) (acc : list jv) : option (jv * list N) :=
                   match k with
                   | O => Some (JArr (rev acc), l)
                   | S k' => match parse_jv f l with Some (v, l') => items k' l' (v :: acc) | None => None end
                   end) n r1 []
            | None => None
            end
          else if c =? 79 then
            match take_num r 0 20 with
            | Some (n, r1) =>
                (fix members (k : nat) (l : list N) (acc : list (list N * bool * jv)) : option (jv * list N) :=
                   match k with
                   | O => Some (JObj (rev acc), l)
                   | S k' =>
                       match l with
                       | o :: l1 =>
                           match take_num l1 0 20 with
                           | Some (kn, l2) =>
                               match parse_jv f (skipn kn l2) with
                               | Some (v, l3) => members k' l3 ((firstn kn l2, o =? 49, v) :: acc)
                               | None => None
                               end
                           | None => None
                           end
                       | [] => None
                       end
                   end) n r1 []
            | None => None
            end
          else None
      end
  end.
