(* Cycle detection of the encoder (internal/encoder/vm/vm.go: OpRecursive / OpRecursiveEnd,
   OpInterface / OpInterfaceEnd; ctx.SeenPtr, recursiveLevel, StartDetectingCyclesAfter).

   A value is a graph: nodes are the addresses the interpreter enters through a
   recursive-type or interface edge, `succ n` the nodes entered from n, in order.
   Entering n at nesting level `level`: when level is above the threshold and n is
   among the addresses remembered on the way down, the encoder gives up with an
   error; otherwise n is remembered, its successors are entered one after the other
   one level deeper, and n is forgotten again on the way out (so `seen` is always the
   path from the root).  Fuel bounds the depth of the recursion, not its breadth. *)
From Coq Require Import List Arith Bool.
Import ListNotations.

Inductive wres := WOk | WCycle | WFuel.

Section Cycle.
  Variable T : nat.                    (* StartDetectingCyclesAfter *)
  Variable succ : nat -> list nat.

  Section Each.
    Variable enter : nat -> wres.
    Fixpoint each (cs : list nat) : wres :=
      match cs with
      | [] => WOk
      | c :: r => match enter c with WOk => each r | e => e end
      end.
  End Each.

  Fixpoint walk (fuel level : nat) (seen : list nat) (n : nat) : wres :=
    match fuel with
    | O => WFuel
    | S f =>
        if (T <? level) && existsb (Nat.eqb n) seen then WCycle
        else each (walk f (S level) (n :: seen)) (succ n)
    end.
End Cycle.

(* Marshal of the root *)
Definition encode_graph (T : nat) (succ : nat -> list nat) (nodes : nat) (root : nat) : wres :=
  walk T succ (T + nodes + 2) 0 [] root.

(* graphs handed over by the harness: adjacency lists, node i = position i *)
Definition succ_of (adj : list (list nat)) (n : nat) : list nat := nth n adj [].
