(* First use of the type caches from several goroutines (internal/encoder/compiler.go initEncoder,
   internal/decoder/compile.go initDecoder): the address window is analysed and the cache slice allocated inside a
   sync.Once; every lookup calls the init function first and then indexes the slice.  The body of the Once makes two
   assignments (typeAddr, then the slice).  Whether a goroutine can get past the init function between the two is
   decided by how the init function is written: through the Once only (a second goroutine waits until the body has
   finished), or with a test of typeAddr in front of it (read without synchronisation).  Which one the source does is
   read by the translator (Gen/TypeAddr.v: enc_init_through_once_only, dec_init_through_once_only).
   Sequentially consistent steps; the Go memory model's weaker guarantees for the unsynchronised read only add
   behaviours to the refuted variant. *)
From Coq Require Import List Arith Bool.
Import ListNotations.

Inductive once := Fresh | Running (owner : nat) | Finished.
Record shared := { s_once : once; s_addr : bool; s_cache : bool }.   (* typeAddr assigned; cache slice allocated *)

(* where a goroutine stands *)
Inductive pc :=
| Enter            (* about to call the init function *)
| Body1            (* inside the Once body, before the first assignment *)
| Body2            (* between the two assignments *)
| Waiting          (* blocked in Once.Do while another goroutine runs the body *)
| Lookup           (* past the init function: indexes the cache slice *)
| Done (ok : bool).  (* ok = the slice was there *)

Definition step (fast_path : bool) (me : nat) (s : shared) (p : pc) : shared * pc :=
  match p with
  | Enter =>
      if fast_path && s_addr s then (s, Lookup)
      else match s_once s with
           | Fresh => ({| s_once := Running me; s_addr := s_addr s; s_cache := s_cache s |}, Body1)
           | Running _ => (s, Waiting)
           | Finished => (s, Lookup)
           end
  | Body1 => ({| s_once := s_once s; s_addr := true; s_cache := s_cache s |}, Body2)
  | Body2 => ({| s_once := Finished; s_addr := s_addr s; s_cache := true |}, Lookup)
  | Waiting => match s_once s with Finished => (s, Lookup) | _ => (s, Waiting) end
  | Lookup => (s, Done (s_cache s))
  | Done ok => (s, Done ok)
  end.

Fixpoint set_nth {A} (l : list A) (n : nat) (x : A) : list A :=
  match l, n with
  | [], _ => []
  | _ :: r, O => x :: r
  | y :: r, S k => y :: set_nth r k x
  end.

Definition sys := (shared * list pc)%type.
Definition sys_step (fast_path : bool) (st : sys) (i : nat) : sys :=
  match nth_error (snd st) i with
  | None => st
  | Some p => let '(s', p') := step fast_path i (fst st) p in (s', set_nth (snd st) i p')
  end.
Definition run (fast_path : bool) (n : nat) (schedule : list nat) : sys :=
  fold_left (sys_step fast_path) schedule ({| s_once := Fresh; s_addr := false; s_cache := false |}, repeat Enter n).
