(* Model of internal/encoder/int.go (AppendInt / AppendUint) and of the
   integer decoders' digit accumulation (internal/decoder/int.go, uint.go).
   Tables and constants come from Gen (regenerated from the source). *)
From Coq Require Import NArith ZArith List Bool Lia.
From GJ Require Import Base.Bytes Base.Word64 Gen.Tables.
Import ListNotations.
Open Scope N_scope.

(* ---------- encoder ---------- *)

Definition num_mask (bits : N) : N := wsub (N.shiftl 1 bits mod W) 1.

(* two bytes of a uint16 in memory order on a little-endian machine *)
Definition pair_bytes (u : N) : list N := [u mod 256; u / 256].

(* for n >= 100: j = n mod 100; n /= 100; prepend lookup[j] *)
Fixpoint digit_loop (fuel : nat) (n : N) (acc : list N) : N * list N :=
  match fuel with
  | O => (n, acc)
  | S f => if 100 <=? n
           then digit_loop f (n / 100) (pair_bytes (tbl0 enc_intLELookup (n mod 100)) ++ acc)
           else (n, acc)
  end.

(* the common tail of AppendInt / AppendUint after the fast paths *)
Definition digits_slow (n : N) : list N :=
  let '(m, acc) := digit_loop 11 n [] in
  let head := pair_bytes (tbl0 enc_intLELookup m) in
  (if m <? 10 then tl head else head) ++ acc.

Definition append_uint (bits : N) (u64 : N) : list N :=
  let n := N.land u64 (num_mask bits) in
  if n <? 10 then [n + 48]
  else if n <? 100 then pair_bytes (tbl0 enc_intLELookup n)
  else digits_slow n.

Definition append_int (bits : N) (u64 : N) : list N :=
  let mask := num_mask bits in
  let n := N.land u64 mask in
  let negative := N.land (N.shiftr u64 (bits - 1)) 1 =? 1 in
  if negative then
    45 :: digits_slow (N.land (wneg n) mask)
  else if n <? 10 then [n + 48]
  else if n <? 100 then pair_bytes (tbl0 enc_intLELookup n)
  else digits_slow n.

(* omitempty zero test used by the interpreter: u64 & mask == 0 *)
Definition int_is_zero (bits : N) (u64 : N) : bool := N.land u64 (num_mask bits) =? 0.

(* ---------- decoder ---------- *)

(* sum of (b[i]-48) * pow10[len-i-1] in 64-bit wrap-around arithmetic,
   exactly as parseInt/parseUint compute it *)
Fixpoint acc_digits (pow : list N) (b : list N) (sum : N) : option N :=
  match b with
  | [] => Some sum
  | c :: r =>
      match tbl pow (N.of_nat (length r)) with
      | None => None            (* would index out of the pow10 table *)
      | Some p => acc_digits pow r (wadd sum (wmul (wsub c 48) p))
      end
  end.

Definition to_signed64 (u : N) : Z :=
  if u <? 9223372036854775808 then Z.of_N u else (Z.of_N u - 18446744073709551616)%Z.

Inductive pres :=
| PErr            (* parse error *)
| PVal (z : Z).

(* "18446744073709551615" *)
Definition max_u64_digits : list N :=
  [49;56;52;52;54;55;52;52;48;55;51;55;48;57;53;53;49;54;49;53].

(* Go's string comparison (bytewise lexicographic) a > b *)
Fixpoint bytes_gtb (a b : list N) : bool :=
  match a, b with
  | [], _ => false
  | _ :: _, [] => true
  | x :: a', y :: b' => if y <? x then true else if x <? y then false else bytes_gtb a' b'
  end.

Definition parse_uint (b : list N) : pres :=
  let len := N.of_nat (length b) in
  let plen := N.of_nat (length dec_pow10u64) in
  if plen <? len then PErr
  else if (len =? plen) && bytes_gtb b max_u64_digits then PErr
  else match acc_digits dec_pow10u64 b 0 with
       | Some s => PVal (Z.of_N s)
       | None => PErr
       end.

Definition parse_int (b : list N) : pres :=
  let '(neg, d) := match b with 45 :: r => (true, r) | _ => (false, b) end in
  let len := N.of_nat (length d) in
  if len =? 0 then PErr
  else if (1 <? len) && (hd 0 d =? 48) then PErr
  else if N.of_nat (length dec_pow10i64) <? len then PErr
  else match acc_digits dec_pow10i64 d 0 with
       | Some s =>
           if neg then
             if 9223372036854775808 <? s then PErr else PVal (to_signed64 (wneg s))
           else
             if 9223372036854775807 <? s then PErr else PVal (to_signed64 s)
       | None => PErr
       end.

(* --- buffer-mode scanner (intDecoder.decodeByte / uintDecoder.decodeByte) ---
   The buffer is src = data ++ [0]; a cursor is represented by the suffix of
   src it points at (cursors only move forward).  Reading at the empty suffix
   is a read past the end of the array: Stuck, never a default. *)

Definition is_ws (c : N) : bool := (c =? 32) || (c =? 10) || (c =? 9) || (c =? 13).

(* for numTable[buf[cursor]] { cursor++ } *)
Fixpoint take_digits (l : list N) : option (list N * list N) :=
  match l with
  | [] => None
  | c :: r => if tblb dec_numTable c
              then match take_digits r with Some (ds, rest) => Some (c :: ds, rest) | None => None end
              else Some ([], l)
  end.

Inductive scan :=
| SStuck                       (* out-of-range read: a Go panic or worse *)
| SErr
| SNull (rest : list N)
| SNum (num : list N) (rest : list N).

(* validateNull(buf, cursor): cursor+3 >= len(buf) is an error *)
Definition validate_null (l : list N) : option (list N) :=
  match l with
  | _ :: c1 :: c2 :: c3 :: rest =>
      if (c1 =? 117) && (c2 =? 108) && (c3 =? 108)
      then match rest with [] => None | _ => Some rest end
      else None
  | _ => None
  end.

Fixpoint int_decode_byte (signed : bool) (l : list N) : scan :=
  match l with
  | [] => SStuck
  | c :: r =>
      if is_ws c then int_decode_byte signed r
      else if c =? 48 then SNum [48] r
      else if ((49 <=? c) && (c <=? 57)) || (signed && (c =? 45)) then
        match take_digits r with
        | None => SStuck
        | Some (ds, rest) => SNum (c :: ds) rest
        end
      else if c =? 110 then
        match validate_null l with Some rest => SNull rest | None => SErr end
      else SErr
  end.

(* validateEndBuf (decode.go), after the fix: only the final sentinel ends input *)
Fixpoint validate_end (l : list N) : option bool :=
  match l with
  | [] => None
  | c :: r =>
      if is_ws c then validate_end r
      else if c =? 0 then Some (match r with [] => true | _ => false end)
      else Some false
  end.

Definition in_range (signed : bool) (bits : N) (z : Z) : bool :=
  if signed then ((- 2 ^ (Z.of_N bits - 1) <=? z) && (z <? 2 ^ (Z.of_N bits - 1)))%Z
  else ((0 <=? z) && (z <? 2 ^ Z.of_N bits))%Z.

(* result of Unmarshal(data, &x) for an integer x: error verdict and what was
   stored (None = destination untouched) *)
Inductive ures :=
| UStuck
| URes (err : bool) (stored : option Z).

Definition unmarshal_int (signed : bool) (bits : N) (data : list N) : ures :=
  let src := data ++ [0] in
  match int_decode_byte signed src with
  | SStuck => UStuck
  | SErr => URes true None
  | SNull rest =>
      match validate_end rest with
      | None => UStuck
      | Some ok => URes (negb ok) None
      end
  | SNum num rest =>
      match (if signed then parse_int num else parse_uint num) with
      | PErr => URes true None
      | PVal z =>
          (* per-kind range check: the code checks 8/16/32 explicitly, 64 in parse *)
          if in_range signed bits z then
            match validate_end rest with
            | None => UStuck
            | Some ok => URes (negb ok) (Some z)
            end
          else URes true None
      end
  end.

(* Decoder.Decode (stream mode, int.go / uint.go DecodeStream): the same scan, but a fraction or an exponent behind
   the digits is refused before anything is stored (Stream.numberGoesOn) *)
Definition float_tail (rest : list N) : bool :=
  match rest with c :: _ => (c =? 46) || (c =? 101) || (c =? 69) | [] => false end.

Definition unmarshal_int_stream (signed : bool) (bits : N) (data : list N) : ures :=
  match int_decode_byte signed (data ++ [0]) with
  | SNum _ rest => if float_tail rest then URes true None else unmarshal_int signed bits data
  | _ => unmarshal_int signed bits data
  end.
