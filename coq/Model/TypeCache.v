(* The per-type program caches: the translated address analysis and lookups
   (Gen/TypeAddr.v) and the publish protocol of CompileToGetCodeSet /
   CompileToGetDecoder run by any number of goroutines under any schedule. *)
From Coq Require Import NArith List Bool.
From GJ Require Import Base.TypeAddrBase Gen.TypeAddr.
Import ListNotations.
Open Scope N_scope.

Definition analyze (l : list sample) : option typeaddr :=
  analyze_finish (fold_left analyze_step l analyze_init).

(* initEncoder / initDecoder: a nil result is replaced by &TypeAddr{} *)
Definition ta_zero : typeaddr := {| ta_base := 0; ta_max := 0; ta_range := 0; ta_shift := 0 |}.
Definition effective (l : list sample) : typeaddr :=
  match analyze l with Some ta => ta | None => ta_zero end.

Inductive slot := Slow | Fast (i : N) | Panic.   (* Panic = index out of range *)

Definition lookup (slow : typeaddr -> N -> bool) (index : typeaddr -> N -> N) (len : typeaddr -> N)
                  (ta : typeaddr) (typeptr : N) : slot :=
  if slow ta typeptr then Slow
  else let i := index ta typeptr in if i <? len ta then Fast i else Panic.

Definition enc_norace := lookup enc_norace_slow enc_norace_index enc_cache_len.
Definition enc_race   := lookup enc_race_slow enc_race_index enc_cache_len.
Definition dec_norace := lookup dec_norace_slow dec_norace_index dec_cache_len.
Definition dec_race   := lookup dec_race_slow dec_race_index dec_cache_len.

(* ---------- the publish protocol ---------- *)

(* a program is identified by the type it was compiled from *)
Definition prog := N.
Definition compile (t : N) : prog := t.

Fixpoint assoc (m : list (N * prog)) (t : N) : option prog :=
  match m with
  | [] => None
  | (k, p) :: r => if k =? t then Some p else assoc r t
  end.

Inductive pc :=
| Start
| FastLoaded (i : N) (c : option prog)     (* read cached[index] *)
| FastCompiled (i : N) (p : prog)          (* compiled, not yet stored *)
| SlowLoaded (m : list (N * prog))         (* atomic load of the map pointer *)
| SlowCompiled (m : list (N * prog)) (p : prog)
| Done (p : prog)                          (* the program the call goes on to run *)
| Crashed.

Record cache := { fast : N -> option prog; slowmap : list (N * prog) }.
Definition cache0 : cache := {| fast := fun _ => None; slowmap := [] |}.
Definition upd (f : N -> option prog) (i : N) (p : prog) : N -> option prog :=
  fun j => if j =? i then Some p else f j.

Definition thread := (N * pc)%type.     (* the type being looked up, and where the goroutine is *)

Definition step (look : N -> slot) (c : cache) (th : thread) : cache * thread :=
  let '(t, p) := th in
  match p with
  | Start =>
      match look t with
      | Fast i => (c, (t, FastLoaded i (fast c i)))
      | Slow => (c, (t, SlowLoaded (slowmap c)))
      | Panic => (c, (t, Crashed))
      end
  | FastLoaded i (Some q) => (c, (t, Done q))
  | FastLoaded i None => (c, (t, FastCompiled i (compile t)))
  | FastCompiled i q => ({| fast := upd (fast c) i q; slowmap := slowmap c |}, (t, Done q))
  | SlowLoaded m =>
      match assoc m t with
      | Some q => (c, (t, Done q))
      | None => (c, (t, SlowCompiled m (compile t)))
      end
  | SlowCompiled m q => ({| fast := fast c; slowmap := (t, q) :: m |}, (t, Done q))   (* copy + atomic store *)
  | Done q => (c, (t, Done q))
  | Crashed => (c, (t, Crashed))
  end.

Fixpoint set_nth {A} (l : list A) (n : nat) (x : A) : list A :=
  match l, n with
  | [], _ => []
  | _ :: r, O => x :: r
  | y :: r, S k => y :: set_nth r k x
  end.

Definition sys := (cache * list thread)%type.
Definition sys_step (look : N -> slot) (s : sys) (i : nat) : sys :=
  let '(c, ths) := s in
  match nth_error ths i with
  | None => s
  | Some th => let '(c', th') := step look c th in (c', set_nth ths i th')
  end.
(* a schedule is the list of goroutine numbers in the order they take a step *)
Definition run (look : N -> slot) (s : sys) (schedule : list nat) : sys := fold_left (sys_step look) schedule s.
Definition start (types : list N) : sys := (cache0, map (fun t => (t, Start)) types).
