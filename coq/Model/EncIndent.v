(* The indenting interpreter's emission discipline (internal/encoder/vm_indent/util.go,
   encode.go encodeIndent): every value operation appends its text followed by
   ",\n"; heads open a line; element and key operations write the indentation;
   closers overwrite the last ",\n"; the entry point cuts the final ",\n" off.
   appendIndent writes the prefix and (BaseIndent + n) copies of the indent string. *)
From Coq Require Import NArith List Bool.
From GJ Require Import Spec.Json Model.Enc.
Import ListNotations.
Open Scope N_scope.

Section Indent.
  Variables pre ind : list N.

  Definition NL : N := 10.
  Definition SP : N := 32.

  Definition appendIndent (b : list N) (n : nat) : list N := b ++ pre ++ repeat_bytes n ind.

  Definition drop2 (b : list N) : list N := removelast (removelast b).

  Definition i_appendComma (b : list N) := b ++ [COMMA; NL].
  Definition i_appendArrayHead (b : list N) (d : nat) := appendIndent (b ++ [LBR; NL]) (S d).
  Definition i_appendArrayElemIndent (b : list N) (d : nat) := appendIndent b (S d).
  Definition i_appendArrayEnd (b : list N) (d : nat) := appendIndent (drop2 b ++ [NL]) d ++ [RBR; COMMA; NL].
  Definition i_appendEmptyArray (b : list N) := b ++ [LBR; RBR; COMMA; NL].
  Definition i_appendStructHead (b : list N) := b ++ [LBC; NL].
  (* code.Key is the quoted key followed by a colon; Indent of a member is one more than that of its struct *)
  Definition i_appendStructKey (b : list N) (d : nat) (k : list N) := appendIndent b (S d) ++ 34 :: k ++ [34; COLON] ++ [SP].
  Definition i_appendStructEndSkipLast (b : list N) (d : nat) :=
    if N.eqb (last (removelast b) 0) LBC then i_appendComma (removelast b ++ [RBC])
    else
      let b1 := if N.eqb (last b 0) NL then drop2 b else b in
      i_appendComma (appendIndent (b1 ++ [NL]) d ++ [RBC]).

  (* the walk of the interpreter over a value at nesting depth d *)
  Fixpoint enc_i (d : nat) (v : jv) (b : list N) : list N :=
    match v with
    | JLeaf t => i_appendComma (b ++ raw_tok t)
    | JArr [] => i_appendEmptyArray b
    | JArr (x :: r) =>
        i_appendArrayEnd
          (fold_left (fun acc y => enc_i (S d) y (i_appendArrayElemIndent acc d)) r (enc_i (S d) x (i_appendArrayHead b d))) d
    | JObj l =>
        i_appendStructEndSkipLast
          (fold_left (fun acc kv => match kv with
                                    | (k, false, x) => enc_i (S d) x (i_appendStructKey acc d k)
                                    | (_, true, _) => acc end) l (i_appendStructHead b)) d
    end.

  (* encode.go: the final comma and newline are cut off *)
  Definition marshal_indent (v : jv) : list N := drop2 (enc_i 0 v []).
End Indent.
