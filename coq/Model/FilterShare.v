(* First use of field queries from several goroutines (internal/encoder/code.go Filter, compiler.go
   getFilteredCodeSet): every goroutine filters the cached, shared code tree of the type by its own query and
   turns the result into a program.  A node that carries the query (an interface member, a marshaler) either
   answers Filter with a NEW node holding the query, or writes the query into itself and answers itself.
   Threads: step 1 = Filter(q), step 2 = ToOpcode (reads the query back).  A schedule is a list of thread ids. *)
From Coq Require Import List Arith Bool.
Import ListNotations.

Record fthread := { f_query : nat; f_pc : nat; f_local : option nat (* the query in the thread's own node *); f_result : option nat }.
Record fstate := { shared_fq : option nat; threads : list fthread }.

Definition fstep_thread (writes_receiver : bool) (sh : option nat) (t : fthread) : option nat * fthread :=
  match f_pc t with
  | 0 => (* Filter(q) *)
      if writes_receiver
      then (Some (f_query t), {| f_query := f_query t; f_pc := 1; f_local := None; f_result := None |})
      else (sh, {| f_query := f_query t; f_pc := 1; f_local := Some (f_query t); f_result := None |})
  | 1 => (* ToOpcode: code.FieldQuery = c.fieldQuery *)
      (sh, {| f_query := f_query t; f_pc := 2; f_local := f_local t;
              f_result := if writes_receiver then sh else f_local t |})
  | _ => (sh, t)
  end.

Fixpoint set_nth {A} (l : list A) (n : nat) (x : A) : list A :=
  match l, n with
  | [], _ => []
  | _ :: r, O => x :: r
  | y :: r, S k => y :: set_nth r k x
  end.

Definition fstep (w : bool) (s : fstate) (i : nat) : fstate :=
  match nth_error (threads s) i with
  | None => s
  | Some t => let '(sh, t') := fstep_thread w (shared_fq s) t in {| shared_fq := sh; threads := set_nth (threads s) i t' |}
  end.
Definition frun (w : bool) (s : fstate) (schedule : list nat) : fstate := fold_left (fstep w) schedule s.
Definition finit (queries : list nat) : fstate :=
  {| shared_fq := None; threads := map (fun q => {| f_query := q; f_pc := 0; f_local := None; f_result := None |}) queries |}.
