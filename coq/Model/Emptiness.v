(* What omitempty leaves out when the field's type implements json.Marshaler / encoding.TextMarshaler: the library asks
   encoder.IsNilForMarshaler, whose answers per kind the translator reads from the source (Gen/Twins.v,
   marshaler_field_empty_rules); encoding/json asks isEmptyValue.  A value is seen through the observations both use. *)
From Coq Require Import List String Bool.
Import ListNotations.
Open Scope string_scope.

Record aval := {
  kind : string;        (* reflect.Kind of the field's value *)
  truth : bool;         (* Bool: the value *)
  num_zero : bool;      (* numbers: compares equal to 0 (so does the negative zero of a float) *)
  bits_zero : bool;     (* floats: all bits 0 (the positive zero) *)
  is_nil : bool;        (* Interface, Map, Ptr, Func, Slice, Chan: nil *)
  len_zero : bool       (* Array, Map, Slice, String: no elements *)
}.

Inductive rule := RNotTrue | RNumZero | RBitsZero | RNil | RNilOrEmpty | REmpty | RNever | RUnknown.

Definition parse_rule (s : string) : rule :=
  if s =? "return !rv.Bool()" then RNotTrue else
  if s =? "return rv.Int() == 0" then RNumZero else
  if s =? "return rv.Uint() == 0" then RNumZero else
  if s =? "return math.Float64bits(rv.Float()) == 0" then RBitsZero else
  if s =? "return rv.Float() == 0" then RNumZero else
  if s =? "return rv.IsNil()" then RNil else
  if s =? "return rv.IsNil() || rv.Len() == 0" then RNilOrEmpty else
  if s =? "return rv.Len() == 0" then REmpty else
  if s =? "return false" then RNever else RUnknown.

(* "Kind: text" *)
Fixpoint rule_text (rules : list string) (k : string) : option string :=
  match rules with
  | [] => None
  | r :: rest =>
      let pre := k ++ ": " in
      if prefix pre r then Some (substring (length pre) (length r - length pre) r) else rule_text rest k
  end.

Definition rule_of (rules : list string) (k : string) : rule :=
  match rule_text rules k with
  | Some t => parse_rule t
  | None => match rule_text rules "otherwise" with Some t => parse_rule t | None => RUnknown end
  end.

Definition apply_rule (r : rule) (v : aval) : option bool :=
  match r with
  | RNotTrue => Some (negb (truth v))
  | RNumZero => Some (num_zero v)
  | RBitsZero => Some (bits_zero v)
  | RNil => Some (is_nil v)
  | RNilOrEmpty => Some (is_nil v || len_zero v)
  | REmpty => Some (len_zero v)
  | RNever => Some false
  | RUnknown => None
  end.

Definition impl_empty (rules : list string) (v : aval) : option bool := apply_rule (rule_of rules (kind v)) v.

(* the interpreter's two cases (vm.go, OpStructHeadOmitEmpty<Marshaler> for the first member, OpStructFieldOmitEmpty<Marshaler>
   for the others): a value stored as one pointer is read out of its slot first, and the case may leave the member out for a
   nil one before it asks (Gen/Twins.v says which case does) *)
Inductive position := First | Later.
Definition pointer_shaped (k : string) : bool := existsb (String.eqb k) ["Ptr"; "Map"; "Func"; "Chan"; "UnsafePointer"].
Definition impl_omits (rules : list string) (head_skips field_skips : bool) (pos : position) (v : aval) : option bool :=
  let skips := match pos with First => head_skips | Later => field_skips end in
  if skips && pointer_shaped (kind v) && is_nil v then Some true else impl_empty rules v.

Definition is_in (k : string) (l : list string) : bool := existsb (String.eqb k) l.
Definition int_kinds := ["Int"; "Int8"; "Int16"; "Int32"; "Int64"; "Uint"; "Uint8"; "Uint16"; "Uint32"; "Uint64"; "Uintptr"].
Definition float_kinds := ["Float32"; "Float64"].

(* encoding/json isEmptyValue *)
Definition std_empty (v : aval) : bool :=
  let k := kind v in
  if is_in k ["Array"; "Map"; "Slice"; "String"] then len_zero v else
  if k =? "Bool" then negb (truth v) else
  if is_in k int_kinds || is_in k float_kinds then num_zero v else
  if is_in k ["Interface"; "Ptr"] then is_nil v else false.

(* the observations of one value hang together *)
Definition coherent (v : aval) : bool :=
  implb (bits_zero v) (num_zero v) && implb (is_nil v) (len_zero v || negb (is_in (kind v) ["Map"; "Slice"])) &&
  implb (is_nil v) (is_in (kind v) ["Interface"; "Map"; "Ptr"; "Func"; "Slice"; "Chan"; "UnsafePointer"]).

(* where the two are known to part: a nil func / chan after the first member (the interpreter's case for a later
   member leaves a nil pointer-shaped value out before it asks; encoding/json keeps what is neither pointer nor map) *)
Definition named_exception (pos : position) (v : aval) : bool :=
  match pos with Later => is_in (kind v) ["Func"; "Chan"; "UnsafePointer"] && is_nil v | First => false end.
