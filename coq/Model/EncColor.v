(* The colouring interpreter (internal/encoder/vm_color/util.go): the emission discipline of Model/Enc.v with every
   scalar and every struct key written between the header and the footer the colour scheme has for its kind
   (appendInt, appendString, appendBool, appendNull, appendStructKey, ...).  The emission function is written once,
   over the renderers of a leaf and of a key; Model/Enc.v is the instance without colour. *)
From Coq Require Import NArith List Bool.
From GJ Require Import Spec.Json Model.Enc.
Import ListNotations.
Open Scope N_scope.

Section Gen.
  Variable L : tok -> list N.          (* what a scalar operation appends *)
  Variable K : list N -> list N.       (* what appendStructKey appends before the colon *)

  Definition appendKey_g (b k : list N) := b ++ K k ++ [COLON].

  Fixpoint enc_g (v : jv) (b : list N) : list N :=
    match v with
    | JLeaf t => appendComma (b ++ L t)
    | JArr [] => appendEmptyArray b
    | JArr l => appendArrayEnd (fold_left (fun acc x => enc_g x acc) l (appendArrayHead b))
    | JObj l =>
        appendStructEndSkipLast
          (fold_left (fun acc kv => match kv with
                                    | (k, false, x) => enc_g x (appendKey_g acc k)
                                    | (_, true, _) => acc end) l (appendStructHead b))
    end.
  Definition marshal_g (v : jv) : list N := removelast (enc_g v []).

  (* reference renderer *)
  Fixpoint sepcat_g (l : list (list N)) : list N :=
    match l with [] => [] | [x] => x | x :: r => x ++ [COMMA] ++ sepcat_g r end.
  Fixpoint render_g (v : jv) : list N :=
    match v with
    | JLeaf t => L t
    | JArr l => [LBR] ++ sepcat_g (map render_g l) ++ [RBR]
    | JObj l => [LBC] ++ sepcat_g (flat_map (fun kv => match kv with
                                                     | (k, false, x) => [K k ++ [COLON] ++ render_g x]
                                                     | (_, true, _) => [] end) l) ++ [RBC]
    end.
End Gen.

(* a colour scheme: header and footer per kind of token *)
Inductive ckind := CNum | CStr | CBool | CNull | CKey.
Definition scheme := ckind -> list N * list N.
Definition kind_of (t : tok) : ckind :=
  match t with TStr _ => CStr | TNum _ => CNum | TTrue | TFalse => CBool | _ => CNull end.
Definition wrap (s : scheme) (k : ckind) (body : list N) : list N := fst (s k) ++ body ++ snd (s k).
Definition leaf_c (s : scheme) (t : tok) : list N := wrap s (kind_of t) (raw_tok t).
Definition key_c (s : scheme) (k : list N) : list N := wrap s CKey (34 :: k ++ [34]).

Definition marshal_color (s : scheme) (v : jv) : list N := marshal_g (leaf_c s) (key_c s) v.
Definition no_colour : scheme := fun _ => ([], []).

(* the same text in pieces: markers and everything else, so that "the output without the markers" is defined
   whatever bytes the markers consist of *)
Inductive piece := Mark (m : list N) | Txt (b : list N).
Definition wrap_p (s : scheme) (k : ckind) (body : list N) : list piece := [Mark (fst (s k)); Txt body; Mark (snd (s k))].
Fixpoint sepcat_p (l : list (list piece)) : list piece :=
  match l with [] => [] | [x] => x | x :: r => x ++ [Txt [COMMA]] ++ sepcat_p r end.
Fixpoint render_p (s : scheme) (v : jv) : list piece :=
  match v with
  | JLeaf t => wrap_p s (kind_of t) (raw_tok t)
  | JArr l => [Txt [LBR]] ++ sepcat_p (map (render_p s) l) ++ [Txt [RBR]]
  | JObj l => [Txt [LBC]] ++ sepcat_p (flat_map (fun kv => match kv with
                                                           | (k, false, x) => [wrap_p s CKey (34 :: k ++ [34]) ++ [Txt [COLON]] ++ render_p s x]
                                                           | (_, true, _) => [] end) l) ++ [Txt [RBC]]
  end.
Definition all_bytes (ps : list piece) : list N := flat_map (fun p => match p with Mark m => m | Txt b => b end) ps.
Definition text_bytes (ps : list piece) : list N := flat_map (fun p => match p with Mark _ => [] | Txt b => b end) ps.
