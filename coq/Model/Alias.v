(* Who may write where: the caller's input buffers, the pooled encoder buffers
   and the slices handed to the caller, as memory regions.  The two flags say
   whether Marshal hands out the pooled buffer itself and whether Unmarshal
   decodes from the caller's bytes instead of a fresh copy; the translator
   reads them from the source (Gen/PoolUse.v). *)
From Coq Require Import NArith List Bool Arith.
Import ListNotations.

Record amem := { acont : nat -> list N; anext : nat; apool : list nat }.
Definition amem0 : amem := {| acont := fun _ => []; anext := 0; apool := [] |}.
Definition awrite (m : amem) (r : nat) (v : list N) : amem :=
  {| acont := fun j => if Nat.eqb j r then v else acont m j; anext := anext m; apool := apool m |}.

Inductive aop :=
| AMarshal (x : list N)                  (* a Marshal* call producing the bytes x *)
| AMutateResult (k : nat) (v : list N)   (* the caller overwrites the k-th thing it holds *)
| AUnmarshal (d : list N)                (* an Unmarshal* call on a caller buffer holding d; the decoded value views the bytes *)
| AScribbleInput (j : nat) (v : list N). (* the caller overwrites its j-th input buffer afterwards *)

(* what the caller holds: (region, the bytes it last saw or wrote there) *)
Record astate := { am : amem; views : list (nat * list N); inputs : list nat }.
Definition astate0 : astate := {| am := amem0; views := []; inputs := [] |}.

Definition astep (returns_pooled input_not_copied : bool) (s : astate) (o : aop) : astate :=
  let m := am s in
  match o with
  | AMarshal x =>
      (* take a context, encode into its buffer *)
      let '(c, m1) := match apool m with
                      | c :: r => (c, {| acont := acont m; anext := anext m; apool := r |})
                      | [] => (anext m, {| acont := acont m; anext := S (anext m); apool := [] |})
                      end in
      let m2 := awrite m1 c x in
      if returns_pooled then
        {| am := {| acont := acont m2; anext := anext m2; apool := c :: apool m2 |}; views := views s ++ [(c, x)]; inputs := inputs s |}
      else
        (* copied := make; copy(copied, buf); release *)
        let r := anext m2 in
        let m3 := awrite {| acont := acont m2; anext := S (anext m2); apool := apool m2 |} r (acont m2 c) in
        {| am := {| acont := acont m3; anext := anext m3; apool := c :: apool m3 |}; views := views s ++ [(r, x)]; inputs := inputs s |}
  | AMutateResult k v =>
      match nth_error (views s) k with
      | None => s
      | Some (r, _) =>
          {| am := awrite m r v;
             views := map (fun p => if Nat.eqb (fst p) r then (fst p, v) else p) (views s);
             inputs := inputs s |}
      end
  | AUnmarshal d =>
      (* the caller's buffer *)
      let rd := anext m in
      let m1 := awrite {| acont := acont m; anext := S (anext m); apool := apool m |} rd d in
      if input_not_copied then
        {| am := m1; views := views s ++ [(rd, d)]; inputs := inputs s ++ [rd] |}
      else
        let src := anext m1 in
        let m2 := awrite {| acont := acont m1; anext := S (anext m1); apool := apool m1 |} src (acont m1 rd) in
        {| am := m2; views := views s ++ [(src, d)]; inputs := inputs s ++ [rd] |}
  | AScribbleInput j v =>
      match nth_error (inputs s) j with
      | None => s
      | Some r => {| am := awrite m r v; views := views s; inputs := inputs s |}
      end
  end.

Definition arun (rp nc : bool) (ops : list aop) : astate := fold_left (astep rp nc) ops astate0.

(* everything the caller holds still reads as the caller last saw or wrote it *)
Definition views_intact (s : astate) : Prop := Forall (fun p => acont (am s) (fst p) = snd p) (views s).

(* ---- values with marshalers: what MarshalJSON / MarshalText returns is a window into memory the caller
   holds (a json.RawMessage cut out of an earlier result or of an input, a marshaler's own scratch space).
   The encoder copies it into the pooled MarshalBuf before it appends the sentinel its scanners need; with
   the flag set it appends the sentinel to the returned slice itself, i.e. writes behind the window. *)
Inductive aop2 :=
| ABase (o : aop)
| AMarshalVia (k : nat).     (* Marshal of a value whose marshaler returns the k-th thing the caller holds *)

Definition astep2 (writes_marshaler_result : bool) (s : astate) (o : aop2) : astate :=
  match o with
  | ABase o => astep false false s o
  | AMarshalVia k =>
      match nth_error (views s) k with
      | None => s
      | Some (r, _) =>
          let out := acont (am s) r in
          let s1 := if writes_marshaler_result
                    then {| am := awrite (am s) r (out ++ [0%N]); views := views s; inputs := inputs s |}
                    else s in
          astep false false s1 (AMarshal out)
      end
  end.
Definition arun2 (w : bool) (ops : list aop2) : astate := fold_left (astep2 w) ops astate0.
