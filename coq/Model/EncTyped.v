(* What Marshal writes for a Go value of a given type -- the value tree the
   emission models (Model/Enc.v, Model/EncIndent.v) then turn into text.
   Same fragment as Model/Decode.v: bool, integers of every width, strings,
   interface{} holding JSON-natural values, pointers, slices, arrays, maps with
   string keys (members in the order of their keys), structs, []byte (base64).  Leaves are
   written by the leaf encoders of C16 (AppendInt / AppendUint) and C17
   (AppendString, HTML escaping and UTF-8 normalisation on: Marshal's defaults).
   The harness runs this beside go-json's Marshal and encoding/json's (op c01.typed). *)
From Coq Require Import NArith ZArith List Bool.
From GJ Require Import Base.Bytes Spec.Json Gen.Tables Gen.Swar Model.Int Model.StrEnc Model.Enc Model.Decode Model.Base64.
Import ListNotations.
Open Scope N_scope.

Definition twos_c (bits : N) (z : Z) : N := Z.to_N (z mod 2 ^ Z.of_N bits).

(* the body AppendString writes between the quotes *)
Definition esc (s : list N) : list N := removelast (tl (append_string_v true true s)).

Fixpoint jv_of_gen (g : gen) : jv :=
  match g with
  | GNull => JLeaf TNull
  | GTrue => JLeaf TTrue
  | GFalse => JLeaf TFalse
  | GNum raw => JLeaf (TNum raw)
  | GStr s => JLeaf (TStr (esc s))
  | GArr l => JArr (map jv_of_gen l)
  | GObj l => JObj (map (fun kv : list N * jv => (esc (fst kv), false, snd kv))
                        (sort_keys (map (fun kg : list N * gen => (fst kg, jv_of_gen (snd kg))) l)))
  end.

Definition JNULL : jv := JLeaf TNull.
Definition JBAD : jv := JLeaf (TNum [63]).   (* value and type do not fit: never produced by the harness *)

Fixpoint encj (t : ty) (v : gv) : jv :=
  match t, v with
  | TBool, VBool b => JLeaf (if b then TTrue else TFalse)
  | TInt bits, VInt z => JLeaf (TNum (append_int bits (twos_c bits z)))
  | TUint bits, VInt z => JLeaf (TNum (append_uint bits (Z.to_N z)))
  | TString, VStr s => JLeaf (TStr (esc s))
  | TIface, VNil => JNULL
  | TIface, VIface g => jv_of_gen g
  | TPtr _, VNil => JNULL
  | TPtr e, VPtr x => encj e x
  | TSlice _, VNil => JNULL
  | TSlice e, VSlice l => JArr (map (encj e) l)
  | TArr _ e, VArr l => JArr (map (encj e) l)
  | TMap _, VNil => JNULL
  | TMap e, VMap l =>
      JObj (map (fun kv : list N * jv => (esc (fst kv), false, snd kv))
                (sort_keys (map (fun kx : list N * gv => (fst kx, encj e (snd kx))) l)))
  | TStruct fs, VStruct l =>
      JObj ((fix fields (fs : list (list N * ty)) (l : list gv) : list (list N * bool * jv) :=
               match fs, l with
               | (k, ft) :: fr, x :: lr => (esc k, false, encj ft x) :: fields fr lr
               | _, _ => []
               end) fs l)
  | TMapI _ _ _, VNil => JNULL
  | TMapI _ _ e, VMap l =>
      (* the keys are what the integer printer wrote: no escaping; the members in the order of these texts *)
      JObj (map (fun kv : list N * jv => (fst kv, false, snd kv))
                (sort_keys (map (fun kx : list N * gv => (fst kx, encj e (snd kx))) l)))
  | TBytes, VNil => JNULL
  | TBytes, VSlice l => JLeaf (TStr (b64enc (map (fun x => match x with VInt z => Z.to_N z | _ => 0 end) l)))
  | _, _ => JBAD
  end.

(* Marshal: the compact text of the tree *)
Definition marshal_typed (t : ty) (v : gv) : list N := marshal (encj t v).
