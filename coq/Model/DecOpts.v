(* Options given to one call of a long-lived Decoder (Decoder.DecodeWithOption / DecodeContext, decode.go): the
   Decoder carries one Option value for its whole life (UseNumber, DisallowUnknownFields set it up); a call applies
   its own option functions to that value, decodes, and puts the saved value back.  Where the putting back happens
   decides whether a later call can notice an earlier one: in a deferred statement it happens on every way out of the
   call (value decoded, error returned, panic of a user Unmarshaler passing through); as a plain statement before
   the final return it happens only when the call succeeded.  Which of the two the source does is read by the
   translator (Gen/Resets.v: decoder_call_options_restore). *)
From Coq Require Import NArith List Bool.
Import ListNotations.

Inductive way_out := Decoded | ReturnedError | Panicked.
Inductive restore := OnEveryWayOut | OnSuccessOnly | NoRestore.

Section Opts.
  Variable opts : Type.
  Variable optfun : Type.
  Variable apply : opts -> optfun -> opts.

  (* what the decoding of a call sees *)
  Definition seen (carried : opts) (given : list optfun) : opts := fold_left apply given carried.

  (* what the Decoder carries after the call *)
  Definition after (r : restore) (carried : opts) (given : list optfun) (w : way_out) : opts :=
    match r, w with
    | OnEveryWayOut, _ => carried
    | OnSuccessOnly, Decoded => carried
    | _, _ => seen carried given
    end.

  Definition call := (list optfun * way_out)%type.
  Definition run (r : restore) (configured : opts) (history : list call) : opts :=
    fold_left (fun carried c => after r carried (fst c) (snd c)) history configured.
End Opts.

(* the instance the examples run on: a flag word, option functions set bits *)
Definition flags_apply (o : N) (f : N) : N := N.lor o f.
