(* Where decoding may store inside a pointer-free destination (struct.go, array.go and the scalar decoders:
   every store goes to p + offset with the width of the decoder's type).

   A destination type with the layout reflect reports: scalars of a size, arrays (length, element stride,
   element), structs (size, fields with name, offset, type).  For a document, `stores` lists every (address,
   width) the decoders may write: a scalar for a non-null leaf, the elements an array document supplies (surplus
   ones are skipped) and the zero fill of the ones it does not supply, and for an object the fields its keys
   select (exactly or up to ASCII letter case), each with the member's value.  Nothing else: bytes of fields
   no key selects, padding, and whatever lies around the destination are in no store. *)
From Coq Require Import NArith List Bool.
From GJ Require Import Base.Bytes Base.Show Spec.Json Model.Enc.
Import ListNotations.
Open Scope N_scope.

Inductive lty :=
| LScalar (size : N)
| LArr (n : nat) (stride : N) (e : lty)
| LStruct (size : N) (fs : list (list N * N * lty)).

Definition lsize (t : lty) : N :=
  match t with
  | LScalar s => s
  | LArr n st _ => N.of_nat n * st
  | LStruct s _ => s
  end.

Definition lowerc (c : N) : N := if (65 <=? c) && (c <=? 90) then c + 32 else c.
Definition key_selects (k name : list N) : bool := list_eqb (map lowerc k) (map lowerc name).

(* zero fill of the elements i .. n-1 *)
Fixpoint fill (base stride : N) (i count : nat) : list (N * N) :=
  match count with
  | O => []
  | S c => (base + N.of_nat i * stride, stride) :: fill base stride (S i) c
  end.

Fixpoint stores (t : lty) (d : jv) (base : N) {struct t} : list (N * N) :=
  match t with
  | LScalar s => match d with JLeaf TNull => [] | JLeaf _ => [(base, s)] | _ => [] end
  | LArr n st e =>
      match d with
      | JArr xs =>
          (fix go (xs : list jv) (i : nat) : list (N * N) :=
             match xs with
             | [] => fill base st i (n - i)
             | x :: r => if Nat.ltb i n then stores e x (base + N.of_nat i * st) ++ go r (S i) else []
             end) xs O
      | _ => []
      end
  | LStruct _ fs =>
      match d with
      | JObj ms =>
          (fix go (fs : list (list N * N * lty)) : list (N * N) :=
             match fs with
             | [] => []
             | (name, off, ft) :: r =>
                 flat_map (fun m : list N * bool * jv => match m with (k, _, v) => if key_selects k name then stores ft v (base + off) else [] end) ms
                 ++ go r
             end) fs
      | _ => []
      end
  end.

(* the layout is sound: elements fit their stride, fields fit the struct *)
Fixpoint wf (t : lty) : bool :=
  match t with
  | LScalar _ => true
  | LArr _ st e => wf e && (lsize e <=? st)
  | LStruct s fs =>
      (fix go (fs : list (list N * N * lty)) : bool :=
         match fs with
         | [] => true
         | (_, off, ft) :: r => wf ft && (off + lsize ft <=? s) && go r
         end) fs
  end.

Definition inside (base size : N) (w : N * N) : Prop := base <= fst w /\ fst w + snd w <= base + size.

(* every byte offset (relative to base) in a list of changed ranges lies in some store *)
Definition covered (ws : list (N * N)) (base : N) (r : N * N) : bool :=
  forallb (fun j => existsb (fun w => (fst w <=? base + fst r + N.of_nat j) && (base + fst r + N.of_nat j <? fst w + snd w)) ws)
          (seq 0 (N.to_nat (snd r))).

(* wire:  S<size>;   A<n>,<stride>;<elem>   T<size>,<count>;( <namelen>:<name><offset>;<type> )*   *)
Fixpoint take_until (sep : N) (l acc : list N) : list N * list N :=
  match l with
  | [] => (rev acc, [])
  | c :: r => if c =? sep then (rev acc, r) else take_until sep r (c :: acc)
  end.
Fixpoint parse_lty (fuel : nat) (l : list N) : option (lty * list N) :=
  match fuel with
  | O => None
  | S f =>
      match l with
      | 83 :: r => let '(a, r1) := take_until 59 r [] in Some (LScalar (dec_N a), r1)
      | 65 :: r =>
          let '(a, r1) := take_until 44 r [] in
          let '(b, r2) := take_until 59 r1 [] in
          match parse_lty f r2 with
          | Some (e, r3) => Some (LArr (N.to_nat (dec_N a)) (dec_N b) e, r3)
          | None => None
          end
      | 84 :: r =>
          let '(a, r1) := take_until 44 r [] in
          let '(b, r2) := take_until 59 r1 [] in
          (fix fields (k : nat) (l : list N) (acc : list (list N * N * lty)) : option (lty * list N) :=
             match k with
             | O => Some (LStruct (dec_N a) (rev acc), l)
             | S k' =>
                 let '(nl, l1) := take_until 58 l [] in
                 let n := N.to_nat (dec_N nl) in
                 let name := firstn n l1 in
                 let '(off, l2) := take_until 59 (skipn n l1) [] in
                 match parse_lty f l2 with
                 | Some (ft, l3) => fields k' l3 ((name, dec_N off, ft) :: acc)
                 | None => None
                 end
             end) (N.to_nat (dec_N b)) r2 []
      | _ => None
      end
  end.
