(* Model of the struct key bitmap matcher (internal/decoder/struct.go:
   tryOptimize's table construction and decodeKeyByBitmapUint8/16 on the
   decoded key bytes).  names are the lower-cased JSON names in sort.Strings
   order; bit i of bitmap[j][c] says that names[i][j] = c. *)
From Coq Require Import NArith List Bool.
From GJ Require Import Base.Bytes.
Import ListNotations.
Open Scope N_scope.

(* largeToSmallTable (filled by a loop in init()): ASCII upper -> lower *)
Definition lower (c : N) : N := if (65 <=? c) && (c <=? 90) then c + 32 else c.

Fixpoint row_aux (names : list (list N)) (i : nat) (j : nat) (c : N) : N :=
  match names with
  | [] => 0
  | nm :: r =>
      N.lor (match nth_error nm j with
             | Some x => if x =? c then N.shiftl 1 (N.of_nat i) else 0
             | None => 0
             end)
            (row_aux r (S i) j c)
  end.

(* bitmap[j][c]; the table has maxKeyLen+1 rows: reading row j >= that is an
   index out of range *)
Definition max_len (names : list (list N)) : nat := fold_right (fun nm m => Nat.max (length nm) m) 0%nat names.
Definition row (names : list (list N)) (j : nat) (c : N) : option N :=
  if Nat.ltb j (S (max_len names)) then Some (row_aux names 0 j c) else None.

Inductive mres :=
| MStuck               (* bitmap or sortedFieldSets index out of range *)
| MNone                (* no field: the value is skipped *)
| MField (i : nat).    (* sortedFieldSets[i] *)

(* lowest set bit (bits.TrailingZeros), by bounded search *)
Fixpoint lowest (fuel : nat) (i : nat) (x : N) : nat :=
  match fuel with
  | O => i
  | S f => if N.testbit x (N.of_nat i) then i else lowest f (S i) x
  end.

(* the character loop: curBit &= bitmap[keyIdx][lower(c)]; 0 => not found *)
Fixpoint walk (names : list (list N)) (cur : N) (j : nat) (key : list N) : option (option N) :=
  match key with
  | [] => Some (Some cur)
  | c :: r =>
      match row names j (lower c) with
      | None => None                                   (* stuck *)
      | Some bits =>
          let cur' := N.land cur bits in
          if cur' =? 0 then Some None else walk names cur' (S j) r
      end
  end.

(* width = 8 or 16: curBit starts as all ones *)
Definition bm_match (width : nat) (names : list (list N)) (key : list N) : mres :=
  match key with
  | [] => MNone                                        (* "" returns nil at once *)
  | _ =>
      match walk names (N.ones (N.of_nat width)) 0 key with
      | None => MStuck
      | Some None => MNone
      | Some (Some cur) =>
          let i := lowest width 0 cur in
          match nth_error names i with
          | None => MStuck
          | Some nm => if Nat.ltb (length key) (length nm) then MNone else MField i
          end
      end
  end.
