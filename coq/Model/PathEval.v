(* Evaluation of a compiled JSON Path against a document: Path.Extract.
   internal/decoder: interface.go / map.go / slice.go / string.go / float.go
   (DecodePath) and path.go (Field / Index of the four node kinds), decode.go
   (extractFromPath).

   The document is a tree (Model/Enc.jv: members in document order, repeated
   names kept); keys and string leaves carry their decoded content (the
   harness hands over documents without escapes).  What the code does with the
   mutable cursor Path.node is kept: every descent moves it to the child and
   moves it back only when the descent succeeded.

   The behaviour of Field and Index for each node kind is not written here: it
   is read from path.go by the translator (Gen/PathShape.v).

   Not modelled: the nesting limit (documents nested deeper than
   maxDecodeNestingDepth are rejected), invalid documents. *)
From Coq Require Import NArith ZArith List Bool.
From GJ Require Import Base.Bytes Spec.Json Model.Enc Model.Path Gen.PathShape.
Import ListNotations.
Open Scope N_scope.

(* the node chain as the builder links it *)
Inductive xnode := XSel (n : list N) | XIdx (i : Z) | XAll | XRec (n : list N).
Definition chain := list xnode.

Fixpoint expand (ns : list pnode) : chain :=
  match ns with
  | [] => []
  | NSel n :: r => XSel n :: expand r
  | NIdx i :: r => XIdx i :: expand r
  | NAll :: r => XAll :: expand r
  | NRec n :: r => XRec n :: expand r
  end.

Inductive lookup := LErr | LNo | LFound (child : chain).

Inductive res := RTree (v : jv) | RRaw (s : list N).
(* result (None = an error) and where Path.node points afterwards *)
Definition outcome := (option (list res) * chain)%type.

Section Eval.
  Variable sems : node_sems.
  Variable scalar_nothing : bool.      (* a scalar reached with a selector still to apply contributes nothing *)

  Definition by_field (f : field_sem) (sel k : list N) (child : chain) : lookup :=
    match f with
    | FErr => LErr
    | FNone => LNo
    | FEqChild => if list_eqb sel k then LFound child else LNo
    | FUnknown => LErr
    end.

  (* Path.Field(key): p.node == nil answers "not found" *)
  Definition do_field (st : chain) (k : list N) : lookup :=
    match st with
    | [] => LNo
    | XSel n :: c => by_field (sel_field sems) n k c
    | XIdx _ :: c => by_field (idx_field sems) [] k c
    | XAll :: c => by_field (all_field sems) [] k c
    | XRec n :: c => by_field (rec_field sems) n k c
    end.

  Definition by_index (f : index_sem) (self : chain) (sel : option Z) (idx : nat) (child : chain) : lookup :=
    match f with
    | IErr => LErr
    | INone => LNo
    | IEqChild => match sel with
                  | Some i => if Z.eqb i (Z.of_nat idx) then LFound child else LNo
                  | None => LErr
                  end
    | IAlwaysChild => LFound child
    | IAlwaysSelf => LFound self
    | IUnknown => LErr
    end.

  (* ctx.Option.Path.node.Index(idx) *)
  Definition do_index (st : chain) (idx : nat) : lookup :=
    match st with
    | [] => LErr                              (* nil receiver: never reached, extractFromPath returns early *)
    | XSel _ :: c => by_index (sel_index sems) st None idx c
    | XIdx i :: c => by_index (idx_index sems) st (Some i) idx c
    | XAll :: c => by_index (all_index sems) st None idx c
    | XRec _ :: c => by_index (rec_index sems) st None idx c
    end.

  Section Loops.
    Variable evk : jv -> chain -> outcome.

    (* slice.go DecodePath, the loop over the elements *)
    Fixpoint arr_loop (st : chain) (es : list jv) (idx : nat) (acc : list res) : outcome :=
      match es with
      | [] => (Some acc, st)
      | e :: r =>
          match do_index st idx with
          | LErr => (None, st)
          | LNo => arr_loop st r (S idx) acc
          | LFound [] => arr_loop st r (S idx) (acc ++ [RTree e])
          | LFound child =>
              match evk e child with
              | (Some rs, _) => arr_loop st r (S idx) (acc ++ rs)     (* node = oldPath *)
              | (None, st') => (None, st')                             (* returned before the restore *)
              end
          end
      end.

    (* map.go DecodePath, the loop over the members: what the member itself contributes, and -- when the cursor
       stands on a recursive node -- what lies further down in the member's value *)
    Definition is_rec (st : chain) : bool := match st with XRec _ :: _ => true | _ => false end.
    Fixpoint obj_loop (st : chain) (ms : list (list N * bool * jv)) (acc : list res) : outcome :=
      match ms with
      | [] => (Some acc, st)
      | (k, _, x) :: r =>
          let own : chain + list res :=
            match do_field st k with
            | LErr => inl st
            | LNo => inr []
            | LFound [] => inr [RTree x]
            | LFound child => match evk x child with (Some rs, _) => inr rs | (None, st') => inl st' end
            end in
          match own with
          | inl st' => (None, st')
          | inr rs =>
              if is_rec st then
                match evk x st with
                | (Some below, _) => obj_loop st r (acc ++ rs ++ below)
                | (None, st') => (None, st')
                end
              else obj_loop st r (acc ++ rs)
          end
      end.
  End Loops.

  (* interface.go DecodePath *)
  Fixpoint ev (v : jv) (st : chain) {struct v} : outcome :=
    match v with
    | JLeaf (TStr s) => (Some (if scalar_nothing then [] else [RRaw s]), st)     (* before the repair: the decoded bytes, without quotes *)
    | JLeaf _ => (Some (if scalar_nothing then [] else [RTree v]), st)
    | JArr es => arr_loop ev st es 0 []
    | JObj ms => obj_loop ev st ms []
    end.

  (* extractFromPath: "$" alone hands the input back; evaluation works on the
     caller's Path or on a copy of it *)
  Definition extract_call (copies : bool) (root_only : bool) (st : chain) (doc : jv) : outcome :=
    if root_only then (Some [RTree doc], st)
    else let '(r, st') := ev doc st in (r, if copies then st else st').

  (* one Path value used for a sequence of documents *)
  Fixpoint run (copies root_only : bool) (st : chain) (docs : list jv) : list (option (list res)) :=
    match docs with
    | [] => []
    | d :: r => let '(o, st') := extract_call copies root_only st d in o :: run copies root_only st' r
    end.
End Eval.

(* ---- reference evaluation (document order) ---- *)
Definition members_named (n : list N) (ms : list (list N * bool * jv)) : list jv :=
  flat_map (fun m => match m with (k, _, x) => if list_eqb n k then [x] else [] end) ms.

(* every member called n at any depth, parents before what they contain *)
Fixpoint desc (n : list N) (v : jv) : list jv :=
  match v with
  | JLeaf _ => []
  | JArr es => flat_map (desc n) es
  | JObj ms => flat_map (fun m => match m with (k, _, x) => (if list_eqb n k then [x] else []) ++ desc n x end) ms
  end.

Fixpoint ref_eval (ns : list pnode) (v : jv) : list jv :=
  match ns with
  | [] => [v]
  | NSel n :: r => match v with JObj ms => flat_map (ref_eval r) (members_named n ms) | _ => [] end
  | NIdx i :: r => match v with
                   | JArr es => if ((i <? 0) || (Z.of_nat (length es) <=? i))%Z then [] else
                                match nth_error es (Z.to_nat i) with Some e => ref_eval r e | None => [] end
                   | _ => []
                   end
  | NAll :: r => match v with JArr es => flat_map (ref_eval r) es | _ => [] end
  | NRec n :: r => flat_map (ref_eval r) (desc n v)
  end.

(* where the implementation's one remaining deviation stays silent: there is no recursive descent in the path
   (`fits` is then true of every document; it is kept as a function of the document for the statement's shape) *)
Fixpoint fits (ns : list pnode) (v : jv) : bool :=
  match ns with
  | [] => true
  | NSel n :: r => match v with JObj ms => forallb (fits r) (members_named n ms) | _ => true end
  | NIdx i :: r => match v with
                   | JArr es => if ((i <? 0) || (Z.of_nat (length es) <=? i))%Z then true else
                                match nth_error es (Z.to_nat i) with Some e => fits r e | None => true end
                   | _ => true
                   end
  | NAll :: r => match v with JArr es => forallb (fits r) es | _ => true end
  | NRec _ :: _ => false
  end.

(* ---- from the path text: CreatePath then Extract ---- *)
Definition show_res (r : res) : list N :=
  match r with RTree v => marshal v | RRaw s => s end.

Definition show_outcome (o : option (list res)) : list N :=
  match o with
  | Some rs => 79 :: concat (map (fun r => show_res r ++ [10]) rs)
  | None => [69]
  end.

Definition is_root (nodes : list pnode) : bool := match nodes with [] => true | _ => false end.

Definition extract_text (path : list N) (doc : jv) : list N :=
  match build path with
  | BOk nodes _ _ => show_outcome (fst (extract_call path_node_sems scalar_selects_nothing extract_on_copy (is_root nodes) (expand nodes) doc))
  | BErr => [66]
  | BStuck => [33]
  | BFuel => [63]
  end.

(* a history on one Path: the documents in order, the outcome of each *)
Definition extract_history (path : list N) (docs : list jv) : list N :=
  match build path with
  | BOk nodes _ _ =>
      concat (map (fun o => show_outcome o ++ [59]) (run path_node_sems scalar_selects_nothing extract_on_copy (is_root nodes) (expand nodes) docs))
  | _ => [66]
  end.
