(* What Unmarshal does with a valid document, a destination type and the value
   the destination holds before the call -- the semantics both encoding/json
   and go-json are expected to have (merged maps, reused pointers, slices and
   struct fields, nil versus empty, duplicate keys, null, integer ranges).

   The fragment: bool, integers of every width, strings, interface{} (with
   UseNumber: numbers keep their text), pointers, slices, arrays, maps with
   string keys, structs with exact-case keys, []byte (a base64 string, or an
   array of numbers as for any other slice).  Floats are left out (their
   value is strconv's on both sides).  The harness runs this function beside
   encoding/json (which validates it as a reading of encoding/json) and beside
   go-json (which is the check), on generated (type, document, initial value). *)
From Coq Require Import NArith ZArith List Bool.
From GJ Require Import Base.Bytes Base.Show Spec.Json Model.Int Model.StrDec Model.Enc Model.TreeRead Model.Base64.
Import ListNotations.
Open Scope N_scope.

Inductive ty :=
| TBool | TInt (bits : N) | TUint (bits : N) | TString | TIface
| TPtr (t : ty) | TSlice (t : ty) | TArr (n : nat) (t : ty) | TMap (t : ty)
| TStruct (fs : list (list N * ty))
| TBytes                                 (* []byte; its values are those of TSlice (TUint 8) *)
| TMapI (signed : bool) (bits : N) (t : ty).   (* map[intN]T / map[uintN]T; in a value the keys are the decimal texts Marshal writes *)

(* what an interface{} holds after decoding (UseNumber): the document itself, strings decoded, the last of equal keys *)
Inductive gen :=
| GNull | GTrue | GFalse | GNum (raw : list N) | GStr (s : list N)
| GArr (l : list gen) | GObj (l : list (list N * gen)).

Inductive gv :=
| VNil                                   (* nil pointer, slice, map, interface *)
| VBool (b : bool) | VInt (z : Z) | VStr (s : list N)
| VPtr (v : gv) | VSlice (l : list gv) | VArr (l : list gv)
| VMap (l : list (list N * gv))          (* keys distinct *)
| VStruct (l : list gv)                  (* by field position *)
| VIface (g : gen).                      (* non-nil *)

Fixpoint zero (t : ty) : gv :=
  match t with
  | TBool => VBool false
  | TInt _ | TUint _ => VInt 0
  | TString => VStr []
  | TIface | TPtr _ | TSlice _ | TMap _ | TBytes | TMapI _ _ _ => VNil
  | TArr n e => VArr (repeat (zero e) n)
  | TStruct fs => VStruct (map (fun kt : list N * ty => zero (snd kt)) fs)
  end.

(* a decoded JSON string (key or value); None: the body is not a valid string body *)
Definition unq (body : list N) : option (list N) :=
  match unmarshal_string (34 :: body ++ [34]) with
  | StrRes false (Some s) => Some s
  | _ => None
  end.

Fixpoint set_key {A} (k : list N) (a : A) (l : list (list N * A)) : list (list N * A) :=
  match l with
  | [] => [(k, a)]
  | (k', a') :: r => if list_eqb k k' then (k, a) :: r else (k', a') :: set_key k a r
  end.

Fixpoint gen_of (fuel : nat) (d : jv) : option gen :=
  match fuel with
  | O => None
  | S f =>
      match d with
      | JLeaf TNull => Some GNull
      | JLeaf TTrue => Some GTrue
      | JLeaf TFalse => Some GFalse
      | JLeaf (TNum raw) => Some (GNum raw)
      | JLeaf (TStr b) => match unq b with Some s => Some (GStr s) | None => None end
      | JLeaf _ => None
      | JArr l =>
          (fix all (l : list jv) (acc : list gen) : option gen :=
             match l with
             | [] => Some (GArr (rev acc))
             | x :: r => match gen_of f x with Some g => all r (g :: acc) | None => None end
             end) l []
      | JObj l =>
          (fix all (l : list (list N * bool * jv)) (acc : list (list N * gen)) : option gen :=
             match l with
             | [] => Some (GObj acc)
             | (k, _, x) :: r =>
                 match unq k, gen_of f x with
                 | Some k', Some g => all r (set_key k' g acc)
                 | _, _ => None
                 end
             end) l []
      end
  end.

Inductive dres := DOk (v : gv) | DErr | DFuel.

Definition is_null (d : jv) : bool := match d with JLeaf TNull => true | _ => false end.

Fixpoint field_index (k : list N) (fs : list (list N * ty)) (i : nat) : option (nat * ty) :=
  match fs with
  | [] => None
  | (k', t) :: r => if list_eqb k k' then Some (i, t) else field_index k r (S i)
  end.

(* encoding/json: the field whose name is the key, else the first field whose name equals it up to letter case
   (ASCII letters here: the harness changes the case of ASCII letters only) *)
Definition lower (c : N) : N := if (65 <=? c) && (c <=? 90) then c + 32 else c.
Fixpoint field_fold (k : list N) (fs : list (list N * ty)) (i : nat) : option (nat * ty) :=
  match fs with
  | [] => None
  | (k', t) :: r => if list_eqb (map lower k) (map lower k') then Some (i, t) else field_fold k r (S i)
  end.
Definition field_lookup (k : list N) (fs : list (list N * ty)) : option (nat * ty) :=
  match field_index k fs O with Some r => Some r | None => field_fold k fs O end.

Fixpoint set_nth (i : nat) (x : gv) (l : list gv) : list gv :=
  match l, i with
  | [], _ => []
  | _ :: r, O => x :: r
  | y :: r, S j => y :: set_nth j x r
  end.

Definition int_of (signed : bool) (bits : N) (raw : list N) : option Z :=
  match unmarshal_int signed bits raw with
  | URes false (Some z) => Some z
  | _ => None
  end.

(* integer map keys.  Marshal writes the key with the integer printer between quotes; Unmarshal hands the contents of
   the key string to strconv.ParseInt / ParseUint (base 10, the width of the key type): an optional sign for signed
   keys, then digits only, leading zeros allowed, the value inside the range *)
Definition int_key (signed : bool) (bits : N) (z : Z) : list N :=
  if signed then append_int bits (Z.to_N (z mod 2 ^ Z.of_N bits)) else append_uint bits (Z.to_N z).
Definition all_digits (s : list N) : bool :=
  match s with [] => false | _ => forallb (fun c => (48 <=? c) && (c <=? 57)) s end.
Definition key_int (signed : bool) (bits : N) (s : list N) : option Z :=
  let '(neg, body) := match s with
                      | 45 :: r => if signed then (true, r) else (false, s)
                      | 43 :: r => if signed then (false, r) else (false, s)
                      | _ => (false, s)
                      end in
  if all_digits body then
    let z := if neg then (- Z.of_N (dec_N body))%Z else Z.of_N (dec_N body) in
    if in_range signed bits z then Some z else None
  else None.
(* a key as a map value holds it *)
Definition canon_key (signed : bool) (bits : N) (k : list N) : bool :=
  match key_int signed bits k with Some z => list_eqb k (int_key signed bits z) | None => false end.

(* the loops of the container decoders, over the decoder of the element *)
Section Loops.
  Variable decf : jv -> gv -> dres.   (* element document, value to start from *)
  Variable z : gv.                    (* the element type's zero value *)

  (* slice: element i starts from the element that is there, or from zero *)
  Fixpoint slice_loop (l : list jv) (old : list gv) (acc : list gv) : dres :=
    match l with
    | [] => DOk (VSlice (rev acc))
    | x :: r =>
        match decf x (match old with o :: _ => o | [] => z end) with
        | DOk v => slice_loop r (tl old) (v :: acc)
        | other => other
        end
    end.

  (* array: as many elements as the array has; missing ones become zero; surplus ones are skipped *)
  Fixpoint array_loop (l : list jv) (old : list gv) (acc : list gv) : dres :=
    match old with
    | [] => DOk (VArr (rev acc))
    | o :: old' =>
        match l with
        | [] => array_loop [] old' (z :: acc)
        | x :: r =>
            match decf x o with
            | DOk v => array_loop r old' (v :: acc)
            | other => other
            end
        end
    end.

  (* map: the element is decoded into a fresh zero value, then stored under the key; other keys stay *)
  Fixpoint map_loop (l : list (list N * bool * jv)) (m : list (list N * gv)) : dres :=
    match l with
    | [] => DOk (VMap m)
    | (k, _, x) :: r =>
        match unq k with
        | None => DErr
        | Some k' =>
            match decf x z with
            | DOk v => map_loop r (set_key k' v m)
            | other => other
            end
        end
    end.
  (* map with integer keys: the key text is parsed, the member is stored under the integer (here: its printed form) *)
  Variable keyf : list N -> option (list N).
  Fixpoint map_loop_k (l : list (list N * bool * jv)) (m : list (list N * gv)) : dres :=
    match l with
    | [] => DOk (VMap m)
    | (k, _, x) :: r =>
        match unq k with
        | None => DErr
        | Some k' =>
            match keyf k' with
            | None => DErr
            | Some kk =>
                match decf x z with
                | DOk v => map_loop_k r (set_key kk v m)
                | other => other
                end
            end
        end
    end.
End Loops.

(* struct: members in document order; an unknown key is skipped; a repeated key decodes into what the first left *)
Fixpoint struct_loop (decf : ty -> jv -> gv -> dres) (fs : list (list N * ty)) (l : list (list N * bool * jv)) (cur : list gv) : dres :=
  match l with
  | [] => DOk (VStruct cur)
  | (k, _, x) :: r =>
      match unq k with
      | None => DErr
      | Some k' =>
          match field_lookup k' fs with
          | None => struct_loop decf fs r cur
          | Some (i, ft) =>
              match decf ft x (nth i cur VNil) with
              | DOk v => struct_loop decf fs r (set_nth i v cur)
              | other => other
              end
          end
      end
  end.

Fixpoint dec (fuel : nat) (t : ty) (d : jv) (init : gv) : dres :=
  match fuel with
  | O => DFuel
  | S f =>
      if is_null d then
        match t with
        | TIface | TPtr _ | TSlice _ | TMap _ | TBytes | TMapI _ _ _ => DOk VNil
        | _ => DOk init
        end
      else
      match t with
      | TBool => match d with JLeaf TTrue => DOk (VBool true) | JLeaf TFalse => DOk (VBool false) | _ => DErr end
      | TInt bits => match d with JLeaf (TNum raw) => match int_of true bits raw with Some z => DOk (VInt z) | None => DErr end | _ => DErr end
      | TUint bits => match d with JLeaf (TNum raw) => match int_of false bits raw with Some z => DOk (VInt z) | None => DErr end | _ => DErr end
      | TString => match d with JLeaf (TStr b) => match unq b with Some s => DOk (VStr s) | None => DErr end | _ => DErr end
      | TIface => match gen_of f d with Some g => DOk (VIface g) | None => DErr end
      | TPtr e =>
          match dec f e d (match init with VPtr v => v | _ => zero e end) with DOk v => DOk (VPtr v) | r => r end
      | TSlice e =>
          match d with
          | JArr l => slice_loop (dec f e) (zero e) l (match init with VSlice o => o | _ => [] end) []
          | _ => DErr
          end
      | TArr n e =>
          match d with
          | JArr l => array_loop (dec f e) (zero e) l (match init with VArr o => o | _ => repeat (zero e) n end) []
          | _ => DErr
          end
      | TMap e =>
          match d with
          | JObj l => map_loop (dec f e) (zero e) l (match init with VMap o => o | _ => [] end)
          | _ => DErr
          end
      | TStruct fs =>
          match d with
          | JObj l => struct_loop (dec f) fs l (match init with VStruct o => o | _ => map (fun kt : list N * ty => zero (snd kt)) fs end)
          | _ => DErr
          end
      | TMapI signed bits e =>
          match d with
          | JObj l => map_loop_k (dec f e) (zero e)
                        (fun k' => match key_int signed bits k' with Some z => Some (int_key signed bits z) | None => None end)
                        l (match init with VMap o => o | _ => [] end)
          | _ => DErr
          end
      | TBytes =>
          match d with
          | JLeaf (TStr b) =>
              match unq b with
              | Some s => match b64dec s with Some bs => DOk (VSlice (map (fun x => VInt (Z.of_N x)) bs)) | None => DErr end
              | None => DErr
              end
          | JArr l => slice_loop (dec f (TUint 8)) (zero (TUint 8)) l (match init with VSlice o => o | _ => [] end) []
          | _ => DErr
          end
      end
  end.

(* ---- well-typed values ---- *)
Fixpoint has_type (t : ty) (v : gv) : bool :=
  match t, v with
  | TBool, VBool _ => true
  | TInt bits, VInt z => in_range true bits z
  | TUint bits, VInt z => in_range false bits z
  | TString, VStr _ => true
  | TIface, VNil => true
  | TIface, VIface _ => true
  | TPtr _, VNil => true
  | TPtr e, VPtr x => has_type e x
  | TSlice _, VNil => true
  | TSlice e, VSlice l => forallb (has_type e) l
  | TArr n e, VArr l => Nat.eqb (length l) n && forallb (has_type e) l
  | TMap _, VNil => true
  | TMap e, VMap l => forallb (fun kv : list N * gv => has_type e (snd kv)) l
  | TStruct fs, VStruct l =>
      (fix all (fs : list (list N * ty)) (l : list gv) : bool :=
         match fs, l with
         | [], [] => true
         | (_, ft) :: fr, x :: lr => has_type ft x && all fr lr
         | _, _ => false
         end) fs l
  | TBytes, VNil => true
  | TBytes, VSlice l => forallb (fun x => match x with VInt z => in_range false 8 z | _ => false end) l
  | TMapI _ _ _, VNil => true
  | TMapI signed bits e, VMap l => forallb (fun kv : list N * gv => canon_key signed bits (fst kv) && has_type e (snd kv)) l
  | _, _ => false
  end.

(* ---- wire formats of the harness ----
   type:  b | i<bits>: | u<bits>: | s | f | y | p<ty> | l<ty> | a<n>:<ty> | m<ty> | k<bits>:<ty> (signed keys) | K<bits>:<ty> (unsigned) |
          r<count>:(<len>:<key><ty>)*
   value: Z | T | F | I<len>:<decimal, may start with -> | S<len>:<bytes> | P<v> | L<count>:<v>* | A<count>:<v>* |
          M<count>:(<len>:<key><v>)* | R<count>:<v>* | G<gen>
   gen:   n | t | f | #<len>:<raw> | $<len>:<bytes> | [<count>:<gen>* | {<count>:(<len>:<key><gen>)*          *)
Fixpoint parse_ty (fuel : nat) (l : list N) : option (ty * list N) :=
  match fuel with
  | O => None
  | S f =>
      match l with
      | [] => None
      | c :: r =>
          if c =? 98 then Some (TBool, r)
          else if c =? 115 then Some (TString, r)
          else if c =? 102 then Some (TIface, r)
          else if c =? 121 then Some (TBytes, r)
          else if c =? 105 then match take_num r 0 20 with Some (n, r') => Some (TInt (N.of_nat n), r') | None => None end
          else if c =? 117 then match take_num r 0 20 with Some (n, r') => Some (TUint (N.of_nat n), r') | None => None end
          else if c =? 112 then match parse_ty f r with Some (e, r') => Some (TPtr e, r') | None => None end
          else if c =? 108 then match parse_ty f r with Some (e, r') => Some (TSlice e, r') | None => None end
          else if c =? 109 then match parse_ty f r with Some (e, r') => Some (TMap e, r') | None => None end
          else if c =? 97 then
            match take_num r 0 20 with
            | Some (n, r1) => match parse_ty f r1 with Some (e, r') => Some (TArr n e, r') | None => None end
            | None => None
            end
          else if (c =? 107) || (c =? 75) then
            match take_num r 0 20 with
            | Some (n, r1) => match parse_ty f r1 with Some (e, r') => Some (TMapI (c =? 107) (N.of_nat n) e, r') | None => None end
            | None => None
            end
          else if c =? 114 then
            match take_num r 0 20 with
            | Some (n, r1) =>
                (fix fields (k : nat) (l : list N) (acc : list (list N * ty)) : option (ty * list N) :=
                   match k with
                   | O => Some (TStruct (rev acc), l)
                   | S k' =>
                       match take_num l 0 20 with
                       | Some (kn, l2) =>
                           match parse_ty f (skipn kn l2) with
                           | Some (e, l3) => fields k' l3 ((firstn kn l2, e) :: acc)
                           | None => None
                           end
                       | None => None
                       end
                   end) n r1 []
            | None => None
            end
          else None
      end
  end.

Definition dec_Z (l : list N) : Z :=
  match l with
  | 45 :: r => (- Z.of_N (dec_N r))%Z
  | _ => Z.of_N (dec_N l)
  end.

Fixpoint parse_gen (fuel : nat) (l : list N) : option (gen * list N) :=
  match fuel with
  | O => None
  | S f =>
      match l with
      | [] => None
      | c :: r =>
          if c =? 110 then Some (GNull, r)
          else if c =? 116 then Some (GTrue, r)
          else if c =? 102 then Some (GFalse, r)
          else if (c =? 35) || (c =? 36) then
            match take_num r 0 20 with
            | Some (n, r1) => Some ((if c =? 35 then GNum (firstn n r1) else GStr (firstn n r1)), skipn n r1)
            | None => None
            end
          else if c =? 91 then
            match take_num r 0 20 with
            | Some (n, r1) =>
                (fix items (k : nat) (l : list N) (acc : list gen) : option (gen * list N) :=
                   match k with
                   | O => Some (GArr (rev acc), l)
                   | S k' => match parse_gen f l with Some (g, l') => items k' l' (g :: acc) | None => None end
                   end) n r1 []
            | None => None
            end
          else if c =? 123 then
            match take_num r 0 20 with
            | Some (n, r1) =>
                (fix members (k : nat) (l : list N) (acc : list (list N * gen)) : option (gen * list N) :=
                   match k with
                   | O => Some (GObj (rev acc), l)
                   | S k' =>
                       match take_num l 0 20 with
                       | Some (kn, l2) =>
                           match parse_gen f (skipn kn l2) with
                           | Some (g, l3) => members k' l3 ((firstn kn l2, g) :: acc)
                           | None => None
                           end
                       | None => None
                       end
                   end) n r1 []
            | None => None
            end
          else None
      end
  end.

Fixpoint parse_gv (fuel : nat) (l : list N) : option (gv * list N) :=
  match fuel with
  | O => None
  | S f =>
      match l with
      | [] => None
      | c :: r =>
          if c =? 90 then Some (VNil, r)
          else if c =? 84 then Some (VBool true, r)
          else if c =? 70 then Some (VBool false, r)
          else if c =? 73 then match take_num r 0 20 with Some (n, r1) => Some (VInt (dec_Z (firstn n r1)), skipn n r1) | None => None end
          else if c =? 83 then match take_num r 0 20 with Some (n, r1) => Some (VStr (firstn n r1), skipn n r1) | None => None end
          else if c =? 80 then match parse_gv f r with Some (v, r') => Some (VPtr v, r') | None => None end
          else if c =? 71 then match parse_gen (S (length r)) r with Some (g, r') => Some (VIface g, r') | None => None end
          else if (c =? 76) || (c =? 65) || (c =? 82) then
            match take_num r 0 20 with
            | Some (n, r1) =>
                (fix items (k : nat) (l : list N) (acc : list gv) : option (gv * list N) :=
                   match k with
                   | O => Some ((if c =? 76 then VSlice (rev acc) else if c =? 65 then VArr (rev acc) else VStruct (rev acc)), l)
                   | S k' => match parse_gv f l with Some (v, l') => items k' l' (v :: acc) | None => None end
                   end) n r1 []
            | None => None
            end
          else if c =? 77 then
            match take_num r 0 20 with
            | Some (n, r1) =>
                (fix members (k : nat) (l : list N) (acc : list (list N * gv)) : option (gv * list N) :=
                   match k with
                   | O => Some (VMap (rev acc), l)
                   | S k' =>
                       match take_num l 0 20 with
                       | Some (kn, l2) =>
                           match parse_gv f (skipn kn l2) with
                           | Some (v, l3) => members k' l3 ((firstn kn l2, v) :: acc)
                           | None => None
                           end
                       | None => None
                       end
                   end) n r1 []
            | None => None
            end
          else None
      end
  end.

(* printing, with map members in the order of their keys *)
Fixpoint bytes_leb (a b : list N) : bool :=
  match a, b with
  | [], _ => true
  | _ :: _, [] => false
  | x :: a', y :: b' => if x <? y then true else if y <? x then false else bytes_leb a' b'
  end.

Fixpoint insert_key {A} (k : list N) (a : A) (l : list (list N * A)) : list (list N * A) :=
  match l with
  | [] => [(k, a)]
  | (k', a') :: r => if bytes_leb k k' then (k, a) :: l else (k', a') :: insert_key k a r
  end.
Definition sort_keys {A} (l : list (list N * A)) : list (list N * A) :=
  fold_right (fun ka acc => insert_key (fst ka) (snd ka) acc) [] l.

Definition show_len (n : nat) : list N := show_N (N.of_nat n) ++ [58].

Fixpoint show_gen (g : gen) : list N :=
  match g with
  | GNull => [110] | GTrue => [116] | GFalse => [102]
  | GNum raw => 35 :: show_len (length raw) ++ raw
  | GStr s => 36 :: show_len (length s) ++ s
  | GArr l => 91 :: show_len (length l) ++ flat_map show_gen l
  | GObj l => 123 :: show_len (length l) ++
              flat_map (fun kg => show_len (length (fst kg)) ++ fst kg ++ snd kg)
                       (sort_keys (map (fun kg => (fst kg, show_gen (snd kg))) l))
  end.

Definition show_Zd (z : Z) : list N :=
  if (z <? 0)%Z then 45 :: show_N (Z.to_N (- z)) else show_N (Z.to_N z).

Fixpoint show_gv (v : gv) : list N :=
  match v with
  | VNil => [90]
  | VBool true => [84] | VBool false => [70]
  | VInt z => let t := show_Zd z in 73 :: show_len (length t) ++ t
  | VStr s => 83 :: show_len (length s) ++ s
  | VPtr x => 80 :: show_gv x
  | VSlice l => 76 :: show_len (length l) ++ flat_map show_gv l
  | VArr l => 65 :: show_len (length l) ++ flat_map show_gv l
  | VStruct l => 82 :: show_len (length l) ++ flat_map show_gv l
  | VMap l => 77 :: show_len (length l) ++
              flat_map (fun kv => show_len (length (fst kv)) ++ fst kv ++ snd kv)
                       (sort_keys (map (fun kv => (fst kv, show_gv (snd kv))) l))
  | VIface g => 71 :: show_gen g
  end.

Fixpoint ty_size (t : ty) : nat :=
  match t with
  | TPtr e | TSlice e | TArr _ e | TMap e | TMapI _ _ e => S (ty_size e)
  | TStruct fs => S (fold_right (fun kt a => (ty_size (snd kt) + a)%nat) O fs)
  | _ => 1%nat
  end.

(* the whole call: parse the text, read the tree, decode (one unit of fuel per level of the type or of the text) *)
Definition unmarshal_typed (t : ty) (text : list N) (init : gv) : list N :=
  match parse_json text with
  | None => [63]
  | Some (ts, _) =>
      match read_tree ts with
      | None => [63]
      | Some d =>
          match dec (S (S (length text + ty_size t))) t d init with
          | DOk v => 79 :: show_gv v
          | DErr => [69]
          | DFuel => [63; 102]
          end
      end
  end.
