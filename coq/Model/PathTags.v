(* Classification of Extract's answer against the reference evaluation, for the harness. *)
From Coq Require Import NArith ZArith List Bool String.
From GJ Require Import Base.Bytes Spec.Json Model.Enc Model.Path Gen.PathShape Model.PathEval.
Import ListNotations.
Open Scope N_scope.
Open Scope string_scope.

(* ---- classification against the reference, for the harness: empty when the answer is the reference's
   else the recorded deviation it falls under ---- *)
Definition has_rec (ns : list pnode) : bool := existsb (fun n => match n with NRec _ => true | _ => false end) ns.
Definition has_all (ns : list pnode) : bool := existsb (fun n => match n with NAll => true | _ => false end) ns.
Definition ref_text (path : list N) (doc : jv) : list N :=
  match build path with
  | BOk nodes _ _ => show_outcome (Some (map RTree (ref_eval nodes doc)))
  | _ => [66]
  end.
(* every deviation from the reference has been repaired: none is recorded any more *)
Definition eval_tags (path : list N) (doc : jv) : list N := [].
