(* Generic driver around the extracted model: one case per line.
   in : <op> <hexarg> <hexarg> ...      ("-" is the empty byte string)
   out: <hexresult> <tags>              ("-" for empty) *)

let rec pos_of_int (n : int)   : Model.positive =
  if n = 1 then Model.XH
  else if n land 1 = 0 then Model.XO (pos_of_int (n lsr 1))
  else Model.XI (pos_of_int (n lsr 1))
let n_of_int (n : int) : Model.n = if n = 0 then Model.N0 else Model.Npos (pos_of_int n)
let rec int_of_pos (p   : Model.positive) : int =
  match p with Model.XH -> 1 | Model.XO q -> 2 * int_of_pos q | Model.XI q -> 2 * int_of_pos q + 1
let int_of_n (x : Model.n) : int = match x with Model.N0 -> 0 | Model.Npos p -> int_of_pos p

let bytes_of_hex (h : string) : Model.n list =
  if h = "-" then [] else begin
    let len = String.length h / 2 in
    let rec go i acc =
      if i < 0 then acc
      else go (i - 1) (n_of_int (int_of_string ("0x" ^ String.sub h (2 * i) 2)) :: acc) in
    go (len - 1) []
  end
let bytes_of_string (s : string) : Model.n list =
  List.init (String.length s) (fun i -> n_of_int (Char.code s.[i]))
let hex_of_bytes (l : Model.n list) : string =
  if l = [] then "-" else begin
    let b = Buffer.create 64 in
    List.iter (fun x -> Buffer.add_string b (Printf.sprintf "%02x" (int_of_n x land 255))) l;
    Buffer.contents b
  end
let string_of_bytes (l : Model.n list) : string =
  let b = Buffer.create 16 in
  List.iter (fun x -> Buffer.add_char b (Char.chr (int_of_n x land 255))) l;
  Buffer.contents b

let () =
  try
    while true do
      let line = input_line stdin in
      match String.split_on_char ' ' line with
      | [] | [""] -> print_endline "- -"
      | op :: args ->
        let args = List.filter (fun s -> s <> "") args in
        let (res, tags) = Model.dispatch (bytes_of_string op) (List.map bytes_of_hex args) in
        let t = string_of_bytes tags in
        print_string (hex_of_bytes res); print_char ' ';
        print_endline (if t = "" then "-" else t)
    done
  with End_of_file -> ()
