From Coq Require Import Extraction ExtrOcamlBasic.
From GJ Require Import Extract.Dispatch.
Extraction Language OCaml.
Extraction "model.ml" dispatch.
