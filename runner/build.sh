#!/bin/sh
# extract the model and build the runner
set -e
cd "$(dirname "$0")"
mkdir -p gen ../build
( cd gen && coqc -Q ../../coq GJ ../Extract.v -o ../../build/Extract.vo )
cp driver.ml gen/driver.ml
( cd gen && ocamlfind ocamlopt -O3 -w -a -o ../../build/runner model.mli model.ml driver.ml 2>/dev/null || ocamlfind ocamlopt -w -a -o ../../build/runner model.mli model.ml driver.ml )
