package main

// Shared generator of Go types and values for the encoder/decoder properties
// (C01, C02, C03, C04, C08, C13, C19): types are built with reflect from all
// supported kinds, struct tags, embedded fields, pointers up to depth 3,
// maps with string / integer / TextMarshaler keys, interfaces, plus named
// types with MarshalJSON / MarshalText on value and pointer receivers,
// recursive types, time.Time, json.Number and RawMessage.

import (
	stdjson "encoding/json"
	"errors"
	"fmt"
	"math"
	"math/rand"
	"reflect"
	"regexp"
	"strconv"
	"strings"
	"time"
	"unicode/utf8"
)

// ---- named types (methods need them) ----

type TgMV struct{ N int } // MarshalJSON on the value receiver
func (m TgMV) MarshalJSON() ([]byte, error) {
	return []byte(fmt.Sprintf(` { "mv" : [ %d , "<&>" ] } `, m.N)), nil
}

type TgMP struct{ N int } // MarshalJSON on the pointer receiver
func (m *TgMP) MarshalJSON() ([]byte, error) {
	if m == nil {
		return []byte(`"nil-mp"`), nil
	}
	return []byte(fmt.Sprintf(`{"mp":%d}`, m.N)), nil
}

type TgTV struct{ S string }                // MarshalText on the value receiver
func (t TgTV) MarshalText() ([]byte, error) { return []byte("tv:" + t.S), nil }

type TgTP struct{ S string } // MarshalText on the pointer receiver
func (t *TgTP) MarshalText() ([]byte, error) {
	if t == nil {
		return []byte("nil-tp"), nil
	}
	return []byte("tp<" + t.S + ">"), nil
}

type TgMErr struct{ Fail bool }

func (m TgMErr) MarshalJSON() ([]byte, error) {
	if m.Fail {
		return nil, errors.New("refused")
	}
	return []byte(`true`), nil
}

// byte-kind element types: encoding/json writes a slice of a named byte type as base64 unless the
// element (or its pointer) has a marshal method, in which case it is an array of the method's results
type TgTextByte uint8

func (b TgTextByte) MarshalText() ([]byte, error) { return []byte("TB" + strconv.Itoa(int(b))), nil }

type TgJSONByte uint8

func (b TgJSONByte) MarshalJSON() ([]byte, error) {
	return []byte(`{"jb":` + strconv.Itoa(int(b)) + `}`), nil
}

type TgPlainByte uint8

type TgIntKey int

func (k TgIntKey) MarshalText() ([]byte, error) { return []byte("K" + strconv.Itoa(int(k))), nil }

type TgRec struct {
	V    int              `json:"v"`
	Next *TgRec           `json:"next,omitempty"`
	Kids []TgRec          `json:"kids,omitempty"`
	M    map[string]TgRec `json:"m,omitempty"`
	I    interface{}      `json:"i,omitempty"`
}

type TgMutA struct {
	A int     `json:"a"`
	B *TgMutB `json:"b"`
}
type TgMutB struct {
	S string   `json:"s"`
	A []TgMutA `json:"a"`
}

type TgEmbBase struct {
	ID   int    `json:"id"`
	Name string `json:"name,omitempty"`
	Dup  int
}
type TgEmbOther struct {
	Dup   int // conflicts with TgEmbBase.Dup at the same depth: both dropped
	Extra string
	ID    int `json:"other_id"`
}
type TgEmbPtr struct {
	P int `json:"p"`
}
type TgEmbed struct {
	TgEmbBase
	TgEmbOther
	*TgEmbPtr
	Name string `json:"name"` // shadows the embedded one
	Z    int
}

// embedded shapes that need care in the encoder: a recursive self-embedding, two types that embed each other through
// a named field, embedded structs whose first member is an omitempty interface / struct / double pointer
type TgRecEmb struct {
	A int
	*TgRecEmb
}
type TgMutEmbA struct {
	X int
	B TgMutEmbB
}
type TgMutEmbB struct {
	Y int
	*TgMutEmbA
}

// recursion that goes through an embedding AND a named field: an item embeds its base, the base has links (slice, map,
// pointer) whose element embeds a pointer to an item again
type TgItem struct {
	TgItemBase
	Name string
}
type TgItemBase struct {
	ID    int
	Links []TgItemLink
	Refs  map[string]*TgItemLink
	Next  *TgItemLink
}
type TgItemLink struct {
	*TgItem
	Rel string
}
type TgEmbOmitI struct {
	Extra interface{} `json:"extra,omitempty"`
	Note  string      `json:"note,omitempty"`
}
type TgEmbOmitS struct {
	In struct{ Z int } `json:"in,omitempty"`
	W  int             `json:"w"`
}
type TgEmbOmitP struct {
	PP **int `json:"pp,omitempty"`
	V  bool  `json:"v,omitempty"`
}

type TgNamedStr string
type TgNamedInt int64
type TgNamedSlice []int
type TgNamedMap map[string]bool

var tgNamed = []reflect.Type{
	reflect.TypeOf(TgMV{}), reflect.TypeOf(TgMP{}), reflect.TypeOf(TgTV{}), reflect.TypeOf(TgTP{}), reflect.TypeOf(TgMErr{}),
	reflect.TypeOf(TgRec{}), reflect.TypeOf(TgMutA{}), reflect.TypeOf(TgEmbed{}), reflect.TypeOf(time.Time{}),
	reflect.TypeOf(stdjson.Number("")), reflect.TypeOf(stdjson.RawMessage(nil)), reflect.TypeOf(TgNamedStr("")),
	reflect.TypeOf(TgNamedInt(0)), reflect.TypeOf(TgNamedSlice(nil)), reflect.TypeOf(TgNamedMap(nil)), reflect.TypeOf(TgIntKey(0)),
	reflect.TypeOf(TgRecEmb{}), reflect.TypeOf(TgMutEmbA{}), reflect.TypeOf(map[stdjson.Number]int(nil)),
	reflect.TypeOf([]TgTextByte(nil)), reflect.TypeOf([]TgJSONByte(nil)), reflect.TypeOf([]TgPlainByte(nil)),
	reflect.TypeOf(TgItem{}), reflect.TypeOf(TgItemLink{}),
}

var tgBasic = []reflect.Type{
	reflect.TypeOf(false), reflect.TypeOf(int(0)), reflect.TypeOf(int8(0)), reflect.TypeOf(int16(0)), reflect.TypeOf(int32(0)), reflect.TypeOf(int64(0)),
	reflect.TypeOf(uint(0)), reflect.TypeOf(uint8(0)), reflect.TypeOf(uint16(0)), reflect.TypeOf(uint32(0)), reflect.TypeOf(uint64(0)), reflect.TypeOf(uintptr(0)),
	reflect.TypeOf(float32(0)), reflect.TypeOf(float64(0)), reflect.TypeOf(""), reflect.TypeOf([]byte(nil)),
}

var tgIface = reflect.TypeOf((*interface{})(nil)).Elem()

type tgOpts struct {
	named    bool // include the named types with methods
	lossless bool // only round-trippable features (C04)
	wide     bool // 6..19 fields at the top level (the 16-bit key matcher needs more than 8 names)
}

func tgType(r *rand.Rand, depth int, o tgOpts) reflect.Type {
	k := r.Intn(20)
	if depth <= 0 && k >= 8 {
		k = r.Intn(8)
	}
	switch {
	case k < 6:
		return tgBasic[r.Intn(len(tgBasic))]
	case k < 8:
		if o.named {
			return tgNamed[r.Intn(len(tgNamed))]
		}
		return tgBasic[r.Intn(len(tgBasic))]
	case k == 8:
		return tgIface
	case k < 11:
		return reflect.PtrTo(tgType(r, depth-1, o))
	case k < 13:
		return reflect.SliceOf(tgType(r, depth-1, o))
	case k == 13:
		return reflect.ArrayOf(r.Intn(4), tgType(r, depth-1, o))
	case k < 16:
		var key reflect.Type
		switch r.Intn(8) {
		case 0:
			key = reflect.TypeOf(int(0))
		case 1:
			key = reflect.TypeOf(uint8(0))
		case 6, 7:
			// every integer width can be a key
			key = []reflect.Type{reflect.TypeOf(int8(0)), reflect.TypeOf(int16(0)), reflect.TypeOf(int32(0)), reflect.TypeOf(uint16(0)),
				reflect.TypeOf(uint32(0)), reflect.TypeOf(uint64(0)), reflect.TypeOf(uint(0)), reflect.TypeOf(uintptr(0))}[r.Intn(8)]
		case 2:
			if o.named && !o.lossless {
				key = reflect.TypeOf(TgIntKey(0))
			} else {
				key = reflect.TypeOf("")
			}
		case 3:
			key = reflect.TypeOf(int64(0))
		default:
			key = reflect.TypeOf("")
		}
		return reflect.MapOf(key, tgType(r, depth-1, o))
	default:
		return tgStruct(r, depth-1, o)
	}
}

func tgStruct(r *rand.Rand, depth int, o tgOpts) reflect.Type {
	n := 1 + r.Intn(5)
	if o.wide {
		n = 6 + r.Intn(14)
		o.wide = false
	}
	var fs []reflect.StructField
	used := map[string]bool{}
	for i := 0; i < n; i++ {
		name := fmt.Sprintf("F%d", i)
		ft := tgType(r, depth, o)
		if ft == reflect.TypeOf(TgRec{}) || ft == reflect.TypeOf(TgMutA{}) || ft == reflect.TypeOf(TgRecEmb{}) || ft == reflect.TypeOf(TgMutEmbA{}) ||
			ft == reflect.TypeOf(TgItem{}) || ft == reflect.TypeOf(TgItemLink{}) {
			// recorded finding RecursiveStructByValueField: a recursive struct held by value in a struct that is itself
			// reached through a pointer field; the generator keeps recursive types behind pointers, in slices, maps and at top level
			ft = reflect.PtrTo(ft)
		}
		f := reflect.StructField{Name: name, Type: ft}
		if o.named && r.Intn(9) == 0 {
			// embedded named struct (value or pointer)
			et := []reflect.Type{reflect.TypeOf(TgEmbBase{}), reflect.TypeOf(TgEmbPtr{}), reflect.TypeOf(TgEmbOther{}),
				reflect.TypeOf(TgEmbOmitI{}), reflect.TypeOf(TgEmbOmitS{}), reflect.TypeOf(TgRecEmb{})}[r.Intn(6)] // TgEmbOmitP: see finding EmbeddedPtrFirstFieldDoublePtr and its probe
			if !used[et.Name()] {
				used[et.Name()] = true
				if r.Intn(2) == 0 {
					fs = append(fs, reflect.StructField{Name: et.Name(), Type: et, Anonymous: true})
				} else {
					fs = append(fs, reflect.StructField{Name: et.Name(), Type: reflect.PtrTo(et), Anonymous: true})
				}
				continue
			}
		}
		var tag []string
		jname := ""
		switch r.Intn(8) {
		case 0:
			jname = "-"
		case 1:
			jname = fmt.Sprintf("n%d", i)
		case 2:
			jname = []string{"a&b", "<x>", "é", "with space", "UPPER", "id", "name"}[r.Intn(7)] // may collide with embedded names
		}
		if jname != "" || r.Intn(2) == 0 {
			tag = append(tag, jname)
			if jname != "-" && r.Intn(3) == 0 {
				tag = append(tag, "omitempty")
			}
			if jname != "-" && !o.lossless && r.Intn(6) == 0 {
				tag = append(tag, "string")
			}
			if len(tag) > 1 || tag[0] != "" {
				f.Tag = reflect.StructTag(`json:"` + strings.Join(tag, ",") + `"`)
			}
		}
		fs = append(fs, f)
	}
	return reflect.StructOf(fs)
}

var tgStrings = []string{"", "a", "hello world", "<script>&amp;</script>", "quote\"back\\slash/", "tab\tnl\ncr\rbs\bff\f", "\x00\x01\x1f\x7f", "é€😀", "  ", "\xff\xfe bad utf8 \xc3", "𝄞",
	strings.Repeat("long ", 40), "0123456789", "true", "null", " ",
	// every plane and the edges of the UTF-8 encoding; surrogates written as three bytes, overlong forms, beyond U+10FFFF
	"\U000D0000", "flag \U000E0067\U000E0062 tag", "\U000F0000\U000FFFFD", "\U0010FFFF", "\U00010000", "\uffff\ud7ff\ue000", "\xed\xa0\x80", "a\xed\xbf\xbfb",
	"12345678\xed\xb0\x80", "\xf4\x90\x80\x80", "\xf0\x8f\xbf\xbf", "\xe0\x9f\xbf", "\xc0\xaf", "\xf3\x80\x80", "abcdefg\xf3\xa0\x81\xa7", "\xf8\x88\x80\x80\x80"}

// tgRandString draws a string from byte classes that matter to the escape tables, the UTF-8 decoder and the 8-byte
// scan: any length up to 40, any alignment
func tgRandString(r *rand.Rand) string {
	n := r.Intn(41)
	var b []byte
	for len(b) < n {
		switch r.Intn(16) {
		case 0:
			b = append(b, []byte{'"', '\\', '<', '>', '&', '/', 0x7f, 0, 0x1f, '\n'}[r.Intn(10)])
		case 1:
			b = append(b, string(rune(0x80+r.Intn(0x780)))...)
		case 2:
			b = append(b, string([]rune{0x800, 0xd7ff, 0xe000, 0xfffd, 0xffff, 0x2028, 0x2029, 0x2027, 0x202a}[r.Intn(9)])...)
		case 3:
			b = append(b, string(rune(0x10000+r.Intn(0x100000)))...)
		case 4:
			b = append(b, string([]rune{0x10000, 0x3ffff, 0x40000, 0xcffff, 0xd0000, 0xe0061, 0xfffff, 0x100000, 0x10ffff}[r.Intn(9)])...)
		case 5: // ill-formed: a lead byte and whatever follows
			b = append(b, []byte{0xc0, 0xc1, 0xc2, 0xdf, 0xe0, 0xed, 0xef, 0xf0, 0xf3, 0xf4, 0xf5, 0xff, 0x80, 0xbf}[r.Intn(14)])
			for k := r.Intn(4); k > 0; k-- {
				b = append(b, []byte{0x80, 0x8f, 0x90, 0x9f, 0xa0, 0xbf}[r.Intn(6)])
			}
		default:
			b = append(b, byte('a'+r.Intn(26)))
		}
	}
	return string(b)
}

// tgSeveralIllFormedKeys: set by C01, which knows the finding about their order
var tgSeveralIllFormedKeys bool

var tgFloats = []float64{0, math.Copysign(0, -1), 1, -1, 0.1, 1.5, 1e20, 1e21, 1e-6, 1e-7, 123456789.125, math.MaxFloat64, math.SmallestNonzeroFloat64, math.MaxFloat32, 3.4028235e38,
	1.401298464324817e-45, 0.000001, 100000000000000000000, 1.7976931348623157e308, 5e-324, 2.2250738585072014e-308, 9007199254740993, 0.30000000000000004, 1e23}

// tgValue fills v (settable) with a boundary or random value; nilRate in percent for nilable positions
func tgValue(r *rand.Rand, v reflect.Value, depth int, nilRate int, special bool) {
	t := v.Type()
	switch t {
	case reflect.TypeOf(time.Time{}):
		v.Set(reflect.ValueOf([]time.Time{{}, time.Unix(1700000000, 123456789).UTC(), time.Date(2020, 2, 29, 23, 59, 59, 0, time.FixedZone("x", 3600))}[r.Intn(3)]))
		return
	case reflect.TypeOf(stdjson.Number("")):
		l := []string{"0", "-12", "1.5e3", "123456789012345678901234567890", "1E-2", ""}
		if special {
			l = append(l, "abc", "1.", "+1", "0x10", "1e", "--1", "1 2", "NaN", "01", "-01", "00", "007", "1e+", ".5", "1.5.5", "Infinity")
		}
		v.SetString(l[r.Intn(len(l))])
		return
	case reflect.TypeOf(stdjson.RawMessage(nil)):
		l := []string{`{"raw":[1,2]}`, `"s"`, `null`, ` [ 1 , 2 ] `, `12.5`}
		if special {
			l = append(l, `{`, `[1,]`, ``, `tru`, `{"a":}`, "\"\x01\"")
		}
		if r.Intn(100) < nilRate {
			return
		}
		v.SetBytes([]byte(l[r.Intn(len(l))]))
		return
	case reflect.TypeOf(TgMErr{}):
		v.Field(0).SetBool(special && r.Intn(3) == 0)
		return
	}
	switch t.Kind() {
	case reflect.Bool:
		v.SetBool(r.Intn(2) == 0)
	case reflect.Int, reflect.Int8, reflect.Int16, reflect.Int32, reflect.Int64:
		bits := uint(t.Size()) * 8
		switch r.Intn(6) {
		case 0:
			v.SetInt(-1 << (bits - 1))
		case 1:
			v.SetInt(1<<(bits-1) - 1)
		case 2:
			v.SetInt(0)
		case 3:
			v.SetInt(-1)
		default:
			v.SetInt(r.Int63() >> (64 - bits) * int64(1-2*r.Intn(2)))
		}
	case reflect.Uint, reflect.Uint8, reflect.Uint16, reflect.Uint32, reflect.Uint64, reflect.Uintptr:
		bits := uint(t.Size()) * 8
		switch r.Intn(4) {
		case 0:
			v.SetUint(0)
		case 1:
			v.SetUint(math.MaxUint64 >> (64 - bits))
		default:
			v.SetUint(r.Uint64() >> (64 - bits))
		}
	case reflect.Float32, reflect.Float64:
		f := tgFloats[r.Intn(len(tgFloats))]
		if r.Intn(3) == 0 {
			f = (r.Float64() - 0.5) * math.Pow(10, float64(r.Intn(60)-30))
		}
		if special && r.Intn(6) == 0 {
			f = []float64{math.NaN(), math.Inf(1), math.Inf(-1)}[r.Intn(3)]
		}
		if t.Kind() == reflect.Float32 && !math.IsInf(f, 0) && math.Abs(f) > math.MaxFloat32 {
			f = math.MaxFloat32
		}
		v.SetFloat(f)
	case reflect.String:
		if r.Intn(4) == 0 {
			v.SetString(tgRandString(r))
		} else {
			v.SetString(tgStrings[r.Intn(len(tgStrings))])
		}
	case reflect.Slice:
		if r.Intn(100) < nilRate {
			return
		}
		n := []int{0, 1, 2, 3}[r.Intn(4)]
		if t.Elem().Kind() == reflect.Uint8 {
			n = []int{0, 1, 2, 3, 4, 31, 100}[r.Intn(7)]
		}
		if depth > 5 {
			n = 0
		}
		s := reflect.MakeSlice(t, n, n)
		for i := 0; i < n; i++ {
			tgValue(r, s.Index(i), depth+1, nilRate, special)
		}
		v.Set(s)
	case reflect.Array:
		for i := 0; i < v.Len(); i++ {
			tgValue(r, v.Index(i), depth+1, nilRate, special)
		}
	case reflect.Map:
		if r.Intn(100) < nilRate {
			return
		}
		m := reflect.MakeMap(t)
		n := r.Intn(4)
		if depth > 5 {
			n = 0
		}
		illFormed := false
		for i := 0; i < n; i++ {
			k := reflect.New(t.Key()).Elem()
			tgValue(r, k, depth+1, 0, false)
			if k.Kind() == reflect.String && !utf8.ValidString(k.String()) {
				// two keys that are not valid UTF-8 can be written as the same replacement characters: an object with a
				// repeated name, whose member order is C01's recorded finding MapKeyInvalidUTF8Order -- one such key per
				// map everywhere, several only where C01 asks for them
				if illFormed && !tgSeveralIllFormedKeys {
					k.SetString(strings.ToValidUTF8(k.String(), "?"))
				}
				illFormed = true
			}
			e := reflect.New(t.Elem()).Elem()
			tgValue(r, e, depth+1, nilRate, special)
			m.SetMapIndex(k, e)
		}
		v.Set(m)
	case reflect.Ptr:
		if r.Intn(100) < nilRate || depth > 6 {
			return
		}
		n := reflect.New(t.Elem())
		tgValue(r, n.Elem(), depth+1, nilRate, special)
		v.Set(n)
	case reflect.Interface:
		if r.Intn(100) < nilRate || depth > 5 {
			return
		}
		// JSON-natural dynamic values, and values of generated types
		switch r.Intn(9) {
		case 0:
			v.Set(reflect.ValueOf(tgStrings[r.Intn(len(tgStrings))]))
		case 1:
			v.Set(reflect.ValueOf(tgFloats[r.Intn(len(tgFloats))]))
		case 2:
			v.Set(reflect.ValueOf(r.Intn(2) == 0))
		case 3:
			v.Set(reflect.ValueOf([]interface{}{1.5, "x", nil, map[string]interface{}{"k": []interface{}{}}}))
		case 4:
			v.Set(reflect.ValueOf(map[string]interface{}{"b": 1.0, "a": "<>", "c": nil}))
		case 5:
			v.Set(reflect.ValueOf(int64(r.Intn(1000)) - 500))
		default:
			it := tgType(r, 2, tgOpts{named: true})
			if it.Kind() == reflect.Interface || tgKnownBadAnywhere(it, 0) != "" {
				return
			}
			x := reflect.New(it)
			tgValue(r, x.Elem(), depth+2, nilRate, special)
			if r.Intn(2) == 0 {
				v.Set(x) // pointer inside the interface
			} else {
				v.Set(x.Elem())
			}
		}
	case reflect.Struct:
		for i := 0; i < v.NumField(); i++ {
			if v.Field(i).CanSet() {
				tgValue(r, v.Field(i), depth+1, nilRate, special)
			}
		}
	}
}

// ---- comparison of two JSON texts up to the tolerated spellings of a single token ----

// tgCanon rewrites a JSON text token by token: strings are decoded and re-encoded canonically,
// exponents lose sign '+' and leading zeros; everything else is copied. ok=false if the text does not scan.
func tgCanon(b []byte) (string, bool) {
	var out strings.Builder
	i := 0
	for i < len(b) {
		c := b[i]
		switch {
		case c == '"':
			j := i + 1
			for j < len(b) && b[j] != '"' {
				if b[j] == '\\' {
					j++
				}
				j++
			}
			if j >= len(b) {
				return "", false
			}
			if body := string(b[i+1 : j]); tgQuotedNumber.MatchString(body) {
				// a number in quotes (",string"): the same tolerance for its exponent
				n, _ := tgCanon([]byte(body))
				out.WriteString(`"` + n + `"`)
				i = j + 1
				continue
			}
			// only the tolerated spellings: \u0008 = \b and \u000c = \f
			k := i
			for k <= j {
				if b[k] == '\\' && k+1 <= j {
					if b[k+1] == 'u' && k+5 <= j {
						h := strings.ToLower(string(b[k+2 : k+6]))
						if h == "0008" {
							out.WriteString(`\b`)
							k += 6
							continue
						}
						if h == "000c" {
							out.WriteString(`\f`)
							k += 6
							continue
						}
					}
					if b[k+1] == '\\' && k+6 <= j && b[k+2] == 'u' {
						// a string inside a string (",string"): the same two spellings one level down
						h := strings.ToLower(string(b[k+3 : k+7]))
						if h == "0008" {
							out.WriteString(`\\b`)
							k += 7
							continue
						}
						if h == "000c" {
							out.WriteString(`\\f`)
							k += 7
							continue
						}
					}
					out.WriteByte(b[k])
					out.WriteByte(b[k+1])
					k += 2
					continue
				}
				out.WriteByte(b[k])
				k++
			}
			i = j + 1
		case c == '-' || (c >= '0' && c <= '9'):
			j := i
			for j < len(b) && strings.IndexByte("+-0123456789.eE", b[j]) >= 0 {
				j++
			}
			num := string(b[i:j])
			if k := strings.IndexAny(num, "eE"); k >= 0 {
				mant, exp := num[:k], num[k+1:]
				neg := strings.HasPrefix(exp, "-")
				exp = strings.TrimLeft(exp, "+-")
				exp = strings.TrimLeft(exp, "0")
				if exp == "" {
					exp = "0"
				}
				if neg {
					exp = "-" + exp
				}
				num = mant + "e" + exp
			}
			out.WriteString(num)
			i = j
		default:
			out.WriteByte(c)
			i++
		}
	}
	return out.String(), true
}

var tgQuotedNumber = regexp.MustCompile(`^-?[0-9]+(\.[0-9]+)?[eE][-+]?[0-9]+$`)

func tgSameJSON(a, b []byte) bool {
	if string(a) == string(b) {
		return true
	}
	ca, ok1 := tgCanon(a)
	cb, ok2 := tgCanon(b)
	return ok1 && ok2 && ca == cb
}

// ---- recorded encoder findings about values whose interface representation is the pointer itself ----

func tgPointerLike(t reflect.Type) bool {
	switch t.Kind() {
	case reflect.Ptr, reflect.Map, reflect.Chan, reflect.Func, reflect.UnsafePointer:
		return true
	}
	return false
}

// tgPtrShaped: an array of one pointer-shaped element or a struct with a single pointer-shaped field is stored in an interface as the pointer itself
func tgPtrShaped(t reflect.Type) bool {
	switch t.Kind() {
	case reflect.Array:
		return t.Len() == 1 && (tgPointerLike(t.Elem()) || tgPtrShaped(t.Elem()))
	case reflect.Struct:
		return t.NumField() == 1 && (tgPointerLike(t.Field(0).Type) || tgPtrShaped(t.Field(0).Type))
	}
	return false
}

var tgMarshalerIface = reflect.TypeOf((*stdjson.Marshaler)(nil)).Elem()
var tgTextMarshalerIface = reflect.TypeOf((*interface{ MarshalText() ([]byte, error) })(nil)).Elem()

// the type or its pointer type has a MarshalJSON / MarshalText method
func tgHasPtrRecvMarshaler(t reflect.Type) bool {
	p := reflect.PtrTo(t)
	return t.Implements(tgMarshalerIface) || p.Implements(tgMarshalerIface) || t.Implements(tgTextMarshalerIface) || p.Implements(tgTextMarshalerIface)
}

// tgKnownBadDirect names the recorded finding that makes a value of type t unusable when it is reached
// directly (top level, behind one pointer, or as the dynamic value of an interface); "" if none
func tgKnownBadDirect(t reflect.Type) string {
	if t.Kind() == reflect.Ptr {
		e := t.Elem()
		if e.Kind() == reflect.Ptr {
			x := e
			for x.Kind() == reflect.Ptr {
				x = x.Elem()
			}
			if tgHasPtrRecvMarshaler(x) {
				return "DoublePtrToPtrReceiverMarshaler"
			}
		}
		return tgKnownBadDirect(e)
	}
	if !tgPtrShaped(t) {
		return ""
	}
	// walk down to the pointer
	x := t
	for tgPtrShaped(x) {
		if x.Kind() == reflect.Array {
			return "PointerShapedArray"
		}
		x = x.Field(0).Type
	}
	if x.Kind() == reflect.Ptr && x.Elem().Kind() == reflect.Ptr {
		return "PointerShapedStructDoublePtr"
	}
	return ""
}

// tgKnownBadAnywhere: the type contains, at a position where the encoder reaches it directly (array element,
// struct field of a pointer-shaped struct), one of the shapes above
func tgKnownBadAnywhere(t reflect.Type, depth int) string {
	if depth > 8 {
		return ""
	}
	if c := tgKnownBadDirect(t); c != "" {
		return c
	}
	switch t.Kind() {
	case reflect.Ptr, reflect.Slice, reflect.Array, reflect.Map:
		return tgKnownBadAnywhere(t.Elem(), depth+1)
	case reflect.Struct:
		if t == reflect.TypeOf(time.Time{}) {
			return ""
		}
		for i := 0; i < t.NumField(); i++ {
			f := t.Field(i)
			// recorded finding EmbeddedPtrFirstFieldDoublePtr: an embedded pointer to a struct whose first field is a pointer to a pointer
			if f.Anonymous && f.Type.Kind() == reflect.Ptr && f.Type.Elem().Kind() == reflect.Struct && f.Type.Elem().NumField() > 0 {
				if ff := f.Type.Elem().Field(0).Type; ff.Kind() == reflect.Ptr && ff.Elem().Kind() == reflect.Ptr {
					return "EmbeddedPtrFirstFieldDoublePtr"
				}
			}
			if c := tgKnownBadAnywhere(f.Type, depth+1); c != "" {
				return c
			}
		}
	}
	return ""
}

// tgShapeSweep: pointer-shaped aggregates (a struct whose storage is a single pointer) in every position the
// encoder treats differently: top level, map value, slice / array element, only field, one of several fields,
// behind a pointer, embedded
type TgLeaf struct {
	A int `json:"a"`
}

func tgShapeSweep() []reflect.Type {
	leafPtr := reflect.PtrTo(reflect.TypeOf(TgLeaf{}))
	intPtr := reflect.PtrTo(reflect.TypeOf(0))
	strMap := reflect.MapOf(reflect.TypeOf(""), reflect.TypeOf(0))
	slPtr := reflect.PtrTo(reflect.SliceOf(reflect.TypeOf(0)))
	inner := []reflect.Type{leafPtr, intPtr, strMap, slPtr, reflect.PtrTo(reflect.TypeOf(""))}
	one := func(name string, t reflect.Type, tag string, anon bool) reflect.Type {
		return reflect.StructOf([]reflect.StructField{{Name: name, Type: t, Tag: reflect.StructTag(tag), Anonymous: anon}})
	}
	var wrappers []reflect.Type
	for _, p := range inner {
		w1 := one("In", p, "", false)
		wrappers = append(wrappers, w1, one("In", p, `json:"in,omitempty"`, false), one("X", w1, "", false), one("X", w1, `json:"x,omitempty"`, false))
	}
	wrappers = append(wrappers, one("TgLeaf", leafPtr, "", true), one("TgEmbPtr", reflect.PtrTo(reflect.TypeOf(TgEmbPtr{})), "", true))
	var res []reflect.Type
	for _, w := range wrappers {
		res = append(res, w, reflect.PtrTo(w), reflect.MapOf(reflect.TypeOf(""), w), reflect.MapOf(reflect.TypeOf(0), w), reflect.SliceOf(w), reflect.ArrayOf(2, w),
			one("F", w, "", false),
			reflect.StructOf([]reflect.StructField{{Name: "A", Type: reflect.TypeOf(0)}, {Name: "F", Type: w}, {Name: "Z", Type: reflect.TypeOf("")}}),
			reflect.StructOf([]reflect.StructField{{Name: "F", Type: w}, {Name: "Z", Type: reflect.TypeOf(0)}}),
			reflect.MapOf(reflect.TypeOf(""), reflect.SliceOf(w)), reflect.SliceOf(reflect.MapOf(reflect.TypeOf(""), w)), reflect.PtrTo(reflect.MapOf(reflect.TypeOf(""), w)))
	}
	return res
}

// tgValueTypes walks a value and reports every static and dynamic type met (interfaces are entered)
func tgValueTypes(v reflect.Value, depth int, f func(reflect.Type)) {
	if depth > 12 || !v.IsValid() {
		return
	}
	f(v.Type())
	switch v.Kind() {
	case reflect.Ptr, reflect.Interface:
		if !v.IsNil() {
			tgValueTypes(v.Elem(), depth+1, f)
		} else if v.Kind() == reflect.Ptr {
			tgTypeTypes(v.Type().Elem(), depth+1, f)
		}
	case reflect.Slice, reflect.Array:
		if v.Len() == 0 {
			tgTypeTypes(v.Type().Elem(), depth+1, f)
		}
		for i := 0; i < v.Len() && i < 64; i++ {
			tgValueTypes(v.Index(i), depth+1, f)
		}
	case reflect.Map:
		tgTypeTypes(v.Type().Elem(), depth+1, f)
		it := v.MapRange()
		for n := 0; it.Next() && n < 64; n++ { // (8 missed the one member of a 40-member map that held the recorded shape)
			tgValueTypes(it.Value(), depth+1, f)
		}
	case reflect.Struct:
		for i := 0; i < v.NumField(); i++ {
			tgValueTypes(v.Field(i), depth+1, f)
		}
	}
}

func tgTypeTypes(t reflect.Type, depth int, f func(reflect.Type)) {
	if depth > 12 {
		return
	}
	f(t)
	switch t.Kind() {
	case reflect.Ptr, reflect.Slice, reflect.Array, reflect.Map:
		tgTypeTypes(t.Elem(), depth+1, f)
	case reflect.Struct:
		if t == reflect.TypeOf(time.Time{}) || t == reflect.TypeOf(TgRec{}) || t == reflect.TypeOf(TgMutA{}) || t == reflect.TypeOf(TgMutB{}) {
			return
		}
		for i := 0; i < t.NumField(); i++ {
			tgTypeTypes(t.Field(i).Type, depth+1, f)
		}
	}
}
