package main

// C01: Marshal agrees with encoding/json for every value of every supported type.
// Types and values come from typegen.go; each value is encoded directly, through a
// pointer and through interface{}, with Marshal, MarshalIndent and Encoder
// (escapeHTML on/off), and compared with encoding/json: same verdict, and on
// success the same document up to the tolerated token spellings.  Each
// disagreement is reduced to a small (type, value) before it is reported, and
// attributed to a recorded finding only by a frozen syntactic class.

import (
	"bytes"
	"context"
	stdjson "encoding/json"
	"fmt"
	"math/rand"
	"os"
	"os/exec"
	"reflect"
	"sort"
	"strconv"
	"strings"
	"time"
	"unicode/utf8"

	gojson "github.com/goccy/go-json"
)

func init() {
	props["C01"] = runC01
	props["C01child"] = runC01Child
	props["C01probe"] = runC01Probe
}

// witnesses of the recorded findings whose shapes the generator leaves out because they crash the process
type c01R struct {
	M map[string]c01R `json:"m,omitempty"`
}

type c01In struct{ F0 TgMutA }
type c01Out struct{ F0 *c01In }

func c01Probes() map[string]interface{} {
	i := 7
	pi := &i
	ppi := &pi
	tp := TgTP{"x"}
	ptp := &tp
	return map[string]interface{}{
		"PointerShapedArray":              [1]*int{pi},
		"PointerShapedStructDoublePtr":    struct{ P **int }{ppi},
		"DoublePtrToPtrReceiverMarshaler": &ptp,
		"RecursivePointerShapedStruct":    c01R{M: map[string]c01R{"a": {M: map[string]c01R{"b": {}}}}},
		"RecursiveStructByValueField":     c01Out{F0: &c01In{F0: TgMutA{A: 1, B: &TgMutB{S: "x", A: []TgMutA{{A: 2}}}}}},
		"EmbeddedPtrFirstFieldDoublePtr": struct {
			*TgEmbOmitP
			X int
		}{&TgEmbOmitP{PP: ppi, V: true}, 0},
	}
}

// child: exit 0 if the witness encodes like encoding/json, 1 if not (a crash is any other status)
func runC01Probe(o *Out) {
	v := c01Probes()[os.Getenv("C01_PROBE")]
	got, err := gojson.Marshal(v)
	want, _ := stdjson.Marshal(v)
	if err != nil || !bytes.Equal(got, want) {
		os.Exit(1)
	}
}

type c01Wrap struct {
	I interface{} `json:"i"`
}

func c01Safe(f func() ([]byte, error)) (b []byte, err error) {
	defer func() {
		if rec := recover(); rec != nil {
			err = fmt.Errorf("PANIC: %v", rec)
		}
	}()
	return f()
}

type c01Variant struct {
	name string
	goj  func(v interface{}) ([]byte, error)
	std  func(v interface{}) ([]byte, error)
}

var c01Variants = []c01Variant{
	{"Marshal", func(v interface{}) ([]byte, error) { return gojson.Marshal(v) }, func(v interface{}) ([]byte, error) { return stdjson.Marshal(v) }},
	{"MarshalIndent", func(v interface{}) ([]byte, error) { return gojson.MarshalIndent(v, "", "  ") }, func(v interface{}) ([]byte, error) { return stdjson.MarshalIndent(v, "", "  ") }},
	{"Encoder", func(v interface{}) ([]byte, error) {
		var b bytes.Buffer
		err := gojson.NewEncoder(&b).Encode(v)
		return b.Bytes(), err
	}, func(v interface{}) ([]byte, error) {
		var b bytes.Buffer
		err := stdjson.NewEncoder(&b).Encode(v)
		return b.Bytes(), err
	}},
	{"Encoder(escapeHTML=false)", func(v interface{}) ([]byte, error) {
		var b bytes.Buffer
		e := gojson.NewEncoder(&b)
		e.SetEscapeHTML(false)
		err := e.Encode(v)
		return b.Bytes(), err
	}, func(v interface{}) ([]byte, error) {
		var b bytes.Buffer
		e := stdjson.NewEncoder(&b)
		e.SetEscapeHTML(false)
		err := e.Encode(v)
		return b.Bytes(), err
	}},
	{"Encoder(indent,escapeHTML=false)", func(v interface{}) ([]byte, error) {
		var b bytes.Buffer
		e := gojson.NewEncoder(&b)
		e.SetEscapeHTML(false)
		e.SetIndent("", "\t")
		err := e.Encode(v)
		return b.Bytes(), err
	}, func(v interface{}) ([]byte, error) {
		var b bytes.Buffer
		e := stdjson.NewEncoder(&b)
		e.SetEscapeHTML(false)
		e.SetIndent("", "\t")
		err := e.Encode(v)
		return b.Bytes(), err
	}},
}

// the three ways a value is reached
func c01Reach(v reflect.Value, how int) interface{} {
	switch how {
	case 0:
		return v.Elem().Interface()
	case 1:
		return v.Interface()
	default:
		return c01Wrap{I: v.Elem().Interface()}
	}
}

var c01ReachName = []string{"direct", "pointer", "interface"}

// one comparison; returns a description of the disagreement or ""
func c01Compare(variant c01Variant, arg interface{}) (string, []byte, []byte) {
	got, gerr := c01Safe(func() ([]byte, error) { return variant.goj(arg) })
	want, werr := c01Safe(func() ([]byte, error) { return variant.std(arg) })
	if werr != nil && strings.HasPrefix(werr.Error(), "PANIC") {
		return "", nil, nil // the oracle itself cannot handle it
	}
	if (gerr != nil) != (werr != nil) {
		return fmt.Sprintf("verdict: go-json err=%v, encoding/json err=%v", gerr, werr), got, want
	}
	if gerr == nil && !tgSameJSON(got, want) {
		return "output differs", got, want
	}
	return "", got, want
}

// frozen classes of recorded findings; "" = none applies
func c01Classify(t reflect.Type, val reflect.Value, what string, got, want []byte) string {
	ts := c01Shape(t, val)
	if strings.Contains(ts, "<ptrshaped>") {
		// recorded family: a struct or array whose storage is a single pointer (at any depth, also inside interface{})
		return "PointerShapedAggregate"
	}
	if what != "output differs" {
		if strings.Contains(what, "called using nil *") {
			for _, n := range []string{"*main.TgTV", "*main.TgIntKey", "*main.TgMV", "*time.Time", "*main.TgMErr", "*json.RawMessage", "*json.Number"} {
				if strings.Contains(ts, n) {
					return "NilPtrToValueReceiverMarshaler"
				}
			}
		}
		return ""
	}
	dec := func(b []byte) (interface{}, bool) {
		var x interface{}
		d := stdjson.NewDecoder(bytes.NewReader(b))
		d.UseNumber()
		if d.Decode(&x) != nil {
			return nil, false
		}
		return x, true
	}
	if cg, ok := tgCanon(got); ok {
		got = []byte(cg)
	}
	if cw, ok := tgCanon(want); ok {
		want = []byte(cw)
	}
	g, ok1 := dec(got)
	w, ok2 := dec(want)
	if os.Getenv("C01_DEBUGCLS") != "" {
		fmt.Fprintf(os.Stderr, "CLS ok=%v,%v shape=%s\n", ok1, ok2, clipN(ts, 300))
	}
	if !ok1 || !ok2 {
		return ""
	}
	same := func(a, b interface{}) bool {
		x, _ := stdjson.Marshal(a) // sorts the members
		y, _ := stdjson.Marshal(b)
		return bytes.Equal(x, y)
	}
	// frozen families around marshaler methods (see KNOWN_FINDINGS.txt); they apply only to types that contain the named shapes
	if strings.Contains(ts, "main.TgMP") || strings.Contains(ts, "main.TgTP") {
		return "PtrReceiverMarshalerAddressability"
	}
	for _, n := range []string{"*main.TgTV", "*main.TgIntKey", "*main.TgMV", "*time.Time", "*main.TgMErr", "*json.Number", "*json.RawMessage"} {
		if strings.Contains(ts, n) {
			return "NilPtrToValueReceiverMarshaler"
		}
	}
	if strings.Contains(ts, "main.TgIntKey") && strings.Contains(ts, "omitempty") {
		return "OmitemptyOnTextMarshalerScalar"
	}
	if strings.Contains(ts, "**") && strings.Contains(ts, ",string") {
		return "StringTagOnDoublePointer"
	}
	if same(g, w) {
		// the same members in another order: recorded for keys that are not valid UTF-8 (ordered by their replacement characters)
		if bytes.Contains(got, []byte(`\ufffd`)) {
			return "MapKeyInvalidUTF8Order"
		}
		return ""
	}
	// the same finding when several keys of one map are written as the same replacement characters: the members are
	// the same up to their order (compared with the repeated keys kept), and the value does hold such a map
	if c01HasInvalidUTF8MapKey(val, 0) && c01SortedMembers(got) != "" && c01SortedMembers(got) == c01SortedMembers(want) {
		return "MapKeyInvalidUTF8Order"
	}
	var drop func(x interface{}, pred func(interface{}) bool) interface{}
	drop = func(x interface{}, pred func(interface{}) bool) interface{} {
		switch v := x.(type) {
		case map[string]interface{}:
			r := map[string]interface{}{}
			for k, e := range v {
				if pred(e) {
					continue
				}
				r[k] = drop(e, pred)
			}
			return r
		case []interface{}:
			r := make([]interface{}, len(v))
			for i, e := range v {
				r[i] = drop(e, pred)
			}
			return r
		}
		return x
	}
	if os.Getenv("C01_DEBUGCLS") != "" {
		x, _ := stdjson.Marshal(g)
		y, _ := stdjson.Marshal(w)
		fmt.Fprintf(os.Stderr, "CLS2 same=%v g=%s w=%s\n", same(g, w), clipN(string(x), 200), clipN(string(y), 200))
	}
	if strings.Contains(ts, "[0]") && strings.Contains(ts, "omitempty") {
		emptyArr := func(e interface{}) bool { a, ok := e.([]interface{}); return ok && len(a) == 0 }
		if same(drop(g, emptyArr), drop(w, emptyArr)) {
			return "EmptyArrayOmitempty"
		}
	}
	if strings.Contains(ts, "omitempty") && (strings.Contains(ts, "*map[") || strings.Contains(ts, "*[]") || strings.Contains(ts, "**") || strings.Contains(ts, "*interface")) {
		isNull := func(e interface{}) bool { return e == nil }
		if same(drop(g, isNull), drop(w, isNull)) {
			return "OmitemptyPtrToNil"
		}
	}
	return ""
}

// c01Shape: the static type plus every dynamic type met in the value, with a marker for pointer-shaped aggregates
func c01Shape(t reflect.Type, v reflect.Value) string {
	seen := map[reflect.Type]bool{}
	var b strings.Builder
	add := func(x reflect.Type) {
		if seen[x] {
			return
		}
		seen[x] = true
		b.WriteString(x.String())
		b.WriteByte(' ')
		if tgPtrShaped(x) {
			b.WriteString("<ptrshaped> ")
		}
	}
	tgTypeTypes(t, 0, add)
	tgValueTypes(v, 0, add)
	return b.String()
}

// c01CrashClass: the recorded family a crash on this case belongs to ("" = none): decided before the case runs
func c01CrashClass(t reflect.Type, v reflect.Value, how int) string {
	ts := c01Shape(t, v)
	if strings.Contains(ts, "<ptrshaped>") {
		return "PointerShapedAggregate"
	}
	for _, n := range []string{"*main.TgTV", "*main.TgIntKey", "*main.TgMV", "*time.Time", "*main.TgMErr", "*json.Number", "*json.RawMessage"} {
		if strings.Contains(ts, n) {
			return "NilPtrToValueReceiverMarshaler"
		}
	}
	deep := strings.Contains(ts, "**") || (how == 1 && t.Kind() == reflect.Ptr)
	if deep {
		for _, n := range []string{"main.TgMP", "main.TgTP", "main.TgTV", "main.TgMV", "main.TgIntKey", "main.TgMErr", "json.RawMessage", "json.Number", "time.Time"} {
			if strings.Contains(ts, n) {
				return "DoublePtrToPtrReceiverMarshaler"
			}
		}
	}
	return ""
}

func c01CrashClassFor(t reflect.Type, v reflect.Value, how, vi int, isSweep bool) string {
	if isSweep {
		if c01SweepKnown[fmt.Sprintf("%s|%d|%s", t.String(), vi, c01ReachName[how])] {
			return "PointerShapedAggregate"
		}
		return ""
	}
	return c01CrashClass(t, v, how)
}

func c01Describe(t reflect.Type, v reflect.Value) string {
	s := fmt.Sprintf("%#v", v.Elem().Interface())
	if len(s) > 300 {
		s = s[:300] + "..."
	}
	return s
}

func c01Run(o *Out, child bool) {
	r := o.rng
	ntypes := 1500
	if o.tier == "thorough" {
		ntypes = 20000
	}
	reported := map[string]bool{}
	skip, _ := strconv.Atoi(os.Getenv("C01_SKIP_TYPES"))
	sweep := tgShapeSweep()
	o.count("shape_sweep_types", int64(len(sweep)))
	ntypes += len(sweep)
	for ti := 0; ti < ntypes; ti++ {
		var t reflect.Type
		if ti < len(sweep) {
			t = sweep[ti]
		} else {
			t = tgType(r, 3, tgOpts{named: true})
		}
		if t.Kind() == reflect.Interface {
			t = reflect.TypeOf(c01Wrap{})
		}
		if cls := tgKnownBadAnywhere(reflect.PtrTo(t), 0); cls != "" {
			o.count("types_skipped_for_recorded_finding:"+cls, 1)
			continue
		}
		if ti < skip {
			// keep the generator in step: values are drawn exactly as in the run that crashed
			for vi := 0; vi < 3; vi++ {
				v := reflect.New(t)
				tgValue(r, v.Elem(), 0, []int{0, 15, 50}[vi%3], false)
			}
			continue
		}
		os.WriteFile(o.dir+"/progress", []byte(strconv.Itoa(ti)), 0o644)
		o.hist("top_kind", t.Kind().String())
		nvals := 3
		isSweep := ti < len(sweep)
		for vi := 0; vi < nvals; vi++ {
			v := reflect.New(t)
			if isSweep {
				// fixed values: the expectations for these shapes are a frozen list (c01_sweep_known.go)
				if vi < 2 {
					tgValue(rand.New(rand.NewSource(int64(1000+ti*3+vi))), v.Elem(), 0, []int{0, 60}[vi], false)
				}
			} else {
				tgValue(r, v.Elem(), 0, []int{0, 15, 50}[vi%3], false)
			}
			if os.Getenv("C01_DUMP") != "" {
				if b, err := stdjson.Marshal(v.Interface()); err == nil {
					os.WriteFile(o.dir+"/value.json", b, 0o644)
				}
			}
			for how := 0; how < 3; how++ {
				arg := c01Reach(v, how)
				for _, variant := range c01Variants {
					o.current(map[string]string{"property": "C01", "type": t.String(), "value": c01Describe(t, v), "reach": c01ReachName[how], "variant": variant.name,
						"crash_class": c01CrashClassFor(t, v, how, vi, isSweep)})
					what, got, want := c01Compare(variant, arg)
					o.count("comparisons", 1)
					if what == "" {
						continue
					}
					key := t.String() + "|" + variant.name + "|" + c01ReachName[how]
					if isSweep {
						key += "|" + strconv.Itoa(vi)
					}
					if reported[key] {
						o.count("repeat_disagreements", 1)
						continue
					}
					reported[key] = true
					if isSweep {
						skey := fmt.Sprintf("%s|%d|%s", t.String(), vi, c01ReachName[how])
						if f := os.Getenv("C01_SWEEP_DUMP"); f != "" {
							fh, _ := os.OpenFile(f, os.O_APPEND|os.O_CREATE|os.O_WRONLY, 0o644)
							fmt.Fprintln(fh, skey)
							fh.Close()
						}
						if c01SweepKnown[skey] {
							o.known("PointerShapedAggregate", skey)
							continue
						}
						// the values of the sweep draw their map keys from the shared strings: the one finding that is a
						// predicate on the value alone (a map key that is not valid UTF-8) is recognised here too
						if c01HasInvalidUTF8MapKey(v, 0) && what == "output differs" {
							cg, ok1 := tgCanon(got)
							cw, ok2 := tgCanon(want)
							if ok1 && ok2 && c01SortedMembers([]byte(cg)) != "" && c01SortedMembers([]byte(cg)) == c01SortedMembers([]byte(cw)) {
								o.known("MapKeyInvalidUTF8Order", skey) // the same members in another order
								continue
							}
						}
					} else if cls := c01Classify(t, v, what, got, want); cls != "" {
						o.known(cls, fmt.Sprintf("%s %s %s", t.String(), c01ReachName[how], variant.name))
						continue
					}
					if cg, ok1 := tgCanon(got); ok1 {
						if cw, ok2 := tgCanon(want); ok2 {
							got, want = []byte(cg), []byte(cw) // show the difference that is not a tolerated spelling
						}
					}
					o.violation("C01", "encoding differs from encoding/json: "+what, map[string]string{
						"type": t.String(), "value": c01Describe(t, v), "reach": c01ReachName[how], "variant": variant.name,
						"got": clipN(string(got), 400), "want": clipN(string(want), 400), "first_difference": strconv.Itoa(firstDiff(got, want)),
						"got_at_difference": around(got, firstDiff(got, want)), "want_at_difference": around(want, firstDiff(got, want))})
				}
			}
		}
	}
	_ = child
}

func around(b []byte, i int) string {
	lo, hi := i-60, i+60
	if lo < 0 {
		lo = 0
	}
	if hi > len(b) {
		hi = len(b)
	}
	if lo > hi {
		lo = hi
	}
	return string(b[lo:hi])
}

func clipN(s string, n int) string {
	if len(s) > n {
		return s[:n] + "..."
	}
	return s
}

func runC01Child(o *Out) {
	tgSeveralIllFormedKeys = true
	c01Run(o, true)
}

func runC01(o *Out) {
	tgSeveralIllFormedKeys = true

	// the generated values can crash a broken encoder: run in a child so that a crash is reported with its case
	self, _ := os.Executable()
	for name := range c01Probes() {
		cmd := exec.Command(self, "C01probe", "quick", "0", o.dir+"/probe-"+name)
		cmd.Env = append(os.Environ(), "C01_PROBE="+name)
		if err := cmd.Run(); err != nil {
			o.known(name, "witness in c01Probes: "+err.Error())
		}
	}
	c01ModelCases(o)
	c01TypedCases(o)
	startAll := time.Now()
	skip := 0
	for attempt := 0; attempt < 25; attempt++ {
		dir := o.dir + "/run" + strconv.Itoa(attempt)
		limit := 180 * time.Second
		if o.tier == "thorough" {
			limit = 1800 * time.Second
		}
		cctx, cancel := context.WithTimeout(context.Background(), limit)
		cmd := exec.CommandContext(cctx, self, "C01child", o.tier, strconv.FormatInt(o.seed, 10), dir)
		cmd.Env = append(os.Environ(), "C01_SKIP_TYPES="+strconv.Itoa(skip), "VERIF_AS_LIMIT_MB=6000")
		var eb bytes.Buffer
		cmd.Stdout, cmd.Stderr = &eb, &eb
		err := cmd.Run()
		cancel()
		if err == nil {
			mergeChild(o, dir)
			break
		}
		if time.Since(startAll) > 2*limit {
			o.violation("C01", "the encoder keeps crashing or hanging: giving up after "+time.Since(startAll).String(), map[string]string{"detail": err.Error()})
			break
		}
		det := map[string]string{"detail": err.Error(), "output": clipN(eb.String(), 700)}
		cls := ""
		if b, e := os.ReadFile(dir + "/current.json"); e == nil {
			det["case"] = string(b)
			var cur map[string]string
			if stdjson.Unmarshal(b, &cur) == nil {
				cls = cur["crash_class"]
			}
		}
		if cls != "" {
			o.known(cls, "crash: "+clipN(det["case"], 300))
		} else {
			o.violation("C01", "the encoder crashed the process", det)
		}
		// go on behind the type that crashed
		b, e := os.ReadFile(dir + "/progress")
		if e != nil {
			break
		}
		n, _ := strconv.Atoi(string(b))
		skip = n + 1
	}
	_ = rand.Int
}

// ---- correspondence with the emission model (Model/Enc.v): abstract values realised as Go values ----

type c01J struct {
	kind  byte // 'S' 'N' 'T' 'F' 'Z' 'A' 'O'
	text  string
	items []*c01J
	keys  []string
	omit  []bool
}

func c01GenJ(r *rand.Rand, depth int) *c01J {
	k := r.Intn(9)
	if depth <= 0 && k >= 5 {
		k = r.Intn(5)
	}
	switch k {
	case 0:
		return &c01J{kind: 'S', text: []string{"a", "", "hello", "x y"}[r.Intn(4)]}
	case 1:
		return &c01J{kind: 'N', text: strconv.Itoa(1 + r.Intn(999))}
	case 2:
		return &c01J{kind: 'T'}
	case 3:
		return &c01J{kind: 'Z'}
	case 4:
		return &c01J{kind: 'F'}
	case 5, 6:
		j := &c01J{kind: 'A'}
		for i := 0; i < r.Intn(4); i++ {
			j.items = append(j.items, c01GenJ(r, depth-1))
		}
		return j
	default:
		j := &c01J{kind: 'O'}
		for i := 0; i < r.Intn(5); i++ {
			j.items = append(j.items, c01GenJ(r, depth-1))
			j.keys = append(j.keys, "k"+strconv.Itoa(i))
			j.omit = append(j.omit, r.Intn(3) == 0)
		}
		return j
	}
}

func (j *c01J) wire(b *strings.Builder) {
	switch j.kind {
	case 'S', 'N':
		fmt.Fprintf(b, "%c%d:%s", j.kind, len(j.text), j.text)
	case 'T', 'F', 'Z':
		b.WriteByte(j.kind)
	case 'A':
		fmt.Fprintf(b, "A%d:", len(j.items))
		for _, it := range j.items {
			it.wire(b)
		}
	case 'O':
		fmt.Fprintf(b, "O%d:", len(j.items))
		for i, it := range j.items {
			o := '0'
			if j.omit[i] {
				o = '1'
			}
			fmt.Fprintf(b, "%c%d:%s", o, len(j.keys[i]), j.keys[i])
			it.wire(b)
		}
	}
}

// realise: a Go type and value whose encoding denotes j; omitted members are zero values under omitempty
func (j *c01J) realise(omitted bool) (reflect.Type, reflect.Value) {
	switch j.kind {
	case 'S':
		v := reflect.ValueOf(j.text)
		if omitted {
			v = reflect.ValueOf("")
		}
		return v.Type(), v
	case 'N':
		n, _ := strconv.Atoi(j.text)
		if omitted {
			n = 0
		}
		return reflect.TypeOf(0), reflect.ValueOf(n)
	case 'T', 'F':
		b := j.kind == 'T' && !omitted
		if j.kind == 'F' && !omitted {
			// false is the zero value: under omitempty it would vanish, so a non-omitted false is a *bool
			p := new(bool)
			return reflect.TypeOf(p), reflect.ValueOf(p)
		}
		if omitted {
			return reflect.TypeOf(false), reflect.ValueOf(false)
		}
		return reflect.TypeOf(b), reflect.ValueOf(b)
	case 'Z':
		var p *int
		return reflect.TypeOf(p), reflect.ValueOf(p)
	case 'A':
		if omitted {
			var s []interface{}
			return reflect.TypeOf(s), reflect.ValueOf(s)
		}
		s := make([]interface{}, 0, len(j.items))
		for _, it := range j.items {
			_, v := it.realise(false)
			if it.kind == 'Z' {
				s = append(s, nil)
			} else {
				s = append(s, v.Interface())
			}
		}
		return reflect.TypeOf(s), reflect.ValueOf(s)
	default:
		var fs []reflect.StructField
		var vals []reflect.Value
		for i, it := range j.items {
			ft, fv := it.realise(j.omit[i])
			tag := `json:"` + j.keys[i] + `"`
			if j.omit[i] {
				tag = `json:"` + j.keys[i] + `,omitempty"`
				if it.kind == 'O' {
					// an omitted object member: a nil pointer to the struct
					pt := reflect.PtrTo(ft)
					ft, fv = pt, reflect.Zero(pt)
				}
			}
			fs = append(fs, reflect.StructField{Name: "K" + strconv.Itoa(i), Type: ft, Tag: reflect.StructTag(tag)})
			vals = append(vals, fv)
		}
		st := reflect.StructOf(fs)
		v := reflect.New(st).Elem()
		for i := range vals {
			v.Field(i).Set(vals[i])
		}
		return st, v
	}
}

// the typed encoding semantics (coq/Model/EncTyped.v, op c01.typed) beside Marshal and encoding/json: generated
// types and values of the fragment bool / integers / strings / interface{} / pointers / slices / arrays / maps with
// string keys / structs
func c01TypedCases(o *Out) {
	r := o.rng
	n := 2500
	if o.tier == "thorough" {
		n = 40000
	}
	c02mNoOmitempty = true
	defer func() { c02mNoOmitempty = false }()
	for i := 0; i < n; i++ {
		var t reflect.Type
		if i%3 == 0 {
			t = c02mType(r, 3)
		} else {
			t = c02mStruct(r, 2)
		}
		if tgKnownBadAnywhere(reflect.PtrTo(t), 0) != "" {
			continue
		}
		v := reflect.New(t)
		tgValue(r, v.Elem(), 0, []int{0, 20, 40}[i%3], false)
		c02mSanitize(r, v.Elem(), 0)
		var tw, vw strings.Builder
		c02mTypeWire(&tw, t)
		if !c02mValWire(&vw, v.Elem()) {
			continue
		}
		for how := 0; how < 2; how++ {
			if c01CrashClass(t, v, how) != "" {
				continue
			}
			o.current(map[string]string{"property": "C01", "type": clipN(t.String(), 600), "value": c01Describe(t, v), "typed_model_case": "1"})
			var arg interface{} = v.Elem().Interface()
			if how == 1 {
				arg = v.Interface()
			}
			want, werr := stdjson.Marshal(arg)
			got, err := c01Safe(func() ([]byte, error) { return gojson.Marshal(arg) })
			if werr != nil {
				continue
			}
			res := string(got)
			if err != nil {
				res = "ERR " + err.Error()
			}
			if res != string(want) {
				if cls := c01TypedKnown(t, v); cls != "" {
					o.known(cls, clipN(t.String(), 200))
					continue
				}
			}
			if err == nil && tgSameJSON(got, want) {
				want = got // the same text up to the tolerated spellings of a token (\b and \u0008)
			}
			o.emit("A", "c01.typed", [][]byte{[]byte(tw.String()), []byte(vw.String()), []byte(strconv.Itoa(how))}, []byte(res), want, true)
			o.count("typed_model_cases", 1)
		}
	}
}

// shapes of the recorded encoder findings that the fragment can reach
func c01TypedKnown(t reflect.Type, v reflect.Value) string {
	if c01HasInvalidUTF8MapKey(v, 0) {
		return "MapKeyInvalidUTF8Order"
	}
	return ""
}

func c01HasInvalidUTF8MapKey(v reflect.Value, depth int) bool {
	if depth > 20 || !v.IsValid() {
		return false
	}
	switch v.Kind() {
	case reflect.Ptr, reflect.Interface:
		if v.IsNil() {
			return false
		}
		return c01HasInvalidUTF8MapKey(v.Elem(), depth+1)
	case reflect.Slice, reflect.Array:
		for i := 0; i < v.Len(); i++ {
			if c01HasInvalidUTF8MapKey(v.Index(i), depth+1) {
				return true
			}
		}
	case reflect.Map:
		it := v.MapRange()
		for it.Next() {
			if it.Key().Kind() == reflect.String && !utf8.ValidString(it.Key().String()) {
				return true
			}
			if c01HasInvalidUTF8MapKey(it.Value(), depth+1) {
				return true
			}
		}
	case reflect.Struct:
		for i := 0; i < v.NumField(); i++ {
			if c01HasInvalidUTF8MapKey(v.Field(i), depth+1) {
				return true
			}
		}
	}
	return false
}

func c01ModelCases(o *Out) {
	r := o.rng
	n := 2500
	if o.tier == "thorough" {
		n = 30000
	}
	for i := 0; i < n; i++ {
		j := c01GenJ(r, 3)
		if j.kind == 'Z' {
			continue
		}
		_, v := j.realise(false)
		var w strings.Builder
		j.wire(&w)
		for how := 0; how < 2; how++ {
			var arg interface{} = v.Interface()
			if how == 1 {
				p := reflect.New(v.Type())
				p.Elem().Set(v)
				arg = p.Interface()
			}
			got, err := c01Safe(func() ([]byte, error) { return gojson.MarshalWithOption(arg, gojson.DisableHTMLEscape()) })
			res := string(got)
			if err != nil {
				res = "ERR " + err.Error()
			}
			o.emit("A", "c01.enc", [][]byte{[]byte(w.String()), []byte(strconv.Itoa(how))}, []byte(res), nil, false)
			o.count("emission_model_cases", 1)
		}
	}
}

// c01SortedMembers renders a text with the members of every object sorted by key and rendered value, repeated keys kept
func c01SortedMembers(b []byte) string {
	v, err := parseOrdered(b)
	if err != nil {
		return ""
	}
	var render func(x interface{}) string
	render = func(x interface{}) string {
		switch t := x.(type) {
		case oobject:
			ms := make([]string, len(t))
			for i, m := range t {
				ms[i] = strconv.Quote(m.k) + ":" + render(m.v)
			}
			sort.Strings(ms)
			return "{" + strings.Join(ms, ",") + "}"
		case []interface{}:
			es := make([]string, len(t))
			for i, e := range t {
				es[i] = render(e)
			}
			return "[" + strings.Join(es, ",") + "]"
		case string:
			return strconv.Quote(t)
		case nil:
			return "null"
		default:
			return fmt.Sprint(t)
		}
	}
	return render(v)
}
