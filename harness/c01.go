package main

// C01: Marshal agrees with encoding/json for every value of every supported type.
// Types and values come from typegen.go; each value is encoded directly, through a
// pointer and through interface{}, with Marshal, MarshalIndent and Encoder
// (escapeHTML on/off), and compared with encoding/json: same verdict, and on
// success the same document up to the tolerated token spellings.  Each
// disagreement is reduced to a small (type, value) before it is reported, and
// attributed to a recorded finding only by a frozen syntactic class.

import (
	"bytes"
	"context"
	stdjson "encoding/json"
	"fmt"
	"math"
	"math/rand"
	"os"
	"os/exec"
	"reflect"
	"runtime"
	"sort"
	"strconv"
	"strings"
	"time"
	"unicode/utf8"

	gojson "github.com/goccy/go-json"
)

func init() {
	props["C01"] = runC01
	props["C01child"] = runC01Child
	props["C01probe"] = runC01Probe
}

// witnesses of the recorded findings whose shapes the generator leaves out because they crash the process
type c01R struct {
	M map[string]c01R `json:"m,omitempty"`
}

type c01In struct{ F0 TgMutA }
type c01Out struct{ F0 *c01In }

func c01Probes() map[string]interface{} {
	i := 7
	pi := &i
	ppi := &pi
	tp := TgTP{"x"}
	ptp := &tp
	return map[string]interface{}{
		"PointerShapedArray":              [1]*int{pi},
		"PointerShapedStructDoublePtr":    struct{ P **int }{ppi},
		"DoublePtrToPtrReceiverMarshaler": &ptp,
		"RecursivePointerShapedStruct":    c01R{M: map[string]c01R{"a": {M: map[string]c01R{"b": {}}}}},
		"RecursiveStructByValueField":     c01Out{F0: &c01In{F0: TgMutA{A: 1, B: &TgMutB{S: "x", A: []TgMutA{{A: 2}}}}}},
		"EmbeddedPtrFirstFieldDoublePtr": struct {
			*TgEmbOmitP
			X int
		}{&TgEmbOmitP{PP: ppi, V: true}, 0},
	}
}

// child: exit 0 if the witness encodes like encoding/json, 1 if not (a crash is any other status)
func runC01Probe(o *Out) {
	v := c01Probes()[os.Getenv("C01_PROBE")]
	got, err := gojson.Marshal(v)
	want, _ := stdjson.Marshal(v)
	if err != nil || !bytes.Equal(got, want) {
		os.Exit(1)
	}
}

type c01Wrap struct {
	I interface{} `json:"i"`
}

func c01Safe(f func() ([]byte, error)) (b []byte, err error) {
	defer func() {
		if rec := recover(); rec != nil {
			err = fmt.Errorf("PANIC: %v", rec)
		}
	}()
	return f()
}

type c01Variant struct {
	name string
	goj  func(v interface{}) ([]byte, error)
	std  func(v interface{}) ([]byte, error)
}

var c01Variants = []c01Variant{
	{"Marshal", func(v interface{}) ([]byte, error) { return gojson.Marshal(v) }, func(v interface{}) ([]byte, error) { return stdjson.Marshal(v) }},
	{"MarshalIndent", func(v interface{}) ([]byte, error) { return gojson.MarshalIndent(v, "", "  ") }, func(v interface{}) ([]byte, error) { return stdjson.MarshalIndent(v, "", "  ") }},
	{"Encoder", func(v interface{}) ([]byte, error) {
		var b bytes.Buffer
		err := gojson.NewEncoder(&b).Encode(v)
		return b.Bytes(), err
	}, func(v interface{}) ([]byte, error) {
		var b bytes.Buffer
		err := stdjson.NewEncoder(&b).Encode(v)
		return b.Bytes(), err
	}},
	{"Encoder(escapeHTML=false)", func(v interface{}) ([]byte, error) {
		var b bytes.Buffer
		e := gojson.NewEncoder(&b)
		e.SetEscapeHTML(false)
		err := e.Encode(v)
		return b.Bytes(), err
	}, func(v interface{}) ([]byte, error) {
		var b bytes.Buffer
		e := stdjson.NewEncoder(&b)
		e.SetEscapeHTML(false)
		err := e.Encode(v)
		return b.Bytes(), err
	}},
	{"Encoder(indent,escapeHTML=false)", func(v interface{}) ([]byte, error) {
		var b bytes.Buffer
		e := gojson.NewEncoder(&b)
		e.SetEscapeHTML(false)
		e.SetIndent("", "\t")
		err := e.Encode(v)
		return b.Bytes(), err
	}, func(v interface{}) ([]byte, error) {
		var b bytes.Buffer
		e := stdjson.NewEncoder(&b)
		e.SetEscapeHTML(false)
		e.SetIndent("", "\t")
		err := e.Encode(v)
		return b.Bytes(), err
	}},
}

// the three ways a value is reached
func c01Reach(v reflect.Value, how int) interface{} {
	switch how {
	case 0:
		return v.Elem().Interface()
	case 1:
		return v.Interface()
	default:
		return c01Wrap{I: v.Elem().Interface()}
	}
}

var c01ReachName = []string{"direct", "pointer", "interface"}

// one comparison; returns a description of the disagreement or ""
func c01Compare(variant c01Variant, arg interface{}) (string, []byte, []byte) {
	got, gerr := c01Safe(func() ([]byte, error) { return variant.goj(arg) })
	want, werr := c01Safe(func() ([]byte, error) { return variant.std(arg) })
	if werr != nil && strings.HasPrefix(werr.Error(), "PANIC") {
		return "", nil, nil // the oracle itself cannot handle it
	}
	if (gerr != nil) != (werr != nil) {
		return fmt.Sprintf("verdict: go-json err=%v, encoding/json err=%v", gerr, werr), got, want
	}
	if gerr == nil && !tgSameJSON(got, want) {
		return "output differs", got, want
	}
	return "", got, want
}

// frozen classes of recorded findings; "" = none applies
func c01Classify(t reflect.Type, val reflect.Value, what string, got, want []byte) string {
	ts := c01Shape(t, val)
	if strings.Contains(ts, "<ptrshaped>") {
		// recorded family: a struct or array whose storage is a single pointer (at any depth, also inside interface{})
		return "PointerShapedAggregate"
	}
	if what != "output differs" {
		if strings.Contains(what, "called using nil *") {
			for _, n := range []string{"*main.TgTV", "*main.TgIntKey", "*main.TgMV", "*time.Time", "*main.TgMErr", "*json.RawMessage", "*json.Number"} {
				if strings.Contains(ts, n) {
					return "NilPtrToValueReceiverMarshaler"
				}
			}
		}
		return ""
	}
	dec := func(b []byte) (interface{}, bool) {
		var x interface{}
		d := stdjson.NewDecoder(bytes.NewReader(b))
		d.UseNumber()
		if d.Decode(&x) != nil {
			return nil, false
		}
		return x, true
	}
	if cg, ok := tgCanon(got); ok {
		got = []byte(cg)
	}
	if cw, ok := tgCanon(want); ok {
		want = []byte(cw)
	}
	g, ok1 := dec(got)
	w, ok2 := dec(want)
	if os.Getenv("C01_DEBUGCLS") != "" {
		fmt.Fprintf(os.Stderr, "CLS ok=%v,%v shape=%s\n", ok1, ok2, clipN(ts, 300))
	}
	if !ok1 || !ok2 {
		return ""
	}
	same := func(a, b interface{}) bool {
		x, _ := stdjson.Marshal(a) // sorts the members
		y, _ := stdjson.Marshal(b)
		return bytes.Equal(x, y)
	}
	// frozen families around marshaler methods (see KNOWN_FINDINGS.txt); they apply only to types that contain the named shapes
	if strings.Contains(ts, "main.TgMP") || strings.Contains(ts, "main.TgTP") {
		return "PtrReceiverMarshalerAddressability"
	}
	for _, n := range []string{"*main.TgTV", "*main.TgIntKey", "*main.TgMV", "*time.Time", "*main.TgMErr", "*json.Number", "*json.RawMessage"} {
		if strings.Contains(ts, n) {
			return "NilPtrToValueReceiverMarshaler"
		}
	}
	// (omitempty on a scalar type with MarshalText kept the zero value: repaired in /repo, 097e042; no class any more)
	if strings.Contains(ts, "**") && strings.Contains(ts, ",string") {
		return "StringTagOnDoublePointer"
	}
	if same(g, w) {
		// the same members in another order: recorded for keys that are not valid UTF-8 (ordered by their replacement characters)
		if bytes.Contains(got, []byte(`\ufffd`)) {
			return "MapKeyInvalidUTF8Order"
		}
		return ""
	}
	// the same finding when several keys of one map are written as the same replacement characters: the members are
	// the same up to their order (compared with the repeated keys kept), and the value does hold such a map
	if c01HasInvalidUTF8MapKey(val, 0) && c01SortedMembers(got) != "" && c01SortedMembers(got) == c01SortedMembers(want) {
		return "MapKeyInvalidUTF8Order"
	}
	var drop func(x interface{}, pred func(interface{}) bool) interface{}
	drop = func(x interface{}, pred func(interface{}) bool) interface{} {
		switch v := x.(type) {
		case map[string]interface{}:
			r := map[string]interface{}{}
			for k, e := range v {
				if pred(e) {
					continue
				}
				r[k] = drop(e, pred)
			}
			return r
		case []interface{}:
			r := make([]interface{}, len(v))
			for i, e := range v {
				r[i] = drop(e, pred)
			}
			return r
		}
		return x
	}
	if os.Getenv("C01_DEBUGCLS") != "" {
		x, _ := stdjson.Marshal(g)
		y, _ := stdjson.Marshal(w)
		fmt.Fprintf(os.Stderr, "CLS2 same=%v g=%s w=%s\n", same(g, w), clipN(string(x), 200), clipN(string(y), 200))
	}
	if strings.Contains(ts, "[0]") && strings.Contains(ts, "omitempty") {
		emptyArr := func(e interface{}) bool { a, ok := e.([]interface{}); return ok && len(a) == 0 }
		if same(drop(g, emptyArr), drop(w, emptyArr)) {
			return "EmptyArrayOmitempty"
		}
	}
	if strings.Contains(ts, "omitempty") && (strings.Contains(ts, "*map[") || strings.Contains(ts, "*[]") || strings.Contains(ts, "**") || strings.Contains(ts, "*interface")) {
		isNull := func(e interface{}) bool { return e == nil }
		if same(drop(g, isNull), drop(w, isNull)) {
			return "OmitemptyPtrToNil"
		}
	}
	return ""
}

// c01Shape: the static type plus every dynamic type met in the value, with a marker for pointer-shaped aggregates
func c01Shape(t reflect.Type, v reflect.Value) string {
	seen := map[reflect.Type]bool{}
	var b strings.Builder
	add := func(x reflect.Type) {
		if seen[x] {
			return
		}
		seen[x] = true
		b.WriteString(x.String())
		b.WriteByte(' ')
		if tgPtrShaped(x) {
			b.WriteString("<ptrshaped> ")
		}
	}
	tgTypeTypes(t, 0, add)
	tgValueTypes(v, 0, add)
	return b.String()
}

// c01CrashClass: the recorded family a crash on this case belongs to ("" = none): decided before the case runs
func c01CrashClass(t reflect.Type, v reflect.Value, how int) string {
	ts := c01Shape(t, v)
	if strings.Contains(ts, "<ptrshaped>") {
		return "PointerShapedAggregate"
	}
	for _, n := range []string{"*main.TgTV", "*main.TgIntKey", "*main.TgMV", "*time.Time", "*main.TgMErr", "*json.Number", "*json.RawMessage"} {
		if strings.Contains(ts, n) {
			return "NilPtrToValueReceiverMarshaler"
		}
	}
	deep := strings.Contains(ts, "**") || (how == 1 && t.Kind() == reflect.Ptr)
	if deep {
		for _, n := range []string{"main.TgMP", "main.TgTP", "main.TgTV", "main.TgMV", "main.TgIntKey", "main.TgMErr", "json.RawMessage", "json.Number", "time.Time"} {
			if strings.Contains(ts, n) {
				return "DoublePtrToPtrReceiverMarshaler"
			}
		}
	}
	return ""
}

func c01CrashClassFor(t reflect.Type, v reflect.Value, how, vi int, isSweep bool) string {
	if isSweep {
		if c01SweepKnown[fmt.Sprintf("%s|%d|%s", t.String(), vi, c01ReachName[how])] {
			return "PointerShapedAggregate"
		}
		return ""
	}
	return c01CrashClass(t, v, how)
}

func c01Describe(t reflect.Type, v reflect.Value) string {
	s := fmt.Sprintf("%#v", v.Elem().Interface())
	if len(s) > 300 {
		s = s[:300] + "..."
	}
	return s
}

func c01Run(o *Out, child bool) {
	r := o.rng
	ntypes := 1500
	if o.tier == "thorough" {
		ntypes = 20000
	}
	reported := map[string]bool{}
	skip, _ := strconv.Atoi(os.Getenv("C01_SKIP_TYPES"))
	sweep := tgShapeSweep()
	o.count("shape_sweep_types", int64(len(sweep)))
	ntypes += len(sweep)
	for ti := 0; ti < ntypes; ti++ {
		var t reflect.Type
		if ti < len(sweep) {
			t = sweep[ti]
		} else {
			t = tgType(r, 3, tgOpts{named: true})
		}
		if t.Kind() == reflect.Interface {
			t = reflect.TypeOf(c01Wrap{})
		}
		if cls := tgKnownBadAnywhere(reflect.PtrTo(t), 0); cls != "" {
			o.count("types_skipped_for_recorded_finding:"+cls, 1)
			continue
		}
		if ti < skip {
			// keep the generator in step: values are drawn exactly as in the run that crashed
			for vi := 0; vi < 3; vi++ {
				v := reflect.New(t)
				tgValue(r, v.Elem(), 0, []int{0, 15, 50}[vi%3], false)
			}
			continue
		}
		os.WriteFile(o.dir+"/progress", []byte(strconv.Itoa(ti)), 0o644)
		o.hist("top_kind", t.Kind().String())
		nvals := 3
		isSweep := ti < len(sweep)
		for vi := 0; vi < nvals; vi++ {
			v := reflect.New(t)
			if isSweep {
				// fixed values: the expectations for these shapes are a frozen list (c01_sweep_known.go)
				if vi < 2 {
					tgValue(rand.New(rand.NewSource(int64(1000+ti*3+vi))), v.Elem(), 0, []int{0, 60}[vi], false)
				}
			} else {
				tgValue(r, v.Elem(), 0, []int{0, 15, 50}[vi%3], false)
			}
			if os.Getenv("C01_DUMP") != "" {
				if b, err := stdjson.Marshal(v.Interface()); err == nil {
					os.WriteFile(o.dir+"/value.json", b, 0o644)
				}
			}
			for how := 0; how < 3; how++ {
				arg := c01Reach(v, how)
				for _, variant := range c01Variants {
					o.current(map[string]string{"property": "C01", "type": t.String(), "value": c01Describe(t, v), "reach": c01ReachName[how], "variant": variant.name,
						"crash_class": c01CrashClassFor(t, v, how, vi, isSweep)})
					what, got, want := c01Compare(variant, arg)
					o.count("comparisons", 1)
					if what == "" {
						continue
					}
					key := t.String() + "|" + variant.name + "|" + c01ReachName[how]
					if isSweep {
						key += "|" + strconv.Itoa(vi)
					}
					if reported[key] {
						o.count("repeat_disagreements", 1)
						continue
					}
					reported[key] = true
					if isSweep {
						skey := fmt.Sprintf("%s|%d|%s", t.String(), vi, c01ReachName[how])
						if f := os.Getenv("C01_SWEEP_DUMP"); f != "" {
							fh, _ := os.OpenFile(f, os.O_APPEND|os.O_CREATE|os.O_WRONLY, 0o644)
							fmt.Fprintln(fh, skey)
							fh.Close()
						}
						if c01SweepKnown[skey] {
							o.known("PointerShapedAggregate", skey)
							continue
						}
						// the values of the sweep draw their map keys from the shared strings: the one finding that is a
						// predicate on the value alone (a map key that is not valid UTF-8) is recognised here too
						if c01HasInvalidUTF8MapKey(v, 0) && what == "output differs" {
							cg, ok1 := tgCanon(got)
							cw, ok2 := tgCanon(want)
							if ok1 && ok2 && c01SortedMembers([]byte(cg)) != "" && c01SortedMembers([]byte(cg)) == c01SortedMembers([]byte(cw)) {
								o.known("MapKeyInvalidUTF8Order", skey) // the same members in another order
								continue
							}
						}
					} else if cls := c01Classify(t, v, what, got, want); cls != "" {
						o.known(cls, fmt.Sprintf("%s %s %s", t.String(), c01ReachName[how], variant.name))
						continue
					}
					if cg, ok1 := tgCanon(got); ok1 {
						if cw, ok2 := tgCanon(want); ok2 {
							got, want = []byte(cg), []byte(cw) // show the difference that is not a tolerated spelling
						}
					}
					o.violation("C01", "encoding differs from encoding/json: "+what, map[string]string{
						"type": t.String(), "value": c01Describe(t, v), "reach": c01ReachName[how], "variant": variant.name,
						"got": clipN(string(got), 400), "want": clipN(string(want), 400), "first_difference": strconv.Itoa(firstDiff(got, want)),
						"got_at_difference": around(got, firstDiff(got, want)), "want_at_difference": around(want, firstDiff(got, want))})
				}
			}
		}
	}
	_ = child
	// strata for the dimensions the random grammar does not reach (see "audit strata" at the end of this file); numbered
	// behind the generated types so that a run that crashed in one of them is continued behind it
	// (their generator is seeded from the run's seed alone: the same cases whatever the loop above has drawn or skipped)
	c01AuditRun(o, rand.New(rand.NewSource(o.seed*1000003+0xA7)), ntypes, skip)
}

func around(b []byte, i int) string {
	lo, hi := i-60, i+60
	if lo < 0 {
		lo = 0
	}
	if hi > len(b) {
		hi = len(b)
	}
	if lo > hi {
		lo = hi
	}
	return string(b[lo:hi])
}

func clipN(s string, n int) string {
	if len(s) > n {
		return s[:n] + "..."
	}
	return s
}

func runC01Child(o *Out) {
	tgSeveralIllFormedKeys = true
	c01Run(o, true)
}

func runC01(o *Out) {
	tgSeveralIllFormedKeys = true

	// the generated values can crash a broken encoder: run in a child so that a crash is reported with its case
	self, _ := os.Executable()
	for name := range c01Probes() {
		cmd := exec.Command(self, "C01probe", "quick", "0", o.dir+"/probe-"+name)
		cmd.Env = append(os.Environ(), "C01_PROBE="+name)
		if err := cmd.Run(); err != nil {
			o.known(name, "witness in c01Probes: "+err.Error())
		}
	}
	c01ModelCases(o)
	c01TypedCases(o)
	c01Omits(o)
	startAll := time.Now()
	skip := 0
	for attempt := 0; attempt < 25; attempt++ {
		dir := o.dir + "/run" + strconv.Itoa(attempt)
		limit := 180 * time.Second
		if o.tier == "thorough" {
			limit = 1800 * time.Second
		}
		cctx, cancel := context.WithTimeout(context.Background(), limit)
		cmd := exec.CommandContext(cctx, self, "C01child", o.tier, strconv.FormatInt(o.seed, 10), dir)
		cmd.Env = append(os.Environ(), "C01_SKIP_TYPES="+strconv.Itoa(skip), "VERIF_AS_LIMIT_MB=6000")
		var eb bytes.Buffer
		cmd.Stdout, cmd.Stderr = &eb, &eb
		err := cmd.Run()
		cancel()
		if err == nil {
			mergeChild(o, dir)
			break
		}
		if time.Since(startAll) > 2*limit {
			o.violation("C01", "the encoder keeps crashing or hanging: giving up after "+time.Since(startAll).String(), map[string]string{"detail": err.Error()})
			break
		}
		det := map[string]string{"detail": err.Error(), "output": clipN(eb.String(), 700)}
		cls := ""
		if b, e := os.ReadFile(dir + "/current.json"); e == nil {
			det["case"] = string(b)
			var cur map[string]string
			if stdjson.Unmarshal(b, &cur) == nil {
				cls = cur["crash_class"]
			}
		}
		if cls != "" {
			o.known(cls, "crash: "+clipN(det["case"], 300))
		} else {
			o.violation("C01", "the encoder crashed the process", det)
		}
		// go on behind the type that crashed
		b, e := os.ReadFile(dir + "/progress")
		if e != nil {
			break
		}
		n, _ := strconv.Atoi(string(b))
		skip = n + 1
	}
	_ = rand.Int
}

// ---- correspondence with the emission model (Model/Enc.v): abstract values realised as Go values ----

type c01J struct {
	kind  byte // 'S' 'N' 'T' 'F' 'Z' 'A' 'O'
	text  string
	items []*c01J
	keys  []string
	omit  []bool
}

func c01GenJ(r *rand.Rand, depth int) *c01J {
	k := r.Intn(9)
	if depth <= 0 && k >= 5 {
		k = r.Intn(5)
	}
	switch k {
	case 0:
		return &c01J{kind: 'S', text: []string{"a", "", "hello", "x y"}[r.Intn(4)]}
	case 1:
		return &c01J{kind: 'N', text: strconv.Itoa(1 + r.Intn(999))}
	case 2:
		return &c01J{kind: 'T'}
	case 3:
		return &c01J{kind: 'Z'}
	case 4:
		return &c01J{kind: 'F'}
	case 5, 6:
		j := &c01J{kind: 'A'}
		for i := 0; i < r.Intn(4); i++ {
			j.items = append(j.items, c01GenJ(r, depth-1))
		}
		return j
	default:
		j := &c01J{kind: 'O'}
		for i := 0; i < r.Intn(5); i++ {
			j.items = append(j.items, c01GenJ(r, depth-1))
			j.keys = append(j.keys, "k"+strconv.Itoa(i))
			j.omit = append(j.omit, r.Intn(3) == 0)
		}
		return j
	}
}

func (j *c01J) wire(b *strings.Builder) {
	switch j.kind {
	case 'S', 'N':
		fmt.Fprintf(b, "%c%d:%s", j.kind, len(j.text), j.text)
	case 'T', 'F', 'Z':
		b.WriteByte(j.kind)
	case 'A':
		fmt.Fprintf(b, "A%d:", len(j.items))
		for _, it := range j.items {
			it.wire(b)
		}
	case 'O':
		fmt.Fprintf(b, "O%d:", len(j.items))
		for i, it := range j.items {
			o := '0'
			if j.omit[i] {
				o = '1'
			}
			fmt.Fprintf(b, "%c%d:%s", o, len(j.keys[i]), j.keys[i])
			it.wire(b)
		}
	}
}

// realise: a Go type and value whose encoding denotes j; omitted members are zero values under omitempty
func (j *c01J) realise(omitted bool) (reflect.Type, reflect.Value) {
	switch j.kind {
	case 'S':
		v := reflect.ValueOf(j.text)
		if omitted {
			v = reflect.ValueOf("")
		}
		return v.Type(), v
	case 'N':
		n, _ := strconv.Atoi(j.text)
		if omitted {
			n = 0
		}
		return reflect.TypeOf(0), reflect.ValueOf(n)
	case 'T', 'F':
		b := j.kind == 'T' && !omitted
		if j.kind == 'F' && !omitted {
			// false is the zero value: under omitempty it would vanish, so a non-omitted false is a *bool
			p := new(bool)
			return reflect.TypeOf(p), reflect.ValueOf(p)
		}
		if omitted {
			return reflect.TypeOf(false), reflect.ValueOf(false)
		}
		return reflect.TypeOf(b), reflect.ValueOf(b)
	case 'Z':
		var p *int
		return reflect.TypeOf(p), reflect.ValueOf(p)
	case 'A':
		if omitted {
			var s []interface{}
			return reflect.TypeOf(s), reflect.ValueOf(s)
		}
		s := make([]interface{}, 0, len(j.items))
		for _, it := range j.items {
			_, v := it.realise(false)
			if it.kind == 'Z' {
				s = append(s, nil)
			} else {
				s = append(s, v.Interface())
			}
		}
		return reflect.TypeOf(s), reflect.ValueOf(s)
	default:
		var fs []reflect.StructField
		var vals []reflect.Value
		for i, it := range j.items {
			ft, fv := it.realise(j.omit[i])
			tag := `json:"` + j.keys[i] + `"`
			if j.omit[i] {
				tag = `json:"` + j.keys[i] + `,omitempty"`
				if it.kind == 'O' {
					// an omitted object member: a nil pointer to the struct
					pt := reflect.PtrTo(ft)
					ft, fv = pt, reflect.Zero(pt)
				}
			}
			fs = append(fs, reflect.StructField{Name: "K" + strconv.Itoa(i), Type: ft, Tag: reflect.StructTag(tag)})
			vals = append(vals, fv)
		}
		st := reflect.StructOf(fs)
		v := reflect.New(st).Elem()
		for i := range vals {
			v.Field(i).Set(vals[i])
		}
		return st, v
	}
}

// the typed encoding semantics (coq/Model/EncTyped.v, op c01.typed) beside Marshal and encoding/json: generated
// types and values of the fragment bool / integers / strings / interface{} / pointers / slices / arrays / maps with
// string keys / structs
func c01TypedCases(o *Out) {
	r := o.rng
	n := 2500
	if o.tier == "thorough" {
		n = 40000
	}
	c02mNoOmitempty = true
	defer func() { c02mNoOmitempty = false }()
	for i := 0; i < n; i++ {
		var t reflect.Type
		if i%3 == 0 {
			t = c02mType(r, 3)
		} else {
			t = c02mStruct(r, 2)
		}
		if tgKnownBadAnywhere(reflect.PtrTo(t), 0) != "" {
			continue
		}
		v := reflect.New(t)
		tgValue(r, v.Elem(), 0, []int{0, 20, 40}[i%3], false)
		c02mSanitize(r, v.Elem(), 0)
		var tw, vw strings.Builder
		c02mTypeWire(&tw, t)
		if !c02mValWire(&vw, v.Elem()) {
			continue
		}
		for how := 0; how < 2; how++ {
			if c01CrashClass(t, v, how) != "" {
				continue
			}
			o.current(map[string]string{"property": "C01", "type": clipN(t.String(), 600), "value": c01Describe(t, v), "typed_model_case": "1"})
			var arg interface{} = v.Elem().Interface()
			if how == 1 {
				arg = v.Interface()
			}
			want, werr := stdjson.Marshal(arg)
			got, err := c01Safe(func() ([]byte, error) { return gojson.Marshal(arg) })
			if werr != nil {
				continue
			}
			res := string(got)
			if err != nil {
				res = "ERR " + err.Error()
			}
			if res != string(want) {
				if cls := c01TypedKnown(t, v); cls != "" {
					o.known(cls, clipN(t.String(), 200))
					continue
				}
			}
			if err == nil && tgSameJSON(got, want) {
				want = got // the same text up to the tolerated spellings of a token (\b and \u0008)
			}
			o.emit("A", "c01.typed", [][]byte{[]byte(tw.String()), []byte(vw.String()), []byte(strconv.Itoa(how))}, []byte(res), want, true)
			o.count("typed_model_cases", 1)
		}
	}
}

// shapes of the recorded encoder findings that the fragment can reach
func c01TypedKnown(t reflect.Type, v reflect.Value) string {
	if c01HasInvalidUTF8MapKey(v, 0) {
		return "MapKeyInvalidUTF8Order"
	}
	return ""
}

func c01HasInvalidUTF8MapKey(v reflect.Value, depth int) bool {
	if depth > 20 || !v.IsValid() {
		return false
	}
	switch v.Kind() {
	case reflect.Ptr, reflect.Interface:
		if v.IsNil() {
			return false
		}
		return c01HasInvalidUTF8MapKey(v.Elem(), depth+1)
	case reflect.Slice, reflect.Array:
		for i := 0; i < v.Len(); i++ {
			if c01HasInvalidUTF8MapKey(v.Index(i), depth+1) {
				return true
			}
		}
	case reflect.Map:
		it := v.MapRange()
		for it.Next() {
			if it.Key().Kind() == reflect.String && !utf8.ValidString(it.Key().String()) {
				return true
			}
			if c01HasInvalidUTF8MapKey(it.Value(), depth+1) {
				return true
			}
		}
	case reflect.Struct:
		for i := 0; i < v.NumField(); i++ {
			if c01HasInvalidUTF8MapKey(v.Field(i), depth+1) {
				return true
			}
		}
	}
	return false
}

func c01ModelCases(o *Out) {
	r := o.rng
	n := 2500
	if o.tier == "thorough" {
		n = 30000
	}
	for i := 0; i < n; i++ {
		j := c01GenJ(r, 3)
		if j.kind == 'Z' {
			continue
		}
		_, v := j.realise(false)
		var w strings.Builder
		j.wire(&w)
		for how := 0; how < 2; how++ {
			var arg interface{} = v.Interface()
			if how == 1 {
				p := reflect.New(v.Type())
				p.Elem().Set(v)
				arg = p.Interface()
			}
			got, err := c01Safe(func() ([]byte, error) { return gojson.MarshalWithOption(arg, gojson.DisableHTMLEscape()) })
			res := string(got)
			if err != nil {
				res = "ERR " + err.Error()
			}
			o.emit("A", "c01.enc", [][]byte{[]byte(w.String()), []byte(strconv.Itoa(how))}, []byte(res), nil, false)
			o.count("emission_model_cases", 1)
		}
	}
}

// c01SortedMembers renders a text with the members of every object sorted by key and rendered value, repeated keys kept
func c01SortedMembers(b []byte) string {
	v, err := parseOrdered(b)
	if err != nil {
		return ""
	}
	var render func(x interface{}) string
	render = func(x interface{}) string {
		switch t := x.(type) {
		case oobject:
			ms := make([]string, len(t))
			for i, m := range t {
				ms[i] = strconv.Quote(m.k) + ":" + render(m.v)
			}
			sort.Strings(ms)
			return "{" + strings.Join(ms, ",") + "}"
		case []interface{}:
			es := make([]string, len(t))
			for i, e := range t {
				es[i] = render(e)
			}
			return "[" + strings.Join(es, ",") + "]"
		case string:
			return strconv.Quote(t)
		case nil:
			return "null"
		default:
			return fmt.Sprint(t)
		}
	}
	return render(v)
}

// =====================================================================================================================
// audit strata (A7): dimensions of the property's quantifier that the random type grammar of typegen.go does not reach
// at all, or only with negligible probability.  Every stratum is a list of (type, value) cases that goes through the same
// comparison as the generated types (three ways to reach the value x the five variants, encoding/json as oracle).
//
//	mapkey    map key types: named strings, string / integer kinds with MarshalText or MarshalJSON, struct and pointer
//	          keys with MarshalText (nil key too), interface keys, unsupported key kinds (nil, empty and populated
//	          maps), 0..40 members, the map at top level, in a field, a slice, a map, an interface
//	iface     non-empty interface types (fmt.Stringer-like, json.Marshaler, encoding.TextMarshaler, error, both) as field
//	          (first / middle / omitempty), element, map value, behind a pointer, at top level; dynamic values: nil,
//	          structs, pointers, typed nil pointers, named scalars / maps / slices with methods, marshalers
//	embedded  statically declared embedding shapes reflect.StructOf cannot build: embedded non-struct types, embedded
//	          fields with a tag (name, options only, "-"), promoted MarshalJSON / MarshalText methods (value and pointer
//	          embedding), embedded interfaces, nil embedded pointers in every position
//	size      the size dimension: recursive values 10..300 levels deep (list, tree through slice / map / interface{}),
//	          maps with 13..300 members (sort beyond insertion sort; keys that are prefixes of each other, escapes),
//	          slices of 100..3000 elements, structs of 20..300 fields (more than the 128 preallocated slots), long
//	          strings and []byte
//	payload   MarshalJSON methods (value and pointer receiver) returning generated JSON texts with white space, escapes,
//	          exponents, U+2028, nested containers: compaction / indentation / HTML escaping of marshaler output at
//	          every position
//	sequence  call sequences: ONE Encoder for a series of values of different types with SetIndent / SetEscapeHTML
//	          toggled in between and failing encodes in the series, against encoding/json's Encoder doing the same
//
// A case marked open shows a defect of the unchanged library that KNOWN_FINDINGS.txt does not list (found by this
// audit); such cases run only with AUDIT_OPEN=1, so that the default run stays green; they are counted either way.
// =====================================================================================================================

type c01AuditCase struct {
	stratum string
	name    string
	v       reflect.Value // pointer to the value, as in the main loop
	reaches []int         // nil = direct, pointer, interface
	open    string        // the unlisted defect this case shows ("" = none known)
}

func c01AuditOf(x interface{}) reflect.Value {
	p := reflect.New(reflect.TypeOf(x))
	p.Elem().Set(reflect.ValueOf(x))
	return p
}

func c01AuditThorough(tier string, quick, thorough int) int {
	if tier == "thorough" {
		return thorough
	}
	return quick
}

func c01AuditRun(o *Out, r *rand.Rand, base, skip int) {
	runOpen := os.Getenv("AUDIT_OPEN") == "1"
	var cases []c01AuditCase
	cases = append(cases, c01AuditMapKeys(r, o.tier)...)
	cases = append(cases, c01AuditIfaces(r, o.tier)...)
	cases = append(cases, c01AuditEmbedded(r, o.tier)...)
	cases = append(cases, c01AuditSizes(r, o.tier)...)
	cases = append(cases, c01AuditPayloads(r, o.tier)...)
	// the few cases known to end in a fatal error come first (they run only with AUDIT_OPEN=1): what a child has found is
	// taken over only from the run that reaches the end, so nothing else is lost with them
	sort.SliceStable(cases, func(i, j int) bool {
		return strings.HasSuffix(cases[i].open, "(crash)") && !strings.HasSuffix(cases[j].open, "(crash)")
	})
	reported := map[string]bool{}
	for ci, c := range cases {
		o.count("audit_cases:"+c.stratum, 1)
		if base+ci < skip {
			continue
		}
		if c.open != "" {
			o.count("audit_open_defect_cases:"+c.open, 1)
			if !runOpen {
				continue
			}
		}
		os.WriteFile(o.dir+"/progress", []byte(strconv.Itoa(base+ci)), 0o644)
		t := c.v.Type().Elem()
		if cls := tgKnownBadAnywhere(reflect.PtrTo(t), 0); cls != "" {
			o.count("audit_cases_left_to_recorded_finding:"+cls, 1)
			continue
		}
		reaches := c.reaches
		if reaches == nil {
			reaches = []int{0, 1, 2}
		}
		for _, how := range reaches {
			if cls := c01CrashClass(t, c.v, how); cls != "" {
				// the recorded families (pointer-shaped aggregates, nil pointers to value-receiver marshalers ...) are the main loop's business
				o.count("audit_cases_left_to_recorded_finding:"+cls, 1)
				continue
			}
			arg := c01Reach(c.v, how)
			o.current(map[string]string{"property": "C01", "audit_stratum": c.stratum, "case": c.name, "type": clipN(t.String(), 600), "value": c01Describe(t, c.v),
				"reach": c01ReachName[how], "variant": "(all five in turn)", "crash_class": ""})
			for vi, variant := range c01Variants {
				if c.stratum == "size" && (how+vi+ci)%c01AuditThorough(o.tier, 8, 2) == 0 {
					// two collections empty the pool of encoder contexts: this variant meets the value with a fresh context (128 slots,
					// 1024 bytes), whatever the variants before it have grown; over the cases every variant gets its turn
					runtime.GC()
					runtime.GC()
					o.count("audit_size_comparisons_on_a_fresh_context", 1)
				}
				what, got, want := c01Compare(variant, arg)
				o.count("audit_comparisons:"+c.stratum, 1)
				if what == "" {
					continue
				}
				key := c.stratum + "|" + t.String() + "|" + variant.name + "|" + c01ReachName[how]
				if reported[key] {
					o.count("repeat_disagreements", 1)
					continue
				}
				reported[key] = true
				if cls := c01Classify(t, c.v, what, got, want); cls != "" {
					o.known(cls, fmt.Sprintf("%s %s %s", clipN(t.String(), 200), c01ReachName[how], variant.name))
					continue
				}
				if cg, ok1 := tgCanon(got); ok1 {
					if cw, ok2 := tgCanon(want); ok2 {
						got, want = []byte(cg), []byte(cw)
					}
				}
				o.violation("C01", "encoding differs from encoding/json: "+what, map[string]string{
					"audit_stratum": c.stratum, "case": c.name, "open_defect": c.open,
					"type": clipN(t.String(), 600), "value": c01Describe(t, c.v), "reach": c01ReachName[how], "variant": variant.name,
					"got": clipN(string(got), 400), "want": clipN(string(want), 400), "first_difference": strconv.Itoa(firstDiff(got, want)),
					"got_at_difference": around(got, firstDiff(got, want)), "want_at_difference": around(want, firstDiff(got, want))})
			}
		}
	}
	c01AuditSequences(o, r, base+len(cases), skip)
}

// ---- stratum mapkey ----

type A7KStr string
type A7KStrText string

func (k A7KStrText) MarshalText() ([]byte, error) { return []byte("T:" + string(k)), nil }

type A7KStrTextP string

func (k *A7KStrTextP) MarshalText() ([]byte, error) { return []byte("P:" + string(*k)), nil }

type A7KIntText int16

func (k A7KIntText) MarshalText() ([]byte, error) { return []byte("i" + strconv.Itoa(int(k))), nil }

type A7KUint8 uint8
type A7KIntMJ int32

func (k A7KIntMJ) MarshalJSON() ([]byte, error) {
	return []byte(`{"mj":` + strconv.Itoa(int(k)) + `}`), nil
}

type A7KStruct struct {
	A string
	B int8
}

func (k A7KStruct) MarshalText() ([]byte, error) {
	return []byte(k.A + "#" + strconv.Itoa(int(k.B))), nil
}

type A7KStructP struct{ A string }

func (k *A7KStructP) MarshalText() ([]byte, error) {
	if k == nil {
		return []byte("nil-key"), nil
	}
	return []byte("kp:" + k.A), nil
}

type A7KPlain struct{ A int }
type A7KMJ struct{ N int }

func (k A7KMJ) MarshalJSON() ([]byte, error) { return []byte(`"mj` + strconv.Itoa(k.N) + `"`), nil }

type A7TextIface interface {
	MarshalText() ([]byte, error)
}

// valid UTF-8 only (keys that are not are the recorded finding MapKeyInvalidUTF8Order); prefixes of each other, the bytes
// that sort around the quote and the backslash, what the encoder escapes
var c01AuditKeyStrings = []string{"", "a", "a\"", "a!", "a ", "a\\", "a#", "ab", "aa", "b", "A", "<", "a<", "a&b", "é", "e", " ", " ", "\x7f", "\n", "a\n", "\t", "\x00", "a\x00", "\x01",
	"0", "00", "1", "10", "2", "-1", "key", "keys", "key ", "ke", "😀", "\U0010FFFF", "￿", "~", "{", "[", ":", ",", "null", "\\u0041", "/", "a/b"}

func c01AuditKey(r *rand.Rand, kt reflect.Type, i int) reflect.Value {
	k := reflect.New(kt).Elem()
	switch kt.Kind() {
	case reflect.String:
		if i < len(c01AuditKeyStrings) {
			k.SetString(c01AuditKeyStrings[(i*7+3)%len(c01AuditKeyStrings)])
		} else {
			k.SetString(c01AuditKeyStrings[r.Intn(len(c01AuditKeyStrings))] + strconv.Itoa(r.Intn(50)))
		}
	case reflect.Int, reflect.Int8, reflect.Int16, reflect.Int32, reflect.Int64, reflect.Uint, reflect.Uint8, reflect.Uint16, reflect.Uint32, reflect.Uint64, reflect.Uintptr:
		tgValue(r, k, 0, 0, false)
	case reflect.Bool:
		k.SetBool(i%2 == 0)
	case reflect.Float64:
		k.SetFloat(float64(i) + 0.5)
	case reflect.Struct:
		for f := 0; f < kt.NumField(); f++ {
			if kt.Field(f).Type.Kind() == reflect.String {
				k.Field(f).SetString(c01AuditKeyStrings[r.Intn(len(c01AuditKeyStrings))])
			} else {
				tgValue(r, k.Field(f), 0, 0, false)
			}
		}
	case reflect.Array:
		for f := 0; f < k.Len(); f++ {
			k.Index(f).SetInt(int64(i + f))
		}
	case reflect.Ptr:
		if i == 1 && r.Intn(2) == 0 {
			return k // the nil key
		}
		p := reflect.New(kt.Elem())
		p.Elem().Set(c01AuditKey(r, kt.Elem(), i))
		k.Set(p)
	case reflect.Interface:
		var dyn []reflect.Value
		for _, c := range []reflect.Type{reflect.TypeOf(A7KStruct{}), reflect.TypeOf(A7KIntText(0)), reflect.TypeOf(A7KStrText("")), reflect.PtrTo(reflect.TypeOf(A7KStructP{})), reflect.TypeOf(""), reflect.TypeOf(0)} {
			if c.Implements(kt) {
				dyn = append(dyn, c01AuditKey(r, c, i+2))
			}
		}
		if len(dyn) > 0 {
			k.Set(dyn[r.Intn(len(dyn))])
		}
	case reflect.Slice, reflect.Map:
		// only behind a pointer (not comparable themselves)
		if kt.Kind() == reflect.Slice {
			k.Set(reflect.MakeSlice(kt, 1, 1))
		} else {
			k.Set(reflect.MakeMap(kt))
		}
	}
	return k
}

// the member name encoding/json gives a key: the string itself for string kinds, else MarshalText ("" for a nil pointer), else the decimal integer
func c01AuditKeyName(k reflect.Value) string {
	if k.Kind() == reflect.String {
		return k.String()
	}
	if k.Kind() == reflect.Interface && k.IsNil() {
		return "<nil interface>"
	}
	if tm, ok := k.Interface().(interface{ MarshalText() ([]byte, error) }); ok {
		if (k.Kind() == reflect.Ptr || k.Kind() == reflect.Interface && k.Elem().Kind() == reflect.Ptr) && reflect.ValueOf(k.Interface()).IsNil() {
			return ""
		}
		b, _ := tm.MarshalText()
		return string(b)
	}
	return fmt.Sprintf("%#v", k.Interface())
}

func c01AuditMapKeys(r *rand.Rand, tier string) []c01AuditCase {
	type keyType struct {
		t           reflect.Type
		open        string
		unsupported bool // encoding/json refuses the map type
	}
	ptr := reflect.PtrTo
	keys := []keyType{
		{reflect.TypeOf(A7KStr("")), "", false},
		{reflect.TypeOf(A7KStrText("")), "MapKeyStringKindTextMarshaler", false},
		{reflect.TypeOf(A7KStrTextP("")), "", false},
		{reflect.TypeOf(A7KIntText(0)), "", false},
		{reflect.TypeOf(A7KUint8(0)), "", false},
		{reflect.TypeOf(A7KIntMJ(0)), "", false},
		{reflect.TypeOf(A7KStruct{}), "", false},
		{ptr(reflect.TypeOf(A7KStruct{})), "", false},
		{ptr(reflect.TypeOf(A7KIntText(0))), "", false},
		{ptr(reflect.TypeOf(A7KStructP{})), "MapKeyPointerWithPtrReceiverMarshalText(crash)", false},
		{reflect.TypeOf((*A7TextIface)(nil)).Elem(), "", false},
		{reflect.TypeOf(A7KPlain{}), "", true},
		{reflect.TypeOf(A7KMJ{}), "", true},
		{reflect.TypeOf(false), "", true},
		{reflect.TypeOf(float64(0)), "", true},
		{reflect.TypeOf([2]int{}), "", true},
		{tgIface, "", true},
		{reflect.TypeOf((*A7Stringer)(nil)).Elem(), "", true},
		{ptr(reflect.TypeOf(0)), "MapKeyPointerWithoutMarshalText", true},
		{ptr(reflect.TypeOf("")), "MapKeyPointerWithoutMarshalText", true},
		{ptr(reflect.TypeOf(A7KPlain{})), "MapKeyPointerWithoutMarshalText", true},
		{ptr(reflect.TypeOf([]int(nil))), "MapKeyPointerWithoutMarshalText", true},
		{ptr(ptr(reflect.TypeOf(A7KStruct{}))), "MapKeyPointerWithoutMarshalText(crash)", true},
		{ptr(reflect.TypeOf(map[string]int(nil))), "MapKeyPointerWithoutMarshalText(crash)", true},
	}
	vals := []reflect.Type{reflect.TypeOf(0), reflect.TypeOf(""), reflect.TypeOf([]int(nil)), tgIface, reflect.TypeOf(struct {
		A int
		B string `json:"b,omitempty"`
	}{}), reflect.TypeOf(map[string]bool(nil))}
	sizes := []int{-1, 0, 1, 2, 3, 5, 13, 14, 40}
	rounds := c01AuditThorough(tier, 1, 12)
	var out []c01AuditCase
	for round := 0; round < rounds; round++ {
		for ki, k := range keys {
			for si, n := range sizes {
				if k.unsupported && n > 2 {
					continue
				}
				crashes := strings.HasSuffix(k.open, "(crash)") // fatal errors (out of memory): a few cases only, each costs a restart of the child
				if crashes && n != 1 && n != 2 {
					continue
				}
				vt := vals[(ki+si+round)%len(vals)]
				mt := reflect.MapOf(k.t, vt)
				m := reflect.New(mt)
				if n >= 0 {
					m.Elem().Set(reflect.MakeMap(mt))
					names := map[string]bool{}
					for i := 0; i < n; i++ {
						e := reflect.New(vt).Elem()
						tgValue(r, e, 3, 20, false)
						key := c01AuditKey(r, k.t, i)
						if kn := c01AuditKeyName(key); !names[kn] {
							// two members of one name come in no defined order
							names[kn] = true
							m.Elem().SetMapIndex(key, e)
						}
					}
				}
				name := fmt.Sprintf("map[%s]%s with %d members", k.t, vt, n)
				if k.unsupported && n < 0 && k.open == "" {
					// a nil map is written as null when it is met inside interface{}, before its type is looked at
					out = append(out, c01AuditCase{stratum: "mapkey", name: name, v: m, reaches: []int{0, 1}})
					out = append(out, c01AuditCase{stratum: "mapkey", name: name, v: m, reaches: []int{2}, open: "NilValueOfUnsupportedTypeInInterface"})
					continue
				}
				out = append(out, c01AuditCase{stratum: "mapkey", name: name, v: m, open: k.open})
				if crashes {
					continue
				}
				// the same map at the positions the encoder compiles differently
				switch (ki + si + round) % 4 {
				case 0:
					st := reflect.StructOf([]reflect.StructField{{Name: "A", Type: reflect.TypeOf(0)}, {Name: "M", Type: mt, Tag: `json:"m,omitempty"`}, {Name: "Z", Type: mt}})
					w := reflect.New(st)
					w.Elem().Field(0).SetInt(int64(n))
					w.Elem().Field(1).Set(m.Elem())
					w.Elem().Field(2).Set(m.Elem())
					out = append(out, c01AuditCase{stratum: "mapkey", name: name + " (in fields)", v: w, open: k.open})
				case 1:
					w := reflect.New(reflect.SliceOf(mt))
					w.Elem().Set(reflect.Append(w.Elem(), m.Elem(), reflect.Zero(mt), m.Elem()))
					out = append(out, c01AuditCase{stratum: "mapkey", name: name + " (slice elements)", v: w, open: k.open})
				case 2:
					wt := reflect.MapOf(reflect.TypeOf(""), mt)
					w := reflect.New(wt)
					w.Elem().Set(reflect.MakeMap(wt))
					w.Elem().SetMapIndex(reflect.ValueOf("x"), m.Elem())
					w.Elem().SetMapIndex(reflect.ValueOf("a"), m.Elem())
					out = append(out, c01AuditCase{stratum: "mapkey", name: name + " (map values)", v: w, open: k.open})
				case 3:
					w := reflect.New(reflect.TypeOf([]interface{}(nil)))
					w.Elem().Set(reflect.ValueOf([]interface{}{m.Elem().Interface(), m.Interface()}))
					out = append(out, c01AuditCase{stratum: "mapkey", name: name + " (in interface{})", v: w, open: k.open})
				}
			}
		}
	}
	return out
}

// ---- stratum iface ----

type A7Stringer interface{ String() string }
type A7Multi interface {
	String() string
	MarshalJSON() ([]byte, error)
}

type A7SV struct {
	A int
	B string `json:"b,omitempty"`
}

func (s A7SV) String() string { return "sv" }

type A7SP struct {
	A int
	I interface{} `json:"i"`
	S A7Stringer  `json:"s,omitempty"`
}

func (s *A7SP) String() string { return "sp" }

type A7SI int

func (s A7SI) String() string { return "si" }

type A7SM map[string]int

func (s A7SM) String() string { return "sm" }

type A7SS []string

func (s A7SS) String() string { return "ss" }

type A7SMV struct{ N int }

func (s A7SMV) String() string { return "smv" }
func (s A7SMV) MarshalJSON() ([]byte, error) {
	return []byte(` { "smv" : [ ` + strconv.Itoa(s.N) + ` , "<&>" ] } `), nil
}

type A7SMP struct{ N int }

func (s *A7SMP) String() string { return "smp" }
func (s *A7SMP) MarshalJSON() ([]byte, error) {
	if s == nil {
		return []byte(`"nil-smp"`), nil
	}
	return []byte(`{"smp":` + strconv.Itoa(s.N) + `}`), nil
}

type A7STV struct{ S string }

func (s A7STV) String() string               { return "stv" }
func (s A7STV) MarshalText() ([]byte, error) { return []byte("stv<" + s.S + ">"), nil }

type A7STP struct{ S string }

func (s *A7STP) String() string { return "stp" }
func (s *A7STP) MarshalText() ([]byte, error) {
	if s == nil {
		return []byte("nil-stp"), nil
	}
	return []byte("stp:" + s.S), nil
}

type A7SE struct {
	M    string
	Code int `json:"code,omitempty"`
	Err  error
}

func (e *A7SE) Error() string  { return e.M }
func (e *A7SE) String() string { return e.M }

var (
	a7StringerT = reflect.TypeOf((*A7Stringer)(nil)).Elem()
	a7MultiT    = reflect.TypeOf((*A7Multi)(nil)).Elem()
	a7ErrorT    = reflect.TypeOf((*error)(nil)).Elem()
)

func c01AuditDynamics(r *rand.Rand) []interface{} {
	si := A7SI(r.Intn(100))
	return []interface{}{
		A7SV{A: r.Intn(9), B: tgStrings[r.Intn(len(tgStrings))]}, &A7SV{A: 1}, (*A7SV)(nil),
		&A7SP{A: 2, I: []interface{}{A7SV{A: 3}, nil, "x"}, S: A7SI(4)}, &A7SP{A: 5, I: &A7SP{A: 6}, S: &A7SP{}}, (*A7SP)(nil),
		si, &si, A7SM{"b": 1, "a": 2}, A7SM(nil), A7SM{}, A7SS{"x", "<y>"}, A7SS(nil),
		A7SMV{N: r.Intn(9)}, &A7SMV{N: 7}, &A7SMP{N: 8}, (*A7SMP)(nil),
		A7STV{S: tgStrings[r.Intn(len(tgStrings))]}, &A7STV{S: "p"}, &A7STP{S: "q"}, (*A7STP)(nil),
		&A7SE{M: "m", Err: &A7SE{M: "inner", Code: 3}}, (*A7SE)(nil), time.Duration(r.Intn(1000)), time.Unix(1700000000, 0).UTC(),
	}
}

func c01AuditIfaces(r *rand.Rand, tier string) []c01AuditCase {
	ifaces := []reflect.Type{a7StringerT, tgMarshalerIface, reflect.TypeOf((*A7TextIface)(nil)).Elem(), a7ErrorT, a7MultiT}
	rounds := c01AuditThorough(tier, 1, 10)
	var out []c01AuditCase
	for round := 0; round < rounds; round++ {
		for _, it := range ifaces {
			isMarshaler := it.Implements(tgMarshalerIface) || it.Implements(tgTextMarshalerIface)
			var dyn []reflect.Value
			for _, d := range c01AuditDynamics(r) {
				if reflect.TypeOf(d).Implements(it) {
					dyn = append(dyn, reflect.ValueOf(d))
				}
			}
			dyn = append(dyn, reflect.Zero(it)) // the nil interface
			pick := func() reflect.Value {
				x := reflect.New(it).Elem()
				if d := dyn[r.Intn(len(dyn))]; d.IsValid() && d.Type() != it {
					x.Set(d)
				}
				return x
			}
			dynName := func(x reflect.Value) string {
				if x.IsNil() {
					return "nil"
				}
				return x.Elem().Type().String()
			}
			ptrOpen := ""
			if isMarshaler {
				ptrOpen = "PtrToMarshalerInterface"
			}
			for di := range dyn {
				// every dynamic value once in every container
				set := func(dst reflect.Value) string {
					if d := dyn[di]; d.Type() != it {
						dst.Set(d)
					}
					return dynName(dst)
				}
				// 0: the interface variable itself (direct = its dynamic value, pointer = *I, interface = inside interface{})
				v := reflect.New(it)
				n := set(v.Elem())
				// (a nil *T with a pointer-receiver MarshalText at top level was written as "": repaired in /repo, b88d764)
				out = append(out, c01AuditCase{stratum: "iface", name: fmt.Sprintf("%s holding %s", it, n), v: v, reaches: []int{0, 2}})
				out = append(out, c01AuditCase{stratum: "iface", name: fmt.Sprintf("*%s holding %s", it, n), v: v, reaches: []int{1}, open: ptrOpen})
				// 1: struct fields: only field / between others / omitempty
				for shape := 0; shape < 3; shape++ {
					var fs []reflect.StructField
					switch shape {
					case 0:
						fs = []reflect.StructField{{Name: "I", Type: it}}
					case 1:
						fs = []reflect.StructField{{Name: "A", Type: reflect.TypeOf(0)}, {Name: "I", Type: it, Tag: `json:"i"`}, {Name: "Z", Type: reflect.TypeOf("")}}
					default:
						fs = []reflect.StructField{{Name: "I", Type: it, Tag: `json:"i,omitempty"`}, {Name: "J", Type: it, Tag: `json:",omitempty"`}, {Name: "Z", Type: reflect.TypeOf(0)}}
					}
					st := reflect.New(reflect.StructOf(fs))
					for f := range fs {
						if fs[f].Type == it {
							if fs[f].Name == "J" {
								st.Elem().Field(f).Set(pick())
							} else {
								set(st.Elem().Field(f))
							}
						}
					}
					// (omitempty on a nil TextMarshaler-typed interface wrote "i":null: repaired in /repo, 097e042)
					out = append(out, c01AuditCase{stratum: "iface", name: fmt.Sprintf("struct shape %d with %s holding %s", shape, it, n), v: st})
				}
				// 2: elements and map values, mixed with other dynamic values
				sl := reflect.New(reflect.SliceOf(it))
				sl.Elem().Set(reflect.MakeSlice(reflect.SliceOf(it), 3, 3))
				set(sl.Elem().Index(0))
				sl.Elem().Index(1).Set(pick())
				sl.Elem().Index(2).Set(pick())
				out = append(out, c01AuditCase{stratum: "iface", name: fmt.Sprintf("[]%s starting with %s", it, n), v: sl})
				ar := reflect.New(reflect.ArrayOf(2, it))
				set(ar.Elem().Index(1))
				ar.Elem().Index(0).Set(pick())
				out = append(out, c01AuditCase{stratum: "iface", name: fmt.Sprintf("[2]%s ending with %s", it, n), v: ar})
				mt := reflect.MapOf(reflect.TypeOf(""), it)
				mp := reflect.New(mt)
				mp.Elem().Set(reflect.MakeMap(mt))
				e := reflect.New(it).Elem()
				set(e)
				mp.Elem().SetMapIndex(reflect.ValueOf("k"), e)
				mp.Elem().SetMapIndex(reflect.ValueOf("a"), pick())
				out = append(out, c01AuditCase{stratum: "iface", name: fmt.Sprintf("map[string]%s with %s", it, n), v: mp})
				// 3: pointers to the interface: field, element
				pst := reflect.New(reflect.StructOf([]reflect.StructField{{Name: "A", Type: reflect.TypeOf(0)}, {Name: "P", Type: reflect.PtrTo(it)}, {Name: "Q", Type: reflect.PtrTo(it), Tag: `json:"q,omitempty"`}}))
				p := reflect.New(it)
				set(p.Elem())
				pst.Elem().Field(1).Set(p)
				if di%2 == 0 {
					pst.Elem().Field(2).Set(p)
				}
				out = append(out, c01AuditCase{stratum: "iface", name: fmt.Sprintf("struct with *%s holding %s", it, n), v: pst, open: ptrOpen})
				psl := reflect.New(reflect.SliceOf(reflect.PtrTo(it)))
				psl.Elem().Set(reflect.Append(psl.Elem(), p, reflect.Zero(reflect.PtrTo(it)), p))
				out = append(out, c01AuditCase{stratum: "iface", name: fmt.Sprintf("[]*%s holding %s", it, n), v: psl, open: ptrOpen})
			}
		}
	}
	return out
}

// ---- stratum embedded ----

type A7NInt int
type A7NStr string
type A7NSlice []int
type A7NMap map[string]int
type a7unexported int
type A7Base struct {
	ID   int
	Name string `json:"name,omitempty"`
}
type A7PBase struct {
	P int      `json:"p"`
	Q []string `json:"q,omitempty"`
}
type A7EMV struct{ N int }

func (m A7EMV) MarshalJSON() ([]byte, error) { return []byte(`{"emv":` + strconv.Itoa(m.N) + `}`), nil }

type A7EMP struct{ N int }

func (m *A7EMP) MarshalJSON() ([]byte, error) {
	if m == nil {
		return []byte(`"nil-emp"`), nil
	}
	return []byte(`{"emp":` + strconv.Itoa(m.N) + `}`), nil
}

type A7ETV struct{ S string }

func (t A7ETV) MarshalText() ([]byte, error) { return []byte("etv:" + t.S), nil }

type A7ETP struct{ S string }

func (t *A7ETP) MarshalText() ([]byte, error) {
	if t == nil {
		return []byte("nil-etp"), nil
	}
	return []byte("etp:" + t.S), nil
}

// embedded non-struct types: a member named after the type (pointers too); an unexported one is ignored
type A7E1 struct {
	A7NInt
	A7NStr
	X int
}
type A7E2 struct {
	A7NSlice
	A7NMap
	Z bool
}
type A7E3 struct {
	*A7NInt
	*A7NStr
	Z int
}
type A7E4 struct {
	a7unexported
	X int
}
type A7E5 struct {
	A7NInt `json:"n,string"`
	A7NStr `json:",omitempty"`
	X      int
}

// embedded structs with a tag: a name makes it an ordinary member, "-" removes it, options alone leave it embedded
type A7E6 struct {
	A7Base `json:"base"`
	X      int
}
type A7E7 struct {
	X       int
	*A7Base `json:"base,omitempty"`
}
type A7E8 struct {
	A7Base `json:"-"`
	X      int
}
type A7E9 struct {
	A7Base `json:",omitempty"`
	X      int
}
type A7E10 struct {
	X       int
	*A7Base `json:",omitempty"`
}
type A7E11 struct {
	A7Base `json:",string"`
	X      int
}

// promoted marshal methods: the outer struct is the marshaler
type A7E12 struct {
	A7EMV
	X int
}
type A7E13 struct {
	*A7EMP
	X int
}
type A7E14 struct {
	A7ETV
	X int
}
type A7E15 struct {
	*A7ETP
	X int
}
type A7E16 struct {
	A7EMP // the method is on the pointer: promoted only when the outer value is addressable
	X     int
}
type A7E17 struct {
	A7ETP
	X int
}
type A7E18 struct {
	time.Time
	X int
}

// nil and non-nil embedded pointers in every position, two of them, one behind the other
type A7E19 struct {
	X int
	*A7Base
}
type A7E20 struct {
	*A7Base
	*A7PBase
}
type A7E21 struct {
	X int
	*A7Base
	Y int `json:"y,omitempty"`
	*A7PBase
	Z int
}
type A7E22in struct {
	*A7PBase
	In int
}
type A7E22 struct {
	*A7E22in
	Out string
}

type A7E26 struct {
	A7E22in
	Out string
}

// embedded interfaces: a member named after the interface type
type A7E23 struct {
	A7Stringer
	X int
}
type A7E24 struct {
	X     int
	error `json:"err"`
}

// members holding the marshaler-embedding structs
type A7E25 struct {
	A A7E12
	B *A7E13
	C []A7E16
	D map[string]A7E17
	E [1]A7E14
}

func c01AuditEmbedded(r *rand.Rand, tier string) []c01AuditCase {
	n, s := A7NInt(-3), A7NStr("p<s>")
	b := func() *A7Base { return &A7Base{ID: r.Intn(100), Name: []string{"", "n", "<&>"}[r.Intn(3)]} }
	pb := func() *A7PBase { return &A7PBase{P: r.Intn(10), Q: [][]string{nil, {}, {"q"}}[r.Intn(3)]} }
	pbq := func() *A7PBase { return &A7PBase{P: r.Intn(10), Q: []string{"q", "<r>"}} }
	pbe := func() *A7PBase { return &A7PBase{P: r.Intn(10), Q: [][]string{nil, {}}[r.Intn(2)]} }
	const omitOpen = "" // was the finding EmbeddedStructWithOptionsOnlyTag: repaired in /repo (80bb8f3), the cases run like any other
	const nestedOpen = "NestedEmbeddedPtrEndingInOmittedSlice"
	type cs struct {
		x    interface{}
		open string
	}
	rounds := c01AuditThorough(tier, 2, 20)
	var out []c01AuditCase
	for round := 0; round < rounds; round++ {
		list := []cs{
			{A7E1{1, "a\"b", 2}, ""}, {A7E1{}, ""},
			{A7E2{A7NSlice{1, 2}, A7NMap{"b": 1, "a": 2}, true}, ""}, {A7E2{}, ""}, {A7E2{A7NSlice{}, A7NMap{}, false}, ""},
			{A7E3{&n, &s, 1}, ""}, {A7E3{}, ""}, {A7E3{nil, &s, 2}, ""},
			{A7E4{7, 8}, ""},
			{A7E5{5, "q", 1}, ""}, {A7E5{0, "", 0}, ""},
			{A7E6{*b(), 2}, ""}, {A7E6{}, ""},
			{A7E7{1, b()}, ""}, {A7E7{1, nil}, ""},
			{A7E8{*b(), 3}, ""},
			{A7E9{*b(), 4}, omitOpen}, {A7E9{}, omitOpen},
			{A7E10{5, b()}, omitOpen}, {A7E10{5, nil}, ""},
			{A7E11{*b(), 6}, ""},
			{A7E12{A7EMV{r.Intn(9)}, 1}, ""},
			{A7E13{&A7EMP{2}, 1}, ""}, {A7E13{nil, 1}, ""},
			{A7E14{A7ETV{"x<y"}, 1}, ""},
			{A7E15{&A7ETP{"z"}, 1}, ""}, {A7E15{nil, 1}, ""},
			{A7E16{A7EMP{3}, 1}, ""},
			{A7E17{A7ETP{"w"}, 1}, ""},
			{A7E18{time.Unix(int64(r.Intn(2000000000)), 0).UTC(), 1}, ""}, {A7E18{}, ""},
			{A7E19{1, b()}, ""}, {A7E19{1, nil}, ""},
			{A7E20{b(), pb()}, ""}, {A7E20{nil, pb()}, ""}, {A7E20{b(), nil}, ""}, {A7E20{}, ""},
			{A7E21{1, b(), 2, pb(), 3}, ""}, {A7E21{1, nil, 0, pb(), 3}, ""}, {A7E21{1, b(), 2, nil, 3}, ""}, {A7E21{X: 1}, ""},
			{A7E22{&A7E22in{pbq(), 1}, "o"}, ""}, {A7E22{&A7E22in{pbe(), 1}, "o"}, nestedOpen}, {A7E22{&A7E22in{nil, 1}, "o"}, ""}, {A7E22{nil, "o"}, ""},
			{A7E26{A7E22in{pbq(), 1}, "o"}, ""}, {A7E26{A7E22in{pbe(), 1}, "o"}, nestedOpen}, {A7E26{A7E22in{nil, 1}, "o"}, ""},
			{A7E23{A7SV{A: 1}, 2}, ""}, {A7E23{nil, 2}, ""}, {A7E23{&A7SP{A: 3}, 2}, ""}, {A7E23{A7SI(4), 2}, ""},
			{A7E24{1, &A7SE{M: "e"}}, ""}, {A7E24{1, nil}, ""},
			{A7E25{A7E12{A7EMV{1}, 2}, &A7E13{&A7EMP{3}, 4}, []A7E16{{A7EMP{5}, 6}}, map[string]A7E17{"k": {A7ETP{"t"}, 7}}, [1]A7E14{{A7ETV{"u"}, 8}}}, ""},
			{A7E25{}, ""},
		}
		for _, c := range list {
			v := c01AuditOf(c.x)
			t := v.Type().Elem()
			out = append(out, c01AuditCase{stratum: "embedded", name: t.Name(), v: v, open: c.open})
			// the same value as an element, a map value and a member: other opcode sequences around the embedded head
			switch len(out) % 3 {
			case 0:
				w := reflect.New(reflect.SliceOf(t))
				w.Elem().Set(reflect.Append(w.Elem(), v.Elem(), reflect.Zero(t), v.Elem()))
				out = append(out, c01AuditCase{stratum: "embedded", name: "[]" + t.Name(), v: w, open: c.open})
			case 1:
				mt := reflect.MapOf(reflect.TypeOf(""), reflect.PtrTo(t))
				w := reflect.New(mt)
				w.Elem().Set(reflect.MakeMap(mt))
				w.Elem().SetMapIndex(reflect.ValueOf("v"), v)
				if !t.Implements(tgMarshalerIface) && !t.Implements(tgTextMarshalerIface) {
					// (a nil pointer to a type with a value-receiver method is the recorded finding NilPtrToValueReceiverMarshaler)
					w.Elem().SetMapIndex(reflect.ValueOf("nil"), reflect.Zero(reflect.PtrTo(t)))
				}
				out = append(out, c01AuditCase{stratum: "embedded", name: "map[string]*" + t.Name(), v: w, open: c.open})
			default:
				st := reflect.StructOf([]reflect.StructField{{Name: "A", Type: reflect.TypeOf("")}, {Name: "V", Type: t, Tag: `json:"v"`}, {Name: "P", Type: reflect.PtrTo(t), Tag: `json:"p,omitempty"`}, {Name: "I", Type: tgIface}})
				w := reflect.New(st)
				w.Elem().Field(1).Set(v.Elem())
				if round%2 == 0 {
					w.Elem().Field(2).Set(v)
				}
				w.Elem().Field(3).Set(v.Elem())
				out = append(out, c01AuditCase{stratum: "embedded", name: "members of type " + t.Name(), v: w, open: c.open})
			}
		}
	}
	return out
}

// ---- stratum size ----

type A7Node struct {
	V    int               `json:"v"`
	Next *A7Node           `json:"next,omitempty"`
	Kids []A7Node          `json:"kids,omitempty"`
	M    map[string]A7Node `json:"m,omitempty"`
	I    interface{}       `json:"i,omitempty"`
	P    []*A7Node         `json:"p,omitempty"`
	S    string            `json:"s,omitempty"`
}

func c01AuditTree(r *rand.Rand, d int) A7Node {
	x := A7Node{V: d}
	if d <= 0 {
		return x
	}
	switch r.Intn(6) {
	case 0:
		y := c01AuditTree(r, d-1)
		x.Next = &y
	case 1:
		x.Kids = []A7Node{c01AuditTree(r, d-1), c01AuditTree(r, d/3)}
	case 2:
		x.M = map[string]A7Node{"b": c01AuditTree(r, d-1), "a<": c01AuditTree(r, d/4)}
	case 3:
		x.I = c01AuditTree(r, d-1)
	case 4:
		y := c01AuditTree(r, d-1)
		x.I = &y
		x.S = "<s>"
	default:
		y := c01AuditTree(r, d-1)
		x.P = []*A7Node{nil, &y}
	}
	return x
}

func c01AuditSizes(r *rand.Rand, tier string) []c01AuditCase {
	var out []c01AuditCase
	add := func(name string, x interface{}) {
		out = append(out, c01AuditCase{stratum: "size", name: name, v: c01AuditOf(x)})
	}
	// deep recursion: the frames of the recursive program are taken from the slot array, which grows on the way down
	for _, d := range []int{10, 33, 100, c01AuditThorough(tier, 300, 1500)} {
		var l *A7Node
		for i := 0; i < d; i++ {
			l = &A7Node{V: i, Next: l, S: []string{"", "x"}[i%2]}
		}
		add(fmt.Sprintf("list of depth %d", d), *l)
	}
	// (the indented text of a tree grows with the square of its depth: at depth 400 it was 240 MB in each library and the
	// child, which holds five variants of it, ran into its address-space limit -- a limit of the harness, not of the encoder)
	for _, d := range []int{8, 20, 45, 90, c01AuditThorough(tier, 150, 200)} {
		for k := 0; k < c01AuditThorough(tier, 2, 10); k++ {
			add(fmt.Sprintf("tree of depth %d", d), c01AuditTree(r, d))
		}
	}
	// many members: sorting beyond the insertion-sort threshold of package sort (12), keys that are prefixes of each other
	for _, n := range []int{12, 13, 14, 31, 100, c01AuditThorough(tier, 300, 3000)} {
		ms := map[string]int{}
		mi := map[int64]string{}
		mu := map[uint8][]int{}
		mm := map[string]map[string][]string{}
		mf := map[A7KStr]interface{}{}
		for i := 0; i < n; i++ {
			k := strings.Repeat("k", r.Intn(4)) + c01AuditKeyStrings[r.Intn(len(c01AuditKeyStrings))]
			ms[k] = i
			mi[r.Int63n(4000)-2000] = k
			mu[uint8(r.Intn(256))] = []int{i}
			mm[k] = map[string][]string{k: {k}, "z" + k: nil, "": {}}
			mf[A7KStr(k)] = []interface{}{k, i, nil, map[string]interface{}{k: i, "a": k}}[r.Intn(4)]
		}
		add(fmt.Sprintf("map[string]int of %d", len(ms)), ms)
		add(fmt.Sprintf("map[int64]string of %d", len(mi)), mi)
		add(fmt.Sprintf("map[uint8][]int of %d", len(mu)), mu)
		add(fmt.Sprintf("map of maps of %d", len(mm)), mm)
		add(fmt.Sprintf("map[named string]interface{} of %d", len(mf)), mf)
	}
	// long slices and arrays
	for _, n := range []int{100, 1025, c01AuditThorough(tier, 3000, 50000)} {
		is := make([]int32, n)
		ss := make([]string, n)
		ps := make([]*A7Base, n)
		fs := make([]float32, n)
		xs := make([]interface{}, n)
		for i := range is {
			is[i] = int32(r.Uint32())
			ss[i] = tgStrings[r.Intn(len(tgStrings))]
			if utf8.ValidString(ss[i]) && i%3 != 0 {
				ps[i] = &A7Base{ID: i, Name: ss[i]}
			}
			fs[i] = float32(tgFloats[r.Intn(len(tgFloats))])
			if math.IsInf(float64(fs[i]), 0) {
				fs[i] = math.MaxFloat32
			}
			xs[i] = []interface{}{i, ss[i], nil, ps[i], fs[i], []int{i}, true}[r.Intn(7)]
		}
		add(fmt.Sprintf("[]int32 of %d", n), is)
		add(fmt.Sprintf("[]string of %d", n), ss)
		add(fmt.Sprintf("[]*struct of %d", n), ps)
		add(fmt.Sprintf("[]float32 of %d", n), fs)
		add(fmt.Sprintf("[]interface{} of %d", n), xs)
	}
	// wide structs: more members than the 128 slots a fresh context holds
	for _, n := range []int{20, 64, 127, 128, 129, c01AuditThorough(tier, 300, 1200)} {
		var fs []reflect.StructField
		for i := 0; i < n; i++ {
			ft := []reflect.Type{reflect.TypeOf(0), reflect.TypeOf(""), reflect.TypeOf([]int(nil)), reflect.PtrTo(reflect.TypeOf(A7Base{})), tgIface, reflect.TypeOf(map[string]int(nil)),
				reflect.TypeOf(uint8(0)), reflect.TypeOf(false), reflect.TypeOf(float64(0)), reflect.TypeOf(A7PBase{})}[r.Intn(10)]
			tag := ""
			switch r.Intn(5) {
			case 0:
				tag = fmt.Sprintf(`json:"n%d,omitempty"`, i)
			case 1:
				tag = `json:",omitempty"`
			case 2:
				tag = fmt.Sprintf(`json:"k<%d>"`, i)
			}
			fs = append(fs, reflect.StructField{Name: fmt.Sprintf("F%d", i), Type: ft, Tag: reflect.StructTag(tag)})
		}
		st := reflect.StructOf(fs)
		for k := 0; k < 2; k++ {
			v := reflect.New(st)
			tgValue(r, v.Elem(), 4, []int{50, 0}[k], false)
			out = append(out, c01AuditCase{stratum: "size", name: fmt.Sprintf("struct of %d fields", n), v: v})
		}
	}
	// long strings and byte slices: escapes at every offset of the 8-byte scan, growth of the output buffer past its 1024 bytes
	for _, n := range []int{1016, 1023, 1024, 1025, 4096, c01AuditThorough(tier, 70000, 1100000)} {
		b := make([]byte, n)
		for i := range b {
			b[i] = byte('a' + r.Intn(26))
		}
		for k := 0; k < 6; k++ {
			b[r.Intn(n)] = []byte{'"', '\\', '<', '\n', 0x7f, 0x01}[k]
		}
		s := string(b)
		add(fmt.Sprintf("string of %d bytes", n), s)
		add(fmt.Sprintf("string of %d bytes ending in a 3-byte character", n), s[:n-3]+" ")
		add(fmt.Sprintf("[]byte of %d", n), b)
		add(fmt.Sprintf("members of %d bytes", n), struct {
			S string `json:"s"`
			B []byte `json:"b,omitempty"`
			T string `json:",string"`
			M map[string]string
		}{s, b[:n-1], s[:n/2], map[string]string{s[:n/3]: s[n/3:]}})
	}
	return out
}

// ---- stratum payload ----

type A7Payload struct{ B string }

func (m A7Payload) MarshalJSON() ([]byte, error) { return []byte(m.B), nil }

type A7PayloadP struct{ B string }

func (m *A7PayloadP) MarshalJSON() ([]byte, error) {
	if m == nil {
		return []byte("null"), nil
	}
	return []byte(m.B), nil
}

func c01AuditPayloadText(r *rand.Rand) string {
	s := genDoc(r, 1+r.Intn(4))
	switch r.Intn(6) {
	case 0:
		s = strings.Replace(s, `"a"`, "\"a < &\"", 1) // escaped by encoding/json's compaction while HTML escaping is on
	case 1:
		s = strings.Replace(s, `"k"`, `"< é\/"`, 1)
	case 2:
		s = "[" + s + ",\n\t{\"deep\" : [ [ ], { } , [{ \"x\":" + s + "}] ] } ]"
	}
	return s
}

func c01AuditPayloads(r *rand.Rand, tier string) []c01AuditCase {
	n := c01AuditThorough(tier, 60, 1500)
	var out []c01AuditCase
	for i := 0; i < n; i++ {
		p, q := c01AuditPayloadText(r), c01AuditPayloadText(r)
		var x interface{}
		switch i % 6 {
		case 0:
			x = A7Payload{p}
		case 1:
			x = struct {
				A int
				M A7Payload  `json:"m"`
				P *A7Payload `json:"p,omitempty"`
				Z *A7PayloadP
			}{1, A7Payload{p}, &A7Payload{q}, &A7PayloadP{q}}
		case 2:
			x = []A7Payload{{p}, {q}, {"null"}}
		case 3:
			x = map[string]*A7PayloadP{"b": {p}, "a": {q}, "n": nil}
		case 4:
			x = []interface{}{A7Payload{p}, &A7PayloadP{q}, map[string]interface{}{"k": []interface{}{A7Payload{q}}}}
		default:
			x = [2]*A7PayloadP{{p}, {q}}
		}
		out = append(out, c01AuditCase{stratum: "payload", name: fmt.Sprintf("position %d", i%6), v: c01AuditOf(x)})
	}
	return out
}

// ---- stratum sequence ----

// one Encoder per library for a whole series of steps: what a call leaves behind (indentation settings, the escape flag,
// the pooled buffers and slot arrays, a failed encode) must not show in the next one
func c01AuditSequences(o *Out, r *rand.Rand, base, skip int) {
	n := c01AuditThorough(o.tier, 150, 4000)
	indents := [][2]string{{"", ""}, {"", " "}, {"", "\t"}, {">", "  "}, {"p", ""}, {"", ""}}
	for si := 0; si < n; si++ {
		steps := 4 + r.Intn(9)
		type step struct {
			kind   int // 0 encode, 1 SetIndent, 2 SetEscapeHTML
			t      reflect.Type
			v      reflect.Value
			pi     [2]string
			on     bool
			descr  string
			failed bool
		}
		var seq []step
		for k := 0; k < steps; k++ {
			switch r.Intn(5) {
			case 0:
				pi := indents[r.Intn(len(indents))]
				seq = append(seq, step{kind: 1, pi: pi, descr: fmt.Sprintf("SetIndent(%q,%q)", pi[0], pi[1])})
			case 1:
				on := r.Intn(2) == 0
				seq = append(seq, step{kind: 2, on: on, descr: fmt.Sprintf("SetEscapeHTML(%v)", on)})
			case 2:
				// values both libraries refuse for certain: the next step runs after a failed encode
				bad := []interface{}{math.NaN(), []float32{1, float32(math.Inf(1))}, stdjson.Number("1x"), []TgMErr{{}, {Fail: true}}, map[string]interface{}{"a": []int{1}, "b": make(chan int)},
					struct {
						A []string
						F func()
					}{A: []string{"x"}}, map[string]A7Payload{"k": {"[1,"}}, []interface{}{map[string]interface{}{"deep": []interface{}{1, "s", math.Inf(-1)}}}}[r.Intn(8)]
				v := c01AuditOf(bad)
				seq = append(seq, step{kind: 0, t: v.Type().Elem(), v: v, descr: "Encode(" + clipN(v.Type().Elem().String(), 120) + " that cannot be encoded)"})
			default:
				t := tgType(r, 2, tgOpts{named: true})
				if t.Kind() == reflect.Interface {
					t = reflect.TypeOf(c01Wrap{})
				}
				v := reflect.New(t)
				special := r.Intn(3) == 0 // values both libraries refuse: the next step runs after a failed encode
				tgValue(r, v.Elem(), 0, []int{0, 20, 50}[r.Intn(3)], special)
				if tgKnownBadAnywhere(reflect.PtrTo(t), 0) != "" || c01CrashClass(t, v, 0) != "" {
					continue // the recorded families are the main loop's business
				}
				seq = append(seq, step{kind: 0, t: t, v: v, descr: "Encode(" + clipN(t.String(), 120) + ")"})
			}
		}
		if base+si < skip {
			continue
		}
		os.WriteFile(o.dir+"/progress", []byte(strconv.Itoa(base+si)), 0o644)
		var gb, sb bytes.Buffer
		ge, se := gojson.NewEncoder(&gb), stdjson.NewEncoder(&sb)
		var trace []string
		for k := range seq {
			st := &seq[k]
			trace = append(trace, st.descr)
			switch st.kind {
			case 1:
				ge.SetIndent(st.pi[0], st.pi[1])
				se.SetIndent(st.pi[0], st.pi[1])
				continue
			case 2:
				ge.SetEscapeHTML(st.on)
				se.SetEscapeHTML(st.on)
				continue
			}
			arg := st.v.Elem().Interface()
			o.current(map[string]string{"property": "C01", "audit_stratum": "sequence", "steps": strings.Join(trace, "; "), "value": c01Describe(st.t, st.v), "crash_class": ""})
			g0, s0 := gb.Len(), sb.Len()
			_, gerr := c01Safe(func() ([]byte, error) { return nil, ge.Encode(arg) })
			_, werr := c01Safe(func() ([]byte, error) { return nil, se.Encode(arg) })
			o.count("audit_comparisons:sequence", 1)
			if werr != nil && strings.HasPrefix(werr.Error(), "PANIC") {
				break // the oracle cannot handle the value: the rest of the series has no reference
			}
			if werr != nil {
				o.count("audit_sequence_steps_after_which_an_encode_failed", 1)
			}
			got, want := gb.Bytes()[g0:], sb.Bytes()[s0:]
			what := ""
			if (gerr != nil) != (werr != nil) {
				what = fmt.Sprintf("verdict: go-json err=%v, encoding/json err=%v", gerr, werr)
			} else if !tgSameJSON(got, want) {
				what = "output differs"
			}
			if what == "" {
				continue
			}
			// is it the series or the value?  the same value on fresh encoders with the same settings
			alone, _, _ := c01Compare(c01Variants[0], arg)
			if alone != "" {
				// a disagreement of the value by itself belongs to the main loop (and its recorded findings); the series goes on only while both agree
				o.count("audit_sequence_value_disagrees_by_itself", 1)
				break
			}
			if cls := c01Classify(st.t, st.v, what, append([]byte(nil), got...), append([]byte(nil), want...)); cls != "" {
				o.known(cls, "in a series: "+clipN(st.t.String(), 200))
				break
			}
			o.violation("C01", "one Encoder used for a series of values: "+what, map[string]string{
				"audit_stratum": "sequence", "steps": strings.Join(trace, "; "), "type": clipN(st.t.String(), 400), "value": c01Describe(st.t, st.v),
				"got": clipN(string(got), 400), "want": clipN(string(want), 400), "got_at_difference": around(got, firstDiff(got, want)), "want_at_difference": around(want, firstDiff(got, want))})
			break
		}
		o.count("audit_cases:sequence", 1)
	}
}
