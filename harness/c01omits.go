package main

// C01, omitempty on a member whose type implements json.Marshaler / encoding.TextMarshaler (coq/Model/Emptiness.v, op
// c01.omits): one named type per kind and method, empty and non-empty values, as the first member and as a later one,
// directly and through a pointer to the struct; what go-json leaves out beside the model and beside encoding/json.
// GENERATED part: the types; the stratum itself follows.

import (
	"bytes"
	"encoding"
	stdjson "encoding/json"
	"math"
	"reflect"

	gojson "github.com/goccy/go-json"
)

type omJBool bool

func (omJBool) MarshalJSON() ([]byte, error) { return []byte(`"j"`), nil }

type omJInt int

func (omJInt) MarshalJSON() ([]byte, error) { return []byte(`"j"`), nil }

type omJInt8 int8

func (omJInt8) MarshalJSON() ([]byte, error) { return []byte(`"j"`), nil }

type omJInt16 int16

func (omJInt16) MarshalJSON() ([]byte, error) { return []byte(`"j"`), nil }

type omJInt32 int32

func (omJInt32) MarshalJSON() ([]byte, error) { return []byte(`"j"`), nil }

type omJInt64 int64

func (omJInt64) MarshalJSON() ([]byte, error) { return []byte(`"j"`), nil }

type omJUint uint

func (omJUint) MarshalJSON() ([]byte, error) { return []byte(`"j"`), nil }

type omJUint8 uint8

func (omJUint8) MarshalJSON() ([]byte, error) { return []byte(`"j"`), nil }

type omJUint16 uint16

func (omJUint16) MarshalJSON() ([]byte, error) { return []byte(`"j"`), nil }

type omJUint32 uint32

func (omJUint32) MarshalJSON() ([]byte, error) { return []byte(`"j"`), nil }

type omJUint64 uint64

func (omJUint64) MarshalJSON() ([]byte, error) { return []byte(`"j"`), nil }

type omJUintptr uintptr

func (omJUintptr) MarshalJSON() ([]byte, error) { return []byte(`"j"`), nil }

type omJFloat32 float32

func (omJFloat32) MarshalJSON() ([]byte, error) { return []byte(`"j"`), nil }

type omJFloat64 float64

func (omJFloat64) MarshalJSON() ([]byte, error) { return []byte(`"j"`), nil }

type omJComplex128 complex128

func (omJComplex128) MarshalJSON() ([]byte, error) { return []byte(`"j"`), nil }

type omJArr0 [0]int

func (omJArr0) MarshalJSON() ([]byte, error) { return []byte(`"j"`), nil }

type omJArr2 [2]int

func (omJArr2) MarshalJSON() ([]byte, error) { return []byte(`"j"`), nil }

type omJChan chan int

func (omJChan) MarshalJSON() ([]byte, error) { return []byte(`"j"`), nil }

type omJFunc func()

func (omJFunc) MarshalJSON() ([]byte, error) { return []byte(`"j"`), nil }

type omJMap map[string]int

func (omJMap) MarshalJSON() ([]byte, error) { return []byte(`"j"`), nil }

type omJSlice []int

func (omJSlice) MarshalJSON() ([]byte, error) { return []byte(`"j"`), nil }

type omJString string

func (omJString) MarshalJSON() ([]byte, error) { return []byte(`"j"`), nil }

type omJStruct struct{ A, B int }

func (omJStruct) MarshalJSON() ([]byte, error) { return []byte(`"j"`), nil }

type omTBool bool

func (omTBool) MarshalText() ([]byte, error) { return []byte("t"), nil }

type omTInt int

func (omTInt) MarshalText() ([]byte, error) { return []byte("t"), nil }

type omTInt8 int8

func (omTInt8) MarshalText() ([]byte, error) { return []byte("t"), nil }

type omTInt16 int16

func (omTInt16) MarshalText() ([]byte, error) { return []byte("t"), nil }

type omTInt32 int32

func (omTInt32) MarshalText() ([]byte, error) { return []byte("t"), nil }

type omTInt64 int64

func (omTInt64) MarshalText() ([]byte, error) { return []byte("t"), nil }

type omTUint uint

func (omTUint) MarshalText() ([]byte, error) { return []byte("t"), nil }

type omTUint8 uint8

func (omTUint8) MarshalText() ([]byte, error) { return []byte("t"), nil }

type omTUint16 uint16

func (omTUint16) MarshalText() ([]byte, error) { return []byte("t"), nil }

type omTUint32 uint32

func (omTUint32) MarshalText() ([]byte, error) { return []byte("t"), nil }

type omTUint64 uint64

func (omTUint64) MarshalText() ([]byte, error) { return []byte("t"), nil }

type omTUintptr uintptr

func (omTUintptr) MarshalText() ([]byte, error) { return []byte("t"), nil }

type omTFloat32 float32

func (omTFloat32) MarshalText() ([]byte, error) { return []byte("t"), nil }

type omTFloat64 float64

func (omTFloat64) MarshalText() ([]byte, error) { return []byte("t"), nil }

type omTComplex128 complex128

func (omTComplex128) MarshalText() ([]byte, error) { return []byte("t"), nil }

type omTArr0 [0]int

func (omTArr0) MarshalText() ([]byte, error) { return []byte("t"), nil }

type omTArr2 [2]int

func (omTArr2) MarshalText() ([]byte, error) { return []byte("t"), nil }

type omTChan chan int

func (omTChan) MarshalText() ([]byte, error) { return []byte("t"), nil }

type omTFunc func()

func (omTFunc) MarshalText() ([]byte, error) { return []byte("t"), nil }

type omTMap map[string]int

func (omTMap) MarshalText() ([]byte, error) { return []byte("t"), nil }

type omTSlice []int

func (omTSlice) MarshalText() ([]byte, error) { return []byte("t"), nil }

type omTString string

func (omTString) MarshalText() ([]byte, error) { return []byte("t"), nil }

type omTStruct struct{ A, B int }

func (omTStruct) MarshalText() ([]byte, error) { return []byte("t"), nil }

type omCase struct {
	t    reflect.Type
	vals []reflect.Value
}

func c01OmitsCases() []omCase {
	nz := math.Copysign(0, -1)
	var cs []omCase
	add := func(vals ...interface{}) {
		c := omCase{t: reflect.TypeOf(vals[0])}
		for _, v := range vals {
			c.vals = append(c.vals, reflect.ValueOf(v))
		}
		cs = append(cs, c)
	}

	add(omJBool(false), omJBool(true))
	add(omJInt(0), omJInt(-3))
	add(omJInt8(0), omJInt8(-128))
	add(omJInt16(0), omJInt16(7))
	add(omJInt32(0), omJInt32(1))
	add(omJInt64(0), omJInt64(math.MinInt64))
	add(omJUint(0), omJUint(9))
	add(omJUint8(0), omJUint8(255))
	add(omJUint16(0), omJUint16(1))
	add(omJUint32(0), omJUint32(1))
	add(omJUint64(0), omJUint64(math.MaxUint64))
	add(omJUintptr(0), omJUintptr(1))
	add(omJFloat32(0), omJFloat32(nz), omJFloat32(1.5), omJFloat32(math.SmallestNonzeroFloat32))
	add(omJFloat64(0), omJFloat64(nz), omJFloat64(-2), omJFloat64(math.SmallestNonzeroFloat64))
	add(omJComplex128(0), omJComplex128(complex(1, 0)))
	add(omJArr0{})
	add(omJArr2{}, omJArr2{0, 1})
	add(omJChan(nil), omJChan(make(chan int)))
	add(omJFunc(nil), omJFunc(func() {}))
	add(omJMap(nil), omJMap{}, omJMap{"k": 1})
	add(omJSlice(nil), omJSlice{}, omJSlice{0})
	add(omJString(""), omJString("x"))
	add(omJStruct{}, omJStruct{A: 1})
	add((*omJStruct)(nil), &omJStruct{})
	add((*omJInt)(nil), new(omJInt))

	add(omTBool(false), omTBool(true))
	add(omTInt(0), omTInt(-3))
	add(omTInt8(0), omTInt8(-128))
	add(omTInt16(0), omTInt16(7))
	add(omTInt32(0), omTInt32(1))
	add(omTInt64(0), omTInt64(math.MinInt64))
	add(omTUint(0), omTUint(9))
	add(omTUint8(0), omTUint8(255))
	add(omTUint16(0), omTUint16(1))
	add(omTUint32(0), omTUint32(1))
	add(omTUint64(0), omTUint64(math.MaxUint64))
	add(omTUintptr(0), omTUintptr(1))
	add(omTFloat32(0), omTFloat32(nz), omTFloat32(1.5), omTFloat32(math.SmallestNonzeroFloat32))
	add(omTFloat64(0), omTFloat64(nz), omTFloat64(-2), omTFloat64(math.SmallestNonzeroFloat64))
	add(omTComplex128(0), omTComplex128(complex(1, 0)))
	add(omTArr0{})
	add(omTArr2{}, omTArr2{0, 1})
	add(omTChan(nil), omTChan(make(chan int)))
	add(omTFunc(nil), omTFunc(func() {}))
	add(omTMap(nil), omTMap{}, omTMap{"k": 1})
	add(omTSlice(nil), omTSlice{}, omTSlice{0})
	add(omTString(""), omTString("x"))
	add(omTStruct{}, omTStruct{A: 1})
	add((*omTStruct)(nil), &omTStruct{})
	add((*omTInt)(nil), new(omTInt))

	// members of interface type: nil, and holding values that are themselves empty
	jm := reflect.TypeOf((*stdjson.Marshaler)(nil)).Elem()
	tm := reflect.TypeOf((*encoding.TextMarshaler)(nil)).Elem()
	for _, it := range []reflect.Type{jm, tm} {
		c := omCase{t: it}
		c.vals = append(c.vals, reflect.Zero(it))
		for _, x := range []interface{}{omJInt(0), omJString(""), omTInt(0), omTString(""), omJMap(nil), omTSlice{}} {
			if reflect.TypeOf(x).Implements(it) {
				h := reflect.New(it).Elem()
				h.Set(reflect.ValueOf(x))
				c.vals = append(c.vals, h)
			}
		}
		cs = append(cs, c)
	}
	return cs
}

func omKindName(k reflect.Kind) string {
	switch k {
	case reflect.Ptr:
		return "Ptr"
	case reflect.UnsafePointer:
		return "UnsafePointer"
	}
	s := k.String()
	return string(bytes.ToUpper([]byte(s[:1]))) + s[1:]
}

// the observations both sides use (Model/Emptiness.v, aval)
func omObserve(v reflect.Value) (kind string, flags [5]bool) {
	kind = omKindName(v.Kind())
	switch v.Kind() {
	case reflect.Bool:
		flags[0] = v.Bool()
	case reflect.Int, reflect.Int8, reflect.Int16, reflect.Int32, reflect.Int64:
		flags[1] = v.Int() == 0
	case reflect.Uint, reflect.Uint8, reflect.Uint16, reflect.Uint32, reflect.Uint64, reflect.Uintptr:
		flags[1] = v.Uint() == 0
	case reflect.Float32, reflect.Float64:
		flags[1] = v.Float() == 0
		flags[2] = math.Float64bits(v.Float()) == 0
	}
	switch v.Kind() {
	case reflect.Interface, reflect.Map, reflect.Ptr, reflect.Func, reflect.Slice, reflect.Chan:
		flags[3] = v.IsNil()
	}
	switch v.Kind() {
	case reflect.Array, reflect.Map, reflect.Slice, reflect.String:
		flags[4] = v.Len() == 0
	}
	return
}

func c01Omits(o *Out) {
	bit := func(b bool) byte {
		if b {
			return '1'
		}
		return '0'
	}
	word := func(kept bool) []byte {
		if kept {
			return []byte("kept")
		}
		return []byte("omitted")
	}
	seen := map[string][2]bool{}
	for _, c := range c01OmitsCases() {
		for _, first := range []bool{true, false} {
			fs := []reflect.StructField{{Name: "A", Type: c.t, Tag: `json:"a,omitempty"`}, {Name: "Z", Type: reflect.TypeOf(0)}}
			if !first {
				fs[0], fs[1] = fs[1], fs[0]
			}
			st := reflect.StructOf(fs)
			for _, v := range c.vals {
				for _, through := range []string{"value", "pointer", "interface"} {
					s := reflect.New(st)
					s.Elem().FieldByName("A").Set(v)
					s.Elem().FieldByName("Z").SetInt(5)
					var arg interface{}
					switch through {
					case "value":
						arg = s.Elem().Interface()
					case "pointer":
						arg = s.Interface()
					default:
						arg = []interface{}{s.Elem().Interface()}
					}
					o.count("omitempty_marshaler_member_cases", 1)
					got, gerr := c01Safe(func() ([]byte, error) { return gojson.Marshal(arg) })
					want, werr := c01Safe(func() ([]byte, error) { return stdjson.Marshal(arg) })
					kind, fl := omObserve(v)
					desc := map[string]string{"type": c.t.String(), "kind": kind, "first_member": string(bit(first)), "reached_through": through,
						"got": clip(string(got)), "want": clip(string(want))}
					if gerr != nil || werr != nil {
						if (gerr != nil) != (werr != nil) {
							o.violation("C01", "omitempty on a marshaler-typed member: one side fails", desc)
						}
						continue
					}
					gk, wk := bytes.Contains(got, []byte(`"a":`)), bytes.Contains(want, []byte(`"a":`))
					o.hist("omitempty_marshaler_member:"+kind, map[bool]string{true: "kept", false: "omitted"}[gk])
					flags := []byte{bit(first), bit(fl[0]), bit(fl[1]), bit(fl[2]), bit(fl[3]), bit(fl[4])}
					key := kind + " " + string(flags)
					if prev, ok := seen[key]; ok && prev != [2]bool{gk, wk} {
						o.violation("C01", "omitempty on a marshaler-typed member: two values with the same observations, one kept and one left out", desc)
					}
					seen[key] = [2]bool{gk, wk}
					o.emit("C", "c01.omits", [][]byte{[]byte(kind), flags}, word(gk), word(wk), true)
					if gk == wk && !bytes.Equal(got, want) {
						o.violation("C01", "omitempty on a marshaler-typed member: the text differs from encoding/json beyond the member being there", desc)
					}
				}
			}
		}
	}
}
