package main

// C19: field queries project exactly the selected fields.  For struct values of
// the C01 grammar the oracle is encoding/json's output restricted to the
// selected keys (recursively through sub-queries; a selected key without a
// sub-query keeps its whole value; slices, arrays, maps, pointers and
// interfaces are looked through).  Queries: random subsets of the keys that
// occur at each level up to depth 3 plus names that do not exist; several
// queries and the unfiltered encoding are used on the same type in random
// orders, twice; a query rebuilt from its own QueryString must behave the same.

import (
	"bytes"
	"context"
	stdjson "encoding/json"
	"fmt"
	"math/rand"
	"reflect"
	"sort"
	"strconv"
	"strings"

	gojson "github.com/goccy/go-json"
)

func init() { props["C19"] = runC19 }

// ---- an ordered JSON tree over encoding/json's compact output ----

type c19Node struct {
	kind  byte // 'o' 'a' 's' (scalar, raw text)
	raw   string
	keys  []string // decoded
	rkeys []string // raw key tokens
	items []*c19Node
}

func c19Parse(b []byte, i int) (*c19Node, int) {
	switch b[i] {
	case '{':
		n := &c19Node{kind: 'o'}
		i++
		if b[i] == '}' {
			return n, i + 1
		}
		for {
			j := c19StrEnd(b, i)
			var k string
			stdjson.Unmarshal(b[i:j], &k)
			n.keys = append(n.keys, k)
			n.rkeys = append(n.rkeys, string(b[i:j]))
			var v *c19Node
			v, i = c19Parse(b, j+1)
			n.items = append(n.items, v)
			if b[i] == ',' {
				i++
				continue
			}
			return n, i + 1
		}
	case '[':
		n := &c19Node{kind: 'a'}
		i++
		if b[i] == ']' {
			return n, i + 1
		}
		for {
			var v *c19Node
			v, i = c19Parse(b, i)
			n.items = append(n.items, v)
			if b[i] == ',' {
				i++
				continue
			}
			return n, i + 1
		}
	case '"':
		j := c19StrEnd(b, i)
		return &c19Node{kind: 's', raw: string(b[i:j])}, j
	}
	j := i
	for j < len(b) && b[j] != ',' && b[j] != ']' && b[j] != '}' {
		j++
	}
	return &c19Node{kind: 's', raw: string(b[i:j])}, j
}

func c19StrEnd(b []byte, i int) int {
	j := i + 1
	for b[j] != '"' {
		if b[j] == '\\' {
			j++
		}
		j++
	}
	return j + 1
}

type c19Q struct {
	name string
	sub  []*c19Q // nil: the whole value
}

func (n *c19Node) render(b *bytes.Buffer) {
	switch n.kind {
	case 's':
		b.WriteString(n.raw)
	case 'a':
		b.WriteByte('[')
		for i, it := range n.items {
			if i > 0 {
				b.WriteByte(',')
			}
			it.render(b)
		}
		b.WriteByte(']')
	case 'o':
		b.WriteByte('{')
		for i, it := range n.items {
			if i > 0 {
				b.WriteByte(',')
			}
			b.WriteString(n.rkeys[i])
			b.WriteByte(':')
			it.render(b)
		}
		b.WriteByte('}')
	}
}

// project: the members of struct-made objects restricted to the query.  The walk follows the Go value beside the
// tree: it tells objects made by structs from objects made by maps (a query looks through maps, it does not select
// map keys), finds the dynamic type inside an interface, and stops at values that write themselves (Marshaler,
// TextMarshaler: opaque to a query).  c19Unknown is set when the walk loses the value (map keys it cannot match).
var c19Unknown bool

var (
	c19MarshalerT     = reflect.TypeOf((*stdjson.Marshaler)(nil)).Elem()
	c19TextMarshalerT = reflect.TypeOf((*interface{ MarshalText() ([]byte, error) })(nil)).Elem()
)

func c19Opaque(t reflect.Type) bool {
	if t.Kind() == reflect.Interface {
		return false
	}
	return t.Implements(c19MarshalerT) || t.Implements(c19TextMarshalerT) ||
		reflect.PtrTo(t).Implements(c19MarshalerT) || reflect.PtrTo(t).Implements(c19TextMarshalerT)
}

func c19Project(n *c19Node, v reflect.Value, qs []*c19Q) *c19Node {
	for v.IsValid() && (v.Kind() == reflect.Ptr || v.Kind() == reflect.Interface) {
		if c19Opaque(v.Type()) {
			return n
		}
		if v.IsNil() {
			return n // null
		}
		v = v.Elem()
	}
	if !v.IsValid() {
		if n.kind != 's' {
			c19Unknown = true
		}
		return n
	}
	if c19Opaque(v.Type()) {
		return n
	}
	switch v.Kind() {
	case reflect.Slice, reflect.Array:
		if n.kind != 'a' || len(n.items) != v.Len() {
			return n // null, or []byte as a string
		}
		r := &c19Node{kind: 'a'}
		for i, it := range n.items {
			r.items = append(r.items, c19Project(it, v.Index(i), qs))
		}
		return r
	case reflect.Map:
		if n.kind != 'o' {
			return n
		}
		byKey := map[string]reflect.Value{}
		it := v.MapRange()
		for it.Next() {
			k := it.Key()
			switch k.Kind() {
			case reflect.String:
				byKey[k.String()] = it.Value()
			case reflect.Int, reflect.Int8, reflect.Int16, reflect.Int32, reflect.Int64:
				byKey[strconv.FormatInt(k.Int(), 10)] = it.Value()
			case reflect.Uint, reflect.Uint8, reflect.Uint16, reflect.Uint32, reflect.Uint64, reflect.Uintptr:
				byKey[strconv.FormatUint(k.Uint(), 10)] = it.Value()
			}
		}
		if c19Opaque(v.Type().Key()) {
			byKey = nil
		}
		r := &c19Node{kind: 'o'}
		for i, it := range n.items {
			r.keys = append(r.keys, n.keys[i])
			r.rkeys = append(r.rkeys, n.rkeys[i])
			r.items = append(r.items, c19Project(it, byKey[n.keys[i]], qs))
		}
		return r
	case reflect.Struct:
		if n.kind != 'o' {
			return n
		}
		r := &c19Node{kind: 'o'}
		for i, it := range n.items {
			for _, q := range qs {
				if q.name != n.keys[i] {
					continue
				}
				x := it
				if q.sub != nil {
					x = c19Project(it, c19FieldValue(v, n.keys[i]), q.sub)
				}
				r.keys = append(r.keys, n.keys[i])
				r.rkeys = append(r.rkeys, n.rkeys[i])
				r.items = append(r.items, x)
				break
			}
		}
		return r
	}
	return n
}

func c19FieldValue(v reflect.Value, key string) reflect.Value {
	t := v.Type()
	for i := 0; i < t.NumField(); i++ {
		f := t.Field(i)
		name := f.Name
		if tag := f.Tag.Get("json"); tag != "" {
			if p := strings.Split(tag, ",")[0]; p != "" {
				name = p
			}
		}
		if name == key {
			return v.Field(i)
		}
	}
	return reflect.Value{}
}

func c19FieldType(t reflect.Type, key string) reflect.Type {
	for i := 0; i < t.NumField(); i++ {
		f := t.Field(i)
		name := f.Name
		if tag := f.Tag.Get("json"); tag != "" {
			if p := strings.Split(tag, ",")[0]; p != "" {
				name = p
			}
		}
		if name == key {
			return f.Type
		}
	}
	return nil
}

// struct trees without embedded fields and without the pointer-receiver marshalers of C01's open findings; the
// types met inside interfaces count too
func c19ValueOK(v reflect.Value) bool {
	ok := true
	tgValueTypes(v, 0, func(t reflect.Type) {
		if tgHasPtrRecvMarshaler(t) {
			ok = false
		}
		if t.Kind() == reflect.Struct && !c19Opaque(t) {
			for i := 0; i < t.NumField(); i++ {
				if t.Field(i).Anonymous {
					ok = false
				}
			}
		}
	})
	return ok
}

// c19GenQuery draws a query over the field tree of the value: the keys of the struct reached through pointers,
// slices, arrays, maps and interfaces (first element / smallest key / dynamic value).
func c19GenQuery(r *rand.Rand, v reflect.Value, t reflect.Type, depth int) []*c19Q {
	for {
		if c19Opaque(t) {
			return nil
		}
		switch t.Kind() {
		case reflect.Ptr:
			t = t.Elem()
			if v.IsValid() && !v.IsNil() {
				v = v.Elem()
			} else {
				v = reflect.Value{}
			}
			continue
		case reflect.Slice, reflect.Array:
			t = t.Elem()
			if v.IsValid() && v.Len() > 0 {
				v = v.Index(0)
			} else {
				v = reflect.Value{}
			}
			continue
		case reflect.Map:
			t = t.Elem()
			if v.IsValid() && v.Len() > 0 {
				keys := v.MapKeys()
				sort.Slice(keys, func(i, j int) bool { return fmt.Sprint(keys[i]) < fmt.Sprint(keys[j]) })
				v = v.MapIndex(keys[0])
			} else {
				v = reflect.Value{}
			}
			continue
		case reflect.Interface:
			if !v.IsValid() || v.IsNil() {
				return nil
			}
			v = v.Elem()
			t = v.Type()
			continue
		}
		break
	}
	if t.Kind() != reflect.Struct {
		return nil
	}
	var qs []*c19Q
	for i := 0; i < t.NumField(); i++ {
		f := t.Field(i)
		if f.PkgPath != "" {
			continue
		}
		name := f.Name
		if tag := f.Tag.Get("json"); tag != "" {
			p := strings.Split(tag, ",")[0]
			if p == "-" {
				continue
			}
			if p != "" {
				name = p
			}
		}
		if r.Intn(2) == 0 {
			continue
		}
		q := &c19Q{name: name}
		if depth < 3 && r.Intn(2) == 0 {
			var fv reflect.Value
			if v.IsValid() {
				fv = v.Field(i)
			}
			if sub := c19GenQuery(r, fv, f.Type, depth+1); len(sub) > 0 {
				q.sub = sub
			}
		}
		qs = append(qs, q)
	}
	if r.Intn(3) == 0 {
		qs = append(qs, &c19Q{name: "noSuchField" + strconv.Itoa(r.Intn(9))})
	}
	if qs == nil {
		qs = []*c19Q{}
	}
	return qs
}

func c19Build(qs []*c19Q) []gojson.FieldQueryString {
	var out []gojson.FieldQueryString
	for _, q := range qs {
		if q.sub == nil {
			out = append(out, gojson.FieldQueryString(q.name))
		} else {
			out = append(out, gojson.BuildSubFieldQuery(q.name).Fields(c19Build(q.sub)...))
		}
	}
	return out
}

func c19Show(qs []*c19Q) string {
	var parts []string
	for _, q := range qs {
		if q.sub == nil {
			parts = append(parts, q.name)
		} else {
			parts = append(parts, q.name+"{"+c19Show(q.sub)+"}")
		}
	}
	return strings.Join(parts, ",")
}

// queries rebuilt from query strings are kept: building later ones must not change them
type c19Kept struct {
	q  *gojson.FieldQuery
	qs gojson.FieldQueryString
}

var c19Rebuilt []c19Kept

func c19CheckKept(o *Out) {
	for _, k := range c19Rebuilt {
		now, err := k.q.QueryString()
		o.count("kept_queries_rechecked", 1)
		if err != nil || now != k.qs {
			o.violation("C19", "a query built from a query string changed when other queries were built later", map[string]string{
				"built_from": string(k.qs), "prints_now": string(now), "err": fmt.Sprint(err)})
			return
		}
	}
}

// query strings with sub field queries that have no fields ( {"name":null} ): each selects its own field as a whole
func c19WholeFieldSubQueries(o *Out) {
	type inner struct {
		P int `json:"p"`
		Q int `json:"q"`
	}
	type doc struct {
		A inner  `json:"a"`
		B inner  `json:"b"`
		C []int  `json:"c"`
		D string `json:"d"`
	}
	v := doc{inner{1, 2}, inner{3, 4}, []int{5}, "x"}
	cases := []struct{ qs, want string }{
		{`["d",{"a":null}]`, `{"a":{"p":1,"q":2},"d":"x"}`},
		{`["d",{"b":null}]`, `{"b":{"p":3,"q":4},"d":"x"}`},
		{`[{"a":null},{"b":null},"c"]`, `{"a":{"p":1,"q":2},"b":{"p":3,"q":4},"c":[5]}`},
		{`[{"a":["q"]},{"b":null}]`, `{"a":{"q":2},"b":{"p":3,"q":4}}`},
		{`[{"b":null},{"a":null}]`, `{"a":{"p":1,"q":2},"b":{"p":3,"q":4}}`},
	}
	var built []*gojson.FieldQuery
	for _, c := range cases {
		q, err := gojson.FieldQueryString(c.qs).Build()
		if err != nil {
			o.violation("C19", "a query string with a sub field query without fields is refused", map[string]string{"query_string": c.qs, "err": err.Error()})
			return
		}
		built = append(built, q)
		c19Rebuilt = append(c19Rebuilt, c19Kept{q, func() gojson.FieldQueryString { s, _ := q.QueryString(); return s }()})
	}
	// used after all of them exist, each on a type/query pair not seen before
	for i, c := range cases {
		ctx := gojson.SetFieldQueryToContext(context.Background(), built[i])
		got, err := c01Safe(func() ([]byte, error) { return gojson.MarshalContext(ctx, v) })
		o.count("whole_field_sub_query_cases", 1)
		if err != nil || !tgSameJSON(got, []byte(c.want)) {
			o.violation("C19", "a sub field query without fields does not select its own field as a whole", map[string]string{
				"query_string": c.qs, "got": string(got), "want": c.want, "err": fmt.Sprint(err)})
		}
	}
}

func runC19(o *Out) {
	c19WholeFieldSubQueries(o)
	c19Embedded(o)
	defer c19CheckKept(o)
	r := o.rng
	ntypes := 500
	if o.tier == "thorough" {
		ntypes = 6000
	}
	made := 0
	for attempts := 0; made < ntypes && attempts < ntypes*40; attempts++ {
		t := tgStruct(r, 2, tgOpts{named: false})
		if tgKnownBadAnywhere(reflect.PtrTo(t), 0) != "" {
			continue
		}
		v := reflect.New(t)
		tgValue(r, v.Elem(), 0, []int{0, 20}[made%2], false)
		if c01CrashClass(t, v, 0) != "" || !c19ValueOK(v) {
			continue
		}
		made++
		c19Value(o, r, t, v, 5)
	}
	nhost := 300
	if o.tier == "thorough" {
		nhost = 4000
	}
	for i := 0; i < nhost; i++ {
		h := c19HostVal(r)
		c19Value(o, r, reflect.TypeOf(*h), reflect.ValueOf(h), 8)
	}
	o.count("interface_and_context_marshaler_values", int64(nhost))
	o.count("struct_types", int64(made))
	_ = sort.Strings
}

// c19Value: several queries and the unfiltered encoding on one value, in random orders, twice
func c19Value(o *Out, r *rand.Rand, t reflect.Type, v reflect.Value, nq int) {
	full, err := stdjson.Marshal(v.Interface())
	if err != nil {
		return
	}
	tree, _ := c19Parse(full, 0)
	// the unfiltered encoding must agree first (otherwise the difference is C01's)
	if plain, err := gojson.Marshal(v.Interface()); err != nil || !tgSameJSON(plain, full) {
		o.count("types_where_plain_marshal_differs", 1)
		return
	}
	type job struct {
		qs    []*c19Q
		query *gojson.FieldQuery
		want  []byte
	}
	var jobs []job
	for k := 0; k < nq; k++ {
		qs := c19GenQuery(r, v.Elem(), t, 1)
		q, err := gojson.BuildFieldQuery(c19Build(qs)...)
		if err != nil {
			o.violation("C19", "BuildFieldQuery failed", map[string]string{"query": c19Show(qs), "err": err.Error()})
			continue
		}
		var w bytes.Buffer
		c19Unknown = false
		c19Project(tree, v.Elem(), qs).render(&w)
		if c19Unknown {
			o.count("queries_skipped_oracle_lost_the_value", 1)
			continue
		}
		jobs = append(jobs, job{qs, q, w.Bytes()})
	}
	jobs = append(jobs, job{nil, nil, full})
	for pass := 0; pass < 2; pass++ {
		for _, k := range r.Perm(len(jobs)) {
			j := jobs[k]
			o.current(map[string]string{"property": "C19", "type": t.String(), "value": c01Describe(t, v), "query": c19Show(j.qs)})
			var got []byte
			var err error
			if j.query == nil {
				got, err = c01Safe(func() ([]byte, error) { return gojson.MarshalContext(context.Background(), v.Interface()) })
			} else {
				ctx := gojson.SetFieldQueryToContext(context.Background(), j.query)
				if pass == 1 && k%2 == 0 {
					// the other observation point: Encoder.EncodeContext
					got, err = c01Safe(func() ([]byte, error) {
						var buf bytes.Buffer
						e := gojson.NewEncoder(&buf).EncodeContext(ctx, v.Interface())
						return bytes.TrimSuffix(buf.Bytes(), []byte("\n")), e
					})
					o.count("query_encodings_through_encoder", 1)
				} else {
					got, err = c01Safe(func() ([]byte, error) { return gojson.MarshalContext(ctx, v.Interface()) })
				}
			}
			o.count("query_encodings", 1)
			if err != nil || !tgSameJSON(got, j.want) {
				if cls := c19Classify(t, v, j.qs); cls != "" {
					o.known(cls, c19Show(j.qs)+" on "+clipN(t.String(), 200))
					continue
				}
				o.violation("C19", "a field query did not project exactly the selected fields", map[string]string{
					"type": clipN(t.String(), 500), "value": c01Describe(t, v), "query": c19Show(j.qs), "pass": strconv.Itoa(pass), "err": fmt.Sprint(err),
					"got": clipN(string(got), 400), "want": clipN(string(j.want), 400),
					"got_at_difference": around(got, firstDiff(got, j.want)), "want_at_difference": around(j.want, firstDiff(got, j.want))})
				continue
			}
			if pass == 0 {
				c19Emit(o, t, v, tree, j.qs, j.query != nil, got)
			}
			// the query rebuilt from its own QueryString
			if j.query != nil && pass == 0 {
				qs, err := j.query.QueryString()
				if err != nil {
					o.violation("C19", "QueryString failed", map[string]string{"query": c19Show(j.qs), "err": err.Error()})
					continue
				}
				q2, err := qs.Build()
				if err != nil {
					o.violation("C19", "a query cannot be rebuilt from its own QueryString", map[string]string{"query": c19Show(j.qs), "query_string": string(qs), "err": err.Error()})
					continue
				}
				c19Rebuilt = append(c19Rebuilt, c19Kept{q2, qs})
				if qs2, err := q2.QueryString(); err == nil {
					var qw strings.Builder
					c19QueryWire(&qw, "", j.qs)
					same := "other"
					if qs2 == qs {
						same = "same"
					}
					if c, ok := tgCanon([]byte(qs)); ok {
						if c == "null" {
							c = "[]" // a query without fields holds a nil slice or an empty one; the model's lists do not tell them apart
						}
						o.emit("A", "c19.qs", [][]byte{[]byte(qw.String())}, []byte(c+" "+same), nil, false)
						o.count("model_query_string_cases", 1)
					}
				}
				ctx := gojson.SetFieldQueryToContext(context.Background(), q2)
				got2, err := c01Safe(func() ([]byte, error) { return gojson.MarshalContext(ctx, v.Interface()) })
				o.count("rebuilt_query_encodings", 1)
				if err != nil || !bytes.Equal(got2, got) {
					o.violation("C19", "a query rebuilt from its own QueryString selects something else", map[string]string{
						"type": clipN(t.String(), 500), "query": c19Show(j.qs), "query_string": string(qs), "got": clipN(string(got2), 300), "want": clipN(string(got), 300)})
				}
			}
		}
	}
}

// the one open finding of C19, as a predicate on the value and the query: a recursive struct type is reached and the
// query has a sub query (the fields below a recursive position are then selected by the first occurrence's query)
func c19Classify(t reflect.Type, v reflect.Value, qs []*c19Q) string {
	hasSub := false
	for _, q := range qs {
		if q.sub != nil {
			hasSub = true
		}
	}
	if !hasSub {
		return ""
	}
	rec := false
	tgValueTypes(v, 0, func(x reflect.Type) {
		switch x {
		case reflect.TypeOf(TgRec{}), reflect.TypeOf(TgMutA{}), reflect.TypeOf(TgMutB{}), reflect.TypeOf(TgRecEmb{}), reflect.TypeOf(TgMutEmbA{}), reflect.TypeOf(TgMutEmbB{}), reflect.TypeOf(TgItem{}), reflect.TypeOf(TgItemLink{}), reflect.TypeOf(TgItemBase{}):
			rec = true
		}
	})
	if rec {
		return "RecursiveTypeSubQuery"
	}
	return ""
}

// ---- a fixed family for what the generated grammar reaches rarely: values inside interfaces, context-aware
// marshalers (which receive the sub query that selected them and pass it on), and both inside containers ----

type C19Leaf struct {
	X int
	Y string
	Z []int
}
type C19In struct {
	A int
	B string
	C *C19Leaf
	D []C19Leaf
	E map[string]C19Leaf
	F interface{}
}

// C19Ctx writes itself through MarshalContext with the context it is given: the query in that context is the one
// that selected this value
type C19Ctx struct {
	X int
	Y string
	L C19Leaf
	I interface{}
}

func (m C19Ctx) MarshalJSON(ctx context.Context) ([]byte, error) {
	type raw C19Ctx
	return gojson.MarshalContext(ctx, raw(m))
}

type C19Namer interface{ Name() string }

func (l C19Leaf) Name() string { return l.Y }

type C19Host struct {
	A  int
	I  interface{}
	J  C19Namer
	M  C19Ctx
	PM *C19Ctx
	SM []C19Ctx
	MM map[string]C19Ctx
	S  []interface{}
	P  *C19In
	IM map[string]interface{}
}

func c19Leaf(r *rand.Rand) C19Leaf {
	return C19Leaf{X: r.Intn(100), Y: tgStrings[r.Intn(len(tgStrings))], Z: []int{r.Intn(9)}}
}

func c19InVal(r *rand.Rand, depth int) C19In {
	in := C19In{A: r.Intn(100), B: "b", D: []C19Leaf{c19Leaf(r), c19Leaf(r)}, E: map[string]C19Leaf{"k1": c19Leaf(r), "k0": c19Leaf(r)}}
	if r.Intn(3) > 0 {
		l := c19Leaf(r)
		in.C = &l
	}
	if depth < 2 {
		in.F = c19Dyn(r, depth+1)
	}
	return in
}

func c19CtxVal(r *rand.Rand, depth int) C19Ctx {
	c := C19Ctx{X: r.Intn(100), Y: "y", L: c19Leaf(r)}
	if depth < 2 {
		c.I = c19Dyn(r, depth+1)
	}
	return c
}

func c19Dyn(r *rand.Rand, depth int) interface{} {
	switch r.Intn(10) {
	case 0:
		return nil
	case 1:
		return 1.5
	case 2:
		return c19Leaf(r)
	case 3:
		l := c19Leaf(r)
		return &l
	case 4:
		return c19InVal(r, depth)
	case 5:
		in := c19InVal(r, depth)
		return &in
	case 6:
		return []C19In{c19InVal(r, depth)}
	case 7:
		return map[string]C19Leaf{"m": c19Leaf(r)}
	case 8:
		return c19CtxVal(r, depth)
	default:
		return []interface{}{c19Leaf(r), "s", c19InVal(r, depth)}
	}
}

func c19HostVal(r *rand.Rand) *C19Host {
	h := &C19Host{A: r.Intn(100), I: c19Dyn(r, 0), M: c19CtxVal(r, 0)}
	if r.Intn(3) > 0 {
		h.J = c19Leaf(r)
	}
	if r.Intn(3) > 0 {
		c := c19CtxVal(r, 0)
		h.PM = &c
	}
	for i := r.Intn(3); i > 0; i-- {
		h.SM = append(h.SM, c19CtxVal(r, 1))
	}
	if r.Intn(2) == 0 {
		h.MM = map[string]C19Ctx{"q": c19CtxVal(r, 1), "p": c19CtxVal(r, 1)}
	}
	for i := r.Intn(3); i > 0; i-- {
		h.S = append(h.S, c19Dyn(r, 1))
	}
	if r.Intn(3) > 0 {
		in := c19InVal(r, 0)
		h.P = &in
	}
	if r.Intn(2) == 0 {
		h.IM = map[string]interface{}{"x": c19Dyn(r, 1), "w": c19Dyn(r, 1)}
	}
	return h
}

// ---- the same triples for the Coq model (c19.sel): code of the type, value, query in the wire formats of
// coq/Model/Query.v.  Leaves and keys are canonical texts (tgCanon), the implementation's output is canonicalised
// the same way, so the comparison is exact. ----

var c19CtxMarshalerT = reflect.TypeOf((*interface {
	MarshalJSON(context.Context) ([]byte, error)
})(nil)).Elem()

func c19KeyBody(name string) string {
	b, _ := stdjson.Marshal(name)
	c, _ := tgCanon(b)
	return c[1 : len(c)-1]
}

func c19Fields(t reflect.Type) (idx []int, keys []string) {
	for i := 0; i < t.NumField(); i++ {
		f := t.Field(i)
		if f.PkgPath != "" {
			continue
		}
		name := f.Name
		if tag := f.Tag.Get("json"); tag != "" {
			p := strings.Split(tag, ",")[0]
			if p == "-" && !strings.Contains(tag, ",") {
				continue
			}
			if p != "" {
				name = p
			}
		}
		idx = append(idx, i)
		keys = append(keys, name)
	}
	return
}

func c19CodeWire(w *strings.Builder, t reflect.Type, depth int) bool {
	if depth > 12 {
		return false
	}
	if t.Kind() != reflect.Interface && c19Opaque(t) {
		w.WriteByte('s')
		return true
	}
	switch t.Kind() {
	case reflect.Ptr:
		w.WriteByte('p')
		return c19CodeWire(w, t.Elem(), depth+1)
	case reflect.Slice:
		if t.Elem().Kind() == reflect.Uint8 && !c19Opaque(t.Elem()) {
			w.WriteByte('s')
			return true
		}
		w.WriteByte('l')
		return c19CodeWire(w, t.Elem(), depth+1)
	case reflect.Array:
		w.WriteByte('l')
		return c19CodeWire(w, t.Elem(), depth+1)
	case reflect.Map:
		w.WriteByte('m')
		return c19CodeWire(w, t.Elem(), depth+1)
	case reflect.Interface:
		w.WriteByte('i')
		return true
	case reflect.Struct:
		if t.Implements(c19CtxMarshalerT) {
			w.WriteByte('i')
			return true
		}
		return c19StructCodeWire(w, t, depth)
	}
	w.WriteByte('s')
	return true
}

func c19StructCodeWire(w *strings.Builder, t reflect.Type, depth int) bool {
	idx, keys := c19Fields(t)
	seen := map[string]bool{}
	fmt.Fprintf(w, "r%d:", len(idx))
	for j, i := range idx {
		if seen[keys[j]] {
			return false // two fields with one name: encoding/json's conflict rules, not a question of queries
		}
		seen[keys[j]] = true
		k := c19KeyBody(keys[j])
		fmt.Fprintf(w, "%d:%s", len(k), k)
		if !c19CodeWire(w, t.Field(i).Type, depth+1) {
			return false
		}
	}
	return true
}

func c19LeafWire(w *strings.Builder, n *c19Node) bool {
	var b bytes.Buffer
	n.render(&b)
	c, ok := tgCanon(b.Bytes())
	if !ok {
		return false
	}
	fmt.Fprintf(w, "N%d:%s", len(c), c)
	return true
}

func c19ValWire(w *strings.Builder, n *c19Node, v reflect.Value, depth int) bool {
	if depth > 40 || !v.IsValid() {
		return false
	}
	t := v.Type()
	if t.Kind() != reflect.Interface && c19Opaque(t) {
		return c19LeafWire(w, n)
	}
	switch v.Kind() {
	case reflect.Ptr:
		if v.IsNil() {
			w.WriteByte('Z')
			return true
		}
		w.WriteByte('P')
		return c19ValWire(w, n, v.Elem(), depth+1)
	case reflect.Interface:
		if v.IsNil() {
			w.WriteByte('Z')
			return true
		}
		w.WriteByte('D')
		if !c19CodeWire(w, v.Elem().Type(), 0) {
			return false
		}
		return c19ValWire(w, n, v.Elem(), depth+1)
	case reflect.Slice, reflect.Array:
		if n.kind != 'a' || len(n.items) != v.Len() || (t.Kind() == reflect.Slice && t.Elem().Kind() == reflect.Uint8) {
			return c19LeafWire(w, n)
		}
		fmt.Fprintf(w, "A%d:", v.Len())
		for i, it := range n.items {
			if !c19ValWire(w, it, v.Index(i), depth+1) {
				return false
			}
		}
		return true
	case reflect.Map:
		if n.kind != 'o' {
			return c19LeafWire(w, n)
		}
		byKey := map[string]reflect.Value{}
		it := v.MapRange()
		for it.Next() {
			k := it.Key()
			switch k.Kind() {
			case reflect.String:
				byKey[k.String()] = it.Value()
			case reflect.Int, reflect.Int8, reflect.Int16, reflect.Int32, reflect.Int64:
				byKey[strconv.FormatInt(k.Int(), 10)] = it.Value()
			case reflect.Uint, reflect.Uint8, reflect.Uint16, reflect.Uint32, reflect.Uint64, reflect.Uintptr:
				byKey[strconv.FormatUint(k.Uint(), 10)] = it.Value()
			}
		}
		if c19Opaque(t.Key()) || len(byKey) != len(n.items) {
			return false
		}
		fmt.Fprintf(w, "M%d:", len(n.items))
		for i, item := range n.items {
			k := c19KeyBody(n.keys[i])
			fmt.Fprintf(w, "%d:%s", len(k), k)
			x, ok := byKey[n.keys[i]]
			if !ok || !c19ValWire(w, item, x, depth+1) {
				return false
			}
		}
		return true
	case reflect.Struct:
		if n.kind != 'o' {
			return false
		}
		if t.Implements(c19CtxMarshalerT) {
			w.WriteByte('D')
			if !c19StructCodeWire(w, t, 0) {
				return false
			}
		}
		idx, keys := c19Fields(t)
		fmt.Fprintf(w, "R%d:", len(idx))
		for j, i := range idx {
			at := -1
			for x, k := range n.keys {
				if k == keys[j] {
					at = x
				}
			}
			k := c19KeyBody(keys[j])
			if at < 0 {
				fmt.Fprintf(w, "1%d:%sZ", len(k), k)
				continue
			}
			fmt.Fprintf(w, "0%d:%s", len(k), k)
			if !c19ValWire(w, n.items[at], v.Field(i), depth+1) {
				return false
			}
		}
		return true
	}
	return c19LeafWire(w, n)
}

func c19QueryWire(w *strings.Builder, name string, qs []*c19Q) {
	k := ""
	if name != "" {
		k = c19KeyBody(name)
	}
	fmt.Fprintf(w, "Q%d:%s%d:", len(k), k, len(qs))
	for _, q := range qs {
		c19QueryWire(w, q.name, q.sub)
	}
}

func c19Emit(o *Out, t reflect.Type, v reflect.Value, tree *c19Node, qs []*c19Q, hasQuery bool, got []byte) {
	var cw, vw, qw strings.Builder
	if !c19CodeWire(&cw, t, 0) || !c19ValWire(&vw, tree, v.Elem(), 0) {
		o.count("model_cases_skipped_no_wire", 1)
		return
	}
	if hasQuery {
		c19QueryWire(&qw, "", qs)
	}
	canon, ok := tgCanon(got)
	if !ok {
		return
	}
	o.emit("A", "c19.sel", [][]byte{[]byte(cw.String()), []byte(vw.String()), []byte(qw.String())}, []byte(canon), nil, false)
	o.count("model_projection_cases", 1)
}
