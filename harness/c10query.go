package main

// C10: first use of field queries from several goroutines.  Every round two (or more) goroutines, released
// together, each encode the same value with a query nobody has used before; the queries restrict the same
// interface-typed (or marshaler-typed) field by different sub queries.  Each must get its own projection -- and
// must still get it when the same query is used alone afterwards (a wrong program published under the query's
// hash stays wrong).

import (
	"context"
	"fmt"
	"runtime"
	"sync"

	gojson "github.com/goccy/go-json"
)

type c10QBody struct {
	A int `json:"A"`
	B int `json:"B"`
	C int `json:"C"`
}
type c10QDoc struct {
	ID   int         `json:"ID"`
	Body interface{} `json:"Body"`
	Pad  int         `json:"Pad"`
	List []interface{}
}

func c10QueryFirstUse(o *Out) {
	old := runtime.GOMAXPROCS(0)
	defer runtime.GOMAXPROCS(old)
	rounds := 400
	if o.tier == "thorough" {
		rounds = 6000
	}
	doc := c10QDoc{ID: 7, Body: c10QBody{1, 2, 3}, List: []interface{}{c10QBody{4, 5, 6}}}
	subs := []string{"A", "B", "C"}
	want := map[string]string{"A": `{"ID":7,"Body":{"A":1}}`, "B": `{"ID":7,"Body":{"B":2}}`, "C": `{"ID":7,"Body":{"C":3}}`}
	bad := 0
	for round := 0; round < rounds && bad < 3; round++ {
		runtime.GOMAXPROCS([]int{2, 4, 16}[round%3])
		n := 2 + round%2
		qs := make([]*gojson.FieldQuery, n)
		for g := 0; g < n; g++ {
			// a name that selects nothing makes the query (and its hash) new
			q, err := gojson.BuildFieldQuery("ID", gojson.FieldQueryString(fmt.Sprintf("pad_%d_%d_%d", o.seed, round, g)), gojson.BuildSubFieldQuery("Body").Fields(gojson.FieldQueryString(subs[g])))
			if err != nil {
				o.violation("C10", "BuildFieldQuery failed", map[string]string{"err": err.Error()})
				return
			}
			qs[g] = q
		}
		got := make([]string, n)
		var wg sync.WaitGroup
		start := make(chan struct{})
		for g := 0; g < n; g++ {
			wg.Add(1)
			go func(g int) {
				defer wg.Done()
				<-start
				b, err := gojson.MarshalContext(gojson.SetFieldQueryToContext(context.Background(), qs[g]), doc)
				if err != nil {
					got[g] = "E " + err.Error()
					return
				}
				got[g] = string(b)
			}(g)
		}
		close(start)
		wg.Wait()
		o.count("query_first_use_rounds", 1)
		for g := 0; g < n; g++ {
			alone, _ := gojson.MarshalContext(gojson.SetFieldQueryToContext(context.Background(), qs[g]), doc)
			if got[g] != want[subs[g]] || string(alone) != want[subs[g]] {
				bad++
				o.violation("C10", "goroutines using new field queries at the same time do not each get their own projection", map[string]string{
					"round": fmt.Sprint(round), "goroutine": fmt.Sprint(g), "sub_query": "Body{" + subs[g] + "}", "got": got[g], "alone_afterwards": string(alone), "want": want[subs[g]]})
			}
		}
	}
	// the sequential shadow of the same defect: the field as a whole after the field restricted
	q1, _ := gojson.BuildFieldQuery("ID", gojson.FieldQueryString(fmt.Sprintf("seq_%d", o.seed)), gojson.BuildSubFieldQuery("Body").Fields("A"))
	q2, _ := gojson.BuildFieldQuery("ID", gojson.FieldQueryString(fmt.Sprintf("seq2_%d", o.seed)), "Body")
	b1, _ := gojson.MarshalContext(gojson.SetFieldQueryToContext(context.Background(), q1), doc)
	b2, _ := gojson.MarshalContext(gojson.SetFieldQueryToContext(context.Background(), q2), doc)
	if string(b1) != `{"ID":7,"Body":{"A":1}}` || string(b2) != `{"ID":7,"Body":{"A":1,"B":2,"C":3}}` {
		o.violation("C10", "a field selected as a whole after the same field restricted by a sub query", map[string]string{"restricted": string(b1), "whole": string(b2)})
	}
}
