package main

// C10: all package functions are safe under concurrent use.  G goroutines
// (2..64) under GOMAXPROCS 1..16 run a mix of operations over batches of types
// that no goroutine has used before the start barrier (cold caches); every
// result is compared with what the same call returns alone (oracle computed
// single-threaded with encoding/json before the goroutines start).  The same
// program runs in the race build (C10child), where the race detector's reports
// are collected from its log files; a hang is a violation too (watchdog).

import (
	"bytes"
	"context"
	stdjson "encoding/json"
	"fmt"
	"math/rand"
	"os"
	"os/exec"
	"path/filepath"
	"reflect"
	"runtime"
	"strconv"
	"strings"
	"sync"
	"sync/atomic"
	"time"

	gojson "github.com/goccy/go-json"
)

func init() {
	props["C10"] = runC10
	props["C10child"] = runC10
}

type c10Op struct {
	kind   int
	typ    reflect.Type
	val    reflect.Value // pointer to the value
	doc    []byte        // input document (decode, compact, indent, valid, path)
	want   []byte        // expected bytes
	wantOK bool
	query  []string
	desc   string
}

const (
	c10Marshal = iota
	c10MarshalIndent
	c10Unmarshal
	c10Encoder
	c10Decoder
	c10Compact
	c10Indent
	c10Valid
	c10Query
	c10Path
	c10NumKinds
)

var c10KindName = []string{"Marshal", "MarshalIndent", "Unmarshal", "Encoder", "Decoder", "Compact", "Indent", "Valid", "MarshalContext+FieldQuery", "Path"}

func c10BigDoc(r *rand.Rand, n int) []byte {
	var b bytes.Buffer
	b.WriteString("[")
	for i := 0; i < n; i++ {
		if i > 0 {
			b.WriteString(" ,\n ")
		}
		fmt.Fprintf(&b, `{ "k%d" : [ %d , "v%d\n" , true ] }`, i, r.Intn(1000000), r.Intn(1000))
	}
	b.WriteString("]")
	return b.Bytes()
}

// run executes the op through go-json and reports a mismatch
func (op *c10Op) run(shared *c10Shared) string {
	switch op.kind {
	case c10Marshal:
		got, err := gojson.Marshal(op.val.Interface())
		if err != nil || !bytes.Equal(got, op.want) {
			return fmt.Sprintf("got %s err %v want %s", clip(string(got)), err, clip(string(op.want)))
		}
	case c10MarshalIndent:
		got, err := gojson.MarshalIndent(op.val.Interface(), "p", "  ")
		if err != nil || !bytes.Equal(got, op.want) {
			return fmt.Sprintf("got %s err %v want %s", clip(string(got)), err, clip(string(op.want)))
		}
	case c10Encoder:
		var b bytes.Buffer
		err := gojson.NewEncoder(&b).Encode(op.val.Interface())
		if err != nil || !bytes.Equal(b.Bytes(), op.want) {
			return fmt.Sprintf("got %s err %v want %s", clip(b.String()), err, clip(string(op.want)))
		}
	case c10Unmarshal, c10Decoder:
		x := reflect.New(op.typ)
		var err error
		if op.kind == c10Unmarshal {
			err = gojson.Unmarshal(op.doc, x.Interface())
		} else {
			err = gojson.NewDecoder(bytes.NewReader(op.doc)).Decode(x.Interface())
		}
		if err != nil {
			return "error " + err.Error()
		}
		back, _ := stdjson.Marshal(x.Interface())
		if !bytes.Equal(back, op.want) {
			return fmt.Sprintf("decoded value re-encodes as %s want %s", clip(string(back)), clip(string(op.want)))
		}
	case c10Compact:
		var b bytes.Buffer
		err := gojson.Compact(&b, op.doc)
		if (err == nil) != op.wantOK || (err == nil && !bytes.Equal(b.Bytes(), op.want)) {
			return fmt.Sprintf("err %v; %d bytes, want %d bytes; first difference at %d", err, b.Len(), len(op.want), firstDiff(b.Bytes(), op.want))
		}
	case c10Indent:
		var b bytes.Buffer
		err := gojson.Indent(&b, op.doc, ">", "\t")
		if (err == nil) != op.wantOK || (err == nil && !bytes.Equal(b.Bytes(), op.want)) {
			return fmt.Sprintf("err %v; %d bytes, want %d bytes; first difference at %d", err, b.Len(), len(op.want), firstDiff(b.Bytes(), op.want))
		}
	case c10Valid:
		if gojson.Valid(op.doc) != op.wantOK {
			return fmt.Sprintf("Valid = %v want %v", !op.wantOK, op.wantOK)
		}
	case c10Query:
		q := shared.query(op.query)
		ctx := gojson.SetFieldQueryToContext(context.Background(), q)
		got, err := gojson.MarshalContext(ctx, op.val.Interface())
		if err != nil || !bytes.Equal(got, op.want) {
			return fmt.Sprintf("query %v got %s err %v want %s", op.query, clip(string(got)), err, clip(string(op.want)))
		}
	case c10Path:
		var got interface{}
		if err := shared.path.Unmarshal(op.doc, &got); err != nil {
			return "Path.Unmarshal error " + err.Error()
		}
		back, _ := stdjson.Marshal(got)
		if !bytes.Equal(back, op.want) {
			return fmt.Sprintf("Path got %s want %s", clip(string(back)), clip(string(op.want)))
		}
	}
	return ""
}

func firstDiff(a, b []byte) int {
	n := len(a)
	if len(b) < n {
		n = len(b)
	}
	for i := 0; i < n; i++ {
		if a[i] != b[i] {
			return i
		}
	}
	return n
}

// handles shared by all goroutines of a round
type c10Shared struct {
	mu      sync.Mutex
	queries map[string]*gojson.FieldQuery
	path    *gojson.Path
}

func (s *c10Shared) query(names []string) *gojson.FieldQuery {
	k := strings.Join(names, ",")
	s.mu.Lock()
	defer s.mu.Unlock()
	return s.queries[k]
}

func c10QueryOracle(t reflect.Type, v reflect.Value, names []string) []byte {
	var fs []reflect.StructField
	var idx []int
	for i := 0; i < t.NumField(); i++ {
		for _, n := range names {
			if t.Field(i).Tag.Get("json") == n {
				fs = append(fs, t.Field(i))
				idx = append(idx, i)
			}
		}
	}
	if len(fs) == 0 {
		return []byte("{}")
	}
	for i := range fs {
		fs[i].Offset = 0
		fs[i].Index = nil
	}
	w := reflect.New(reflect.StructOf(fs)).Elem()
	for i, j := range idx {
		w.Field(i).Set(v.Field(j))
	}
	b, _ := stdjson.Marshal(w.Interface())
	return b
}

func runC10(o *Out) {
	child := os.Args[1] == "C10child"
	if !child {
		c10ColdStarts(o)
	}
	c10QueryFirstUse(o)
	r := o.rng
	type cfg struct{ g, p int }
	cfgs := []cfg{{2, 1}, {4, 2}, {8, 4}, {16, 8}, {64, 16}, {32, 1}, {48, 3}, {3, 16}}
	rounds := len(cfgs)
	if o.tier == "thorough" {
		for i := 0; i < 24; i++ {
			cfgs = append(cfgs, cfg{2 + r.Intn(63), 1 + r.Intn(16)})
		}
		rounds = len(cfgs)
	}
	// cold types are split between the rounds
	perm := r.Perm(len(c14Compiled))
	per := len(perm) / rounds
	if per > 150 {
		per = 150
	}
	bigSizes := []int{1, 8, 200, 3000, 20000}
	if child && o.tier != "thorough" {
		// the race detector slows everything down by an order of magnitude
		per = 30
		bigSizes = []int{1, 8, 200, 3000}
	}
	qper := len(c14Query) / rounds
	var hangs int32
	for ri, c := range cfgs {
		runtime.GOMAXPROCS(c.p)
		shared := &c10Shared{queries: map[string]*gojson.FieldQuery{}}
		shared.path, _ = gojson.CreatePath("$[*].k" + strconv.Itoa(ri))
		var ops []*c10Op
		// value / document operations over this round's cold types
		for _, k := range perm[ri*per : (ri+1)*per] {
			t := c14Compiled[k]
			v := reflect.New(t)
			c14Fill(v.Elem(), r, 0)
			compact, _ := stdjson.Marshal(v.Interface())
			indented, _ := stdjson.MarshalIndent(v.Interface(), "p", "  ")
			plainIndented, _ := stdjson.MarshalIndent(v.Interface(), "", " ")
			ops = append(ops,
				&c10Op{kind: c10Marshal, typ: t, val: v, want: compact, desc: t.String()},
				&c10Op{kind: c10MarshalIndent, typ: t, val: v, want: indented, desc: t.String()},
				&c10Op{kind: c10Encoder, typ: t, val: v, want: append(append([]byte(nil), compact...), '\n'), desc: t.String()},
				&c10Op{kind: c10Unmarshal, typ: t, doc: compact, want: compact, desc: t.String()},
				&c10Op{kind: c10Decoder, typ: t, doc: plainIndented, want: compact, desc: t.String()})
		}
		// field queries: unique queries per goroutine are built below; shared ones here
		qtypes := c14Query[ri*qper : (ri+1)*qper]
		qsets := [][]string{{"a", "c"}, {"b"}, {"a", "b", "c", "d"}, {"d", "a"}, {"c"}, {"b", "d"}}
		for _, names := range qsets {
			var qs []gojson.FieldQueryString
			for _, n := range names {
				qs = append(qs, gojson.FieldQueryString(n))
			}
			q, err := gojson.BuildFieldQuery(qs...)
			if err != nil {
				o.violation("C10", "BuildFieldQuery failed", map[string]string{"err": err.Error()})
				continue
			}
			shared.queries[strings.Join(names, ",")] = q
		}
		for _, t := range qtypes {
			v := reflect.New(t)
			c14Fill(v.Elem(), r, 0)
			for _, names := range qsets {
				ops = append(ops, &c10Op{kind: c10Query, typ: t, val: v, query: names, want: c10QueryOracle(t, v.Elem(), names), desc: t.String()})
			}
		}
		// byte-level operations of different sizes (pooled buffers change hands between goroutines)
		for i := 0; i < 12; i++ {
			n := bigSizes[r.Intn(len(bigSizes))]
			doc := c10BigDoc(r, n)
			if i%5 == 4 {
				doc = doc[:len(doc)-1-r.Intn(len(doc)/2)] // invalid
			}
			var cb, ib bytes.Buffer
			errC := stdjson.Compact(&cb, doc)
			errI := stdjson.Indent(&ib, doc, ">", "\t")
			ops = append(ops,
				&c10Op{kind: c10Compact, doc: doc, want: cb.Bytes(), wantOK: errC == nil, desc: fmt.Sprintf("%d bytes", len(doc))},
				&c10Op{kind: c10Indent, doc: doc, want: ib.Bytes(), wantOK: errI == nil, desc: fmt.Sprintf("%d bytes", len(doc))},
				&c10Op{kind: c10Valid, doc: doc, wantOK: stdjson.Valid(doc), desc: fmt.Sprintf("%d bytes", len(doc))})
			if errC == nil && n <= 200 {
				// expected result of $[*].k<ri>: the members named k<ri> of the elements
				var arr []map[string]interface{}
				stdjson.Unmarshal(doc, &arr)
				var sel []interface{}
				for _, e := range arr {
					if x, ok := e["k"+strconv.Itoa(ri)]; ok {
						sel = append(sel, x)
					}
				}
				var want []byte
				if len(sel) == 1 {
					want, _ = stdjson.Marshal(sel)
					ops = append(ops, &c10Op{kind: c10Path, doc: doc, want: want, desc: fmt.Sprintf("%d bytes", len(doc))})
				}
			}
		}
		o.count("rounds", 1)
		o.count("operations_per_round_distinct", int64(len(ops)))
		o.hist("goroutines", strconv.Itoa(c.g))
		o.hist("gomaxprocs", strconv.Itoa(c.p))
		o.current(map[string]string{"property": "C10", "round": strconv.Itoa(ri), "goroutines": strconv.Itoa(c.g), "gomaxprocs": strconv.Itoa(c.p), "race_build": strconv.FormatBool(child)})
		var wg sync.WaitGroup
		start := make(chan struct{})
		var vmu sync.Mutex
		var executed int64
		for g := 0; g < c.g; g++ {
			wg.Add(1)
			gr := rand.New(rand.NewSource(r.Int63()))
			// a query nobody has used before, on a type everybody uses
			uniq := []string{"a", "b", "c", "d"}[g%4:]
			go func(g int) {
				defer wg.Done()
				defer func() {
					if rec := recover(); rec != nil {
						vmu.Lock()
						o.violation("C10", "panic in a goroutine", map[string]string{"round": strconv.Itoa(ri), "panic": fmt.Sprint(rec)})
						vmu.Unlock()
					}
				}()
				<-start
				order := gr.Perm(len(ops))
				lim := len(order)
				if c.g > 16 {
					lim = len(order) / 2
				}
				for _, k := range order[:lim] {
					op := ops[k]
					if res := op.run(shared); res != "" {
						vmu.Lock()
						o.violation("C10", c10KindName[op.kind]+" returned something else than it returns alone", map[string]string{
							"round": strconv.Itoa(ri), "goroutines": strconv.Itoa(c.g), "gomaxprocs": strconv.Itoa(c.p), "race_build": strconv.FormatBool(child),
							"subject": op.desc, "detail": res})
						vmu.Unlock()
					}
					atomic.AddInt64(&executed, 1)
				}
				// per-goroutine field query built inside the goroutine (first use of its hash happens concurrently)
				var qs []gojson.FieldQueryString
				for _, n := range uniq {
					qs = append(qs, gojson.FieldQueryString(n))
				}
				qs = append(qs, gojson.FieldQueryString(fmt.Sprintf("zz%d_%d", ri, g)))
				if q, err := gojson.BuildFieldQuery(qs...); err == nil && len(qtypes) > 0 {
					ctx := gojson.SetFieldQueryToContext(context.Background(), q)
					for _, t := range qtypes[:len(qtypes)/2+1] {
						v := reflect.New(t)
						got, err := gojson.MarshalContext(ctx, v.Interface())
						want := c10QueryOracle(t, v.Elem(), uniq)
						if err != nil || !bytes.Equal(got, want) {
							vmu.Lock()
							o.violation("C10", "MarshalContext with a goroutine-local FieldQuery returned something else than it returns alone", map[string]string{
								"round": strconv.Itoa(ri), "type": t.String(), "got": clip(string(got)), "want": clip(string(want)), "err": fmt.Sprint(err)})
							vmu.Unlock()
						}
						atomic.AddInt64(&executed, 1)
					}
				}
			}(g)
		}
		done := make(chan struct{})
		go func() { wg.Wait(); close(done) }()
		close(start)
		// a round is given up only when no operation at all completed during a whole window:
		// slow (race build, one processor, a loaded machine) is not stuck
		window := 240 * time.Second
		stuck := false
	WAIT:
		for last := int64(-1); ; {
			select {
			case <-done:
				break WAIT
			case <-time.After(window):
				now := atomic.LoadInt64(&executed)
				if now == last {
					stuck = true
					break WAIT
				}
				last = now
				o.count("slow_round_windows", 1)
			}
		}
		if stuck {
			atomic.AddInt32(&hangs, 1)
			buf := make([]byte, 1<<20)
			n := runtime.Stack(buf, true)
			st := string(buf[:n])
			// keep the goroutines blocked inside the library
			var keep []string
			for _, blk := range strings.Split(st, "\n\n") {
				if strings.Contains(blk, "goccy/go-json") && len(keep) < 3 {
					keep = append(keep, blk[:minInt(len(blk), 1200)]+"...")
				}
			}
			o.violation("C10", "goroutines did not finish (deadlock or livelock)", map[string]string{
				"round": strconv.Itoa(ri), "goroutines": strconv.Itoa(c.g), "gomaxprocs": strconv.Itoa(c.p), "race_build": strconv.FormatBool(child),
				"blocked": strings.Join(keep, "\n---\n")})
		}
		o.count("operations_executed", atomic.LoadInt64(&executed))
		if atomic.LoadInt32(&hangs) > 0 {
			break
		}
	}
	runtime.GOMAXPROCS(16)
	info := gojson.VerifCacheReport()
	for _, p := range append(info.EncProblems, info.DecProblems...) {
		o.violation("C10", "hook: "+p, nil)
	}
	if !child {
		if bin := os.Getenv("VERIF_RACE_BIN"); bin != "" {
			cdir := o.dir + "/race"
			os.MkdirAll(cdir, 0o755)
			cmd := exec.Command(bin, "C10child", o.tier, strconv.FormatInt(o.seed, 10), cdir)
			cmd.Env = append(os.Environ(), "GORACE=halt_on_error=0 exitcode=0 log_path="+cdir+"/racelog")
			var eb bytes.Buffer
			cmd.Stderr, cmd.Stdout = &eb, &eb
			err := cmd.Run()
			o.count("race_build_child_runs", 1)
			if err != nil {
				o.violation("C10", "race-build child failed", map[string]string{"detail": err.Error(), "output": clip(eb.String())})
			}
			mergeChild(o, cdir)
			logs, _ := filepath.Glob(cdir + "/racelog*")
			nrep := 0
			seen := map[string]bool{}
			for _, lf := range logs {
				b, _ := os.ReadFile(lf)
				for _, rep := range strings.Split(string(b), "==================") {
					if !strings.Contains(rep, "DATA RACE") {
						continue
					}
					nrep++
					// identify a report by the library frames of its two accesses
					var frames []string
					for _, ln := range strings.Split(rep, "\n") {
						if strings.Contains(ln, "goccy/go-json") && strings.Contains(ln, "()") && len(frames) < 2 {
							frames = append(frames, strings.TrimSpace(ln))
						}
					}
					key := strings.Join(frames, " | ")
					if seen[key] {
						continue
					}
					seen[key] = true
					o.violation("C10", "race detector report inside the library: "+key, map[string]string{"report": rep[:minInt(len(rep), 2500)]})
				}
			}
			o.count("race_detector_reports", int64(nrep))
		} else {
			o.Notes = append(o.Notes, "VERIF_RACE_BIN not set: race build not exercised")
		}
	}
}

func minInt(a, b int) int {
	if a < b {
		return a
	}
	return b
}
