package main

import (
	"bytes"
	"io"
	"testing/iotest"
	stdjson "encoding/json"
	"fmt"
	"math/big"
	"reflect"
	"regexp"
	"strconv"
	"strings"

	gojson "github.com/goccy/go-json"
)

func init() { props["C16"] = runC16 }

type intKind struct {
	name   string
	bits   int
	signed bool
	typ    reflect.Type
}

var intKinds = []intKind{
	{"int8", 8, true, reflect.TypeOf(int8(0))}, {"int16", 16, true, reflect.TypeOf(int16(0))},
	{"int32", 32, true, reflect.TypeOf(int32(0))}, {"int64", 64, true, reflect.TypeOf(int64(0))},
	{"int", 64, true, reflect.TypeOf(int(0))},
	{"uint8", 8, false, reflect.TypeOf(uint8(0))}, {"uint16", 16, false, reflect.TypeOf(uint16(0))},
	{"uint32", 32, false, reflect.TypeOf(uint32(0))}, {"uint64", 64, false, reflect.TypeOf(uint64(0))},
	{"uint", 64, false, reflect.TypeOf(uint(0))}, {"uintptr", 64, false, reflect.TypeOf(uintptr(0))},
}

// pattern returns the zero-extended two's complement pattern of v in k's width.
func pattern(k intKind, v reflect.Value) uint64 {
	if k.signed {
		x := uint64(v.Int())
		if k.bits < 64 {
			x &= (1 << uint(k.bits)) - 1
		}
		return x
	}
	return v.Uint()
}

func setPattern(k intKind, v reflect.Value, p uint64) {
	if k.signed {
		switch k.bits {
		case 8:
			v.SetInt(int64(int8(p)))
		case 16:
			v.SetInt(int64(int16(p)))
		case 32:
			v.SetInt(int64(int32(p)))
		default:
			v.SetInt(int64(p))
		}
	} else {
		v.SetUint(p)
	}
}

func oracleText(k intKind, v reflect.Value) string {
	if k.signed {
		return strconv.FormatInt(v.Int(), 10)
	}
	return strconv.FormatUint(v.Uint(), 10)
}

func c16Encode(o *Out, k intKind, p uint64, toModel bool) {
	v := reflect.New(k.typ).Elem()
	setPattern(k, v, p)
	want := oracleText(k, v)
	got, err := gojson.Marshal(v.Interface())
	impl := string(got)
	if err != nil {
		impl = "error:" + err.Error()
	}
	o.count("encode_cases", 1)
	op := "c16.enc_uint"
	if k.signed {
		op = "c16.enc_int"
	}
	if toModel {
		o.emit("A", op, [][]byte{[]byte(strconv.Itoa(k.bits)), []byte(strconv.FormatUint(pattern(k, v), 10))}, []byte(impl), []byte(want), true)
	} else if impl != want {
		o.emit("C", op, [][]byte{[]byte(strconv.Itoa(k.bits)), []byte(strconv.FormatUint(pattern(k, v), 10))}, []byte(impl), []byte(want), true)
	}
	// other positions: pointer, map key, ,string, slice element — against encoding/json
	if p%7 == 0 || !toModel {
		c16EncodePositions(o, k, v)
	}
}

func c16EncodePositions(o *Out, k intKind, v reflect.Value) {
	// pointer
	pv := reflect.New(k.typ)
	pv.Elem().Set(v)
	// map key
	mt := reflect.MapOf(k.typ, reflect.TypeOf(""))
	mv := reflect.MakeMap(mt)
	mv.SetMapIndex(v, reflect.ValueOf("x"))
	// struct with ,string and omitempty
	st := reflect.StructOf([]reflect.StructField{
		{Name: "A", Type: k.typ, Tag: `json:"a,string"`},
		{Name: "B", Type: k.typ, Tag: `json:"b,omitempty"`},
		{Name: "C", Type: reflect.PtrTo(k.typ), Tag: `json:"c"`},
	})
	sv := reflect.New(st).Elem()
	sv.Field(0).Set(v)
	sv.Field(1).Set(v)
	sv.Field(2).Set(pv)
	sl := reflect.MakeSlice(reflect.SliceOf(k.typ), 2, 2)
	sl.Index(0).Set(v)
	sl.Index(1).Set(v)
	for i, x := range []interface{}{pv.Interface(), mv.Interface(), sv.Interface(), sl.Interface()} {
		g, gerr := gojson.Marshal(x)
		w, werr := stdjson.Marshal(x)
		o.count("encode_position_cases", 1)
		if (gerr != nil) != (werr != nil) || string(g) != string(w) {
			o.violation("C16", "integer printed differently from encoding/json in a non-plain position",
				map[string]string{"kind": k.name, "position": []string{"pointer", "mapkey", "struct(string,omitempty,ptr)", "slice"}[i],
					"value": oracleText(k, v), "impl": string(g), "oracle": string(w)})
		}
	}
}

// decode observable: "err=<0|1> stored=<value|->" using two sentinels to see
// whether the destination was written.
func decodeObs(k intKind, unmarshal func([]byte, interface{}) error, lit []byte) string {
	res := [2]string{}
	errs := [2]bool{}
	for i, sentinel := range []uint64{7, 9} {
		pv := reflect.New(k.typ)
		setPattern(k, pv.Elem(), sentinel)
		err := func() (err error) {
			defer func() {
				if r := recover(); r != nil {
					err = fmt.Errorf("PANIC: %v", r)
				}
			}()
			return unmarshal(lit, pv.Interface())
		}()
		if err != nil && strings.HasPrefix(err.Error(), "PANIC") {
			return "panic"
		}
		errs[i] = err != nil
		res[i] = oracleText(k, pv.Elem())
	}
	e := "0"
	if errs[0] {
		e = "1"
	}
	st := "-"
	if res[0] == res[1] {
		st = res[0]
	}
	return "err=" + e + " stored=" + st
}

func c16Decode(o *Out, k intKind, lit string, toModel bool) {
	impl := decodeObs(k, gojson.Unmarshal, []byte(lit))
	want := decodeObs(k, stdjson.Unmarshal, []byte(lit))
	o.count("decode_cases", 1)
	op := "c16.dec_uint"
	if k.signed {
		op = "c16.dec_int"
	}
	if toModel {
		o.emit("A", op, [][]byte{[]byte(strconv.Itoa(k.bits)), []byte(lit)}, []byte(impl), []byte(want), true)
	} else if impl != want {
		o.emit("C", op, [][]byte{[]byte(strconv.Itoa(k.bits)), []byte(lit)}, []byte(impl), []byte(want), true)
	}
	// stream mode: Decoder.Decode must behave like Unmarshal on the same bytes
	// (success only if the stream then ends); whole reader and 1-byte reader
	for _, mode := range []string{"s", "s1"} {
		if strings.IndexByte(lit, 0) >= 0 {
			break // embedded NUL in stream mode is the C05/C09 finding StreamEmbeddedNul, not an integer matter
		}
		one := mode == "s1"
		sobs := decodeObs(k, func(b []byte, v interface{}) error {
			var r io.Reader = bytes.NewReader(b)
			if one {
				r = iotest.OneByteReader(r)
			}
			d := gojson.NewDecoder(r)
			if err := d.Decode(v); err != nil {
				return err
			}
			var rest interface{}
			if err := d.Decode(&rest); err != io.EOF {
				return fmt.Errorf("trailing data")
			}
			return nil
		}, []byte(lit))
		o.count("stream_decode_cases", 1)
		sop := "c16." + mode + "dec_uint"
		if k.signed {
			sop = "c16." + mode + "dec_int"
		}
		o.emit("A", sop, [][]byte{[]byte(strconv.Itoa(k.bits)), []byte(lit)}, []byte(sobs), []byte(want), true)
	}
	if impl != want {
		o.hist("decode_mismatch_kind", impl+" vs "+want)
	} else {
		o.hist("decode_verdict", impl[:5])
	}
}

// positions other than plain: the literal inside a slice, a struct field, a
// pointer field, a map key and a ,string field; compared with encoding/json.
func c16DecodePositions(o *Out, k intKind, lit string) {
	st := reflect.StructOf([]reflect.StructField{
		{Name: "A", Type: k.typ, Tag: `json:"a"`},
		{Name: "P", Type: reflect.PtrTo(k.typ), Tag: `json:"p"`},
		{Name: "S", Type: k.typ, Tag: `json:"s,string"`},
		{Name: "L", Type: reflect.SliceOf(k.typ), Tag: `json:"l"`},
		{Name: "M", Type: reflect.MapOf(k.typ, reflect.TypeOf(0)), Tag: `json:"m"`},
	})
	docs := []struct{ pos, doc string }{
		{"field", `{"a":` + lit + `}`},
		{"ptrfield", `{"p":` + lit + `}`},
		{"stringtag", `{"s":"` + lit + `"}`},
		{"slice", `{"l":[` + lit + `,1]}`},
		{"mapkey", `{"m":{"` + lit + `":1}}`},
	}
	for _, d := range docs {
		if !stdjson.Valid([]byte(d.doc)) {
			continue // C05 decides acceptance of invalid documents
		}
		gv := reflect.New(st)
		wv := reflect.New(st)
		gerr := safeUnmarshal(gojson.Unmarshal, []byte(d.doc), gv.Interface())
		werr := stdjson.Unmarshal([]byte(d.doc), wv.Interface())
		o.count("decode_position_cases", 1)
		gs, _ := stdjson.Marshal(gv.Interface())
		ws, _ := stdjson.Marshal(wv.Interface())
		if (gerr != nil) != (werr != nil) || (gerr == nil && string(gs) != string(ws)) {
			quoted := d.pos == "stringtag" || d.pos == "mapkey"
			// encoding/json converts quoted numbers with strconv and so accepts
			// "01" and "+1"; C16 demands an error for anything that is not a
			// JSON integer, so the stricter verdict is the right one.
			if quoted && !jsonIntRe.MatchString(lit) && gerr != nil && werr == nil {
				o.count("quoted_nonjson_rejected_std_lenient", 1)
				continue
			}
			// frozen class of a recorded finding: the map key "null"
			if d.pos == "mapkey" && lit == "null" && gerr == nil && werr != nil {
				o.known("MapKeyNullAccepted", d.doc)
				continue
			}
			o.violation("C16", "integer literal decoded differently from encoding/json",
				map[string]string{"kind": k.name, "position": d.pos, "doc": d.doc,
					"impl": fmt.Sprintf("err=%v %s", gerr, gs), "oracle": fmt.Sprintf("err=%v %s", werr, ws)})
		} else if gerr != nil && string(gs) != string(ws) {
			// both fail: a differing partial store is the PartialStoreBeforeError finding
			o.known("PartialStoreBeforeError", d.doc)
		}
	}
}

var jsonIntRe = regexp.MustCompile(`^-?(0|[1-9][0-9]*)$`)

func safeUnmarshal(f func([]byte, interface{}) error, b []byte, v interface{}) (err error) {
	defer func() {
		if r := recover(); r != nil {
			err = fmt.Errorf("PANIC: %v", r)
		}
	}()
	return f(b, v)
}

func runC16(o *Out) {
	thorough := o.tier == "thorough"
	// ---- encoding ----
	for _, k := range intKinds {
		switch k.bits {
		case 8:
			for p := uint64(0); p < 256; p++ {
				c16Encode(o, k, p, true)
			}
		case 16:
			for p := uint64(0); p < 65536; p++ {
				c16Encode(o, k, p, p%3 == 0 || p < 2048 || p > 65536-2048 || (p > 32768-1024 && p < 32768+1024))
			}
		}
	}
	radius := uint64(1 << 10)
	if thorough {
		radius = 1 << 16
	}
	var centers []uint64
	for i := uint(0); i < 64; i++ {
		centers = append(centers, uint64(1)<<i)
	}
	pw := uint64(1)
	for i := 0; i < 20; i++ {
		centers = append(centers, pw)
		if i < 19 {
			pw *= 10
		}
	}
	centers = append(centers, 0, ^uint64(0))
	for _, k := range intKinds {
		if k.bits < 32 {
			continue
		}
		mask := ^uint64(0)
		if k.bits == 32 {
			mask = 1<<32 - 1
		}
		for _, c := range centers {
			for d := uint64(0); d <= radius; d++ {
				step := d
				for _, p := range []uint64{c + step, c - step} {
					p &= mask
					c16Encode(o, k, p, d <= 64)
				}
			}
		}
		nr := 20000
		if thorough {
			nr = 2000000
		}
		for i := 0; i < nr; i++ {
			p := o.rng.Uint64()
			// vary the magnitude
			p >>= uint(o.rng.Intn(64))
			c16Encode(o, k, p&mask, i < 2000)
		}
	}
	// ---- decoding ----
	var lits []string
	bounds := []string{}
	for _, b := range []int{7, 8, 15, 16, 31, 32, 63, 64} {
		x := new(big.Int).Lsh(big.NewInt(1), uint(b))
		for d := -3; d <= 3; d++ {
			y := new(big.Int).Add(x, big.NewInt(int64(d)))
			bounds = append(bounds, y.String(), "-"+y.String())
		}
	}
	lits = append(lits, bounds...)
	for n := 1; n <= 25; n++ { // digit counts 1..25
		for _, d := range []string{"1", "9", "5"} {
			s := strings.Repeat(d, n)
			lits = append(lits, s, "-"+s, "1"+strings.Repeat("0", n-1), "-1"+strings.Repeat("0", n-1))
		}
	}
	lits = append(lits, "0", "-0", "-", "+1", "+", "01", "-01", "00", "007", "-007", "1.0", "1.5", "-1.5", "1e2", "1E2", "1e+2", "-1e2",
		"0.0", "0e0", "1.", ".5", "-.5", "--1", "1-", "1 2", " 12 ", "\t-3\n", "null", "nul", "nulL", "true", "\"1\"", "", " ", "1x", "9a", "0x10",
		"1\x00", "1\x002", "٣", " 12", "12 ", "\t-3", "1 ", "-0 ", "1\n", "0 1", "1,2", "1,", "[1]", "1]", "1}")
	for i := 0; i < 300; i++ { // random digit strings of length 1..22 with optional sign
		n := 1 + o.rng.Intn(22)
		var sb strings.Builder
		if o.rng.Intn(3) == 0 {
			sb.WriteByte('-')
		}
		for j := 0; j < n; j++ {
			sb.WriteByte(byte('0' + o.rng.Intn(10)))
		}
		lits = append(lits, sb.String())
	}
	if thorough {
		for i := 0; i < 20000; i++ {
			n := 1 + o.rng.Intn(24)
			var sb strings.Builder
			alphabet := "0123456789-+.eE \x00n"
			for j := 0; j < n; j++ {
				if o.rng.Intn(5) == 0 {
					sb.WriteByte(alphabet[o.rng.Intn(len(alphabet))])
				} else {
					sb.WriteByte(byte('0' + o.rng.Intn(10)))
				}
			}
			lits = append(lits, sb.String())
		}
	}
	for _, k := range intKinds {
		for _, l := range lits {
			c16Decode(o, k, l, true)
			c16DecodePositions(o, k, l)
		}
	}
	o.Notes = append(o.Notes, fmt.Sprintf("literals=%d kinds=%d radius=%d", len(lits), len(intKinds), radius))
}
