package main

import (
	"bytes"
	stdjson "encoding/json"
	"fmt"
	"io"
	"math/big"
	"os"
	"reflect"
	"regexp"
	"runtime"
	"strconv"
	"strings"
	"sync"
	"testing/iotest"

	gojson "github.com/goccy/go-json"
)

func init() { props["C16"] = runC16 }

type intKind struct {
	name   string
	bits   int
	signed bool
	typ    reflect.Type
}

var intKinds = []intKind{
	{"int8", 8, true, reflect.TypeOf(int8(0))}, {"int16", 16, true, reflect.TypeOf(int16(0))},
	{"int32", 32, true, reflect.TypeOf(int32(0))}, {"int64", 64, true, reflect.TypeOf(int64(0))},
	{"int", 64, true, reflect.TypeOf(int(0))},
	{"uint8", 8, false, reflect.TypeOf(uint8(0))}, {"uint16", 16, false, reflect.TypeOf(uint16(0))},
	{"uint32", 32, false, reflect.TypeOf(uint32(0))}, {"uint64", 64, false, reflect.TypeOf(uint64(0))},
	{"uint", 64, false, reflect.TypeOf(uint(0))}, {"uintptr", 64, false, reflect.TypeOf(uintptr(0))},
}

// pattern returns the zero-extended two's complement pattern of v in k's width.
func pattern(k intKind, v reflect.Value) uint64 {
	if k.signed {
		x := uint64(v.Int())
		if k.bits < 64 {
			x &= (1 << uint(k.bits)) - 1
		}
		return x
	}
	return v.Uint()
}

func setPattern(k intKind, v reflect.Value, p uint64) {
	if k.signed {
		switch k.bits {
		case 8:
			v.SetInt(int64(int8(p)))
		case 16:
			v.SetInt(int64(int16(p)))
		case 32:
			v.SetInt(int64(int32(p)))
		default:
			v.SetInt(int64(p))
		}
	} else {
		v.SetUint(p)
	}
}

func oracleText(k intKind, v reflect.Value) string {
	if k.signed {
		return strconv.FormatInt(v.Int(), 10)
	}
	return strconv.FormatUint(v.Uint(), 10)
}

func c16Encode(o *Out, k intKind, p uint64, toModel bool) {
	v := reflect.New(k.typ).Elem()
	setPattern(k, v, p)
	want := oracleText(k, v)
	got, err := gojson.Marshal(v.Interface())
	impl := string(got)
	if err != nil {
		impl = "error:" + err.Error()
	}
	o.count("encode_cases", 1)
	op := "c16.enc_uint"
	if k.signed {
		op = "c16.enc_int"
	}
	if toModel {
		o.emit("A", op, [][]byte{[]byte(strconv.Itoa(k.bits)), []byte(strconv.FormatUint(pattern(k, v), 10))}, []byte(impl), []byte(want), true)
	} else if impl != want {
		o.emit("C", op, [][]byte{[]byte(strconv.Itoa(k.bits)), []byte(strconv.FormatUint(pattern(k, v), 10))}, []byte(impl), []byte(want), true)
	}
	// other positions: pointer, map key, ,string, slice element — against encoding/json
	if p%7 == 0 || !toModel {
		c16EncodePositions(o, k, v)
	}
}

func c16EncodePositions(o *Out, k intKind, v reflect.Value) {
	// pointer
	pv := reflect.New(k.typ)
	pv.Elem().Set(v)
	// map key
	mt := reflect.MapOf(k.typ, reflect.TypeOf(""))
	mv := reflect.MakeMap(mt)
	mv.SetMapIndex(v, reflect.ValueOf("x"))
	// struct with ,string and omitempty
	st := reflect.StructOf([]reflect.StructField{
		{Name: "A", Type: k.typ, Tag: `json:"a,string"`},
		{Name: "B", Type: k.typ, Tag: `json:"b,omitempty"`},
		{Name: "C", Type: reflect.PtrTo(k.typ), Tag: `json:"c"`},
	})
	sv := reflect.New(st).Elem()
	sv.Field(0).Set(v)
	sv.Field(1).Set(v)
	sv.Field(2).Set(pv)
	sl := reflect.MakeSlice(reflect.SliceOf(k.typ), 2, 2)
	sl.Index(0).Set(v)
	sl.Index(1).Set(v)
	for i, x := range []interface{}{pv.Interface(), mv.Interface(), sv.Interface(), sl.Interface()} {
		g, gerr := gojson.Marshal(x)
		w, werr := stdjson.Marshal(x)
		o.count("encode_position_cases", 1)
		if (gerr != nil) != (werr != nil) || string(g) != string(w) {
			o.violation("C16", "integer printed differently from encoding/json in a non-plain position",
				map[string]string{"kind": k.name, "position": []string{"pointer", "mapkey", "struct(string,omitempty,ptr)", "slice"}[i],
					"value": oracleText(k, v), "impl": string(g), "oracle": string(w)})
		}
	}
}

// decode observable: "err=<0|1> stored=<value|->" using two sentinels to see
// whether the destination was written.
func decodeObs(k intKind, unmarshal func([]byte, interface{}) error, lit []byte) string {
	res := [2]string{}
	errs := [2]bool{}
	for i, sentinel := range []uint64{7, 9} {
		pv := reflect.New(k.typ)
		setPattern(k, pv.Elem(), sentinel)
		err := func() (err error) {
			defer func() {
				if r := recover(); r != nil {
					err = fmt.Errorf("PANIC: %v", r)
				}
			}()
			return unmarshal(lit, pv.Interface())
		}()
		if err != nil && strings.HasPrefix(err.Error(), "PANIC") {
			return "panic"
		}
		errs[i] = err != nil
		res[i] = oracleText(k, pv.Elem())
	}
	e := "0"
	if errs[0] {
		e = "1"
	}
	st := "-"
	if res[0] == res[1] {
		st = res[0]
	}
	return "err=" + e + " stored=" + st
}

func c16Decode(o *Out, k intKind, lit string, toModel bool) {
	impl := decodeObs(k, gojson.Unmarshal, []byte(lit))
	want := decodeObs(k, stdjson.Unmarshal, []byte(lit))
	o.count("decode_cases", 1)
	op := "c16.dec_uint"
	if k.signed {
		op = "c16.dec_int"
	}
	if toModel {
		o.emit("A", op, [][]byte{[]byte(strconv.Itoa(k.bits)), []byte(lit)}, []byte(impl), []byte(want), true)
	} else if impl != want {
		o.emit("C", op, [][]byte{[]byte(strconv.Itoa(k.bits)), []byte(lit)}, []byte(impl), []byte(want), true)
	}
	// stream mode: Decoder.Decode must behave like Unmarshal on the same bytes
	// (success only if the stream then ends); whole reader and 1-byte reader
	for _, mode := range []string{"s", "s1"} {
		if strings.IndexByte(lit, 0) >= 0 {
			break // embedded NUL in stream mode is the C05/C09 finding StreamEmbeddedNul, not an integer matter
		}
		one := mode == "s1"
		sobs := decodeObs(k, func(b []byte, v interface{}) error {
			var r io.Reader = bytes.NewReader(b)
			if one {
				r = iotest.OneByteReader(r)
			}
			d := gojson.NewDecoder(r)
			if err := d.Decode(v); err != nil {
				return err
			}
			var rest interface{}
			if err := d.Decode(&rest); err != io.EOF {
				return fmt.Errorf("trailing data")
			}
			return nil
		}, []byte(lit))
		o.count("stream_decode_cases", 1)
		sop := "c16." + mode + "dec_uint"
		if k.signed {
			sop = "c16." + mode + "dec_int"
		}
		o.emit("A", sop, [][]byte{[]byte(strconv.Itoa(k.bits)), []byte(lit)}, []byte(sobs), []byte(want), true)
	}
	if impl != want {
		o.hist("decode_mismatch_kind", impl+" vs "+want)
	} else {
		o.hist("decode_verdict", impl[:5])
	}
}

// positions other than plain: the literal inside a slice, an array, a struct field, a
// pointer field, a map key, a map value and a ,string field (plain and pointer);
// compared with encoding/json, in buffer mode and through the Decoder (whole
// reader and one byte at a time: wrappedStringDecoder, mapKeyIntDecoder and the
// container decoders have a stream twin each).
var c16PosModes = []struct {
	name string
	f    func([]byte, interface{}) error
}{{"Unmarshal", gojson.Unmarshal}, {"Decoder", streamUnmarshal(false)}, {"Decoder/1-byte reader", streamUnmarshal(true)}}

func c16DecodePositions(o *Out, k intKind, lit string) {
	st := reflect.StructOf([]reflect.StructField{
		{Name: "A", Type: k.typ, Tag: `json:"a"`},
		{Name: "P", Type: reflect.PtrTo(k.typ), Tag: `json:"p"`},
		{Name: "S", Type: k.typ, Tag: `json:"s,string"`},
		{Name: "L", Type: reflect.SliceOf(k.typ), Tag: `json:"l"`},
		{Name: "M", Type: reflect.MapOf(k.typ, reflect.TypeOf(0)), Tag: `json:"m"`},
		{Name: "PS", Type: reflect.PtrTo(k.typ), Tag: `json:"ps,string"`},
		{Name: "V", Type: reflect.MapOf(reflect.TypeOf(""), k.typ), Tag: `json:"v"`},
		{Name: "R", Type: reflect.ArrayOf(2, k.typ), Tag: `json:"r"`},
	})
	docs := []struct{ pos, doc string }{
		{"field", `{"a":` + lit + `}`},
		{"ptrfield", `{"p":` + lit + `}`},
		{"stringtag", `{"s":"` + lit + `"}`},
		{"slice", `{"l":[` + lit + `,1]}`},
		{"mapkey", `{"m":{"` + lit + `":1}}`},
		{"ptrstringtag", `{"ps":"` + lit + `"}`},
		{"mapvalue", `{"v":{"x":` + lit + `,"y":1}}`},
		{"array", `{"r":[1,` + lit + `]}`},
	}
	for _, d := range docs {
		if !stdjson.Valid([]byte(d.doc)) {
			continue // C05 decides acceptance of invalid documents
		}
		wv := reflect.New(st)
		werr := stdjson.Unmarshal([]byte(d.doc), wv.Interface())
		ws, _ := stdjson.Marshal(wv.Interface())
		for mi, mode := range c16PosModes {
			gv := reflect.New(st)
			gerr := safeUnmarshal(mode.f, []byte(d.doc), gv.Interface())
			if mi == 0 {
				o.count("decode_position_cases", 1)
			} else {
				o.count("stream_decode_position_cases", 1)
			}
			gs, _ := stdjson.Marshal(gv.Interface())
			if (gerr != nil) != (werr != nil) || (gerr == nil && string(gs) != string(ws)) {
				quoted := d.pos == "stringtag" || d.pos == "mapkey" || d.pos == "ptrstringtag"
				// encoding/json converts quoted numbers with strconv and so accepts
				// "01" and "+1"; C16 demands an error for anything that is not a
				// JSON integer, so the stricter verdict is the right one.
				if quoted && !jsonIntRe.MatchString(lit) && gerr != nil && werr == nil {
					o.count("quoted_nonjson_rejected_std_lenient", 1)
					continue
				}
				// frozen class of a recorded finding: the map key "null"
				if d.pos == "mapkey" && lit == "null" && gerr == nil && werr != nil {
					o.known("MapKeyNullAccepted", d.doc)
					continue
				}
				o.violation("C16", "integer literal decoded differently from encoding/json",
					map[string]string{"kind": k.name, "position": d.pos, "mode": mode.name, "doc": d.doc,
						"impl": fmt.Sprintf("err=%v %s", gerr, gs), "oracle": fmt.Sprintf("err=%v %s", werr, ws)})
			} else if gerr != nil && string(gs) != string(ws) {
				if mi == 0 {
					// both fail: a differing partial store is the PartialStoreBeforeError finding
					o.known("PartialStoreBeforeError", d.doc)
				} else {
					o.hist("stream_both_fail_store_differs", d.pos)
				}
			}
		}
	}
}

var jsonIntRe = regexp.MustCompile(`^-?(0|[1-9][0-9]*)$`)

func safeUnmarshal(f func([]byte, interface{}) error, b []byte, v interface{}) (err error) {
	defer func() {
		if r := recover(); r != nil {
			err = fmt.Errorf("PANIC: %v", r)
		}
	}()
	return f(b, v)
}

func runC16(o *Out) {
	thorough := o.tier == "thorough"
	// ---- encoding ----
	for _, k := range intKinds {
		switch k.bits {
		case 8:
			for p := uint64(0); p < 256; p++ {
				c16Encode(o, k, p, true)
			}
		case 16:
			for p := uint64(0); p < 65536; p++ {
				c16Encode(o, k, p, p%3 == 0 || p < 2048 || p > 65536-2048 || (p > 32768-1024 && p < 32768+1024))
			}
		}
	}
	radius := uint64(1 << 10)
	if thorough {
		radius = 1 << 16
	}
	var centers []uint64
	for i := uint(0); i < 64; i++ {
		centers = append(centers, uint64(1)<<i)
	}
	pw := uint64(1)
	for i := 0; i < 20; i++ {
		centers = append(centers, pw)
		if i < 19 {
			pw *= 10
		}
	}
	centers = append(centers, 0, ^uint64(0))
	for _, k := range intKinds {
		if k.bits < 32 {
			continue
		}
		mask := ^uint64(0)
		if k.bits == 32 {
			mask = 1<<32 - 1
		}
		for _, c := range centers {
			for d := uint64(0); d <= radius; d++ {
				step := d
				for _, p := range []uint64{c + step, c - step} {
					p &= mask
					c16Encode(o, k, p, d <= 64)
				}
			}
		}
		nr := 20000
		if thorough {
			nr = 2000000
		}
		for i := 0; i < nr; i++ {
			p := o.rng.Uint64()
			// vary the magnitude
			p >>= uint(o.rng.Intn(64))
			c16Encode(o, k, p&mask, i < 2000)
		}
	}
	// ---- decoding ----
	var lits []string
	bounds := []string{}
	for _, b := range []int{7, 8, 15, 16, 31, 32, 63, 64} {
		x := new(big.Int).Lsh(big.NewInt(1), uint(b))
		for d := -3; d <= 3; d++ {
			y := new(big.Int).Add(x, big.NewInt(int64(d)))
			bounds = append(bounds, y.String(), "-"+y.String())
		}
	}
	lits = append(lits, bounds...)
	for n := 1; n <= 25; n++ { // digit counts 1..25
		for _, d := range []string{"1", "9", "5"} {
			s := strings.Repeat(d, n)
			lits = append(lits, s, "-"+s, "1"+strings.Repeat("0", n-1), "-1"+strings.Repeat("0", n-1))
		}
	}
	lits = append(lits, "0", "-0", "-", "+1", "+", "01", "-01", "00", "007", "-007", "1.0", "1.5", "-1.5", "1e2", "1E2", "1e+2", "-1e2",
		"0.0", "0e0", "1.", ".5", "-.5", "--1", "1-", "1 2", " 12 ", "\t-3\n", "null", "nul", "nulL", "true", "\"1\"", "", " ", "1x", "9a", "0x10",
		"1\x00", "1\x002", "٣", " 12", "12 ", "\t-3", "1 ", "-0 ", "1\n", "0 1", "1,2", "1,", "[1]", "1]", "1}")
	for i := 0; i < 300; i++ { // random digit strings of length 1..22 with optional sign
		n := 1 + o.rng.Intn(22)
		var sb strings.Builder
		if o.rng.Intn(3) == 0 {
			sb.WriteByte('-')
		}
		for j := 0; j < n; j++ {
			sb.WriteByte(byte('0' + o.rng.Intn(10)))
		}
		lits = append(lits, sb.String())
	}
	if thorough {
		for i := 0; i < 20000; i++ {
			n := 1 + o.rng.Intn(24)
			var sb strings.Builder
			alphabet := "0123456789-+.eE \x00n"
			for j := 0; j < n; j++ {
				if o.rng.Intn(5) == 0 {
					sb.WriteByte(alphabet[o.rng.Intn(len(alphabet))])
				} else {
					sb.WriteByte(byte('0' + o.rng.Intn(10)))
				}
			}
			lits = append(lits, sb.String())
		}
	}
	for _, k := range intKinds {
		for _, l := range lits {
			c16Decode(o, k, l, true)
			c16DecodePositions(o, k, l)
		}
	}
	o.Notes = append(o.Notes, fmt.Sprintf("literals=%d kinds=%d radius=%d", len(lits), len(intKinds), radius))
	// ---- audit wave 6 strata (after the older ones, whose random inputs stay what they were) ----
	for _, k := range intKinds {
		c16StructMatrix(o, k)
		c16Containers(o, k)
	}
	c16DecodeDense(o)
	for _, k := range intKinds {
		c16StreamSequences(o, k)
	}
	if thorough {
		c16Exhaustive32(o)
	}
}

// ---------------------------------------------------------------------------
// audit wave 6: additional strata (see the notes of audit A6)
// ---------------------------------------------------------------------------

// c16Boundary returns the values of kind k (as bit patterns) at which a printer
// or a zero test keyed by a width mask can go wrong: 0, +-1, the one/two/three
// digit steps, the extremes, and values whose low 8/16/32 bits are all zero.
func c16Boundary(k intKind) []uint64 {
	mask := ^uint64(0)
	if k.bits < 64 {
		mask = 1<<uint(k.bits) - 1
	}
	seen := map[uint64]bool{}
	var out []uint64
	add := func(p uint64) {
		p &= mask
		if !seen[p] {
			seen[p] = true
			out = append(out, p)
		}
	}
	for _, p := range []uint64{0, 1, 9, 10, 99, 100, 101, 127, 128, 255, 256, 999, 1000, 32767, 32768, 65535, 65536,
		1 << 31, 1<<31 - 1, 1 << 32, 1<<32 - 1, 1 << 40, 1 << 48, 1 << 56, 1 << 63, 1<<63 - 1, 1<<64 - 1,
		9999999999, 10000000000, 999999999999999999, 1000000000000000000, 9999999999999999999, 10000000000000000000} {
		add(p)
		add(-p) // the negative of it (signed kinds), resp. the two's complement (unsigned kinds)
	}
	add(uint64(1) << uint(k.bits-1))   // minimum of a signed kind
	add(uint64(1)<<uint(k.bits-1) - 1) // maximum of a signed kind
	add(mask)
	return out
}

// field modifiers of the struct matrix
type c16Mod struct {
	name string
	ptr  bool
	tag  string // options after the name
	nilp bool
}

var c16Mods = []c16Mod{
	{"plain", false, "", false}, {"omitempty", false, ",omitempty", false}, {"string", false, ",string", false},
	{"omitempty+string", false, ",omitempty,string", false},
	{"ptr", true, "", false}, {"ptr+omitempty", true, ",omitempty", false}, {"ptr+string", true, ",string", false},
	{"nilptr", true, "", true}, {"nilptr+omitempty", true, ",omitempty", true}, {"nilptr+string", true, ",string", true},
}

func c16StructOf(k intKind, layout []int) reflect.Type {
	fs := make([]reflect.StructField, len(layout))
	for i, m := range layout {
		t := k.typ
		if c16Mods[m].ptr {
			t = reflect.PtrTo(t)
		}
		fs[i] = reflect.StructField{Name: fmt.Sprintf("F%d", i), Type: t,
			Tag: reflect.StructTag(fmt.Sprintf(`json:"f%d%s"`, i, c16Mods[m].tag))}
	}
	return reflect.StructOf(fs)
}

func c16LayoutName(layout []int) string {
	var s []string
	for _, m := range layout {
		s = append(s, c16Mods[m].name)
	}
	return strings.Join(s, " | ")
}

type c16Encoder struct {
	name string
	goj  func(v interface{}) ([]byte, error)
	std  func(v interface{}) ([]byte, error)
}

var c16Encoders = []c16Encoder{
	{"Marshal", func(v interface{}) ([]byte, error) { return gojson.Marshal(v) }, stdjson.Marshal},
	{"MarshalIndent", func(v interface{}) ([]byte, error) { return gojson.MarshalIndent(v, "", " ") },
		func(v interface{}) ([]byte, error) { return stdjson.MarshalIndent(v, "", " ") }},
	{"Colorize", func(v interface{}) ([]byte, error) {
		b, err := gojson.MarshalWithOption(v, gojson.Colorize(c13Scheme()))
		return c13StripMarkers(b), err
	}, stdjson.Marshal},
	{"Colorize+Indent", func(v interface{}) ([]byte, error) {
		b, err := gojson.MarshalIndentWithOption(v, "", " ", gojson.Colorize(c13Scheme()))
		return c13StripMarkers(b), err
	}, func(v interface{}) ([]byte, error) { return stdjson.MarshalIndent(v, "", " ") }},
	{"Encoder", func(v interface{}) ([]byte, error) {
		var b bytes.Buffer
		err := gojson.NewEncoder(&b).Encode(v)
		return b.Bytes(), err
	}, func(v interface{}) ([]byte, error) {
		var b bytes.Buffer
		err := stdjson.NewEncoder(&b).Encode(v)
		return b.Bytes(), err
	}},
}

// c16EncodeAll runs every encoder twin (compact, indent, the two colour VMs, the
// stream encoder) on x and compares with encoding/json.
func c16EncodeAll(o *Out, counter, what string, detail map[string]string, x interface{}) {
	for _, e := range c16Encoders {
		g, gerr := c01Safe(func() ([]byte, error) { return e.goj(x) })
		w, werr := e.std(x)
		o.count(counter, 1)
		if (gerr != nil) != (werr != nil) || !bytes.Equal(g, w) {
			d := map[string]string{"encoder": e.name, "impl": fmt.Sprintf("%q err=%v", g, gerr), "oracle": fmt.Sprintf("%q err=%v", w, werr)}
			for k, v := range detail {
				d[k] = v
			}
			o.violation("C16", what, d)
		}
	}
}

// c16StructMatrix: an integer as first, inner, last and only member of a struct, under
// every combination of omitempty / string / pointer / nil pointer, the struct given by
// value and by pointer, through the five encoder twins.  The opcodes differ for each
// of these (Head/Field/End x Int/IntPtr/IntString/OmitEmptyInt...) in each of the VMs.
func c16StructMatrix(o *Out, k intKind) {
	var layouts [][]int
	for m := range c16Mods {
		layouts = append(layouts, []int{m, m, m})
		if !c16Mods[m].ptr {
			// a struct whose only member is a pointer is stored as that pointer: the
			// recorded family PointerShapedAggregate of C01, not an integer matter
			layouts = append(layouts, []int{m})
		}
	}
	layouts = append(layouts, []int{0, 1, 2}, []int{1, 2, 3}, []int{2, 4, 1}, []int{5, 0, 6}, []int{3, 8, 0}, []int{9, 1, 4},
		[]int{1, 1, 0}, []int{0, 1, 1}, []int{1, 8, 1}, []int{8, 8, 0}, []int{0, 8, 8}, []int{3, 3, 1}, []int{7, 9, 7}, []int{6, 3, 5})
	nrand := 12
	if o.tier == "thorough" {
		nrand = 200
	}
	for i := 0; i < nrand; i++ {
		n := 2 + o.rng.Intn(4)
		l := make([]int, n)
		for j := range l {
			l[j] = o.rng.Intn(len(c16Mods))
		}
		layouts = append(layouts, l)
	}
	vals := c16Boundary(k)
	for li, layout := range layouts {
		st := c16StructOf(k, layout)
		o.hist("struct_matrix_fields", strconv.Itoa(len(layout)))
		for vi := range vals {
			if o.tier != "thorough" && li >= 2*len(c16Mods)-3 && vi%3 != li%3 {
				continue // the mixed layouts take every third value in the quick tier
			}
			sv := reflect.New(st)
			var shown []string
			for fi, m := range layout {
				// neighbouring members hold different values; the zero value comes up in every position
				p := vals[(vi+fi*7)%len(vals)]
				if fi > 0 && (vi+fi)%5 == 0 {
					p = 0
				}
				f := sv.Elem().Field(fi)
				if c16Mods[m].ptr {
					if c16Mods[m].nilp {
						shown = append(shown, "nil")
						continue
					}
					f.Set(reflect.New(k.typ))
					f = f.Elem()
				}
				setPattern(k, f, p)
				shown = append(shown, oracleText(k, f))
				o.hist("struct_matrix_modifier", c16Mods[m].name)
			}
			det := map[string]string{"kind": k.name, "layout": c16LayoutName(layout), "values": strings.Join(shown, ",")}
			det["outer"] = "value"
			c16EncodeAll(o, "struct_matrix_cases", "integer member printed differently from encoding/json", det, sv.Elem().Interface())
			det["outer"] = "pointer"
			c16EncodeAll(o, "struct_matrix_cases", "integer member printed differently from encoding/json", det, sv.Interface())
		}
	}
}

// named integer types: the compilers go by kind, the reflect-made types above are all unnamed
type (
	c16NI8   int8
	c16NI16  int16
	c16NI32  int32
	c16NI64  int64
	c16NI    int
	c16NU8   uint8
	c16NU16  uint16
	c16NU32  uint32
	c16NU64  uint64
	c16NU    uint
	c16NUPtr uintptr
)

var c16Named = map[string]reflect.Type{
	"int8": reflect.TypeOf(c16NI8(0)), "int16": reflect.TypeOf(c16NI16(0)), "int32": reflect.TypeOf(c16NI32(0)),
	"int64": reflect.TypeOf(c16NI64(0)), "int": reflect.TypeOf(c16NI(0)),
	"uint8": reflect.TypeOf(c16NU8(0)), "uint16": reflect.TypeOf(c16NU16(0)), "uint32": reflect.TypeOf(c16NU32(0)),
	"uint64": reflect.TypeOf(c16NU64(0)), "uint": reflect.TypeOf(c16NU(0)), "uintptr": reflect.TypeOf(c16NUPtr(0)),
}

// c16Containers: maps with several integer keys (the members are ordered by the key
// texts, so a negative key, keys of different digit counts and the extremes must all be
// printed before sorting), integers as map values, array elements and inside
// interface{}, and the same for a named type of the kind.
func c16Containers(o *Out, k intKind) {
	vals := c16Boundary(k)
	rounds := 40
	if o.tier == "thorough" {
		rounds = 2000
	}
	for _, kk := range []intKind{k, {k.name, k.bits, k.signed, c16Named[k.name]}} {
		named := kk.typ != k.typ
		for r := 0; r < rounds; r++ {
			n := 2 + o.rng.Intn(7)
			mk := reflect.MakeMap(reflect.MapOf(kk.typ, kk.typ))
			ms := reflect.MakeMap(reflect.MapOf(reflect.TypeOf(""), kk.typ))
			arr := reflect.New(reflect.ArrayOf(3, kk.typ)).Elem()
			var ifs []interface{}
			var shown []string
			for i := 0; i < n; i++ {
				var p uint64
				if o.rng.Intn(3) == 0 {
					p = o.rng.Uint64() >> uint(o.rng.Intn(64))
				} else {
					p = vals[o.rng.Intn(len(vals))]
				}
				v := reflect.New(kk.typ).Elem()
				setPattern(kk, v, p)
				mk.SetMapIndex(v, v)
				ms.SetMapIndex(reflect.ValueOf(fmt.Sprintf("k%d", i)), v)
				arr.Index(i % 3).Set(v)
				ifs = append(ifs, v.Interface())
				shown = append(shown, oracleText(kk, v))
			}
			o.hist("container_map_keys", strconv.Itoa(mk.Len()))
			det := map[string]string{"kind": k.name, "named": fmt.Sprint(named), "values": strings.Join(shown, ",")}
			type wrap struct {
				M interface{} `json:"m"`
				A interface{} `json:"a,omitempty"`
			}
			for i, x := range []interface{}{mk.Interface(), ms.Interface(), arr.Interface(), ifs, wrap{mk.Interface(), ifs[0]}} {
				det["container"] = []string{"map[K]K", "map[string]K", "[3]K", "[]interface{}", "struct{interface{}}"}[i]
				c16EncodeAll(o, "container_cases", "integers in a container printed differently from encoding/json", det, x)
			}
		}
	}
}

// c16DecodeDense: every literal within +-radius of each width boundary, with both
// signs, and 19/20 digit literals on both sides of the 64-bit limits, in buffer mode
// and through the Decoder.  The literals are pure digit strings, so encoding/json's
// verdict and value are binding (no partial store can occur).
func c16DecodeDense(o *Out) {
	radius := int64(40)
	nrand := 400
	if o.tier == "thorough" {
		radius, nrand = 3000, 40000
	}
	var lits []string
	for _, b := range []uint{7, 8, 15, 16, 31, 32, 63, 64} {
		x := new(big.Int).Lsh(big.NewInt(1), b)
		for d := -radius; d <= radius; d++ {
			y := new(big.Int).Add(x, big.NewInt(d)).String()
			lits = append(lits, y, "-"+y)
		}
	}
	// 19 and 20 digit literals: in range, out of range with a sum that wraps to something small or plausible
	for i := 0; i < nrand; i++ {
		var sb strings.Builder
		if o.rng.Intn(3) == 0 {
			sb.WriteByte('-')
		}
		n := 19 + o.rng.Intn(2)
		digits := []string{"1", "9", "18446744073709" + []string{"5", "6", "4"}[o.rng.Intn(3)],
			"92233720368" + []string{"5", "4", "6"}[o.rng.Intn(3)]}[o.rng.Intn(4)]
		if digits[0] == '9' && len(digits) > 1 {
			n = 19
		}
		for len(digits) < n {
			digits += string(byte('0' + o.rng.Intn(10)))
		}
		lits = append(lits, sb.String()+digits)
	}
	// multiples of 2^64 and 2^32 above the range: the truncated sum is 0 or small
	for _, m := range []int64{1, 2, 3, 5} {
		for _, b := range []uint{8, 16, 32, 64} {
			y := new(big.Int).Mul(new(big.Int).Lsh(big.NewInt(1), b), big.NewInt(m))
			for _, d := range []int64{0, 1, 7} {
				z := new(big.Int).Add(y, big.NewInt(d)).String()
				lits = append(lits, z, "-"+z)
			}
		}
	}
	modes := []struct {
		name string
		f    func([]byte, interface{}) error
	}{{"Unmarshal", gojson.Unmarshal}, {"Decoder", streamUnmarshal(false)}, {"Decoder/1-byte reader", streamUnmarshal(true)}}
	for _, k := range intKinds {
		for _, l := range lits {
			want := decodeObs(k, stdjson.Unmarshal, []byte(l))
			o.hist("dense_verdict", k.name+" "+want[:5])
			for _, m := range modes {
				got := decodeObs(k, m.f, []byte(l))
				o.count("dense_decode_cases", 1)
				if got != want {
					o.violation("C16", "integer literal near a width boundary decoded differently from encoding/json",
						map[string]string{"kind": k.name, "mode": m.name, "literal": l, "impl": got, "oracle": want})
				}
			}
		}
	}
}

// c16StreamSequences: many literals in one stream, read value by value through one
// Decoder (the window is refilled and grown under way, and only some of the scalar
// decoders drop the consumed part of it), white space of 500..530 bytes in front of a
// literal so that it lies across the first window's end, and the separators a number
// can be followed by.
func c16StreamSequences(o *Out, k intKind) {
	vals := c16Boundary(k)
	rounds := 6
	if o.tier == "thorough" {
		rounds = 200
	}
	for r := 0; r < rounds; r++ {
		n := 50 + o.rng.Intn(400)
		var doc bytes.Buffer
		var want []string
		for i := 0; i < n; i++ {
			v := reflect.New(k.typ).Elem()
			p := vals[o.rng.Intn(len(vals))]
			if o.rng.Intn(2) == 0 {
				p = o.rng.Uint64() >> uint(o.rng.Intn(64))
			}
			setPattern(k, v, p)
			want = append(want, oracleText(k, v))
			doc.WriteString(oracleText(k, v))
			doc.WriteString([]string{" ", "\n", "\t", "\r\n", "  "}[o.rng.Intn(5)])
		}
		for _, one := range []bool{false, true} {
			var rd io.Reader = bytes.NewReader(doc.Bytes())
			if one {
				rd = iotest.OneByteReader(rd)
			}
			dec := gojson.NewDecoder(rd)
			bad := ""
			for i := 0; i <= n && bad == ""; i++ {
				pv := reflect.New(k.typ)
				err := safeCall(func() error { return dec.Decode(pv.Interface()) })
				switch {
				case i == n && err != io.EOF:
					bad = fmt.Sprintf("after the last value: err=%v", err)
				case i < n && err != nil:
					bad = fmt.Sprintf("value %d (%s): err=%v", i, want[i], err)
				case i < n && oracleText(k, pv.Elem()) != want[i]:
					bad = fmt.Sprintf("value %d: got %s want %s", i, oracleText(k, pv.Elem()), want[i])
				}
			}
			o.count("stream_sequence_values", int64(n))
			if bad != "" {
				o.violation("C16", "a sequence of integer literals read through one Decoder is not the sequence written",
					map[string]string{"kind": k.name, "onebyte": fmt.Sprint(one), "where": bad, "doc": clipC16(doc.String())})
			}
		}
	}
	// a literal across the end of the first window
	for pad := 500; pad <= 530; pad++ {
		for _, p := range []uint64{vals[pad%len(vals)], vals[(pad*7+3)%len(vals)]} {
			v := reflect.New(k.typ).Elem()
			setPattern(k, v, p)
			lit := oracleText(k, v)
			for _, tail := range []string{"", " ", "\n"} {
				doc := strings.Repeat(" ", pad) + lit + tail
				want := decodeObs(k, stdjson.Unmarshal, []byte(doc))
				for _, one := range []bool{false, true} {
					got := decodeObs(k, streamUnmarshal(one), []byte(doc))
					o.count("stream_window_cases", 1)
					if got != want {
						o.violation("C16", "integer literal across the end of the stream window decoded differently",
							map[string]string{"kind": k.name, "leading_spaces": strconv.Itoa(pad), "literal": lit, "onebyte": fmt.Sprint(one), "impl": got, "oracle": want})
					}
				}
			}
		}
	}
}

func clipC16(s string) string {
	if len(s) > 300 {
		return s[:300] + "..."
	}
	return s
}

// c16Exhaustive32: the quantifier's "all 2^32 values of the 32-bit types (thorough
// tier)": every int32 and uint32 value is printed (against strconv) and its text is
// decoded again (must give the value back), 4096 values per Marshal/Unmarshal call as
// elements of a slice (the per-call overhead would otherwise cost most of an hour), in
// parallel on all CPUs.  The stride can be raised with AUDIT_C16_STRIDE32 (default 1:
// every value).
func c16Exhaustive32(o *Out) {
	stride := uint64(1)
	if s, err := strconv.ParseUint(os.Getenv("AUDIT_C16_STRIDE32"), 10, 32); err == nil && s > 0 {
		stride = s
	}
	const chunk = 4096
	workers := runtime.NumCPU()
	type res struct {
		n    int64
		viol []map[string]string
	}
	out := make([]res, workers)
	var wg sync.WaitGroup
	span := (uint64(1)<<32 + uint64(workers) - 1) / uint64(workers)
	for w := 0; w < workers; w++ {
		wg.Add(1)
		go func(w int) {
			defer wg.Done()
			r := &out[w]
			lo, hi := uint64(w)*span, uint64(w+1)*span
			if hi > 1<<32 {
				hi = 1 << 32
			}
			lo = (lo + stride - 1) / stride * stride
			is := make([]int32, 0, chunk)
			us := make([]uint32, 0, chunk)
			var itext, utext []byte
			fail := func(kind, what, detail string) {
				if len(r.viol) < 5 {
					r.viol = append(r.viol, map[string]string{"kind": kind, "what_failed": what, "detail": detail})
				}
			}
			flush := func() {
				if len(is) == 0 {
					return
				}
				itext = append(itext[:0], '[')
				utext = append(utext[:0], '[')
				for i := range is {
					if i > 0 {
						itext = append(itext, ',')
						utext = append(utext, ',')
					}
					itext = strconv.AppendInt(itext, int64(is[i]), 10)
					utext = strconv.AppendUint(utext, uint64(us[i]), 10)
				}
				itext = append(itext, ']')
				utext = append(utext, ']')
				if got, err := gojson.Marshal(is); err != nil || !bytes.Equal(got, itext) {
					fail("int32", "printing", c16FirstDiff(got, itext)+fmt.Sprint(" err=", err))
				}
				if got, err := gojson.Marshal(us); err != nil || !bytes.Equal(got, utext) {
					fail("uint32", "printing", c16FirstDiff(got, utext)+fmt.Sprint(" err=", err))
				}
				var ib []int32
				if err := gojson.Unmarshal(itext, &ib); err != nil || len(ib) != len(is) {
					fail("int32", "decoding", fmt.Sprintf("err=%v len=%d first=%d", err, len(ib), is[0]))
				} else {
					for i := range is {
						if ib[i] != is[i] {
							fail("int32", "decoding", fmt.Sprintf("literal %d decoded to %d", is[i], ib[i]))
							break
						}
					}
				}
				var ub []uint32
				if err := gojson.Unmarshal(utext, &ub); err != nil || len(ub) != len(us) {
					fail("uint32", "decoding", fmt.Sprintf("err=%v len=%d first=%d", err, len(ub), us[0]))
				} else {
					for i := range us {
						if ub[i] != us[i] {
							fail("uint32", "decoding", fmt.Sprintf("literal %d decoded to %d", us[i], ub[i]))
							break
						}
					}
				}
				r.n += 2 * int64(len(is))
				is, us = is[:0], us[:0]
			}
			for p := lo; p < hi; p += stride {
				is = append(is, int32(uint32(p)))
				us = append(us, uint32(p))
				if len(is) == chunk {
					flush()
				}
			}
			flush()
		}(w)
	}
	wg.Wait()
	for _, r := range out {
		o.count("exhaustive32_values", r.n)
		for _, v := range r.viol {
			o.violation("C16", "a 32-bit value is not printed exactly or not read back from its text", v)
		}
	}
	o.Notes = append(o.Notes, fmt.Sprintf("exhaustive 32-bit sweep: stride %d, %d workers", stride, workers))
}

// c16FirstDiff shows the surroundings of the first byte at which two texts differ
func c16FirstDiff(got, want []byte) string {
	i := 0
	for i < len(got) && i < len(want) && got[i] == want[i] {
		i++
	}
	lo := i - 24
	if lo < 0 {
		lo = 0
	}
	clip := func(b []byte) string {
		hi := i + 24
		if hi > len(b) {
			hi = len(b)
		}
		if lo > hi {
			return ""
		}
		return string(b[lo:hi])
	}
	return fmt.Sprintf("at byte %d: impl ...%s... oracle ...%s...", i, clip(got), clip(want))
}
