package main

// C04: Marshal followed by Unmarshal reproduces the value.  Types come from the
// lossless part of the C01 grammar, values from the boundary tables (extreme
// integers of every width, floats that need 17 digits, every escape class,
// nil and empty containers, nesting).  "Round-trippable" is decided by
// encoding/json itself: a value counts when encoding/json's own
// Unmarshal(Marshal(v)) gives v back; go-json must then do the same through
// Marshal/Unmarshal, MarshalIndent/Unmarshal, Encoder/Decoder (one value and a
// stream of several), and through encoding/json's text (Unmarshal of the text
// encoding/json wrote).  Values whose shape is one of C01's recorded encoder
// findings are left to C01.

import (
	"bytes"
	stdjson "encoding/json"
	"fmt"
	"math/rand"
	"reflect"
	"strconv"
	"strings"
	"unicode/utf8"

	gojson "github.com/goccy/go-json"
)

func init() { props["C04"] = runC04 }

func c04SafeErr(f func() error) (err error) {
	defer func() {
		if rec := recover(); rec != nil {
			err = fmt.Errorf("PANIC: %v", rec)
		}
	}()
	return f()
}

type c04Route struct {
	name string
	run  func(v reflect.Value, t reflect.Type) (reflect.Value, []byte, error) // v: pointer to the value
}

var c04Routes = []c04Route{
	{"Marshal->Unmarshal", func(v reflect.Value, t reflect.Type) (reflect.Value, []byte, error) {
		b, err := c01Safe(func() ([]byte, error) { return gojson.Marshal(v.Elem().Interface()) })
		if err != nil {
			return reflect.Value{}, b, err
		}
		out := reflect.New(t)
		return out, b, c04SafeErr(func() error { return gojson.Unmarshal(b, out.Interface()) })
	}},
	{"Marshal(&v)->Unmarshal", func(v reflect.Value, t reflect.Type) (reflect.Value, []byte, error) {
		b, err := c01Safe(func() ([]byte, error) { return gojson.Marshal(v.Interface()) })
		if err != nil {
			return reflect.Value{}, b, err
		}
		out := reflect.New(t)
		return out, b, c04SafeErr(func() error { return gojson.Unmarshal(b, out.Interface()) })
	}},
	{"MarshalIndent->Unmarshal", func(v reflect.Value, t reflect.Type) (reflect.Value, []byte, error) {
		b, err := c01Safe(func() ([]byte, error) { return gojson.MarshalIndent(v.Elem().Interface(), "", "\t") })
		if err != nil {
			return reflect.Value{}, b, err
		}
		out := reflect.New(t)
		return out, b, c04SafeErr(func() error { return gojson.Unmarshal(b, out.Interface()) })
	}},
	{"Encoder->Decoder", func(v reflect.Value, t reflect.Type) (reflect.Value, []byte, error) {
		var buf bytes.Buffer
		if err := c04SafeErr(func() error { return gojson.NewEncoder(&buf).Encode(v.Elem().Interface()) }); err != nil {
			return reflect.Value{}, nil, err
		}
		b := append([]byte(nil), buf.Bytes()...)
		out := reflect.New(t)
		return out, b, c04SafeErr(func() error { return gojson.NewDecoder(&buf).Decode(out.Interface()) })
	}},
	{"Encoder(indent)->Decoder(one byte at a time)", func(v reflect.Value, t reflect.Type) (reflect.Value, []byte, error) {
		var buf bytes.Buffer
		e := gojson.NewEncoder(&buf)
		e.SetIndent(" ", "  ")
		if err := c04SafeErr(func() error { return e.Encode(v.Elem().Interface()) }); err != nil {
			return reflect.Value{}, nil, err
		}
		b := append([]byte(nil), buf.Bytes()...)
		out := reflect.New(t)
		return out, b, c04SafeErr(func() error { return gojson.NewDecoder(&oneByteReader{b: b}).Decode(out.Interface()) })
	}},
	{"encoding/json text->Unmarshal", func(v reflect.Value, t reflect.Type) (reflect.Value, []byte, error) {
		b, err := stdjson.Marshal(v.Elem().Interface())
		if err != nil {
			return reflect.Value{}, b, err
		}
		out := reflect.New(t)
		return out, b, c04SafeErr(func() error { return gojson.Unmarshal(b, out.Interface()) })
	}},
}

type oneByteReader struct {
	b []byte
	i int
}

func (r *oneByteReader) Read(p []byte) (int, error) {
	if r.i >= len(r.b) {
		return 0, fmt.Errorf("EOF")
	}
	if len(p) == 0 {
		return 0, nil
	}
	p[0] = r.b[r.i]
	r.i++
	return 1, nil
}

func c04StdRoundTrips(v reflect.Value, t reflect.Type) bool {
	b, err := stdjson.Marshal(v.Elem().Interface())
	if err != nil {
		return false
	}
	out := reflect.New(t)
	if err := stdjson.Unmarshal(b, out.Interface()); err != nil {
		return false
	}
	return reflect.DeepEqual(out.Elem().Interface(), v.Elem().Interface())
}

func runC04(o *Out) {
	slicePoolProbe(o, "C04")
	r := o.rng
	n := 2500
	if o.tier == "thorough" {
		n = 40000
	}
	made := 0
	for attempts := 0; made < n && attempts < n*30; attempts++ {
		var t reflect.Type
		if attempts%3 == 0 {
			t = tgType(r, 3, tgOpts{lossless: true})
		} else if attempts%4 == 1 {
			t = tgStruct(r, 1, tgOpts{lossless: true, wide: true})
		} else {
			t = tgStruct(r, 2, tgOpts{lossless: true})
		}
		if tgKnownBadAnywhere(reflect.PtrTo(t), 0) != "" {
			continue
		}
		v := reflect.New(t)
		tgValue(r, v.Elem(), 0, []int{0, 15, 40}[attempts%3], false)
		c04Sanitize(v.Elem(), 0)
		if c01CrashClass(t, v, 0) != "" || c01CrashClass(t, v, 1) != "" {
			o.count("values_left_to_c01_shapes", 1)
			continue
		}
		if !c04StdRoundTrips(v, t) {
			o.count("values_encoding_json_does_not_round_trip", 1)
			continue
		}
		made++
		o.hist("kind", t.Kind().String())
		c04One(o, r, t, v)
	}
	o.count("round_trippable_values", int64(made))
	c04Streams(o, r)
	c04Base64(o)
}

// the text Marshal wrote, read back into an interface{} (UseNumber): go-json's reading beside the model's
// (parse_json, read_tree, gen_of of coq/Model) and encoding/json's -- op c02.dec with the type interface{}
func c04ReadBack(o *Out, v reflect.Value) {
	text, err := c01Safe(func() ([]byte, error) { return gojson.Marshal(v.Elem().Interface()) })
	if err != nil || !utf8.Valid(text) {
		return
	}
	read := func(f func([]byte, interface{}) error) (string, bool) {
		var x interface{}
		if err := c04SafeErr(func() error { return f(text, &x) }); err != nil {
			return "E", true
		}
		var w strings.Builder
		w.WriteByte('O')
		if x == nil {
			w.WriteByte('Z')
			return w.String(), true
		}
		w.WriteByte('G')
		if !c02mGenWire(&w, x) {
			return "", false
		}
		return w.String(), true
	}
	got, ok1 := read(func(b []byte, x interface{}) error {
		d := gojson.NewDecoder(bytes.NewReader(b))
		d.UseNumber()
		return d.Decode(x)
	})
	want, ok2 := read(func(b []byte, x interface{}) error {
		d := stdjson.NewDecoder(bytes.NewReader(b))
		d.UseNumber()
		return d.Decode(x)
	})
	if !ok1 || !ok2 {
		return
	}
	o.emit("A", "c02.dec", [][]byte{[]byte("f"), text, []byte("Z")}, []byte(got), []byte(want), true)
	o.count("read_back_model_cases", 1)
}

func c04One(o *Out, r *rand.Rand, t reflect.Type, v reflect.Value) {
	c04ReadBack(o, v)
	for _, rt := range c04Routes {
		o.current(map[string]string{"property": "C04", "type": clipN(t.String(), 600), "value": c01Describe(t, v), "route": rt.name})
		out, text, err := rt.run(v, t)
		o.count("round_trips", 1)
		if err == nil && reflect.DeepEqual(out.Elem().Interface(), v.Elem().Interface()) {
			continue
		}
		if cls := c04Classify(t, v, rt.name, text, err); cls != "" {
			o.known(cls, rt.name+" "+clipN(t.String(), 160))
			continue
		}
		got := "<none>"
		if out.IsValid() {
			got = clipN(fmt.Sprintf("%#v", out.Elem().Interface()), 400)
		}
		o.violation("C04", "the value does not come back", map[string]string{
			"route": rt.name, "type": clipN(t.String(), 600), "value": c01Describe(t, v), "text": clipN(string(text), 500),
			"got": got, "err": fmt.Sprint(err)})
	}
}

// several values of different types through one Encoder and one Decoder
func c04Streams(o *Out, r *rand.Rand) {
	n := 150
	if o.tier == "thorough" {
		n = 3000
	}
	for i := 0; i < n; i++ {
		var buf bytes.Buffer
		enc := gojson.NewEncoder(&buf)
		if i%2 == 1 {
			enc.SetIndent("", " ")
		}
		type item struct {
			t reflect.Type
			v reflect.Value
		}
		var items []item
		ok := true
		for k := 0; k < 2+r.Intn(4) && ok; {
			t := tgStruct(r, 2, tgOpts{lossless: true})
			if tgKnownBadAnywhere(reflect.PtrTo(t), 0) != "" {
				continue
			}
			v := reflect.New(t)
			tgValue(r, v.Elem(), 0, 15, false)
			c04Sanitize(v.Elem(), 0)
			if c01CrashClass(t, v, 0) != "" || !c04StdRoundTrips(v, t) {
				continue
			}
			o.current(map[string]string{"property": "C04", "type": clipN(t.String(), 600), "value": c01Describe(t, v), "route": "stream"})
			if err := c04SafeErr(func() error { return enc.Encode(v.Elem().Interface()) }); err != nil {
				o.violation("C04", "Encoder fails on a round-trippable value", map[string]string{"type": clipN(t.String(), 600), "value": c01Describe(t, v), "err": err.Error()})
				ok = false
			}
			items = append(items, item{t, v})
			k++
		}
		if !ok {
			continue
		}
		text := append([]byte(nil), buf.Bytes()...)
		var rd interface {
			Read([]byte) (int, error)
		} = &buf
		if i%3 == 0 {
			rd = &oneByteReader{b: text}
		}
		dec := gojson.NewDecoder(rd)
		for k, it := range items {
			out := reflect.New(it.t)
			err := c04SafeErr(func() error { return dec.Decode(out.Interface()) })
			o.count("stream_values", 1)
			if err != nil || !reflect.DeepEqual(out.Elem().Interface(), it.v.Elem().Interface()) {
				o.violation("C04", "value "+strconv.Itoa(k)+" of a stream does not come back", map[string]string{
					"type": clipN(it.t.String(), 600), "value": c01Describe(it.t, it.v), "stream": clipN(string(text), 60000), "reader": fmt.Sprintf("%T", rd), "index": strconv.Itoa(k),
					"got": clipN(fmt.Sprintf("%#v", out.Elem().Interface()), 400), "err": fmt.Sprint(err)})
				break
			}
		}
	}
}

func c04Classify(t reflect.Type, v reflect.Value, route string, text []byte, err error) string {
	return ""
}

// c04Sanitize removes what no JSON text can carry: values of fields tagged "-", invalid UTF-8 in strings
// (map keys are left alone; such maps fail encoding/json's own round trip and are skipped)
func c04Sanitize(v reflect.Value, depth int) {
	if depth > 30 {
		return
	}
	switch v.Kind() {
	case reflect.String:
		if v.CanSet() && !utf8.ValidString(v.String()) {
			v.SetString(strings.ToValidUTF8(v.String(), "?"))
		}
	case reflect.Ptr:
		if !v.IsNil() {
			c04Sanitize(v.Elem(), depth+1)
		}
	case reflect.Interface:
		if !v.IsNil() && v.CanSet() {
			x := reflect.New(v.Elem().Type()).Elem()
			x.Set(v.Elem())
			c04Sanitize(x, depth+1)
			v.Set(x)
		}
	case reflect.Slice, reflect.Array:
		for i := 0; i < v.Len(); i++ {
			c04Sanitize(v.Index(i), depth+1)
		}
	case reflect.Map:
		it := v.MapRange()
		for it.Next() {
			x := reflect.New(v.Type().Elem()).Elem()
			x.Set(it.Value())
			c04Sanitize(x, depth+1)
			v.SetMapIndex(it.Key(), x)
		}
	case reflect.Struct:
		for i := 0; i < v.NumField(); i++ {
			f := v.Type().Field(i)
			if f.Tag.Get("json") == "-" && v.Field(i).CanSet() {
				v.Field(i).Set(reflect.Zero(f.Type))
				continue
			}
			c04Sanitize(v.Field(i), depth+1)
		}
	}
}
