package main

// C04 / C02, byte slices (coq/Model/Base64.v, ops c04.b64enc and c04.b64dec): what Marshal writes for a []byte and what
// Unmarshal stores for a string, beside the model and beside encoding/base64 (the library both sides call).

import (
	"encoding/base64"
	stdjson "encoding/json"
	"math/rand"
	"strconv"

	gojson "github.com/goccy/go-json"
)

func c04B64Texts(r *rand.Rand, n int) [][]byte {
	var out [][]byte
	alpha := []byte("ABCDEFGHIJKLMNOPQRSTUVWXYZabcdefghijklmnopqrstuvwxyz0123456789+/")
	for i := 0; i < n; i++ {
		k := []int{0, 1, 2, 3, 4, 5, 6, 7, 8, 9, 10, 11, 12, 13, 22, 23, 24, 25, 47, 48, 49, 100}[r.Intn(22)]
		bs := make([]byte, k)
		switch r.Intn(4) {
		case 0:
			for j := range bs {
				bs[j] = []byte{0, 0xff, 0x80, 0x7f}[r.Intn(4)]
			}
		default:
			r.Read(bs)
		}
		t := []byte(base64.StdEncoding.EncodeToString(bs))
		switch r.Intn(12) {
		case 0: // CR / LF anywhere
			for m := 0; m < 1+r.Intn(3); m++ {
				p := r.Intn(len(t) + 1)
				t = append(t[:p:p], append([]byte{[]byte("\r\n")[r.Intn(2)]}, t[p:]...)...)
			}
		case 1: // cut short
			if len(t) > 0 {
				t = t[:r.Intn(len(t))]
			}
		case 2: // a character outside the alphabet
			if len(t) > 0 {
				t[r.Intn(len(t))] = []byte("-_ .=*\t\x00\x7f\xc3")[r.Intn(10)]
			}
		case 3: // padding where it does not belong, or missing
			p := r.Intn(len(t) + 1)
			t = append(t[:p:p], append([]byte("="), t[p:]...)...)
		case 4: // unused bits of the last sextet set
			for j := len(t) - 1; j >= 0; j-- {
				if t[j] != '=' {
					t[j] = alpha[r.Intn(64)]
					break
				}
			}
		case 5: // something behind the padding
			t = append(t, []byte{'A', '\n', '=', ' '}[r.Intn(4)])
		case 6: // no padding at all
			for len(t) > 0 && t[len(t)-1] == '=' {
				t = t[:len(t)-1]
			}
		case 7: // the URL alphabet
			t = []byte(base64.URLEncoding.EncodeToString(bs))
		}
		out = append(out, t)
	}
	return out
}

func c04Base64(o *Out) {
	r := o.rng
	n := 600
	if o.tier == "thorough" {
		n = 20000
	}
	// ---- encoding: every length class, as the value itself, as a field, as an element, behind a pointer ----
	for i := 0; i < n; i++ {
		k := r.Intn(70)
		if i < 40 {
			k = i
		}
		bs := make([]byte, k)
		r.Read(bs)
		o.current(map[string]string{"property": "C04", "api": "Marshal([]byte)", "bytes": hx(bs)})
		got, err := gojson.Marshal(bs)
		want := `"` + base64.StdEncoding.EncodeToString(bs) + `"`
		if err != nil || string(got) != want {
			o.violation("C04", "Marshal of a byte slice is not the base64 text of the bytes", map[string]string{"bytes": hx(bs), "got": clip(string(got)), "want": clip(want)})
			continue
		}
		o.emit("A", "c04.b64enc", [][]byte{bs}, got[1:len(got)-1], []byte(want[1:len(want)-1]), true)
		type holder struct {
			A []byte
			B *[]byte
			C [][]byte
			D map[string][]byte
			E interface{}
		}
		h := holder{A: bs, B: &bs, C: [][]byte{bs, nil, {}}, D: map[string][]byte{"k": bs}, E: bs}
		text, err := gojson.Marshal(h)
		stdText, _ := stdjson.Marshal(h)
		if err != nil || string(text) != string(stdText) {
			o.violation("C04", "byte slices inside a value are written differently from encoding/json", map[string]string{"bytes": hx(bs), "got": clip(string(text)), "want": clip(string(stdText))})
			continue
		}
		var back, stdBack holder
		e1 := gojson.Unmarshal(text, &back)
		e2 := stdjson.Unmarshal(text, &stdBack)
		a, _ := stdjson.Marshal(back)
		b, _ := stdjson.Marshal(stdBack)
		if (e1 == nil) != (e2 == nil) || string(a) != string(b) || (back.C[1] == nil) != (stdBack.C[1] == nil) || (back.C[2] == nil) != (stdBack.C[2] == nil) {
			o.violation("C04", "byte slices inside a value do not come back from Unmarshal(Marshal(v)) as from encoding/json", map[string]string{"bytes": hx(bs), "text": clip(string(text)), "got": clip(string(a)), "want": clip(string(b))})
		}
		o.count("byte_slice_round_trips", 1)
	}
	// ---- decoding: valid texts, texts with CR/LF, and broken ones, through Unmarshal and through a Decoder ----
	for _, t := range c04B64Texts(r, n) {
		lit, _ := stdjson.Marshal(string(t)) // the JSON string holding exactly these characters
		if string(t) != func() string { var s string; stdjson.Unmarshal(lit, &s); return s }() {
			continue // not representable as it is (invalid UTF-8 would be replaced)
		}
		o.current(map[string]string{"property": "C04", "api": "Unmarshal into []byte", "text": strconv.Quote(string(t))})
		show := func(b []byte, err error) string {
			if err != nil {
				return "E"
			}
			return "O" + string(b)
		}
		var g1, g2, w []byte
		canary := []byte{1, 2, 3}
		g1 = canary
		got := show(g1, nil)
		if err := gojson.Unmarshal(lit, &g1); err != nil {
			got = "E"
		} else {
			got = show(g1, nil)
		}
		err2 := gojson.NewDecoder(&pieceReader{b: lit, size: 1 + r.Intn(9), failAt: -1}).Decode(&g2)
		errW := stdjson.Unmarshal(lit, &w)
		want := show(w, errW)
		if got != want || show(g2, err2) != want {
			o.violation("C04", "a base64 string is decoded into []byte differently from encoding/json", map[string]string{
				"text": strconv.Quote(string(t)), "unmarshal": clip(got), "decoder": clip(show(g2, err2)), "want": clip(want)})
			continue
		}
		ref, rerr := base64.StdEncoding.DecodeString(string(t))
		o.emit("A", "c04.b64dec", [][]byte{t}, []byte(got), []byte(show(ref, rerr)), true)
		if rerr != nil {
			o.hist("base64_text", "refused")
		} else {
			o.hist("base64_text", "accepted")
		}
	}
}
