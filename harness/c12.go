package main

// C12: no aliasing between caller data and library buffers.
//   decode side: the caller's input bytes (including the spare capacity behind
//     them) are never modified; nothing decoded changes when the input is
//     overwritten afterwards or when later calls recycle the pooled buffers;
//     values decoded earlier from a Decoder survive later Decode calls.
//   encode side: every returned slice stays what it was whatever the library
//     does later, and overwriting it does not influence later results.
// Everything is compared with snapshots taken at the time and with
// encoding/json.  The static side (fresh copy of the input, nothing pooled is
// returned) is read by the translator and used by the theorems.

import (
	"bytes"
	"context"
	stdjson "encoding/json"
	"fmt"
	"io"
	"math/rand"
	"os"
	"strconv"
	"strings"

	gojson "github.com/goccy/go-json"
)

func init() { props["C12"] = runC12 }

type c12U struct{ Kept []byte }

func (u *c12U) UnmarshalJSON(b []byte) error { u.Kept = b; return nil } // retains what it was handed

type c12T struct{ Kept []byte }

func (t *c12T) UnmarshalText(b []byte) error { t.Kept = b; return nil }

type c12Doc struct {
	S  string                 `json:"s"`
	S2 string                 `json:"s2"`
	B  []byte                 `json:"b"`
	R  gojson.RawMessage      `json:"r"`
	N  gojson.Number          `json:"n"`
	U  c12U                   `json:"u"`
	UP *c12U                  `json:"up"`
	T  c12T                   `json:"t"`
	I  interface{}            `json:"i"`
	M  map[string]string      `json:"m"`
	MI map[string]interface{} `json:"mi"`
	L  []string               `json:"l"`
	P  *string                `json:"p"`
	RL []gojson.RawMessage    `json:"rl"`
	// elements the slice decoder builds in its pooled working array before it copies them out: what an earlier
	// result holds (pointers, maps, nested slices) must not be reachable from a later one
	LP []*c12Sub           `json:"lp"`
	LM []map[string]string `json:"lm"`
	LL [][]*string         `json:"ll"`
	LS []c12Sub            `json:"ls"`
	LI []interface{}       `json:"li"`
	// audit A8: quoted members (wrapped_string.go works on a window of the document), numbers, raw messages and byte
	// slices as elements and map values, []byte written as an array, a pointer to a raw message
	QS string                       `json:"qs,string"`
	QN gojson.Number                `json:"qn,string"`
	QI int64                        `json:"qi,string"`
	QP *string                      `json:"qp,string"`
	NL []gojson.Number              `json:"nl"`
	MN map[string]gojson.Number     `json:"mn"`
	MR map[string]gojson.RawMessage `json:"mr"`
	MB map[string][]byte            `json:"mb"`
	BA []byte                       `json:"ba"`
	PR *gojson.RawMessage           `json:"pr"`
	MT map[c12TK]string             `json:"mt"`
}

// a map key that is a TextUnmarshaler: what UnmarshalText was handed is kept beside the key
type c12TK struct{ K string }

var c12TKKept [][]byte

func (k *c12TK) UnmarshalText(b []byte) error {
	k.K = string(b)
	if len(c12TKKept) < 64 {
		c12TKKept = append(c12TKKept, b)
	}
	return nil
}

type c12Sub struct {
	A int     `json:"a"`
	B string  `json:"b"`
	C *string `json:"c"`
}

func c12Snap(d *c12Doc) string {
	var b strings.Builder
	fmt.Fprintf(&b, "S=%q S2=%q B=%x R=%q N=%q U=%q T=%q", d.S, d.S2, d.B, string(d.R), string(d.N), string(d.U.Kept), string(d.T.Kept))
	if d.UP != nil {
		fmt.Fprintf(&b, " UP=%q", string(d.UP.Kept))
	}
	fmt.Fprintf(&b, " I=%#v", d.I)
	var ks []string
	for k := range d.M {
		ks = append(ks, k)
	}
	sortStrings(ks)
	for _, k := range ks {
		fmt.Fprintf(&b, " M[%q]=%q", k, d.M[k])
	}
	ks = ks[:0]
	for k := range d.MI {
		ks = append(ks, k)
	}
	sortStrings(ks)
	for _, k := range ks {
		fmt.Fprintf(&b, " MI[%q]=%#v", k, d.MI[k])
	}
	fmt.Fprintf(&b, " L=%q", d.L)
	if d.P != nil {
		fmt.Fprintf(&b, " P=%q", *d.P)
	}
	for _, r := range d.RL {
		fmt.Fprintf(&b, " RL=%q", string(r))
	}
	sub := func(x *c12Sub) {
		if x == nil {
			b.WriteString(" nil")
			return
		}
		fmt.Fprintf(&b, " {%d %q", x.A, x.B)
		if x.C != nil {
			fmt.Fprintf(&b, " %q", *x.C)
		}
		b.WriteString("}")
	}
	b.WriteString(" LP=")
	for _, x := range d.LP {
		sub(x)
	}
	b.WriteString(" LS=")
	for i := range d.LS {
		sub(&d.LS[i])
	}
	for _, m := range d.LM {
		ks = ks[:0]
		for k := range m {
			ks = append(ks, k)
		}
		sortStrings(ks)
		b.WriteString(" LM{")
		for _, k := range ks {
			fmt.Fprintf(&b, "%q=%q ", k, m[k])
		}
		b.WriteString("}")
	}
	for _, l := range d.LL {
		b.WriteString(" LL[")
		for _, x := range l {
			if x == nil {
				b.WriteString("nil ")
			} else {
				fmt.Fprintf(&b, "%q ", *x)
			}
		}
		b.WriteString("]")
	}
	fmt.Fprintf(&b, " LI=%#v", d.LI)
	fmt.Fprintf(&b, " QS=%q QN=%q QI=%d NL=%q BA=%x", d.QS, string(d.QN), d.QI, d.NL, d.BA)
	if d.QP != nil {
		fmt.Fprintf(&b, " QP=%q", *d.QP)
	}
	if d.PR != nil {
		fmt.Fprintf(&b, " PR=%q", string(*d.PR))
	}
	ks = ks[:0]
	for k := range d.MN {
		ks = append(ks, k)
	}
	sortStrings(ks)
	for _, k := range ks {
		fmt.Fprintf(&b, " MN[%q]=%q", k, string(d.MN[k]))
	}
	ks = ks[:0]
	for k := range d.MR {
		ks = append(ks, k)
	}
	sortStrings(ks)
	for _, k := range ks {
		fmt.Fprintf(&b, " MR[%q]=%q", k, string(d.MR[k]))
	}
	ks = ks[:0]
	for k := range d.MB {
		ks = append(ks, k)
	}
	sortStrings(ks)
	for _, k := range ks {
		fmt.Fprintf(&b, " MB[%q]=%x", k, d.MB[k])
	}
	ks = ks[:0]
	for k := range d.MT {
		ks = append(ks, k.K)
	}
	sortStrings(ks)
	for _, k := range ks {
		fmt.Fprintf(&b, " MT[%q]=%q", k, d.MT[c12TK{k}])
	}
	return b.String()
}

func sortStrings(s []string) {
	for i := 1; i < len(s); i++ {
		for j := i; j > 0 && s[j] < s[j-1]; j-- {
			s[j], s[j-1] = s[j-1], s[j]
		}
	}
}

var c12Spell = map[string]int64{} // how often the generators wrote the spellings added by audit A8 (histogram document_spellings)

func c12Str(r *rand.Rand) string {
	n := []int{0, 1, 7, 8, 9, 30, 200, 3000}[r.Intn(8)]
	invalid := r.Intn(25) == 0 // one string in 25 has bytes that are not UTF-8 (the two modes treat them differently: recorded under C09)
	var b strings.Builder
	b.WriteByte('"')
	for i := 0; i < n; i++ {
		switch r.Intn(22) {
		case 0:
			b.WriteString(`\n`)
		case 1:
			b.WriteString(`é`)
		case 2:
			b.WriteString(`😀`)
		case 3:
			b.WriteString(`\"`)
		case 4:
			b.WriteString("é")
		case 5:
			// audit A8: the escapes that change the length of the window they are decoded in (six bytes become one to
			// three, twelve become four), the other single-character escapes, and bytes that are not UTF-8
			b.WriteString([]string{`\u00e9`, `\u0041`, `\u20AC`, `\u2028`, `\u0000`}[r.Intn(5)])
			c12Spell["\\uXXXX escape"]++
		case 6:
			b.WriteString([]string{`\ud83d\ude00`, `\uD834\uDD1E`}[r.Intn(2)])
			c12Spell["surrogate pair escape"]++
		case 7:
			b.WriteString([]string{`\ud800`, `\udc00x`, `\ud83d\u0041`}[r.Intn(3)]) // lone surrogates
			c12Spell["lone surrogate escape"]++
		case 8:
			b.WriteString([]string{`\/`, `\b`, `\f`, `\r`, `\t`, `\\`}[r.Intn(6)])
			c12Spell["other single-character escape"]++
		case 9:
			if invalid {
				c12Spell["bytes that are not UTF-8"]++
				b.WriteString([]string{"\xff", "\xe2\x82", "\xc0\xaf", "\xed\xa0\x80"}[r.Intn(4)])
			} else {
				b.WriteString("\u2028")
			}
		default:
			b.WriteByte(byte('a' + r.Intn(26)))
		}
	}
	b.WriteByte('"')
	return b.String()
}

func c12GenDoc(r *rand.Rand) string {
	var parts []string
	add := func(k, v string) {
		if r.Intn(4) != 0 {
			// audit A8: the spelling of the key (an escape for its first character, another case) and the white space
			// around the colon; now and then the member comes a second time
			key := k
			switch r.Intn(10) {
			case 0:
				key = fmt.Sprintf(`\u%04x`, k[0]) + k[1:]
				c12Spell["member name with an escape"]++
			case 1:
				key = strings.ToUpper(k)
				c12Spell["member name in upper case"]++
			}
			parts = append(parts, `"`+key+`"`+[]string{": ", ":", " : ", "\n:\t"}[r.Intn(4)]+v)
			if r.Intn(12) == 0 {
				parts = append(parts, `"`+k+`":`+v)
				c12Spell["member given twice"]++
			}
		}
	}
	add("s", c12Str(r))
	add("s2", c12Str(r))
	add("b", []string{`"AQID"`, `""`, `"QUJDREVGR0hJSktMTU5PUFFSU1RVVldYWVo="`, `null`}[r.Intn(4)])
	add("r", []string{`{"x": [1, 2, "three\n"]}`, `"raw\tstr"`, ` [ ] `, `12.50`, c12Str(r)}[r.Intn(5)])
	add("n", []string{`12`, `-0.5e10`, `123456789012345678901234567890`, `"77"`}[r.Intn(4)])
	add("u", []string{`{"k":"v\n"}`, c12Str(r), `[1,2]`, `true`}[r.Intn(4)])
	add("up", []string{`{"k":"v\n"}`, c12Str(r), `null`}[r.Intn(3)])
	add("t", c12Str(r))
	add("i", []string{c12Str(r), `[` + c12Str(r) + `, {"a":` + c12Str(r) + `}]`, `{"k` + strconv.Itoa(r.Intn(9)) + `\n":` + c12Str(r) + `}`, `1.5`}[r.Intn(4)])
	add("m", `{"a\n":`+c12Str(r)+`,"plainkey":`+c12Str(r)+`}`)
	add("mi", `{"x":`+c12Str(r)+`,"y":[`+c12Str(r)+`]}`)
	add("l", `[`+c12Str(r)+`,`+c12Str(r)+`]`)
	add("p", c12Str(r))
	add("rl", `[ {"a":1} , "x" ,[2]]`)
	subs := func(null string) string {
		n := r.Intn(5)
		var e []string
		for i := 0; i < n; i++ {
			switch r.Intn(5) {
			case 0:
				e = append(e, null)
			case 1:
				e = append(e, `{"a":`+strconv.Itoa(r.Intn(100))+`}`)
			case 2:
				e = append(e, `{"b":`+c12Str(r)+`}`)
			default:
				e = append(e, `{"a":`+strconv.Itoa(r.Intn(100))+`,"b":`+c12Str(r)+`,"c":`+c12Str(r)+`}`)
			}
		}
		return "[" + strings.Join(e, ",") + "]"
	}
	add("lp", subs(`null`))
	add("ls", subs(`{}`)) // (replacing the text "null" afterwards also hit the characters after a \n inside a string: an invalid document)
	{
		n := r.Intn(4)
		var e []string
		for i := 0; i < n; i++ {
			e = append(e, []string{`{"k":` + c12Str(r) + `}`, `{}`, `{"k":"v","j` + strconv.Itoa(r.Intn(5)) + `":"w"}`, `null`}[r.Intn(4)])
		}
		add("lm", "["+strings.Join(e, ",")+"]")
		e = e[:0]
		n = r.Intn(4)
		for i := 0; i < n; i++ {
			e = append(e, []string{`[` + c12Str(r) + `]`, `[]`, `[null,` + c12Str(r) + `,"x"]`, `null`}[r.Intn(4)])
		}
		add("ll", "["+strings.Join(e, ",")+"]")
		add("li", []string{`[]`, `[1,"a",{"k":[2]}]`, `[[` + c12Str(r) + `],null]`}[r.Intn(3)])
	}
	{
		inner := c12Str(r)
		quoted, _ := stdjson.Marshal(inner) // a string whose content is a string literal
		add("qs", string(quoted))
		add("qn", []string{`"12.5"`, `"-0"`, `"1e3"`}[r.Intn(3)])
		add("qi", []string{`"-7"`, `"9007199254740993"`, `"0"`}[r.Intn(3)])
		add("qp", []string{string(quoted), `null`}[r.Intn(2)])
		add("nl", []string{`[]`, `[1, -2.5e3 ,123456789012345678901234567890]`, `[0]`}[r.Intn(3)])
		add("mn", `{"a":1.50,"b\n":-0}`)
		add("mr", `{"x": [ 1 , `+c12Str(r)+` ], "y\t":{"k":null}}`)
		add("mb", `{"p":"AQID","q":"","r":null}`)
		add("ba", []string{`[1,2,255]`, `"AQID"`, `[]`}[r.Intn(3)])
		add("pr", []string{` {"a" : ` + c12Str(r) + `}`, `null`, `[1 ,2]`}[r.Intn(3)])
		add("mt", `{"k1":"v","k\n2":`+c12Str(r)+`}`)
	}
	r.Shuffle(len(parts), func(i, j int) { parts[i], parts[j] = parts[j], parts[i] })
	return "{" + strings.Join(parts, []string{", ", ",", " ,\n"}[r.Intn(3)]) + "}"
}

// churn makes the library recycle its pooled contexts and buffers with data of other sizes
func c12Churn(r *rand.Rand) {
	for i := 0; i < 3; i++ {
		n := []int{1, 50, 2000, 40000}[r.Intn(4)]
		v := strings.Repeat("z", n)
		gojson.Marshal(map[string]interface{}{"k": v, "l": []int{1, 2, 3}})
		var x interface{}
		gojson.Unmarshal([]byte(`{"q":"`+v+`\n","w":[1,2,3]}`), &x)
		var b bytes.Buffer
		gojson.Compact(&b, []byte(`[ "`+v+`" ]`))
		gojson.Indent(&b, []byte(`["`+v+`"]`), "", " ")
	}
}

type c12Held struct {
	got  []byte
	copy []byte
	desc string
}

func runC12(o *Out) {
	r := o.rng
	nd := 700
	if o.tier == "thorough" {
		nd = 8000
	}
	// ---------- decode side ----------
	apis := []string{"Unmarshal", "UnmarshalContext", "UnmarshalNoEscape", "UnmarshalWithOption", "Decoder"}
	for i := 0; i < nd; i++ {
		doc := c12GenDoc(r)
		spare := []int{0, 1, 7, 64, 5000}[r.Intn(5)]
		backing := make([]byte, len(doc)+spare)
		copy(backing, doc)
		for j := len(doc); j < len(backing); j++ {
			backing[j] = 0xA5
		}
		in := backing[:len(doc)]
		api := apis[r.Intn(len(apis))]
		o.hist("decode_api", api)
		o.hist("spare_capacity", strconv.Itoa(spare))
		o.current(map[string]string{"property": "C12", "api": api, "doc": clip(doc)})
		var d c12Doc
		var err error
		switch api {
		case "Unmarshal":
			err = gojson.Unmarshal(in, &d)
		case "UnmarshalContext":
			err = gojson.UnmarshalContext(context.Background(), in, &d)
		case "UnmarshalNoEscape":
			err = gojson.UnmarshalNoEscape(in, &d)
		case "UnmarshalWithOption":
			err = gojson.UnmarshalWithOption(in, &d, gojson.DecodeFieldPriorityFirstWin())
		case "Decoder":
			err = gojson.NewDecoder(bytes.NewReader(in)).Decode(&d)
		}
		o.count("decode_calls", 1)
		det := map[string]string{"api": api, "doc": clip(doc), "doc_hex": hx([]byte(doc)), "spare": strconv.Itoa(spare)}
		if string(backing[:len(doc)]) != doc {
			o.violation("C12", "decoding modified the caller's input bytes", det)
		}
		for j := len(doc); j < len(backing); j++ {
			if backing[j] != 0xA5 {
				o.violation("C12", "decoding wrote into the spare capacity behind the caller's input", det)
				break
			}
		}
		if err != nil {
			o.count("decode_errors", 1)
			if os.Getenv("C12_DEBUG") != "" {
				fmt.Fprintf(os.Stderr, "C12 decode error %s: %v\n   %q\n", api, err, doc)
			}
			continue
		}
		var sd c12Doc
		if serr := stdjson.Unmarshal([]byte(doc), &sd); serr == nil && c12Snap(&sd) != c12Snap(&d) {
			o.count("differs_from_encoding_json", 1)
			if os.Getenv("C12_DEBUG") != "" {
				a, b := c12Snap(&sd), c12Snap(&d)
				k := firstDiff([]byte(a), []byte(b))
				fmt.Fprintf(os.Stderr, "C12 differs %s: std %s\n   lib %s\n", api, around([]byte(a), k), around([]byte(b), k))
			}
		}
		snap := c12Snap(&d)
		for j := range backing {
			backing[j] = 'X'
		}
		if c12Snap(&d) != snap {
			det["before"], det["after"] = clip(snap), clip(c12Snap(&d))
			o.violation("C12", "decoded data changed when the caller overwrote its input afterwards (aliases the input)", det)
			continue
		}
		c12Churn(r)
		if c12Snap(&d) != snap {
			det["before"], det["after"] = clip(snap), clip(c12Snap(&d))
			o.violation("C12", "decoded data changed during later library calls (aliases a recycled buffer)", det)
		}
	}
	// ---------- Decoder: earlier values survive later Decode calls ----------
	ns := 60
	if o.tier == "thorough" {
		ns = 600
	}
	for i := 0; i < ns; i++ {
		k := 2 + r.Intn(12)
		var stream bytes.Buffer
		for j := 0; j < k; j++ {
			stream.WriteString(c12GenDoc(r))
			stream.WriteString([]string{"\n", " ", "", "\n\n"}[r.Intn(4)])
		}
		piece := []int{1, 7, 64, 511, 512, 4096, 1 << 20}[r.Intn(7)]
		src := stream.Bytes()
		dec := gojson.NewDecoder(&pieceReader{b: src, size: piece, failAt: -1})
		vals := make([]*c12Doc, 0, k)
		snaps := make([]string, 0, k)
		o.current(map[string]string{"property": "C12", "api": "Decoder stream", "piece": strconv.Itoa(piece), "stream": clip(string(src))})
		for {
			d := &c12Doc{}
			if err := dec.Decode(d); err != nil {
				if err != io.EOF {
					o.count("stream_decode_errors", 1)
				}
				break
			}
			vals = append(vals, d)
			snaps = append(snaps, c12Snap(d))
			for j := range vals {
				if c12Snap(vals[j]) != snaps[j] {
					o.violation("C12", "a value decoded earlier from a Decoder changed during a later Decode on the same stream", map[string]string{
						"piece": strconv.Itoa(piece), "index": strconv.Itoa(j), "after_index": strconv.Itoa(len(vals) - 1),
						"before": clip(snaps[j]), "after": clip(c12Snap(vals[j])), "stream_hex": hx(src)})
					snaps[j] = c12Snap(vals[j])
				}
			}
		}
		o.count("stream_documents", int64(len(vals)))
		o.hist("stream_piece", strconv.Itoa(piece))
	}
	// ---------- any entry point: values decoded earlier survive later decodes into other values of the same type ----------
	nh := 300
	if o.tier == "thorough" {
		nh = 4000
	}
	{
		var vals []*c12Doc
		var snaps, docs []string
		for i := 0; i < nh; i++ {
			doc := c12GenDoc(r)
			api := apis[r.Intn(len(apis))]
			o.current(map[string]string{"property": "C12", "api": "held " + api, "doc": clip(doc)})
			d := &c12Doc{}
			var err error
			switch api {
			case "Unmarshal":
				err = gojson.Unmarshal([]byte(doc), d)
			case "UnmarshalContext":
				err = gojson.UnmarshalContext(context.Background(), []byte(doc), d)
			case "UnmarshalNoEscape":
				err = gojson.UnmarshalNoEscape([]byte(doc), d)
			case "UnmarshalWithOption":
				err = gojson.UnmarshalWithOption([]byte(doc), d, gojson.DecodeFieldPriorityFirstWin())
			case "Decoder":
				err = gojson.NewDecoder(&pieceReader{b: []byte(doc), size: []int{1, 7, 512, 1 << 20}[r.Intn(4)], failAt: -1}).Decode(d)
			}
			o.count("held_decode_calls", 1)
			if err == nil {
				var sd c12Doc
				if serr := stdjson.Unmarshal([]byte(doc), &sd); serr == nil && c12Snap(&sd) != c12Snap(d) {
					o.count("differs_from_encoding_json", 1)
				}
				vals, snaps, docs = append(vals, d), append(snaps, c12Snap(d)), append(docs, doc)
			}
			for j := range vals {
				if c12Snap(vals[j]) != snaps[j] {
					o.violation("C12", "a value decoded earlier changed during a later decode into another value of the same type", map[string]string{
						"later_api": api, "later_doc_hex": hx([]byte(doc)), "earlier_doc_hex": hx([]byte(docs[j])),
						"before": clip(snaps[j]), "after": clip(c12Snap(vals[j]))})
					snaps[j] = c12Snap(vals[j])
				}
			}
			if len(vals) > 12 {
				vals, snaps, docs = vals[len(vals)-8:], snaps[len(snaps)-8:], docs[len(docs)-8:]
			}
		}
	}
	// ---------- audit A8: callbacks on every path, the Decoder's other calls, failing documents, utilities ----------
	c12Callbacks(o)
	c12DecoderCalls(o)
	c12FailingDocuments(o)
	c12Utilities(o)
	for k, v := range c12Spell {
		if o.Hist["document_spellings"] == nil {
			o.Hist["document_spellings"] = map[string]int64{}
		}
		o.Hist["document_spellings"][k] = v
	}
	// ---------- encode side ----------
	c12MarshalerWindows(o)
	c12EncodeKinds(o)
	nm := 1500
	if o.tier == "thorough" {
		nm = 20000
	}
	var held []c12Held
	mapis := []string{"Marshal", "MarshalNoEscape", "MarshalContext", "MarshalWithOption", "MarshalIndent", "MarshalIndentWithOption"}
	for i := 0; i < nm; i++ {
		n := []int{0, 1, 10, 100, 900, 1100, 5000, 70000}[r.Intn(8)]
		v := map[string]interface{}{"id": i, "s": strings.Repeat(string(rune('a'+i%26)), n), "l": []int{i, i + 1}}
		api := mapis[r.Intn(len(mapis))]
		o.hist("encode_api", api)
		o.hist("encode_size", strconv.Itoa(n))
		o.current(map[string]string{"property": "C12", "api": api, "size": strconv.Itoa(n), "call": strconv.Itoa(i)})
		var got, want []byte
		var err error
		switch api {
		case "Marshal":
			got, err = gojson.Marshal(v)
			want, _ = stdjson.Marshal(v)
		case "MarshalNoEscape":
			got, err = gojson.MarshalNoEscape(v)
			want, _ = stdjson.Marshal(v)
		case "MarshalContext":
			got, err = gojson.MarshalContext(context.Background(), v)
			want, _ = stdjson.Marshal(v)
		case "MarshalWithOption":
			got, err = gojson.MarshalWithOption(v, gojson.UnorderedMap())
			want = nil
		case "MarshalIndent":
			got, err = gojson.MarshalIndent(v, "", " ")
			want, _ = stdjson.MarshalIndent(v, "", " ")
		case "MarshalIndentWithOption":
			got, err = gojson.MarshalIndentWithOption(v, "", " ", gojson.UnorderedMap())
			want = nil
		}
		o.count("encode_calls", 1)
		if err != nil {
			o.violation("C12", "Marshal failed", map[string]string{"api": api, "err": err.Error()})
			continue
		}
		if want != nil && !bytes.Equal(got, want) {
			o.violation("C12", "a Marshal result is wrong after earlier results were overwritten by the caller or buffers were recycled", map[string]string{
				"api": api, "call": strconv.Itoa(i), "size": strconv.Itoa(n), "first_difference": strconv.Itoa(firstDiff(got, want)), "got": clip(string(got)), "want": clip(string(want))})
		}
		if want == nil {
			var x, y interface{}
			if stdjson.Unmarshal(got, &x) != nil {
				o.violation("C12", "a Marshal result is not valid JSON", map[string]string{"api": api, "call": strconv.Itoa(i), "got": clip(string(got))})
			} else {
				w, _ := stdjson.Marshal(v)
				stdjson.Unmarshal(w, &y)
				a, _ := stdjson.Marshal(x)
				b, _ := stdjson.Marshal(y)
				if !bytes.Equal(a, b) {
					o.violation("C12", "a Marshal result is wrong", map[string]string{"api": api, "call": strconv.Itoa(i), "got": clip(string(got))})
				}
			}
		}
		held = append(held, c12Held{got, append([]byte(nil), got...), fmt.Sprintf("%s call %d size %d", api, i, n)})
		if r.Intn(3) == 0 {
			c12Churn(r)
		}
		if r.Intn(4) == 0 {
			var b bytes.Buffer
			gojson.NewEncoder(&b).Encode(v)
		}
		// every slice handed out so far is still what it was
		for j := range held {
			if !bytes.Equal(held[j].got, held[j].copy) {
				o.violation("C12", "a slice returned by Marshal was changed by a later library call", map[string]string{
					"result_of": held[j].desc, "changed_after": fmt.Sprintf("%s call %d size %d", api, i, n), "first_difference": strconv.Itoa(firstDiff(held[j].got, held[j].copy)),
					"now": clip(string(held[j].got)), "was": clip(string(held[j].copy))})
				held[j].copy = append(held[j].copy[:0], held[j].got...)
			}
		}
		// the caller does what it likes with its slices
		if r.Intn(3) == 0 {
			h := &held[r.Intn(len(held))]
			for j := range h.got {
				h.got[j] = 'Z'
			}
			h.copy = append(h.copy[:0], h.got...)
			if cap(h.got) > len(h.got) {
				full := h.got[:cap(h.got)]
				for j := len(h.got); j < len(full); j++ {
					full[j] = 'Y'
				}
			}
			o.count("caller_overwrites", 1)
		}
		if len(held) > 40 {
			held = held[len(held)-25:]
		}
	}
}

// ======================================================================================================
// Audit A8: dimensions the strata above did not reach.
//   - Unmarshaler / TextUnmarshaler members reached through interface members that hold a pointer (interface.go
//     makes its own copies there), the context-taking variant, elements and map values, text-unmarshaler map keys;
//     callbacks that keep what they were handed, that overwrite it, and that write into the capacity behind it
//   - the Decoder's other calls: UseNumber, Token, Buffered, More, DecodeContext, DecodeWithOption, mixed on one stream
//   - documents that fail to decode (the input must be left alone on the error paths, too)
//   - the utility functions on a caller's slice with spare capacity
// ======================================================================================================

// what the hostile callbacks do, set by the stratum before each decode
var c12Hostile struct {
	overwrite bool // overwrite the bytes handed over (after taking a copy)
	scribble  bool // write into the capacity behind them
}

func c12Abuse(b []byte, scribbleAllowed bool) {
	if c12Hostile.scribble && scribbleAllowed {
		full := b[:cap(b)]
		for i := len(b); i < len(full); i++ {
			full[i] = '#'
		}
	}
	if c12Hostile.overwrite {
		for i := range b {
			b[i] = '#'
		}
	}
}

type c12H struct { // UnmarshalJSON: keeps the slice it was handed
	Seen string
	Kept []byte
}

func (u *c12H) UnmarshalJSON(b []byte) error {
	u.Seen = string(b)
	if !c12Hostile.overwrite {
		u.Kept = b
	}
	c12Abuse(b, true)
	return nil
}

type c12HC struct { // the variant that takes a context
	Seen string
	Kept []byte
}

func (u *c12HC) UnmarshalJSON(ctx context.Context, b []byte) error {
	u.Seen = string(b)
	if !c12Hostile.overwrite {
		u.Kept = b
	}
	c12Abuse(b, true)
	return nil
}

type c12HT struct {
	Seen string
	Kept []byte
}

// UnmarshalText: in buffer mode the text is a window of the library's private copy of the document (as it is a window of
// the caller's input with encoding/json), so the capacity behind it is not the callback's to write to
func (u *c12HT) UnmarshalText(b []byte) error {
	u.Seen = string(b)
	if !c12Hostile.overwrite {
		u.Kept = b
	}
	c12Abuse(b, false)
	return nil
}

type c12HK struct{ K string } // a map key

var c12HKKept [][]byte

func (k *c12HK) UnmarshalText(b []byte) error {
	k.K = string(b)
	if !c12Hostile.overwrite && len(c12HKKept) < 256 {
		c12HKKept = append(c12HKKept, b)
	}
	c12Abuse(b, false)
	return nil
}

type c12CtxUnmarshaler interface {
	UnmarshalJSON(context.Context, []byte) error
}
type c12TextUnmarshaler interface{ UnmarshalText([]byte) error }

type c12CB struct {
	A  string              `json:"a"`
	U  c12H                `json:"u"`
	UP *c12H               `json:"up"`
	UC c12HC               `json:"uc"`
	T  c12HT               `json:"t"`
	TP *c12HT              `json:"tp"`
	IU interface{}         `json:"iu"` // holds a *c12H before the decode
	IC interface{}         `json:"ic"` // holds a *c12HC
	IT interface{}         `json:"it"` // holds a *c12HT
	NU stdjson.Unmarshaler `json:"nu"` // an interface type with methods, holds a *c12H
	NC c12CtxUnmarshaler   `json:"nc"` // holds a *c12HC
	NT c12TextUnmarshaler  `json:"nt"` // holds a *c12HT
	LU []c12H              `json:"lu"`
	LT []*c12HT            `json:"lt"`
	MU map[string]*c12H    `json:"mu"`
	MK map[c12HK]string    `json:"mk"`
	B  string              `json:"b"`
	Z  []string            `json:"z"`
}

func c12NewCB() *c12CB {
	return &c12CB{IU: &c12H{}, IC: &c12HC{}, IT: &c12HT{}, NU: &c12H{}, NC: &c12HC{}, NT: &c12HT{}}
}

// c12CBSnap: everything the callbacks saw and the members around them; kept=true adds the slices the callbacks kept
func c12CBSnap(d *c12CB, kept bool) string {
	var b strings.Builder
	h := func(name string, u *c12H) {
		if u == nil {
			fmt.Fprintf(&b, " %s=nil", name)
			return
		}
		fmt.Fprintf(&b, " %s=%q", name, u.Seen)
		if kept {
			fmt.Fprintf(&b, "/%q", string(u.Kept))
		}
	}
	hc := func(name string, u *c12HC) {
		if u == nil {
			fmt.Fprintf(&b, " %s=nil", name)
			return
		}
		fmt.Fprintf(&b, " %s=%q", name, u.Seen)
		if kept {
			fmt.Fprintf(&b, "/%q", string(u.Kept))
		}
	}
	ht := func(name string, u *c12HT) {
		if u == nil {
			fmt.Fprintf(&b, " %s=nil", name)
			return
		}
		fmt.Fprintf(&b, " %s=%q", name, u.Seen)
		if kept {
			fmt.Fprintf(&b, "/%q", string(u.Kept))
		}
	}
	fmt.Fprintf(&b, "A=%q B=%q Z=%q", d.A, d.B, d.Z)
	h("U", &d.U)
	h("UP", d.UP)
	hc("UC", &d.UC)
	ht("T", &d.T)
	ht("TP", d.TP)
	if x, ok := d.IU.(*c12H); ok {
		h("IU", x)
	} else {
		fmt.Fprintf(&b, " IU=%#v", d.IU)
	}
	if x, ok := d.IC.(*c12HC); ok {
		hc("IC", x)
	} else {
		fmt.Fprintf(&b, " IC=%#v", d.IC)
	}
	if x, ok := d.IT.(*c12HT); ok {
		ht("IT", x)
	} else {
		fmt.Fprintf(&b, " IT=%#v", d.IT)
	}
	if x, ok := d.NU.(*c12H); ok {
		h("NU", x)
	} else {
		fmt.Fprintf(&b, " NU=%#v", d.NU)
	}
	if x, ok := d.NC.(*c12HC); ok {
		hc("NC", x)
	} else {
		fmt.Fprintf(&b, " NC=%#v", d.NC)
	}
	if x, ok := d.NT.(*c12HT); ok {
		ht("NT", x)
	} else {
		fmt.Fprintf(&b, " NT=%#v", d.NT)
	}
	for i := range d.LU {
		h("LU", &d.LU[i])
	}
	for _, x := range d.LT {
		ht("LT", x)
	}
	var ks []string
	for k := range d.MU {
		ks = append(ks, k)
	}
	sortStrings(ks)
	for _, k := range ks {
		h("MU["+k+"]", d.MU[k])
	}
	ks = ks[:0]
	for k := range d.MK {
		ks = append(ks, k.K)
	}
	sortStrings(ks)
	for _, k := range ks {
		fmt.Fprintf(&b, " MK[%q]=%q", k, d.MK[c12HK{k}])
	}
	return b.String()
}

func c12CBDoc(r *rand.Rand) string {
	val := func() string {
		return []string{`{"k": ` + c12Str(r) + ` , "l":[1, 2]}`, c12Str(r), ` [ ` + c12Str(r) + `,null ]`, `-12.50e1`, `true`, `{}`}[r.Intn(6)]
	}
	var parts []string
	add := func(k, v string) {
		if r.Intn(5) != 0 {
			sep := []string{":", ": ", " :\n"}[r.Intn(3)]
			if (k[0] == 'i' || k[0] == 'n') && r.Intn(8) != 0 {
				// seen by this audit (a matter of C09, not of this property): in stream mode the members reached through an
				// interface do not skip the white space before their value (UnmarshalJSON is handed it, a text value is refused)
				sep = ":"
			}
			parts = append(parts, `"`+k+`"`+sep+v)
		}
	}
	add("a", c12Str(r))
	add("u", val())
	add("up", []string{val(), `null`}[r.Intn(2)])
	add("uc", val())
	add("t", c12Str(r))
	add("tp", []string{c12Str(r), `null`}[r.Intn(2)])
	add("iu", val())
	add("ic", val())
	add("it", c12Str(r))
	add("nu", val())
	add("nc", val())
	add("nt", c12Str(r))
	add("lu", `[`+val()+`, `+val()+`]`)
	add("lt", `[`+c12Str(r)+`,null,`+c12Str(r)+`]`)
	add("mu", `{"x":`+val()+`,"y\n":`+val()+`,"z":null}`)
	add("mk", `{"k1":"v1","k\t2":`+c12Str(r)+`,`+c12Str(r)+`:"v3"}`)
	r.Shuffle(len(parts), func(i, j int) { parts[i], parts[j] = parts[j], parts[i] })
	// the members behind: they are read after every callback has run
	parts = append(parts, `"b":`+c12Str(r), `"z":[`+c12Str(r)+`,"end"]`)
	return "{" + strings.Join(parts, []string{",", ", ", "\n,"}[r.Intn(3)]) + "}"
}

func c12DecodeCB(api string, in []byte, piece int, d *c12CB) error {
	switch api {
	case "Unmarshal":
		return gojson.Unmarshal(in, d)
	case "UnmarshalContext":
		return gojson.UnmarshalContext(context.Background(), in, d)
	case "UnmarshalNoEscape":
		return gojson.UnmarshalNoEscape(in, d)
	case "UnmarshalWithOption":
		return gojson.UnmarshalWithOption(in, d, gojson.DecodeFieldPriorityFirstWin())
	case "Decoder":
		return gojson.NewDecoder(&pieceReader{b: in, size: piece, failAt: -1}).Decode(d)
	case "DecodeContext":
		return gojson.NewDecoder(&pieceReader{b: in, size: piece, failAt: -1}).DecodeContext(context.Background(), d)
	default:
		return gojson.NewDecoder(&pieceReader{b: in, size: piece, failAt: -1}).DecodeWithOption(d, gojson.DecodeFieldPriorityFirstWin())
	}
}

func c12Callbacks(o *Out) {
	r := o.rng
	n := 500
	if o.tier == "thorough" {
		n = 6000
	}
	apis := []string{"Unmarshal", "UnmarshalContext", "UnmarshalNoEscape", "UnmarshalWithOption", "Decoder", "DecodeContext", "DecodeWithOption"}
	for i := 0; i < n; i++ {
		doc := c12CBDoc(r)
		api := apis[r.Intn(len(apis))]
		piece := []int{1, 7, 64, 511, 512, 1 << 20}[r.Intn(6)]
		spare := []int{0, 1, 64}[r.Intn(3)]
		backing := make([]byte, len(doc)+spare)
		copy(backing, doc)
		for j := len(doc); j < len(backing); j++ {
			backing[j] = 0xA5
		}
		in := backing[:len(doc)]
		det := map[string]string{"api": api, "piece": strconv.Itoa(piece), "doc": clip(doc), "doc_hex": hx([]byte(doc))}
		o.current(map[string]string{"property": "C12", "what": "unmarshaler callbacks", "api": api, "doc": clip(doc)})
		o.count("callback_decodes", 1)
		o.hist("callback_api", api)
		// 1. well-behaved callbacks that keep what they were handed
		c12Hostile.overwrite, c12Hostile.scribble = false, false
		c12HKKept = c12HKKept[:0]
		d := c12NewCB()
		err := c12DecodeCB(api, in, piece, d)
		if string(backing[:len(doc)]) != doc {
			o.violation("C12", "decoding modified the caller's input bytes", det)
		}
		for j := len(doc); j < len(backing); j++ {
			if backing[j] != 0xA5 {
				o.violation("C12", "decoding wrote into the spare capacity behind the caller's input", det)
				break
			}
		}
		if err != nil {
			o.count("callback_decode_errors", 1)
			if os.Getenv("C12_DEBUG") != "" {
				fmt.Fprintf(os.Stderr, "C12 callback decode error %s piece=%d: %v\n   %q\n", api, piece, err, doc)
			}
			continue
		}
		keys := make([]string, len(c12HKKept))
		for j, k := range c12HKKept {
			keys[j] = string(k)
		}
		keyKept := append([][]byte(nil), c12HKKept...)
		snap := c12CBSnap(d, true)
		base := c12CBSnap(d, false)
		if sd := c12NewCB(); stdjson.Unmarshal([]byte(doc), sd) == nil {
			// encoding/json does not know the context-taking variant: those members are left out of the comparison
			sd.UC, sd.IC, sd.NC = d.UC, d.IC, d.NC
			if c12CBSnap(sd, false) != base {
				o.count("callbacks_differ_from_encoding_json", 1)
			}
		}
		for j := range backing {
			backing[j] = 'X'
		}
		c12Churn(r)
		// further decodes through the same entry point (the stream window, the pooled contexts)
		c12DecodeCB(api, []byte(c12CBDoc(r)), piece, c12NewCB())
		changed := c12CBSnap(d, true) != snap
		for j, k := range keyKept {
			if string(k) != keys[j] {
				changed = true
			}
		}
		if changed {
			det["before"], det["after"] = clip(snap), clip(c12CBSnap(d, true))
			o.violation("C12", "bytes handed to an unmarshal callback changed after the call (input overwritten, later library calls)", det)
			continue
		}
		// 2. callbacks that overwrite what they were handed and write into the capacity behind it: the rest of the
		// document must decode as before
		for mode := 0; mode < 2; mode++ {
			c12Hostile.overwrite, c12Hostile.scribble = mode == 1, true
			d2 := c12NewCB()
			in2 := append(make([]byte, 0, len(doc)+spare), doc...)
			err := c12DecodeCB(api, in2, piece, d2)
			c12Hostile.overwrite, c12Hostile.scribble = false, false
			o.count("hostile_callback_decodes", 1)
			if string(in2) != doc {
				o.violation("C12", "a callback that overwrites the bytes it was handed changed the caller's input", det)
			}
			if err != nil || c12CBSnap(d2, false) != base {
				det["mode"] = []string{"writes into the capacity behind its argument", "overwrites its argument and writes into the capacity behind it"}[mode]
				det["well_behaved"], det["hostile"] = clip(base), clip(c12CBSnap(d2, false))
				if err != nil {
					det["error"] = err.Error()
				}
				o.violation("C12", "what a callback does to the bytes it was handed changes how the rest of the document is decoded (the callback was given a window of a live buffer)", det)
				break
			}
		}
	}
}

// ---- the Decoder's other calls ----

func c12DecoderCalls(o *Out) {
	r := o.rng
	n := 60
	if o.tier == "thorough" {
		n = 600
	}
	type held struct {
		what string
		snap func() string
		was  string
	}
	for i := 0; i < n; i++ {
		k := 3 + r.Intn(8)
		var docs []string
		var stream bytes.Buffer
		for j := 0; j < k; j++ {
			d := c12GenDoc(r)
			if r.Intn(3) == 0 {
				d = []string{c12Str(r), `[` + c12Str(r) + `, 12.5, {"n": -0.0e1, "s": ` + c12Str(r) + `}]`, `123456789012345678901234567890`, `{"a":{"b":[` + c12Str(r) + `]}}`}[r.Intn(4)]
			}
			docs = append(docs, d)
			stream.WriteString(d)
			stream.WriteString([]string{"\n", " ", "\n\n", "\t"}[r.Intn(4)])
		}
		piece := []int{1, 7, 64, 511, 512, 4096, 1 << 20}[r.Intn(7)]
		src := append([]byte(nil), stream.Bytes()...)
		orig := string(src)
		dec := gojson.NewDecoder(&pieceReader{b: src, size: piece, failAt: -1})
		useNumber := r.Intn(2) == 0
		if useNumber {
			dec.UseNumber()
		}
		var hs []held
		check := func(after string) {
			for j := range hs {
				if now := hs[j].snap(); now != hs[j].was {
					o.violation("C12", "a value obtained earlier from a Decoder changed during a later call on the same Decoder", map[string]string{
						"piece": strconv.Itoa(piece), "use_number": strconv.FormatBool(useNumber), "obtained_by": hs[j].what, "changed_after": after,
						"before": clip(hs[j].was), "after": clip(now), "stream_hex": hx([]byte(orig))})
					hs[j].was = now
				}
			}
		}
		keep := func(what string, snap func() string) { hs = append(hs, held{what, snap, snap()}) }
		o.current(map[string]string{"property": "C12", "what": "Decoder calls", "piece": strconv.Itoa(piece), "stream": clip(orig)})
		for j := 0; j < k; j++ {
			call := []string{"Decode struct", "Decode interface", "DecodeContext", "DecodeWithOption", "Token walk", "Decode RawMessage"}[r.Intn(6)]
			if docs[j][0] != '{' && (call == "Decode struct" || call == "DecodeContext") {
				call = "Decode interface"
			}
			o.hist("decoder_call", call)
			var err error
			switch call {
			case "Decode struct":
				d := &c12Doc{}
				if err = dec.Decode(d); err == nil {
					keep(call, func() string { return c12Snap(d) })
				}
			case "Decode interface":
				var v interface{}
				if err = dec.Decode(&v); err == nil {
					keep(call, func() string { return fmt.Sprintf("%#v", v) })
				}
			case "DecodeContext":
				d := &c12Doc{}
				if err = dec.DecodeContext(context.Background(), d); err == nil {
					keep(call, func() string { return c12Snap(d) })
				}
			case "DecodeWithOption":
				var v map[string]interface{}
				if docs[j][0] != '{' {
					var w interface{}
					if err = dec.DecodeWithOption(&w, gojson.DecodeFieldPriorityFirstWin()); err == nil {
						keep(call, func() string { return fmt.Sprintf("%#v", w) })
					}
				} else if err = dec.DecodeWithOption(&v, gojson.DecodeFieldPriorityFirstWin()); err == nil {
					keep(call, func() string { return fmt.Sprintf("%#v", v) })
				}
			case "Decode RawMessage":
				var m gojson.RawMessage
				if err = dec.Decode(&m); err == nil {
					keep(call, func() string { return string(m) })
				}
			default:
				// the tokens of one document: every one is kept, and looked at again after every later token
				depth := 0
				for {
					var tok gojson.Token
					tok, err = dec.Token()
					if err != nil {
						break
					}
					o.count("decoder_tokens", 1)
					t := tok
					keep("Token", func() string { return fmt.Sprintf("%T %v", t, t) })
					if dl, ok := tok.(gojson.Delim); ok {
						if dl == '{' || dl == '[' {
							depth++
						} else {
							depth--
						}
					}
					if len(hs)%16 == 0 {
						check("Token")
					}
					if depth == 0 {
						break
					}
				}
			}
			if err != nil {
				if err != io.EOF {
					o.count("decoder_call_errors", 1)
				}
				break
			}
			o.count("decoder_calls", 1)
			if r.Intn(3) == 0 {
				dec.More()
			}
			if r.Intn(4) == 0 {
				rest, _ := io.ReadAll(dec.Buffered())
				keep("Buffered", func() string { return string(rest) })
			}
			check(call)
		}
		if string(src) != orig {
			o.violation("C12", "the Decoder modified the bytes its reader reads from", map[string]string{"stream_hex": hx([]byte(orig))})
		}
		c12Churn(r)
		check("later library calls")
	}
}

// ---- documents that fail to decode ----

func c12FailingDocuments(o *Out) {
	r := o.rng
	n := 300
	if o.tier == "thorough" {
		n = 4000
	}
	apis := []string{"Unmarshal", "UnmarshalContext", "UnmarshalNoEscape", "UnmarshalWithOption", "Decoder"}
	for i := 0; i < n; i++ {
		doc := []byte(c12GenDoc(r))
		how := r.Intn(4)
		switch how {
		case 0:
			doc = doc[:r.Intn(len(doc))]
		case 1:
			doc[r.Intn(len(doc))] = []byte("\"\\{}[],:x\x00\xff\n")[r.Intn(12)]
		case 2:
			at := r.Intn(len(doc))
			doc = append(doc[:at:at], append([]byte([]string{`\`, `"`, `\u12`, `]`, "\x00", `\ud800\u`}[r.Intn(6)]), doc[at:]...)...)
		default:
			doc = append(doc, []string{"x", "}", " 1", "\x00"}[r.Intn(4)]...)
		}
		spare := []int{0, 1, 64}[r.Intn(3)]
		backing := make([]byte, len(doc)+spare)
		copy(backing, doc)
		for j := len(doc); j < len(backing); j++ {
			backing[j] = 0xA5
		}
		in := backing[:len(doc)]
		api := apis[r.Intn(len(apis))]
		o.current(map[string]string{"property": "C12", "what": "failing document", "api": api, "doc": clip(string(doc))})
		var d c12Doc
		var err error
		switch api {
		case "Unmarshal":
			err = gojson.Unmarshal(in, &d)
		case "UnmarshalContext":
			err = gojson.UnmarshalContext(context.Background(), in, &d)
		case "UnmarshalNoEscape":
			err = gojson.UnmarshalNoEscape(in, &d)
		case "UnmarshalWithOption":
			err = gojson.UnmarshalWithOption(in, &d, gojson.DecodeFieldPriorityFirstWin())
		default:
			err = gojson.NewDecoder(&pieceReader{b: in, size: []int{1, 64, 512, 1 << 20}[r.Intn(4)], failAt: -1}).Decode(&d)
		}
		o.count("failing_document_decodes", 1)
		if err != nil {
			o.count("failing_document_errors", 1)
		}
		det := map[string]string{"api": api, "doc": clip(string(doc)), "doc_hex": hx(doc), "spare": strconv.Itoa(spare), "error": fmt.Sprint(err)}
		if !bytes.Equal(backing[:len(doc)], doc) {
			o.violation("C12", "decoding modified the caller's input bytes", det)
		}
		for j := len(doc); j < len(backing); j++ {
			if backing[j] != 0xA5 {
				o.violation("C12", "decoding wrote into the spare capacity behind the caller's input", det)
				break
			}
		}
		// what was stored before the error belongs to the caller like any other result
		snap := c12Snap(&d)
		for j := range backing {
			backing[j] = 'X'
		}
		c12Churn(r)
		if c12Snap(&d) != snap {
			det["before"], det["after"] = clip(snap), clip(c12Snap(&d))
			o.violation("C12", "what a failed decode had stored changed when the input was overwritten or during later library calls", det)
		}
	}
}

// ---- the utility functions on a caller's slice ----

func c12Utilities(o *Out) {
	r := o.rng
	n := 150
	if o.tier == "thorough" {
		n = 2000
	}
	var outs []c12Held
	for i := 0; i < n; i++ {
		doc := c12GenDoc(r)
		if r.Intn(4) == 0 {
			doc = doc[:r.Intn(len(doc))]
		}
		spare := []int{0, 1, 64, 5000}[r.Intn(4)]
		backing := make([]byte, len(doc)+spare)
		copy(backing, doc)
		for j := len(doc); j < len(backing); j++ {
			backing[j] = 0xA5
		}
		in := backing[:len(doc)]
		fn := []string{"Valid", "Compact", "Indent", "HTMLEscape"}[r.Intn(4)]
		o.current(map[string]string{"property": "C12", "what": "utility", "function": fn, "doc": clip(doc)})
		o.hist("utility", fn)
		var dst bytes.Buffer
		dst.WriteString("PRE")
		switch fn {
		case "Valid":
			gojson.Valid(in)
		case "Compact":
			gojson.Compact(&dst, in)
		case "Indent":
			gojson.Indent(&dst, in, ">", "\t")
		default:
			gojson.HTMLEscape(&dst, in)
		}
		o.count("utility_calls", 1)
		det := map[string]string{"function": fn, "doc": clip(doc), "doc_hex": hx([]byte(doc)), "spare": strconv.Itoa(spare)}
		if string(backing[:len(doc)]) != doc {
			o.violation("C12", "a utility function modified the caller's input bytes", det)
		}
		for j := len(doc); j < len(backing); j++ {
			if backing[j] != 0xA5 {
				o.violation("C12", "a utility function wrote into the spare capacity behind the caller's input", det)
				break
			}
		}
		outs = append(outs, c12Held{dst.Bytes(), append([]byte(nil), dst.Bytes()...), fn})
		for j := range backing {
			backing[j] = 'X'
		}
		if r.Intn(3) == 0 {
			c12Churn(r)
		}
		for j := range outs {
			if !bytes.Equal(outs[j].got, outs[j].copy) {
				det["result_of"] = outs[j].desc
				o.violation("C12", "what a utility function wrote to the caller's buffer changed afterwards (input overwritten, later library calls)", det)
				outs[j].copy = append(outs[j].copy[:0], outs[j].got...)
			}
		}
		if len(outs) > 20 {
			outs = outs[len(outs)-10:]
		}
	}
}
