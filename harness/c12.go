package main

// C12: no aliasing between caller data and library buffers.
//   decode side: the caller's input bytes (including the spare capacity behind
//     them) are never modified; nothing decoded changes when the input is
//     overwritten afterwards or when later calls recycle the pooled buffers;
//     values decoded earlier from a Decoder survive later Decode calls.
//   encode side: every returned slice stays what it was whatever the library
//     does later, and overwriting it does not influence later results.
// Everything is compared with snapshots taken at the time and with
// encoding/json.  The static side (fresh copy of the input, nothing pooled is
// returned) is read by the translator and used by the theorems.

import (
	"bytes"
	"context"
	stdjson "encoding/json"
	"fmt"
	"io"
	"math/rand"
	"strconv"
	"strings"

	gojson "github.com/goccy/go-json"
)

func init() { props["C12"] = runC12 }

type c12U struct{ Kept []byte }

func (u *c12U) UnmarshalJSON(b []byte) error { u.Kept = b; return nil } // retains what it was handed

type c12T struct{ Kept []byte }

func (t *c12T) UnmarshalText(b []byte) error { t.Kept = b; return nil }

type c12Doc struct {
	S  string                 `json:"s"`
	S2 string                 `json:"s2"`
	B  []byte                 `json:"b"`
	R  gojson.RawMessage      `json:"r"`
	N  gojson.Number          `json:"n"`
	U  c12U                   `json:"u"`
	UP *c12U                  `json:"up"`
	T  c12T                   `json:"t"`
	I  interface{}            `json:"i"`
	M  map[string]string      `json:"m"`
	MI map[string]interface{} `json:"mi"`
	L  []string               `json:"l"`
	P  *string                `json:"p"`
	RL []gojson.RawMessage    `json:"rl"`
	// elements the slice decoder builds in its pooled working array before it copies them out: what an earlier
	// result holds (pointers, maps, nested slices) must not be reachable from a later one
	LP []*c12Sub           `json:"lp"`
	LM []map[string]string `json:"lm"`
	LL [][]*string         `json:"ll"`
	LS []c12Sub            `json:"ls"`
	LI []interface{}       `json:"li"`
}

type c12Sub struct {
	A int     `json:"a"`
	B string  `json:"b"`
	C *string `json:"c"`
}

func c12Snap(d *c12Doc) string {
	var b strings.Builder
	fmt.Fprintf(&b, "S=%q S2=%q B=%x R=%q N=%q U=%q T=%q", d.S, d.S2, d.B, string(d.R), string(d.N), string(d.U.Kept), string(d.T.Kept))
	if d.UP != nil {
		fmt.Fprintf(&b, " UP=%q", string(d.UP.Kept))
	}
	fmt.Fprintf(&b, " I=%#v", d.I)
	var ks []string
	for k := range d.M {
		ks = append(ks, k)
	}
	sortStrings(ks)
	for _, k := range ks {
		fmt.Fprintf(&b, " M[%q]=%q", k, d.M[k])
	}
	ks = ks[:0]
	for k := range d.MI {
		ks = append(ks, k)
	}
	sortStrings(ks)
	for _, k := range ks {
		fmt.Fprintf(&b, " MI[%q]=%#v", k, d.MI[k])
	}
	fmt.Fprintf(&b, " L=%q", d.L)
	if d.P != nil {
		fmt.Fprintf(&b, " P=%q", *d.P)
	}
	for _, r := range d.RL {
		fmt.Fprintf(&b, " RL=%q", string(r))
	}
	sub := func(x *c12Sub) {
		if x == nil {
			b.WriteString(" nil")
			return
		}
		fmt.Fprintf(&b, " {%d %q", x.A, x.B)
		if x.C != nil {
			fmt.Fprintf(&b, " %q", *x.C)
		}
		b.WriteString("}")
	}
	b.WriteString(" LP=")
	for _, x := range d.LP {
		sub(x)
	}
	b.WriteString(" LS=")
	for i := range d.LS {
		sub(&d.LS[i])
	}
	for _, m := range d.LM {
		ks = ks[:0]
		for k := range m {
			ks = append(ks, k)
		}
		sortStrings(ks)
		b.WriteString(" LM{")
		for _, k := range ks {
			fmt.Fprintf(&b, "%q=%q ", k, m[k])
		}
		b.WriteString("}")
	}
	for _, l := range d.LL {
		b.WriteString(" LL[")
		for _, x := range l {
			if x == nil {
				b.WriteString("nil ")
			} else {
				fmt.Fprintf(&b, "%q ", *x)
			}
		}
		b.WriteString("]")
	}
	fmt.Fprintf(&b, " LI=%#v", d.LI)
	return b.String()
}

func sortStrings(s []string) {
	for i := 1; i < len(s); i++ {
		for j := i; j > 0 && s[j] < s[j-1]; j-- {
			s[j], s[j-1] = s[j-1], s[j]
		}
	}
}

func c12Str(r *rand.Rand) string {
	n := []int{0, 1, 7, 8, 9, 30, 200, 3000}[r.Intn(8)]
	var b strings.Builder
	b.WriteByte('"')
	for i := 0; i < n; i++ {
		switch r.Intn(14) {
		case 0:
			b.WriteString(`\n`)
		case 1:
			b.WriteString(`é`)
		case 2:
			b.WriteString(`😀`)
		case 3:
			b.WriteString(`\"`)
		case 4:
			b.WriteString("é")
		default:
			b.WriteByte(byte('a' + r.Intn(26)))
		}
	}
	b.WriteByte('"')
	return b.String()
}

func c12GenDoc(r *rand.Rand) string {
	var parts []string
	add := func(k, v string) {
		if r.Intn(4) != 0 {
			parts = append(parts, `"`+k+`": `+v)
		}
	}
	add("s", c12Str(r))
	add("s2", c12Str(r))
	add("b", []string{`"AQID"`, `""`, `"QUJDREVGR0hJSktMTU5PUFFSU1RVVldYWVo="`, `null`}[r.Intn(4)])
	add("r", []string{`{"x": [1, 2, "three\n"]}`, `"raw\tstr"`, ` [ ] `, `12.50`, c12Str(r)}[r.Intn(5)])
	add("n", []string{`12`, `-0.5e10`, `123456789012345678901234567890`, `"77"`}[r.Intn(4)])
	add("u", []string{`{"k":"v\n"}`, c12Str(r), `[1,2]`, `true`}[r.Intn(4)])
	add("up", []string{`{"k":"v\n"}`, c12Str(r), `null`}[r.Intn(3)])
	add("t", c12Str(r))
	add("i", []string{c12Str(r), `[` + c12Str(r) + `, {"a":` + c12Str(r) + `}]`, `{"k` + strconv.Itoa(r.Intn(9)) + `\n":` + c12Str(r) + `}`, `1.5`}[r.Intn(4)])
	add("m", `{"a\n":`+c12Str(r)+`,"plainkey":`+c12Str(r)+`}`)
	add("mi", `{"x":`+c12Str(r)+`,"y":[`+c12Str(r)+`]}`)
	add("l", `[`+c12Str(r)+`,`+c12Str(r)+`]`)
	add("p", c12Str(r))
	add("rl", `[ {"a":1} , "x" ,[2]]`)
	subs := func() string {
		n := r.Intn(5)
		var e []string
		for i := 0; i < n; i++ {
			switch r.Intn(5) {
			case 0:
				e = append(e, `null`)
			case 1:
				e = append(e, `{"a":`+strconv.Itoa(r.Intn(100))+`}`)
			case 2:
				e = append(e, `{"b":`+c12Str(r)+`}`)
			default:
				e = append(e, `{"a":`+strconv.Itoa(r.Intn(100))+`,"b":`+c12Str(r)+`,"c":`+c12Str(r)+`}`)
			}
		}
		return "[" + strings.Join(e, ",") + "]"
	}
	add("lp", subs())
	add("ls", strings.ReplaceAll(subs(), "null", "{}"))
	{
		n := r.Intn(4)
		var e []string
		for i := 0; i < n; i++ {
			e = append(e, []string{`{"k":`+c12Str(r)+`}`, `{}`, `{"k":"v","j`+strconv.Itoa(r.Intn(5))+`":"w"}`, `null`}[r.Intn(4)])
		}
		add("lm", "["+strings.Join(e, ",")+"]")
		e = e[:0]
		n = r.Intn(4)
		for i := 0; i < n; i++ {
			e = append(e, []string{`[`+c12Str(r)+`]`, `[]`, `[null,`+c12Str(r)+`,"x"]`, `null`}[r.Intn(4)])
		}
		add("ll", "["+strings.Join(e, ",")+"]")
		add("li", []string{`[]`, `[1,"a",{"k":[2]}]`, `[[` + c12Str(r) + `],null]`}[r.Intn(3)])
	}
	r.Shuffle(len(parts), func(i, j int) { parts[i], parts[j] = parts[j], parts[i] })
	return "{" + strings.Join(parts, ", ") + "}"
}

// churn makes the library recycle its pooled contexts and buffers with data of other sizes
func c12Churn(r *rand.Rand) {
	for i := 0; i < 3; i++ {
		n := []int{1, 50, 2000, 40000}[r.Intn(4)]
		v := strings.Repeat("z", n)
		gojson.Marshal(map[string]interface{}{"k": v, "l": []int{1, 2, 3}})
		var x interface{}
		gojson.Unmarshal([]byte(`{"q":"`+v+`\n","w":[1,2,3]}`), &x)
		var b bytes.Buffer
		gojson.Compact(&b, []byte(`[ "`+v+`" ]`))
		gojson.Indent(&b, []byte(`["`+v+`"]`), "", " ")
	}
}

type c12Held struct {
	got  []byte
	copy []byte
	desc string
}

func runC12(o *Out) {
	r := o.rng
	nd := 700
	if o.tier == "thorough" {
		nd = 8000
	}
	// ---------- decode side ----------
	apis := []string{"Unmarshal", "UnmarshalContext", "UnmarshalNoEscape", "UnmarshalWithOption", "Decoder"}
	for i := 0; i < nd; i++ {
		doc := c12GenDoc(r)
		spare := []int{0, 1, 7, 64, 5000}[r.Intn(5)]
		backing := make([]byte, len(doc)+spare)
		copy(backing, doc)
		for j := len(doc); j < len(backing); j++ {
			backing[j] = 0xA5
		}
		in := backing[:len(doc)]
		api := apis[r.Intn(len(apis))]
		o.hist("decode_api", api)
		o.hist("spare_capacity", strconv.Itoa(spare))
		o.current(map[string]string{"property": "C12", "api": api, "doc": clip(doc)})
		var d c12Doc
		var err error
		switch api {
		case "Unmarshal":
			err = gojson.Unmarshal(in, &d)
		case "UnmarshalContext":
			err = gojson.UnmarshalContext(context.Background(), in, &d)
		case "UnmarshalNoEscape":
			err = gojson.UnmarshalNoEscape(in, &d)
		case "UnmarshalWithOption":
			err = gojson.UnmarshalWithOption(in, &d, gojson.DecodeFieldPriorityFirstWin())
		case "Decoder":
			err = gojson.NewDecoder(bytes.NewReader(in)).Decode(&d)
		}
		o.count("decode_calls", 1)
		det := map[string]string{"api": api, "doc": clip(doc), "doc_hex": hx([]byte(doc)), "spare": strconv.Itoa(spare)}
		if string(backing[:len(doc)]) != doc {
			o.violation("C12", "decoding modified the caller's input bytes", det)
		}
		for j := len(doc); j < len(backing); j++ {
			if backing[j] != 0xA5 {
				o.violation("C12", "decoding wrote into the spare capacity behind the caller's input", det)
				break
			}
		}
		if err != nil {
			o.count("decode_errors", 1)
			continue
		}
		var sd c12Doc
		if serr := stdjson.Unmarshal([]byte(doc), &sd); serr == nil && c12Snap(&sd) != c12Snap(&d) {
			o.count("differs_from_encoding_json", 1)
		}
		snap := c12Snap(&d)
		for j := range backing {
			backing[j] = 'X'
		}
		if c12Snap(&d) != snap {
			det["before"], det["after"] = clip(snap), clip(c12Snap(&d))
			o.violation("C12", "decoded data changed when the caller overwrote its input afterwards (aliases the input)", det)
			continue
		}
		c12Churn(r)
		if c12Snap(&d) != snap {
			det["before"], det["after"] = clip(snap), clip(c12Snap(&d))
			o.violation("C12", "decoded data changed during later library calls (aliases a recycled buffer)", det)
		}
	}
	// ---------- Decoder: earlier values survive later Decode calls ----------
	ns := 60
	if o.tier == "thorough" {
		ns = 600
	}
	for i := 0; i < ns; i++ {
		k := 2 + r.Intn(12)
		var stream bytes.Buffer
		for j := 0; j < k; j++ {
			stream.WriteString(c12GenDoc(r))
			stream.WriteString([]string{"\n", " ", "", "\n\n"}[r.Intn(4)])
		}
		piece := []int{1, 7, 64, 511, 512, 4096, 1 << 20}[r.Intn(7)]
		src := stream.Bytes()
		dec := gojson.NewDecoder(&pieceReader{b: src, size: piece, failAt: -1})
		vals := make([]*c12Doc, 0, k)
		snaps := make([]string, 0, k)
		o.current(map[string]string{"property": "C12", "api": "Decoder stream", "piece": strconv.Itoa(piece), "stream": clip(string(src))})
		for {
			d := &c12Doc{}
			if err := dec.Decode(d); err != nil {
				if err != io.EOF {
					o.count("stream_decode_errors", 1)
				}
				break
			}
			vals = append(vals, d)
			snaps = append(snaps, c12Snap(d))
			for j := range vals {
				if c12Snap(vals[j]) != snaps[j] {
					o.violation("C12", "a value decoded earlier from a Decoder changed during a later Decode on the same stream", map[string]string{
						"piece": strconv.Itoa(piece), "index": strconv.Itoa(j), "after_index": strconv.Itoa(len(vals) - 1),
						"before": clip(snaps[j]), "after": clip(c12Snap(vals[j])), "stream_hex": hx(src)})
					snaps[j] = c12Snap(vals[j])
				}
			}
		}
		o.count("stream_documents", int64(len(vals)))
		o.hist("stream_piece", strconv.Itoa(piece))
	}
	// ---------- any entry point: values decoded earlier survive later decodes into other values of the same type ----------
	nh := 300
	if o.tier == "thorough" {
		nh = 4000
	}
	{
		var vals []*c12Doc
		var snaps, docs []string
		for i := 0; i < nh; i++ {
			doc := c12GenDoc(r)
			api := apis[r.Intn(len(apis))]
			o.current(map[string]string{"property": "C12", "api": "held " + api, "doc": clip(doc)})
			d := &c12Doc{}
			var err error
			switch api {
			case "Unmarshal":
				err = gojson.Unmarshal([]byte(doc), d)
			case "UnmarshalContext":
				err = gojson.UnmarshalContext(context.Background(), []byte(doc), d)
			case "UnmarshalNoEscape":
				err = gojson.UnmarshalNoEscape([]byte(doc), d)
			case "UnmarshalWithOption":
				err = gojson.UnmarshalWithOption([]byte(doc), d, gojson.DecodeFieldPriorityFirstWin())
			case "Decoder":
				err = gojson.NewDecoder(&pieceReader{b: []byte(doc), size: []int{1, 7, 512, 1 << 20}[r.Intn(4)], failAt: -1}).Decode(d)
			}
			o.count("held_decode_calls", 1)
			if err == nil {
				var sd c12Doc
				if serr := stdjson.Unmarshal([]byte(doc), &sd); serr == nil && c12Snap(&sd) != c12Snap(d) {
					o.count("differs_from_encoding_json", 1)
				}
				vals, snaps, docs = append(vals, d), append(snaps, c12Snap(d)), append(docs, doc)
			}
			for j := range vals {
				if c12Snap(vals[j]) != snaps[j] {
					o.violation("C12", "a value decoded earlier changed during a later decode into another value of the same type", map[string]string{
						"later_api": api, "later_doc_hex": hx([]byte(doc)), "earlier_doc_hex": hx([]byte(docs[j])),
						"before": clip(snaps[j]), "after": clip(c12Snap(vals[j]))})
					snaps[j] = c12Snap(vals[j])
				}
			}
			if len(vals) > 12 {
				vals, snaps, docs = vals[len(vals)-8:], snaps[len(snaps)-8:], docs[len(docs)-8:]
			}
		}
	}
	// ---------- encode side ----------
	c12MarshalerWindows(o)
	nm := 1500
	if o.tier == "thorough" {
		nm = 20000
	}
	var held []c12Held
	mapis := []string{"Marshal", "MarshalNoEscape", "MarshalContext", "MarshalWithOption", "MarshalIndent", "MarshalIndentWithOption"}
	for i := 0; i < nm; i++ {
		n := []int{0, 1, 10, 100, 900, 1100, 5000, 70000}[r.Intn(8)]
		v := map[string]interface{}{"id": i, "s": strings.Repeat(string(rune('a'+i%26)), n), "l": []int{i, i + 1}}
		api := mapis[r.Intn(len(mapis))]
		o.hist("encode_api", api)
		o.hist("encode_size", strconv.Itoa(n))
		o.current(map[string]string{"property": "C12", "api": api, "size": strconv.Itoa(n), "call": strconv.Itoa(i)})
		var got, want []byte
		var err error
		switch api {
		case "Marshal":
			got, err = gojson.Marshal(v)
			want, _ = stdjson.Marshal(v)
		case "MarshalNoEscape":
			got, err = gojson.MarshalNoEscape(v)
			want, _ = stdjson.Marshal(v)
		case "MarshalContext":
			got, err = gojson.MarshalContext(context.Background(), v)
			want, _ = stdjson.Marshal(v)
		case "MarshalWithOption":
			got, err = gojson.MarshalWithOption(v, gojson.UnorderedMap())
			want = nil
		case "MarshalIndent":
			got, err = gojson.MarshalIndent(v, "", " ")
			want, _ = stdjson.MarshalIndent(v, "", " ")
		case "MarshalIndentWithOption":
			got, err = gojson.MarshalIndentWithOption(v, "", " ", gojson.UnorderedMap())
			want = nil
		}
		o.count("encode_calls", 1)
		if err != nil {
			o.violation("C12", "Marshal failed", map[string]string{"api": api, "err": err.Error()})
			continue
		}
		if want != nil && !bytes.Equal(got, want) {
			o.violation("C12", "a Marshal result is wrong after earlier results were overwritten by the caller or buffers were recycled", map[string]string{
				"api": api, "call": strconv.Itoa(i), "size": strconv.Itoa(n), "first_difference": strconv.Itoa(firstDiff(got, want)), "got": clip(string(got)), "want": clip(string(want))})
		}
		if want == nil {
			var x, y interface{}
			if stdjson.Unmarshal(got, &x) != nil {
				o.violation("C12", "a Marshal result is not valid JSON", map[string]string{"api": api, "call": strconv.Itoa(i), "got": clip(string(got))})
			} else {
				w, _ := stdjson.Marshal(v)
				stdjson.Unmarshal(w, &y)
				a, _ := stdjson.Marshal(x)
				b, _ := stdjson.Marshal(y)
				if !bytes.Equal(a, b) {
					o.violation("C12", "a Marshal result is wrong", map[string]string{"api": api, "call": strconv.Itoa(i), "got": clip(string(got))})
				}
			}
		}
		held = append(held, c12Held{got, append([]byte(nil), got...), fmt.Sprintf("%s call %d size %d", api, i, n)})
		if r.Intn(3) == 0 {
			c12Churn(r)
		}
		if r.Intn(4) == 0 {
			var b bytes.Buffer
			gojson.NewEncoder(&b).Encode(v)
		}
		// every slice handed out so far is still what it was
		for j := range held {
			if !bytes.Equal(held[j].got, held[j].copy) {
				o.violation("C12", "a slice returned by Marshal was changed by a later library call", map[string]string{
					"result_of": held[j].desc, "changed_after": fmt.Sprintf("%s call %d size %d", api, i, n), "first_difference": strconv.Itoa(firstDiff(held[j].got, held[j].copy)),
					"now": clip(string(held[j].got)), "was": clip(string(held[j].copy))})
				held[j].copy = append(held[j].copy[:0], held[j].got...)
			}
		}
		// the caller does what it likes with its slices
		if r.Intn(3) == 0 {
			h := &held[r.Intn(len(held))]
			for j := range h.got {
				h.got[j] = 'Z'
			}
			h.copy = append(h.copy[:0], h.got...)
			if cap(h.got) > len(h.got) {
				full := h.got[:cap(h.got)]
				for j := len(h.got); j < len(full); j++ {
					full[j] = 'Y'
				}
			}
			o.count("caller_overwrites", 1)
		}
		if len(held) > 40 {
			held = held[len(held)-25:]
		}
	}
}
