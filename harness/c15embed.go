package main

// C15: which field a name selects when structs are embedded in structs, to any depth, by value and by
// pointer, with tagged and untagged fields of the same name at several depths.  Shapes are generated
// (reflect.StructOf can embed unnamed struct types); every leaf is an int.  Observed: the leaf that receives
// the value of {"<name>":7}, and the members Marshal writes for a value whose leaves are numbered.  Compared
// with encoding/json and, through ops c15.resolve / c15.members, with the Coq model (Model/FieldRes.v).

import (
	"bytes"
	stdjson "encoding/json"
	"fmt"
	"math/rand"
	"reflect"
	"sort"
	"strings"

	gojson "github.com/goccy/go-json"
)

type c15Fld struct {
	name   string // JSON name of a plain field
	goName string
	tagged bool
	embed  []*c15Fld // non-nil: an embedded struct
	ptr    bool      // embedded by pointer
}

var c15EmbNames = []string{"X", "Y", "Z", "W"}

func c15GenStruct(r *rand.Rand, depth int, top bool) []*c15Fld {
	n := 1 + r.Intn(3)
	if top {
		n = 2 + r.Intn(3)
	}
	var fs []*c15Fld
	used := map[string]bool{}
	for i := 0; i < n; i++ {
		if depth > 0 && r.Intn(5) < 3 {
			fs = append(fs, &c15Fld{embed: c15GenStruct(r, depth-1, false), ptr: r.Intn(3) == 0})
			continue
		}
		gn := c15EmbNames[r.Intn(len(c15EmbNames))]
		if used[gn] {
			continue
		}
		used[gn] = true
		f := &c15Fld{goName: gn, name: gn}
		switch r.Intn(5) {
		case 0:
			f.tagged = true // json:"<same name>"
		case 1:
			f.tagged = true
			f.name = c15EmbNames[r.Intn(len(c15EmbNames))] // renamed
		}
		fs = append(fs, f)
	}
	if len(fs) == 0 {
		fs = append(fs, &c15Fld{goName: "X", name: "X"})
	}
	return fs
}

// every struct gets its own ignored first field, so that no two generated structs are the same type:
// encoding/json explores a struct TYPE once per level and loses count of repeated occurrences below the first
// level (the same type embedded by pointer and by value side by side), which is not what is compared here
var c15TypeCounter int

func c15BuildType(fs []*c15Fld) reflect.Type {
	var sf []reflect.StructField
	c15TypeCounter++
	sf = append(sf, reflect.StructField{Name: fmt.Sprintf("I%d", c15TypeCounter), Type: reflect.TypeOf(0), Tag: `json:"-"`})
	for i, f := range fs {
		if f.embed != nil {
			t := c15BuildType(f.embed)
			if f.ptr {
				t = reflect.PtrTo(t)
			}
			sf = append(sf, reflect.StructField{Name: fmt.Sprintf("E%d", i), Type: t, Anonymous: true})
			continue
		}
		tag := reflect.StructTag("")
		if f.tagged {
			tag = reflect.StructTag(`json:"` + f.name + `"`)
		}
		sf = append(sf, reflect.StructField{Name: f.goName, Type: reflect.TypeOf(0), Tag: tag})
	}
	return reflect.StructOf(sf)
}

func c15Wire(sb *strings.Builder, fs []*c15Fld) {
	sb.WriteString("(I;")
	for _, f := range fs {
		if f.embed != nil {
			sb.WriteByte('E')
			c15Wire(sb, f.embed)
			continue
		}
		t := '0'
		if f.tagged {
			t = '1'
		}
		fmt.Fprintf(sb, "P%c%s;", t, f.name)
	}
	sb.WriteByte(')')
}

func c15Show(fs []*c15Fld) string {
	var parts []string
	for _, f := range fs {
		if f.embed != nil {
			p := "struct" + c15Show(f.embed)
			if f.ptr {
				p = "*" + p
			}
			parts = append(parts, p)
		} else if f.tagged {
			parts = append(parts, f.goName+" `"+f.name+"`")
		} else {
			parts = append(parts, f.goName)
		}
	}
	return "{" + strings.Join(parts, "; ") + "}"
}

// the index path of the leaf that holds want, "-" when none, "!" when several
func c15FindLeaf(v reflect.Value, want int64, path string, out *[]string) {
	switch v.Kind() {
	case reflect.Ptr:
		if !v.IsNil() {
			c15FindLeaf(v.Elem(), want, path, out)
		}
	case reflect.Struct:
		for i := 0; i < v.NumField(); i++ {
			p := fmt.Sprint(i)
			if path != "" {
				p = path + "." + p
			}
			c15FindLeaf(v.Field(i), want, p, out)
		}
	case reflect.Int:
		if v.Int() == want {
			*out = append(*out, path)
		}
	}
}

func c15Number(v reflect.Value, n *int64, byPath map[int64]string, path string) {
	switch v.Kind() {
	case reflect.Ptr:
		if v.IsNil() {
			v.Set(reflect.New(v.Type().Elem()))
		}
		c15Number(v.Elem(), n, byPath, path)
	case reflect.Struct:
		for i := 0; i < v.NumField(); i++ {
			p := fmt.Sprint(i)
			if path != "" {
				p = path + "." + p
			}
			c15Number(v.Field(i), n, byPath, p)
		}
	case reflect.Int:
		*n++
		v.SetInt(*n)
		byPath[*n] = path
	}
}

// members of an object text as name=path of the leaf whose number is the value, in text order
func c15Members(b []byte, byPath map[int64]string) string {
	d := stdjson.NewDecoder(strings.NewReader(string(b)))
	tok, err := d.Token()
	if err != nil || tok != stdjson.Delim('{') {
		return "?" + string(b)
	}
	var parts []string
	for d.More() {
		k, _ := d.Token()
		var n int64
		if err := d.Decode(&n); err != nil {
			return "?" + string(b)
		}
		parts = append(parts, fmt.Sprintf("%v=%s", k, byPath[n]))
	}
	return strings.Join(parts, ",")
}

func c15EmbeddedGenerated(o *Out) {
	n := 700
	if o.tier == "thorough" {
		n = 12000
	}
	shapes := [][]*c15Fld{}
	// the shapes of the two defects repaired here: ambiguity inside an embedded struct, and a tag two levels down
	x := func(tagged bool) *c15Fld { return &c15Fld{goName: "X", name: "X", tagged: tagged} }
	e := func(fs ...*c15Fld) *c15Fld { return &c15Fld{embed: fs} }
	ep := func(fs ...*c15Fld) *c15Fld { return &c15Fld{embed: fs, ptr: true} }
	shapes = append(shapes,
		[]*c15Fld{e(e(x(false)), e(x(false))), e(e(x(false)))},
		[]*c15Fld{e(e(x(true)), e(x(false))), e(e(x(false)))},
		[]*c15Fld{ep(e(x(false))), e(x(false))},
		[]*c15Fld{ep(e(x(false))), e(e(x(false)))},
		[]*c15Fld{e(e(x(true)), e(x(true))), e(e(x(false)))},
		[]*c15Fld{e(e(e(x(false)))), e(e(x(false)), e(x(false)))},
	)
	for i := 0; i < n; i++ {
		shapes = append(shapes, c15GenStruct(o.rng, 3, true))
	}
	for _, fs := range shapes {
		var t reflect.Type
		if safeCall(func() error { t = c15BuildType(fs); return nil }) != nil {
			o.count("embedded_shapes_not_buildable", 1)
			continue
		}
		var wb strings.Builder
		c15Wire(&wb, fs)
		shape := c15Show(fs)
		o.count("embedded_shapes", 1)
		// decoding: which leaf a name selects
		for _, name := range c15EmbNames {
			doc := []byte(`{"` + name + `":7}`)
			obs := func(lib string) string {
				dst := reflect.New(t)
				var err error
				if perr := safeCall(func() error {
					if lib == "go" {
						err = gojson.Unmarshal(doc, dst.Interface())
					} else {
						err = stdjson.Unmarshal(doc, dst.Interface())
					}
					return nil
				}); perr != nil {
					return "panic"
				}
				if err != nil {
					return "E"
				}
				var found []string
				c15FindLeaf(dst.Elem(), 7, "", &found)
				switch len(found) {
				case 0:
					return "-"
				case 1:
					return found[0]
				}
				return "!" + strings.Join(found, "|")
			}
			got, want := obs("go"), obs("std")
			o.count("embedded_resolve_cases", 1)
			o.emit("A", "c15.resolve", [][]byte{[]byte(wb.String()), []byte(name)}, []byte(got), []byte(want), true)
			if got != want {
				o.hist("embedded_resolve", "differs from encoding/json")
				o.Notes = appendNote(o.Notes, fmt.Sprintf("resolve %s key %s: go-json %s encoding/json %s", shape, name, got, want))
			} else {
				o.hist("embedded_resolve", "agrees")
			}
		}
		// encoding: the members written
		enc := func(lib string) string {
			v := reflect.New(t)
			var cnt int64
			byPath := map[int64]string{}
			c15Number(v.Elem(), &cnt, byPath, "")
			var b []byte
			var err error
			if perr := safeCall(func() error {
				if lib == "go" {
					b, err = gojson.Marshal(v.Interface())
				} else {
					b, err = stdjson.Marshal(v.Interface())
				}
				return nil
			}); perr != nil {
				return "panic"
			}
			if err != nil {
				return "E"
			}
			return c15Members(b, byPath)
		}
		got, want := enc("go"), enc("std")
		o.count("embedded_member_cases", 1)
		o.emit("A", "c15.members", [][]byte{[]byte(wb.String())}, []byte(got), []byte(want), true)
		if got != want {
			o.Notes = appendNote(o.Notes, fmt.Sprintf("members %s: go-json %s encoding/json %s", shape, got, want))
		}
	}
	_ = sort.Strings
}

func appendNote(notes []string, s string) []string {
	if len(notes) < 12 {
		return append(notes, s)
	}
	return notes
}

// ---------------------------------------------------------------------------
// Added by the generator audit (wave 6): what the generated shapes above never meet.  Compared with encoding/json
// only (no model op: the model's select takes exact names).
//   - keys that match a promoted field only case-insensitively, and both spellings in one document
//   - the stream decoder (whole input, a byte per read) on embedded shapes
//   - encoding with some embedded pointers nil (their members are absent), through Marshal and MarshalIndent
//   - names that differ in case only at different depths ( X and x ), selected by exact keys: the lower-cased alias
//     the decoder keeps for X must never stand in for, or hide, a real field x

// like c15GenStruct, tag names drawn from names that differ in case only
func c15GenStructCase(r *rand.Rand, depth int, top bool) []*c15Fld {
	n := 1 + r.Intn(3)
	if top {
		n = 2 + r.Intn(3)
	}
	pool := []string{"X", "x", "Y", "y"}
	var fs []*c15Fld
	used := map[string]bool{}
	for i := 0; i < n; i++ {
		if depth > 0 && r.Intn(5) < 3 {
			fs = append(fs, &c15Fld{embed: c15GenStructCase(r, depth-1, false), ptr: r.Intn(3) == 0})
			continue
		}
		gn := c15EmbNames[r.Intn(len(c15EmbNames))]
		if used[gn] {
			continue
		}
		used[gn] = true
		f := &c15Fld{goName: gn, name: gn}
		if r.Intn(2) == 0 {
			f.tagged = true
			f.name = pool[r.Intn(len(pool))]
		}
		fs = append(fs, f)
	}
	if len(fs) == 0 {
		fs = append(fs, &c15Fld{goName: "X", name: "X"})
	}
	return fs
}

// allocates embedded pointers at random and numbers the int leaves that can be reached
func c15NumberSome(v reflect.Value, n *int64, r *rand.Rand) {
	switch v.Kind() {
	case reflect.Ptr:
		if r.Intn(2) == 0 {
			return
		}
		v.Set(reflect.New(v.Type().Elem()))
		c15NumberSome(v.Elem(), n, r)
	case reflect.Struct:
		for i := 0; i < v.NumField(); i++ {
			c15NumberSome(v.Field(i), n, r)
		}
	case reflect.Int:
		*n++
		v.SetInt(*n)
	}
}

func c15EmbeddedExtra(o *Out) {
	r := o.rng
	n := 300
	if o.tier == "thorough" {
		n = 6000
	}
	leaf := func(t reflect.Type, doc []byte, mode int, want int64) string {
		dst := reflect.New(t)
		var err error
		if perr := safeCall(func() error {
			switch mode {
			case 0:
				err = gojson.Unmarshal(doc, dst.Interface())
			case 1:
				err = streamDecode(doc, dst.Interface(), false)
			case 2:
				err = streamDecode(doc, dst.Interface(), true)
			default:
				err = stdjson.Unmarshal(doc, dst.Interface())
			}
			return nil
		}); perr != nil {
			return "panic"
		}
		if err != nil {
			return "E"
		}
		var found []string
		c15FindLeaf(dst.Elem(), want, "", &found)
		return strings.Join(found, "|")
	}
	for i := 0; i < n; i++ {
		mixed := i%2 == 1
		var fs []*c15Fld
		if mixed {
			fs = c15GenStructCase(r, 3, true)
		} else {
			fs = c15GenStruct(r, 3, true)
		}
		var t reflect.Type
		if safeCall(func() error { t = c15BuildType(fs); return nil }) != nil {
			continue
		}
		shape := c15Show(fs)
		o.current(map[string]string{"property": "C15", "phase": "embedded, extra", "shape": shape})
		if mixed {
			o.count("embedded_extra_shapes_names_differing_in_case", 1)
		} else {
			o.count("embedded_extra_shapes", 1)
		}
		var docs []string
		if mixed {
			// keys X, x, Y, y only: when both cases are names each key is exact, when one is a name the other key has
			// a single case-insensitive candidate, so the recorded tie rule (FoldTieOrder) is never what decides
			for _, k := range []string{"X", "x", "Y", "y"} {
				docs = append(docs, `{"`+k+`":7}`, `{"`+k+`":7,"`+c15ToggleASCII(k, r, true)+`":8}`, `{"`+c15ToggleASCII(k, r, true)+`":8,"`+k+`":7}`)
			}
		} else {
			for _, k := range c15EmbNames {
				l := strings.ToLower(k)
				docs = append(docs, `{"`+l+`":7}`, `{"`+k+`":8,"`+l+`":7}`, `{"`+l+`":7,"`+k+`":7}`, `{"\u00`+fmt.Sprintf("%02x", l[0])+`":7}`)
			}
		}
		for _, doc := range docs {
			want7, want8 := leaf(t, []byte(doc), 9, 7), leaf(t, []byte(doc), 9, 8)
			for mode := 0; mode < 3; mode++ {
				got7, got8 := leaf(t, []byte(doc), mode, 7), leaf(t, []byte(doc), mode, 8)
				o.count("embedded_extra_decode_cases", 1)
				if got7 != want7 || got8 != want8 {
					o.violation("C15", "embedded-field resolution differs from encoding/json (decode, case-insensitive or stream)", map[string]string{
						"shape": shape, "doc": doc, "mode": fmt.Sprint(mode), "got": got7 + " / " + got8, "want": want7 + " / " + want8})
				}
			}
		}
		// encoding with embedded pointers nil at random
		for rep := 0; rep < 3; rep++ {
			v := reflect.New(t)
			var cnt int64
			c15NumberSome(v.Elem(), &cnt, r)
			for variant := 0; variant < 2; variant++ {
				var g, w []byte
				var gerr, werr error
				if perr := safeCall(func() error {
					if variant == 0 {
						g, gerr = gojson.Marshal(v.Interface())
					} else {
						g, gerr = gojson.MarshalIndent(v.Interface(), "", " ")
					}
					return nil
				}); perr != nil {
					gerr = perr
				}
				if variant == 0 {
					w, werr = stdjson.Marshal(v.Interface())
				} else {
					w, werr = stdjson.MarshalIndent(v.Interface(), "", " ")
				}
				o.count("embedded_extra_encode_cases", 1)
				if (gerr != nil) != (werr != nil) || !bytes.Equal(g, w) {
					o.violation("C15", "members written for a value with nil embedded pointers differ from encoding/json", map[string]string{
						"shape": shape, "variant": fmt.Sprint(variant), "got": string(g), "want": string(w), "gerr": fmt.Sprint(gerr)})
				}
			}
		}
	}
}
