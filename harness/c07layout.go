package main

// C07: raw memory of pointer-free destinations.  A destination (nested structs and arrays of booleans, integers
// and floats, with whatever padding reflect gives them) sits between two guards inside one allocation whose every
// byte holds a pattern; after Unmarshal / Decoder.Decode the bytes that changed must all lie inside the stores
// the Coq model allows for that layout and document (op c07.stores, Model/Layout.v): nothing in the guards,
// nothing in fields no key selects, nothing in padding, nothing behind a short array beyond its own zero fill.

import (
	stdjson "encoding/json"
	"fmt"
	"math/rand"
	"reflect"
	"runtime"
	"sort"
	"strconv"
	"strings"
	"unsafe"

	gojson "github.com/goccy/go-json"
)

var c07lScalars = []reflect.Type{
	reflect.TypeOf(false), reflect.TypeOf(int8(0)), reflect.TypeOf(int16(0)), reflect.TypeOf(int32(0)), reflect.TypeOf(int64(0)),
	reflect.TypeOf(uint8(0)), reflect.TypeOf(uint16(0)), reflect.TypeOf(uint32(0)), reflect.TypeOf(uint64(0)),
	reflect.TypeOf(float32(0)), reflect.TypeOf(float64(0)), reflect.TypeOf(int(0)), reflect.TypeOf(uintptr(0)),
}

func c07lType(r *rand.Rand, depth int) reflect.Type {
	k := r.Intn(10)
	if depth <= 0 {
		k = r.Intn(5)
	}
	switch {
	case k < 5:
		return c07lScalars[r.Intn(len(c07lScalars))]
	case k < 7:
		return reflect.ArrayOf(r.Intn(6), c07lType(r, depth-1))
	default:
		n := 1 + r.Intn(5)
		fs := make([]reflect.StructField, n)
		for i := range fs {
			fs[i] = reflect.StructField{Name: fmt.Sprintf("F%d", i), Type: c07lType(r, depth-1)}
		}
		return reflect.StructOf(fs)
	}
}

func c07lWire(sb *strings.Builder, t reflect.Type) {
	switch t.Kind() {
	case reflect.Array:
		fmt.Fprintf(sb, "A%d,%d;", t.Len(), t.Elem().Size())
		c07lWire(sb, t.Elem())
	case reflect.Struct:
		fmt.Fprintf(sb, "T%d,%d;", t.Size(), t.NumField())
		for i := 0; i < t.NumField(); i++ {
			f := t.Field(i)
			fmt.Fprintf(sb, "%d:%s%d;", len(f.Name), f.Name, f.Offset)
			c07lWire(sb, f.Type)
		}
	default:
		fmt.Fprintf(sb, "S%d;", t.Size())
	}
}

// a document for the type, as JSON text and in the wire format of Model/Enc.v
func c07lDoc(r *rand.Rand, t reflect.Type, js, wire *strings.Builder) {
	if r.Intn(12) == 0 {
		js.WriteString("null")
		wire.WriteByte('Z')
		return
	}
	switch t.Kind() {
	case reflect.Array:
		if r.Intn(15) == 0 {
			js.WriteString("{}")
			wire.WriteString("O0:")
			return
		}
		n := t.Len() + r.Intn(4) - 2
		if n < 0 {
			n = 0
		}
		fmt.Fprintf(wire, "A%d:", n)
		js.WriteByte('[')
		for i := 0; i < n; i++ {
			if i > 0 {
				js.WriteByte(',')
			}
			js.WriteString(genWS(r))
			c07lDoc(r, t.Elem(), js, wire)
		}
		js.WriteByte(']')
	case reflect.Struct:
		if r.Intn(15) == 0 {
			js.WriteString("[]")
			wire.WriteString("A0:")
			return
		}
		type mem struct {
			key string
			idx int
		}
		var ms []mem
		for i := 0; i < t.NumField(); i++ {
			if r.Intn(3) > 0 {
				name := t.Field(i).Name
				if r.Intn(4) == 0 {
					name = strings.ToLower(name)
				}
				ms = append(ms, mem{name, i})
			}
		}
		if r.Intn(3) == 0 {
			ms = append(ms, mem{"zz", -1})
		}
		if len(ms) > 0 && r.Intn(4) == 0 {
			ms = append(ms, ms[r.Intn(len(ms))])
		}
		r.Shuffle(len(ms), func(i, j int) { ms[i], ms[j] = ms[j], ms[i] })
		fmt.Fprintf(wire, "O%d:", len(ms))
		js.WriteByte('{')
		for i, m := range ms {
			if i > 0 {
				js.WriteByte(',')
			}
			fmt.Fprintf(js, "%q:%s", m.key, genWS(r))
			fmt.Fprintf(wire, "0%d:%s", len(m.key), m.key)
			if m.idx < 0 {
				js.WriteString("[1,{\"a\":2}]")
				wire.WriteString("A2:N1:1O1:01:aN1:2")
			} else {
				c07lDoc(r, t.Field(m.idx).Type, js, wire)
			}
		}
		js.WriteByte('}')
	case reflect.Bool:
		if r.Intn(10) == 0 {
			js.WriteString("1")
			wire.WriteString("N1:1")
		} else if r.Intn(2) == 0 {
			js.WriteString("true")
			wire.WriteByte('T')
		} else {
			js.WriteString("false")
			wire.WriteByte('F')
		}
	default:
		lits := []string{"7", "0", "1", "100", "-3", "200", "70000", "1.5", "-1"}
		if r.Intn(12) == 0 {
			js.WriteString(`"x"`)
			wire.WriteString("S1:x")
			return
		}
		l := lits[r.Intn(len(lits))]
		js.WriteString(l)
		fmt.Fprintf(wire, "N%d:%s", len(l), l)
	}
}

func c07LayoutCases(o *Out) {
	r := o.rng
	n := 1500
	if o.tier == "thorough" {
		n = 30000
	}
	guard := reflect.TypeOf([24]byte{})
	for c := 0; c < n; c++ {
		t := c07lType(r, 3)
		if t.Size() == 0 {
			continue
		}
		outer := reflect.StructOf([]reflect.StructField{{Name: "Pre", Type: guard}, {Name: "V", Type: t}, {Name: "Post", Type: guard}})
		p := reflect.New(outer)
		size := int(outer.Size())
		mem := unsafe.Slice((*byte)(p.UnsafePointer()), size)
		for i := range mem {
			mem[i] = 0xA5
		}
		before := append([]byte(nil), mem...)
		base := int(outer.Field(1).Offset)
		var js, dw, lw strings.Builder
		c07lDoc(r, t, &js, &dw)
		c07lWire(&lw, t)
		doc := js.String()
		stream := r.Intn(3) == 0
		o.current(map[string]string{"property": "C07", "what": "raw layout", "type": t.String(), "doc": clip(doc), "stream": fmt.Sprint(stream)})
		dst := p.Elem().Field(1).Addr().Interface()
		var err error
		perr := safeCall(func() error {
			if stream {
				err = gojson.NewDecoder(&pieceReader{b: []byte(doc), size: 1 + r.Intn(9), failAt: -1}).Decode(dst)
			} else {
				err = gojson.Unmarshal([]byte(doc), dst)
			}
			return nil
		})
		o.count("raw_layout_cases", 1)
		if perr != nil {
			o.violation("C07", "decoding into a pointer-free destination panicked", map[string]string{"type": t.String(), "doc": clip(doc), "panic": perr.Error()})
			continue
		}
		if err != nil {
			o.count("raw_layout_decode_errors", 1)
		}
		// changed ranges
		var ranges []string
		guardHit := -1
		for i := 0; i < size; {
			if mem[i] == before[i] {
				i++
				continue
			}
			j := i
			for j < size && mem[j] != before[j] {
				j++
			}
			ranges = append(ranges, fmt.Sprintf("%d:%d", i, j-i))
			if i < base || j > base+int(t.Size()) {
				guardHit = i
			}
			i = j
		}
		if guardHit >= 0 {
			o.violation("C07", "decoding wrote outside the destination (guard bytes changed)", map[string]string{"type": t.String(), "doc": clip(doc), "offset_in_allocation": fmt.Sprint(guardHit), "destination_at": fmt.Sprintf("%d..%d", base, base+int(t.Size()))})
		}
		rs := strings.Join(ranges, ",")
		o.hist("raw_layout_changed_ranges", fmt.Sprint(len(ranges)))
		o.emit("A", "c07.stores", [][]byte{[]byte(lw.String()), []byte(dw.String()), []byte(fmt.Sprint(base)), []byte(rs)}, []byte("in"), nil, false)
	}
}

// ---------- struct key matchers ----------
//
// Which field a member is stored into is decided by one of six matchers ( 8-bit bitmap for up to 8 names,
// 16-bit bitmap for up to 16, the map for more names / names longer than 64 bytes / names outside ASCII; each
// for the buffer and for the stream ), every one computing field addresses from its own table.  The fields sit
// between canaries; names share prefixes, are prefixes of one another or differ in the last byte only; keys are
// spelled exactly, in another case, with escapes, cut short, extended, or are unknown.  Demanded:
//   - no canary changes,
//   - a field whose name equals no key of the document under case folding ( strings.EqualFold: the widest
//     reading, encoding/json's ) keeps its contents,
//   - a field whose name is spelled exactly ( after unescaping ) by one member, and by case folding by no other,
//     holds that member's value when the document is accepted.

var c07kmTypes = []struct {
	typ reflect.Type
	val string
}{
	{reflect.TypeOf(uint8(0)), "7"}, {reflect.TypeOf(int16(0)), "-300"}, {reflect.TypeOf(uint32(0)), "70000"},
	{reflect.TypeOf(""), `"new value"`}, {reflect.TypeOf([3]uint8{}), "[1,2,3]"}, {reflect.TypeOf(false), "false"},
	{reflect.TypeOf(float64(0)), "1.5"}, {reflect.TypeOf([]int8{}), "[4,5]"}, {reflect.TypeOf((*int8)(nil)), "9"},
}

func c07kmNames(r *rand.Rand, family, nf, variant int) []string {
	const letters = "abcdefghijklmnopqrstuvwxyz"
	seen := map[string]bool{}
	var out []string
	add := func(s string) {
		if s == "" || s == "-" || seen[s] {
			return
		}
		seen[s] = true
		out = append(out, s)
	}
	switch family {
	case 0: // ladder: every name a prefix of the next
		var b strings.Builder
		for len(out) < nf {
			c := letters[r.Intn(len(letters))]
			if r.Intn(3) == 0 {
				c -= 'a' - 'A'
			}
			b.WriteByte(c)
			add(b.String())
		}
	case 1: // one common prefix, the names differ in their last bytes; the length walks over the limits of the matchers
		l := []int{1, 2, 8, 16, 63, 64, 65, 100}[variant%8]
		if l < 3 && nf > 30 {
			l = 8
		}
		pre := make([]byte, l)
		for i := range pre {
			pre[i] = letters[r.Intn(len(letters))]
			if r.Intn(4) == 0 {
				pre[i] -= 'a' - 'A'
			}
		}
		const last = "0123456789abcdefghijklmnopqrstuvwxyz"
		for i := 0; len(out) < nf && i < 36*36; i++ {
			n := append([]byte(nil), pre...)
			n[l-1] = last[i%36]
			if i >= 36 && l >= 2 {
				n[l-2] = last[i/36]
			}
			add(string(n))
		}
	case 2: // short names over a tiny alphabet: some equal under case folding
		for tries := 0; len(out) < nf && tries < 2000; tries++ {
			n := make([]byte, 1+r.Intn(4))
			for i := range n {
				n[i] = "abAB01_"[r.Intn(7)]
			}
			add(string(n))
		}
	case 3: // names outside ASCII and with punctuation among plain ones
		special := []string{"é", "É1", "naïve", "a b", "x.y", "ключ", "K2", "ſt", "日本", "a-b", "Ünï", "k2", "st", "a:b", "ÀÉ"}
		r.Shuffle(len(special), func(i, j int) { special[i], special[j] = special[j], special[i] })
		for i := 0; i < len(special) && len(out) < nf && i < 1+nf/2; i++ {
			add(special[i])
		}
		for i := 0; len(out) < nf; i++ {
			add(fmt.Sprintf("p%d", i))
		}
	default: // Go-like names
		for i := 0; len(out) < nf; i++ {
			add("Name" + strings.Repeat("x", r.Intn(3)) + strings.ToUpper(string(letters[i%26])) + string(letters[(i/26+r.Intn(3))%26]))
		}
	}
	return out
}

// c07kmSpell gives the text of a key ( between the quotes ) and what it decodes to
func c07kmSpell(r *rand.Rand, name string, how int) (lit, dec string) {
	esc := func(rn rune) string {
		if rn > 0xFFFF {
			a, b := utf16Pair(rn)
			return fmt.Sprintf(`\u%04x\u%04X`, a, b)
		}
		if r.Intn(2) == 0 {
			return fmt.Sprintf(`\u%04X`, rn)
		}
		return fmt.Sprintf(`\u%04x`, rn)
	}
	rs := []rune(name)
	switch how {
	case 1:
		return strings.ToLower(name), strings.ToLower(name)
	case 2:
		return strings.ToUpper(name), strings.ToUpper(name)
	case 3: // one letter in the other case
		i := r.Intn(len(rs))
		c := rs[i]
		if c >= 'a' && c <= 'z' {
			rs[i] = c - 32
		} else if c >= 'A' && c <= 'Z' {
			rs[i] = c + 32
		}
		return string(rs), string(rs)
	case 4: // one character escaped
		i := r.Intn(len(rs))
		return string(rs[:i]) + esc(rs[i]) + string(rs[i+1:]), name
	case 5: // every character escaped
		var b strings.Builder
		for _, c := range rs {
			b.WriteString(esc(c))
		}
		return b.String(), name
	case 6: // cut short
		return string(rs[:len(rs)-1]), string(rs[:len(rs)-1])
	case 7: // extended
		e := string("0aA_x"[r.Intn(5)])
		return name + e, name + e
	case 8: // one character replaced
		i := r.Intn(len(rs))
		rs[i] = []rune("zZ9_é")[r.Intn(5)]
		return string(rs), string(rs)
	case 9: // unknown, of a length around the limits
		n := []int{0, 1, 5, 16, 63, 64, 65, 130, 600}[r.Intn(9)]
		b := make([]byte, n)
		for i := range b {
			b[i] = "abcXYZ_0"[r.Intn(8)]
		}
		return string(b), string(b)
	case 10: // the name followed by an escaped quote or backslash
		if r.Intn(2) == 0 {
			return name + `\"`, name + `"`
		}
		return name + `\\`, name + `\`
	case 11: // an escaped quote first: the matcher has failed before it sees the name
		return `\"` + name, `"` + name
	}
	return name, name
}

func utf16Pair(rn rune) (rune, rune) {
	rn -= 0x10000
	return 0xD800 + (rn>>10)&0x3FF, 0xDC00 + rn&0x3FF
}

func c07KeyMatcherCases(o *Out, decodeOnly bool) {
	r := o.rng
	nfs := []int{1, 2, 7, 8, 9, 10, 15, 16, 17, 18, 24, 40}
	docsPer := 6
	if o.tier == "thorough" {
		docsPer = 60
	}
	for family := 0; family < 5; family++ {
		for ni, nf := range nfs {
			names := c07kmNames(r, family, nf, ni+5)
			if len(names) == 0 {
				continue
			}
			// the struct: canary, field, canary, ...
			var fs []reflect.StructField
			fs = append(fs, c07Canary(0, r))
			ftyp := make([]int, len(names))
			for i := range names {
				ftyp[i] = r.Intn(len(c07kmTypes))
				fs = append(fs, reflect.StructField{Name: fmt.Sprintf("F%02d", i), Type: c07kmTypes[ftyp[i]].typ,
					Tag: reflect.StructTag(`json:` + strconv.Quote(names[i]))})
				fs = append(fs, c07Canary(i+1, r))
			}
			st := reflect.StructOf(fs)
			matcher := "bitmap8"
			switch {
			case family == 3:
				matcher = "names outside ASCII"
			case len(names) > 16:
				matcher = "map(>16 names)"
			case len(names[0]) > 64 || len(names[len(names)-1]) > 64:
				matcher = "map(long name)"
			case len(names) > 8:
				matcher = "bitmap16"
			}
			foldUnique := make([]bool, len(names))
			for i := range names {
				foldUnique[i] = true
				for j := range names {
					if i != j && strings.EqualFold(names[i], names[j]) {
						foldUnique[i] = false
					}
				}
			}
			for d := 0; d < docsPer; d++ {
				type member struct {
					lit, dec, val string
					field         int // the field whose spelling this is, -1 unknown
				}
				var ms []member
				m := 1 + r.Intn(6)
				for k := 0; k < m; k++ {
					fi := r.Intn(len(names))
					how := []int{0, 0, 0, 1, 2, 3, 4, 5, 6, 7, 8, 9, 10, 11}[r.Intn(14)]
					lit, dec := c07kmSpell(r, names[fi], how)
					val := ""
					for j := range names {
						if strings.EqualFold(dec, names[j]) {
							val = c07kmTypes[ftyp[j]].val
							break
						}
					}
					if val == "" {
						fi = -1
						val = []string{`1`, `"s"`, `[1,{"a":"}"}]`, `{"x":{"y":["]"]}}`, `null`, `"\\\""`}[r.Intn(6)]
					}
					ms = append(ms, member{lit, dec, val, fi})
				}
				var b strings.Builder
				b.WriteString("{")
				for k, mb := range ms {
					if k > 0 {
						b.WriteString(",")
					}
					b.WriteString(genWS(r) + `"` + mb.lit + `"` + genWS(r) + `:` + genWS(r) + mb.val)
				}
				b.WriteString(genWS(r) + "}")
				c := &c07Case{typ: st, seed: r.Int63(), field: -1, doc: []byte(b.String()), addr: map[string]bool{}}
				c.mode = []int{0, 0, 1, 3, 64, c07FullReads}[r.Intn(6)]
				c07PickEntry(r, c)
				c.failAt = -1
				root := reflect.New(st)
				if decodeOnly {
					c07Init(root.Elem(), "root", nil, rand.New(rand.NewSource(c.seed)))
					func() {
						defer func() { recover() }()
						c07Decode(c, root.Interface(), append([]byte(nil), c.doc...), false)
					}()
					c07Walk(root.Elem(), "root", 0)
					o.count("child_key_matcher_cases", 1)
					continue
				}
				tr := &c07Track{}
				c07Init(root.Elem(), "root", tr, rand.New(rand.NewSource(c.seed)))
				before := make([]string, len(names))
				for i := range names {
					before[i] = c07Snap(root.Elem().Field(2*i + 1))
				}
				o.current(c07Describe(c))
				var err error
				perr := safeCall(func() error { err = c07Decode(c, root.Interface(), append([]byte(nil), c.doc...), false); return nil })
				o.count("key_matcher_cases", 1)
				o.hist("key_matcher", matcher)
				det := c07Describe(c)
				det["names"] = clip(strings.Join(names, " | "))
				det["matcher"] = matcher
				if perr != nil {
					det["panic"] = perr.Error()
					o.violation("C07", "decoding panicked (struct key matching)", det)
					continue
				}
				bad := ""
				for _, cn := range tr.canaries {
					for i, x := range unsafe.Slice((*byte)(cn.p), cn.n) {
						if x != 0xA5 {
							bad = fmt.Sprintf("canary %s byte %d of %d changed to %#x", cn.desc, i, cn.n, x)
						}
					}
				}
				if w := c07SafeWalk(root.Elem()); bad == "" && w != "" {
					bad = "malformed destination: " + w
				}
				for i := range names {
					if bad != "" {
						break
					}
					now := c07Snap(root.Elem().Field(2*i + 1))
					folds, exact, last := 0, 0, -1
					for k, mb := range ms {
						if strings.EqualFold(mb.dec, names[i]) {
							folds++
							last = k
							if mb.dec == names[i] {
								exact++
							}
						}
					}
					if folds == 0 {
						if now != before[i] {
							bad = fmt.Sprintf("field F%02d (name %q), named by no key of the document, changed: %s -> %s", i, names[i], clip(before[i]), clip(now))
						}
						o.count("key_matcher_fields_unaddressed", 1)
						continue
					}
					if err == nil && folds == 1 && exact == 1 && foldUnique[i] {
						want := reflect.New(c07kmTypes[ftyp[i]].typ)
						stdjson.Unmarshal([]byte(ms[last].val), want.Interface())
						if w := c07Snap(want.Elem()); now != w {
							bad = fmt.Sprintf("field F%02d (name %q), spelled exactly by key %q, holds %s, not the member's value %s", i, names[i], ms[last].lit, clip(now), clip(w))
						}
						o.count("key_matcher_fields_exact_checked", 1)
					}
				}
				if err != nil {
					o.count("key_matcher_decode_err", 1)
				}
				if bad != "" {
					det["detail"] = bad
					o.violation("C07", bad, det)
				}
			}
		}
	}
}

// ---------- maps: the entries a document does not name ----------
//
// A map that already holds entries is decoded into: the members of the document replace or add entries, every
// other entry is storage the document does not address.  The decoder assigns through the runtime's
// mapassign_faststr and copies the value into the slot it returns ( string keys, values up to 128 bytes ) or
// through reflect's mapassign ( other keys, larger values ): a copy of the wrong size lands in the neighbouring
// slots of the bucket, i.e. in other entries.  Value sizes walk over 1..64 and around the 128-byte limit, the
// number of entries over one bucket ( 8 ) and beyond, key types over string, a named string type and integers.
// Oracle: entries not named keep their value; when both accept the document the whole map equals what
// encoding/json makes of an identical twin ( values are byte arrays or plain structs, where the two agree ).

type c07NamedKey string

func c07MapSnap(m reflect.Value) string {
	if m.IsNil() {
		return "mnil"
	}
	var es []string
	it := m.MapRange()
	for it.Next() {
		es = append(es, fmt.Sprintf("%v=%s", it.Key().Interface(), c07Snap(it.Value())))
	}
	sort.Strings(es)
	return "m{" + strings.Join(es, " ") + "}"
}

func c07MapCases(o *Out, decodeOnly bool) {
	r := o.rng
	keyTypes := []reflect.Type{reflect.TypeOf(""), reflect.TypeOf(c07NamedKey("")), reflect.TypeOf(int(0)), reflect.TypeOf(uint8(0)), reflect.TypeOf(int64(0))}
	sizes := []int{1, 2, 3, 4, 5, 7, 8, 9, 12, 15, 16, 17, 24, 31, 32, 33, 48, 63, 64, 65, 96, 120, 127, 128, 129, 130, 136, 200}
	type vt struct {
		typ  reflect.Type
		k    int // length of the byte array in it
		strc bool
	}
	var vts []vt
	for _, k := range sizes {
		vts = append(vts, vt{c07ByteElem(k), k, false})
	}
	for _, k := range []int{1, 8, 40, 103, 104, 105, 112} { // 16 + 8 + k bytes, rounded up to 8: 128 at k=104, 136 at 105
		vts = append(vts, vt{reflect.StructOf([]reflect.StructField{{Name: "S", Type: reflect.TypeOf("")}, {Name: "P", Type: reflect.TypeOf((*int16)(nil))},
			{Name: "B", Type: c07ByteElem(k)}}), k, true})
	}
	rounds := 1
	if o.tier == "thorough" {
		rounds = 6
	}
	keyOf := func(kt reflect.Type, i int) (reflect.Value, string) {
		switch kt.Kind() {
		case reflect.String:
			s := "k" + strconv.Itoa(i)
			return reflect.ValueOf(s).Convert(kt), s
		case reflect.Uint8:
			return reflect.ValueOf(uint8(i)), strconv.Itoa(i)
		}
		n := int64(i)
		if i%3 == 2 {
			n = -n
		}
		return reflect.ValueOf(n).Convert(kt), strconv.FormatInt(n, 10)
	}
	for round := 0; round < rounds; round++ {
		for _, v := range vts {
			for _, kt := range keyTypes {
				mt := reflect.MapOf(kt, v.typ)
				st := reflect.StructOf([]reflect.StructField{c07Canary(0, r), {Name: "M", Type: mt}, c07Canary(1, r), {Name: "N", Type: mt}, c07Canary(2, r)})
				n0 := []int{-1, 0, 1, 3, 7, 8, 9, 20}[r.Intn(8)]
				fill := func(root reflect.Value) {
					for _, f := range []string{"M", "N"} {
						if n0 < 0 {
							continue
						}
						m := reflect.MakeMap(mt)
						for i := 0; i < n0; i++ {
							e := reflect.New(v.typ).Elem()
							arr := e
							if v.strc {
								arr = e.Field(2)
								e.Field(0).SetString(strings.Clone("old-" + strconv.Itoa(i)))
								p := int16(i)
								e.Field(1).Set(reflect.ValueOf(&p))
							}
							for j := 0; j < arr.Len(); j++ {
								arr.Index(j).SetUint(uint64(0x80 + i))
							}
							kv, _ := keyOf(kt, i)
							m.SetMapIndex(kv, e)
						}
						root.FieldByName(f).Set(m)
					}
					for _, f := range []string{"C00", "C01", "C02"} {
						c := root.FieldByName(f)
						for j := 0; j < c.Len(); j++ {
							c.Index(j).SetUint(0xA5)
						}
					}
				}
				// the document: some of the old keys and some new ones
				named := map[string]bool{}
				var b strings.Builder
				b.WriteString(`{"M":{`)
				nm := r.Intn(6)
				if r.Intn(8) == 0 {
					nm = 10 + r.Intn(12)
				}
				for k := 0; k < nm; k++ {
					if k > 0 {
						b.WriteString(",")
					}
					i := r.Intn(24)
					_, ks := keyOf(kt, i)
					named[ks] = true
					cnt := []int{0, 1, v.k - 1, v.k, v.k, v.k + 1}[r.Intn(6)]
					if cnt < 0 {
						cnt = 0
					}
					arr := "[" + strings.TrimSuffix(strings.Repeat(strconv.Itoa(1+k)+",", cnt), ",") + "]"
					val := arr
					if v.strc {
						val = []string{`{"S":"new ` + ks + `","P":` + strconv.Itoa(k) + `,"B":` + arr + `}`, `{"B":` + arr + `}`, `{"S":"only s\n"}`, `{}`}[r.Intn(4)]
					}
					if r.Intn(9) == 0 {
						val = "null"
					}
					b.WriteString(genWS(r) + `"` + ks + `":` + genWS(r) + val)
				}
				b.WriteString("}}")
				doc := b.String()
				if r.Intn(6) == 0 && len(doc) > 8 {
					doc = doc[:6+r.Intn(len(doc)-6)]
				}
				c := &c07Case{typ: st, seed: 0, field: -1, doc: []byte(doc), addr: map[string]bool{}}
				c.mode = []int{0, 0, 1, 5, c07FullReads}[r.Intn(5)]
				c07PickEntry(r, c)
				if strings.Contains(c07EntryName(c), "FirstWin") { // encoding/json has no such option; maps ignore it anyway
					c.entry = 0
				}
				root := reflect.New(st)
				fill(root.Elem())
				if decodeOnly {
					func() {
						defer func() { recover() }()
						c07Decode(c, root.Interface(), append([]byte(nil), c.doc...), false)
					}()
					c07Walk(root.Elem(), "root", 0)
					o.count("child_map_cases", 1)
					continue
				}
				det := c07Describe(c)
				det["entries_before"] = strconv.Itoa(n0)
				o.current(det)
				var err error
				perr := safeCall(func() error { err = c07Decode(c, root.Interface(), append([]byte(nil), c.doc...), false); return nil })
				o.count("map_cases", 1)
				o.hist("map_value_size", strconv.Itoa(int(v.typ.Size())))
				o.hist("map_key_type", kt.String())
				if perr != nil {
					det["panic"] = perr.Error()
					o.violation("C07", "decoding into a populated map panicked", det)
					continue
				}
				bad := ""
				for _, f := range []string{"C00", "C01", "C02"} {
					cv := root.Elem().FieldByName(f)
					for j := 0; j < cv.Len(); j++ {
						if cv.Index(j).Uint() != 0xA5 {
							bad = "canary " + f + " next to a map changed"
						}
					}
				}
				if w := c07SafeWalk(root.Elem()); bad == "" && w != "" {
					bad = "malformed destination: " + w
				}
				if o.Stats["map_cases"]%3 == 0 {
					runtime.GC()
				}
				fresh := reflect.New(st)
				fill(fresh.Elem())
				if bad == "" && c07MapSnap(root.Elem().Field(3)) != c07MapSnap(fresh.Elem().Field(3)) {
					bad = "the map N, which the document does not name, changed"
				}
				if bad == "" && n0 > 0 && !root.Elem().Field(1).IsNil() {
					for i := 0; i < n0; i++ {
						kv, ks := keyOf(kt, i)
						if named[ks] {
							continue
						}
						o.count("map_entries_unaddressed", 1)
						got, want := root.Elem().Field(1).MapIndex(kv), fresh.Elem().Field(1).MapIndex(kv)
						if !got.IsValid() {
							bad = fmt.Sprintf("entry %s, which the document does not name, is gone", ks)
						} else if c07Snap(got) != c07Snap(want) {
							bad = fmt.Sprintf("entry %s, which the document does not name, changed: %s -> %s", ks, clip(c07Snap(want)), clip(c07Snap(got)))
						}
						if bad != "" {
							break
						}
					}
				}
				if bad == "" && err == nil {
					serr := c07Decode(c, fresh.Interface(), append([]byte(nil), c.doc...), true)
					if serr == nil {
						o.count("map_twin_compared", 1)
						if g, w := c07MapSnap(root.Elem().Field(1)), c07MapSnap(fresh.Elem().Field(1)); g != w {
							k := 0
							for k < len(g) && k < len(w) && g[k] == w[k] {
								k++
							}
							if k > 30 {
								k -= 30
							} else {
								k = 0
							}
							bad = fmt.Sprintf("the map differs from encoding/json's on an identical twin: ...%s, encoding/json ...%s", clip(g[k:]), clip(w[k:]))
						}
					} else {
						o.count("map_twin_std_rejects", 1)
					}
				}
				if err != nil {
					o.count("map_decode_err", 1)
				}
				if bad != "" {
					det["detail"] = bad
					det["value_type"] = v.typ.String()
					det["key_type"] = kt.String()
					o.violation("C07", bad, det)
				}
			}
		}
	}
}
