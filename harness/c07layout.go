package main

// C07: raw memory of pointer-free destinations.  A destination (nested structs and arrays of booleans, integers
// and floats, with whatever padding reflect gives them) sits between two guards inside one allocation whose every
// byte holds a pattern; after Unmarshal / Decoder.Decode the bytes that changed must all lie inside the stores
// the Coq model allows for that layout and document (op c07.stores, Model/Layout.v): nothing in the guards,
// nothing in fields no key selects, nothing in padding, nothing behind a short array beyond its own zero fill.

import (
	"fmt"
	"math/rand"
	"reflect"
	"strings"
	"unsafe"

	gojson "github.com/goccy/go-json"
)

var c07lScalars = []reflect.Type{
	reflect.TypeOf(false), reflect.TypeOf(int8(0)), reflect.TypeOf(int16(0)), reflect.TypeOf(int32(0)), reflect.TypeOf(int64(0)),
	reflect.TypeOf(uint8(0)), reflect.TypeOf(uint16(0)), reflect.TypeOf(uint32(0)), reflect.TypeOf(uint64(0)),
	reflect.TypeOf(float32(0)), reflect.TypeOf(float64(0)), reflect.TypeOf(int(0)), reflect.TypeOf(uintptr(0)),
}

func c07lType(r *rand.Rand, depth int) reflect.Type {
	k := r.Intn(10)
	if depth <= 0 {
		k = r.Intn(5)
	}
	switch {
	case k < 5:
		return c07lScalars[r.Intn(len(c07lScalars))]
	case k < 7:
		return reflect.ArrayOf(r.Intn(6), c07lType(r, depth-1))
	default:
		n := 1 + r.Intn(5)
		fs := make([]reflect.StructField, n)
		for i := range fs {
			fs[i] = reflect.StructField{Name: fmt.Sprintf("F%d", i), Type: c07lType(r, depth-1)}
		}
		return reflect.StructOf(fs)
	}
}

func c07lWire(sb *strings.Builder, t reflect.Type) {
	switch t.Kind() {
	case reflect.Array:
		fmt.Fprintf(sb, "A%d,%d;", t.Len(), t.Elem().Size())
		c07lWire(sb, t.Elem())
	case reflect.Struct:
		fmt.Fprintf(sb, "T%d,%d;", t.Size(), t.NumField())
		for i := 0; i < t.NumField(); i++ {
			f := t.Field(i)
			fmt.Fprintf(sb, "%d:%s%d;", len(f.Name), f.Name, f.Offset)
			c07lWire(sb, f.Type)
		}
	default:
		fmt.Fprintf(sb, "S%d;", t.Size())
	}
}

// a document for the type, as JSON text and in the wire format of Model/Enc.v
func c07lDoc(r *rand.Rand, t reflect.Type, js, wire *strings.Builder) {
	if r.Intn(12) == 0 {
		js.WriteString("null")
		wire.WriteByte('Z')
		return
	}
	switch t.Kind() {
	case reflect.Array:
		if r.Intn(15) == 0 {
			js.WriteString("{}")
			wire.WriteString("O0:")
			return
		}
		n := t.Len() + r.Intn(4) - 2
		if n < 0 {
			n = 0
		}
		fmt.Fprintf(wire, "A%d:", n)
		js.WriteByte('[')
		for i := 0; i < n; i++ {
			if i > 0 {
				js.WriteByte(',')
			}
			js.WriteString(genWS(r))
			c07lDoc(r, t.Elem(), js, wire)
		}
		js.WriteByte(']')
	case reflect.Struct:
		if r.Intn(15) == 0 {
			js.WriteString("[]")
			wire.WriteString("A0:")
			return
		}
		type mem struct {
			key string
			idx int
		}
		var ms []mem
		for i := 0; i < t.NumField(); i++ {
			if r.Intn(3) > 0 {
				name := t.Field(i).Name
				if r.Intn(4) == 0 {
					name = strings.ToLower(name)
				}
				ms = append(ms, mem{name, i})
			}
		}
		if r.Intn(3) == 0 {
			ms = append(ms, mem{"zz", -1})
		}
		if len(ms) > 0 && r.Intn(4) == 0 {
			ms = append(ms, ms[r.Intn(len(ms))])
		}
		r.Shuffle(len(ms), func(i, j int) { ms[i], ms[j] = ms[j], ms[i] })
		fmt.Fprintf(wire, "O%d:", len(ms))
		js.WriteByte('{')
		for i, m := range ms {
			if i > 0 {
				js.WriteByte(',')
			}
			fmt.Fprintf(js, "%q:%s", m.key, genWS(r))
			fmt.Fprintf(wire, "0%d:%s", len(m.key), m.key)
			if m.idx < 0 {
				js.WriteString("[1,{\"a\":2}]")
				wire.WriteString("A2:N1:1O1:01:aN1:2")
			} else {
				c07lDoc(r, t.Field(m.idx).Type, js, wire)
			}
		}
		js.WriteByte('}')
	case reflect.Bool:
		if r.Intn(10) == 0 {
			js.WriteString("1")
			wire.WriteString("N1:1")
		} else if r.Intn(2) == 0 {
			js.WriteString("true")
			wire.WriteByte('T')
		} else {
			js.WriteString("false")
			wire.WriteByte('F')
		}
	default:
		lits := []string{"7", "0", "1", "100", "-3", "200", "70000", "1.5", "-1"}
		if r.Intn(12) == 0 {
			js.WriteString(`"x"`)
			wire.WriteString("S1:x")
			return
		}
		l := lits[r.Intn(len(lits))]
		js.WriteString(l)
		fmt.Fprintf(wire, "N%d:%s", len(l), l)
	}
}

func c07LayoutCases(o *Out) {
	r := o.rng
	n := 1500
	if o.tier == "thorough" {
		n = 30000
	}
	guard := reflect.TypeOf([24]byte{})
	for c := 0; c < n; c++ {
		t := c07lType(r, 3)
		if t.Size() == 0 {
			continue
		}
		outer := reflect.StructOf([]reflect.StructField{{Name: "Pre", Type: guard}, {Name: "V", Type: t}, {Name: "Post", Type: guard}})
		p := reflect.New(outer)
		size := int(outer.Size())
		mem := unsafe.Slice((*byte)(p.UnsafePointer()), size)
		for i := range mem {
			mem[i] = 0xA5
		}
		before := append([]byte(nil), mem...)
		base := int(outer.Field(1).Offset)
		var js, dw, lw strings.Builder
		c07lDoc(r, t, &js, &dw)
		c07lWire(&lw, t)
		doc := js.String()
		stream := r.Intn(3) == 0
		o.current(map[string]string{"property": "C07", "what": "raw layout", "type": t.String(), "doc": clip(doc), "stream": fmt.Sprint(stream)})
		dst := p.Elem().Field(1).Addr().Interface()
		var err error
		perr := safeCall(func() error {
			if stream {
				err = gojson.NewDecoder(&pieceReader{b: []byte(doc), size: 1 + r.Intn(9), failAt: -1}).Decode(dst)
			} else {
				err = gojson.Unmarshal([]byte(doc), dst)
			}
			return nil
		})
		o.count("raw_layout_cases", 1)
		if perr != nil {
			o.violation("C07", "decoding into a pointer-free destination panicked", map[string]string{"type": t.String(), "doc": clip(doc), "panic": perr.Error()})
			continue
		}
		if err != nil {
			o.count("raw_layout_decode_errors", 1)
		}
		// changed ranges
		var ranges []string
		guardHit := -1
		for i := 0; i < size; {
			if mem[i] == before[i] {
				i++
				continue
			}
			j := i
			for j < size && mem[j] != before[j] {
				j++
			}
			ranges = append(ranges, fmt.Sprintf("%d:%d", i, j-i))
			if i < base || j > base+int(t.Size()) {
				guardHit = i
			}
			i = j
		}
		if guardHit >= 0 {
			o.violation("C07", "decoding wrote outside the destination (guard bytes changed)", map[string]string{"type": t.String(), "doc": clip(doc), "offset_in_allocation": fmt.Sprint(guardHit), "destination_at": fmt.Sprintf("%d..%d", base, base+int(t.Size()))})
		}
		rs := strings.Join(ranges, ",")
		o.hist("raw_layout_changed_ranges", fmt.Sprint(len(ranges)))
		o.emit("A", "c07.stores", [][]byte{[]byte(lw.String()), []byte(dw.String()), []byte(fmt.Sprint(base)), []byte(rs)}, []byte("in"), nil, false)
	}
}
