package main

// C07: decoding touches only the destination.  Destination types are generated
// with reflect.StructOf so that every target field sits between byte-array
// canaries (alignment 1, so directly adjacent); initial values are valid Go
// values with a recognisable pattern.  After every Unmarshal / Decoder.Decode:
//   - every canary byte and every guard element behind a slice's capacity is unchanged,
//   - fields the document does not address keep their snapshot,
//   - the input bytes are unchanged and the result does not alias them,
//   - every string/slice header is well formed and the whole graph can be
//     walked before and after a forced GC,
//   - (statistics) the result equals encoding/json's on an identical twin.
// The array decoder's write set is additionally compared with the model
// (op c07.array).  C07child runs the same cases in a binary built with
// -d=checkptr; a crash of that process is a violation.

import (
	"bytes"
	"context"
	stdjson "encoding/json"
	"fmt"
	"math/rand"
	"os"
	"os/exec"
	"reflect"
	"runtime"
	"runtime/debug"
	"sort"
	"strconv"
	"strings"
	"time"
	"unsafe"

	gojson "github.com/goccy/go-json"
)

func init() {
	props["C07"] = runC07
	props["C07child"] = runC07Child
}

type C07Emb struct {
	CA  [3]byte `json:"-"`
	E00 uint16
	CB  [5]byte `json:"-"`
	E01 string
	CC  [1]byte `json:"-"`
	E02 [2]uint8
	CD  [7]byte `json:"-"`
}

// C07Interior: an interface holds the address of X, a byte in the middle of the allocation
type C07Interior struct {
	CA [3]byte `json:"-"`
	X  int8
	CB [5]byte `json:"-"`
	Y  uint16
	CC [2]byte `json:"-"`
}

// what an interface at this place holds initially ( the place without its indices, so that the generator of the
// documents, which sees no indices, knows it too ): 0 a string, 1 a float64, 2 and 6 nothing, 3 a *C07Emb,
// 4 a *[]int16, 5 a *int8 pointing into the middle of a C07Interior
func c07IfaceKind(path string) int {
	h := uint32(2166136261)
	skip := false
	for i := 0; i < len(path); i++ {
		switch {
		case path[i] == '[':
			skip = true
		case path[i] == ']':
			skip = false
		case !skip:
			h = (h ^ uint32(path[i])) * 16777619
		}
	}
	return int(h>>7) % 7
}

var c07IfaceFit = map[int][]string{
	3: {`{"E00":7,"E02":[1]}`, `{"E01":"via the interface","E02":[1,2,3],"e00":65535}`, `{"E02":[9,8],"E01":"again\n"}`, `{"E00":1}`, `{}`, `{"E02":[]}`},
	4: {`[1,2,3,4,5]`, `[3]`, `[-1,2]`, `[]`, `[1,2,3,4,5,6,7,8,9,10,11,12,13]`},
	5: {`-7`, `100`, `0`, `127`, `-128`},
}

// embedding over several levels: C07EmbMid holds an embedded pointer ( allocated by the decoder when a member
// of it arrives ) and an embedded value that itself holds an embedded pointer
type C07EmbDeep struct {
	CA  [2]byte `json:"-"`
	D00 int8
	CB  [3]byte `json:"-"`
	D01 string
	CC  [1]byte `json:"-"`
}

type C07EmbLeaf struct {
	CA  [1]byte `json:"-"`
	L00 string
	CB  [2]byte `json:"-"`
	L01 [3]uint8
	CC  [3]byte `json:"-"`
}

type C07EmbVal struct {
	CA  [3]byte `json:"-"`
	V00 [2]uint8
	CB  [1]byte `json:"-"`
	*C07EmbLeaf
	CC [2]byte `json:"-"`
}

type C07EmbMid struct {
	CA [1]byte `json:"-"`
	*C07EmbDeep
	CB  [2]byte `json:"-"`
	M00 uint16
	CC  [5]byte `json:"-"`
	C07EmbVal
	CD [1]byte `json:"-"`
}

var c07Leaves = []reflect.Type{
	reflect.TypeOf(false), reflect.TypeOf(int8(0)), reflect.TypeOf(int16(0)), reflect.TypeOf(int32(0)),
	reflect.TypeOf(int64(0)), reflect.TypeOf(int(0)), reflect.TypeOf(uint8(0)), reflect.TypeOf(uint16(0)),
	reflect.TypeOf(uint32(0)), reflect.TypeOf(uint64(0)), reflect.TypeOf(uint(0)), reflect.TypeOf(float32(0)),
	reflect.TypeOf(float64(0)), reflect.TypeOf(""), reflect.TypeOf((*interface{})(nil)).Elem(),
	reflect.TypeOf(int16(0)), reflect.TypeOf(uint16(0)), reflect.TypeOf(""), reflect.TypeOf(int8(0)),
}

func c07ByteElem(k int) reflect.Type { return reflect.ArrayOf(k, reflect.TypeOf(uint8(0))) }

func c07Type(r *rand.Rand, depth int) reflect.Type {
	n := r.Intn(12)
	if depth <= 0 && n >= 4 && n != 9 {
		n = r.Intn(4)
	}
	switch n {
	case 4, 10:
		return reflect.ArrayOf(1+r.Intn(4), c07Type(r, depth-1))
	case 5, 11:
		return reflect.SliceOf(c07Type(r, depth-1))
	case 6:
		return reflect.PtrTo(c07Type(r, depth-1))
	case 7:
		return reflect.MapOf(reflect.TypeOf(""), c07Type(r, depth-1))
	case 8:
		return c07Struct(r, depth-1, 1+r.Intn(3))
	case 9:
		return c07ByteElem(1 + r.Intn(64))
	}
	return c07Leaves[r.Intn(len(c07Leaves))]
}

func c07Canary(i int, r *rand.Rand) reflect.StructField {
	return reflect.StructField{Name: fmt.Sprintf("C%02d", i), Type: c07ByteElem(1 + r.Intn(9)), Tag: `json:"-"`}
}

func c07Struct(r *rand.Rand, depth, nf int) reflect.Type {
	var fs []reflect.StructField
	fs = append(fs, c07Canary(0, r))
	emb := -1
	if r.Intn(6) == 0 {
		emb = r.Intn(nf)
	}
	for i := 0; i < nf; i++ {
		if i == emb {
			t := reflect.TypeOf(C07Emb{})
			if r.Intn(2) == 0 {
				t = reflect.TypeOf(C07EmbMid{})
			}
			name := t.Name()
			if r.Intn(2) == 0 {
				t = reflect.PtrTo(t)
			}
			fs = append(fs, reflect.StructField{Name: name, Type: t, Anonymous: true})
		} else {
			t := c07Type(r, depth)
			f := reflect.StructField{Name: fmt.Sprintf("F%02d", i), Type: t}
			if c07StringTagKind(t) && r.Intn(5) == 0 {
				f.Tag = reflect.StructTag(fmt.Sprintf(`json:"F%02d,string"`, i))
			}
			fs = append(fs, f)
		}
		fs = append(fs, c07Canary(i+1, r))
	}
	return reflect.StructOf(fs)
}

// c07StringTagKind: the kinds the ,string option applies to: strings, floats, integers, booleans, held directly or
// behind one pointer
func c07StringTagKind(t reflect.Type) bool {
	if t.Kind() == reflect.Ptr && t.Name() == "" {
		t = t.Elem()
	}
	switch t.Kind() {
	case reflect.Int8, reflect.Int16, reflect.Int32, reflect.Int64, reflect.Int, reflect.Uint8, reflect.Uint16,
		reflect.Uint32, reflect.Uint64, reflect.Uint, reflect.Bool, reflect.Float32, reflect.Float64, reflect.String:
		return t.PkgPath() == ""
	}
	return false
}

// c07QuoteLit writes a JSON text as the contents of a JSON string
func c07QuoteLit(s string) string {
	return `"` + strings.NewReplacer(`\`, `\\`, `"`, `\"`).Replace(s) + `"`
}

func c07IsCanary(f reflect.StructField) bool {
	return f.Tag.Get("json") == "-" && f.Type.Kind() == reflect.Array && f.Type.Elem().Kind() == reflect.Uint8
}

type c07Region struct {
	p    unsafe.Pointer
	n    int
	desc string
	// innermost enclosing array element: a short JSON array legitimately zeroes whole tail elements
	elem  unsafe.Pointer
	elemN int
}

type c07Guard struct {
	v    reflect.Value
	snap string
	desc string
}

type c07Track struct {
	canaries []c07Region
	guards   []c07Guard
	elem     unsafe.Pointer
	elemN    int
	pointees []c07Guard // what the pointers held by interfaces point to ( statistics: was it decoded into? )
}

// c07Init fills v (addressable) with the recognisable initial value. tr == nil: no tracking.
func c07Init(v reflect.Value, path string, tr *c07Track, r *rand.Rand) {
	switch v.Kind() {
	case reflect.Bool:
		v.SetBool(true)
	case reflect.Int8, reflect.Int16, reflect.Int32, reflect.Int64, reflect.Int:
		var x int64 = 0x5A5A5A5A5A5A5A5A
		switch v.Type().Size() {
		case 1:
			x = 0x5A
		case 2:
			x = 0x5A5A
		case 4:
			x = 0x5A5A5A5A
		}
		v.SetInt(x)
	case reflect.Uint8, reflect.Uint16, reflect.Uint32, reflect.Uint64, reflect.Uint:
		var x uint64 = 0x5A5A5A5A5A5A5A5A
		v.SetUint(x >> (64 - 8*uint(v.Type().Size())))
	case reflect.Float32, reflect.Float64:
		v.SetFloat(2.5)
	case reflect.String:
		v.SetString(strings.Clone("init-" + path))
	case reflect.Interface:
		// 3..5: the interface holds a pointer: decoding goes through it into storage that has canaries of its own
		// ( a struct, a slice with guards behind its capacity, a one-byte field in the middle of a struct )
		sub := func(n reflect.Value, into reflect.Value) {
			if tr != nil {
				pe, pn := tr.elem, tr.elemN
				tr.elem, tr.elemN = nil, 0
				c07Init(into, path+".(*)", tr, r)
				tr.elem, tr.elemN = pe, pn
				tr.pointees = append(tr.pointees, c07Guard{into, c07Snap(into), path + ".(*)"})
			} else {
				c07Init(into, path+".(*)", nil, r)
			}
			v.Set(n)
		}
		switch c07IfaceKind(path) {
		case 0:
			v.Set(reflect.ValueOf(strings.Clone("iface-init")))
		case 1:
			v.Set(reflect.ValueOf(float64(7)))
		case 3:
			n := reflect.New(reflect.TypeOf(C07Emb{}))
			sub(n, n.Elem())
		case 4:
			n := reflect.New(reflect.TypeOf([]int16{}))
			sub(n, n.Elem())
		case 5:
			n := reflect.New(reflect.TypeOf(C07Interior{}))
			sub(n.Elem().Field(1).Addr(), n.Elem())
		}
	case reflect.Array:
		for i := 0; i < v.Len(); i++ {
			if tr != nil {
				pe, pn := tr.elem, tr.elemN
				tr.elem, tr.elemN = v.Index(i).Addr().UnsafePointer(), int(v.Type().Elem().Size())
				c07Init(v.Index(i), path+"["+strconv.Itoa(i)+"]", tr, r)
				tr.elem, tr.elemN = pe, pn
			} else {
				c07Init(v.Index(i), path+"["+strconv.Itoa(i)+"]", tr, r)
			}
		}
	case reflect.Slice:
		switch r.Intn(5) {
		case 0: // nil
		case 1:
			v.Set(reflect.MakeSlice(v.Type(), 0, 0))
		case 2:
			// spare capacity: 3 elements in use, room for 9, guards behind the capacity
			back := reflect.MakeSlice(v.Type(), 12, 12)
			for i := 0; i < 12; i++ {
				c07Init(back.Index(i), path+"["+strconv.Itoa(i)+"]", nil, r)
			}
			if tr != nil {
				g := back.Slice(9, 12)
				tr.guards = append(tr.guards, c07Guard{g, c07Snap(g), path + "[9:12] behind cap"})
			}
			v.Set(back.Slice3(0, 3, 9))
		default:
			back := reflect.MakeSlice(v.Type(), 4, 4)
			for i := 0; i < 4; i++ {
				c07Init(back.Index(i), path+"["+strconv.Itoa(i)+"]", nil, r)
			}
			if tr != nil {
				g := back.Slice(2, 4)
				tr.guards = append(tr.guards, c07Guard{g, c07Snap(g), path + "[2:4] behind cap"})
			}
			v.Set(back.Slice3(0, 2, 2))
		}
	case reflect.Ptr:
		if r.Intn(10) < 7 {
			n := reflect.New(v.Type().Elem())
			if tr != nil {
				pe, pn := tr.elem, tr.elemN
				tr.elem, tr.elemN = nil, 0
				c07Init(n.Elem(), path+".*", tr, r)
				tr.elem, tr.elemN = pe, pn
			} else {
				c07Init(n.Elem(), path+".*", tr, r)
			}
			v.Set(n)
		}
	case reflect.Map:
		if r.Intn(10) < 7 {
			m := reflect.MakeMap(v.Type())
			e := reflect.New(v.Type().Elem()).Elem()
			c07Init(e, path+"[k0]", nil, r)
			m.SetMapIndex(reflect.ValueOf("k0"), e)
			v.Set(m)
		}
	case reflect.Struct:
		for i := 0; i < v.NumField(); i++ {
			f := v.Type().Field(i)
			fv := v.Field(i)
			if c07IsCanary(f) {
				for j := 0; j < fv.Len(); j++ {
					fv.Index(j).SetUint(0xA5)
				}
				if tr != nil {
					tr.canaries = append(tr.canaries, c07Region{fv.Addr().UnsafePointer(), fv.Len(), path + "." + f.Name, tr.elem, tr.elemN})
				}
			} else {
				c07Init(fv, path+"."+f.Name, tr, r)
			}
		}
	}
}

func c07Snap(v reflect.Value) string {
	var b strings.Builder
	c07SnapTo(v, &b)
	return b.String()
}

func c07SnapTo(v reflect.Value, b *strings.Builder) {
	switch v.Kind() {
	case reflect.Bool:
		fmt.Fprintf(b, "%v", v.Bool())
	case reflect.Int8, reflect.Int16, reflect.Int32, reflect.Int64, reflect.Int:
		fmt.Fprintf(b, "%d", v.Int())
	case reflect.Uint8, reflect.Uint16, reflect.Uint32, reflect.Uint64, reflect.Uint:
		fmt.Fprintf(b, "%d", v.Uint())
	case reflect.Float32, reflect.Float64:
		fmt.Fprintf(b, "%v", v.Float())
	case reflect.String:
		fmt.Fprintf(b, "%q", v.String())
	case reflect.Interface:
		if v.IsNil() {
			b.WriteString("inil")
		} else {
			fmt.Fprintf(b, "i<%s>", v.Elem().Type())
			c07SnapTo(v.Elem(), b)
		}
	case reflect.Array:
		b.WriteString("[")
		for i := 0; i < v.Len(); i++ {
			c07SnapTo(v.Index(i), b)
			b.WriteString(" ")
		}
		b.WriteString("]")
	case reflect.Slice:
		if v.IsNil() {
			b.WriteString("snil")
			return
		}
		fmt.Fprintf(b, "s%d[", v.Len())
		for i := 0; i < v.Len(); i++ {
			c07SnapTo(v.Index(i), b)
			b.WriteString(" ")
		}
		b.WriteString("]")
	case reflect.Ptr:
		if v.IsNil() {
			b.WriteString("pnil")
		} else {
			b.WriteString("&")
			c07SnapTo(v.Elem(), b)
		}
	case reflect.Map:
		if v.IsNil() {
			b.WriteString("mnil")
			return
		}
		keys := v.MapKeys()
		kt := func(k reflect.Value) string {
			if k.Kind() == reflect.String {
				return k.String()
			}
			return fmt.Sprint(k.Interface())
		}
		sort.Slice(keys, func(i, j int) bool { return kt(keys[i]) < kt(keys[j]) })
		b.WriteString("m{")
		for _, k := range keys {
			fmt.Fprintf(b, "%q:", kt(k))
			c07SnapTo(v.MapIndex(k), b)
			b.WriteString(" ")
		}
		b.WriteString("}")
	case reflect.Struct:
		b.WriteString("{")
		for i := 0; i < v.NumField(); i++ {
			b.WriteString(v.Type().Field(i).Name + ":")
			c07SnapTo(v.Field(i), b)
			b.WriteString(" ")
		}
		b.WriteString("}")
	}
}

// c07Walk checks headers and touches every byte reachable; returns a description of the first problem.
var c07Sink uint64

func c07Walk(v reflect.Value, path string, depth int) string {
	if depth > 200 {
		return ""
	}
	switch v.Kind() {
	case reflect.String:
		s := v.String()
		n := len(s)
		d := (*[2]unsafe.Pointer)(unsafe.Pointer(&s))[0]
		if n < 0 || n > 1<<28 {
			return fmt.Sprintf("%s: string header with length %d", path, n)
		}
		if n > 0 && d == nil {
			return fmt.Sprintf("%s: string header with nil base and length %d", path, n)
		}
		for i := 0; i < n; i++ {
			c07Sink += uint64(s[i])
		}
	case reflect.Slice:
		n, c := v.Len(), v.Cap()
		if n < 0 || c < n || c > 1<<28 {
			return fmt.Sprintf("%s: slice header len=%d cap=%d", path, n, c)
		}
		if c > 0 && v.Pointer() == 0 {
			return fmt.Sprintf("%s: slice header with nil base, len=%d cap=%d", path, n, c)
		}
		for i := 0; i < n; i++ {
			if e := c07Walk(v.Index(i), path+"["+strconv.Itoa(i)+"]", depth+1); e != "" {
				return e
			}
		}
	case reflect.Array:
		for i := 0; i < v.Len(); i++ {
			if e := c07Walk(v.Index(i), path+"["+strconv.Itoa(i)+"]", depth+1); e != "" {
				return e
			}
		}
	case reflect.Interface, reflect.Ptr:
		if !v.IsNil() {
			return c07Walk(v.Elem(), path+".*", depth+1)
		}
	case reflect.Map:
		if v.IsNil() {
			return ""
		}
		it := v.MapRange()
		for it.Next() {
			if e := c07Walk(it.Key(), path+"<key>", depth+1); e != "" {
				return e
			}
			if e := c07Walk(it.Value(), path+"["+it.Key().String()+"]", depth+1); e != "" {
				return e
			}
		}
	case reflect.Struct:
		for i := 0; i < v.NumField(); i++ {
			if e := c07Walk(v.Field(i), path+"."+v.Type().Field(i).Name, depth+1); e != "" {
				return e
			}
		}
	case reflect.Bool:
		if v.Bool() {
			c07Sink++
		}
	case reflect.Int8, reflect.Int16, reflect.Int32, reflect.Int64, reflect.Int:
		c07Sink += uint64(v.Int())
	case reflect.Uint8, reflect.Uint16, reflect.Uint32, reflect.Uint64, reflect.Uint:
		c07Sink += v.Uint()
	}
	return ""
}

func c07SafeWalk(v reflect.Value) (res string) {
	defer func() {
		if r := recover(); r != nil {
			res = fmt.Sprintf("traversal faulted: %v", r)
		}
	}()
	return c07Walk(v, "root", 0)
}

// leaves of the inline part: path -> value
func c07Leaves2(v reflect.Value, path string, f func(path string, v reflect.Value)) {
	if v.Kind() == reflect.Struct {
		for i := 0; i < v.NumField(); i++ {
			sf := v.Type().Field(i)
			if c07IsCanary(sf) {
				continue
			}
			c07Leaves2(v.Field(i), path+"."+sf.Name, f)
		}
		return
	}
	f(path, v)
}

// ---------- documents ----------

var c07Strings = []string{`"s"`, `""`, `"aé\n\"q\""`, `"😀 tail"`, `"plain text of some length, no escapes"`, `"\\\/\b\f\r\t"`, `"é€😀"`}

// c07LoneSurrogates: string values that end in ( or consist of ) half a surrogate pair.  At the end of the input the
// look-ahead for the second half reaches behind the buffer: under -d=checkptr the library at a9ff3ab dies there
// ( {"S":"\ud800"} ; repaired in /repo by 31cd243 ), so the checkptr child fails on that tree.  Behind AUDIT_OPEN=1
// until the harness runs against a tree with the repair; then the switch can go.
var c07LoneSurrogates = true // the look-ahead of unescapeString was repaired in /repo (31cd243)

func init() {
	if c07LoneSurrogates {
		c07Strings = append(c07Strings, `"\ud800"`, `"tail \udbff"`, `"\ud83d\u0041"`, `"\ud83d"`)
	}
}

func c07Scalar(r *rand.Rand, t reflect.Type, bad bool) string {
	if bad {
		return []string{`"str"`, `true`, `12`, `{}`, `[]`, `1e400`, `-`, `nul`, `99999999999999999999999`}[r.Intn(9)]
	}
	switch t.Kind() {
	case reflect.Bool:
		return []string{"true", "false"}[r.Intn(2)]
	case reflect.Int8, reflect.Int16, reflect.Int32, reflect.Int64, reflect.Int:
		bits := uint(t.Size()) * 8
		switch r.Intn(6) {
		case 0:
			return strconv.FormatInt(-1<<(bits-1), 10)
		case 1:
			return strconv.FormatInt(1<<(bits-1)-1, 10)
		case 2:
			return strconv.FormatUint(1<<(bits-1), 10) // out of range
		case 3:
			return "-1"
		}
		return strconv.Itoa(r.Intn(100))
	case reflect.Uint8, reflect.Uint16, reflect.Uint32, reflect.Uint64, reflect.Uint:
		bits := uint(t.Size()) * 8
		switch r.Intn(6) {
		case 0:
			return strconv.FormatUint(1<<bits-1, 10)
		case 1:
			if bits < 64 {
				return strconv.FormatUint(1<<bits, 10) // out of range
			}
			return "18446744073709551616"
		case 2:
			return "1"
		}
		return strconv.Itoa(r.Intn(100))
	case reflect.Float32, reflect.Float64:
		return []string{"1.5", "-0", "1e3", "0.25", "123456789"}[r.Intn(5)]
	case reflect.String:
		return c07Strings[r.Intn(len(c07Strings))]
	}
	return "null"
}

// what the generators of types and documents produced ( copied into the counters at the end of the run )
var c07GenStat = map[string]int64{}

// c07Value writes a JSON value for type t; addressed paths are recorded by the struct case.
func c07Value(r *rand.Rand, t reflect.Type, path string, addr map[string]bool, b *strings.Builder, badRate, depth int) {
	if r.Intn(100) < badRate {
		b.WriteString(c07Scalar(r, t, true))
		addr[path] = true
		return
	}
	if depth > 6 {
		b.WriteString("null")
		addr[path] = true
		return
	}
	switch t.Kind() {
	case reflect.Interface:
		addr[path] = true
		// the last five fit what c07Init may have put behind the interface: *C07Emb, *[]int16, *int8
		if fit := c07IfaceFit[c07IfaceKind(path)]; fit != nil && r.Intn(4) > 0 {
			// what c07Init has put behind this interface is a pointer: a document that can be decoded through it
			b.WriteString(fit[r.Intn(len(fit))])
			return
		}
		b.WriteString([]string{`null`, `1`, `"x\n"`, `[1,"a",{"k":null}]`, `{"a":[true],"b":{"c":1.5}}`, `true`,
			`{"E00":7,"E02":[1]}`, `-7`, `[1,2,3,4,5]`}[r.Intn(9)])
	case reflect.Array:
		addr[path] = true
		if r.Intn(12) == 0 {
			b.WriteString("null")
			return
		}
		n := t.Len()
		m := []int{0, 1, n - 1, n, n, n + 1, n + 3}[r.Intn(7)]
		if m < 0 {
			m = 0
		}
		b.WriteString("[")
		for i := 0; i < m; i++ {
			if i > 0 {
				b.WriteString(",")
			}
			c07Value(r, t.Elem(), path, addr, b, badRate/2, depth+1)
		}
		b.WriteString("]")
	case reflect.Slice:
		addr[path] = true
		if r.Intn(8) == 0 {
			b.WriteString("null")
			return
		}
		if t.Elem().Kind() == reflect.Uint8 {
			// a string in base64, or the bytes as an array of numbers ( the slice decoder with elements of size 1 )
			k := r.Intn(7)
			if k >= 3 {
				c07GenStat["doc_byte_slice_as_array_of_numbers"]++
			}
			b.WriteString([]string{`""`, `"AQID"`, `"QUJDREVGRw=="`, `[1,2,3]`, `[]`, `[255, 0, 7, 8, 9, 10, 11, 12, 13, 14, 15, 16, 17]`, `[ 1 ]`}[k])
			return
		}
		m := []int{0, 1, 2, 3, 5, 7, 9, 12}[r.Intn(8)]
		if depth > 2 && m > 5 {
			m = 5
		}
		// now and then many elements ( the working array is doubled again and again, the result leaves the small size
		// classes of the allocator ), for elements whose text is short
		if ek := t.Elem().Kind(); depth <= 1 && r.Intn(12) == 0 && ek != reflect.Slice && ek != reflect.Map && ek != reflect.Struct && ek != reflect.Ptr &&
			ek != reflect.Interface && (ek != reflect.Array || t.Elem().Size() <= 8) {
			m = []int{16, 17, 33, 70, 300, 1100}[r.Intn(6)]
			c07GenStat["doc_slice_of_many_elements"]++
		}
		b.WriteString("[")
		for i := 0; i < m; i++ {
			if i > 0 {
				b.WriteString(", ")
			}
			c07Value(r, t.Elem(), path, addr, b, badRate/2, depth+1)
		}
		b.WriteString("]")
	case reflect.Ptr:
		addr[path] = true
		if r.Intn(5) == 0 {
			b.WriteString("null")
			return
		}
		c07Value(r, t.Elem(), path+".*", addr, b, badRate, depth+1)
	case reflect.Map:
		addr[path] = true
		switch r.Intn(5) {
		case 0:
			b.WriteString("null")
		case 1:
			b.WriteString("{}")
		default:
			b.WriteString("{")
			ks := []string{"k0", "k1", "a\\u0062"}
			m := 1 + r.Intn(3)
			for i := 0; i < m; i++ {
				if i > 0 {
					b.WriteString(",")
				}
				b.WriteString(`"` + ks[i] + `":`)
				c07Value(r, t.Elem(), path, addr, b, badRate/2, depth+1)
			}
			b.WriteString("}")
		}
	case reflect.Struct:
		if r.Intn(15) == 0 {
			b.WriteString("null")
			addr[path] = true
			return
		}
		b.WriteString("{")
		first := true
		emit := func(name string, ft reflect.Type, fpath string, quoted bool) {
			if !first {
				b.WriteString(",")
			}
			first = false
			b.WriteString(`"` + name + `":`)
			if r.Intn(3) == 0 {
				b.WriteString(" ")
			}
			if quoted {
				addr[fpath] = true
				if r.Intn(5) == 0 {
					b.WriteString("null") // leaves the field as it is: nothing is stored, whatever the width of the field
					return
				}
				st := ft
				if st.Kind() == reflect.Ptr {
					st = st.Elem()
				}
				c07GenStat["doc_string_option_on_"+ft.Kind().String()]++
				b.WriteString(c07QuoteLit(c07Scalar(r, st, r.Intn(100) < badRate)))
				return
			}
			c07Value(r, ft, fpath, addr, b, badRate, depth+1)
		}
		for i := 0; i < t.NumField(); i++ {
			f := t.Field(i)
			if c07IsCanary(f) {
				continue
			}
			if f.Anonymous {
				// the members promoted from embedded structs, over every level; behind an embedded pointer the
				// pointer itself is what the document addresses ( the decoder may allocate it )
				var promoted func(ft reflect.Type, fpath, ptrPath string)
				promoted = func(ft reflect.Type, fpath, ptrPath string) {
					if ft.Kind() == reflect.Ptr {
						ft = ft.Elem()
						if ptrPath == "" {
							ptrPath = fpath
						}
					}
					for j := 0; j < ft.NumField(); j++ {
						ef := ft.Field(j)
						if c07IsCanary(ef) {
							continue
						}
						if ef.Anonymous {
							promoted(ef.Type, fpath+"."+ef.Name, ptrPath)
							continue
						}
						if r.Intn(2) == 0 {
							continue
						}
						if n := strings.Count(fpath[len(path):], "."); n >= 2 {
							c07GenStat["doc_member_promoted_through_"+strconv.Itoa(n)+"_levels"]++
						}
						if ptrPath != "" {
							addr[ptrPath] = true
							emit(ef.Name, ef.Type, ptrPath, false)
						} else {
							emit(ef.Name, ef.Type, fpath+"."+ef.Name, false)
						}
					}
				}
				promoted(f.Type, path+"."+f.Name, "")
				continue
			}
			if r.Intn(5) < 2 {
				continue
			}
			quoted := strings.Contains(f.Tag.Get("json"), ",string")
			emit(f.Name, f.Type, path+"."+f.Name, quoted)
			if r.Intn(25) == 0 { // duplicate key, last wins
				emit(f.Name, f.Type, path+"."+f.Name, quoted)
			}
		}
		if r.Intn(6) == 0 {
			if !first {
				b.WriteString(",")
			}
			b.WriteString(`"unknownKey":{"x":[1,2,{"y":"z\n"}]}`)
		}
		b.WriteString("}")
	default:
		addr[path] = true
		b.WriteString(c07Scalar(r, t, false))
	}
}

type c07Case struct {
	typ     reflect.Type
	seed    int64
	field   int // -1: destination is the whole object; >=0: destination is that field of the root
	doc     []byte
	addr    map[string]bool
	mode    int // 0 buffer, k>0 stream with pieces of k bytes
	checkUn bool
	entry   int // which entry point / option set decodes (c07EntryName); 0 = Unmarshal resp. Decoder.Decode
	failAt  int // stream mode: the reader fails with an error once this many bytes are delivered (<0: never)
}

func c07Describe(c *c07Case) map[string]string {
	return map[string]string{"type": c.typ.String(), "init_seed": strconv.FormatInt(c.seed, 10), "dest_field": strconv.Itoa(c.field),
		"doc": string(c.doc), "doc_hex": hx(c.doc), "mode": strconv.Itoa(c.mode), "entry": c07EntryName(c), "reader_fails_at": strconv.Itoa(c.failAt)}
}

// entry points and option sets.  Buffer mode: 0 Unmarshal, 1 UnmarshalNoEscape, 2 UnmarshalContext,
// 3 UnmarshalWithOption(DecodeFieldPriorityFirstWin).  Stream mode: 0 Decode, 1 DecodeContext,
// 2 DecodeWithOption(DecodeFieldPriorityFirstWin), 3 DisallowUnknownFields + Decode, 4 UseNumber + Decode.
// None of them changes what the property demands: canaries, guards, well-formed headers, no aliasing, and the
// fields a document does not name keep their contents (first-win stores into fewer fields, never into others).
var c07BufEntries = []string{"Unmarshal", "UnmarshalNoEscape", "UnmarshalContext", "UnmarshalWithOption(FirstWin)"}
var c07StreamEntries = []string{"Decode", "DecodeContext", "DecodeWithOption(FirstWin)", "DisallowUnknownFields+Decode", "UseNumber+Decode"}

func c07EntryName(c *c07Case) string {
	if c.mode == 0 {
		return c07BufEntries[c.entry%len(c07BufEntries)]
	}
	return c07StreamEntries[c.entry%len(c07StreamEntries)]
}

type c07CtxKey struct{}

// a reader that fills every Read completely: the stream buffer then grows by doubling ( 512, 1024, ... ) instead
// of by the trickle of a small piece size, and the "buffer filled" branch of Stream.read is taken
const c07FullReads = 1 << 20

// c07PickEntry draws the entry point of a case: the plain one half of the time
func c07PickEntry(r *rand.Rand, c *c07Case) {
	c.entry, c.failAt = 0, -1
	if r.Intn(2) == 0 {
		if c.mode == 0 {
			c.entry = r.Intn(len(c07BufEntries))
		} else {
			c.entry = r.Intn(len(c07StreamEntries))
		}
	}
	if c.mode > 0 && len(c.doc) > 1 && r.Intn(12) == 0 {
		c.failAt = r.Intn(len(c.doc))
	}
}

func c07Decode(c *c07Case, dst interface{}, in []byte, std bool) error {
	failAt := -1
	if c.failAt >= 0 && c.failAt < len(in) {
		failAt = c.failAt
	}
	if std {
		if c.mode == 0 {
			return stdjson.Unmarshal(in, dst)
		}
		d := stdjson.NewDecoder(&pieceReader{b: in, size: c.mode, failAt: failAt})
		switch c07EntryName(c) {
		case "DisallowUnknownFields+Decode":
			d.DisallowUnknownFields()
		case "UseNumber+Decode":
			d.UseNumber()
		}
		return d.Decode(dst)
	}
	ctx := context.WithValue(context.Background(), c07CtxKey{}, "c07")
	if c.mode == 0 {
		switch c07EntryName(c) {
		case "UnmarshalNoEscape":
			return gojson.UnmarshalNoEscape(in, dst)
		case "UnmarshalContext":
			return gojson.UnmarshalContext(ctx, in, dst)
		case "UnmarshalWithOption(FirstWin)":
			return gojson.UnmarshalWithOption(in, dst, gojson.DecodeFieldPriorityFirstWin())
		}
		return gojson.Unmarshal(in, dst)
	}
	d := gojson.NewDecoder(&pieceReader{b: in, size: c.mode, failAt: failAt})
	switch c07EntryName(c) {
	case "DecodeContext":
		return d.DecodeContext(ctx, dst)
	case "DecodeWithOption(FirstWin)":
		return d.DecodeWithOption(dst, gojson.DecodeFieldPriorityFirstWin())
	case "DisallowUnknownFields+Decode":
		d.DisallowUnknownFields()
	case "UseNumber+Decode":
		d.UseNumber()
	}
	return d.Decode(dst)
}

// c07RunCase runs one case; returns "" or the description of a violation.
func c07RunCase(o *Out, c *c07Case, gc bool) string {
	root := reflect.New(c.typ)
	tr := &c07Track{}
	c07Init(root.Elem(), "root", tr, rand.New(rand.NewSource(c.seed)))
	leaves := map[string]string{}
	c07Leaves2(root.Elem(), "root", func(p string, v reflect.Value) { leaves[p] = c07Snap(v) })
	dst := root.Interface()
	if c.field >= 0 {
		dst = root.Elem().Field(c.field).Addr().Interface()
	}
	in := append([]byte(nil), c.doc...)
	err := c07Decode(c, dst, in, false)
	if !bytes.Equal(in, c.doc) {
		return "input bytes modified by decoding"
	}
	for ci, cn := range tr.canaries {
		bs := unsafe.Slice((*byte)(cn.p), cn.n)
		for i, x := range bs {
			if x != 0xA5 {
				if cn.elem != nil && c07AllZero(unsafe.Slice((*byte)(cn.elem), cn.elemN)) {
					o.count("canary_in_zeroed_array_element", 1)
					break
				}
				// an element zeroed by a short JSON array and filled again by a later duplicate of the
				// key: the canary is zero as a whole, and encoding/json leaves it zero too
				if cn.elem != nil && c07AllZero(bs) && c07TwinCanaryZero(c, ci) {
					o.count("canary_in_rezeroed_array_element", 1)
					break
				}
				// the same in a text that is not JSON further on: encoding/json refuses such a text before it stores
				// anything, so its twin cannot tell; the zeroed element is the destination's own (found at seed 1001)
				if cn.elem != nil && c07AllZero(bs) && !stdjson.Valid(c.doc) {
					o.count("canary_in_rezeroed_array_element_of_invalid_text", 1)
					break
				}
				return fmt.Sprintf("canary %s byte %d of %d changed to %#x", cn.desc, i, cn.n, x)
			}
		}
	}
	for _, g := range tr.guards {
		if s := c07Snap(g.v); s != g.snap {
			return fmt.Sprintf("guard %s changed: %s -> %s", g.desc, clip(g.snap), clip(s))
		}
	}
	o.count("interface_holds_pointer", int64(len(tr.pointees)))
	for _, g := range tr.pointees {
		if c07Snap(g.v) != g.snap {
			o.count("interface_pointee_decoded_into", 1)
		}
	}
	if w := c07SafeWalk(root.Elem()); w != "" {
		return "malformed destination: " + w
	}
	if c.checkUn {
		bad := ""
		c07Leaves2(root.Elem(), "root", func(p string, v reflect.Value) {
			if bad != "" {
				return
			}
			for q := range c.addr {
				if p == q || strings.HasPrefix(p, q+".") || strings.HasPrefix(q, p+".") {
					return
				}
			}
			if s := c07Snap(v); s != leaves[p] {
				bad = fmt.Sprintf("unaddressed field %s changed: %s -> %s", p, clip(leaves[p]), clip(s))
			}
		})
		if bad != "" {
			return bad
		}
	}
	before := c07Snap(root.Elem())
	for i := range in {
		in[i] = 'X'
	}
	if gc {
		runtime.GC()
		o.count("forced_gc", 1)
	}
	if w := c07SafeWalk(root.Elem()); w != "" {
		return "malformed destination after GC: " + w
	}
	if after := c07Snap(root.Elem()); after != before {
		return "destination changed after the input buffer was overwritten / GC ran (aliases caller memory)"
	}
	// twin with encoding/json, statistics only
	if err == nil && strings.Contains(c07EntryName(c), "FirstWin") {
		o.count("decode_ok", 1)
		o.count("twin_skipped_first_win", 1) // encoding/json has no such option
	} else if err == nil {
		o.count("decode_ok", 1)
		twin := reflect.New(c.typ)
		c07Init(twin.Elem(), "root", nil, rand.New(rand.NewSource(c.seed)))
		tdst := twin.Interface()
		if c.field >= 0 {
			tdst = twin.Elem().Field(c.field).Addr().Interface()
		}
		if serr := c07Decode(c, tdst, append([]byte(nil), c.doc...), true); serr == nil {
			if c07Snap(twin.Elem()) == before {
				o.count("twin_equal", 1)
			} else {
				o.count("twin_differs", 1)
				if o.Stats["twin_differs"] <= 5 {
					tw := c07Snap(twin.Elem())
					k := 0
					for k < len(tw) && k < len(before) && tw[k] == before[k] {
						k++
					}
					a := k - 40
					if a < 0 {
						a = 0
					}
					o.Notes = append(o.Notes, fmt.Sprintf("twin differs (statistics only): doc=%s mode=%d go-json=...%s std=...%s", clip(string(c.doc)), c.mode, clip(before[a:]), clip(tw[a:])))
				}
			}
		} else {
			o.count("twin_std_rejects", 1)
		}
	} else {
		o.count("decode_err", 1)
	}
	return ""
}

// c07TwinCanaryZero decodes the case with encoding/json into an identically initialised
// twin and reports whether canary number ci is all zero there as well.
func c07TwinCanaryZero(c *c07Case, ci int) (zero bool) {
	defer func() {
		if recover() != nil {
			zero = false
		}
	}()
	twin := reflect.New(c.typ)
	tt := &c07Track{}
	c07Init(twin.Elem(), "root", tt, rand.New(rand.NewSource(c.seed)))
	tdst := twin.Interface()
	if c.field >= 0 {
		tdst = twin.Elem().Field(c.field).Addr().Interface()
	}
	c07Decode(c, tdst, append([]byte(nil), c.doc...), true)
	if ci >= len(tt.canaries) {
		return false
	}
	cn := tt.canaries[ci]
	return c07AllZero(unsafe.Slice((*byte)(cn.p), cn.n))
}

func c07AllZero(b []byte) bool {
	for _, x := range b {
		if x != 0 {
			return false
		}
	}
	return true
}

func clip(s string) string {
	if len(s) > 160 {
		return s[:160] + "..."
	}
	return s
}

// ---------- array write-set cases (model correspondence) ----------

func c07ArrayCases(o *Out) {
	scal := map[int]reflect.Type{2: reflect.TypeOf(uint16(0)), 4: reflect.TypeOf(uint32(0)), 8: reflect.TypeOf(uint64(0))}
	for sz := 1; sz <= 64; sz++ {
		for _, n := range []int{1, 2, 3, 5} {
			for _, m := range []int{0, 1, n - 1, n, n + 2} {
				if m < 0 {
					continue
				}
				for variant := 0; variant < 2; variant++ {
					var et reflect.Type
					var ev string
					if variant == 0 {
						et = c07ByteElem(sz)
						ev = "[" + strings.TrimSuffix(strings.Repeat("1,", sz), ",") + "]"
					} else {
						t, ok := scal[sz]
						if !ok {
							continue
						}
						et = t
						ev = map[int]string{2: "257", 4: "16843009", 8: "72340172838076673"}[sz]
					}
					pre := 7
					if variant == 1 {
						pre = 8
					}
					st := reflect.StructOf([]reflect.StructField{
						{Name: "C00", Type: c07ByteElem(pre), Tag: `json:"-"`},
						{Name: "F00", Type: reflect.ArrayOf(n, et)},
						{Name: "C01", Type: c07ByteElem(24), Tag: `json:"-"`},
					})
					root := reflect.New(st)
					size := int(st.Size())
					mem := unsafe.Slice((*byte)(root.UnsafePointer()), size)
					for i := range mem {
						mem[i] = 0x5A
					}
					beforeB := append([]byte(nil), mem...)
					doc := `{"F00":[` + strings.TrimSuffix(strings.Repeat(ev+",", m), ",") + `]}`
					for mode := 0; mode < 2; mode++ {
						copy(mem, beforeB)
						var err error
						if mode == 0 {
							err = gojson.Unmarshal([]byte(doc), root.Interface())
						} else {
							err = gojson.NewDecoder(&pieceReader{b: []byte(doc), size: 5, failAt: -1}).Decode(root.Interface())
						}
						lo, hi := -1, -1
						for i := range mem {
							if mem[i] != beforeB[i] {
								if lo < 0 {
									lo = i
								}
								hi = i + 1
							}
						}
						res := "none"
						if lo >= 0 {
							res = fmt.Sprintf("%d %d", lo, hi)
						}
						if err != nil {
							res = "error " + res
						}
						base := int(st.Field(1).Offset)
						o.emit("A", "c07.array", [][]byte{[]byte(strconv.Itoa(base)), []byte(strconv.Itoa(sz)), []byte(strconv.Itoa(n)),
							[]byte(strconv.Itoa(m)), []byte(fmt.Sprintf("v%dm%d", variant, mode))}, []byte(res), nil, false)
						o.hist("array_elem_size", strconv.Itoa(sz))
						o.count("array_write_set_cases", 1)
					}
				}
			}
		}
	}
}

// ---------- case generation ----------

func c07Generate(o *Out, f func(c *c07Case)) {
	r := o.rng
	ntypes := 260
	if o.tier == "thorough" {
		ntypes = 2500
	}
	// element-size sweep: arrays and slices of k-byte elements between canaries
	var types []reflect.Type
	for k := 1; k <= 64; k++ {
		e1 := c07ByteElem(k)
		var e2 reflect.Type = e1
		if k >= 2 {
			e2 = reflect.StructOf([]reflect.StructField{{Name: "A", Type: reflect.TypeOf(uint8(0))}, {Name: "B", Type: c07ByteElem(k - 1)}})
		}
		for _, e := range []reflect.Type{e1, e2} {
			types = append(types, reflect.StructOf([]reflect.StructField{
				c07Canary(0, r), {Name: "F00", Type: reflect.ArrayOf(3, e)}, c07Canary(1, r),
				{Name: "F01", Type: reflect.SliceOf(e)}, c07Canary(2, r), {Name: "F02", Type: reflect.ArrayOf(1, e)}, c07Canary(3, r)}))
		}
	}
	// elements and fields of size zero: every address computed from them is the address of the neighbour
	{
		z := reflect.TypeOf(struct{}{})
		for i := 0; i < 3; i++ {
			types = append(types, reflect.StructOf([]reflect.StructField{
				c07Canary(0, r), {Name: "F00", Type: reflect.ArrayOf(0, reflect.TypeOf(uint16(0)))}, c07Canary(1, r),
				{Name: "F01", Type: reflect.ArrayOf(3, z)}, c07Canary(2, r), {Name: "F02", Type: reflect.SliceOf(z)}, c07Canary(3, r),
				{Name: "F03", Type: reflect.SliceOf(reflect.ArrayOf(0, reflect.TypeOf(int32(0))))}, c07Canary(4, r), {Name: "F04", Type: z}, c07Canary(5, r),
				{Name: "F05", Type: reflect.ArrayOf(2, reflect.ArrayOf(0, reflect.TypeOf("")))}, c07Canary(6, r),
				{Name: "F06", Type: reflect.MapOf(reflect.TypeOf(""), z)}, c07Canary(7, r), {Name: "F07", Type: reflect.PtrTo(z)}}))
		}
	}
	// byte slices ( base64 strings or arrays of numbers ) and the ,string option on every kind it applies to
	for i := 0; i < 4; i++ {
		bs := reflect.TypeOf([]uint8{})
		q := func(j int, t reflect.Type) reflect.StructField {
			return reflect.StructField{Name: fmt.Sprintf("F%02d", j), Type: t, Tag: reflect.StructTag(fmt.Sprintf(`json:"F%02d,string"`, j))}
		}
		types = append(types, reflect.StructOf([]reflect.StructField{
			c07Canary(0, r), {Name: "F00", Type: bs}, c07Canary(1, r), {Name: "F01", Type: reflect.SliceOf(bs)}, c07Canary(2, r),
			{Name: "F02", Type: reflect.ArrayOf(2, bs)}, c07Canary(3, r), q(3, reflect.TypeOf("")), c07Canary(4, r),
			q(4, reflect.TypeOf((*string)(nil))), c07Canary(5, r), q(5, reflect.TypeOf(float64(0))), c07Canary(6, r),
			q(6, reflect.TypeOf((*int8)(nil))), c07Canary(7, r), q(7, reflect.TypeOf(float32(0))), c07Canary(8, r), q(8, reflect.TypeOf(uint64(0))), c07Canary(9, r)}))
	}
	for _, l := range c07Leaves {
		for _, mk := range []func(reflect.Type) reflect.Type{
			func(t reflect.Type) reflect.Type { return t },
			func(t reflect.Type) reflect.Type { return reflect.ArrayOf(3, t) },
			func(t reflect.Type) reflect.Type { return reflect.SliceOf(t) },
			func(t reflect.Type) reflect.Type { return reflect.PtrTo(t) },
			func(t reflect.Type) reflect.Type { return reflect.MapOf(reflect.TypeOf(""), t) },
		} {
			types = append(types, reflect.StructOf([]reflect.StructField{
				c07Canary(0, r), {Name: "F00", Type: mk(l)}, c07Canary(1, r), {Name: "F01", Type: mk(l)}, c07Canary(2, r)}))
		}
	}
	// interfaces ( c07Init puts pointers to storage with canaries into half of them ) directly, in arrays, slices and maps
	// ( the field names differ from type to type: what an interface holds initially depends on its place, c07IfaceKind )
	for i := 0; i < 14; i++ {
		it := c07Leaves[14]
		nm := func(j int) string { return fmt.Sprintf("I%02d", 5*i+j) }
		types = append(types, reflect.StructOf([]reflect.StructField{
			c07Canary(0, r), {Name: nm(0), Type: it}, c07Canary(1, r), {Name: nm(1), Type: it}, c07Canary(2, r),
			{Name: nm(2), Type: reflect.ArrayOf(2, it)}, c07Canary(3, r), {Name: nm(3), Type: reflect.SliceOf(it)}, c07Canary(4, r),
			{Name: nm(4), Type: reflect.PtrTo(it)}, c07Canary(5, r)}))
	}
	for i := 0; i < ntypes; i++ {
		types = append(types, c07Struct(r, 3, 1+r.Intn(5)))
	}
	o.count("destination_types", int64(len(types)))
	docsPer := 6
	if o.tier == "thorough" {
		docsPer = 14
	}
	for _, t := range types {
		for d := 0; d < docsPer; d++ {
			c := &c07Case{typ: t, seed: r.Int63(), field: -1, addr: map[string]bool{}, checkUn: true}
			var b strings.Builder
			badRate := []int{0, 0, 4, 12}[r.Intn(4)]
			if r.Intn(5) == 0 {
				// destination is one field of the root
				var idx []int
				for i := 0; i < t.NumField(); i++ {
					if !c07IsCanary(t.Field(i)) {
						idx = append(idx, i)
					}
				}
				c.field = idx[r.Intn(len(idx))]
				ft := t.Field(c.field)
				c.addr["root."+ft.Name] = true
				c07Value(r, ft.Type, "root."+ft.Name, c.addr, &b, badRate, 0)
			} else {
				c07Value(r, t, "root", c.addr, &b, badRate, 0)
			}
			c.doc = []byte(b.String())
			c.mode = []int{0, 0, 1, 3, 64, c07FullReads}[r.Intn(6)]
			c07PickEntry(r, c)
			f(c)
			// truncation keeps the addressed set an upper bound
			if len(c.doc) > 2 && r.Intn(2) == 0 {
				c2 := *c
				c2.doc = c.doc[:1+r.Intn(len(c.doc)-1)]
				c2.mode = []int{0, 1, 7, c07FullReads}[r.Intn(4)]
				c07PickEntry(r, &c2)
				f(&c2)
			}
			// byte mutation: only canaries, headers, aliasing
			if len(c.doc) > 2 && r.Intn(3) == 0 {
				c3 := *c
				c3.doc = append([]byte(nil), c.doc...)
				c3.doc[r.Intn(len(c3.doc))] = []byte(`"\{}[],:0a u`)[r.Intn(12)]
				c3.checkUn = false
				c3.mode = []int{0, 2, c07FullReads}[r.Intn(3)]
				c07PickEntry(r, &c3)
				f(&c3)
			}
		}
	}
}

func runC07(o *Out) {
	debug.SetPanicOnFault(true)
	timed := func(name string, f func()) {
		t0 := time.Now()
		f()
		if os.Getenv("AUDIT_TIMING") == "1" { // not by default: the counters of a run are a function of the seed
			o.count("ms_"+name, time.Since(t0).Milliseconds())
		}
	}
	timed("array_cases", func() { c07ArrayCases(o) })
	timed("slice_pool", func() { slicePoolProbe(o, "C07") })
	timed("raw_layout", func() { c07LayoutCases(o) })
	timed("key_matcher", func() { c07KeyMatcherCases(o, false) })
	timed("maps", func() { c07MapCases(o, false) })
	timed("sequences", func() { c07SequenceCases(o, false) })
	timed("stack", func() { c07StackCases(o, false) })
	timed("hooks", func() { c07HookCases(o, false) })
	n := 0
	c07Generate(o, func(c *c07Case) {
		n++
		gc := o.tier == "thorough" || n%4 == 0
		o.count("documents", 1)
		o.hist("mode", strconv.Itoa(c.mode))
		o.hist("entry", c07EntryName(c))
		if c.failAt >= 0 {
			o.count("reader_failure_injected", 1)
		}
		if c.field >= 0 {
			o.count("dest_is_inner_field", 1)
		}
		var res string
		if n%8 == 0 || o.tier == "thorough" {
			o.current(c07Describe(c))
		}
		func() {
			defer func() {
				if r := recover(); r != nil {
					res = fmt.Sprintf("decoder panicked: %v", r)
				}
			}()
			res = c07RunCase(o, c, gc)
		}()
		if res != "" {
			d := c07Describe(c)
			d["detail"] = res
			o.violation("C07", res, d)
		}
	})
	for k, v := range c07GenStat {
		o.count(k, v)
	}
	// the same cases in a child built with pointer-arithmetic checking
	if bin := os.Getenv("VERIF_CHECKPTR_BIN"); bin != "" {
		cmd := exec.Command(bin, "C07child", o.tier, strconv.FormatInt(o.seed, 10), o.dir+"/child")
		var eb bytes.Buffer
		cmd.Stderr = &eb
		cmd.Stdout = &eb
		err := cmd.Run()
		o.count("checkptr_child_runs", 1)
		if err == nil {
			// what the child counted ( child:... ): the strata above were decoded under checkptr too
			mergeChild(o, o.dir+"/child")
		}
		if err != nil {
			tail := eb.String()
			if len(tail) > 1500 {
				tail = tail[:1500]
			}
			det := map[string]string{"detail": err.Error(), "stderr": tail}
			if cur, rerr := os.ReadFile(o.dir + "/child/current.json"); rerr == nil {
				det["case_the_child_was_running"] = clip(string(cur)) // the child names every case before it decodes
			}
			o.violation("C07", "checkptr child process failed", det)
		}
	} else {
		o.Notes = append(o.Notes, "VERIF_CHECKPTR_BIN not set: checkptr child not run")
	}
}

// child: decode only (the parent has done the comparisons); checkptr aborts the process on a bad conversion
func runC07Child(o *Out) {
	n := 0
	c07Generate(o, func(c *c07Case) {
		n++
		o.current(c07Describe(c))
		root := reflect.New(c.typ)
		c07Init(root.Elem(), "root", nil, rand.New(rand.NewSource(c.seed)))
		dst := root.Interface()
		if c.field >= 0 {
			dst = root.Elem().Field(c.field).Addr().Interface()
		}
		func() {
			defer func() { recover() }()
			c07Decode(c, dst, append([]byte(nil), c.doc...), false)
		}()
		if n%16 == 0 {
			runtime.GC()
		}
		c07Walk(root.Elem(), "root", 0)
	})
	o.count("child_documents", int64(n))
	c07KeyMatcherCases(o, true)
	c07MapCases(o, true)
	c07SequenceCases(o, true)
	c07StackCases(o, true)
	c07HookCases(o, true)
}

// ---------- sequences of values read by one Decoder ----------
//
// In stream mode the strings of a result point into the Decoder's buffer, which the following calls go on
// filling, sliding and replacing.  One Decoder reads several values into several destinations ( or into one,
// again and again ); string literals are as long as the buffer and longer and carry escapes, so that they lie
// across the places where the buffer is refilled or doubled; the reader delivers pieces of 1 .. 513 bytes or fills
// every Read completely.  Demanded: what a call stored is still there, byte for byte, after every later call and
// after a garbage collection; canaries stay; accepted streams of valid values give what encoding/json's Decoder
// gives.  A value that is not JSON in the middle ends the comparison, not the demands on memory: the Decoder is
// called again after the error.

type C07Seq struct {
	CA  [3]byte `json:"-"`
	S   string
	CB  [5]byte `json:"-"`
	L   []string
	CC  [1]byte `json:"-"`
	M   map[string]string
	CD  [2]byte `json:"-"`
	I   interface{}
	N   int32
	CE  [7]byte `json:"-"`
	R   stdjson.RawMessage
	CF  [3]byte `json:"-"`
	B   []byte
	CG  [1]byte `json:"-"`
	Num stdjson.Number
	CH  [4]byte `json:"-"`
	P   *string
	CI  [6]byte `json:"-"`
}

func c07SeqLit(r *rand.Rand, n int) string {
	var b strings.Builder
	b.WriteByte('"')
	for b.Len() < n+1 {
		switch r.Intn(12) {
		case 0:
			b.WriteString(`\n`)
		case 1:
			b.WriteString(`\"`)
		case 2:
			b.WriteString(`\\`)
		case 3:
			b.WriteString(`\u00e9`)
		case 4:
			b.WriteString(`\ud83d\ude00`)
		case 5:
			b.WriteString("é")
		case 6:
			b.WriteString("😀")
		case 7:
			b.WriteString(`\/A`)
		default:
			k := 1 + r.Intn(40)
			if k > n+1-b.Len() {
				k = n + 1 - b.Len()
			}
			for i := 0; i < k; i++ {
				b.WriteByte("abcdefghijklmnopqrstuvwxyz0123456789 _-"[r.Intn(39)])
			}
		}
	}
	b.WriteByte('"')
	return b.String()
}

func c07SeqLen(r *rand.Rand) int {
	return []int{0, 1, 5, 40, 40, 200, 440 + r.Intn(90), 505 + r.Intn(16), 1000 + r.Intn(40), 3000 + r.Intn(200)}[r.Intn(10)]
}

func c07SeqWS(r *rand.Rand) string {
	if r.Intn(20) == 0 {
		return strings.Repeat(" ", 400+r.Intn(300))
	}
	return genWS(r)
}

// one value for a destination of kind k: 0 C07Seq, 1 []string, 2 string, 3 interface{}
func c07SeqValue(r *rand.Rand, k int) string {
	lit := func() string { return c07SeqLit(r, c07SeqLen(r)) }
	short := func() string { return c07SeqLit(r, r.Intn(30)) }
	list := func() string {
		n := r.Intn(5)
		var es []string
		for i := 0; i < n; i++ {
			es = append(es, c07SeqWS(r)+lit())
		}
		return "[" + strings.Join(es, ",") + c07SeqWS(r) + "]"
	}
	switch k {
	case 1:
		return list()
	case 2:
		return lit()
	case 3:
		return []string{lit(), list(), `{"k":` + lit() + `,"l":` + list() + `}`, "12.5", "null", "true"}[r.Intn(6)]
	}
	ms := []string{
		`"S":` + c07SeqWS(r) + lit(),
		`"L":` + list(),
		`"M":{` + short() + `:` + lit() + `,"k":` + short() + `}`,
		`"I":` + c07SeqValue(r, 3),
		`"N":` + strconv.Itoa(r.Intn(100000)),
		`"R":` + c07SeqWS(r) + []string{`{"raw": [1, 2 , ` + lit() + `] }`, list(), lit(), `-1.5e3`}[r.Intn(4)],
		`"B":"` + []string{"", "AQID", "QUJDREVGRw==", strings.Repeat("QUJD", 100+r.Intn(200))}[r.Intn(4)] + `"`,
		`"Num":` + []string{"0", "-12.50", "1e3", "123456789012345678901234567890"}[r.Intn(4)],
		`"P":` + []string{lit(), "null"}[r.Intn(2)],
		`"unknown` + strconv.Itoa(r.Intn(3)) + `":` + []string{lit(), list(), `{"a":{"b":` + lit() + `}}`}[r.Intn(3)],
		`"s":` + short(), // the field S in another case
	}
	r.Shuffle(len(ms), func(i, j int) { ms[i], ms[j] = ms[j], ms[i] })
	ms = ms[:r.Intn(len(ms)+1)]
	return "{" + c07SeqWS(r) + strings.Join(ms, c07SeqWS(r)+","+c07SeqWS(r)) + c07SeqWS(r) + "}"
}

func c07SeqNew(k int) reflect.Value {
	switch k {
	case 1:
		return reflect.New(reflect.TypeOf([]string{}))
	case 2:
		return reflect.New(reflect.TypeOf(""))
	case 3:
		return reflect.New(c07Leaves[14])
	}
	v := reflect.New(reflect.TypeOf(C07Seq{}))
	for i := 0; i < v.Elem().NumField(); i++ {
		if c07IsCanary(v.Elem().Type().Field(i)) {
			f := v.Elem().Field(i)
			for j := 0; j < f.Len(); j++ {
				f.Index(j).SetUint(0xA5)
			}
		}
	}
	return v
}

func c07SeqCanaries(v reflect.Value) string {
	if v.Kind() != reflect.Struct {
		return ""
	}
	for i := 0; i < v.NumField(); i++ {
		if c07IsCanary(v.Type().Field(i)) {
			f := v.Field(i)
			for j := 0; j < f.Len(); j++ {
				if f.Index(j).Uint() != 0xA5 {
					return fmt.Sprintf("canary %s byte %d changed to %#x", v.Type().Field(i).Name, j, f.Index(j).Uint())
				}
			}
		}
	}
	return ""
}

func c07SequenceCases(o *Out, decodeOnly bool) {
	r := o.rng
	rounds := 150
	if o.tier == "thorough" {
		rounds = 1500
	}
	for round := 0; round < rounds; round++ {
		nv := 2 + r.Intn(5)
		kinds := make([]int, nv)
		var stream strings.Builder
		broken := -1 // index of a value that is not JSON
		if r.Intn(5) == 0 {
			broken = r.Intn(nv)
		}
		same := r.Intn(4) == 0 // every value goes into one destination
		k0 := []int{0, 0, 0, 1, 2, 3}[r.Intn(6)]
		for i := range kinds {
			kinds[i] = []int{0, 0, 0, 1, 2, 3}[r.Intn(6)]
			if same {
				kinds[i] = k0
			}
			val := c07SeqValue(r, kinds[i])
			if i == broken && len(val) > 2 {
				switch r.Intn(3) {
				case 0:
					val = val[:1+r.Intn(len(val)-1)] + " "
				case 1:
					val = val[:len(val)-1] + "#" + val[len(val)-1:]
				default:
					val = strings.Replace(val, ":", " ", 1)
				}
			}
			stream.WriteString(val)
			stream.WriteString([]string{"", " ", "\n", "\r\n\t ", strings.Repeat("\n", 520)}[r.Intn(5)])
		}
		in := []byte(stream.String())
		size := []int{1, 7, 64, 511, 512, 513, c07FullReads, c07FullReads}[r.Intn(8)]
		failAt := -1
		if r.Intn(10) == 0 {
			failAt = r.Intn(len(in))
		}
		useNumber := r.Intn(6) == 0
		det := map[string]string{"case_kind": "sequence of values through one Decoder", "stream": clip(string(in)), "stream_hex_len": strconv.Itoa(len(in)),
			"kinds": fmt.Sprint(kinds), "piece_size": strconv.Itoa(size), "same_destination": fmt.Sprint(same), "broken_value": strconv.Itoa(broken),
			"reader_fails_at": strconv.Itoa(failAt), "use_number": fmt.Sprint(useNumber), "round": strconv.Itoa(round)}
		o.current(det)
		dec := gojson.NewDecoder(&pieceReader{b: append([]byte(nil), in...), size: size, failAt: failAt})
		sdec := stdjson.NewDecoder(&pieceReader{b: append([]byte(nil), in...), size: size, failAt: failAt})
		if useNumber {
			dec.UseNumber()
			sdec.UseNumber()
		}
		var dsts []reflect.Value
		var snaps []string
		var sameDst, sameTwin reflect.Value
		if same {
			sameDst, sameTwin = c07SeqNew(k0), c07SeqNew(k0)
		}
		bad := ""
		comparing := true
		calls := nv
		if broken >= 0 || failAt >= 0 {
			calls = nv + 2 // go on calling after the error
		}
		perr := safeCall(func() error {
			for i := 0; i < calls && bad == ""; i++ {
				k := k0
				if i < nv {
					k = kinds[i]
				}
				d, tw := sameDst, sameTwin
				if !same {
					d, tw = c07SeqNew(k), c07SeqNew(k)
				}
				var err error
				switch r.Intn(3) {
				case 0:
					err = dec.Decode(d.Interface())
				case 1:
					err = dec.DecodeContext(context.Background(), d.Interface())
				default:
					err = dec.DecodeWithOption(d.Interface())
				}
				o.count("sequence_decode_calls", 1)
				if r.Intn(4) == 0 {
					dec.More()
				}
				if r.Intn(6) == 0 {
					dec.InputOffset()
					dec.Buffered()
				}
				if decodeOnly {
					c07Walk(d.Elem(), "value", 0)
					continue
				}
				if w := c07SafeWalk(d.Elem()); w != "" {
					bad = fmt.Sprintf("value %d: malformed destination: %s", i, w)
					break
				}
				if comparing {
					serr := sdec.Decode(tw.Interface())
					if err != nil || serr != nil {
						comparing = false // what follows an error is not compared
						if (err == nil) != (serr == nil) {
							o.count("sequence_verdicts_differ", 1)
						}
					} else {
						o.count("sequence_values_compared", 1)
						if g, w := c07Snap(d.Elem()), c07Snap(tw.Elem()); g != w {
							p := 0
							for p < len(g) && p < len(w) && g[p] == w[p] {
								p++
							}
							if p > 30 {
								p -= 30
							} else {
								p = 0
							}
							bad = fmt.Sprintf("value %d differs from encoding/json's Decoder on the same stream: ...%s, encoding/json ...%s", i, clip(g[p:]), clip(w[p:]))
							break
						}
					}
				}
				if err != nil {
					o.count("sequence_decode_err", 1)
				}
				if !same {
					dsts = append(dsts, d)
					snaps = append(snaps, c07Snap(d.Elem()))
				}
				// everything stored by the earlier calls is still there
				for j := 0; j < len(dsts)-1; j++ {
					if s := c07Snap(dsts[j].Elem()); s != snaps[j] {
						p := 0
						for p < len(s) && p < len(snaps[j]) && s[p] == snaps[j][p] {
							p++
						}
						if p > 30 {
							p -= 30
						} else {
							p = 0
						}
						bad = fmt.Sprintf("the result of call %d changed during call %d: ...%s -> ...%s", j, i, clip(snaps[j][p:]), clip(s[p:]))
						break
					}
				}
			}
			return nil
		})
		o.count("sequence_cases", 1)
		o.hist("sequence_piece_size", strconv.Itoa(size))
		if decodeOnly {
			continue
		}
		if perr != nil && bad == "" {
			bad = "the Decoder panicked: " + perr.Error()
		}
		if bad == "" {
			for i := range in {
				in[i] = 'X'
			}
			runtime.GC()
			all := dsts
			if same {
				all = []reflect.Value{sameDst}
			}
			for j, d := range all {
				if cb := c07SeqCanaries(d.Elem()); cb != "" {
					bad = fmt.Sprintf("value %d: %s", j, cb)
				} else if w := c07SafeWalk(d.Elem()); w != "" {
					bad = fmt.Sprintf("value %d after GC: malformed destination: %s", j, w)
				} else if !same && c07Snap(d.Elem()) != snaps[j] {
					bad = fmt.Sprintf("the result of call %d changed after the garbage collection", j)
				}
			}
		}
		if bad != "" {
			det["detail"] = bad
			det["stream_hex"] = hx(in)
			if len(in) > 6000 {
				det["stream_hex"] = "(long)"
			}
			o.violation("C07", bad, det)
		}
	}
}

// ---------- a destination on the goroutine stack ( UnmarshalNoEscape ) ----------
//
// UnmarshalNoEscape hides the destination from escape analysis: a local variable stays on the stack of the
// caller.  A document nested thousands of levels deep makes the decoder recurse until the runtime moves the
// stack to a larger one in the middle of the call: every address of the destination held as a pointer is
// adjusted by the runtime, an address held as an integer ( or in the heap ) is not, and a store through it lands
// in the old stack.  The members that follow the deep one in the document are stored after the move.  Demanded:
// canaries intact and the whole value equal to what encoding/json decodes into a heap twin.

type C07StackL2 struct {
	CA  [3]byte `json:"-"`
	Any interface{}
	CB  [1]byte `json:"-"`
	K   uint8
	CC  [2]byte `json:"-"`
	T   string
	CD  [5]byte `json:"-"`
	Arr [3]uint16
	CE  [1]byte `json:"-"`
}

type C07StackL1 struct {
	CA   [1]byte `json:"-"`
	In   C07StackL2
	CB   [2]byte `json:"-"`
	Pair [2]C07StackL2
	CC   [3]byte `json:"-"`
	Z    int16
	CD   [1]byte `json:"-"`
}

type C07Rec struct {
	V    int
	Next *C07Rec
}

type C07Stack struct {
	CA [8]byte `json:"-"`
	A  interface{}
	CB [3]byte `json:"-"`
	L1 C07StackL1
	CC [5]byte `json:"-"`
	B  int32
	CD [1]byte `json:"-"`
	S  string
	CE [2]byte `json:"-"`
	R  *C07Rec
	CF [8]byte `json:"-"`
	M  map[string]int
	CG [8]byte `json:"-"`
	Q  []uint8
	CH [8]byte `json:"-"`
}

func c07StackPaint(x *C07Stack) {
	c := func(b []byte) {
		for i := range b {
			b[i] = 0xA5
		}
	}
	c(x.CA[:])
	c(x.CB[:])
	c(x.CC[:])
	c(x.CD[:])
	c(x.CE[:])
	c(x.CF[:])
	c(x.CG[:])
	c(x.CH[:])
	c(x.L1.CA[:])
	c(x.L1.CB[:])
	c(x.L1.CC[:])
	c(x.L1.CD[:])
	for _, l := range []*C07StackL2{&x.L1.In, &x.L1.Pair[0], &x.L1.Pair[1]} {
		c(l.CA[:])
		c(l.CB[:])
		c(l.CC[:])
		c(l.CD[:])
		c(l.CE[:])
		l.K, l.T, l.Arr = 0x5A, "init", [3]uint16{0x5A5A, 0x5A5A, 0x5A5A}
	}
	x.B, x.S, x.L1.Z = 0x5A5A5A5A, "init", 0x5A5A
}

// c07StackDecode decodes into a local variable and hands out a copy of it, its address before and after the call
// and the address of another local ( to show that the variable was on the stack )
//
//go:noinline
func c07StackDecode(doc []byte) (res C07Stack, before, after, marker uintptr, err error) {
	var mk [1]byte
	var x C07Stack
	c07StackPaint(&x)
	before = uintptr(unsafe.Pointer(&x))
	err = gojson.UnmarshalNoEscape(doc, &x)
	after = uintptr(unsafe.Pointer(&x))
	return x, before, after, uintptr(unsafe.Pointer(&mk)), err
}

func c07StackDeep(r *rand.Rand, depth int) string {
	switch r.Intn(3) {
	case 0:
		return strings.Repeat("[", depth) + `"bottom"` + strings.Repeat("]", depth)
	case 1:
		return strings.Repeat(`{"a":`, depth) + `1` + strings.Repeat("}", depth)
	}
	return strings.Repeat(`[{"k":`, depth/2) + `null` + strings.Repeat("}]", depth/2)
}

func c07StackCases(o *Out, decodeOnly bool) {
	r := o.rng
	rounds := 40
	if o.tier == "thorough" {
		rounds = 600
	}
	for round := 0; round < rounds; round++ {
		dp := func() int { return []int{0, 1, 30, 300, 1500, 3000}[r.Intn(6)] }
		l2 := func() string {
			ms := []string{`"Any":` + c07StackDeep(r, dp()), `"K":7`, `"T":"stored after the deep member"`, `"Arr":[1,2]`}
			r.Shuffle(len(ms), func(i, j int) { ms[i], ms[j] = ms[j], ms[i] })
			return "{" + strings.Join(ms[:1+r.Intn(len(ms))], ",") + "}"
		}
		chain := func(n int) string {
			var b strings.Builder
			for i := 0; i < n; i++ {
				fmt.Fprintf(&b, `{"V":%d,"Next":`, i)
			}
			b.WriteString("null" + strings.Repeat("}", n))
			return b.String()
		}
		ms := []string{`"A":` + c07StackDeep(r, dp()), `"L1":{"In":` + l2() + `,"Pair":[` + l2() + `,` + l2() + `],"Z":-5}`, `"B":42`, `"S":"tail \n string"`,
			`"R":` + chain(1+dp()/2), `"M":{"a":1,"b":2}`, `"Q":"AQID"`, `"L1":{"Pair":[{"K":9}],"In":{"Arr":[7,8,9,10]}}`}
		r.Shuffle(len(ms), func(i, j int) { ms[i], ms[j] = ms[j], ms[i] })
		doc := []byte("{" + strings.Join(ms[:2+r.Intn(len(ms)-1)], ",") + "}")
		if r.Intn(8) == 0 {
			doc = doc[:len(doc)/2+r.Intn(len(doc)/2)]
		}
		det := map[string]string{"case_kind": "destination on the stack, UnmarshalNoEscape", "doc": clip(string(doc)), "doc_len": strconv.Itoa(len(doc)), "round": strconv.Itoa(round)}
		if len(doc) < 3000 {
			det["doc_hex"] = hx(doc)
		}
		o.current(det)
		var res C07Stack
		var before, after, marker uintptr
		var err error
		var perr error
		done := make(chan struct{})
		go func() { // a new goroutine: a small stack
			defer close(done)
			perr = safeCall(func() error {
				res, before, after, marker, err = c07StackDecode(append([]byte(nil), doc...))
				return nil
			})
		}()
		<-done
		o.count("stack_destination_cases", 1)
		if perr != nil {
			det["panic"] = perr.Error()
			o.violation("C07", "decoding into a destination on the stack panicked", det)
			continue
		}
		if d := int64(after) - int64(marker); d > -1<<16 && d < 1<<16 {
			o.count("stack_destination_on_stack", 1)
		}
		if before != after {
			o.count("stack_moved_during_decode", 1)
		}
		if decodeOnly {
			c07Walk(reflect.ValueOf(&res).Elem(), "root", 0)
			continue
		}
		bad := ""
		var twin C07Stack
		c07StackPaint(&twin)
		serr := stdjson.Unmarshal(doc, &twin)
		got := reflect.ValueOf(&res).Elem()
		tr := &c07Track{}
		// the canaries of the copy ( c07Init is not used: only their places are wanted )
		var walkCan func(v reflect.Value, path string)
		walkCan = func(v reflect.Value, path string) {
			switch v.Kind() {
			case reflect.Struct:
				for i := 0; i < v.NumField(); i++ {
					f := v.Type().Field(i)
					if c07IsCanary(f) {
						tr.canaries = append(tr.canaries, c07Region{v.Field(i).Addr().UnsafePointer(), v.Field(i).Len(), path + "." + f.Name, tr.elem, tr.elemN})
					} else {
						walkCan(v.Field(i), path+"."+f.Name)
					}
				}
			case reflect.Array:
				for i := 0; i < v.Len(); i++ {
					pe, pn := tr.elem, tr.elemN
					tr.elem, tr.elemN = v.Index(i).Addr().UnsafePointer(), int(v.Type().Elem().Size())
					walkCan(v.Index(i), path+"["+strconv.Itoa(i)+"]")
					tr.elem, tr.elemN = pe, pn
				}
			}
		}
		walkCan(got, "root")
		mine := tr.canaries
		tr.canaries = nil
		walkCan(reflect.ValueOf(&twin).Elem(), "root")
		for ci, cn := range mine {
			bs := unsafe.Slice((*byte)(cn.p), cn.n)
			for i, x := range bs {
				if x != 0xA5 && bad == "" {
					// an element of Pair that a short JSON array zeroes as a whole loses its canaries legitimately; a later
					// duplicate of the member may fill the element again: then the canary is zero as a whole, and
					// in encoding/json's twin too ( which stores nothing when it refuses the document )
					if cn.elem != nil && c07AllZero(bs) && (c07AllZero(unsafe.Slice((*byte)(cn.elem), cn.elemN)) || serr != nil ||
						c07AllZero(unsafe.Slice((*byte)(tr.canaries[ci].p), cn.n))) {
						continue
					}
					bad = fmt.Sprintf("canary %s byte %d of %d changed to %#x", cn.desc, i, cn.n, x)
				}
			}
		}
		if w := c07SafeWalk(got); bad == "" && w != "" {
			bad = "malformed destination: " + w
		}
		if bad == "" && err == nil && serr == nil {
			o.count("stack_destination_compared", 1)
			if g, w := c07Snap(got), c07Snap(reflect.ValueOf(&twin).Elem()); g != w {
				p := 0
				for p < len(g) && p < len(w) && g[p] == w[p] {
					p++
				}
				if p > 40 {
					p -= 40
				} else {
					p = 0
				}
				bad = fmt.Sprintf("the value decoded on the stack differs from encoding/json's on the heap: ...%s, encoding/json ...%s", clip(g[p:]), clip(w[p:]))
			}
		} else if (err == nil) != (serr == nil) {
			o.count("stack_destination_verdicts_differ", 1)
		}
		if bad != "" {
			det["detail"] = bad
			det["stack_moved"] = fmt.Sprint(before != after)
			o.violation("C07", bad, det)
		}
	}
}

// ---------- a garbage collection in the middle of a call; Unmarshalers that scribble over their argument ----------
//
// The methods of C07Hook, C07TextI and C07HookKey are called by the decoder in the middle of its work: while
// strings of the result point into its buffer, while elements wait in the pooled array of a slice decoder,
// while a map is half filled.  In "nasty" mode the method overwrites the bytes it was given, fills the spare
// capacity behind them, runs a garbage collection and fills freed memory with fresh allocations.  Nothing of
// that may show: the argument is a copy and everything the decoder has built so far is reachable through
// pointers.  Demanded: canaries intact, headers well formed, and the result equal to what encoding/json gives
// with well-behaved methods.

var c07HookNasty bool
var c07HookCalls, c07HookGCs int64
var c07HookSeq int     // number of the method call within the current Unmarshal / Decode
var c07HookGCAt [2]int // the two calls that collect garbage ( every call would make the quick tier slow )
var c07HookGarbage [][]byte

// c07HookScribbleText: also the UnmarshalText methods overwrite their argument.  Off by default: in buffer mode the
// library hands UnmarshalText a part of its own buffer ( see the notes of the audit; encoding/json does the same with
// the caller's input ), so that a method which changes its argument changes the rest of the document.
var c07HookScribbleText = os.Getenv("AUDIT_OPEN") == "1"

func c07HookAct(b []byte, text bool) {
	c07HookCalls++
	if !c07HookNasty {
		return
	}
	if !text || c07HookScribbleText {
		for i := range b {
			b[i] = 'X'
		}
		bb := b[:cap(b)]
		for i := len(b); i < len(bb); i++ {
			bb[i] = 'Y'
		}
	}
	c07HookSeq++
	if c07HookSeq != c07HookGCAt[0] && c07HookSeq != c07HookGCAt[1] {
		return
	}
	runtime.GC()
	c07HookGCs++
	c07HookGarbage = c07HookGarbage[:0]
	for _, n := range []int{8, 16, 24, 32, 48, 64, 96, 128, 256, 512, 1024, 2048} {
		for k := 0; k < 6; k++ {
			g := make([]byte, n)
			for i := range g {
				g[i] = 'Z'
			}
			c07HookGarbage = append(c07HookGarbage, g)
		}
	}
}

type C07Hook struct {
	CA  [2]byte `json:"-"`
	Got string
	CB  [3]byte `json:"-"`
	N   int
}

func (h *C07Hook) UnmarshalJSON(b []byte) error {
	h.Got = string(b)
	h.N++
	c07HookAct(b, false)
	return nil
}

type C07TextI int8

func (t *C07TextI) UnmarshalText(b []byte) error {
	*t = C07TextI(len(b))
	c07HookAct(b, true)
	return nil
}

type C07HookKey struct{ A, B byte }

func (k *C07HookKey) UnmarshalText(b []byte) error {
	if len(b) > 0 {
		k.A = b[0]
	}
	k.B = byte(len(b))
	c07HookAct(b, true)
	return nil
}

type C07HookDst struct {
	CA     [3]byte `json:"-"`
	Before string
	CB     [1]byte `json:"-"`
	H      C07Hook
	CC     [2]byte `json:"-"`
	After  []string
	CD     [5]byte `json:"-"`
	M      map[string]C07Hook
	CE     [1]byte `json:"-"`
	L      []C07Hook
	CF     [3]byte `json:"-"`
	TI     C07TextI
	CG     [7]byte `json:"-"`
	PH     *C07Hook
	CH     [2]byte `json:"-"`
	KM     map[C07HookKey]string
	CI     [1]byte `json:"-"`
	Arr    [2]C07Hook
	CJ     [3]byte `json:"-"`
	Tail   string
	CK     [4]byte `json:"-"`
	Num    stdjson.Number
	CL     [1]byte `json:"-"`
	R      stdjson.RawMessage
	CM     [5]byte `json:"-"`
	I      interface{}
	CN     [2]byte `json:"-"`
	LL     [][]string
	CO     [6]byte `json:"-"`
}

// c07Canaries paints ( paint ) or lists the canaries of the storage reachable from v without leaving what exists before a
// call: struct fields, array elements, pointers, slice elements, pointers held by interfaces
func c07Canaries(v reflect.Value, path string, tr *c07Track, paint bool) {
	switch v.Kind() {
	case reflect.Struct:
		for i := 0; i < v.NumField(); i++ {
			f := v.Type().Field(i)
			if c07IsCanary(f) {
				if paint {
					for j := 0; j < v.Field(i).Len(); j++ {
						v.Field(i).Index(j).SetUint(0xA5)
					}
				}
				tr.canaries = append(tr.canaries, c07Region{v.Field(i).Addr().UnsafePointer(), v.Field(i).Len(), path + "." + f.Name, tr.elem, tr.elemN})
			} else {
				c07Canaries(v.Field(i), path+"."+f.Name, tr, paint)
			}
		}
	case reflect.Array:
		for i := 0; i < v.Len(); i++ {
			pe, pn := tr.elem, tr.elemN
			tr.elem, tr.elemN = v.Index(i).Addr().UnsafePointer(), int(v.Type().Elem().Size())
			c07Canaries(v.Index(i), path+"["+strconv.Itoa(i)+"]", tr, paint)
			tr.elem, tr.elemN = pe, pn
		}
	case reflect.Slice:
		for i := 0; i < v.Len(); i++ {
			c07Canaries(v.Index(i), path+"["+strconv.Itoa(i)+"]", tr, paint)
		}
	case reflect.Ptr, reflect.Interface:
		if !v.IsNil() && (v.Kind() == reflect.Ptr || v.Elem().Kind() == reflect.Ptr) {
			pe, pn := tr.elem, tr.elemN
			tr.elem, tr.elemN = nil, 0
			c07Canaries(v.Elem(), path+".*", tr, paint)
			tr.elem, tr.elemN = pe, pn
		}
	}
}

func c07HookNew(r *rand.Rand, seed int64) (reflect.Value, *c07Track) {
	rr := rand.New(rand.NewSource(seed))
	d := &C07HookDst{Before: strings.Clone("init before"), Tail: strings.Clone("init tail"), TI: 0x5A, Num: "5"}
	if rr.Intn(2) == 0 {
		d.After = []string{strings.Clone("a0"), strings.Clone("a1"), strings.Clone("a2")}[:2]
		d.L = make([]C07Hook, 2, 5)
		d.L[0].Got, d.L[1].Got = "l0", "l1"
		d.M = map[string]C07Hook{"old": {Got: "kept"}}
		d.KM = map[C07HookKey]string{{1, 2}: "old"}
		d.PH = &C07Hook{Got: "ph"}
		d.I = &C07Hook{Got: "behind the interface"}
		d.LL = [][]string{{strings.Clone("x")}, nil}
		d.R = stdjson.RawMessage(strings.Clone(`{"old":"raw message of some length ......"}`))
	}
	tr := &c07Track{}
	v := reflect.ValueOf(d)
	c07Canaries(v.Elem(), "root", tr, true)
	return v, tr
}

func c07HookDoc(r *rand.Rand) string {
	lit := func() string { return c07SeqLit(r, []int{0, 3, 20, 20, 100, 600}[r.Intn(6)]) }
	hv := func() string {
		return []string{`{"k":` + lit() + `}`, `[1, 2 ,3]`, lit(), `12.5`, `null`, `{"deep":{"er":[` + lit() + `]}}`, `true`}[r.Intn(7)]
	}
	strs := func() string {
		n := r.Intn(5)
		var es []string
		for i := 0; i < n; i++ {
			es = append(es, lit())
		}
		return "[" + strings.Join(es, ", ") + "]"
	}
	hooks := func() string {
		n := r.Intn(6)
		var es []string
		for i := 0; i < n; i++ {
			es = append(es, hv())
		}
		return "[" + strings.Join(es, ",") + "]"
	}
	ms := []string{
		`"Before":` + lit(), `"H":` + hv(), `"After":` + strs(),
		`"M":{"a":` + hv() + `,` + c07SeqLit(r, 5) + `:` + hv() + `,"old":` + hv() + `}`,
		`"L":` + hooks(), `"TI":` + []string{lit(), `"abc"`, `null`}[r.Intn(3)], `"PH":` + hv(),
		`"KM":{"xy":` + lit() + `,"` + strings.Repeat("k", 1+r.Intn(40)) + `":` + lit() + `}`,
		`"Arr":[` + hv() + `,` + hv() + `]`, `"Tail":` + lit(), `"Num":-12.5e2`, `"R":` + []string{hv(), strs()}[r.Intn(2)],
		`"I":` + hv(), `"LL":[` + strs() + `,` + strs() + `,` + strs() + `]`, `"unknown":` + hv(), `"H":` + hv(),
	}
	r.Shuffle(len(ms), func(i, j int) { ms[i], ms[j] = ms[j], ms[i] })
	ms = ms[:2+r.Intn(len(ms)-1)]
	return "{" + genWS(r) + strings.Join(ms, genWS(r)+","+genWS(r)) + genWS(r) + "}"
}

func c07HookCases(o *Out, decodeOnly bool) {
	r := o.rng
	rounds := 90
	if o.tier == "thorough" {
		rounds = 800 // three garbage collections a round, on the large heap of a thorough run
	}
	defer func() { c07HookNasty = false; c07HookGarbage = nil }()
	for round := 0; round < rounds; round++ {
		doc := c07HookDoc(r)
		if r.Intn(8) == 0 {
			doc = doc[:1+r.Intn(len(doc)-1)]
		}
		c := &c07Case{doc: []byte(doc), mode: []int{0, 0, 1, 5, 64, c07FullReads}[r.Intn(6)], failAt: -1}
		c07PickEntry(r, c)
		c.failAt = -1
		seed := r.Int63()
		det := map[string]string{"case_kind": "garbage collection and scribbling inside Unmarshaler methods", "doc": clip(doc), "doc_hex": hx([]byte(doc)),
			"mode": strconv.Itoa(c.mode), "entry": c07EntryName(c), "init_seed": strconv.FormatInt(seed, 10), "round": strconv.Itoa(round)}
		if len(doc) > 3000 {
			det["doc_hex"] = "(long)"
		}
		o.current(det)
		dst, tr := c07HookNew(r, seed)
		in := append([]byte(nil), c.doc...)
		var err error
		c07HookNasty = true
		c07HookSeq, c07HookGCAt = 0, [2]int{1 + r.Intn(4), 1 + r.Intn(12)}
		gcs := c07HookGCs
		perr := safeCall(func() error { err = c07Decode(c, dst.Interface(), in, false); return nil })
		c07HookNasty = false
		o.count("hook_cases", 1)
		o.count("hook_gc_inside_decode", c07HookGCs-gcs)
		if decodeOnly {
			c07Walk(dst.Elem(), "root", 0)
			continue
		}
		bad := ""
		if perr != nil {
			bad = "decoding panicked: " + perr.Error()
		} else if !bytes.Equal(in, c.doc) {
			bad = "input bytes modified by decoding"
		}
		for _, cn := range tr.canaries {
			bs := unsafe.Slice((*byte)(cn.p), cn.n)
			for i, x := range bs {
				if x != 0xA5 && bad == "" {
					bad = fmt.Sprintf("canary %s byte %d of %d changed to %#x", cn.desc, i, cn.n, x)
				}
			}
		}
		if w := c07SafeWalk(dst.Elem()); bad == "" && w != "" {
			bad = "malformed destination: " + w
		}
		if bad == "" {
			snap := c07Snap(dst.Elem())
			for i := range in {
				in[i] = 'X'
			}
			runtime.GC()
			if w := c07SafeWalk(dst.Elem()); w != "" {
				bad = "malformed destination after GC: " + w
			} else if c07Snap(dst.Elem()) != snap {
				bad = "destination changed after the input buffer was overwritten / GC ran"
			}
			if bad == "" && err == nil && !strings.Contains(c07EntryName(c), "FirstWin") {
				twin, _ := c07HookNew(r, seed)
				if serr := c07Decode(c, twin.Interface(), append([]byte(nil), c.doc...), true); serr == nil {
					o.count("hook_twin_compared", 1)
					if w := c07Snap(twin.Elem()); w != snap {
						p := 0
						for p < len(w) && p < len(snap) && w[p] == snap[p] {
							p++
						}
						if p > 40 {
							p -= 40
						} else {
							p = 0
						}
						bad = fmt.Sprintf("the result differs from encoding/json's with well-behaved methods: ...%s, encoding/json ...%s", clip(snap[p:]), clip(w[p:]))
					}
				} else {
					o.count("hook_twin_std_rejects", 1)
				}
			}
		}
		if err != nil {
			o.count("hook_decode_err", 1)
			twin, _ := c07HookNew(r, seed)
			if c07Decode(c, twin.Interface(), append([]byte(nil), c.doc...), true) == nil {
				o.count("hook_rejected_but_encoding_json_accepts", 1) // statistics: which texts are accepted is not this property's business
				if o.Stats["hook_rejected_but_encoding_json_accepts"] <= 3 {
					o.Notes = append(o.Notes, fmt.Sprintf("hooks: go-json rejects (%v), encoding/json accepts: entry=%s mode=%d doc=%s", err, c07EntryName(c), c.mode, clip(doc)))
				}
				if c07HookScribbleText && bad == "" && perr == nil {
					// AUDIT_OPEN=1: the only thing that differs from the accepting run is that the methods wrote to the bytes they were given
					bad = fmt.Sprintf("a method that wrote to ( or behind ) the bytes it was given changed how the rest of the document was read: %v; with well-behaved methods the document is accepted", err)
				}
			}
		}
		if bad != "" {
			det["detail"] = bad
			o.violation("C07", bad, det)
		}
	}
}
