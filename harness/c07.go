package main

// C07: decoding touches only the destination.  Destination types are generated
// with reflect.StructOf so that every target field sits between byte-array
// canaries (alignment 1, so directly adjacent); initial values are valid Go
// values with a recognisable pattern.  After every Unmarshal / Decoder.Decode:
//   - every canary byte and every guard element behind a slice's capacity is unchanged,
//   - fields the document does not address keep their snapshot,
//   - the input bytes are unchanged and the result does not alias them,
//   - every string/slice header is well formed and the whole graph can be
//     walked before and after a forced GC,
//   - (statistics) the result equals encoding/json's on an identical twin.
// The array decoder's write set is additionally compared with the model
// (op c07.array).  C07child runs the same cases in a binary built with
// -d=checkptr; a crash of that process is a violation.

import (
	"bytes"
	stdjson "encoding/json"
	"fmt"
	"math/rand"
	"os"
	"os/exec"
	"reflect"
	"runtime"
	"runtime/debug"
	"sort"
	"strconv"
	"strings"
	"unsafe"

	gojson "github.com/goccy/go-json"
)

func init() {
	props["C07"] = runC07
	props["C07child"] = runC07Child
}

type C07Emb struct {
	CA  [3]byte `json:"-"`
	E00 uint16
	CB  [5]byte `json:"-"`
	E01 string
	CC  [1]byte `json:"-"`
	E02 [2]uint8
	CD  [7]byte `json:"-"`
}

var c07Leaves = []reflect.Type{
	reflect.TypeOf(false), reflect.TypeOf(int8(0)), reflect.TypeOf(int16(0)), reflect.TypeOf(int32(0)),
	reflect.TypeOf(int64(0)), reflect.TypeOf(int(0)), reflect.TypeOf(uint8(0)), reflect.TypeOf(uint16(0)),
	reflect.TypeOf(uint32(0)), reflect.TypeOf(uint64(0)), reflect.TypeOf(uint(0)), reflect.TypeOf(float32(0)),
	reflect.TypeOf(float64(0)), reflect.TypeOf(""), reflect.TypeOf((*interface{})(nil)).Elem(),
	reflect.TypeOf(int16(0)), reflect.TypeOf(uint16(0)), reflect.TypeOf(""), reflect.TypeOf(int8(0)),
}

func c07ByteElem(k int) reflect.Type { return reflect.ArrayOf(k, reflect.TypeOf(uint8(0))) }

func c07Type(r *rand.Rand, depth int) reflect.Type {
	n := r.Intn(12)
	if depth <= 0 && n >= 4 && n != 9 {
		n = r.Intn(4)
	}
	switch n {
	case 4, 10:
		return reflect.ArrayOf(1+r.Intn(4), c07Type(r, depth-1))
	case 5, 11:
		return reflect.SliceOf(c07Type(r, depth-1))
	case 6:
		return reflect.PtrTo(c07Type(r, depth-1))
	case 7:
		return reflect.MapOf(reflect.TypeOf(""), c07Type(r, depth-1))
	case 8:
		return c07Struct(r, depth-1, 1+r.Intn(3))
	case 9:
		return c07ByteElem(1 + r.Intn(64))
	}
	return c07Leaves[r.Intn(len(c07Leaves))]
}

func c07Canary(i int, r *rand.Rand) reflect.StructField {
	return reflect.StructField{Name: fmt.Sprintf("C%02d", i), Type: c07ByteElem(1 + r.Intn(9)), Tag: `json:"-"`}
}

func c07Struct(r *rand.Rand, depth, nf int) reflect.Type {
	var fs []reflect.StructField
	fs = append(fs, c07Canary(0, r))
	emb := -1
	if r.Intn(6) == 0 {
		emb = r.Intn(nf)
	}
	for i := 0; i < nf; i++ {
		if i == emb {
			t := reflect.TypeOf(C07Emb{})
			if r.Intn(2) == 0 {
				t = reflect.PtrTo(t)
			}
			fs = append(fs, reflect.StructField{Name: "C07Emb", Type: t, Anonymous: true})
		} else {
			t := c07Type(r, depth)
			f := reflect.StructField{Name: fmt.Sprintf("F%02d", i), Type: t}
			switch t.Kind() {
			case reflect.Int8, reflect.Int16, reflect.Int32, reflect.Int64, reflect.Int, reflect.Uint8, reflect.Uint16,
				reflect.Uint32, reflect.Uint64, reflect.Uint, reflect.Bool:
				if r.Intn(5) == 0 {
					f.Tag = reflect.StructTag(fmt.Sprintf(`json:"F%02d,string"`, i))
				}
			}
			fs = append(fs, f)
		}
		fs = append(fs, c07Canary(i+1, r))
	}
	return reflect.StructOf(fs)
}

func c07IsCanary(f reflect.StructField) bool {
	return f.Tag.Get("json") == "-" && f.Type.Kind() == reflect.Array && f.Type.Elem().Kind() == reflect.Uint8
}

type c07Region struct {
	p    unsafe.Pointer
	n    int
	desc string
	// innermost enclosing array element: a short JSON array legitimately zeroes whole tail elements
	elem  unsafe.Pointer
	elemN int
}

type c07Guard struct {
	v    reflect.Value
	snap string
	desc string
}

type c07Track struct {
	canaries []c07Region
	guards   []c07Guard
	elem     unsafe.Pointer
	elemN    int
}

// c07Init fills v (addressable) with the recognisable initial value. tr == nil: no tracking.
func c07Init(v reflect.Value, path string, tr *c07Track, r *rand.Rand) {
	switch v.Kind() {
	case reflect.Bool:
		v.SetBool(true)
	case reflect.Int8, reflect.Int16, reflect.Int32, reflect.Int64, reflect.Int:
		var x int64 = 0x5A5A5A5A5A5A5A5A
		switch v.Type().Size() {
		case 1:
			x = 0x5A
		case 2:
			x = 0x5A5A
		case 4:
			x = 0x5A5A5A5A
		}
		v.SetInt(x)
	case reflect.Uint8, reflect.Uint16, reflect.Uint32, reflect.Uint64, reflect.Uint:
		var x uint64 = 0x5A5A5A5A5A5A5A5A
		v.SetUint(x >> (64 - 8*uint(v.Type().Size())))
	case reflect.Float32, reflect.Float64:
		v.SetFloat(2.5)
	case reflect.String:
		v.SetString(strings.Clone("init-" + path))
	case reflect.Interface:
		switch r.Intn(3) {
		case 0:
			v.Set(reflect.ValueOf(strings.Clone("iface-init")))
		case 1:
			v.Set(reflect.ValueOf(float64(7)))
		}
	case reflect.Array:
		for i := 0; i < v.Len(); i++ {
			if tr != nil {
				pe, pn := tr.elem, tr.elemN
				tr.elem, tr.elemN = v.Index(i).Addr().UnsafePointer(), int(v.Type().Elem().Size())
				c07Init(v.Index(i), path+"["+strconv.Itoa(i)+"]", tr, r)
				tr.elem, tr.elemN = pe, pn
			} else {
				c07Init(v.Index(i), path+"["+strconv.Itoa(i)+"]", tr, r)
			}
		}
	case reflect.Slice:
		switch r.Intn(5) {
		case 0: // nil
		case 1:
			v.Set(reflect.MakeSlice(v.Type(), 0, 0))
		case 2:
			// spare capacity: 3 elements in use, room for 9, guards behind the capacity
			back := reflect.MakeSlice(v.Type(), 12, 12)
			for i := 0; i < 12; i++ {
				c07Init(back.Index(i), path+"["+strconv.Itoa(i)+"]", nil, r)
			}
			if tr != nil {
				g := back.Slice(9, 12)
				tr.guards = append(tr.guards, c07Guard{g, c07Snap(g), path + "[9:12] behind cap"})
			}
			v.Set(back.Slice3(0, 3, 9))
		default:
			back := reflect.MakeSlice(v.Type(), 4, 4)
			for i := 0; i < 4; i++ {
				c07Init(back.Index(i), path+"["+strconv.Itoa(i)+"]", nil, r)
			}
			if tr != nil {
				g := back.Slice(2, 4)
				tr.guards = append(tr.guards, c07Guard{g, c07Snap(g), path + "[2:4] behind cap"})
			}
			v.Set(back.Slice3(0, 2, 2))
		}
	case reflect.Ptr:
		if r.Intn(10) < 7 {
			n := reflect.New(v.Type().Elem())
			if tr != nil {
				pe, pn := tr.elem, tr.elemN
				tr.elem, tr.elemN = nil, 0
				c07Init(n.Elem(), path+".*", tr, r)
				tr.elem, tr.elemN = pe, pn
			} else {
				c07Init(n.Elem(), path+".*", tr, r)
			}
			v.Set(n)
		}
	case reflect.Map:
		if r.Intn(10) < 7 {
			m := reflect.MakeMap(v.Type())
			e := reflect.New(v.Type().Elem()).Elem()
			c07Init(e, path+"[k0]", nil, r)
			m.SetMapIndex(reflect.ValueOf("k0"), e)
			v.Set(m)
		}
	case reflect.Struct:
		for i := 0; i < v.NumField(); i++ {
			f := v.Type().Field(i)
			fv := v.Field(i)
			if c07IsCanary(f) {
				for j := 0; j < fv.Len(); j++ {
					fv.Index(j).SetUint(0xA5)
				}
				if tr != nil {
					tr.canaries = append(tr.canaries, c07Region{fv.Addr().UnsafePointer(), fv.Len(), path + "." + f.Name, tr.elem, tr.elemN})
				}
			} else {
				c07Init(fv, path+"."+f.Name, tr, r)
			}
		}
	}
}

func c07Snap(v reflect.Value) string {
	var b strings.Builder
	c07SnapTo(v, &b)
	return b.String()
}

func c07SnapTo(v reflect.Value, b *strings.Builder) {
	switch v.Kind() {
	case reflect.Bool:
		fmt.Fprintf(b, "%v", v.Bool())
	case reflect.Int8, reflect.Int16, reflect.Int32, reflect.Int64, reflect.Int:
		fmt.Fprintf(b, "%d", v.Int())
	case reflect.Uint8, reflect.Uint16, reflect.Uint32, reflect.Uint64, reflect.Uint:
		fmt.Fprintf(b, "%d", v.Uint())
	case reflect.Float32, reflect.Float64:
		fmt.Fprintf(b, "%v", v.Float())
	case reflect.String:
		fmt.Fprintf(b, "%q", v.String())
	case reflect.Interface:
		if v.IsNil() {
			b.WriteString("inil")
		} else {
			fmt.Fprintf(b, "i<%s>", v.Elem().Type())
			c07SnapTo(v.Elem(), b)
		}
	case reflect.Array:
		b.WriteString("[")
		for i := 0; i < v.Len(); i++ {
			c07SnapTo(v.Index(i), b)
			b.WriteString(" ")
		}
		b.WriteString("]")
	case reflect.Slice:
		if v.IsNil() {
			b.WriteString("snil")
			return
		}
		fmt.Fprintf(b, "s%d[", v.Len())
		for i := 0; i < v.Len(); i++ {
			c07SnapTo(v.Index(i), b)
			b.WriteString(" ")
		}
		b.WriteString("]")
	case reflect.Ptr:
		if v.IsNil() {
			b.WriteString("pnil")
		} else {
			b.WriteString("&")
			c07SnapTo(v.Elem(), b)
		}
	case reflect.Map:
		if v.IsNil() {
			b.WriteString("mnil")
			return
		}
		keys := v.MapKeys()
		sort.Slice(keys, func(i, j int) bool { return keys[i].String() < keys[j].String() })
		b.WriteString("m{")
		for _, k := range keys {
			fmt.Fprintf(b, "%q:", k.String())
			c07SnapTo(v.MapIndex(k), b)
			b.WriteString(" ")
		}
		b.WriteString("}")
	case reflect.Struct:
		b.WriteString("{")
		for i := 0; i < v.NumField(); i++ {
			b.WriteString(v.Type().Field(i).Name + ":")
			c07SnapTo(v.Field(i), b)
			b.WriteString(" ")
		}
		b.WriteString("}")
	}
}

// c07Walk checks headers and touches every byte reachable; returns a description of the first problem.
var c07Sink uint64

func c07Walk(v reflect.Value, path string, depth int) string {
	if depth > 200 {
		return ""
	}
	switch v.Kind() {
	case reflect.String:
		s := v.String()
		n := len(s)
		d := (*[2]unsafe.Pointer)(unsafe.Pointer(&s))[0]
		if n < 0 || n > 1<<28 {
			return fmt.Sprintf("%s: string header with length %d", path, n)
		}
		if n > 0 && d == nil {
			return fmt.Sprintf("%s: string header with nil base and length %d", path, n)
		}
		for i := 0; i < n; i++ {
			c07Sink += uint64(s[i])
		}
	case reflect.Slice:
		n, c := v.Len(), v.Cap()
		if n < 0 || c < n || c > 1<<28 {
			return fmt.Sprintf("%s: slice header len=%d cap=%d", path, n, c)
		}
		if c > 0 && v.Pointer() == 0 {
			return fmt.Sprintf("%s: slice header with nil base, len=%d cap=%d", path, n, c)
		}
		for i := 0; i < n; i++ {
			if e := c07Walk(v.Index(i), path+"["+strconv.Itoa(i)+"]", depth+1); e != "" {
				return e
			}
		}
	case reflect.Array:
		for i := 0; i < v.Len(); i++ {
			if e := c07Walk(v.Index(i), path+"["+strconv.Itoa(i)+"]", depth+1); e != "" {
				return e
			}
		}
	case reflect.Interface, reflect.Ptr:
		if !v.IsNil() {
			return c07Walk(v.Elem(), path+".*", depth+1)
		}
	case reflect.Map:
		if v.IsNil() {
			return ""
		}
		it := v.MapRange()
		for it.Next() {
			if e := c07Walk(it.Key(), path+"<key>", depth+1); e != "" {
				return e
			}
			if e := c07Walk(it.Value(), path+"["+it.Key().String()+"]", depth+1); e != "" {
				return e
			}
		}
	case reflect.Struct:
		for i := 0; i < v.NumField(); i++ {
			if e := c07Walk(v.Field(i), path+"."+v.Type().Field(i).Name, depth+1); e != "" {
				return e
			}
		}
	case reflect.Bool:
		if v.Bool() {
			c07Sink++
		}
	case reflect.Int8, reflect.Int16, reflect.Int32, reflect.Int64, reflect.Int:
		c07Sink += uint64(v.Int())
	case reflect.Uint8, reflect.Uint16, reflect.Uint32, reflect.Uint64, reflect.Uint:
		c07Sink += v.Uint()
	}
	return ""
}

func c07SafeWalk(v reflect.Value) (res string) {
	defer func() {
		if r := recover(); r != nil {
			res = fmt.Sprintf("traversal faulted: %v", r)
		}
	}()
	return c07Walk(v, "root", 0)
}

// leaves of the inline part: path -> value
func c07Leaves2(v reflect.Value, path string, f func(path string, v reflect.Value)) {
	if v.Kind() == reflect.Struct {
		for i := 0; i < v.NumField(); i++ {
			sf := v.Type().Field(i)
			if c07IsCanary(sf) {
				continue
			}
			c07Leaves2(v.Field(i), path+"."+sf.Name, f)
		}
		return
	}
	f(path, v)
}

// ---------- documents ----------

var c07Strings = []string{`"s"`, `""`, `"aé\n\"q\""`, `"😀 tail"`, `"plain text of some length, no escapes"`, `"\\\/\b\f\r\t"`, `"é€😀"`}

func c07Scalar(r *rand.Rand, t reflect.Type, bad bool) string {
	if bad {
		return []string{`"str"`, `true`, `12`, `{}`, `[]`, `1e400`, `-`, `nul`, `99999999999999999999999`}[r.Intn(9)]
	}
	switch t.Kind() {
	case reflect.Bool:
		return []string{"true", "false"}[r.Intn(2)]
	case reflect.Int8, reflect.Int16, reflect.Int32, reflect.Int64, reflect.Int:
		bits := uint(t.Size()) * 8
		switch r.Intn(6) {
		case 0:
			return strconv.FormatInt(-1<<(bits-1), 10)
		case 1:
			return strconv.FormatInt(1<<(bits-1)-1, 10)
		case 2:
			return strconv.FormatUint(1<<(bits-1), 10) // out of range
		case 3:
			return "-1"
		}
		return strconv.Itoa(r.Intn(100))
	case reflect.Uint8, reflect.Uint16, reflect.Uint32, reflect.Uint64, reflect.Uint:
		bits := uint(t.Size()) * 8
		switch r.Intn(6) {
		case 0:
			return strconv.FormatUint(1<<bits-1, 10)
		case 1:
			if bits < 64 {
				return strconv.FormatUint(1<<bits, 10) // out of range
			}
			return "18446744073709551616"
		case 2:
			return "1"
		}
		return strconv.Itoa(r.Intn(100))
	case reflect.Float32, reflect.Float64:
		return []string{"1.5", "-0", "1e3", "0.25", "123456789"}[r.Intn(5)]
	case reflect.String:
		return c07Strings[r.Intn(len(c07Strings))]
	}
	return "null"
}

// c07Value writes a JSON value for type t; addressed paths are recorded by the struct case.
func c07Value(r *rand.Rand, t reflect.Type, path string, addr map[string]bool, b *strings.Builder, badRate, depth int) {
	if r.Intn(100) < badRate {
		b.WriteString(c07Scalar(r, t, true))
		addr[path] = true
		return
	}
	if depth > 6 {
		b.WriteString("null")
		addr[path] = true
		return
	}
	switch t.Kind() {
	case reflect.Interface:
		addr[path] = true
		b.WriteString([]string{`null`, `1`, `"x\n"`, `[1,"a",{"k":null}]`, `{"a":[true],"b":{"c":1.5}}`, `true`}[r.Intn(6)])
	case reflect.Array:
		addr[path] = true
		if r.Intn(12) == 0 {
			b.WriteString("null")
			return
		}
		n := t.Len()
		m := []int{0, 1, n - 1, n, n, n + 1, n + 3}[r.Intn(7)]
		if m < 0 {
			m = 0
		}
		b.WriteString("[")
		for i := 0; i < m; i++ {
			if i > 0 {
				b.WriteString(",")
			}
			c07Value(r, t.Elem(), path, addr, b, badRate/2, depth+1)
		}
		b.WriteString("]")
	case reflect.Slice:
		addr[path] = true
		if r.Intn(8) == 0 {
			b.WriteString("null")
			return
		}
		if t.Elem().Kind() == reflect.Uint8 {
			b.WriteString([]string{`""`, `"AQID"`, `"QUJDREVGRw=="`}[r.Intn(3)])
			return
		}
		m := []int{0, 1, 2, 3, 5, 7, 9, 12}[r.Intn(8)]
		if depth > 2 && m > 5 {
			m = 5
		}
		b.WriteString("[")
		for i := 0; i < m; i++ {
			if i > 0 {
				b.WriteString(", ")
			}
			c07Value(r, t.Elem(), path, addr, b, badRate/2, depth+1)
		}
		b.WriteString("]")
	case reflect.Ptr:
		addr[path] = true
		if r.Intn(5) == 0 {
			b.WriteString("null")
			return
		}
		c07Value(r, t.Elem(), path+".*", addr, b, badRate, depth+1)
	case reflect.Map:
		addr[path] = true
		switch r.Intn(5) {
		case 0:
			b.WriteString("null")
		case 1:
			b.WriteString("{}")
		default:
			b.WriteString("{")
			ks := []string{"k0", "k1", "a\\u0062"}
			m := 1 + r.Intn(3)
			for i := 0; i < m; i++ {
				if i > 0 {
					b.WriteString(",")
				}
				b.WriteString(`"` + ks[i] + `":`)
				c07Value(r, t.Elem(), path, addr, b, badRate/2, depth+1)
			}
			b.WriteString("}")
		}
	case reflect.Struct:
		if r.Intn(15) == 0 {
			b.WriteString("null")
			addr[path] = true
			return
		}
		b.WriteString("{")
		first := true
		emit := func(name string, ft reflect.Type, fpath string, quoted bool) {
			if !first {
				b.WriteString(",")
			}
			first = false
			b.WriteString(`"` + name + `":`)
			if r.Intn(3) == 0 {
				b.WriteString(" ")
			}
			if quoted {
				addr[fpath] = true
				if r.Intn(5) == 0 {
					b.WriteString("null") // leaves the field as it is: nothing is stored, whatever the width of the field
					return
				}
				b.WriteString(`"` + c07Scalar(r, ft, r.Intn(100) < badRate) + `"`)
				return
			}
			c07Value(r, ft, fpath, addr, b, badRate, depth+1)
		}
		for i := 0; i < t.NumField(); i++ {
			f := t.Field(i)
			if c07IsCanary(f) {
				continue
			}
			if f.Anonymous {
				et := f.Type
				fpath := path + "." + f.Name
				if et.Kind() == reflect.Ptr {
					et = et.Elem()
				}
				for j := 0; j < et.NumField(); j++ {
					ef := et.Field(j)
					if c07IsCanary(ef) || r.Intn(2) == 0 {
						continue
					}
					if f.Type.Kind() == reflect.Ptr {
						addr[fpath] = true
						emit(ef.Name, ef.Type, fpath, false)
					} else {
						emit(ef.Name, ef.Type, fpath+"."+ef.Name, false)
					}
				}
				continue
			}
			if r.Intn(5) < 2 {
				continue
			}
			quoted := strings.Contains(f.Tag.Get("json"), ",string")
			emit(f.Name, f.Type, path+"."+f.Name, quoted)
			if r.Intn(25) == 0 { // duplicate key, last wins
				emit(f.Name, f.Type, path+"."+f.Name, quoted)
			}
		}
		if r.Intn(6) == 0 {
			if !first {
				b.WriteString(",")
			}
			b.WriteString(`"unknownKey":{"x":[1,2,{"y":"z\n"}]}`)
		}
		b.WriteString("}")
	default:
		addr[path] = true
		b.WriteString(c07Scalar(r, t, false))
	}
}

type c07Case struct {
	typ     reflect.Type
	seed    int64
	field   int // -1: destination is the whole object; >=0: destination is that field of the root
	doc     []byte
	addr    map[string]bool
	mode    int // 0 buffer, k>0 stream with pieces of k bytes
	checkUn bool
}

func c07Describe(c *c07Case) map[string]string {
	return map[string]string{"type": c.typ.String(), "init_seed": strconv.FormatInt(c.seed, 10), "dest_field": strconv.Itoa(c.field),
		"doc": string(c.doc), "doc_hex": hx(c.doc), "mode": strconv.Itoa(c.mode)}
}

func c07Decode(c *c07Case, dst interface{}, in []byte, std bool) error {
	if std {
		if c.mode == 0 {
			return stdjson.Unmarshal(in, dst)
		}
		return stdjson.NewDecoder(&pieceReader{b: in, size: c.mode, failAt: -1}).Decode(dst)
	}
	if c.mode == 0 {
		return gojson.Unmarshal(in, dst)
	}
	return gojson.NewDecoder(&pieceReader{b: in, size: c.mode, failAt: -1}).Decode(dst)
}

// c07RunCase runs one case; returns "" or the description of a violation.
func c07RunCase(o *Out, c *c07Case, gc bool) string {
	root := reflect.New(c.typ)
	tr := &c07Track{}
	c07Init(root.Elem(), "root", tr, rand.New(rand.NewSource(c.seed)))
	leaves := map[string]string{}
	c07Leaves2(root.Elem(), "root", func(p string, v reflect.Value) { leaves[p] = c07Snap(v) })
	dst := root.Interface()
	if c.field >= 0 {
		dst = root.Elem().Field(c.field).Addr().Interface()
	}
	in := append([]byte(nil), c.doc...)
	err := c07Decode(c, dst, in, false)
	if !bytes.Equal(in, c.doc) {
		return "input bytes modified by decoding"
	}
	for ci, cn := range tr.canaries {
		bs := unsafe.Slice((*byte)(cn.p), cn.n)
		for i, x := range bs {
			if x != 0xA5 {
				if cn.elem != nil && c07AllZero(unsafe.Slice((*byte)(cn.elem), cn.elemN)) {
					o.count("canary_in_zeroed_array_element", 1)
					break
				}
				// an element zeroed by a short JSON array and filled again by a later duplicate of the
				// key: the canary is zero as a whole, and encoding/json leaves it zero too
				if cn.elem != nil && c07AllZero(bs) && c07TwinCanaryZero(c, ci) {
					o.count("canary_in_rezeroed_array_element", 1)
					break
				}
				// the same in a text that is not JSON further on: encoding/json refuses such a text before it stores
				// anything, so its twin cannot tell; the zeroed element is the destination's own (found at seed 1001)
				if cn.elem != nil && c07AllZero(bs) && !stdjson.Valid(c.doc) {
					o.count("canary_in_rezeroed_array_element_of_invalid_text", 1)
					break
				}
				return fmt.Sprintf("canary %s byte %d of %d changed to %#x", cn.desc, i, cn.n, x)
			}
		}
	}
	for _, g := range tr.guards {
		if s := c07Snap(g.v); s != g.snap {
			return fmt.Sprintf("guard %s changed: %s -> %s", g.desc, clip(g.snap), clip(s))
		}
	}
	if w := c07SafeWalk(root.Elem()); w != "" {
		return "malformed destination: " + w
	}
	if c.checkUn {
		bad := ""
		c07Leaves2(root.Elem(), "root", func(p string, v reflect.Value) {
			if bad != "" {
				return
			}
			for q := range c.addr {
				if p == q || strings.HasPrefix(p, q+".") || strings.HasPrefix(q, p+".") {
					return
				}
			}
			if s := c07Snap(v); s != leaves[p] {
				bad = fmt.Sprintf("unaddressed field %s changed: %s -> %s", p, clip(leaves[p]), clip(s))
			}
		})
		if bad != "" {
			return bad
		}
	}
	before := c07Snap(root.Elem())
	for i := range in {
		in[i] = 'X'
	}
	if gc {
		runtime.GC()
		o.count("forced_gc", 1)
	}
	if w := c07SafeWalk(root.Elem()); w != "" {
		return "malformed destination after GC: " + w
	}
	if after := c07Snap(root.Elem()); after != before {
		return "destination changed after the input buffer was overwritten / GC ran (aliases caller memory)"
	}
	// twin with encoding/json, statistics only
	if err == nil {
		o.count("decode_ok", 1)
		twin := reflect.New(c.typ)
		c07Init(twin.Elem(), "root", nil, rand.New(rand.NewSource(c.seed)))
		tdst := twin.Interface()
		if c.field >= 0 {
			tdst = twin.Elem().Field(c.field).Addr().Interface()
		}
		if serr := c07Decode(c, tdst, append([]byte(nil), c.doc...), true); serr == nil {
			if c07Snap(twin.Elem()) == before {
				o.count("twin_equal", 1)
			} else {
				o.count("twin_differs", 1)
				if o.Stats["twin_differs"] <= 5 {
					tw := c07Snap(twin.Elem())
					k := 0
					for k < len(tw) && k < len(before) && tw[k] == before[k] {
						k++
					}
					a := k - 40
					if a < 0 {
						a = 0
					}
					o.Notes = append(o.Notes, fmt.Sprintf("twin differs (statistics only): doc=%s mode=%d go-json=...%s std=...%s", clip(string(c.doc)), c.mode, clip(before[a:]), clip(tw[a:])))
				}
			}
		} else {
			o.count("twin_std_rejects", 1)
		}
	} else {
		o.count("decode_err", 1)
	}
	return ""
}

// c07TwinCanaryZero decodes the case with encoding/json into an identically initialised
// twin and reports whether canary number ci is all zero there as well.
func c07TwinCanaryZero(c *c07Case, ci int) (zero bool) {
	defer func() {
		if recover() != nil {
			zero = false
		}
	}()
	twin := reflect.New(c.typ)
	tt := &c07Track{}
	c07Init(twin.Elem(), "root", tt, rand.New(rand.NewSource(c.seed)))
	tdst := twin.Interface()
	if c.field >= 0 {
		tdst = twin.Elem().Field(c.field).Addr().Interface()
	}
	c07Decode(c, tdst, append([]byte(nil), c.doc...), true)
	if ci >= len(tt.canaries) {
		return false
	}
	cn := tt.canaries[ci]
	return c07AllZero(unsafe.Slice((*byte)(cn.p), cn.n))
}

func c07AllZero(b []byte) bool {
	for _, x := range b {
		if x != 0 {
			return false
		}
	}
	return true
}

func clip(s string) string {
	if len(s) > 160 {
		return s[:160] + "..."
	}
	return s
}

// ---------- array write-set cases (model correspondence) ----------

func c07ArrayCases(o *Out) {
	scal := map[int]reflect.Type{2: reflect.TypeOf(uint16(0)), 4: reflect.TypeOf(uint32(0)), 8: reflect.TypeOf(uint64(0))}
	for sz := 1; sz <= 64; sz++ {
		for _, n := range []int{1, 2, 3, 5} {
			for _, m := range []int{0, 1, n - 1, n, n + 2} {
				if m < 0 {
					continue
				}
				for variant := 0; variant < 2; variant++ {
					var et reflect.Type
					var ev string
					if variant == 0 {
						et = c07ByteElem(sz)
						ev = "[" + strings.TrimSuffix(strings.Repeat("1,", sz), ",") + "]"
					} else {
						t, ok := scal[sz]
						if !ok {
							continue
						}
						et = t
						ev = map[int]string{2: "257", 4: "16843009", 8: "72340172838076673"}[sz]
					}
					pre := 7
					if variant == 1 {
						pre = 8
					}
					st := reflect.StructOf([]reflect.StructField{
						{Name: "C00", Type: c07ByteElem(pre), Tag: `json:"-"`},
						{Name: "F00", Type: reflect.ArrayOf(n, et)},
						{Name: "C01", Type: c07ByteElem(24), Tag: `json:"-"`},
					})
					root := reflect.New(st)
					size := int(st.Size())
					mem := unsafe.Slice((*byte)(root.UnsafePointer()), size)
					for i := range mem {
						mem[i] = 0x5A
					}
					beforeB := append([]byte(nil), mem...)
					doc := `{"F00":[` + strings.TrimSuffix(strings.Repeat(ev+",", m), ",") + `]}`
					for mode := 0; mode < 2; mode++ {
						copy(mem, beforeB)
						var err error
						if mode == 0 {
							err = gojson.Unmarshal([]byte(doc), root.Interface())
						} else {
							err = gojson.NewDecoder(&pieceReader{b: []byte(doc), size: 5, failAt: -1}).Decode(root.Interface())
						}
						lo, hi := -1, -1
						for i := range mem {
							if mem[i] != beforeB[i] {
								if lo < 0 {
									lo = i
								}
								hi = i + 1
							}
						}
						res := "none"
						if lo >= 0 {
							res = fmt.Sprintf("%d %d", lo, hi)
						}
						if err != nil {
							res = "error " + res
						}
						base := int(st.Field(1).Offset)
						o.emit("A", "c07.array", [][]byte{[]byte(strconv.Itoa(base)), []byte(strconv.Itoa(sz)), []byte(strconv.Itoa(n)),
							[]byte(strconv.Itoa(m)), []byte(fmt.Sprintf("v%dm%d", variant, mode))}, []byte(res), nil, false)
						o.hist("array_elem_size", strconv.Itoa(sz))
						o.count("array_write_set_cases", 1)
					}
				}
			}
		}
	}
}

// ---------- case generation ----------

func c07Generate(o *Out, f func(c *c07Case)) {
	r := o.rng
	ntypes := 260
	if o.tier == "thorough" {
		ntypes = 2500
	}
	// element-size sweep: arrays and slices of k-byte elements between canaries
	var types []reflect.Type
	for k := 1; k <= 64; k++ {
		e1 := c07ByteElem(k)
		var e2 reflect.Type = e1
		if k >= 2 {
			e2 = reflect.StructOf([]reflect.StructField{{Name: "A", Type: reflect.TypeOf(uint8(0))}, {Name: "B", Type: c07ByteElem(k - 1)}})
		}
		for _, e := range []reflect.Type{e1, e2} {
			types = append(types, reflect.StructOf([]reflect.StructField{
				c07Canary(0, r), {Name: "F00", Type: reflect.ArrayOf(3, e)}, c07Canary(1, r),
				{Name: "F01", Type: reflect.SliceOf(e)}, c07Canary(2, r), {Name: "F02", Type: reflect.ArrayOf(1, e)}, c07Canary(3, r)}))
		}
	}
	for _, l := range c07Leaves {
		for _, mk := range []func(reflect.Type) reflect.Type{
			func(t reflect.Type) reflect.Type { return t },
			func(t reflect.Type) reflect.Type { return reflect.ArrayOf(3, t) },
			func(t reflect.Type) reflect.Type { return reflect.SliceOf(t) },
			func(t reflect.Type) reflect.Type { return reflect.PtrTo(t) },
			func(t reflect.Type) reflect.Type { return reflect.MapOf(reflect.TypeOf(""), t) },
		} {
			types = append(types, reflect.StructOf([]reflect.StructField{
				c07Canary(0, r), {Name: "F00", Type: mk(l)}, c07Canary(1, r), {Name: "F01", Type: mk(l)}, c07Canary(2, r)}))
		}
	}
	for i := 0; i < ntypes; i++ {
		types = append(types, c07Struct(r, 3, 1+r.Intn(5)))
	}
	o.count("destination_types", int64(len(types)))
	docsPer := 6
	if o.tier == "thorough" {
		docsPer = 14
	}
	for _, t := range types {
		for d := 0; d < docsPer; d++ {
			c := &c07Case{typ: t, seed: r.Int63(), field: -1, addr: map[string]bool{}, checkUn: true}
			var b strings.Builder
			badRate := []int{0, 0, 4, 12}[r.Intn(4)]
			if r.Intn(5) == 0 {
				// destination is one field of the root
				var idx []int
				for i := 0; i < t.NumField(); i++ {
					if !c07IsCanary(t.Field(i)) {
						idx = append(idx, i)
					}
				}
				c.field = idx[r.Intn(len(idx))]
				ft := t.Field(c.field)
				c.addr["root."+ft.Name] = true
				c07Value(r, ft.Type, "root."+ft.Name, c.addr, &b, badRate, 0)
			} else {
				c07Value(r, t, "root", c.addr, &b, badRate, 0)
			}
			c.doc = []byte(b.String())
			c.mode = []int{0, 0, 1, 3, 64}[r.Intn(5)]
			f(c)
			// truncation keeps the addressed set an upper bound
			if len(c.doc) > 2 && r.Intn(2) == 0 {
				c2 := *c
				c2.doc = c.doc[:1+r.Intn(len(c.doc)-1)]
				c2.mode = []int{0, 1, 7}[r.Intn(3)]
				f(&c2)
			}
			// byte mutation: only canaries, headers, aliasing
			if len(c.doc) > 2 && r.Intn(3) == 0 {
				c3 := *c
				c3.doc = append([]byte(nil), c.doc...)
				c3.doc[r.Intn(len(c3.doc))] = []byte(`"\{}[],:0a u`)[r.Intn(12)]
				c3.checkUn = false
				c3.mode = []int{0, 2}[r.Intn(2)]
				f(&c3)
			}
		}
	}
}

func runC07(o *Out) {
	debug.SetPanicOnFault(true)
	c07ArrayCases(o)
	slicePoolProbe(o, "C07")
	c07LayoutCases(o)
	n := 0
	c07Generate(o, func(c *c07Case) {
		n++
		gc := o.tier == "thorough" || n%4 == 0
		o.count("documents", 1)
		o.hist("mode", strconv.Itoa(c.mode))
		if c.field >= 0 {
			o.count("dest_is_inner_field", 1)
		}
		var res string
		if n%8 == 0 || o.tier == "thorough" {
			o.current(c07Describe(c))
		}
		func() {
			defer func() {
				if r := recover(); r != nil {
					res = fmt.Sprintf("decoder panicked: %v", r)
				}
			}()
			res = c07RunCase(o, c, gc)
		}()
		if res != "" {
			d := c07Describe(c)
			d["detail"] = res
			o.violation("C07", res, d)
		}
	})
	// the same cases in a child built with pointer-arithmetic checking
	if bin := os.Getenv("VERIF_CHECKPTR_BIN"); bin != "" {
		cmd := exec.Command(bin, "C07child", o.tier, strconv.FormatInt(o.seed, 10), o.dir+"/child")
		var eb bytes.Buffer
		cmd.Stderr = &eb
		cmd.Stdout = &eb
		err := cmd.Run()
		o.count("checkptr_child_runs", 1)
		if err != nil {
			tail := eb.String()
			if len(tail) > 1500 {
				tail = tail[:1500]
			}
			o.violation("C07", "checkptr child process failed", map[string]string{"detail": err.Error(), "stderr": tail})
		}
	} else {
		o.Notes = append(o.Notes, "VERIF_CHECKPTR_BIN not set: checkptr child not run")
	}
}

// child: decode only (the parent has done the comparisons); checkptr aborts the process on a bad conversion
func runC07Child(o *Out) {
	n := 0
	c07Generate(o, func(c *c07Case) {
		n++
		root := reflect.New(c.typ)
		c07Init(root.Elem(), "root", nil, rand.New(rand.NewSource(c.seed)))
		dst := root.Interface()
		if c.field >= 0 {
			dst = root.Elem().Field(c.field).Addr().Interface()
		}
		func() {
			defer func() { recover() }()
			c07Decode(c, dst, append([]byte(nil), c.doc...), false)
		}()
		if n%16 == 0 {
			runtime.GC()
		}
		c07Walk(root.Elem(), "root", 0)
	})
	o.count("child_documents", int64(n))
}
