package main

// C08: cycle detection against the Coq model (coq/Model/Cycle.v, op c08.cycle).  Graphs of one recursive node type
// (pointer, slice-of-pointers and interface edges): long straight parts above and below the detection
// threshold, shared sub-values (DAGs), back edges.  Observed: error or text; oracle: encoding/json.

import (
	"bytes"
	"context"
	stdjson "encoding/json"
	"fmt"
	"strings"

	gojson "github.com/goccy/go-json"
)

type C08G struct {
	ID   int         `json:"id"`
	Next *C08G       `json:"next,omitempty"`
	Kids []*C08G     `json:"kids,omitempty"`
	I    interface{} `json:"i,omitempty"`
	// audit A8: the other ways an edge can be held
	M  map[string]*C08G `json:"m,omitempty"`
	PI *interface{}     `json:"pi,omitempty"`
	S  C08Shape         `json:"s,omitempty"`
}

func (*C08G) Sides() int { return 2 }

// edge kinds of the first successor of a node (the further successors are elements of Kids)
const (
	c08EdgePtr      = iota // Next
	c08EdgeIface           // interface{}
	c08EdgeMap             // map[string]*C08G
	c08EdgePtrIface        // *interface{}
	c08EdgeNonEmpty        // an interface type with methods
	c08EdgeKinds
)

var c08EdgeNames = []string{"pointer", "interface{}", "map", "*interface{}", "non-empty interface"}

func c08BuildGraph(adj [][]int, via []int) []*C08G {
	nodes := make([]*C08G, len(adj))
	for i := range nodes {
		nodes[i] = &C08G{ID: i}
	}
	for i, ss := range adj {
		for k, s := range ss {
			switch {
			case k > 0:
				nodes[i].Kids = append(nodes[i].Kids, nodes[s])
			case via[i] == c08EdgeIface:
				nodes[i].I = nodes[s]
			case via[i] == c08EdgeMap:
				nodes[i].M = map[string]*C08G{"e": nodes[s]}
			case via[i] == c08EdgePtrIface:
				var h interface{} = nodes[s]
				nodes[i].PI = &h
			case via[i] == c08EdgeNonEmpty:
				nodes[i].S = nodes[s]
			default:
				nodes[i].Next = nodes[s]
			}
		}
	}
	return nodes
}

// the entry points the graphs are encoded through, in rotation (the oracle is always encoding/json's Marshal: only
// error or no error is compared, and the text where the entry point is Marshal itself)
var c08CycleEntries = []struct {
	name string
	f    func(v interface{}) ([]byte, error)
}{
	{"Marshal", func(v interface{}) ([]byte, error) { return gojson.Marshal(v) }},
	{"MarshalIndent", func(v interface{}) ([]byte, error) { return gojson.MarshalIndent(v, "", "") }},
	{"MarshalNoEscape", func(v interface{}) ([]byte, error) { return gojson.MarshalNoEscape(v) }},
	{"Marshal", func(v interface{}) ([]byte, error) { return gojson.Marshal(v) }},
	{"Encoder", func(v interface{}) ([]byte, error) {
		var b bytes.Buffer
		err := gojson.NewEncoder(&b).Encode(v)
		return b.Bytes(), err
	}},
	{"colour", func(v interface{}) ([]byte, error) { return gojson.MarshalWithOption(v, gojson.Colorize(c13Scheme())) }},
	{"MarshalContext", func(v interface{}) ([]byte, error) { return gojson.MarshalContext(context.Background(), v) }},
	{"unordered map", func(v interface{}) ([]byte, error) { return gojson.MarshalWithOption(v, gojson.UnorderedMap()) }},
	{"colour+indent", func(v interface{}) ([]byte, error) {
		return gojson.MarshalIndentWithOption(v, "", "", gojson.Colorize(c13Scheme()))
	}},
}

func c08CycleCases(o *Out) {
	r := o.rng
	n := 60
	if o.tier == "thorough" {
		n = 600
	}
	for c := 0; c < n; c++ {
		chain := []int{0, 3, 998, 1003, 1100}[r.Intn(5)]
		tail := 1 + r.Intn(6)
		total := chain + tail
		adj := make([][]int, total)
		via := make([]int, total)
		edge := func(p int) int { // 1 in p: not a plain pointer, any of the other kinds
			if r.Intn(p) != 0 {
				return c08EdgePtr
			}
			k := 1 + r.Intn(c08EdgeKinds-1)
			o.hist("cycle_graph_edge_kinds", c08EdgeNames[k])
			return k
		}
		for i := 0; i < chain; i++ {
			adj[i] = []int{i + 1}
			via[i] = edge(7)
		}
		kind := r.Intn(3) // 0: tree/DAG tail, 1: DAG with sharing, 2: a back edge somewhere
		for i := chain; i < total; i++ {
			via[i] = edge(3)
			k := r.Intn(3)
			for j := 0; j < k && i+1 < total; j++ {
				t := i + 1 + r.Intn(total-i-1)
				if kind == 0 && j > 0 {
					continue
				}
				adj[i] = append(adj[i], t)
			}
		}
		if kind == 2 {
			from := chain + r.Intn(tail)
			to := r.Intn(from + 1)
			if chain > 0 && r.Intn(2) == 0 {
				to = r.Intn(chain)
			}
			adj[from] = append(adj[from], to)
		}
		nodes := c08BuildGraph(adj, via)
		var sb strings.Builder
		for i, ss := range adj {
			if i > 0 {
				sb.WriteByte(';')
			}
			for k, s := range ss {
				if k > 0 {
					sb.WriteByte(',')
				}
				fmt.Fprint(&sb, s)
			}
		}
		entry := c08CycleEntries[c%len(c08CycleEntries)]
		o.hist("cycle_graph_entry_point", entry.name)
		o.current(map[string]string{"property": "C08", "what": "cycle graph", "chain": fmt.Sprint(chain), "tail": fmt.Sprint(tail), "kind": fmt.Sprint(kind), "entry_point": entry.name, "graph": clip(sb.String())})
		obs := func(lib string) string {
			var err error
			var b []byte
			if perr := safeCall(func() error {
				if lib == "go" {
					b, err = entry.f(nodes[0])
				} else {
					b, err = stdjson.Marshal(nodes[0])
				}
				return nil
			}); perr != nil {
				return "panic"
			}
			if err != nil {
				return "cycle"
			}
			_ = b
			return "ok"
		}
		got, want := obs("go"), obs("std")
		o.count("cycle_graph_cases", 1)
		o.hist("cycle_graph", fmt.Sprintf("chain=%d kind=%d %s", chain, kind, want))
		o.emit("A", "c08.cycle", [][]byte{[]byte(sb.String()), []byte("0")}, []byte(got), []byte(want), true)
		if got == "ok" && want == "ok" && entry.name == "Marshal" {
			// the same text, too
			g, _ := gojson.Marshal(nodes[0])
			w, _ := stdjson.Marshal(nodes[0])
			if string(g) != string(w) {
				o.violation("C08", "a deep shared acyclic value is encoded differently from encoding/json", map[string]string{"graph": clip(sb.String()), "edge_kinds": fmt.Sprint(via[chain:]),
					"first_difference": fmt.Sprint(firstDiff(g, w)), "got_at_difference": around(g, firstDiff(g, w)), "want_at_difference": around(w, firstDiff(g, w))})
			}
		}
	}
}
