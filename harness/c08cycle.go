package main

// C08: cycle detection against the Coq model (coq/Model/Cycle.v, op c08.cycle).  Graphs of one recursive node type
// (pointer, slice-of-pointers and interface edges): long straight parts above and below the detection
// threshold, shared sub-values (DAGs), back edges.  Observed: error or text; oracle: encoding/json.

import (
	stdjson "encoding/json"
	"fmt"
	"strings"

	gojson "github.com/goccy/go-json"
)

type C08G struct {
	ID   int         `json:"id"`
	Next *C08G       `json:"next,omitempty"`
	Kids []*C08G     `json:"kids,omitempty"`
	I    interface{} `json:"i,omitempty"`
}

func c08BuildGraph(adj [][]int, viaIface []bool) []*C08G {
	nodes := make([]*C08G, len(adj))
	for i := range nodes {
		nodes[i] = &C08G{ID: i}
	}
	for i, ss := range adj {
		for k, s := range ss {
			switch {
			case k == 0 && !viaIface[i]:
				nodes[i].Next = nodes[s]
			case k == 0:
				nodes[i].I = nodes[s]
			default:
				nodes[i].Kids = append(nodes[i].Kids, nodes[s])
			}
		}
	}
	return nodes
}

func c08CycleCases(o *Out) {
	r := o.rng
	n := 60
	if o.tier == "thorough" {
		n = 600
	}
	for c := 0; c < n; c++ {
		chain := []int{0, 3, 998, 1003, 1100}[r.Intn(5)]
		tail := 1 + r.Intn(6)
		total := chain + tail
		adj := make([][]int, total)
		via := make([]bool, total)
		for i := 0; i < chain; i++ {
			adj[i] = []int{i + 1}
			via[i] = r.Intn(7) == 0
		}
		kind := r.Intn(3) // 0: tree/DAG tail, 1: DAG with sharing, 2: a back edge somewhere
		for i := chain; i < total; i++ {
			via[i] = r.Intn(3) == 0
			k := r.Intn(3)
			for j := 0; j < k && i+1 < total; j++ {
				t := i + 1 + r.Intn(total-i-1)
				if kind == 0 && j > 0 {
					continue
				}
				adj[i] = append(adj[i], t)
			}
		}
		if kind == 2 {
			from := chain + r.Intn(tail)
			to := r.Intn(from + 1)
			if chain > 0 && r.Intn(2) == 0 {
				to = r.Intn(chain)
			}
			adj[from] = append(adj[from], to)
		}
		nodes := c08BuildGraph(adj, via)
		var sb strings.Builder
		for i, ss := range adj {
			if i > 0 {
				sb.WriteByte(';')
			}
			for k, s := range ss {
				if k > 0 {
					sb.WriteByte(',')
				}
				fmt.Fprint(&sb, s)
			}
		}
		o.current(map[string]string{"property": "C08", "what": "cycle graph", "chain": fmt.Sprint(chain), "tail": fmt.Sprint(tail), "kind": fmt.Sprint(kind)})
		obs := func(lib string) string {
			var err error
			var b []byte
			if perr := safeCall(func() error {
				if lib == "go" {
					b, err = gojson.Marshal(nodes[0])
				} else {
					b, err = stdjson.Marshal(nodes[0])
				}
				return nil
			}); perr != nil {
				return "panic"
			}
			if err != nil {
				return "cycle"
			}
			_ = b
			return "ok"
		}
		got, want := obs("go"), obs("std")
		o.count("cycle_graph_cases", 1)
		o.hist("cycle_graph", fmt.Sprintf("chain=%d kind=%d %s", chain, kind, want))
		o.emit("A", "c08.cycle", [][]byte{[]byte(sb.String()), []byte("0")}, []byte(got), []byte(want), true)
		if got == "ok" && want == "ok" {
			// the same text, too
			g, _ := gojson.Marshal(nodes[0])
			w, _ := stdjson.Marshal(nodes[0])
			if string(g) != string(w) {
				o.violation("C08", "a deep shared acyclic value is encoded differently from encoding/json", map[string]string{"graph": clip(sb.String())})
			}
		}
	}
}
