package main

// frozen: the sweep cases that differ from encoding/json on the repaired tree, each assigned to an open finding of
// KNOWN_FINDINGS.txt.  Never extended at run time.
var c02SweepKnown = map[string]string{}
