module verifharness

go 1.19

require github.com/goccy/go-json v0.0.0

replace github.com/goccy/go-json => /repo
