package main

import (
	"bytes"
	stdjson "encoding/json"
	"fmt"
	"reflect"
	"sort"
	"strconv"
	"time"
	"unicode/utf8"

	gojson "github.com/goccy/go-json"
)

func init() { props["C17"] = runC17 }

func c17Marshal(html, norm bool, s string) ([]byte, error) {
	var opts []gojson.EncodeOptionFunc
	if !html {
		opts = append(opts, gojson.DisableHTMLEscape())
	}
	if !norm {
		opts = append(opts, gojson.DisableNormalizeUTF8())
	}
	return gojson.MarshalWithOption(s, opts...)
}

func stdMarshalString(html bool, s string) []byte {
	var b bytes.Buffer
	e := stdjson.NewEncoder(&b)
	e.SetEscapeHTML(html)
	e.Encode(s)
	out := bytes.TrimSuffix(b.Bytes(), []byte("\n"))
	// tolerated spellings of one token
	out = bytes.ReplaceAll(out, []byte(`\b`), []byte(`\u0008`))
	out = bytes.ReplaceAll(out, []byte(`\f`), []byte(`\u000c`))
	return out
}

// canonical form of the std output must not confuse an escaped backslash
// followed by 'b' with \b: do the replacement token-wise.
func stdCanon(html bool, s string) []byte {
	var b bytes.Buffer
	e := stdjson.NewEncoder(&b)
	e.SetEscapeHTML(html)
	e.Encode(s)
	in := bytes.TrimSuffix(b.Bytes(), []byte("\n"))
	var out []byte
	for i := 0; i < len(in); i++ {
		if in[i] == '\\' && i+1 < len(in) {
			switch in[i+1] {
			case 'b':
				out = append(out, `\u0008`...)
			case 'f':
				out = append(out, `\u000c`...)
			default:
				out = append(out, in[i], in[i+1])
			}
			i++
			continue
		}
		out = append(out, in[i])
	}
	return out
}

func sanitize(s string) string {
	var b []byte
	for i := 0; i < len(s); {
		r, size := utf8.DecodeRuneInString(s[i:])
		if r == utf8.RuneError && size == 1 {
			b = append(b, "\ufffd"...)
		} else {
			b = append(b, s[i:i+size]...)
		}
		i += size
	}
	return string(b)
}

func c17Enc(o *Out, html, norm bool, s string, toModel bool) {
	flags := []byte{'0', '0'}
	if html {
		flags[0] = '1'
	}
	if norm {
		flags[1] = '1'
	}
	got, err := c17Marshal(html, norm, s)
	o.count("encode_cases", 1)
	if err != nil {
		o.violation("C17", "Marshal of a string failed", map[string]string{"s": fmt.Sprintf("%q", s), "err": err.Error()})
		return
	}
	// independent checks of the statement itself
	var back string
	if e := stdjson.Unmarshal(got, &back); e != nil {
		o.violation("C17", "emitted literal is not decodable by encoding/json", map[string]string{"s": fmt.Sprintf("%q", s), "out": fmt.Sprintf("%q", got)})
	} else if back != sanitize(s) {
		o.violation("C17", "emitted literal does not decode to the original", map[string]string{"s": fmt.Sprintf("%q", s), "out": fmt.Sprintf("%q", got), "back": fmt.Sprintf("%q", back)})
	}
	for _, c := range got {
		if c < 0x20 {
			o.violation("C17", "raw control character in emitted literal", map[string]string{"s": fmt.Sprintf("%q", s), "out": fmt.Sprintf("%q", got)})
			break
		}
	}
	if html {
		if bytes.ContainsAny(got, "<>&") {
			o.violation("C17", "raw HTML character with escaping on", map[string]string{"s": fmt.Sprintf("%q", s), "out": fmt.Sprintf("%q", got)})
		}
		if bytes.Contains(got, []byte("\u2028")) || bytes.Contains(got, []byte("\u2029")) {
			if !norm {
				o.known("HtmlNoNormalize2028", fmt.Sprintf("%q", s))
			} else {
				o.violation("C17", "raw U+2028/2029 with escaping on", map[string]string{"s": fmt.Sprintf("%q", s), "out": fmt.Sprintf("%q", got)})
			}
		}
	}
	if norm && !utf8.Valid(got) {
		o.violation("C17", "output not valid UTF-8 with normalisation on", map[string]string{"s": fmt.Sprintf("%q", s), "out": fmt.Sprintf("%q", got)})
	}
	var want []byte
	hasOracle := norm
	if norm {
		want = stdCanon(html, s)
	}
	if toModel {
		o.emit("A", "c17.enc", [][]byte{flags, []byte(s)}, got, want, hasOracle)
	} else if hasOracle && !bytes.Equal(got, want) {
		o.emit("C", "c17.enc", [][]byte{flags, []byte(s)}, got, want, true)
	}
}

var c17Classes = [][]byte{
	{0x00}, {0x01}, {0x08}, {0x09}, {0x0a}, {0x0c}, {0x0d}, {0x1f}, {0x20}, {'"'}, {'\\'}, {'/'}, {'<'}, {'>'}, {'&'}, {0x7f},
	{0x80}, {0xbf}, {0xc0}, {0xc1}, {0xc2}, {0xdf}, {0xe0}, {0xed}, {0xef}, {0xf0}, {0xf4}, {0xf5}, {0xff},
	{0xc2, 0x80}, {0xdf, 0xbf}, {0xe0, 0xa0, 0x80}, {0xe0, 0x9f, 0x80}, {0xed, 0x9f, 0xbf}, {0xed, 0xa0, 0x80},
	{0xe2, 0x80, 0xa8}, {0xe2, 0x80, 0xa9}, {0xe2, 0x80, 0xa7}, {0xe2, 0x80}, {0xe2, 0x81, 0xa8}, {0xef, 0xbf, 0xbd},
	{0xf0, 0x90, 0x80, 0x80}, {0xf0, 0x8f, 0x80, 0x80}, {0xf4, 0x8f, 0xbf, 0xbf}, {0xf4, 0x90, 0x80, 0x80}, {0xf0, 0x9f, 0x98},
	{'a'}, {0x21}, {0x1f, 0x20},
}

func runC17(o *Out) {
	thorough := o.tier == "thorough"
	flagsets := [][2]bool{{true, true}, {true, false}, {false, true}, {false, false}}
	// all strings of length 0..2 over all bytes; a stratum goes through the model
	for _, fs := range flagsets {
		c17Enc(o, fs[0], fs[1], "", true)
		for a := 0; a < 256; a++ {
			c17Enc(o, fs[0], fs[1], string([]byte{byte(a)}), true)
		}
		for a := 0; a < 256; a++ {
			for b := 0; b < 256; b++ {
				c17Enc(o, fs[0], fs[1], string([]byte{byte(a), byte(b)}), (a*256+b)%61 == 0)
			}
		}
	}
	// length 3: sample (quick) or all (thorough), default flags only + a sample of the others
	n3 := 300000
	if thorough {
		n3 = 1 << 24
	}
	for i := 0; i < n3; i++ {
		var v uint32
		if thorough {
			v = uint32(i)
		} else {
			v = o.rng.Uint32()
		}
		s := string([]byte{byte(v), byte(v >> 8), byte(v >> 16)})
		fs := flagsets[i%4]
		c17Enc(o, fs[0], fs[1], s, i%997 == 0)
	}
	// every byte class at every offset 0..17 of strings of length 4..40
	fill := []byte("abcdefghijklmnopqrstuvwxyzABCDEFGHIJKLMNOPQRSTUVWXYZ")
	for _, fs := range flagsets {
		for _, cls := range c17Classes {
			for total := 4; total <= 40; total++ {
				if !thorough && total > 26 && total%7 != 0 {
					continue
				}
				for off := 0; off <= 17 && off+len(cls) <= total; off++ {
					bs := append([]byte{}, fill[:total]...)
					copy(bs[off:], cls)
					c17Enc(o, fs[0], fs[1], string(bs), true)
					// two classes: the same class again 8 bytes later (next window)
					if off+8+len(cls) <= total {
						copy(bs[off+8:], cls)
						c17Enc(o, fs[0], fs[1], string(bs), off%3 == 0)
					}
				}
			}
		}
	}
	// random strings built from classes
	nr := 20000
	if thorough {
		nr = 1000000
	}
	for i := 0; i < nr; i++ {
		n := o.rng.Intn(48)
		var bs []byte
		for len(bs) < n {
			if o.rng.Intn(4) == 0 {
				bs = append(bs, c17Classes[o.rng.Intn(len(c17Classes))]...)
			} else {
				bs = append(bs, fill[o.rng.Intn(len(fill))])
			}
		}
		fs := flagsets[o.rng.Intn(4)]
		c17Enc(o, fs[0], fs[1], string(bs), i < 3000)
	}
	runC17Decode(o)
	// audit wave 6 strata (after the older ones, whose random inputs stay what they were)
	t0 := time.Now()
	c17EncStrata(o)
	t1 := time.Now()
	c17DecStrata(o)
	o.Notes = append(o.Notes, fmt.Sprintf("audit strata: encode %.1fs decode %.1fs", t1.Sub(t0).Seconds(), time.Since(t1).Seconds()))
}

// ---------------------------------------------------------------------------
// audit wave 6: additional strata (see the notes of audit A6)
// ---------------------------------------------------------------------------

// c17CanonBytes rewrites the two escapes encoding/json spells with a letter and
// go-json with \u00XX; backslashes occur only inside string tokens, so the walk is
// valid for a whole JSON text.
func c17CanonBytes(in []byte) []byte {
	out := make([]byte, 0, len(in)+8)
	for i := 0; i < len(in); i++ {
		if in[i] == '\\' && i+1 < len(in) {
			switch in[i+1] {
			case 'b':
				out = append(out, `\u0008`...)
			case 'f':
				out = append(out, `\u000c`...)
			default:
				out = append(out, in[i], in[i+1])
			}
			i++
			continue
		}
		out = append(out, in[i])
	}
	return out
}

type c17Named string

// c17TextM hands its bytes to the encoder as text (value and map key) and takes them back
type c17TextM string

func (t c17TextM) MarshalText() ([]byte, error)  { return []byte(t), nil }
func (t *c17TextM) UnmarshalText(b []byte) error { *t = c17TextM(b); return nil }

// every place a Go string is written as a JSON string literal
type c17Pos struct {
	F string           `json:"f"`
	Q string           `json:"q,string"`
	O string           `json:"o,omitempty"`
	P *string          `json:"p"`
	N c17Named         `json:"n"`
	T c17TextM         `json:"t"`
	I interface{}      `json:"i"`
	L []string         `json:"l"`
	M map[string]int   `json:"m"`
	K map[c17TextM]int `json:"k"`
	E string           `json:"e"`
}

// the same members for the oracle: the ,string payload is written out as encoding/json
// quotes it once (with the two tolerated spellings already rewritten), so that its
// second quoting is comparable byte by byte
type c17PosStd struct {
	F string           `json:"f"`
	Q string           `json:"q"`
	O string           `json:"o,omitempty"`
	P *string          `json:"p"`
	N c17Named         `json:"n"`
	T c17TextM         `json:"t"`
	I interface{}      `json:"i"`
	L []string         `json:"l"`
	M map[string]int   `json:"m"`
	K map[c17TextM]int `json:"k"`
	E string           `json:"e"`
}

func c17StdOf(v c17Pos, html bool) c17PosStd {
	return c17PosStd{F: v.F, Q: string(stdCanon(html, v.Q)), O: v.O, P: v.P, N: v.N, T: v.T, I: v.I, L: v.L, M: v.M, K: v.K, E: v.E}
}

func c17PosOf(s string) c17Pos {
	p := s
	return c17Pos{F: s, Q: s, O: s, P: &p, N: c17Named(s), T: c17TextM(s), I: s, L: []string{s, s},
		M: map[string]int{s: 1}, K: map[c17TextM]int{c17TextM(s): 2}, E: s}
}

func c17Opts(html, norm bool) []gojson.EncodeOptionFunc {
	var opts []gojson.EncodeOptionFunc
	if !html {
		opts = append(opts, gojson.DisableHTMLEscape())
	}
	if !norm {
		opts = append(opts, gojson.DisableNormalizeUTF8())
	}
	return opts
}

type c17Entry struct {
	name   string
	indent bool
	goj    func(v interface{}, html, norm bool) ([]byte, error)
}

var c17Entries = []c17Entry{
	{"MarshalWithOption", false, func(v interface{}, html, norm bool) ([]byte, error) {
		return gojson.MarshalWithOption(v, c17Opts(html, norm)...)
	}},
	{"MarshalIndentWithOption", true, func(v interface{}, html, norm bool) ([]byte, error) {
		return gojson.MarshalIndentWithOption(v, "", " ", c17Opts(html, norm)...)
	}},
	{"Encoder", false, func(v interface{}, html, norm bool) ([]byte, error) {
		var b bytes.Buffer
		e := gojson.NewEncoder(&b)
		e.SetEscapeHTML(html)
		var opts []gojson.EncodeOptionFunc
		if !norm {
			opts = append(opts, gojson.DisableNormalizeUTF8())
		}
		err := e.EncodeWithOption(v, opts...)
		return bytes.TrimSuffix(b.Bytes(), []byte("\n")), err
	}},
	{"Encoder+SetIndent", true, func(v interface{}, html, norm bool) ([]byte, error) {
		var b bytes.Buffer
		e := gojson.NewEncoder(&b)
		e.SetEscapeHTML(html)
		e.SetIndent("", " ")
		var opts []gojson.EncodeOptionFunc
		if !norm {
			opts = append(opts, gojson.DisableNormalizeUTF8())
		}
		err := e.EncodeWithOption(v, opts...)
		return bytes.TrimSuffix(b.Bytes(), []byte("\n")), err
	}},
}

func c17StdEncode(v interface{}, html, indent bool) []byte {
	var b bytes.Buffer
	e := stdjson.NewEncoder(&b)
	e.SetEscapeHTML(html)
	if indent {
		e.SetIndent("", " ")
	}
	e.Encode(v)
	return c17CanonBytes(bytes.TrimSuffix(b.Bytes(), []byte("\n")))
}

// c17EncPositions: the string as struct member, ,string payload (quoted twice),
// omitempty member, behind a pointer, as a named type, as MarshalText result, inside
// interface{}, as slice element, as map key and as MarshalText map key, through Marshal,
// MarshalIndent and the Encoder with and without SetIndent, under the four flag sets.
func c17EncPositions(o *Out, s string) {
	v := c17PosOf(s)
	want := c17PosOf(sanitize(s))
	c17PosCalls++
	for fi, fs := range [][2]bool{{true, true}, {true, false}, {false, true}, {false, false}} {
		html, norm := fs[0], fs[1]
		for ei, en := range c17Entries {
			// Marshal always, the other three entry points in turn (all of them in the thorough tier)
			if ei > 0 && o.tier != "thorough" && (c17PosCalls+fi)%3 != ei-1 {
				continue
			}
			got, err := c01Safe(func() ([]byte, error) { return en.goj(v, html, norm) })
			o.count("encode_position_cases", 1)
			o.hist("encode_position_entry", en.name)
			fail := func(what string, more ...string) {
				det := map[string]string{"s": fmt.Sprintf("%q", s), "entry": en.name, "html": fmt.Sprint(html), "normalize": fmt.Sprint(norm),
					"out": fmt.Sprintf("%q", got), "err": fmt.Sprint(err)}
				for i := 0; i+1 < len(more); i += 2 {
					det[more[i]] = more[i+1]
				}
				o.violation("C17", what, det)
			}
			if err != nil {
				fail("encoding a struct of strings failed")
				continue
			}
			// the statement itself: any conforming parser reads the original back from every position
			var back c17Pos
			if e := stdjson.Unmarshal(got, &back); e != nil {
				fail("output with the string in every position is not decodable by encoding/json", "decode_err", e.Error())
				continue
			}
			if !reflect.DeepEqual(back, want) {
				fail("a position does not decode to the original string", "back", fmt.Sprintf("%+v", back))
				continue
			}
			for _, c := range got {
				if c < 0x20 && !(en.indent && c == '\n') {
					fail("raw control character in the output")
					break
				}
			}
			if html && (bytes.ContainsAny(got, "<>&") || bytes.Contains(got, []byte("\u2028")) || bytes.Contains(got, []byte("\u2029"))) {
				fail("raw HTML-special character with escaping on")
			}
			if norm {
				if !utf8.Valid(got) {
					fail("output not valid UTF-8 with normalisation on")
				}
				if w := c17StdEncode(c17StdOf(v, html), html, en.indent); !bytes.Equal(got, w) {
					fail("string positions encoded differently from encoding/json", "oracle", fmt.Sprintf("%q", w))
				}
			}
		}
	}
}

var c17PosCalls int

// member names are escaped when the type is compiled (once with and once without HTML
// escaping), not by the code that escapes values
var c17KeyNames = []string{"a<b", "x&y", ">", "é", "日本語", "a b", "€<", "<>&<>&<>&", "abcdefg<", "abcdefgh<", "abcdefghijklmnop&", "a/b", "a.b-c_d", "ключ", "𝛂"}

func c17EncKeys(o *Out) {
	fs := make([]reflect.StructField, len(c17KeyNames))
	for i, n := range c17KeyNames {
		fs[i] = reflect.StructField{Name: fmt.Sprintf("F%d", i), Type: reflect.TypeOf(""), Tag: reflect.StructTag(fmt.Sprintf(`json:%q`, n))}
	}
	// the same names in reverse order: each is first member once and last member once
	rs := make([]reflect.StructField, len(fs))
	for i := range fs {
		rs[i] = fs[len(fs)-1-i]
	}
	for _, t := range []reflect.Type{reflect.StructOf(fs), reflect.StructOf(rs), reflect.StructOf(fs[:1]), reflect.StructOf(fs[7:8])} {
		v := reflect.New(t).Elem()
		for i := 0; i < v.NumField(); i++ {
			v.Field(i).SetString("<v&" + strconv.Itoa(i) + ">")
		}
		for _, x := range []interface{}{v.Interface(), v.Addr().Interface(), []interface{}{v.Interface()}} {
			for _, flags := range [][2]bool{{true, true}, {true, false}, {false, true}, {false, false}} {
				for _, en := range c17Entries {
					got, err := c01Safe(func() ([]byte, error) { return en.goj(x, flags[0], flags[1]) })
					want := c17StdEncode(x, flags[0], en.indent)
					o.count("encode_key_cases", 1)
					if err != nil || !bytes.Equal(got, want) {
						o.violation("C17", "member names escaped differently from encoding/json", map[string]string{"type": t.String(), "entry": en.name,
							"html": fmt.Sprint(flags[0]), "normalize": fmt.Sprint(flags[1]), "impl": fmt.Sprintf("%q err=%v", got, err), "oracle": fmt.Sprintf("%q", want)})
					}
				}
			}
		}
	}
}

// c17EncStrata: (1) every byte class at every offset counted from the END of the string
// (the tail after the last full 8-byte word) for the lengths 4..40, which the offsets
// 0..17 from the start leave out; (2) long strings (several words, several kB, one
// above 64 kB) with the class at the start, at word borders, in the middle and in the
// tail, clean before it so that the word-at-a-time scan has to find it; (3) the
// positions other than a top-level value for a sample of all of these.
func c17EncStrata(o *Out) {
	thorough := o.tier == "thorough"
	flagsets := [][2]bool{{true, true}, {true, false}, {false, true}, {false, false}}
	fill := []byte("abcdefghijklmnopqrstuvwxyzABCDEFGHIJKLMNOPQRSTUVWXYZ0123456789-_")
	mk := func(total int) []byte {
		bs := make([]byte, total)
		for i := range bs {
			bs[i] = fill[i%len(fill)]
		}
		return bs
	}
	npos := 0
	for ci, cls := range c17Classes {
		for total := 4; total <= 40; total++ {
			for back := 0; back <= 9 && back+len(cls) <= total; back++ {
				off := total - len(cls) - back
				if off <= 17 {
					continue // done from the start
				}
				bs := mk(total)
				copy(bs[off:], cls)
				for _, fs := range flagsets {
					c17Enc(o, fs[0], fs[1], string(bs), false)
				}
				o.count("encode_tail_offset_strings", 1)
			}
		}
		totals := []int{41, 48, 49, 63, 64, 65, 72, 127, 128, 129, 257, 1024, 1025, 4097}
		if thorough {
			totals = []int{41, 47, 48, 49, 63, 64, 65, 71, 72, 127, 128, 129, 255, 256, 257, 1023, 1024, 1025, 4095, 4096, 4097}
		}
		if ci%8 == 0 || thorough {
			totals = append(totals, 65536+5)
		}
		for _, total := range totals {
			offs := map[int]bool{0: true, 7: true, 8: true, 9: true, 24: true, total / 2: true, total/2 + 3: true}
			for back := 0; back <= 9; back++ {
				offs[total-len(cls)-back] = true
			}
			var offl []int
			for off := range offs {
				offl = append(offl, off)
			}
			sort.Ints(offl)
			for _, off := range offl {
				if off < 0 || off+len(cls) > total {
					continue
				}
				bs := mk(total)
				copy(bs[off:], cls)
				for _, fs := range flagsets {
					c17Enc(o, fs[0], fs[1], string(bs), false)
				}
				o.count("encode_long_strings", 1)
				o.hist("encode_long_length", strconv.Itoa(total))
				if ((off+total+ci)%5 == 0 && total <= 129) || ((off+ci)%16 == 0 && total > 129 && total <= 4097) {
					c17EncPositions(o, string(bs))
					npos++
				}
			}
		}
	}
	// positions: the empty string, every single byte, every class alone and at the offsets around the first word border
	c17EncPositions(o, "")
	for a := 0; a < 256; a++ {
		c17EncPositions(o, string([]byte{byte(a)}))
		npos++
	}
	for _, cls := range c17Classes {
		for _, total := range []int{len(cls), 7, 8, 9, 12, 16, 17, 25} {
			if total < len(cls) {
				continue
			}
			for _, off := range []int{0, 3, 6, 7, 8, total - len(cls)} {
				if off < 0 || off+len(cls) > total {
					continue
				}
				bs := mk(total)
				copy(bs[off:], cls)
				c17EncPositions(o, string(bs))
				npos++
			}
		}
	}
	nr := 300
	if thorough {
		nr = 30000
	}
	for i := 0; i < nr; i++ {
		n := o.rng.Intn(40)
		var bs []byte
		for len(bs) < n {
			if o.rng.Intn(4) == 0 {
				bs = append(bs, c17Classes[o.rng.Intn(len(c17Classes))]...)
			} else {
				bs = append(bs, fill[o.rng.Intn(len(fill))])
			}
		}
		c17EncPositions(o, string(bs))
		npos++
	}
	o.count("encode_position_strings", int64(npos))
	c17EncKeys(o)
}
