package main

import (
	"bytes"
	stdjson "encoding/json"
	"fmt"
	"unicode/utf8"

	gojson "github.com/goccy/go-json"
)

func init() { props["C17"] = runC17 }

func c17Marshal(html, norm bool, s string) ([]byte, error) {
	var opts []gojson.EncodeOptionFunc
	if !html {
		opts = append(opts, gojson.DisableHTMLEscape())
	}
	if !norm {
		opts = append(opts, gojson.DisableNormalizeUTF8())
	}
	return gojson.MarshalWithOption(s, opts...)
}

func stdMarshalString(html bool, s string) []byte {
	var b bytes.Buffer
	e := stdjson.NewEncoder(&b)
	e.SetEscapeHTML(html)
	e.Encode(s)
	out := bytes.TrimSuffix(b.Bytes(), []byte("\n"))
	// tolerated spellings of one token
	out = bytes.ReplaceAll(out, []byte(`\b`), []byte(`\u0008`))
	out = bytes.ReplaceAll(out, []byte(`\f`), []byte(`\u000c`))
	return out
}

// canonical form of the std output must not confuse an escaped backslash
// followed by 'b' with \b: do the replacement token-wise.
func stdCanon(html bool, s string) []byte {
	var b bytes.Buffer
	e := stdjson.NewEncoder(&b)
	e.SetEscapeHTML(html)
	e.Encode(s)
	in := bytes.TrimSuffix(b.Bytes(), []byte("\n"))
	var out []byte
	for i := 0; i < len(in); i++ {
		if in[i] == '\\' && i+1 < len(in) {
			switch in[i+1] {
			case 'b':
				out = append(out, `\u0008`...)
			case 'f':
				out = append(out, `\u000c`...)
			default:
				out = append(out, in[i], in[i+1])
			}
			i++
			continue
		}
		out = append(out, in[i])
	}
	return out
}

func sanitize(s string) string {
	var b []byte
	for i := 0; i < len(s); {
		r, size := utf8.DecodeRuneInString(s[i:])
		if r == utf8.RuneError && size == 1 {
			b = append(b, "\ufffd"...)
		} else {
			b = append(b, s[i:i+size]...)
		}
		i += size
	}
	return string(b)
}

func c17Enc(o *Out, html, norm bool, s string, toModel bool) {
	flags := []byte{'0', '0'}
	if html {
		flags[0] = '1'
	}
	if norm {
		flags[1] = '1'
	}
	got, err := c17Marshal(html, norm, s)
	o.count("encode_cases", 1)
	if err != nil {
		o.violation("C17", "Marshal of a string failed", map[string]string{"s": fmt.Sprintf("%q", s), "err": err.Error()})
		return
	}
	// independent checks of the statement itself
	var back string
	if e := stdjson.Unmarshal(got, &back); e != nil {
		o.violation("C17", "emitted literal is not decodable by encoding/json", map[string]string{"s": fmt.Sprintf("%q", s), "out": fmt.Sprintf("%q", got)})
	} else if back != sanitize(s) {
		o.violation("C17", "emitted literal does not decode to the original", map[string]string{"s": fmt.Sprintf("%q", s), "out": fmt.Sprintf("%q", got), "back": fmt.Sprintf("%q", back)})
	}
	for _, c := range got {
		if c < 0x20 {
			o.violation("C17", "raw control character in emitted literal", map[string]string{"s": fmt.Sprintf("%q", s), "out": fmt.Sprintf("%q", got)})
			break
		}
	}
	if html {
		if bytes.ContainsAny(got, "<>&") {
			o.violation("C17", "raw HTML character with escaping on", map[string]string{"s": fmt.Sprintf("%q", s), "out": fmt.Sprintf("%q", got)})
		}
		if bytes.Contains(got, []byte("\u2028")) || bytes.Contains(got, []byte("\u2029")) {
			if !norm {
				o.known("HtmlNoNormalize2028", fmt.Sprintf("%q", s))
			} else {
				o.violation("C17", "raw U+2028/2029 with escaping on", map[string]string{"s": fmt.Sprintf("%q", s), "out": fmt.Sprintf("%q", got)})
			}
		}
	}
	if norm && !utf8.Valid(got) {
		o.violation("C17", "output not valid UTF-8 with normalisation on", map[string]string{"s": fmt.Sprintf("%q", s), "out": fmt.Sprintf("%q", got)})
	}
	var want []byte
	hasOracle := norm
	if norm {
		want = stdCanon(html, s)
	}
	if toModel {
		o.emit("A", "c17.enc", [][]byte{flags, []byte(s)}, got, want, hasOracle)
	} else if hasOracle && !bytes.Equal(got, want) {
		o.emit("C", "c17.enc", [][]byte{flags, []byte(s)}, got, want, true)
	}
}

var c17Classes = [][]byte{
	{0x00}, {0x01}, {0x08}, {0x09}, {0x0a}, {0x0c}, {0x0d}, {0x1f}, {0x20}, {'"'}, {'\\'}, {'/'}, {'<'}, {'>'}, {'&'}, {0x7f},
	{0x80}, {0xbf}, {0xc0}, {0xc1}, {0xc2}, {0xdf}, {0xe0}, {0xed}, {0xef}, {0xf0}, {0xf4}, {0xf5}, {0xff},
	{0xc2, 0x80}, {0xdf, 0xbf}, {0xe0, 0xa0, 0x80}, {0xe0, 0x9f, 0x80}, {0xed, 0x9f, 0xbf}, {0xed, 0xa0, 0x80},
	{0xe2, 0x80, 0xa8}, {0xe2, 0x80, 0xa9}, {0xe2, 0x80, 0xa7}, {0xe2, 0x80}, {0xe2, 0x81, 0xa8}, {0xef, 0xbf, 0xbd},
	{0xf0, 0x90, 0x80, 0x80}, {0xf0, 0x8f, 0x80, 0x80}, {0xf4, 0x8f, 0xbf, 0xbf}, {0xf4, 0x90, 0x80, 0x80}, {0xf0, 0x9f, 0x98},
	{'a'}, {0x21}, {0x1f, 0x20},
}

func runC17(o *Out) {
	thorough := o.tier == "thorough"
	flagsets := [][2]bool{{true, true}, {true, false}, {false, true}, {false, false}}
	// all strings of length 0..2 over all bytes; a stratum goes through the model
	for _, fs := range flagsets {
		c17Enc(o, fs[0], fs[1], "", true)
		for a := 0; a < 256; a++ {
			c17Enc(o, fs[0], fs[1], string([]byte{byte(a)}), true)
		}
		for a := 0; a < 256; a++ {
			for b := 0; b < 256; b++ {
				c17Enc(o, fs[0], fs[1], string([]byte{byte(a), byte(b)}), (a*256+b)%61 == 0)
			}
		}
	}
	// length 3: sample (quick) or all (thorough), default flags only + a sample of the others
	n3 := 300000
	if thorough {
		n3 = 1 << 24
	}
	for i := 0; i < n3; i++ {
		var v uint32
		if thorough {
			v = uint32(i)
		} else {
			v = o.rng.Uint32()
		}
		s := string([]byte{byte(v), byte(v >> 8), byte(v >> 16)})
		fs := flagsets[i%4]
		c17Enc(o, fs[0], fs[1], s, i%997 == 0)
	}
	// every byte class at every offset 0..17 of strings of length 4..40
	fill := []byte("abcdefghijklmnopqrstuvwxyzABCDEFGHIJKLMNOPQRSTUVWXYZ")
	for _, fs := range flagsets {
		for _, cls := range c17Classes {
			for total := 4; total <= 40; total++ {
				if !thorough && total > 26 && total%7 != 0 {
					continue
				}
				for off := 0; off <= 17 && off+len(cls) <= total; off++ {
					bs := append([]byte{}, fill[:total]...)
					copy(bs[off:], cls)
					c17Enc(o, fs[0], fs[1], string(bs), true)
					// two classes: the same class again 8 bytes later (next window)
					if off+8+len(cls) <= total {
						copy(bs[off+8:], cls)
						c17Enc(o, fs[0], fs[1], string(bs), off%3 == 0)
					}
				}
			}
		}
	}
	// random strings built from classes
	nr := 20000
	if thorough {
		nr = 1000000
	}
	for i := 0; i < nr; i++ {
		n := o.rng.Intn(48)
		var bs []byte
		for len(bs) < n {
			if o.rng.Intn(4) == 0 {
				bs = append(bs, c17Classes[o.rng.Intn(len(c17Classes))]...)
			} else {
				bs = append(bs, fill[o.rng.Intn(len(fill))])
			}
		}
		fs := flagsets[o.rng.Intn(4)]
		c17Enc(o, fs[0], fs[1], string(bs), i < 3000)
	}
	runC17Decode(o)
}
