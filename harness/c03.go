package main

// C03: every successful encode is exactly one well-formed JSON text.
// Types and values of the C01 grammar, extended with what JSON cannot
// represent (non-finite floats of both widths anywhere, arbitrary json.Number
// strings, RawMessage / marshaler output that is not JSON); every entry point
// and option subset (Colorize excluded).  If an entry point reports success
// the bytes must be one RFC 8259 value (checked with encoding/json.Valid and
// a check that nothing follows), valid UTF-8 while normalisation is on; and
// what encoding/json refuses must be refused.

import (
	"bytes"
	"context"
	stdjson "encoding/json"
	"fmt"
	"math"
	"os"
	"os/exec"
	"reflect"
	"strconv"
	"strings"
	"time"
	"unicode/utf8"

	gojson "github.com/goccy/go-json"
)

func init() {
	props["C03"] = runC03
	props["C03child"] = runC03Child
}

// marshalers that return arbitrary bytes
type C03MBytes struct{ B string }

func (m C03MBytes) MarshalJSON() ([]byte, error) { return []byte(m.B), nil }

type C03TBytes struct{ B string }

func (m C03TBytes) MarshalText() ([]byte, error) { return []byte(m.B), nil }

var c03Payloads = []string{`{"ok":[1,2]}`, ` "s" `, `12`, `{`, `[1,]`, ``, `tru`, `{"a":}`, "\"\x01\"", `{"a":1}}`, `1 2`, `"\ud800"`, `"\u12"`, `"\u123g"`, `"\u123"`, `"\uGGGG"`, `"ok\u0041"`, `nul`, `-`, `01`, `1e`, `[1 2]`, `{"a" 1}`, "\"\xff\"", `"a"b`, "[\"\\x\"]", `NaN`}

type c03Entry struct {
	name  string
	f     func(v interface{}) ([]byte, error)
	utf8  bool // output must be valid UTF-8
	trail string
}

func c03Entries() []c03Entry {
	q, _ := gojson.BuildFieldQuery("F0", "F1", "a", "id")
	return []c03Entry{
		{"Marshal", func(v interface{}) ([]byte, error) { return gojson.Marshal(v) }, true, ""},
		{"MarshalIndent", func(v interface{}) ([]byte, error) { return gojson.MarshalIndent(v, "", "  ") }, true, ""},
		{"MarshalNoEscape", func(v interface{}) ([]byte, error) { return gojson.MarshalNoEscape(v) }, true, ""},
		{"MarshalContext", func(v interface{}) ([]byte, error) { return gojson.MarshalContext(context.Background(), v) }, true, ""},
		{"MarshalContext+FieldQuery", func(v interface{}) ([]byte, error) {
			return gojson.MarshalContext(gojson.SetFieldQueryToContext(context.Background(), q), v)
		}, true, ""},
		{"Marshal+DisableHTMLEscape", func(v interface{}) ([]byte, error) { return gojson.MarshalWithOption(v, gojson.DisableHTMLEscape()) }, true, ""},
		{"Marshal+UnorderedMap", func(v interface{}) ([]byte, error) { return gojson.MarshalWithOption(v, gojson.UnorderedMap()) }, true, ""},
		{"Marshal+DisableNormalizeUTF8", func(v interface{}) ([]byte, error) { return gojson.MarshalWithOption(v, gojson.DisableNormalizeUTF8()) }, false, ""},
		{"MarshalIndent+UnorderedMap+DisableHTMLEscape", func(v interface{}) ([]byte, error) {
			return gojson.MarshalIndentWithOption(v, "", "\t", gojson.UnorderedMap(), gojson.DisableHTMLEscape())
		}, true, ""},
		{"Encoder", func(v interface{}) ([]byte, error) {
			var b bytes.Buffer
			err := gojson.NewEncoder(&b).Encode(v)
			return b.Bytes(), err
		}, true, "\n"},
		{"Encoder+SetIndent", func(v interface{}) ([]byte, error) {
			var b bytes.Buffer
			e := gojson.NewEncoder(&b)
			e.SetIndent("", " ")
			err := e.Encode(v)
			return b.Bytes(), err
		}, true, "\n"},
	}
}

// exactly one JSON value (white space around it allowed by the grammar, but the encoder writes none except the Encoder's newline)
func c03OneValue(b []byte) string {
	if !stdjson.Valid(b) {
		return "not a JSON value"
	}
	return ""
}

func c03HasSpecial(v reflect.Value, depth int) bool {
	found := false
	tgValueTypes(v, 0, func(reflect.Type) {})
	var walk func(v reflect.Value, d int)
	walk = func(v reflect.Value, d int) {
		if found || d > 14 || !v.IsValid() {
			return
		}
		switch v.Kind() {
		case reflect.Float32, reflect.Float64:
			if math.IsNaN(v.Float()) || math.IsInf(v.Float(), 0) {
				found = true
			}
		case reflect.Ptr, reflect.Interface:
			if !v.IsNil() {
				walk(v.Elem(), d+1)
			}
		case reflect.Slice, reflect.Array:
			for i := 0; i < v.Len(); i++ {
				walk(v.Index(i), d+1)
			}
		case reflect.Map:
			it := v.MapRange()
			for it.Next() {
				walk(it.Value(), d+1)
			}
		case reflect.Struct:
			for i := 0; i < v.NumField(); i++ {
				walk(v.Field(i), d+1)
			}
		}
	}
	walk(v, 0)
	return found
}

func runC03Child(o *Out) {
	r := o.rng
	ntypes := 1200
	if o.tier == "thorough" {
		ntypes = 15000
	}
	skip, _ := strconv.Atoi(os.Getenv("C03_SKIP_TYPES"))
	entries := c03Entries()
	reported := map[string]bool{}
	extra := []reflect.Type{reflect.TypeOf(C03MBytes{}), reflect.TypeOf(C03TBytes{}), reflect.TypeOf(float32(0)), reflect.TypeOf(float64(0)), reflect.TypeOf(stdjson.Number("")),
		reflect.TypeOf(stdjson.RawMessage(nil)), reflect.TypeOf([]float32(nil)), reflect.TypeOf(map[string]float32(nil)), reflect.TypeOf([]C03MBytes(nil)),
		reflect.TypeOf(map[C03TBytes]int(nil)), reflect.TypeOf(struct {
			A C03MBytes  `json:"a"`
			B *C03MBytes `json:"b,omitempty"`
			N stdjson.Number
			F float32 `json:",string"`
		}{}), reflect.TypeOf([]interface{}(nil))}
	for ti := 0; ti < ntypes; ti++ {
		var t reflect.Type
		if ti%4 == 0 {
			t = extra[(ti/4)%len(extra)]
		} else {
			t = tgType(r, 3, tgOpts{named: true})
		}
		if t.Kind() == reflect.Interface {
			t = reflect.TypeOf(c01Wrap{})
		}
		v := reflect.New(t)
		tgValue(r, v.Elem(), 0, []int{0, 20, 50}[ti%3], true)
		// arbitrary marshaler output / interface contents
		tgValueTypes(v, 0, func(reflect.Type) {})
		c03Fill(r, v.Elem(), 0)
		if cls := tgKnownBadAnywhere(reflect.PtrTo(t), 0); cls != "" {
			continue
		}
		if ti < skip {
			continue
		}
		os.WriteFile(o.dir+"/progress", []byte(strconv.Itoa(ti)), 0o644)
		for how := 0; how < 2; how++ {
			arg := c01Reach(v, how)
			_, stdErr := c01Safe(func() ([]byte, error) { return stdjson.Marshal(arg) })
			for _, en := range entries {
				o.current(map[string]string{"property": "C03", "type": t.String(), "value": c01Describe(t, v), "entry": en.name, "crash_class": c01CrashClass(t, v, how)})
				got, err := c01Safe(func() ([]byte, error) { return en.f(arg) })
				o.count("encodes", 1)
				key := t.String() + "|" + en.name
				if err != nil {
					o.count("encode_errors", 1)
					continue
				}
				body := got
				if en.trail != "" {
					if !bytes.HasSuffix(got, []byte(en.trail)) {
						body = nil
					} else {
						body = got[:len(got)-len(en.trail)]
					}
				}
				problem := ""
				if body == nil {
					problem = "the Encoder's newline is missing"
				} else if p := c03OneValue(body); p != "" {
					problem = p
				} else if len(body) > 0 && (body[0] == ' ' || body[0] == '\n' || body[len(body)-1] == ' ' || body[len(body)-1] == '\n' || body[len(body)-1] == ',') {
					problem = "white space or a comma around the value"
				} else if en.utf8 && !utf8.Valid(body) {
					problem = "not valid UTF-8 although normalisation is on"
				} else if stdErr != nil && !strings.HasPrefix(stdErr.Error(), "PANIC") && en.name == "Marshal" && c03MustFail(stdErr) {
					problem = "encoding/json refuses this value (" + clipN(stdErr.Error(), 80) + ") but the encoder reports success"
				}
				if problem == "" {
					continue
				}
				if reported[key] {
					o.count("repeat_problems", 1)
					continue
				}
				reported[key] = true
				if cls := c03Classify(t, v, problem); cls != "" {
					o.known(cls, fmt.Sprintf("%s %s", en.name, clipN(t.String(), 160)))
					continue
				}
				o.violation("C03", "successful encode is not one well-formed JSON text: "+problem, map[string]string{
					"type": clipN(t.String(), 400), "value": c01Describe(t, v), "entry": en.name, "reach": c01ReachName[how], "output": clipN(string(got), 400), "output_hex": hx(got[:minInt(len(got), 200)])})
			}
		}
	}
}

// the classes of values JSON cannot represent: the property demands an error for these
func c03MustFail(err error) bool {
	s := err.Error()
	return strings.Contains(s, "unsupported value") || strings.Contains(s, "unsupported type") || strings.Contains(s, "invalid number literal") ||
		strings.Contains(s, "error calling MarshalJSON") || strings.Contains(s, "invalid character") || strings.Contains(s, "unexpected end of JSON")
}

func c03Fill(r interface{ Intn(int) int }, v reflect.Value, depth int) {
	if depth > 10 || !v.IsValid() {
		return
	}
	switch v.Type() {
	case reflect.TypeOf(C03MBytes{}), reflect.TypeOf(C03TBytes{}):
		if v.CanSet() {
			v.Field(0).SetString(c03Payloads[r.Intn(len(c03Payloads))])
		}
		return
	}
	switch v.Kind() {
	case reflect.Ptr:
		if !v.IsNil() {
			c03Fill(r, v.Elem(), depth+1)
		}
	case reflect.Interface:
		if v.CanSet() && r.Intn(4) == 0 {
			switch r.Intn(4) {
			case 0:
				v.Set(reflect.ValueOf(float32(math.NaN())))
			case 1:
				v.Set(reflect.ValueOf(math.Inf(-1)))
			case 2:
				v.Set(reflect.ValueOf(C03MBytes{c03Payloads[r.Intn(len(c03Payloads))]}))
			default:
				v.Set(reflect.ValueOf(stdjson.Number([]string{"1", "abc", "1.", "-", "0x1", "1e5"}[r.Intn(6)])))
			}
		}
	case reflect.Slice, reflect.Array:
		for i := 0; i < v.Len(); i++ {
			c03Fill(r, v.Index(i), depth+1)
		}
	case reflect.Struct:
		for i := 0; i < v.NumField(); i++ {
			c03Fill(r, v.Field(i), depth+1)
		}
	case reflect.Map:
		if v.IsNil() || v.Type().Elem().Kind() != reflect.Struct && v.Type().Elem() != reflect.TypeOf(C03MBytes{}) {
			return
		}
		for _, k := range v.MapKeys() {
			e := reflect.New(v.Type().Elem()).Elem()
			e.Set(v.MapIndex(k))
			c03Fill(r, e, depth+1)
			v.SetMapIndex(k, e)
		}
	}
}

func c03Classify(t reflect.Type, v reflect.Value, problem string) string {
	ts := c01Shape(t, v)
	if strings.HasPrefix(problem, "not valid UTF-8") && (strings.Contains(ts, "main.C03MBytes") || strings.Contains(ts, "json.RawMessage")) {
		// the bytes a MarshalJSON method or a RawMessage supplies are checked for JSON syntax but copied without UTF-8 normalisation
		return "MarshalerOutputNotNormalized"
	}
	return ""
}

func runC03(o *Out) {
	self, _ := os.Executable()
	startAll := time.Now()
	skip := 0
	for attempt := 0; attempt < 25; attempt++ {
		dir := o.dir + "/run" + strconv.Itoa(attempt)
		limit := 180 * time.Second
		if o.tier == "thorough" {
			limit = 1800 * time.Second
		}
		cctx, cancel := context.WithTimeout(context.Background(), limit)
		cmd := exec.CommandContext(cctx, self, "C03child", o.tier, strconv.FormatInt(o.seed, 10), dir)
		cmd.Env = append(os.Environ(), "C03_SKIP_TYPES="+strconv.Itoa(skip), "VERIF_AS_LIMIT_MB=6000")
		var eb bytes.Buffer
		cmd.Stdout, cmd.Stderr = &eb, &eb
		err := cmd.Run()
		cancel()
		if err == nil {
			mergeChild(o, dir)
			break
		}
		det := map[string]string{"detail": err.Error(), "output": clipN(eb.String(), 700)}
		cls := ""
		if b, e := os.ReadFile(dir + "/current.json"); e == nil {
			det["case"] = string(b)
			var cur map[string]string
			if stdjson.Unmarshal(b, &cur) == nil {
				cls = cur["crash_class"]
			}
		}
		if cls != "" {
			o.known(cls, "crash: "+clipN(det["case"], 300))
		} else {
			o.violation("C03", "the encoder crashed the process", det)
		}
		if time.Since(startAll) > 2*limit {
			break
		}
		b, e := os.ReadFile(dir + "/progress")
		if e != nil {
			break
		}
		n, _ := strconv.Atoi(string(b))
		skip = n + 1
	}
}
