package main

// C03: every successful encode is exactly one well-formed JSON text.
// Types and values of the C01 grammar, extended with what JSON cannot
// represent (non-finite floats of both widths anywhere, arbitrary json.Number
// strings, RawMessage / marshaler output that is not JSON); every entry point
// and option subset (Colorize excluded).  If an entry point reports success
// the bytes must be one RFC 8259 value (checked with encoding/json.Valid and
// a check that nothing follows), valid UTF-8 while normalisation is on; and
// what encoding/json refuses must be refused.

import (
	"bytes"
	"context"
	stdjson "encoding/json"
	"fmt"
	"math"
	"math/rand"
	"os"
	"os/exec"
	"reflect"
	"strconv"
	"strings"
	"time"
	"unicode/utf8"
	"unsafe"

	gojson "github.com/goccy/go-json"
)

func init() {
	props["C03"] = runC03
	props["C03child"] = runC03Child
}

// marshalers that return arbitrary bytes
type C03MBytes struct{ B string }

func (m C03MBytes) MarshalJSON() ([]byte, error) { return []byte(m.B), nil }

type C03TBytes struct{ B string }

func (m C03TBytes) MarshalText() ([]byte, error) { return []byte(m.B), nil }

var c03Payloads = []string{`{"ok":[1,2]}`, ` "s" `, `12`, `{`, `[1,]`, ``, `tru`, `{"a":}`, "\"\x01\"", `{"a":1}}`, `1 2`, `"\ud800"`, `"\u12"`, `"\u123g"`, `"\u123"`, `"\uGGGG"`, `"ok\u0041"`, `nul`, `-`, `01`, `1e`, `[1 2]`, `{"a" 1}`, "\"\xff\"", `"a"b`, "[\"\\x\"]", `NaN`}

type c03Entry struct {
	name  string
	f     func(v interface{}) ([]byte, error)
	utf8  bool // output must be valid UTF-8
	trail string
}

func c03Entries() []c03Entry {
	q, _ := gojson.BuildFieldQuery("F0", "F1", "a", "id")
	return []c03Entry{
		{"Marshal", func(v interface{}) ([]byte, error) { return gojson.Marshal(v) }, true, ""},
		{"MarshalIndent", func(v interface{}) ([]byte, error) { return gojson.MarshalIndent(v, "", "  ") }, true, ""},
		{"MarshalNoEscape", func(v interface{}) ([]byte, error) { return gojson.MarshalNoEscape(v) }, true, ""},
		{"MarshalContext", func(v interface{}) ([]byte, error) { return gojson.MarshalContext(context.Background(), v) }, true, ""},
		{"MarshalContext+FieldQuery", func(v interface{}) ([]byte, error) {
			return gojson.MarshalContext(gojson.SetFieldQueryToContext(context.Background(), q), v)
		}, true, ""},
		{"Marshal+DisableHTMLEscape", func(v interface{}) ([]byte, error) { return gojson.MarshalWithOption(v, gojson.DisableHTMLEscape()) }, true, ""},
		{"Marshal+UnorderedMap", func(v interface{}) ([]byte, error) { return gojson.MarshalWithOption(v, gojson.UnorderedMap()) }, true, ""},
		{"Marshal+DisableNormalizeUTF8", func(v interface{}) ([]byte, error) { return gojson.MarshalWithOption(v, gojson.DisableNormalizeUTF8()) }, false, ""},
		{"MarshalIndent+UnorderedMap+DisableHTMLEscape", func(v interface{}) ([]byte, error) {
			return gojson.MarshalIndentWithOption(v, "", "\t", gojson.UnorderedMap(), gojson.DisableHTMLEscape())
		}, true, ""},
		{"Encoder", func(v interface{}) ([]byte, error) {
			var b bytes.Buffer
			err := gojson.NewEncoder(&b).Encode(v)
			return b.Bytes(), err
		}, true, "\n"},
		{"Encoder+SetIndent", func(v interface{}) ([]byte, error) {
			var b bytes.Buffer
			e := gojson.NewEncoder(&b)
			e.SetIndent("", " ")
			err := e.Encode(v)
			return b.Bytes(), err
		}, true, "\n"},
		// audit (A7): the option subsets the list above leaves out: indentation with a field query, with normalisation off, all options at once
		{"Encoder+SetIndent+EncodeContext+FieldQuery", func(v interface{}) ([]byte, error) {
			var b bytes.Buffer
			e := gojson.NewEncoder(&b)
			e.SetIndent("", "\t")
			err := e.EncodeContext(gojson.SetFieldQueryToContext(context.Background(), q), v, gojson.UnorderedMap())
			return b.Bytes(), err
		}, true, "\n"},
		{"MarshalIndent+DisableNormalizeUTF8", func(v interface{}) ([]byte, error) {
			return gojson.MarshalIndentWithOption(v, " ", " ", gojson.DisableNormalizeUTF8())
		}, false, ""},
		{"MarshalContext+every option", func(v interface{}) ([]byte, error) {
			return gojson.MarshalContext(context.Background(), v, gojson.UnorderedMap(), gojson.DisableHTMLEscape(), gojson.DisableNormalizeUTF8())
		}, false, ""},
		{"Encoder+SetEscapeHTML(false)+EncodeWithOption(UnorderedMap)", func(v interface{}) ([]byte, error) {
			var b bytes.Buffer
			e := gojson.NewEncoder(&b)
			e.SetEscapeHTML(false)
			err := e.EncodeWithOption(v, gojson.UnorderedMap())
			return b.Bytes(), err
		}, true, "\n"},
	}
}

// exactly one JSON value (white space around it allowed by the grammar, but the encoder writes none except the Encoder's newline)
func c03OneValue(b []byte) string {
	if !stdjson.Valid(b) {
		return "not a JSON value"
	}
	return ""
}

func c03HasSpecial(v reflect.Value, depth int) bool {
	found := false
	tgValueTypes(v, 0, func(reflect.Type) {})
	var walk func(v reflect.Value, d int)
	walk = func(v reflect.Value, d int) {
		if found || d > 14 || !v.IsValid() {
			return
		}
		switch v.Kind() {
		case reflect.Float32, reflect.Float64:
			if math.IsNaN(v.Float()) || math.IsInf(v.Float(), 0) {
				found = true
			}
		case reflect.Ptr, reflect.Interface:
			if !v.IsNil() {
				walk(v.Elem(), d+1)
			}
		case reflect.Slice, reflect.Array:
			for i := 0; i < v.Len(); i++ {
				walk(v.Index(i), d+1)
			}
		case reflect.Map:
			it := v.MapRange()
			for it.Next() {
				walk(it.Value(), d+1)
			}
		case reflect.Struct:
			for i := 0; i < v.NumField(); i++ {
				walk(v.Field(i), d+1)
			}
		}
	}
	walk(v, 0)
	return found
}

func runC03Child(o *Out) {
	r := o.rng
	ntypes := 1200
	if o.tier == "thorough" {
		ntypes = 15000
	}
	skip, _ := strconv.Atoi(os.Getenv("C03_SKIP_TYPES"))
	entries := c03Entries()
	reported := map[string]bool{}
	extra := []reflect.Type{reflect.TypeOf(C03MBytes{}), reflect.TypeOf(C03TBytes{}), reflect.TypeOf(float32(0)), reflect.TypeOf(float64(0)), reflect.TypeOf(stdjson.Number("")),
		reflect.TypeOf(stdjson.RawMessage(nil)), reflect.TypeOf([]float32(nil)), reflect.TypeOf(map[string]float32(nil)), reflect.TypeOf([]C03MBytes(nil)),
		reflect.TypeOf(map[C03TBytes]int(nil)), reflect.TypeOf(struct {
			A C03MBytes  `json:"a"`
			B *C03MBytes `json:"b,omitempty"`
			N stdjson.Number
			F float32 `json:",string"`
		}{}), reflect.TypeOf([]interface{}(nil))}
	check := func(t reflect.Type, v reflect.Value, ti int, source string) {
		os.WriteFile(o.dir+"/progress", []byte(strconv.Itoa(ti)), 0o644)
		for how := 0; how < 2; how++ {
			arg := c01Reach(v, how)
			_, stdErr := c01Safe(func() ([]byte, error) { return stdjson.Marshal(arg) })
			o.current(map[string]string{"property": "C03", "source": source, "type": clipN(t.String(), 600), "value": c01Describe(t, v), "reach": c01ReachName[how], "entry": "(every entry point in turn)", "crash_class": c01CrashClass(t, v, how)})
			for _, en := range entries {
				got, err := c01Safe(func() ([]byte, error) { return en.f(arg) })
				o.count("encodes", 1)
				key := t.String() + "|" + en.name
				if err != nil {
					o.count("encode_errors", 1)
					if stdErr != nil && c03MustFail(stdErr) {
						o.count("must_fail_checks_passed:"+en.name, 1)
					}
					continue
				}
				body := got
				if en.trail != "" {
					if !bytes.HasSuffix(got, []byte(en.trail)) {
						body = nil
					} else {
						body = got[:len(got)-len(en.trail)]
					}
				}
				problem := ""
				if body == nil {
					problem = "the Encoder's newline is missing"
				} else if p := c03OneValue(body); p != "" {
					problem = p
				} else if len(body) > 0 && (body[0] == ' ' || body[0] == '\n' || body[len(body)-1] == ' ' || body[len(body)-1] == '\n' || body[len(body)-1] == ',') {
					problem = "white space or a comma around the value"
				} else if en.utf8 && !utf8.Valid(body) {
					problem = "not valid UTF-8 although normalisation is on"
				} else if stdErr != nil && !strings.HasPrefix(stdErr.Error(), "PANIC") && !strings.Contains(en.name, "FieldQuery") && c03MustFail(stdErr) {
					// (audit A7: on every entry point, not on Marshal alone: the four interpreters and their helpers each have their own
					// copy of the checks; with a field query the part that cannot be encoded may be left out, so that entry is not judged)
					o.count("must_fail_checks_failed", 1)
					problem = "encoding/json refuses this value (" + clipN(stdErr.Error(), 80) + ") but the encoder reports success"
				}
				if problem == "" {
					continue
				}
				if reported[key] {
					o.count("repeat_problems", 1)
					continue
				}
				reported[key] = true
				if cls := c03Classify(t, v, problem); cls != "" {
					o.known(cls, fmt.Sprintf("%s %s", en.name, clipN(t.String(), 160)))
					continue
				}
				o.violation("C03", "successful encode is not one well-formed JSON text: "+problem, map[string]string{
					"source": source, "type": clipN(t.String(), 400), "value": c01Describe(t, v), "entry": en.name, "reach": c01ReachName[how], "output": clipN(string(got), 400), "output_hex": hx(got[:minInt(len(got), 200)])})
			}
		}
	}
	for ti := 0; ti < ntypes; ti++ {
		var t reflect.Type
		if ti%4 == 0 {
			t = extra[(ti/4)%len(extra)]
		} else {
			t = tgType(r, 3, tgOpts{named: true})
		}
		if t.Kind() == reflect.Interface {
			t = reflect.TypeOf(c01Wrap{})
		}
		v := reflect.New(t)
		tgValue(r, v.Elem(), 0, []int{0, 20, 50}[ti%3], true)
		// arbitrary marshaler output / interface contents
		tgValueTypes(v, 0, func(reflect.Type) {})
		c03Fill(r, v.Elem(), 0)
		if cls := tgKnownBadAnywhere(reflect.PtrTo(t), 0); cls != "" {
			continue
		}
		if ti < skip {
			continue
		}
		check(t, v, ti, "generated type")
	}
	c03AuditRun(o, ntypes, skip, check)
}

// the classes of values JSON cannot represent: the property demands an error for these
func c03MustFail(err error) bool {
	s := err.Error()
	return strings.Contains(s, "unsupported value") || strings.Contains(s, "unsupported type") || strings.Contains(s, "invalid number literal") ||
		strings.Contains(s, "error calling MarshalJSON") || strings.Contains(s, "invalid character") || strings.Contains(s, "unexpected end of JSON")
}

func c03Fill(r interface{ Intn(int) int }, v reflect.Value, depth int) {
	if depth > 10 || !v.IsValid() {
		return
	}
	switch v.Type() {
	case reflect.TypeOf(C03MBytes{}), reflect.TypeOf(C03TBytes{}):
		if v.CanSet() {
			v.Field(0).SetString(c03Payloads[r.Intn(len(c03Payloads))])
		}
		return
	}
	switch v.Kind() {
	case reflect.Ptr:
		if !v.IsNil() {
			c03Fill(r, v.Elem(), depth+1)
		}
	case reflect.Interface:
		if v.CanSet() && r.Intn(4) == 0 {
			switch r.Intn(4) {
			case 0:
				v.Set(reflect.ValueOf(float32(math.NaN())))
			case 1:
				v.Set(reflect.ValueOf(math.Inf(-1)))
			case 2:
				v.Set(reflect.ValueOf(C03MBytes{c03Payloads[r.Intn(len(c03Payloads))]}))
			default:
				v.Set(reflect.ValueOf(stdjson.Number([]string{"1", "abc", "1.", "-", "0x1", "1e5"}[r.Intn(6)])))
			}
		}
	case reflect.Slice, reflect.Array:
		for i := 0; i < v.Len(); i++ {
			c03Fill(r, v.Index(i), depth+1)
		}
	case reflect.Struct:
		for i := 0; i < v.NumField(); i++ {
			c03Fill(r, v.Field(i), depth+1)
		}
	case reflect.Map:
		if v.IsNil() || v.Type().Elem().Kind() != reflect.Struct && v.Type().Elem() != reflect.TypeOf(C03MBytes{}) {
			return
		}
		for _, k := range v.MapKeys() {
			e := reflect.New(v.Type().Elem()).Elem()
			e.Set(v.MapIndex(k))
			c03Fill(r, e, depth+1)
			v.SetMapIndex(k, e)
		}
	}
}

func c03Classify(t reflect.Type, v reflect.Value, problem string) string {
	ts := c01Shape(t, v)
	if strings.HasPrefix(problem, "not valid UTF-8") && (strings.Contains(ts, "main.C03MBytes") || strings.Contains(ts, "json.RawMessage")) {
		// the bytes a MarshalJSON method or a RawMessage supplies are checked for JSON syntax but copied without UTF-8 normalisation
		return "MarshalerOutputNotNormalized"
	}
	return ""
}

func runC03(o *Out) {
	self, _ := os.Executable()
	startAll := time.Now()
	skip := 0
	for attempt := 0; attempt < 25; attempt++ {
		dir := o.dir + "/run" + strconv.Itoa(attempt)
		limit := 180 * time.Second
		if o.tier == "thorough" {
			limit = 1800 * time.Second
		}
		cctx, cancel := context.WithTimeout(context.Background(), limit)
		cmd := exec.CommandContext(cctx, self, "C03child", o.tier, strconv.FormatInt(o.seed, 10), dir)
		cmd.Env = append(os.Environ(), "C03_SKIP_TYPES="+strconv.Itoa(skip), "VERIF_AS_LIMIT_MB=6000")
		var eb bytes.Buffer
		cmd.Stdout, cmd.Stderr = &eb, &eb
		err := cmd.Run()
		cancel()
		if err == nil {
			mergeChild(o, dir)
			break
		}
		det := map[string]string{"detail": err.Error(), "output": clipN(eb.String(), 700)}
		cls := ""
		if b, e := os.ReadFile(dir + "/current.json"); e == nil {
			det["case"] = string(b)
			var cur map[string]string
			if stdjson.Unmarshal(b, &cur) == nil {
				cls = cur["crash_class"]
			}
		}
		if cls != "" {
			o.known(cls, "crash: "+clipN(det["case"], 300))
		} else {
			o.violation("C03", "the encoder crashed the process", det)
		}
		if time.Since(startAll) > 2*limit {
			break
		}
		b, e := os.ReadFile(dir + "/progress")
		if e != nil {
			break
		}
		n, _ := strconv.Atoi(string(b))
		skip = n + 1
	}
}

// ---- audit strata (A7) ----

// more marshalers that return arbitrary bytes: on the pointer receiver, and a scalar kind
type C03PBytes struct{ B string }

func (m *C03PBytes) MarshalJSON() ([]byte, error) {
	if m == nil {
		return []byte("null"), nil
	}
	return []byte(m.B), nil
}

type C03SBytes string

func (m C03SBytes) MarshalJSON() ([]byte, error) { return []byte(m), nil }

type C03Emb struct {
	F32 float32 `json:"f32"`
	Num stdjson.Number
}

// the positions of what JSON cannot represent: every float width and json.Number and marshaler as element, map value and key,
// behind pointers, with ,string and omitempty, in embedded structs, inside interface{}; the unsupported kinds
type C03Positions struct {
	A    int
	F32  float32                   `json:"f32"`
	F64  float64                   `json:"f64,omitempty"`
	S32  float32                   `json:"s32,string"`
	S64  *float64                  `json:"s64,string,omitempty"`
	P32  *float32                  `json:"p32"`
	PP64 **float64                 `json:"pp64,omitempty"`
	L32  []float32                 `json:"l32"`
	L64  [2]float64                `json:"l64"`
	LP   []*float32                `json:"lp"`
	M32  map[string]float32        `json:"m32"`
	M64  map[int8]*float64         `json:"m64,omitempty"`
	N    stdjson.Number            `json:"n"`
	NS   stdjson.Number            `json:"ns,string"`
	NO   stdjson.Number            `json:"no,omitempty"`
	NP   *stdjson.Number           `json:"np"`
	NL   []stdjson.Number          `json:"nl"`
	NM   map[string]stdjson.Number `json:"nm"`
	NK   map[stdjson.Number]bool   `json:"nk"`
	MB   C03MBytes                 `json:"mb"`
	MP   *C03PBytes                `json:"mp,omitempty"`
	ML   []C03PBytes               `json:"ml"`
	MM   map[string]*C03PBytes     `json:"mm"`
	MS   map[C03TBytes]C03SBytes   `json:"ms"`
	MK   map[string]C03SBytes      `json:"mk,omitempty"`
	C03Emb
	E *C03Emb     `json:"e"`
	I interface{} `json:"i"`
	Z string      `json:"z"`
}

// c03PoisonOne puts ONE thing that cannot be encoded at a random position of the value (the rest stays encodable, so the failure
// happens with part of the output written); false if the value has no position for it
func c03PoisonOne(r interface{ Intn(int) int }, v reflect.Value) bool {
	var leaves []reflect.Value
	var walk func(v reflect.Value, d int)
	walk = func(v reflect.Value, d int) {
		if d > 12 || !v.IsValid() {
			return
		}
		switch v.Type() {
		case reflect.TypeOf(stdjson.Number("")), reflect.TypeOf(C03MBytes{}), reflect.TypeOf(C03TBytes{}), reflect.TypeOf(C03PBytes{}), reflect.TypeOf(C03SBytes("")):
			if v.CanSet() {
				leaves = append(leaves, v)
			}
			return
		}
		switch v.Kind() {
		case reflect.Float32, reflect.Float64:
			if v.CanSet() {
				leaves = append(leaves, v)
			}
		case reflect.Interface:
			if v.CanSet() {
				leaves = append(leaves, v)
			}
		case reflect.Ptr:
			if !v.IsNil() {
				walk(v.Elem(), d+1)
			}
		case reflect.Slice, reflect.Array:
			for i := 0; i < v.Len(); i++ {
				walk(v.Index(i), d+1)
			}
		case reflect.Struct:
			for i := 0; i < v.NumField(); i++ {
				if v.Type().Field(i).PkgPath == "" {
					walk(v.Field(i), d+1)
				}
			}
		}
	}
	walk(v, 0)
	if len(leaves) == 0 {
		return false
	}
	l := leaves[r.Intn(len(leaves))]
	badText := []string{"{", "[1,]", "tru", "1 2", `"a`, "nul", "-", "01", "NaN", "{\"a\":}", ""}[r.Intn(11)]
	switch {
	case l.Type() == reflect.TypeOf(stdjson.Number("")):
		l.SetString([]string{"abc", "1.", "+1", "0x10", "1e", "--1", "1 2", "NaN", "01", "-", ".5", "Infinity", "1,2", "\"1\""}[r.Intn(14)])
	case l.Type() == reflect.TypeOf(C03SBytes("")):
		l.SetString(badText)
	case l.Kind() == reflect.Struct:
		l.Field(0).SetString(badText)
		if l.Type() == reflect.TypeOf(C03TBytes{}) {
			return false // any text can be written as a string
		}
	case l.Kind() == reflect.Interface:
		f32, f64 := float32(math.Inf(-1)), math.NaN()
		l.Set(reflect.ValueOf([]interface{}{float32(math.NaN()), math.Inf(1), &f32, &f64, []float32{0, f32}, map[string]interface{}{"a": 1, "b": f64}, stdjson.Number("1x"), C03MBytes{B: badText}, &C03PBytes{B: "[" + badText},
			make(chan int), func() {}, complex(1, 2), complex64(1), [2]chan bool{}, map[string]interface{}{"f": func() {}}, struct {
				A int
				C chan int
			}{}}[r.Intn(16)]))
	default:
		l.SetFloat([]float64{math.NaN(), math.Inf(1), math.Inf(-1)}[r.Intn(3)])
	}
	return true
}

func c03AuditRun(o *Out, first, skip int, check func(reflect.Type, reflect.Value, int, string)) {
	r := rand.New(rand.NewSource(o.seed*1000003 + 0xA703))
	n := first
	// 1. exactly one position that cannot be encoded, in generated types and in the table of positions
	rounds := 300
	if o.tier == "thorough" {
		rounds = 10000
	}
	posT := reflect.TypeOf(C03Positions{})
	for i := 0; i < rounds; i++ {
		n++
		t := posT
		if i%3 == 2 {
			t = tgType(r, 3, tgOpts{named: true})
			if t.Kind() == reflect.Interface {
				t = reflect.TypeOf(c01Wrap{})
			}
		}
		v := reflect.New(t)
		tgValue(r, v.Elem(), 0, []int{0, 10, 30}[i%3], false)
		if t == posT {
			c03FixPositions(r, v.Elem())
		}
		poisoned := i%5 != 0 && c03PoisonOne(r, v.Elem())
		if tgKnownBadAnywhere(reflect.PtrTo(t), 0) != "" || n < skip {
			continue
		}
		if poisoned {
			o.count("audit_values_with_one_unencodable_position", 1)
		} else {
			o.count("audit_values_of_the_position_table_left_encodable", 1)
		}
		check(t, v, n, "audit: one position that cannot be encoded")
	}
	// 2. the shapes and sizes of C01's audit strata (c01.go): is what the encoder writes for them JSON
	ar := rand.New(rand.NewSource(o.seed*1000003 + 0xA713))
	var cases []c01AuditCase
	cases = append(cases, c01AuditMapKeys(ar, o.tier)...)
	cases = append(cases, c01AuditIfaces(ar, o.tier)...)
	cases = append(cases, c01AuditEmbedded(ar, o.tier)...)
	cases = append(cases, c01AuditSizes(ar, o.tier)...)
	cases = append(cases, c01AuditPayloads(ar, o.tier)...)
	for _, c := range cases {
		n++
		t := c.v.Type().Elem()
		if c.open != "" {
			o.count("audit_open_defect_cases:"+c.open, 1)
			if os.Getenv("AUDIT_OPEN") != "1" || strings.HasSuffix(c.open, "(crash)") {
				continue
			}
		}
		if n < skip || tgKnownBadAnywhere(reflect.PtrTo(t), 0) != "" || c01CrashClass(t, c.v, 0) != "" || c01CrashClass(t, c.v, 1) != "" {
			continue
		}
		if c.reaches != nil && c.reaches[0] != 0 {
			continue
		}
		o.count("audit_values:"+c.stratum, 1)
		check(t, c.v, n, "audit stratum "+c.stratum+": "+c.name)
	}
	// 3. the unsupported kinds in every position: an error, never output
	unsupported := []interface{}{make(chan int), (chan int)(nil), func() {}, complex(1, 1), complex64(2), unsafe.Pointer(nil),
		[]chan int{nil}, []func(){}, map[string]complex128{"a": 1}, map[string]chan int{}, [1]func(){}, struct{ C chan int }{}, struct {
			A int
			F func() `json:"f,omitempty"`
		}{}, struct {
			A int
			C *chan int
		}{}, &struct{ X complex64 }{}, []interface{}{1, make(chan int)}, map[string]interface{}{"a": func() {}}, struct{ I interface{} }{complex(0, 1)},
		[]interface{}{(chan int)(nil)}, map[string]interface{}{"a": (func())(nil)}, struct{ I interface{} }{map[bool]int(nil)}}
	for i, x := range unsupported {
		n++
		if n < skip {
			continue
		}
		v := c01AuditOf(x)
		if c01CrashClass(v.Type().Elem(), v, 0) != "" {
			continue // pointer-shaped aggregates: the recorded family
		}
		if i >= len(unsupported)-3 {
			// found by this audit, not in KNOWN_FINDINGS.txt: a nil chan / func / map with an unsupported key inside interface{} is written as null
			o.count("audit_open_defect_cases:NilValueOfUnsupportedTypeInInterface", 1)
			if os.Getenv("AUDIT_OPEN") != "1" {
				continue
			}
		}
		o.count("audit_values:unsupported kinds", 1)
		check(v.Type().Elem(), v, n, "audit: unsupported kinds")
	}
}

// c03FixPositions makes the table of positions populated (no nil maps / slices / pointers) with encodable values
func c03FixPositions(r *rand.Rand, v reflect.Value) {
	f32, f64 := float32(1.5), -2.25
	pf64 := &f64
	num := stdjson.Number("12")
	p := v.Addr().Interface().(*C03Positions)
	p.S64, p.P32, p.PP64 = &f64, &f32, &pf64
	p.L32, p.LP = []float32{1, 2}, []*float32{&f32, nil, &f32}
	p.M32, p.M64 = map[string]float32{"a": 1, "b": 2}, map[int8]*float64{1: &f64, -1: nil}
	p.N, p.NS, p.NO, p.NP = "1", "2.5", "-3e2", &num
	p.NL, p.NM, p.NK = []stdjson.Number{"1", "0"}, map[string]stdjson.Number{"x": "1E2"}, map[stdjson.Number]bool{"7": true, "-1.5": false}
	p.MB, p.MP = C03MBytes{B: ` {"ok":[1,2]} `}, &C03PBytes{B: "[true]"}
	p.ML, p.MM = []C03PBytes{{B: "1"}, {B: `"s"`}}, map[string]*C03PBytes{"a": {B: "null"}, "n": nil}
	p.MS, p.MK = map[C03TBytes]C03SBytes{{B: "k<\"\n"}: `{"x":1}`}, map[string]C03SBytes{"a": "12", "b": ` [ ] `}
	p.C03Emb, p.E = C03Emb{F32: 1, Num: "0"}, &C03Emb{F32: 2, Num: "5"}
	p.I = []interface{}{1.5, float32(2), stdjson.Number("3"), C03MBytes{B: "{}"}, &C03PBytes{B: "[]"}, map[string]interface{}{"k": &f32}}[r.Intn(6)]
	p.Z = tgStrings[r.Intn(len(tgStrings))]
}
