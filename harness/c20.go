package main

import (
	"bytes"
	stdjson "encoding/json"
	"fmt"
	"reflect"
	"sort"
	"strings"
	"sync"

	gojson "github.com/goccy/go-json"
)

func init() { props["C20"] = runC20 }

var pathAlphabet = []byte{'$', '.', '[', ']', '*', '\'', '"', '0', '1', 'a', 'b', ' ', '-'}

func boolc(b bool) byte {
	if b {
		return '1'
	}
	return '0'
}

func c20BuildObs(s string) []byte {
	var p *gojson.Path
	err := safeCall(func() error {
		var e error
		p, e = gojson.CreatePath(s)
		return e
	})
	if err != nil {
		if strings.HasPrefix(err.Error(), "PANIC") {
			return []byte("panic")
		}
		return []byte("E")
	}
	return []byte("O" + p.PathString() + " " + string([]byte{boolc(p.UsedSingleQuotePathSelector()), boolc(p.UsedDoubleQuotePathSelector())}))
}

// ---------- reference evaluation on decoded documents ----------
// The accepted syntax parsed independently: a list of steps.
type step struct {
	kind string // "child", "index", "all", "desc"
	name string
	idx  int
}

// parse the printed form produced by PathString ($ or .a[0][*]..b), which is
// canonical for paths without quoting needs; ok=false when not expressible
func refSteps(printed string) ([]step, bool) {
	if printed == "$" {
		return nil, true
	}
	var out []step
	s := printed
	for len(s) > 0 {
		switch {
		case strings.HasPrefix(s, ".."):
			s = s[2:]
			n := strings.IndexAny(s, ".[")
			if n < 0 {
				n = len(s)
			}
			out = append(out, step{kind: "desc", name: s[:n]})
			s = s[n:]
		case s[0] == '.':
			s = s[1:]
			n := strings.IndexAny(s, ".[")
			if n < 0 {
				n = len(s)
			}
			out = append(out, step{kind: "child", name: s[:n]})
			s = s[n:]
		case strings.HasPrefix(s, "[*]"):
			out = append(out, step{kind: "all"})
			s = s[3:]
		case s[0] == '[':
			n := strings.IndexByte(s, ']')
			if n < 0 {
				return nil, false
			}
			var i int
			if _, err := fmt.Sscanf(s[1:n], "%d", &i); err != nil {
				return nil, false
			}
			out = append(out, step{kind: "index", idx: i})
			s = s[n+1:]
		default:
			return nil, false
		}
	}
	return out, true
}

// ordered document: objects keep member order
type omember struct {
	k string
	v interface{}
}
type oobject []omember

func parseOrdered(b []byte) (interface{}, error) {
	d := stdjson.NewDecoder(bytes.NewReader(b))
	d.UseNumber()
	v, err := parseOrderedVal(d)
	if err != nil {
		return nil, err
	}
	return v, nil
}

func parseOrderedVal(d *stdjson.Decoder) (interface{}, error) {
	t, err := d.Token()
	if err != nil {
		return nil, err
	}
	switch x := t.(type) {
	case stdjson.Delim:
		if x == '{' {
			var o oobject
			for d.More() {
				kt, err := d.Token()
				if err != nil {
					return nil, err
				}
				v, err := parseOrderedVal(d)
				if err != nil {
					return nil, err
				}
				o = append(o, omember{kt.(string), v})
			}
			d.Token()
			if o == nil {
				o = oobject{}
			}
			return o, nil
		}
		arr := []interface{}{}
		for d.More() {
			v, err := parseOrderedVal(d)
			if err != nil {
				return nil, err
			}
			arr = append(arr, v)
		}
		d.Token()
		return arr, nil
	default:
		return t, nil
	}
}

func renderOrdered(v interface{}) string {
	switch x := v.(type) {
	case oobject:
		var sb strings.Builder
		sb.WriteByte('{')
		for i, m := range x {
			if i > 0 {
				sb.WriteByte(',')
			}
			k, _ := stdjson.Marshal(m.k)
			sb.Write(k)
			sb.WriteByte(':')
			sb.WriteString(renderOrdered(m.v))
		}
		sb.WriteByte('}')
		return sb.String()
	case []interface{}:
		var sb strings.Builder
		sb.WriteByte('[')
		for i, e := range x {
			if i > 0 {
				sb.WriteByte(',')
			}
			sb.WriteString(renderOrdered(e))
		}
		sb.WriteByte(']')
		return sb.String()
	default:
		b, _ := stdjson.Marshal(x)
		return string(b)
	}
}

// reference semantics (document order): child = member with that key (last
// duplicate wins is NOT applied: every match in order), index, wildcard over
// array elements, recursive descent = every member named so at any depth
func isScalar(x interface{}) bool {
	switch x.(type) {
	case oobject, []interface{}:
		return false
	}
	return true
}

func refEval(v interface{}, steps []step, scalarSelf bool) []interface{} {
	cur := []interface{}{v}
	for _, st := range steps {
		var next []interface{}
		for _, c := range cur {
			if scalarSelf && isScalar(c) && st.kind != "desc" {
				// the recorded deviation: a selector applied to a scalar yields the scalar
				next = append(next, c)
				continue
			}
			switch st.kind {
			case "child":
				if o, ok := c.(oobject); ok {
					for _, m := range o {
						if m.k == st.name {
							next = append(next, m.v)
						}
					}
				}
			case "index":
				if a, ok := c.([]interface{}); ok && st.idx >= 0 && st.idx < len(a) {
					next = append(next, a[st.idx])
				}
			case "all":
				if a, ok := c.([]interface{}); ok {
					next = append(next, a...)
				}
			case "desc":
				var walk func(x interface{})
				walk = func(x interface{}) {
					switch y := x.(type) {
					case oobject:
						for _, m := range y {
							if m.k == st.name {
								next = append(next, m.v)
							}
							walk(m.v)
						}
					case []interface{}:
						for _, e := range y {
							walk(e)
						}
					}
				}
				walk(c)
			}
		}
		cur = next
	}
	return cur
}

func canonJSON(b []byte) string {
	v, err := parseOrdered(b)
	if err != nil {
		// scalar strings come back without their quotes (part of SelectorOnScalar)
		q, _ := stdjson.Marshal(string(b))
		return string(q)
	}
	return renderOrdered(v)
}

var c20Docs = []string{
	`{"a":1,"b":{"a":2,"c":[{"a":3},{"a":4,"b":[5,6]}]},"0":"z","1":[10,[11,12]]}`,
	`[{"a":1},{"a":{"a":2}},[{"a":3}],7]`,
	`{"a":[1,2,3],"b":"s","c":null,"d":{"a":{"b":{"a":true}}}}`,
	`{"a":{"b":[{"c":1},{"c":2}]}}`,
	`[[0,1],[2,3]]`, `{}`, `[]`, `1`, `"s"`, `null`,
	`{"a":1,"a":2}`,
	`[0,10,20,30,40,50,60,70,80,90,100,110,120]`, `{"a":[0,1,2,3,4,5,6,7,8,9,10,11,12]}`,
}

func extractObs(p *gojson.Path, doc []byte) string {
	var out [][]byte
	err := safeCall(func() error {
		var e error
		out, e = p.Extract(doc)
		return e
	})
	if err != nil {
		if strings.HasPrefix(err.Error(), "PANIC") {
			return "panic"
		}
		return "E"
	}
	parts := make([]string, len(out))
	for i, o := range out {
		parts[i] = canonJSON(o)
	}
	return "O[" + strings.Join(parts, ",") + "]"
}

// frozen classes of the recorded evaluation findings
func classifyC20(printed string, steps []step, doc string) string {
	if strings.Contains(doc, `"a":1,"a":2`) {
		return "PathDuplicateKey"
	}
	return ""
}

func runC20(o *Out) {
	thorough := o.tier == "thorough"
	maxLen := 5
	if thorough {
		maxLen = 6
	}
	accepted := map[string]string{} // path -> printed
	n := 0
	enumStrings(pathAlphabet, maxLen, func(b []byte) {
		n++
		s := string(b)
		obs := c20BuildObs(s)
		o.count("build_cases", 1)
		if string(obs) == "panic" {
			o.violation("C20", "CreatePath panicked", map[string]string{"path": fmt.Sprintf("%q", s)})
		}
		if len(b) <= 4 || n%37 == 0 || obs[0] == 'O' {
			o.emit("A", "c20.build", [][]byte{b}, obs, nil, false)
		}
		if obs[0] == 'O' {
			accepted[s] = string(obs[1 : len(obs)-3])
			o.hist("accepted_len", fmt.Sprint(len(b)))
		}
	})
	// longer hand-written paths
	for _, s := range []string{"$.a.b", "$.b.c[1].a", "$.b.c[*]", "$..a", "$.b..a", "$['a']", "$['b']['a']", "$.\"a\"", "$.b.\"a\"", "$.1[1][0]", "$[1].a.a",
		"$.a[-1]", "$.a[+1]", "$.a[01]", "$[*][0]", "$[*].a", "$.d.a.b.a", "$['a'", "$.x['a'", "$['a']['b'", "$['a'x", "$[9223372036854775807]", "$[9223372036854775808]",
		"$.a.", "$.a[", "$.a[*", "$.a[*]x", "$..", "$...a", "$..[0]", "$.a\"b\"", "$.\"a.b\".c", "$['a.b'].c", "$.é",
		// index spellings: leading zeros are decimal, nothing but digits is an index
		"$[010]", "$[08]", "$[09]", "$[0011]", "$.a[007]", "$[012]", "$[0x1]", "$[0b1]", "$[0o7]", "$[1_0]", "$[1e1]", "$[ 1]", "$[1 ]", "$[00]", "$[10]", "$[11]", "$[12]"} {
		obs := c20BuildObs(s)
		o.emit("A", "c20.build", [][]byte{[]byte(s)}, obs, nil, false)
		if obs[0] == 'O' {
			accepted[s] = string(obs[1 : len(obs)-3])
		}
	}
	// evaluation of every accepted path on every document, against the reference
	var paths []string
	for p := range accepted {
		paths = append(paths, p)
	}
	sort.Strings(paths)
	for _, ps := range paths {
		printed := accepted[ps]
		steps, ok := refSteps(printed)
		if !ok {
			continue
		}
		for _, doc := range c20Docs {
			p, err := gojson.CreatePath(ps)
			if err != nil {
				continue
			}
			got := extractObs(p, []byte(doc))
			rv, _ := parseOrdered([]byte(doc))
			sel := refEval(rv, steps, false)
			parts := make([]string, len(sel))
			for i, x := range sel {
				parts[i] = renderOrdered(x)
			}
			want := "O[" + strings.Join(parts, ",") + "]"
			o.count("extract_cases", 1)
			if got == "panic" {
				o.violation("C20", "Extract panicked", map[string]string{"path": ps, "doc": doc})
				continue
			}
			if got != want {
				if cls := classifyC20(printed, steps, doc); cls != "" {
					o.known(cls, fmt.Sprintf("%s on %s: got %s want %s", ps, doc, got, want))
					continue
				}
				o.violation("C20", "Extract differs from the reference evaluation", map[string]string{"path": ps, "doc": doc, "got": got, "want": want})
			} else {
				o.hist("extract", "agree")
			}
			// Path.Get on the decoded document: never a panic; for a single selected part, that part
			var src interface{}
			if stdjson.Unmarshal([]byte(doc), &src) == nil {
				var dst interface{}
				gerr := safeCall(func() error { return p.Get(src, &dst) })
				o.count("get_cases", 1)
				if gerr != nil && strings.HasPrefix(gerr.Error(), "PANIC") {
					o.violation("C20", "Path.Get panicked", map[string]string{"path": ps, "doc": doc, "panic": gerr.Error()})
				} else if gerr == nil && len(sel) == 1 && got == want && !strings.Contains(ps, "..") {
					// (a path with recursive descent yields the list of its matches, also when there is one)
					var wantV interface{}
					stdjson.Unmarshal([]byte(parts[0]), &wantV)
					if strings.Contains(doc, `"a":1,"a":2`) {
						// a decoded map holds one value per name: documents with a repeated name are left to Extract
					} else if !reflect.DeepEqual(dst, wantV) {
						o.violation("C20", "Path.Get returns something else than the selected part", map[string]string{"path": ps, "doc": doc, "got": fmt.Sprintf("%#v", dst), "want": parts[0]})
					} else {
						o.hist("get", "agree")
					}
				}
			}
			// purity: the same Path again, after a failing document, and PathString unchanged
			before := p.PathString()
			p.Extract([]byte(`{"a":`)) // fails
			p.Extract([]byte(`[1,`))   // fails
			again := extractObs(p, []byte(doc))
			if again != got || p.PathString() != before {
				o.violation("C20", "a reused Path behaves differently after failed calls", map[string]string{"path": ps, "doc": doc, "first": got, "again": again, "printed": before, "printed_after": p.PathString()})
			}
		}
	}
	// the same evaluations, and histories on one Path value, through the Coq model
	c20ModelCases(o, accepted, paths)
	// histories: one Path, a sequence of documents some of which fail; every
	// answer must equal the answer of a fresh Path
	hist := 300
	if thorough {
		hist = 3000
	}
	evalPaths := []string{"$.a", "$.b.a", "$.b.c[1].a", "$[0].a", "$[1].a.a", "$[*]", "$.a[1]", "$.1[1][0]", "$[1][0]", "$.d.a.b.a", "$['a']", "$.\"b\".c[0]"}
	bad := []string{`{"a":`, `[1,`, `{"b":{"c":[1,`, `x`, ``, `{"a":01}`}
	for h := 0; h < hist; h++ {
		ps := evalPaths[o.rng.Intn(len(evalPaths))]
		p, err := gojson.CreatePath(ps)
		if err != nil {
			continue
		}
		for k := 0; k < 6; k++ {
			var doc string
			if o.rng.Intn(3) == 0 {
				doc = bad[o.rng.Intn(len(bad))]
			} else {
				doc = c20Docs[o.rng.Intn(len(c20Docs))]
			}
			fresh, _ := gojson.CreatePath(ps)
			got := extractObs(p, []byte(doc))
			want := extractObs(fresh, []byte(doc))
			o.count("history_calls", 1)
			if got != want {
				o.violation("C20", "Extract on a reused Path differs from a fresh Path", map[string]string{"path": ps, "doc": doc, "step": fmt.Sprint(k), "got": got, "fresh": want})
			}
			// Path.Unmarshal decodes the same parts
			var u, uf interface{}
			e1 := safeCall(func() error { return p.Unmarshal([]byte(doc), &u) })
			e2 := safeCall(func() error { return fresh.Unmarshal([]byte(doc), &uf) })
			ub, _ := stdjson.Marshal(u)
			ufb, _ := stdjson.Marshal(uf)
			if (e1 != nil) != (e2 != nil) || !bytes.Equal(ub, ufb) {
				o.violation("C20", "Path.Unmarshal on a reused Path differs from a fresh Path", map[string]string{"path": ps, "doc": doc})
			}
		}
	}
	// two goroutines on one Path
	for _, ps := range evalPaths {
		p, err := gojson.CreatePath(ps)
		if err != nil {
			continue
		}
		doc := []byte(c20Docs[0])
		fresh, _ := gojson.CreatePath(ps)
		want := extractObs(fresh, doc)
		var wg sync.WaitGroup
		var mu sync.Mutex
		bad := 0
		for g := 0; g < 4; g++ {
			wg.Add(1)
			go func() {
				defer wg.Done()
				for i := 0; i < 300; i++ {
					if extractObs(p, doc) != want {
						mu.Lock()
						bad++
						mu.Unlock()
					}
					p.Extract([]byte(`{"a":`))
				}
			}()
		}
		wg.Wait()
		o.count("concurrent_calls", 1200)
		if bad > 0 {
			o.violation("C20", "concurrent Extract on one Path gives wrong results", map[string]string{"path": ps, "bad": fmt.Sprint(bad)})
		}
	}
}
