package main

// C02: Unmarshal agrees with encoding/json on every valid document and target.
// Types: the C01 grammar plus Unmarshaler / TextUnmarshaler implementers
// (values, elements, map keys).  Documents: generated FOR the type (so that
// most of the text reaches the typed decoders) with deviations -- null in
// every position, values of the wrong kind, integers at and beyond every
// range boundary in several spellings, escapes in strings and in keys, keys
// in other letter case, unknown and duplicate keys, short and long arrays,
// white space -- always RFC 8259-valid and UTF-8-valid.  Destinations: zero
// and pre-populated (the same pseudo-random value built twice).  Entry points:
// Unmarshal, UnmarshalWithOption (no option), UnmarshalContext, Decoder.Decode
// with UseNumber / DisallowUnknownFields on and off.  Oracle: encoding/json:
// an error exactly when it reports one; on success deeply equal destinations.

import (
	"bytes"
	"context"
	stdjson "encoding/json"
	"fmt"
	"math/rand"
	"os"
	"os/exec"
	"reflect"
	"strconv"
	"strings"
	"time"
	"unicode/utf8"

	gojson "github.com/goccy/go-json"
)

func init() { props["C02"] = runC02; props["C02child"] = runC02Child }

// ---- implementers ----

type C02UJ struct {
	Raw string
	N   int
}

func (u *C02UJ) UnmarshalJSON(b []byte) error {
	if len(b) > 0 && b[0] == '[' {
		return fmt.Errorf("C02UJ refuses arrays")
	}
	u.Raw = string(b)
	u.N++
	return nil
}

type C02UT struct {
	Text string
	N    int
}

func (u *C02UT) UnmarshalText(b []byte) error {
	if string(b) == "bad" {
		return fmt.Errorf("C02UT refuses bad")
	}
	u.Text = string(b)
	u.N++
	return nil
}

type C02Key string

func (k *C02Key) UnmarshalText(b []byte) error {
	*k = C02Key("k:" + string(b))
	return nil
}

type C02UJVal int // UnmarshalJSON on a non-struct

func (u *C02UJVal) UnmarshalJSON(b []byte) error {
	*u = C02UJVal(len(b))
	return nil
}

var c02Named = []reflect.Type{
	reflect.TypeOf(C02UJ{}), reflect.TypeOf(C02UT{}), reflect.TypeOf(C02UJVal(0)), reflect.TypeOf(TgNamedStr("")), reflect.TypeOf(TgNamedInt(0)),
	reflect.TypeOf(TgNamedSlice(nil)), reflect.TypeOf(TgNamedMap(nil)), reflect.TypeOf(stdjson.Number("")), reflect.TypeOf(stdjson.RawMessage(nil)),
	reflect.TypeOf(TgRec{}), reflect.TypeOf(TgMutA{}), reflect.TypeOf(TgEmbed{}),
}

func c02Type(r *rand.Rand, depth int) reflect.Type {
	k := r.Intn(22)
	if depth <= 0 && k >= 9 {
		k = r.Intn(9)
	}
	switch {
	case k < 6:
		return tgBasic[r.Intn(len(tgBasic))]
	case k < 8:
		return c02Named[r.Intn(len(c02Named))]
	case k == 8:
		return tgIface
	case k < 11:
		return reflect.PtrTo(c02Type(r, depth-1))
	case k < 13:
		return reflect.SliceOf(c02Type(r, depth-1))
	case k < 15:
		return reflect.ArrayOf(r.Intn(4), c02Type(r, depth-1))
	case k < 18:
		var key reflect.Type
		switch r.Intn(8) {
		case 0:
			key = reflect.TypeOf(int(0))
		case 1:
			key = reflect.TypeOf(uint8(0))
		case 2:
			key = reflect.TypeOf(C02Key(""))
		case 3:
			key = reflect.TypeOf(int64(0))
		case 4:
			key = reflect.TypeOf(TgNamedStr(""))
		case 5:
			key = []reflect.Type{reflect.TypeOf(int8(0)), reflect.TypeOf(int16(0)), reflect.TypeOf(int32(0)), reflect.TypeOf(uint16(0)),
				reflect.TypeOf(uint32(0)), reflect.TypeOf(uint64(0)), reflect.TypeOf(uint(0)), reflect.TypeOf(uintptr(0))}[r.Intn(8)]
		default:
			key = reflect.TypeOf("")
		}
		return reflect.MapOf(key, c02Type(r, depth-1))
	default:
		return c02Struct(r, depth-1)
	}
}

func c02Struct(r *rand.Rand, depth int) reflect.Type {
	n := 1 + r.Intn(6)
	if r.Intn(8) == 0 {
		n = 9 + r.Intn(10)
	}
	var fs []reflect.StructField
	used := map[string]bool{}
	for i := 0; i < n; i++ {
		ft := c02Type(r, depth)
		if ft == reflect.TypeOf(TgRec{}) || ft == reflect.TypeOf(TgMutA{}) {
			ft = reflect.PtrTo(ft)
		}
		f := reflect.StructField{Name: fmt.Sprintf("F%d", i), Type: ft}
		if r.Intn(10) == 0 {
			et := []reflect.Type{reflect.TypeOf(TgEmbBase{}), reflect.TypeOf(TgEmbPtr{}), reflect.TypeOf(TgEmbOther{})}[r.Intn(3)]
			if !used[et.Name()] {
				used[et.Name()] = true
				if r.Intn(2) == 0 {
					fs = append(fs, reflect.StructField{Name: et.Name(), Type: et, Anonymous: true})
				} else {
					fs = append(fs, reflect.StructField{Name: et.Name(), Type: reflect.PtrTo(et), Anonymous: true})
				}
				continue
			}
		}
		var tag []string
		jname := ""
		switch r.Intn(8) {
		case 0:
			jname = "-"
		case 1:
			jname = fmt.Sprintf("n%d", i)
		case 2:
			jname = []string{"a&b", "<x>", "é", "with space", "UPPER", "id", "name", "Ünï", "kK"}[r.Intn(9)]
		}
		if jname != "" || r.Intn(2) == 0 {
			tag = append(tag, jname)
			if jname != "-" && r.Intn(4) == 0 {
				tag = append(tag, "omitempty")
			}
			if jname != "-" && r.Intn(6) == 0 {
				tag = append(tag, "string")
			}
			if len(tag) > 1 || tag[0] != "" {
				f.Tag = reflect.StructTag(`json:"` + strings.Join(tag, ",") + `"`)
			}
		}
		fs = append(fs, f)
	}
	return reflect.StructOf(fs)
}

// ---- documents for a type ----

var c02Ints = []string{"0", "-0", "1", "-1", "7", "127", "128", "-128", "-129", "255", "256", "32767", "32768", "-32768", "-32769", "65535", "65536",
	"2147483647", "2147483648", "-2147483648", "-2147483649", "4294967295", "4294967296", "9223372036854775807", "9223372036854775808",
	"-9223372036854775808", "-9223372036854775809", "18446744073709551615", "18446744073709551616", "123456789012345678901234567890",
	"1.0", "1.5", "1e2", "1E2", "1e0", "-1e1", "100e-2", "0.0", "1e19", "1e-1", "12e1", "0e0", "-0.0"}

var c02Floats = []string{"0", "-0", "1", "-1.5", "1e2", "1E+2", "1e-2", "0.1", "3.4028235e38", "3.4028236e38", "1e39", "-1e39", "1.7976931348623157e308", "1e309", "-1e400",
	"5e-324", "1e-400", "123456789012345678901234567890", "0.30000000000000004", "9007199254740993", "1.401298464324817e-45", "1e-46", "16777217", "0.000001", "1E400"}

var c02Strings = []string{`""`, `"a"`, `"abc"`, `"hello world"`, `"\""`, `"\\"`, `"\/"`, `"\b\f\n\r\t"`, `"\u0000"`, `"Aé€"`, `"😀"`, `"x😀y"`, `"\ud800"`,
	`"\udc00"`, `"\ud800A"`, `"\ud800\ud800"`, `"é€😀"`, `"<>&"`, `"  "`, `"0"`, `"12"`, `"-5"`, `"1.5"`, `"true"`, `"null"`, `" 1"`, `"1 "`, `"bad"`,
	`"AQID"`, `"AQI="`, `"AQI"`, `"AQ=="`, `"!!!!"`, `"QUJD\n"`, `"2006-01-02T15:04:05Z"`, `"\"quoted\""`, `"\"12\""`, `"\"true\""`, `"\"1.5\""`, `"\"abc\""`, `"\"\""`}

func c02WS(r *rand.Rand) string {
	if r.Intn(4) != 0 {
		return ""
	}
	return []string{" ", "\n", "\t", "\r\n ", "  "}[r.Intn(5)]
}

func c02Wrong(r *rand.Rand) string {
	return []string{`"str"`, `1`, `1.5`, `true`, `false`, `[1]`, `[]`, `{}`, `{"a":1}`, `"12"`, `-7`, `[[]]`, `{"F0":null}`, `""`}[r.Intn(14)]
}

func c02KeyFor(r *rand.Rand, kt reflect.Type) string {
	switch kt.Kind() {
	case reflect.String:
		return c02Strings[r.Intn(len(c02Strings))]
	case reflect.Int, reflect.Int8, reflect.Int16, reflect.Int32, reflect.Int64, reflect.Uint, reflect.Uint8, reflect.Uint16, reflect.Uint32, reflect.Uint64, reflect.Uintptr:
		if r.Intn(8) == 0 {
			return []string{`"abc"`, `"1.5"`, `" 1"`, `"01"`, `"+1"`, `""`, `"1e2"`, `"1"`, `"-0"`, `"0x1"`}[r.Intn(10)]
		}
		return `"` + c02Ints[r.Intn(30)] + `"`
	}
	return `"k"`
}

func c02FieldNames(t reflect.Type) []string {
	var names []string
	for i := 0; i < t.NumField(); i++ {
		f := t.Field(i)
		name := f.Name
		if tag := f.Tag.Get("json"); tag != "" {
			p := strings.Split(tag, ",")[0]
			if p == "-" && !strings.Contains(tag, ",") {
				names = append(names, "-") // a key "-" must be ignored
				continue
			}
			if p != "" {
				name = p
			}
		}
		if f.Anonymous {
			et := f.Type
			if et.Kind() == reflect.Ptr {
				et = et.Elem()
			}
			if et.Kind() == reflect.Struct && f.Tag.Get("json") == "" {
				names = append(names, c02FieldNames(et)...)
				continue
			}
		}
		names = append(names, name)
	}
	return names
}

func c02FieldTypeByName(t reflect.Type, name string) reflect.Type {
	for i := 0; i < t.NumField(); i++ {
		f := t.Field(i)
		n := f.Name
		if tag := f.Tag.Get("json"); tag != "" {
			if p := strings.Split(tag, ",")[0]; p != "" {
				n = p
			}
		}
		if f.Anonymous && f.Tag.Get("json") == "" {
			et := f.Type
			if et.Kind() == reflect.Ptr {
				et = et.Elem()
			}
			if et.Kind() == reflect.Struct {
				if ft := c02FieldTypeByName(et, name); ft != nil {
					return ft
				}
				continue
			}
		}
		if n == name {
			return f.Type
		}
	}
	return nil
}

func c02KeySpelling(r *rand.Rand, name string) string {
	switch r.Intn(10) {
	case 0:
		return strconvQuote(c02ASCIICase(name, true)) // letters outside ASCII keep their case: their folding is C15's open finding NonAsciiFold
	case 1:
		return strconvQuote(c02ASCIICase(name, false))
	case 2:
		// escape the first character
		if name != "" && name[0] < 0x80 {
			b, _ := stdjson.Marshal(name[1:])
			return fmt.Sprintf(`"\u%04x%s`, name[0], string(b[1:]))
		}
	case 3:
		if len(name) > 1 {
			return strconvQuote(name[:len(name)-1]) // a proper prefix: must not match
		}
	case 4:
		return strconvQuote(name + "x")
	}
	return strconvQuote(name)
}

func strconvQuote(s string) string {
	b, _ := stdjson.Marshal(s)
	return string(b)
}

func c02Doc(r *rand.Rand, t reflect.Type, depth int, quoted bool) string {
	if depth > 6 {
		return "null"
	}
	switch r.Intn(16) {
	case 0:
		return "null"
	case 1:
		return c02Wrong(r)
	}
	switch t {
	case reflect.TypeOf(stdjson.Number("")):
		return []string{"0", "-12", "1.5e3", "123456789012345678901234567890", `"12"`, `"abc"`, `""`, `"1e2"`, `true`, `" 1"`}[r.Intn(10)]
	case reflect.TypeOf(stdjson.RawMessage(nil)), reflect.TypeOf(C02UJ{}), reflect.TypeOf(C02UJVal(0)):
		return genValue(r, 2)
	case reflect.TypeOf(C02UT{}):
		return c02Strings[r.Intn(len(c02Strings))]
	}
	switch t.Kind() {
	case reflect.Bool:
		return []string{"true", "false"}[r.Intn(2)]
	case reflect.Int, reflect.Int8, reflect.Int16, reflect.Int32, reflect.Int64, reflect.Uint, reflect.Uint8, reflect.Uint16, reflect.Uint32, reflect.Uint64, reflect.Uintptr:
		s := c02Ints[r.Intn(len(c02Ints))]
		if r.Intn(3) == 0 {
			s = strconv.FormatInt(r.Int63()>>uint(r.Intn(64))*int64(1-2*r.Intn(2)), 10)
		}
		return s
	case reflect.Float32, reflect.Float64:
		return c02Floats[r.Intn(len(c02Floats))]
	case reflect.String:
		return c02Strings[r.Intn(len(c02Strings))]
	case reflect.Interface:
		return genValue(r, 2)
	case reflect.Ptr:
		return c02Doc(r, t.Elem(), depth+1, quoted)
	case reflect.Slice, reflect.Array:
		if t.Elem().Kind() == reflect.Uint8 && t.Kind() == reflect.Slice && r.Intn(3) > 0 {
			return c02Strings[r.Intn(len(c02Strings))]
		}
		n := r.Intn(5)
		if t.Kind() == reflect.Array && r.Intn(2) == 0 {
			n = t.Len()
		}
		var parts []string
		for i := 0; i < n; i++ {
			parts = append(parts, c02WS(r)+c02Doc(r, t.Elem(), depth+1, false)+c02WS(r))
		}
		return "[" + c02WS(r) + strings.Join(parts, ",") + "]"
	case reflect.Map:
		n := r.Intn(4)
		var parts []string
		for i := 0; i < n; i++ {
			k := c02KeyFor(r, t.Key())
			if i > 0 && r.Intn(5) == 0 {
				k = parts[0][:strings.Index(parts[0], ":")] // duplicate key
				k = strings.TrimSpace(k)
			}
			parts = append(parts, k+c02WS(r)+":"+c02WS(r)+c02Doc(r, t.Elem(), depth+1, false))
		}
		return "{" + c02WS(r) + strings.Join(parts, c02WS(r)+","+c02WS(r)) + c02WS(r) + "}"
	case reflect.Struct:
		names := c02FieldNames(t)
		var parts []string
		for _, name := range names {
			if r.Intn(4) == 0 {
				continue
			}
			ft := c02FieldTypeByName(t, name)
			val := "null"
			if ft != nil {
				val = c02Doc(r, ft, depth+1, false)
			} else {
				val = genValue(r, 1)
			}
			parts = append(parts, c02KeySpelling(r, name)+c02WS(r)+":"+c02WS(r)+val)
		}
		if r.Intn(3) == 0 {
			parts = append(parts, []string{`"unknown"`, `"F99"`, `""`, `"-"`, `"F0x"`}[r.Intn(5)]+":"+genValue(r, 2))
		}
		if len(parts) > 0 && r.Intn(4) == 0 {
			// the same key twice, the second with another value
			p := parts[r.Intn(len(parts))]
			k := p[:strings.Index(p, ":")]
			name := ""
			stdjson.Unmarshal([]byte(strings.TrimSpace(k)), &name)
			val := genValue(r, 1)
			if ft := c02FieldTypeByName(t, name); ft != nil {
				val = c02Doc(r, ft, depth+1, false)
			}
			parts = append(parts, k+":"+val)
		}
		r.Shuffle(len(parts), func(i, j int) { parts[i], parts[j] = parts[j], parts[i] })
		return "{" + c02WS(r) + strings.Join(parts, c02WS(r)+","+c02WS(r)) + c02WS(r) + "}"
	}
	return "null"
}

// ---- entry points ----

type c02Entry struct {
	name string
	goj  func(doc []byte, v interface{}) error
	std  func(doc []byte, v interface{}) error
}

func c02DecoderPair(useNumber, disallow bool) (func([]byte, interface{}) error, func([]byte, interface{}) error) {
	return func(doc []byte, v interface{}) error {
			d := gojson.NewDecoder(bytes.NewReader(doc))
			if useNumber {
				d.UseNumber()
			}
			if disallow {
				d.DisallowUnknownFields()
			}
			return d.Decode(v)
		}, func(doc []byte, v interface{}) error {
			d := stdjson.NewDecoder(bytes.NewReader(doc))
			if useNumber {
				d.UseNumber()
			}
			if disallow {
				d.DisallowUnknownFields()
			}
			return d.Decode(v)
		}
}

func c02Entries() []c02Entry {
	es := []c02Entry{
		{"Unmarshal", func(doc []byte, v interface{}) error { return gojson.Unmarshal(doc, v) }, stdjson.Unmarshal},
		{"UnmarshalWithOption", func(doc []byte, v interface{}) error { return gojson.UnmarshalWithOption(doc, v) }, stdjson.Unmarshal},
		{"UnmarshalContext", func(doc []byte, v interface{}) error { return gojson.UnmarshalContext(context.Background(), doc, v) }, stdjson.Unmarshal},
	}
	for _, un := range []bool{false, true} {
		for _, dis := range []bool{false, true} {
			g, s := c02DecoderPair(un, dis)
			es = append(es, c02Entry{fmt.Sprintf("Decoder(UseNumber=%v,DisallowUnknownFields=%v)", un, dis), g, s})
		}
	}
	return es
}

// a decoder that writes the wrong shape into the destination can make the comparison itself fault: the cases run
// in a child process; a crash is reported with the case that was running and the run goes on behind it
func runC02(o *Out) {
	slicePoolProbe(o, "C02")
	c15EmbeddedGenerated(o) // which field an object key reaches through embedded structs (shared with C15)
	self, _ := os.Executable()
	startAll := time.Now()
	skip := 0
	for attempt := 0; attempt < 25; attempt++ {
		dir := o.dir + "/run" + strconv.Itoa(attempt)
		limit := 240 * time.Second
		if o.tier == "thorough" {
			limit = 3000 * time.Second
		}
		cctx, cancel := context.WithTimeout(context.Background(), limit)
		cmd := exec.CommandContext(cctx, self, "C02child", o.tier, strconv.FormatInt(o.seed, 10), dir)
		cmd.Env = append(os.Environ(), "C02_SKIP="+strconv.Itoa(skip), "VERIF_AS_LIMIT_MB=6000")
		var eb bytes.Buffer
		cmd.Stdout, cmd.Stderr = &eb, &eb
		err := cmd.Run()
		cancel()
		if err == nil {
			mergeChild(o, dir)
			break
		}
		det := map[string]string{"detail": err.Error(), "output": clipN(eb.String(), 900)}
		if b, e := os.ReadFile(dir + "/current.json"); e == nil {
			det["case"] = string(b)
		}
		o.violation("C02", "decoding (or reading what was decoded) crashed the process", det)
		if _, e := os.Stat(dir + "/stats.json"); e == nil {
			mergeChild(o, dir) // what the child had gathered at its last checkpoint
		}
		if time.Since(startAll) > 2*limit {
			break
		}
		b, e := os.ReadFile(dir + "/progress")
		if e != nil {
			break
		}
		n, _ := strconv.Atoi(string(b))
		skip = n + 1
	}
}

func runC02Child(o *Out) {
	if os.Getenv("C02_SKIP") == "0" || os.Getenv("C02_SKIP") == "" {
		c02Sweep(o)
		o.checkpoint()
		c02ModelCases(o)
		o.checkpoint()
	}
	r := o.rng
	n := 3000
	if o.tier == "thorough" {
		n = 60000
	}
	skip, _ := strconv.Atoi(os.Getenv("C02_SKIP"))
	entries := c02Entries()
	for i := 0; i < n; i++ {
		var t reflect.Type
		if i%3 == 0 {
			t = c02Type(r, 3)
		} else {
			t = c02Struct(r, 2)
		}
		for k := 0; k < 3; k++ {
			doc := []byte(c02Doc(r, t, 0, false))
			seed := r.Int63()
			e := entries[r.Intn(len(entries))]
			if k == 0 {
				e = entries[0]
			}
			if i < skip {
				continue
			}
			if !utf8.Valid(doc) || !stdjson.Valid(doc) {
				o.count("generated_documents_not_valid_skipped", 1)
				continue
			}
			populated := k > 0
			mk := func() reflect.Value {
				v := reflect.New(t)
				if populated {
					tgValue(rand.New(rand.NewSource(seed)), v.Elem(), 0, 30, false)
				}
				return v
			}
			c02One(o, t, doc, mk, e, populated)
		}
		if i >= skip {
			os.WriteFile(o.dir+"/progress", []byte(strconv.Itoa(i)), 0o644)
			if i%100 == 99 {
				o.checkpoint()
			}
		}
	}
}

func c02One(o *Out, t reflect.Type, doc []byte, mk func() reflect.Value, e c02Entry, populated bool) {
	o.current(map[string]string{"property": "C02", "type": clipN(t.String(), 600), "doc": string(doc), "entry": e.name, "populated": fmt.Sprint(populated)})
	sv := mk()
	serr := e.std(doc, sv.Interface())
	gv := mk()
	gerr := c04SafeErr(func() error { return e.goj(doc, gv.Interface()) })
	o.count("decodes", 1)
	if serr != nil {
		o.hist("encoding_json", "error")
	} else {
		o.hist("encoding_json", "ok")
	}
	if (serr == nil) == (gerr == nil) && (serr != nil || reflect.DeepEqual(sv.Elem().Interface(), gv.Elem().Interface())) {
		return
	}
	what := "destinations differ"
	if (serr == nil) != (gerr == nil) {
		what = "error in one library only"
	}
	if gerr != nil && strings.HasPrefix(gerr.Error(), "PANIC") {
		what = "panic"
	}
	cls := c02Classify(t, doc, sv, gv, serr, gerr, e.name, populated)
	if cls == "" && populated && c02HasInterfacePointerChain(mk().Elem(), 0) {
		cls = "PopulatedInterfacePointerChain"
	}
	if cls == "" && serr == nil && gerr == nil && c02RepeatedKeyAndSlice(t, doc) {
		cls = "SliceSpareCapacityZeroed"
	}
	if cls != "" {
		o.known(cls, clipN(string(doc), 120)+" into "+clipN(t.String(), 160))
		return
	}
	initial := "zero"
	if populated {
		initial = clipN(fmt.Sprintf("%#v", mk().Elem().Interface()), 400)
	}
	o.violation("C02", what, map[string]string{
		"entry": e.name, "type": clipN(t.String(), 700), "doc": clipN(string(doc), 700), "initial": initial,
		"encoding_json_err": fmt.Sprint(serr), "go_json_err": fmt.Sprint(gerr),
		"encoding_json": clipN(fmt.Sprintf("%#v", sv.Elem().Interface()), 500), "go_json": clipN(fmt.Sprintf("%#v", gv.Elem().Interface()), 500)})
}

// the two open findings of C02, as predicates on the type and on the initial value (never on the outcome)
func c02Classify(t reflect.Type, doc []byte, sv, gv reflect.Value, serr, gerr error, entry string, populated bool) string {
	if c02HasStringTagOnUnmarshaler(t, 0) {
		return "StringTagOnUnmarshaler"
	}
	return ""
}

func c02IsUnmarshaler(t reflect.Type) bool {
	pt := reflect.PtrTo(t)
	return pt.Implements(reflect.TypeOf((*stdjson.Unmarshaler)(nil)).Elem()) || pt.Implements(reflect.TypeOf((*interface{ UnmarshalText([]byte) error })(nil)).Elem())
}

func c02HasStringTagOnUnmarshaler(t reflect.Type, depth int) bool {
	if depth > 10 {
		return false
	}
	switch t.Kind() {
	case reflect.Ptr, reflect.Slice, reflect.Array, reflect.Map:
		return c02HasStringTagOnUnmarshaler(t.Elem(), depth+1)
	case reflect.Struct:
		if t == reflect.TypeOf(TgRec{}) || t == reflect.TypeOf(TgMutA{}) || t == reflect.TypeOf(TgMutB{}) {
			return false
		}
		for i := 0; i < t.NumField(); i++ {
			f := t.Field(i)
			ft := f.Type
			if strings.Contains(f.Tag.Get("json"), ",string") {
				if ft.Name() == "" && ft.Kind() == reflect.Ptr {
					ft = ft.Elem()
				}
				switch ft.Kind() {
				case reflect.Bool, reflect.Int, reflect.Int8, reflect.Int16, reflect.Int32, reflect.Int64, reflect.Uint, reflect.Uint8, reflect.Uint16, reflect.Uint32, reflect.Uint64,
					reflect.Uintptr, reflect.Float32, reflect.Float64, reflect.String:
					if c02IsUnmarshaler(ft) {
						return true
					}
				}
			}
			if c02HasStringTagOnUnmarshaler(f.Type, depth+1) {
				return true
			}
		}
	}
	return false
}

// an interface that holds a pointer to an interface or to a pointer: encoding/json decodes through the chain,
// go-json replaces what the interface holds (or, for null, clears the interface)
func c02HasInterfacePointerChain(v reflect.Value, depth int) bool {
	if depth > 12 || !v.IsValid() {
		return false
	}
	switch v.Kind() {
	case reflect.Interface:
		if v.IsNil() {
			return false
		}
		e := v.Elem()
		if e.Kind() == reflect.Ptr && !e.IsNil() && (e.Elem().Kind() == reflect.Interface || e.Elem().Kind() == reflect.Ptr) {
			return true
		}
		return c02HasInterfacePointerChain(e, depth+1)
	case reflect.Ptr:
		if v.IsNil() {
			return false
		}
		return c02HasInterfacePointerChain(v.Elem(), depth+1)
	case reflect.Slice, reflect.Array:
		for i := 0; i < v.Len(); i++ {
			if c02HasInterfacePointerChain(v.Index(i), depth+1) {
				return true
			}
		}
	case reflect.Map:
		it := v.MapRange()
		for it.Next() {
			if c02HasInterfacePointerChain(it.Value(), depth+1) {
				return true
			}
		}
	case reflect.Struct:
		for i := 0; i < v.NumField(); i++ {
			if c02HasInterfacePointerChain(v.Field(i), depth+1) {
				return true
			}
		}
	}
	return false
}

func c02ASCIICase(s string, upper bool) string {
	b := []byte(s)
	for i, c := range b {
		if upper && 'a' <= c && c <= 'z' {
			b[i] = c - 32
		}
		if !upper && 'A' <= c && c <= 'Z' {
			b[i] = c + 32
		}
	}
	return string(b)
}

// ---- the deterministic sweep: every small destination x every boundary document x zero / populated x entry
// point.  What differs from encoding/json here must be in the frozen list c02SweepKnown (one line per case,
// each assigned to a finding); anything else is a violation. ----

type C02Sw struct {
	A int
	B *string
	C []byte `json:"c"`
	D map[string]int
	E interface{}
	F float32 `json:",string"`
	G uint8   `json:"g,string"`
	H [2]bool
	I *C02Sw `json:"i,omitempty"`
}

func c02SweepTypes() []reflect.Type {
	ts := append([]reflect.Type{}, tgBasic...)
	for _, v := range []interface{}{C02UJ{}, C02UT{}, C02UJVal(0), TgNamedStr(""), TgNamedInt(0), TgNamedSlice(nil), TgNamedMap(nil), stdjson.Number(""), stdjson.RawMessage(nil),
		(*int)(nil), (**int)(nil), (*string)(nil), []int(nil), [2]int{}, [0]int{}, map[string]int(nil), map[int]string(nil), map[C02Key]int(nil), map[uint8]bool(nil),
		[]interface{}(nil), map[string]interface{}(nil), C02Sw{}, (*C02Sw)(nil), []C02Sw(nil), [][]byte(nil), []*int8(nil), map[string]*C02UT(nil), struct{}{}} {
		ts = append(ts, reflect.TypeOf(v))
	}
	ts = append(ts, tgIface)
	return ts
}

func c02SweepDocs() []string {
	docs := []string{"null", "true", "false", "[]", "[1]", "[1,2,3]", `["a"]`, "[null]", "[[]]", "[1,\"a\",null]", "{}", `{"a":1}`, `{"A":1,"a":2}`, `{"a":1,"A":2}`, `{"1":"x"}`,
		`{"k":null}`, `{"1":1,"01":2}`, `{"-1":true}`, `{"256":true,"255":false}`, `{"a":{"b":[1]}}`, `{"":1}`,
		`{"c":"AQID","B":"s","d":{"x":1},"E":[1,"a",null],"F":"1.5","g":"255","H":[true],"i":{"A":7}}`, `{"A":null,"B":null,"c":null,"D":null,"E":null,"F":null,"g":null,"H":null,"i":null}`,
		`{"F":1.5}`, `{"F":"1e39"}`, `{"g":"256"}`, `{"g":" 1"}`, `{"H":[true,false,true]}`, `{"H":[]}`, `{"B":"x","B":null}`, `{"D":{"x":1},"D":{"y":2}}`, `{"E":{"a":1},"E":{"b":2}}`,
		`{"unknown":[1,{"a":"}"}],"A":5}`, `{"a":5}`, `{"A":6}`, `{"A":1e2}`, `{"A":"5"}`, `{"i":{"i":{"A":1}}}`, ` { "A" : 1 } `, `[{"A":1},null,{"A":3}]`, `["AQID",null,"AQI="]`, `[1,null,-128,127]`,
		`{"x":"a","y":null}`, `{"x":{"Text":"t"}}`}
	// many sibling values inside a region that is stepped over: nesting depth must not be confused with their number
	many := strings.Repeat("{},", 10050) + "{}"
	manyArr := strings.Repeat("[],", 10050) + "[]"
	docs = append(docs, `{"unknown":[`+many+`],"A":5}`, `[`+many+`]`, `{"unknown":{"k":[`+manyArr+`]},"A":6}`, `[1,2,[`+manyArr+`],[`+many+`]]`)
	docs = append(docs, c02Ints...)
	docs = append(docs, c02Floats...)
	docs = append(docs, c02Strings...)
	return docs
}

func c02Sweep(o *Out) {
	entries := c02Entries()
	use := []c02Entry{entries[0], entries[3], entries[5], entries[4]}
	for _, t := range c02SweepTypes() {
		for di, ds := range c02SweepDocs() {
			doc := []byte(ds)
			if !stdjson.Valid(doc) || !utf8.Valid(doc) {
				continue
			}
			o.current(map[string]string{"property": "C02", "type": t.String(), "doc": clipN(ds, 600), "sweep": "1"})
			for _, populated := range []bool{false, true} {
				seed := int64(1000 + di)
				mk := func() reflect.Value {
					v := reflect.New(t)
					if populated {
						tgValue(rand.New(rand.NewSource(seed)), v.Elem(), 0, 10, false)
					}
					return v
				}
				for _, e := range use {
					sv := mk()
					serr := e.std(doc, sv.Interface())
					gv := mk()
					gerr := c04SafeErr(func() error { return e.goj(doc, gv.Interface()) })
					o.count("sweep_decodes", 1)
					if (serr == nil) == (gerr == nil) && (serr != nil || reflect.DeepEqual(sv.Elem().Interface(), gv.Elem().Interface())) {
						continue
					}
					key := fmt.Sprintf("%s|%s|%v|%s", t.String(), clipN(ds, 200), populated, e.name)
					if cls, ok := c02SweepKnown[key]; ok {
						o.known(cls, key)
						continue
					}
					if os.Getenv("C02_RECORD") != "" {
						fmt.Fprintf(os.Stderr, "RECORD\t%q\tstd=%v %#v\tgoj=%v %#v\tinit=%#v\n", key, serr, sv.Elem().Interface(), gerr, gv.Elem().Interface(), mk().Elem().Interface())
						continue
					}
					o.violation("C02", "sweep: differs from encoding/json", map[string]string{
						"entry": e.name, "type": t.String(), "doc": clipN(ds, 600), "populated": fmt.Sprint(populated),
						"encoding_json_err": fmt.Sprint(serr), "go_json_err": fmt.Sprint(gerr),
						"encoding_json": clipN(fmt.Sprintf("%#v", sv.Elem().Interface()), 400), "go_json": clipN(fmt.Sprintf("%#v", gv.Elem().Interface()), 400),
						"initial": clipN(fmt.Sprintf("%#v", mk().Elem().Interface()), 300)})
				}
			}
		}
	}
}
