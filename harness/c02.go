package main

// C02: Unmarshal agrees with encoding/json on every valid document and target.
// Types: the C01 grammar plus Unmarshaler / TextUnmarshaler implementers
// (values, elements, map keys).  Documents: generated FOR the type (so that
// most of the text reaches the typed decoders) with deviations -- null in
// every position, values of the wrong kind, integers at and beyond every
// range boundary in several spellings, escapes in strings and in keys, keys
// in other letter case, unknown and duplicate keys, short and long arrays,
// white space -- always RFC 8259-valid and UTF-8-valid.  Destinations: zero
// and pre-populated (the same pseudo-random value built twice).  Entry points:
// Unmarshal, UnmarshalWithOption (no option), UnmarshalContext, Decoder.Decode
// with UseNumber / DisallowUnknownFields on and off.  Oracle: encoding/json:
// an error exactly when it reports one; on success deeply equal destinations.

import (
	"bytes"
	"context"
	"encoding"
	stdjson "encoding/json"
	"fmt"
	"math/big"
	"math/rand"
	"net"
	"os"
	"os/exec"
	"reflect"
	"sort"
	"strconv"
	"strings"
	"time"
	"unicode/utf8"
	"unsafe"

	gojson "github.com/goccy/go-json"
)

func init() { props["C02"] = runC02; props["C02child"] = runC02Child }

// ---- implementers ----

type C02UJ struct {
	Raw string
	N   int
}

func (u *C02UJ) UnmarshalJSON(b []byte) error {
	if len(b) > 0 && b[0] == '[' {
		return fmt.Errorf("C02UJ refuses arrays")
	}
	u.Raw = string(b)
	u.N++
	return nil
}

type C02UT struct {
	Text string
	N    int
}

func (u *C02UT) UnmarshalText(b []byte) error {
	if string(b) == "bad" {
		return fmt.Errorf("C02UT refuses bad")
	}
	u.Text = string(b)
	u.N++
	return nil
}

type C02Key string

func (k *C02Key) UnmarshalText(b []byte) error {
	*k = C02Key("k:" + string(b))
	return nil
}

type C02UJVal int // UnmarshalJSON on a non-struct

func (u *C02UJVal) UnmarshalJSON(b []byte) error {
	*u = C02UJVal(len(b))
	return nil
}

var c02Named = []reflect.Type{
	reflect.TypeOf(C02UJ{}), reflect.TypeOf(C02UT{}), reflect.TypeOf(C02UJVal(0)), reflect.TypeOf(TgNamedStr("")), reflect.TypeOf(TgNamedInt(0)),
	reflect.TypeOf(TgNamedSlice(nil)), reflect.TypeOf(TgNamedMap(nil)), reflect.TypeOf(stdjson.Number("")), reflect.TypeOf(stdjson.RawMessage(nil)),
	reflect.TypeOf(TgRec{}), reflect.TypeOf(TgMutA{}), reflect.TypeOf(TgEmbed{}),
	// implementer shapes (audit): methods on a slice, on a map (value receiver), both methods at once, a value-receiver
	// UnmarshalText, byte-kind elements with methods, a method promoted from an embedded struct
	reflect.TypeOf(C02USlice(nil)), reflect.TypeOf(C02UMap(nil)), reflect.TypeOf(C02Both{}), reflect.TypeOf(C02VT(0)),
	reflect.TypeOf([]C02NB(nil)), reflect.TypeOf([]C02TB(nil)), reflect.TypeOf([2]C02NB{}), reflect.TypeOf(C02EmbUJ{}),
	// implementers of the standard library: both methods (time.Time, big.Int), UnmarshalText on a []byte kind (net.IP)
	reflect.TypeOf(time.Time{}), reflect.TypeOf(big.Int{}), reflect.TypeOf(net.IP(nil)),
}

func c02Type(r *rand.Rand, depth int) reflect.Type {
	k := r.Intn(22)
	if depth <= 0 && k >= 9 {
		k = r.Intn(9)
	}
	switch {
	case k < 6:
		return tgBasic[r.Intn(len(tgBasic))]
	case k < 8:
		return c02Named[r.Intn(len(c02Named))]
	case k == 8:
		return tgIface
	case k < 11:
		return reflect.PtrTo(c02Type(r, depth-1))
	case k < 13:
		return reflect.SliceOf(c02Type(r, depth-1))
	case k < 15:
		return reflect.ArrayOf(r.Intn(4), c02Type(r, depth-1))
	case k < 18:
		var key reflect.Type
		switch r.Intn(8) {
		case 0:
			key = reflect.TypeOf(int(0))
		case 1:
			key = reflect.TypeOf(uint8(0))
		case 2:
			key = reflect.TypeOf(C02Key(""))
		case 3:
			key = reflect.TypeOf(int64(0))
		case 4:
			key = reflect.TypeOf(TgNamedStr(""))
		case 5:
			key = []reflect.Type{reflect.TypeOf(int8(0)), reflect.TypeOf(int16(0)), reflect.TypeOf(int32(0)), reflect.TypeOf(uint16(0)),
				reflect.TypeOf(uint32(0)), reflect.TypeOf(uint64(0)), reflect.TypeOf(uint(0)), reflect.TypeOf(uintptr(0))}[r.Intn(8)]
		default:
			key = reflect.TypeOf("")
		}
		return reflect.MapOf(key, c02Type(r, depth-1))
	default:
		return c02Struct(r, depth-1)
	}
}

func c02Struct(r *rand.Rand, depth int) reflect.Type {
	n := 1 + r.Intn(6)
	if r.Intn(8) == 0 {
		n = 9 + r.Intn(10)
	}
	var fs []reflect.StructField
	used := map[string]bool{}
	for i := 0; i < n; i++ {
		ft := c02Type(r, depth)
		if ft == reflect.TypeOf(TgRec{}) || ft == reflect.TypeOf(TgMutA{}) {
			ft = reflect.PtrTo(ft)
		}
		f := reflect.StructField{Name: fmt.Sprintf("F%d", i), Type: ft}
		if r.Intn(10) == 0 {
			et := []reflect.Type{reflect.TypeOf(TgEmbBase{}), reflect.TypeOf(TgEmbPtr{}), reflect.TypeOf(TgEmbOther{})}[r.Intn(3)]
			if !used[et.Name()] {
				used[et.Name()] = true
				if r.Intn(2) == 0 {
					fs = append(fs, reflect.StructField{Name: et.Name(), Type: et, Anonymous: true})
				} else {
					fs = append(fs, reflect.StructField{Name: et.Name(), Type: reflect.PtrTo(et), Anonymous: true})
				}
				continue
			}
		}
		var tag []string
		jname := ""
		switch r.Intn(8) {
		case 0:
			jname = "-"
		case 1:
			jname = fmt.Sprintf("n%d", i)
		case 2:
			// (audit) also: '/' (the one simple escape a name can need), a letter beyond U+FFFF (an escaped key spells it as a
			// surrogate pair), a name without letter case, names at the edge of the key matcher's length limit (64 bytes)
			jname = []string{"a&b", "<x>", "é", "with space", "UPPER", "id", "name", "Ünï", "kK", "a/b", "\U0001d49cz", "日本", "/",
				"L" + strings.Repeat("o", 61) + "ng", "L" + strings.Repeat("o", 62) + "ng", "x" + strings.Repeat("-", 60) + "Y"}[r.Intn(16)]
		}
		if jname != "" || r.Intn(2) == 0 {
			tag = append(tag, jname)
			if jname != "-" && r.Intn(4) == 0 {
				tag = append(tag, "omitempty")
			}
			if jname != "-" && r.Intn(6) == 0 {
				tag = append(tag, "string")
			}
			if len(tag) > 1 || tag[0] != "" {
				f.Tag = reflect.StructTag(`json:"` + strings.Join(tag, ",") + `"`)
			}
		}
		fs = append(fs, f)
	}
	return reflect.StructOf(fs)
}

// ---- documents for a type ----

var c02Ints = []string{"0", "-0", "1", "-1", "7", "127", "128", "-128", "-129", "255", "256", "32767", "32768", "-32768", "-32769", "65535", "65536",
	"2147483647", "2147483648", "-2147483648", "-2147483649", "4294967295", "4294967296", "9223372036854775807", "9223372036854775808",
	"-9223372036854775808", "-9223372036854775809", "18446744073709551615", "18446744073709551616", "123456789012345678901234567890",
	"1.0", "1.5", "1e2", "1E2", "1e0", "-1e1", "100e-2", "0.0", "1e19", "1e-1", "12e1", "0e0", "-0.0"}

var c02Floats = []string{"0", "-0", "1", "-1.5", "1e2", "1E+2", "1e-2", "0.1", "3.4028235e38", "3.4028236e38", "1e39", "-1e39", "1.7976931348623157e308", "1e309", "-1e400",
	"5e-324", "1e-400", "123456789012345678901234567890", "0.30000000000000004", "9007199254740993", "1.401298464324817e-45", "1e-46", "16777217", "0.000001", "1E400"}

var c02Strings = []string{`""`, `"a"`, `"abc"`, `"hello world"`, `"\""`, `"\\"`, `"\/"`, `"\b\f\n\r\t"`, `"\u0000"`, `"Aé€"`, `"😀"`, `"x😀y"`, `"\ud800"`,
	`"\udc00"`, `"\ud800A"`, `"\ud800\ud800"`, `"é€😀"`, `"<>&"`, `"  "`, `"0"`, `"12"`, `"-5"`, `"1.5"`, `"true"`, `"null"`, `" 1"`, `"1 "`, `"bad"`,
	`"AQID"`, `"AQI="`, `"AQI"`, `"AQ=="`, `"!!!!"`, `"QUJD\n"`, `"2006-01-02T15:04:05Z"`, `"\"quoted\""`, `"\"12\""`, `"\"true\""`, `"\"1.5\""`, `"\"abc\""`, `"\"\""`}

func c02WS(r *rand.Rand) string {
	if r.Intn(4) != 0 {
		return ""
	}
	return []string{" ", "\n", "\t", "\r\n ", "  "}[r.Intn(5)]
}

func c02Wrong(r *rand.Rand) string {
	return []string{`"str"`, `1`, `1.5`, `true`, `false`, `[1]`, `[]`, `{}`, `{"a":1}`, `"12"`, `-7`, `[[]]`, `{"F0":null}`, `""`}[r.Intn(14)]
}

func c02KeyFor(r *rand.Rand, kt reflect.Type) string {
	switch kt.Kind() {
	case reflect.String:
		if r.Intn(3) == 0 {
			return c02RandStringLit(r)
		}
		return c02Strings[r.Intn(len(c02Strings))]
	case reflect.Int, reflect.Int8, reflect.Int16, reflect.Int32, reflect.Int64, reflect.Uint, reflect.Uint8, reflect.Uint16, reflect.Uint32, reflect.Uint64, reflect.Uintptr:
		if r.Intn(8) == 0 {
			return []string{`"abc"`, `"1.5"`, `" 1"`, `"01"`, `"+1"`, `""`, `"1e2"`, `"1"`, `"-0"`, `"0x1"`}[r.Intn(10)]
		}
		return `"` + c02Ints[r.Intn(30)] + `"`
	}
	return `"k"`
}

func c02FieldNames(t reflect.Type) []string {
	var names []string
	for i := 0; i < t.NumField(); i++ {
		f := t.Field(i)
		name := f.Name
		if tag := f.Tag.Get("json"); tag != "" {
			p := strings.Split(tag, ",")[0]
			if p == "-" && !strings.Contains(tag, ",") {
				names = append(names, "-") // a key "-" must be ignored
				continue
			}
			if p != "" {
				name = p
			}
		}
		if f.Anonymous {
			et := f.Type
			if et.Kind() == reflect.Ptr {
				et = et.Elem()
			}
			if et.Kind() == reflect.Struct && f.Tag.Get("json") == "" {
				names = append(names, c02FieldNames(et)...)
				continue
			}
		}
		names = append(names, name)
	}
	return names
}

func c02FieldTypeByName(t reflect.Type, name string) reflect.Type {
	for i := 0; i < t.NumField(); i++ {
		f := t.Field(i)
		n := f.Name
		if tag := f.Tag.Get("json"); tag != "" {
			if p := strings.Split(tag, ",")[0]; p != "" {
				n = p
			}
		}
		if f.Anonymous && f.Tag.Get("json") == "" {
			et := f.Type
			if et.Kind() == reflect.Ptr {
				et = et.Elem()
			}
			if et.Kind() == reflect.Struct {
				if ft := c02FieldTypeByName(et, name); ft != nil {
					return ft
				}
				continue
			}
		}
		if n == name {
			return f.Type
		}
	}
	return nil
}

func c02KeySpelling(r *rand.Rand, name string) string {
	switch r.Intn(10) {
	case 0:
		return strconvQuote(c02ASCIICase(name, true)) // letters outside ASCII keep their case: their folding is C15's open finding NonAsciiFold
	case 1:
		return strconvQuote(c02ASCIICase(name, false))
	case 2:
		// escape the first character
		if name != "" && name[0] < 0x80 {
			b, _ := stdjson.Marshal(name[1:])
			return fmt.Sprintf(`"\u%04x%s`, name[0], string(b[1:]))
		}
	case 3:
		if len(name) > 1 {
			return strconvQuote(name[:len(name)-1]) // a proper prefix: must not match
		}
	case 4:
		return strconvQuote(name + "x")
	case 5:
		if utf8.ValidString(name) {
			return c02EscapeSome(r, name, false) // escapes at any position, both cases of the hex digits, pairs for characters beyond U+FFFF
		}
	case 6:
		if utf8.ValidString(name) {
			return c02EscapeSome(r, name, true) // every character escaped
		}
	}
	return strconvQuote(name)
}

func strconvQuote(s string) string {
	b, _ := stdjson.Marshal(s)
	return string(b)
}

func c02Doc(r *rand.Rand, t reflect.Type, depth int, quoted bool) string {
	if depth > 6 {
		return "null"
	}
	switch r.Intn(16) {
	case 0:
		return "null"
	case 1:
		return c02Wrong(r)
	}
	switch t {
	case reflect.TypeOf(stdjson.Number("")):
		if r.Intn(3) == 0 {
			if r.Intn(4) == 0 {
				return `"` + c02RandNumber(r) + `"`
			}
			return c02RandNumber(r)
		}
		return []string{"0", "-12", "1.5e3", "123456789012345678901234567890", `"12"`, `"abc"`, `""`, `"1e2"`, `true`, `" 1"`}[r.Intn(10)]
	case reflect.TypeOf(time.Time{}):
		return []string{`"2006-01-02T15:04:05Z"`, `"2020-02-29T23:59:59.123456789+01:00"`, `"0001-01-01T00:00:00Z"`, `"2006-01-02"`, `"2006-01-02T15:04:05"`, `"bad"`, `""`, `1`, `{}`, `"9999-12-31T23:59:59.999999999-23:59"`,
			`"2006-01-02T15:04:05\u005a"`, `"2006-01-02t15:04:05z"`, `"2015-06-30T23:59:60Z"`}[r.Intn(13)]
	case reflect.TypeOf(big.Int{}):
		return []string{`0`, `-1`, `123456789012345678901234567890`, `"12"`, `1.5`, `1e2`, `"x"`, `true`, `[]`, `-0`}[r.Intn(10)]
	case reflect.TypeOf(net.IP(nil)):
		return []string{`"1.2.3.4"`, `"::1"`, `"2001:db8::68"`, `"1.2.3"`, `""`, `"AQIDBA=="`, `[1,2,3,4]`, `1`, `"\u0031.2.3.4"`, `"256.1.1.1"`}[r.Intn(10)]
	case reflect.TypeOf(stdjson.RawMessage(nil)), reflect.TypeOf(C02UJ{}), reflect.TypeOf(C02UJVal(0)):
		return genValue(r, 2)
	case reflect.TypeOf(C02UT{}):
		if r.Intn(3) == 0 {
			return c02RandStringLit(r)
		}
		return c02Strings[r.Intn(len(c02Strings))]
	}
	if pt := reflect.PtrTo(t); pt.Implements(c02UnmarshalerIface) {
		return genValue(r, 2)
	} else if pt.Implements(c02TextUnmarshalerIface) {
		if r.Intn(3) == 0 {
			return c02RandStringLit(r)
		}
		return c02Strings[r.Intn(len(c02Strings))]
	}
	switch t.Kind() {
	case reflect.Bool:
		return []string{"true", "false"}[r.Intn(2)]
	case reflect.Int, reflect.Int8, reflect.Int16, reflect.Int32, reflect.Int64, reflect.Uint, reflect.Uint8, reflect.Uint16, reflect.Uint32, reflect.Uint64, reflect.Uintptr:
		s := c02Ints[r.Intn(len(c02Ints))]
		if r.Intn(3) == 0 {
			s = strconv.FormatInt(r.Int63()>>uint(r.Intn(64))*int64(1-2*r.Intn(2)), 10)
		} else if r.Intn(8) == 0 {
			s = c02RandNumber(r)
		}
		return s
	case reflect.Float32, reflect.Float64:
		if r.Intn(3) == 0 {
			return c02RandNumber(r)
		}
		return c02Floats[r.Intn(len(c02Floats))]
	case reflect.String:
		if r.Intn(3) == 0 {
			return c02RandStringLit(r)
		}
		return c02Strings[r.Intn(len(c02Strings))]
	case reflect.Interface:
		return genValue(r, 2)
	case reflect.Ptr:
		return c02Doc(r, t.Elem(), depth+1, quoted)
	case reflect.Slice, reflect.Array:
		if t.Elem().Kind() == reflect.Uint8 && t.Kind() == reflect.Slice && r.Intn(3) > 0 {
			if r.Intn(2) == 0 {
				// (audit) base64 texts of every length and padding (right, missing, wrong, with line ends), sometimes spelled with escapes ('/' is in the alphabet)
				if txt := string(c04B64Texts(r, 1)[0]); utf8.ValidString(txt) {
					if r.Intn(3) == 0 {
						return c02EscapeSome(r, txt, false)
					}
					return strconvQuote(txt)
				}
			}
			return c02Strings[r.Intn(len(c02Strings))]
		}
		n := r.Intn(5)
		if r.Intn(16) == 0 && depth < 3 {
			c02Gen["arrays_of_5_to_64_elements"]++
			n = 5 + r.Intn(60) // (audit) more elements than the working array of the slice decoder starts with, several doublings
		}
		if t.Kind() == reflect.Array && r.Intn(2) == 0 {
			n = t.Len()
		}
		var parts []string
		for i := 0; i < n; i++ {
			parts = append(parts, c02WS(r)+c02Doc(r, t.Elem(), depth+1, false)+c02WS(r))
		}
		return "[" + c02WS(r) + strings.Join(parts, ",") + "]"
	case reflect.Map:
		n := r.Intn(4)
		if r.Intn(16) == 0 && depth < 3 {
			c02Gen["objects_of_4_to_33_members_for_a_map"]++
			n = 4 + r.Intn(30) // (audit) enough members for the map to grow
		}
		var parts []string
		for i := 0; i < n; i++ {
			k := c02KeyFor(r, t.Key())
			if i > 0 && r.Intn(5) == 0 {
				k = parts[0][:strings.Index(parts[0], ":")] // duplicate key
				k = strings.TrimSpace(k)
			}
			parts = append(parts, k+c02WS(r)+":"+c02WS(r)+c02Doc(r, t.Elem(), depth+1, false))
		}
		return "{" + c02WS(r) + strings.Join(parts, c02WS(r)+","+c02WS(r)) + c02WS(r) + "}"
	case reflect.Struct:
		if c02EmbedCycle(t, map[reflect.Type]bool{}) {
			return genValue(r, 2) // a type that embeds itself (met as the dynamic type of an interface): its names cannot be listed by recursion
		}
		names := c02FieldNames(t)
		var parts []string
		for _, name := range names {
			if r.Intn(4) == 0 {
				continue
			}
			ft := c02FieldTypeByName(t, name)
			val := "null"
			if ft != nil {
				val = c02Doc(r, ft, depth+1, false)
				if c02FieldHasStringOption(t, name) && r.Intn(4) != 0 {
					// the ,string option: the value arrives inside a JSON string
					val = c02QuoteValue(r, val)
				}
			} else {
				val = genValue(r, 1)
			}
			parts = append(parts, c02KeySpelling(r, name)+c02WS(r)+":"+c02WS(r)+val)
		}
		if r.Intn(3) == 0 {
			parts = append(parts, []string{`"unknown"`, `"F99"`, `""`, `"-"`, `"F0x"`}[r.Intn(5)]+":"+genValue(r, 2))
		}
		if len(parts) > 0 && r.Intn(4) == 0 {
			// the same key twice, the second with another value
			p := parts[r.Intn(len(parts))]
			k := p[:strings.Index(p, ":")]
			name := ""
			stdjson.Unmarshal([]byte(strings.TrimSpace(k)), &name)
			val := genValue(r, 1)
			if ft := c02FieldTypeByName(t, name); ft != nil {
				val = c02Doc(r, ft, depth+1, false)
				if r.Intn(2) == 0 {
					// (audit) the second occurrence in another spelling of the same name (letter case, escapes)
					k = c02KeySpelling(r, name)
					c02Gen["repeated_key_in_another_spelling"]++
				}
			}
			parts = append(parts, k+":"+val)
		}
		r.Shuffle(len(parts), func(i, j int) { parts[i], parts[j] = parts[j], parts[i] })
		return "{" + c02WS(r) + strings.Join(parts, c02WS(r)+","+c02WS(r)) + c02WS(r) + "}"
	}
	return "null"
}

// ---- entry points ----

type c02Entry struct {
	name string
	goj  func(doc []byte, v interface{}) error
	std  func(doc []byte, v interface{}) error
}

func c02DecoderPair(useNumber, disallow bool) (func([]byte, interface{}) error, func([]byte, interface{}) error) {
	return func(doc []byte, v interface{}) error {
			d := gojson.NewDecoder(bytes.NewReader(doc))
			if useNumber {
				d.UseNumber()
			}
			if disallow {
				d.DisallowUnknownFields()
			}
			return d.Decode(v)
		}, func(doc []byte, v interface{}) error {
			d := stdjson.NewDecoder(bytes.NewReader(doc))
			if useNumber {
				d.UseNumber()
			}
			if disallow {
				d.DisallowUnknownFields()
			}
			return d.Decode(v)
		}
}

func c02Entries() []c02Entry {
	es := []c02Entry{
		{"Unmarshal", func(doc []byte, v interface{}) error { return gojson.Unmarshal(doc, v) }, stdjson.Unmarshal},
		{"UnmarshalWithOption", func(doc []byte, v interface{}) error { return gojson.UnmarshalWithOption(doc, v) }, stdjson.Unmarshal},
		{"UnmarshalContext", func(doc []byte, v interface{}) error { return gojson.UnmarshalContext(context.Background(), doc, v) }, stdjson.Unmarshal},
	}
	for _, un := range []bool{false, true} {
		for _, dis := range []bool{false, true} {
			g, s := c02DecoderPair(un, dis)
			es = append(es, c02Entry{fmt.Sprintf("Decoder(UseNumber=%v,DisallowUnknownFields=%v)", un, dis), g, s})
		}
	}
	// (audit) the remaining entry points, appended so that the indices used by the sweep stay what they were: the NoEscape twin of
	// Unmarshal, the two other Decode methods, and a Decoder that has already decoded a value (the state a call leaves behind)
	es = append(es,
		c02Entry{"UnmarshalNoEscape", func(doc []byte, v interface{}) error { return gojson.UnmarshalNoEscape(doc, v) }, stdjson.Unmarshal},
		c02Entry{"Decoder.DecodeContext", func(doc []byte, v interface{}) error {
			return gojson.NewDecoder(bytes.NewReader(doc)).DecodeContext(context.Background(), v)
		}, func(doc []byte, v interface{}) error { return stdjson.NewDecoder(bytes.NewReader(doc)).Decode(v) }},
		c02Entry{"Decoder.DecodeWithOption", func(doc []byte, v interface{}) error {
			return gojson.NewDecoder(bytes.NewReader(doc)).DecodeWithOption(v)
		}, func(doc []byte, v interface{}) error { return stdjson.NewDecoder(bytes.NewReader(doc)).Decode(v) }},
		c02Entry{"Decoder, second value", func(doc []byte, v interface{}) error {
			d := gojson.NewDecoder(bytes.NewReader(append([]byte(c02FirstValue), doc...)))
			var first interface{}
			if err := d.Decode(&first); err != nil {
				return fmt.Errorf("first value: %v", err)
			}
			return d.Decode(v)
		}, func(doc []byte, v interface{}) error {
			d := stdjson.NewDecoder(bytes.NewReader(append([]byte(c02FirstValue), doc...)))
			var first interface{}
			if err := d.Decode(&first); err != nil {
				return fmt.Errorf("first value: %v", err)
			}
			return d.Decode(v)
		}})
	return es
}

// what a Decoder of the entry "Decoder, second value" reads before the document: keys and strings with escapes, numbers, nesting
const c02FirstValue = `{"k\u00e9y":["a\n\ud83d\ude00",-1.5e+3,{"x":null}],"F0":true} ` + "\n"

// a decoder that writes the wrong shape into the destination can make the comparison itself fault: the cases run
// in a child process; a crash is reported with the case that was running and the run goes on behind it
func runC02(o *Out) {
	slicePoolProbe(o, "C02")
	c15EmbeddedGenerated(o) // which field an object key reaches through embedded structs (shared with C15)
	self, _ := os.Executable()
	startAll := time.Now()
	skip := 0
	for attempt := 0; attempt < 25; attempt++ {
		dir := o.dir + "/run" + strconv.Itoa(attempt)
		limit := 240 * time.Second
		if o.tier == "thorough" {
			limit = 3000 * time.Second
		}
		cctx, cancel := context.WithTimeout(context.Background(), limit)
		cmd := exec.CommandContext(cctx, self, "C02child", o.tier, strconv.FormatInt(o.seed, 10), dir)
		cmd.Env = append(os.Environ(), "C02_SKIP="+strconv.Itoa(skip), "VERIF_AS_LIMIT_MB=6000")
		var eb bytes.Buffer
		cmd.Stdout, cmd.Stderr = &eb, &eb
		err := cmd.Run()
		cancel()
		if err == nil {
			mergeChild(o, dir)
			break
		}
		det := map[string]string{"detail": err.Error(), "output": clipN(eb.String(), 900)}
		if b, e := os.ReadFile(dir + "/current.json"); e == nil {
			det["case"] = string(b)
		}
		o.violation("C02", "decoding (or reading what was decoded) crashed the process", det)
		if _, e := os.Stat(dir + "/stats.json"); e == nil {
			mergeChild(o, dir) // what the child had gathered at its last checkpoint
		}
		if time.Since(startAll) > 2*limit {
			break
		}
		b, e := os.ReadFile(dir + "/progress")
		if e != nil {
			break
		}
		n, _ := strconv.Atoi(string(b))
		skip = n + 1
	}
}

func runC02Child(o *Out) {
	if os.Getenv("C02_SKIP") == "0" || os.Getenv("C02_SKIP") == "" {
		c02Sweep(o)
		o.checkpoint()
		c02ModelCases(o)
		o.checkpoint()
		c02AuditStrata(o)
		c02FlushGen(o)
		o.checkpoint()
	}
	r := o.rng
	n := 3000
	if o.tier == "thorough" {
		n = 60000
	}
	skip, _ := strconv.Atoi(os.Getenv("C02_SKIP"))
	entries := c02Entries()
	for i := 0; i < n; i++ {
		var t reflect.Type
		if i%3 == 0 {
			t = c02Type(r, 3)
		} else {
			t = c02Struct(r, 2)
		}
		for k := 0; k < 3; k++ {
			seed := r.Int63()
			along := k > 0 && r.Intn(2) == 0
			var ds string
			if along {
				// (audit) a document written along the initial value: the keys the maps already hold, arrays one shorter than,
				// as long as and one longer than the slices, objects for the pointers and interfaces that are set
				iv := reflect.New(t)
				tgValue(rand.New(rand.NewSource(seed)), iv.Elem(), 0, 30, false)
				ds = c02DocAlong(r, t, iv.Elem(), 0, o)
				o.count("documents_along_the_initial_value", 1)
			} else {
				ds = c02Doc(r, t, 0, false)
			}
			if r.Intn(4) == 0 {
				// (audit) white space around the top-level value, whatever its kind
				ws := []string{" ", "\n", "\t", "\r", "\r\n", " \t\n\r "}
				ds = ws[r.Intn(len(ws))] + ds + ws[r.Intn(len(ws))]
				o.count("documents_with_outer_white_space", 1)
			}
			doc := []byte(ds)
			e := entries[r.Intn(len(entries))]
			if k == 0 {
				e = entries[0]
			}
			if i < skip {
				continue
			}
			if !utf8.Valid(doc) || !stdjson.Valid(doc) {
				o.count("generated_documents_not_valid_skipped", 1)
				continue
			}
			populated := k > 0
			mk := func() reflect.Value {
				v := reflect.New(t)
				if populated {
					tgValue(rand.New(rand.NewSource(seed)), v.Elem(), 0, 30, false)
				}
				return v
			}
			c02One(o, t, doc, mk, e, populated)
		}
		if i >= skip {
			os.WriteFile(o.dir+"/progress", []byte(strconv.Itoa(i)), 0o644)
			if i%100 == 99 {
				c02FlushGen(o)
				o.checkpoint()
			}
		}
	}
	c02FlushGen(o)
}

func c02One(o *Out, t reflect.Type, doc []byte, mk func() reflect.Value, e c02Entry, populated bool) {
	o.current(map[string]string{"property": "C02", "type": clipN(t.String(), 600), "doc": string(doc), "entry": e.name, "populated": fmt.Sprint(populated)})
	sv := mk()
	serr := e.std(doc, sv.Interface())
	gv := mk()
	gerr := c04SafeErr(func() error { return e.goj(doc, gv.Interface()) })
	o.count("decodes", 1)
	c02Hist(o, "entry_point", e.name)
	if serr != nil {
		o.hist("encoding_json", "error")
	} else {
		o.hist("encoding_json", "ok")
	}
	if (serr == nil) == (gerr == nil) && (serr != nil || reflect.DeepEqual(sv.Elem().Interface(), gv.Elem().Interface())) {
		return
	}
	what := "destinations differ"
	if (serr == nil) != (gerr == nil) {
		what = "error in one library only"
	}
	if gerr != nil && strings.HasPrefix(gerr.Error(), "PANIC") {
		what = "panic"
	}
	cls := c02Classify(t, doc, sv, gv, serr, gerr, e.name, populated)
	if cls == "" && populated && c02HasInterfacePointerChain(mk().Elem(), 0) {
		cls = "PopulatedInterfacePointerChain"
	}
	if cls == "" && serr == nil && gerr == nil && c02RepeatedKeyAndSlice(t, doc) {
		cls = "SliceSpareCapacityZeroed"
	}
	if cls != "" {
		o.known(cls, clipN(string(doc), 120)+" into "+clipN(t.String(), 160))
		return
	}
	initial := "zero"
	if populated {
		initial = clipN(fmt.Sprintf("%#v", mk().Elem().Interface()), 400)
	}
	if c02Stratum != "" {
		what += " [" + c02Stratum + "]"
		if i := strings.Index(c02Stratum, "candidate finding "); i >= 0 && os.Getenv("AUDIT_OPEN") == "" {
			// an input the stratum produced under the predicate of a recorded finding
			o.known(strings.Fields(c02Stratum[i+len("candidate finding "):])[0], clipN(string(doc), 120)+" into "+clipN(t.String(), 160))
			return
		}
	}
	o.violation("C02", what, map[string]string{
		"entry": e.name, "type": clipN(t.String(), 700), "doc": clipN(string(doc), 700), "initial": initial,
		"encoding_json_err": fmt.Sprint(serr), "go_json_err": fmt.Sprint(gerr),
		"encoding_json": clipN(fmt.Sprintf("%#v", sv.Elem().Interface()), 500), "go_json": clipN(fmt.Sprintf("%#v", gv.Elem().Interface()), 500)})
}

// the two open findings of C02, as predicates on the type and on the initial value (never on the outcome)
func c02Classify(t reflect.Type, doc []byte, sv, gv reflect.Value, serr, gerr error, entry string, populated bool) string {
	if c02HasStringTagOnUnmarshaler(t, 0) {
		return "StringTagOnUnmarshaler"
	}
	return ""
}

func c02IsUnmarshaler(t reflect.Type) bool {
	pt := reflect.PtrTo(t)
	return pt.Implements(reflect.TypeOf((*stdjson.Unmarshaler)(nil)).Elem()) || pt.Implements(reflect.TypeOf((*interface{ UnmarshalText([]byte) error })(nil)).Elem())
}

func c02HasStringTagOnUnmarshaler(t reflect.Type, depth int) bool {
	if depth > 10 {
		return false
	}
	switch t.Kind() {
	case reflect.Ptr, reflect.Slice, reflect.Array, reflect.Map:
		return c02HasStringTagOnUnmarshaler(t.Elem(), depth+1)
	case reflect.Struct:
		if t == reflect.TypeOf(TgRec{}) || t == reflect.TypeOf(TgMutA{}) || t == reflect.TypeOf(TgMutB{}) {
			return false
		}
		for i := 0; i < t.NumField(); i++ {
			f := t.Field(i)
			ft := f.Type
			if strings.Contains(f.Tag.Get("json"), ",string") {
				if ft.Name() == "" && ft.Kind() == reflect.Ptr {
					ft = ft.Elem()
				}
				switch ft.Kind() {
				case reflect.Bool, reflect.Int, reflect.Int8, reflect.Int16, reflect.Int32, reflect.Int64, reflect.Uint, reflect.Uint8, reflect.Uint16, reflect.Uint32, reflect.Uint64,
					reflect.Uintptr, reflect.Float32, reflect.Float64, reflect.String:
					if c02IsUnmarshaler(ft) {
						return true
					}
				}
			}
			if c02HasStringTagOnUnmarshaler(f.Type, depth+1) {
				return true
			}
		}
	}
	return false
}

// an interface that holds a pointer to an interface or to a pointer: encoding/json decodes through the chain,
// go-json replaces what the interface holds (or, for null, clears the interface)
func c02HasInterfacePointerChain(v reflect.Value, depth int) bool {
	if depth > 12 || !v.IsValid() {
		return false
	}
	switch v.Kind() {
	case reflect.Interface:
		if v.IsNil() {
			return false
		}
		e := v.Elem()
		if e.Kind() == reflect.Ptr && !e.IsNil() && (e.Elem().Kind() == reflect.Interface || e.Elem().Kind() == reflect.Ptr) {
			return true
		}
		return c02HasInterfacePointerChain(e, depth+1)
	case reflect.Ptr:
		if v.IsNil() {
			return false
		}
		return c02HasInterfacePointerChain(v.Elem(), depth+1)
	case reflect.Slice, reflect.Array:
		for i := 0; i < v.Len(); i++ {
			if c02HasInterfacePointerChain(v.Index(i), depth+1) {
				return true
			}
		}
	case reflect.Map:
		it := v.MapRange()
		for it.Next() {
			if c02HasInterfacePointerChain(it.Value(), depth+1) {
				return true
			}
		}
	case reflect.Struct:
		for i := 0; i < v.NumField(); i++ {
			if c02HasInterfacePointerChain(v.Field(i), depth+1) {
				return true
			}
		}
	}
	return false
}

func c02ASCIICase(s string, upper bool) string {
	b := []byte(s)
	for i, c := range b {
		if upper && 'a' <= c && c <= 'z' {
			b[i] = c - 32
		}
		if !upper && 'A' <= c && c <= 'Z' {
			b[i] = c + 32
		}
	}
	return string(b)
}

// ---- the deterministic sweep: every small destination x every boundary document x zero / populated x entry
// point.  What differs from encoding/json here must be in the frozen list c02SweepKnown (one line per case,
// each assigned to a finding); anything else is a violation. ----

type C02Sw struct {
	A int
	B *string
	C []byte `json:"c"`
	D map[string]int
	E interface{}
	F float32 `json:",string"`
	G uint8   `json:"g,string"`
	H [2]bool
	I *C02Sw `json:"i,omitempty"`
}

func c02SweepTypes() []reflect.Type {
	ts := append([]reflect.Type{}, tgBasic...)
	for _, v := range []interface{}{C02UJ{}, C02UT{}, C02UJVal(0), TgNamedStr(""), TgNamedInt(0), TgNamedSlice(nil), TgNamedMap(nil), stdjson.Number(""), stdjson.RawMessage(nil),
		(*int)(nil), (**int)(nil), (*string)(nil), []int(nil), [2]int{}, [0]int{}, map[string]int(nil), map[int]string(nil), map[C02Key]int(nil), map[uint8]bool(nil),
		[]interface{}(nil), map[string]interface{}(nil), C02Sw{}, (*C02Sw)(nil), []C02Sw(nil), [][]byte(nil), []*int8(nil), map[string]*C02UT(nil), struct{}{}} {
		ts = append(ts, reflect.TypeOf(v))
	}
	ts = append(ts, tgIface)
	return ts
}

func c02SweepDocs() []string {
	docs := []string{"null", "true", "false", "[]", "[1]", "[1,2,3]", `["a"]`, "[null]", "[[]]", "[1,\"a\",null]", "{}", `{"a":1}`, `{"A":1,"a":2}`, `{"a":1,"A":2}`, `{"1":"x"}`,
		`{"k":null}`, `{"1":1,"01":2}`, `{"-1":true}`, `{"256":true,"255":false}`, `{"a":{"b":[1]}}`, `{"":1}`,
		`{"c":"AQID","B":"s","d":{"x":1},"E":[1,"a",null],"F":"1.5","g":"255","H":[true],"i":{"A":7}}`, `{"A":null,"B":null,"c":null,"D":null,"E":null,"F":null,"g":null,"H":null,"i":null}`,
		`{"F":1.5}`, `{"F":"1e39"}`, `{"g":"256"}`, `{"g":" 1"}`, `{"H":[true,false,true]}`, `{"H":[]}`, `{"B":"x","B":null}`, `{"D":{"x":1},"D":{"y":2}}`, `{"E":{"a":1},"E":{"b":2}}`,
		`{"unknown":[1,{"a":"}"}],"A":5}`, `{"a":5}`, `{"A":6}`, `{"A":1e2}`, `{"A":"5"}`, `{"i":{"i":{"A":1}}}`, ` { "A" : 1 } `, `[{"A":1},null,{"A":3}]`, `["AQID",null,"AQI="]`, `[1,null,-128,127]`,
		`{"x":"a","y":null}`, `{"x":{"Text":"t"}}`}
	// many sibling values inside a region that is stepped over: nesting depth must not be confused with their number
	many := strings.Repeat("{},", 10050) + "{}"
	manyArr := strings.Repeat("[],", 10050) + "[]"
	docs = append(docs, `{"unknown":[`+many+`],"A":5}`, `[`+many+`]`, `{"unknown":{"k":[`+manyArr+`]},"A":6}`, `[1,2,[`+manyArr+`],[`+many+`]]`)
	docs = append(docs, c02Ints...)
	docs = append(docs, c02Floats...)
	docs = append(docs, c02Strings...)
	return docs
}

func c02Sweep(o *Out) {
	entries := c02Entries()
	use := []c02Entry{entries[0], entries[3], entries[5], entries[4]}
	for _, t := range c02SweepTypes() {
		for di, ds := range c02SweepDocs() {
			doc := []byte(ds)
			if !stdjson.Valid(doc) || !utf8.Valid(doc) {
				continue
			}
			o.current(map[string]string{"property": "C02", "type": t.String(), "doc": clipN(ds, 600), "sweep": "1"})
			for _, populated := range []bool{false, true} {
				seed := int64(1000 + di)
				mk := func() reflect.Value {
					v := reflect.New(t)
					if populated {
						tgValue(rand.New(rand.NewSource(seed)), v.Elem(), 0, 10, false)
					}
					return v
				}
				for _, e := range use {
					sv := mk()
					serr := e.std(doc, sv.Interface())
					gv := mk()
					gerr := c04SafeErr(func() error { return e.goj(doc, gv.Interface()) })
					o.count("sweep_decodes", 1)
					if (serr == nil) == (gerr == nil) && (serr != nil || reflect.DeepEqual(sv.Elem().Interface(), gv.Elem().Interface())) {
						continue
					}
					key := fmt.Sprintf("%s|%s|%v|%s", t.String(), clipN(ds, 200), populated, e.name)
					if cls, ok := c02SweepKnown[key]; ok {
						o.known(cls, key)
						continue
					}
					if os.Getenv("C02_RECORD") != "" {
						fmt.Fprintf(os.Stderr, "RECORD\t%q\tstd=%v %#v\tgoj=%v %#v\tinit=%#v\n", key, serr, sv.Elem().Interface(), gerr, gv.Elem().Interface(), mk().Elem().Interface())
						continue
					}
					o.violation("C02", "sweep: differs from encoding/json", map[string]string{
						"entry": e.name, "type": t.String(), "doc": clipN(ds, 600), "populated": fmt.Sprint(populated),
						"encoding_json_err": fmt.Sprint(serr), "go_json_err": fmt.Sprint(gerr),
						"encoding_json": clipN(fmt.Sprintf("%#v", sv.Elem().Interface()), 400), "go_json": clipN(fmt.Sprintf("%#v", gv.Elem().Interface()), 400),
						"initial": clipN(fmt.Sprintf("%#v", mk().Elem().Interface()), 300)})
				}
			}
		}
	}
}

// =====================================================================================================================
// Audit wave 6: dimensions of the quantifier the generators above did not reach.  Every stratum counts what it
// produces (evidence: coverage.harness_stats "child:audit_*" and the histograms "audit_*").  Inputs on which the
// unchanged library differs from encoding/json and that no recorded finding covers are produced only when the
// environment has AUDIT_OPEN=1 (they are then reported as violations, each naming its candidate tag in "what").
// =====================================================================================================================

// the inputs of the candidate findings of the audit are always produced: each is listed in KNOWN_FINDINGS.txt (C02) and
// reported under its tag; AUDIT_OPEN=1 reports them as violations (to look at them)
var c02Open = true

// c02Hist: a histogram entry that also reaches the evidence of the parent process (mergeChild takes over counters only)
func c02Hist(o *Out, h, k string) {
	o.hist(h, k)
	o.count(h+"="+k, 1)
}

// what the document generators produced (they have no *Out at hand): flushed into the counters by c02FlushGen
var c02Gen = map[string]int64{}

func c02FlushGen(o *Out) {
	for k, n := range c02Gen {
		o.count("generated:"+k, n)
		delete(c02Gen, k)
	}
}

// c02Stratum names the stratum (and, for gated inputs, the candidate finding) in the text of a violation
var c02Stratum string

var c02UnmarshalerIface = reflect.TypeOf((*stdjson.Unmarshaler)(nil)).Elem()
var c02TextUnmarshalerIface = reflect.TypeOf((*encoding.TextUnmarshaler)(nil)).Elem()

// ---- implementer shapes ----

type C02USlice []int // UnmarshalJSON on a slice type

func (s *C02USlice) UnmarshalJSON(b []byte) error {
	if len(b) > 0 && b[0] == 't' {
		return fmt.Errorf("C02USlice refuses true")
	}
	*s = append(*s, len(b))
	return nil
}

type C02UMap map[string]int // UnmarshalJSON on the VALUE receiver of a map type

func (m C02UMap) UnmarshalJSON(b []byte) error {
	if m != nil {
		m["len"] = len(b)
	}
	return nil
}

type C02Both struct{ S string } // both methods: UnmarshalJSON wins for a value

func (u *C02Both) UnmarshalJSON(b []byte) error { u.S = "J" + string(b); return nil }
func (u *C02Both) UnmarshalText(b []byte) error { u.S = "T" + string(b); return nil }

type C02VT int // UnmarshalText on the value receiver (it cannot store anything)

func (v C02VT) UnmarshalText(b []byte) error {
	if string(b) == "bad" {
		return fmt.Errorf("C02VT refuses bad")
	}
	return nil
}

type C02NB uint8 // a byte kind with UnmarshalJSON: []C02NB is base64 for a string and element-wise for an array

func (b *C02NB) UnmarshalJSON(x []byte) error { *b = C02NB(len(x)); return nil }

type C02TB uint8 // a byte kind with UnmarshalText

func (b *C02TB) UnmarshalText(x []byte) error { *b = C02TB(len(x) + 100); return nil }

type C02EmbUJ struct { // the method is promoted: the whole struct is an Unmarshaler
	C02UJ
	X int
}

type C02IntText int16 // an integer kind whose pointer has UnmarshalText: as a map key the method wins over the integer syntax

func (k *C02IntText) UnmarshalText(b []byte) error {
	if len(b) > 0 && b[0] == '!' {
		return fmt.Errorf("C02IntText refuses !")
	}
	*k = C02IntText(len(b))
	return nil
}

// ---- string literals: every class the string scanners tell apart, at any position and length ----

func c02U4(r *rand.Rand, code int) string {
	b := []byte(fmt.Sprintf("%04x", code))
	for i := range b {
		if b[i] >= 'a' && r.Intn(2) == 0 {
			b[i] -= 32
		}
	}
	return `\u` + string(b)
}

func c02RandStringLit(r *rand.Rand) string {
	c02Gen["string_literals_with_drawn_escapes"]++
	var b strings.Builder
	b.WriteByte('"')
	n := r.Intn(10)
	if r.Intn(8) == 0 {
		n = 20 + r.Intn(60) // long enough to cross any 8-, 16- or 64-byte step of a scanner
	}
	for i := 0; i < n; i++ {
		switch r.Intn(16) {
		case 0:
			b.WriteString([]string{`\"`, `\\`, `\/`, `\b`, `\f`, `\n`, `\r`, `\t`}[r.Intn(8)])
		case 1:
			b.WriteString(c02U4(r, r.Intn(0x80))) // one byte, control characters included
		case 2:
			b.WriteString(c02U4(r, 0x80+r.Intn(0x780))) // two bytes
		case 3:
			c := 0x800 + r.Intn(0xf800)
			if c >= 0xd800 && c < 0xe000 {
				c = []int{0x800, 0xd7ff, 0xe000, 0xffff, 0xfffd, 0x2028, 0x2029}[r.Intn(7)]
			}
			b.WriteString(c02U4(r, c)) // three bytes
		case 4:
			// a surrogate pair, written with escapes: four bytes
			c := []int{0x10000, 0x1f600, 0x10ffff, 0x1d49c, 0x10000 + r.Intn(0x100000)}[r.Intn(5)] - 0x10000
			b.WriteString(c02U4(r, 0xd800+c>>10) + c02U4(r, 0xdc00+c&0x3ff))
		case 5:
			// surrogates that are no pair: alone, reversed, twice, followed by another escape or a plain character
			hi, lo := 0xd800+r.Intn(0x400), 0xdc00+r.Intn(0x400)
			switch r.Intn(6) {
			case 0:
				b.WriteString(c02U4(r, hi))
			case 1:
				b.WriteString(c02U4(r, lo))
			case 2:
				b.WriteString(c02U4(r, lo) + c02U4(r, hi))
			case 3:
				b.WriteString(c02U4(r, hi) + c02U4(r, hi) + c02U4(r, lo))
			case 4:
				b.WriteString(c02U4(r, hi) + c02U4(r, 0x41))
			default:
				b.WriteString(c02U4(r, hi) + []string{"x", `\n`, "é", `\\`}[r.Intn(4)])
			}
		case 6:
			b.WriteString(string(rune(0x80 + r.Intn(0x780))))
		case 7:
			b.WriteString(string([]rune{0x800, 0xd7ff, 0xe000, 0xfffd, 0xffff, 0x2028, 0x2029, 0x20ac}[r.Intn(8)]))
		case 8:
			b.WriteString(string([]rune{0x10000, 0x1f600, 0x10ffff, 0xe0061}[r.Intn(4)]))
		case 9:
			b.WriteByte([]byte{'/', 0x7f, '<', '>', '&', '\'', ' ', '{', ']', ':', ','}[r.Intn(11)])
		default:
			for k := 1 + r.Intn(9); k > 0; k-- {
				b.WriteByte(byte('a' + r.Intn(26)))
			}
		}
	}
	b.WriteByte('"')
	return b.String()
}

// c02RandNumber: a number of the JSON grammar, every part of any length (long digit strings: beyond the 19 digits of the integer
// decoders and the 17 significant digits of a float; exponents with sign and leading zeros; zero in every spelling)
func c02RandNumber(r *rand.Rand) string {
	c02Gen["numbers_with_drawn_parts"]++
	var b strings.Builder
	if r.Intn(3) == 0 {
		b.WriteByte('-')
	}
	digits := func(n int) {
		for i := 0; i < n; i++ {
			b.WriteByte(byte('0' + r.Intn(10)))
		}
	}
	if r.Intn(4) == 0 {
		b.WriteByte('0')
	} else {
		b.WriteByte(byte('1' + r.Intn(9)))
		digits([]int{0, 0, 1, 2, 5, 14, 15, 16, 17, 18, 19, 20, 25, 40}[r.Intn(14)])
	}
	if r.Intn(2) == 0 {
		b.WriteByte('.')
		digits([]int{1, 1, 2, 3, 8, 15, 16, 17, 18, 25, 40, 330}[r.Intn(12)])
	}
	if r.Intn(3) == 0 {
		b.WriteByte("eE"[r.Intn(2)])
		b.WriteString([]string{"", "+", "-"}[r.Intn(3)])
		if r.Intn(4) == 0 {
			b.WriteString("00")
		}
		b.WriteString(strconv.Itoa([]int{0, 1, 2, 5, 10, 15, 19, 20, 22, 23, 37, 38, 39, 45, 46, 307, 308, 309, 323, 324, 325, 400, 5000}[r.Intn(23)]))
	}
	return b.String()
}

// c02EscapeSome writes the (UTF-8 valid) text s as a JSON string literal in which some or all characters are \u escapes
func c02EscapeSome(r *rand.Rand, s string, every bool) string {
	c02Gen["texts_spelled_with_escapes_at_drawn_positions"]++
	var b strings.Builder
	b.WriteByte('"')
	for _, c := range s {
		switch {
		case every || r.Intn(3) == 0:
			if c >= 0x10000 {
				x := int(c) - 0x10000
				b.WriteString(c02U4(r, 0xd800+x>>10) + c02U4(r, 0xdc00+x&0x3ff))
			} else {
				b.WriteString(c02U4(r, int(c)))
			}
		case c == '/' && r.Intn(2) == 0:
			b.WriteString(`\/`)
		case c == '"' || c == '\\':
			b.WriteByte('\\')
			b.WriteRune(c)
		case c < 0x20:
			b.WriteString(c02U4(r, int(c)))
		default:
			b.WriteRune(c)
		}
	}
	b.WriteByte('"')
	return b.String()
}

// ---- the ,string option ----

func c02FieldByName(t reflect.Type, name string) (reflect.StructField, bool) {
	for i := 0; i < t.NumField(); i++ {
		f := t.Field(i)
		n := f.Name
		if tag := f.Tag.Get("json"); tag != "" {
			if p := strings.Split(tag, ",")[0]; p != "" {
				n = p
			}
		}
		if f.Anonymous && f.Tag.Get("json") == "" {
			et := f.Type
			if et.Kind() == reflect.Ptr {
				et = et.Elem()
			}
			if et.Kind() == reflect.Struct {
				if ff, ok := c02FieldByName(et, name); ok {
					return ff, true
				}
				continue
			}
		}
		if n == name {
			return f, true
		}
	}
	return reflect.StructField{}, false
}

func c02FieldHasStringOption(t reflect.Type, name string) bool {
	f, ok := c02FieldByName(t, name)
	if !ok {
		return false
	}
	opts := strings.Split(f.Tag.Get("json"), ",")
	for _, o := range opts[1:] {
		if o == "string" {
			return true
		}
	}
	return false
}

// c02QuoteValue puts a value text inside a JSON string (the form the ,string option reads)
func c02QuoteValue(r *rand.Rand, val string) string {
	c02Gen["values_inside_quotes_for_the_string_option"]++
	if !utf8.ValidString(val) {
		return strconvQuote(val)
	}
	if r.Intn(4) == 0 {
		return c02EscapeSome(r, val, r.Intn(4) == 0)
	}
	return strconvQuote(val)
}

var c02QuotedBases = []reflect.Type{
	reflect.TypeOf(false), reflect.TypeOf(int(0)), reflect.TypeOf(int8(0)), reflect.TypeOf(int16(0)), reflect.TypeOf(int32(0)), reflect.TypeOf(int64(0)),
	reflect.TypeOf(uint(0)), reflect.TypeOf(uint8(0)), reflect.TypeOf(uint16(0)), reflect.TypeOf(uint32(0)), reflect.TypeOf(uint64(0)), reflect.TypeOf(uintptr(0)),
	reflect.TypeOf(float32(0)), reflect.TypeOf(float64(0)), reflect.TypeOf(""), reflect.TypeOf(TgNamedStr("")), reflect.TypeOf(TgNamedInt(0)), reflect.TypeOf(stdjson.Number("")),
}

// the text inside the quotes for a field of type base; open = the text belongs to a candidate finding (see c02QuotedStratum)
func c02QuotedInner(r *rand.Rand, base reflect.Type) (inner string, open string) {
	var x string
	isNumber := base == reflect.TypeOf(stdjson.Number(""))
	switch base.Kind() {
	case reflect.Bool:
		x = []string{"true", "false"}[r.Intn(2)]
	case reflect.Float32, reflect.Float64:
		x = c02Floats[r.Intn(len(c02Floats))]
	case reflect.String:
		if isNumber {
			x = append(append([]string{}, c02Ints...), c02Floats...)[r.Intn(len(c02Ints)+len(c02Floats))]
		} else if r.Intn(2) == 0 {
			x = c02RandStringLit(r)
		} else {
			x = c02Strings[r.Intn(len(c02Strings))]
		}
	default:
		x = c02Ints[r.Intn(len(c02Ints))]
		if r.Intn(3) == 0 {
			x = strconv.FormatInt(r.Int63()>>uint(r.Intn(64))*int64(1-2*r.Intn(2)), 10)
		}
	}
	numeric := base.Kind() != reflect.Bool && (base.Kind() != reflect.String || isNumber)
	switch k := r.Intn(40); {
	case k == 0:
		return "", ""
	case k == 1:
		return " " + x, ""
	case k == 2:
		if isNumber {
			return x + " ", "QuotedNumberGrammar" // encoding/json stores any text that begins like a number into a json.Number
		}
		return x + " ", ""
	case k == 3:
		return "null", ""
	case k == 4:
		if isNumber {
			return x + "x", "QuotedNumberGrammar"
		}
		return x + "x", ""
	case k == 5:
		return `"` + x + `"`, ""
	case k == 6:
		if isNumber {
			return x + "," + x, "QuotedNumberGrammar"
		}
		return x + "," + x, ""
	case k == 7:
		return "[" + x + "]", ""
	case k == 8:
		return []string{"nul", "tru", "fals", "nulll", "truee", "n", "t", "f", "T", "True", "NULL"}[r.Intn(11)], ""
	case k == 9:
		return strings.ToUpper(x), ""
	case k == 10:
		return "+" + x, ""
	case k < 15 && numeric:
		// texts strconv reads and the JSON grammar does not: encoding/json hands the content of the quotes to strconv
		digits := strings.TrimLeft(x, "-")
		neg := x[:len(x)-len(digits)]
		cand := []string{neg + "0" + digits, neg + "00" + digits, "-Inf", "-infinity", "-INF", "0x1p4", "-0X1P-2", "1_0", "0b11", "0o17", "0x_1p0", neg + digits + ".", "1.e2"}
		return cand[r.Intn(len(cand))], "QuotedNumberGrammar"
	}
	return x, ""
}

// c02QuotedStratum: struct{ F T `json:"f,string"`; Z int } for every basic T (also behind a pointer, behind two, named, json.Number,
// and types on which the option is ignored), documents {"f": "<text>"} with texts at and beyond every range boundary, with
// white space, a remainder, null, nested quotes, the outer string spelled with escapes; raw values too.
func c02QuotedStratum(o *Out) {
	r := o.rng
	c02Stratum = "audit stratum: ,string option"
	defer func() { c02Stratum = "" }()
	entries := c02Entries()
	var types []reflect.Type
	for _, b := range c02QuotedBases {
		types = append(types, b, reflect.PtrTo(b))
	}
	types = append(types, reflect.PtrTo(reflect.PtrTo(reflect.TypeOf(int(0)))), reflect.PtrTo(reflect.PtrTo(reflect.TypeOf(""))), tgIface,
		reflect.TypeOf([]int(nil)), reflect.TypeOf(map[string]int(nil)), reflect.TypeOf([]byte(nil)), reflect.TypeOf([2]bool{}), reflect.TypeOf(C02Sw{}), reflect.PtrTo(reflect.TypeOf(C02Sw{})))
	per := 30
	if o.tier == "thorough" {
		per = 600
	}
	for _, ft := range types {
		t := reflect.StructOf([]reflect.StructField{{Name: "F", Type: ft, Tag: `json:"f,string"`}, {Name: "Z", Type: reflect.TypeOf(0)}})
		base := ft
		for base.Kind() == reflect.Ptr {
			base = base.Elem()
		}
		for i := 0; i < per; i++ {
			var val, open string
			switch base.Kind() {
			case reflect.Interface, reflect.Slice, reflect.Map, reflect.Array, reflect.Struct:
				// the option is ignored on these: any value for the type, sometimes in quotes
				val = c02Doc(r, base, 1, false)
				if r.Intn(3) == 0 {
					val = c02QuoteValue(r, val)
				}
			default:
				var inner string
				inner, open = c02QuotedInner(r, base)
				switch r.Intn(12) {
				case 0:
					val = inner // not in quotes
					if !stdjson.Valid([]byte(val)) {
						val = "1"
					}
					open = ""
				case 1:
					val = "null"
					open = ""
				default:
					val = c02QuoteValue(r, inner)
				}
			}
			if open != "" && !c02Open {
				o.count("audit_quoted_texts_of_open_candidates_not_run", 1)
				continue
			}
			doc := []byte("{" + c02WS(r) + `"f"` + c02WS(r) + ":" + c02WS(r) + val + c02WS(r) + `,"Z":1}`)
			if !utf8.Valid(doc) || !stdjson.Valid(doc) {
				o.count("generated_documents_not_valid_skipped", 1)
				continue
			}
			seed := r.Int63()
			populated := i%2 == 1
			mk := func() reflect.Value {
				v := reflect.New(t)
				if populated {
					tgValue(rand.New(rand.NewSource(seed)), v.Elem(), 0, 30, false)
				}
				return v
			}
			if open != "" {
				c02Stratum = "audit stratum: ,string option; candidate finding " + open
			}
			c02One(o, t, doc, mk, entries[r.Intn(len(entries))], populated)
			c02Stratum = "audit stratum: ,string option"
			o.count("audit_quoted_option_decodes", 1)
			o.hist("audit_quoted_option_field_type", ft.String())
		}
		o.count("audit_quoted_option_field_types", 1)
	}
}

// ---- interfaces with methods ----

type C02Str struct{ A int } // a pointer type with a method that is no unmarshal method

func (s *C02Str) String() string { return "str" }

type C02StrV int // the same on a value receiver: held in an interface by value

func (s C02StrV) String() string { return "strv" }

type C02Stringer interface{ String() string }

type C02If struct {
	U stdjson.Unmarshaler
	T encoding.TextUnmarshaler
	S fmt.Stringer
	N C02Stringer
	L []fmt.Stringer
	M map[string]stdjson.Unmarshaler
	P *fmt.Stringer
	E interface{}
}

// what the fields hold before the call: state 0 = all nil
func c02IfValue(state int) *C02If {
	v := &C02If{}
	switch state {
	case 1: // each interface holds a pointer to a type with the matching unmarshal method
		v.U, v.T = &C02UJ{Raw: "old", N: 3}, &C02UT{Text: "old", N: 4}
		v.M = map[string]stdjson.Unmarshaler{"k": &C02UJ{Raw: "m"}, "nil": nil}
		v.E = &C02UJ{Raw: "e"}
	case 2: // non-pointers, and pointers whose type has no unmarshal method
		v.S, v.N = C02StrV(5), C02StrV(6)
		v.L = []fmt.Stringer{C02StrV(1), nil}
		var s fmt.Stringer = C02StrV(9)
		v.P = &s
	case 3: // pointers to types without an unmarshal method: encoding/json decodes into what they point to
		v.S, v.N = &C02Str{A: 1}, &C02Str{A: 2}
		v.L = []fmt.Stringer{&C02Str{A: 3}, nil, C02StrV(4)}
		var s fmt.Stringer = &C02Str{A: 9}
		v.P = &s
	case 4: // typed nil pointers inside the interfaces
		v.U, v.T, v.S = (*C02UJ)(nil), (*C02UT)(nil), (*C02Str)(nil)
	}
	return v
}

func c02IfaceStratum(o *Out) {
	c02Stratum = "audit stratum: interfaces with methods"
	defer func() { c02Stratum = "" }()
	entries := c02Entries()
	vals := []string{"null", "1", `"x"`, "true", `{"A":5}`, `[1]`, `{}`, `"bad"`, `[null,{"A":7},null]`, `{"k":1,"nil":null,"new":2}`, `{"k":null}`}
	t := reflect.TypeOf(C02If{})
	for state := 0; state <= 4; state++ {
		for _, field := range []string{"U", "T", "S", "N", "L", "M", "P", "E"} {
			for _, val := range vals {
				open := ""
				isNull := val == "null"
				switch {
				case state == 1 && isNull && field == "U":
					// null into an interface that holds an Unmarshaler: encoding/json clears the interface, go-json calls UnmarshalJSON("null")
					open = "NullIntoInterfaceHoldingUnmarshaler"
				case state == 3 && (field == "S" || field == "N" || field == "L" || field == "P") && !isNull:
					// an interface with methods that holds a non-nil pointer: encoding/json decodes into what it points to
					open = "InterfaceWithMethodsHoldingPointer"
				case state == 4 && field == "U" && isNull:
					open = "NullIntoInterfaceHoldingUnmarshaler" // ... here on a typed nil pointer
				case state == 4 && (field == "U" || field == "T") && !isNull:
					// a typed nil pointer in the interface: the method would be called on nil
					continue
				}
				if open != "" && !c02Open {
					o.count("audit_interface_cases_of_open_candidates_not_run", 1)
					continue
				}
				doc := []byte(`{"` + field + `":` + val + `}`)
				st := state
				mk := func() reflect.Value { return reflect.ValueOf(c02IfValue(st)) }
				for _, e := range []c02Entry{entries[0], entries[3], entries[4]} {
					if open != "" {
						c02Stratum = "audit stratum: interfaces with methods; candidate finding " + open
					}
					c02One(o, t, doc, mk, e, state != 0)
					c02Stratum = "audit stratum: interfaces with methods"
					o.count("audit_interface_with_methods_decodes", 1)
				}
				c02Hist(o, "audit_interface_with_methods_state", fmt.Sprintf("state%d", state))
			}
		}
	}
}

// ---- map key types ----

func c02MapKeyStratum(o *Out) {
	r := o.rng
	c02Stratum = "audit stratum: map key types"
	defer func() { c02Stratum = "" }()
	entries := c02Entries()
	supported := []reflect.Type{reflect.TypeOf(""), reflect.TypeOf(TgNamedStr("")), reflect.TypeOf(stdjson.Number("")), reflect.TypeOf(C02Key("")), reflect.TypeOf(C02UT{}),
		reflect.TypeOf(C02VT(0)), reflect.TypeOf(C02IntText(0)), reflect.TypeOf(TgNamedInt(0)), reflect.TypeOf(TgIntKey(0)), reflect.TypeOf(uintptr(0)), reflect.TypeOf(int8(0)), reflect.TypeOf(uint64(0))}
	// key types encoding/json refuses (cannot unmarshal object into Go value of type map[K]V), and one whose pointer has both methods
	unsupported := []reflect.Type{reflect.TypeOf(false), reflect.TypeOf(float64(0)), reflect.TypeOf(float32(0)), tgIface, reflect.PtrTo(reflect.TypeOf("")), reflect.PtrTo(reflect.TypeOf(0)),
		reflect.TypeOf([1]int{}), reflect.TypeOf([2]string{}), reflect.TypeOf(struct{ A int }{}), reflect.TypeOf(C02Str{}), reflect.TypeOf(C02Both{})}
	elems := []reflect.Type{reflect.TypeOf(0), reflect.TypeOf(""), tgIface, reflect.TypeOf([]int(nil)), reflect.PtrTo(reflect.TypeOf(C02Sw{})), reflect.TypeOf([20]int64{})}
	per := 40
	if o.tier == "thorough" {
		per = 800
	}
	keyText := func(kt reflect.Type) string {
		switch r.Intn(6) {
		case 0:
			return c02RandStringLit(r)
		case 1:
			return `"` + c02Ints[r.Intn(30)] + `"`
		case 2:
			return []string{`"true"`, `"false"`, `"1.5"`, `"null"`, `""`, `"!x"`, `"bad"`, `"k"`, `"1"`, `"1e2"`, `" 1"`}[r.Intn(11)]
		}
		return c02KeyFor(r, kt)
	}
	for _, kt := range supported {
		for i := 0; i < per; i++ {
			t := reflect.MapOf(kt, elems[r.Intn(len(elems))])
			n := r.Intn(4)
			var parts []string
			first := ""
			for k := 0; k < n; k++ {
				key := keyText(kt)
				if k > 0 && r.Intn(4) == 0 {
					key = first // the same key again
				}
				if k == 0 {
					first = key
				}
				parts = append(parts, key+c02WS(r)+":"+c02WS(r)+c02Doc(r, t.Elem(), 2, false))
			}
			doc := []byte("{" + c02WS(r) + strings.Join(parts, ",") + "}")
			if r.Intn(12) == 0 {
				doc = []byte("null")
			}
			if !utf8.Valid(doc) || !stdjson.Valid(doc) {
				o.count("generated_documents_not_valid_skipped", 1)
				continue
			}
			seed := r.Int63()
			populated := i%2 == 1
			mk := func() reflect.Value {
				v := reflect.New(t)
				if populated {
					tgValue(rand.New(rand.NewSource(seed)), v.Elem(), 0, 30, false)
				}
				return v
			}
			c02One(o, t, doc, mk, entries[r.Intn(len(entries))], populated)
			o.count("audit_map_key_type_decodes", 1)
			c02Hist(o, "audit_map_key_type", kt.String())
		}
	}
	if !c02Open {
		o.count("audit_map_key_types_of_open_candidates_not_run", int64(len(unsupported)))
		return
	}
	// candidate finding UnsupportedMapKeyAccepted / MapKeyBothUnmarshalers: only the verdicts are compared and nothing go-json
	// stored is read (a destination written through the wrong decoder need not be a well-formed value)
	for _, kt := range unsupported {
		tag := "UnsupportedMapKeyAccepted"
		if kt == reflect.TypeOf(C02Both{}) {
			tag = "MapKeyBothUnmarshalers"
		}
		t := reflect.MapOf(kt, reflect.TypeOf(0))
		for _, ds := range []string{`{}`, `null`, `{"true":1}`, `{"1":1}`, `{"1.5":1,"x":2}`, `{"":1}`} {
			for _, e := range []c02Entry{entries[0], entries[3]} {
				o.current(map[string]string{"property": "C02", "type": t.String(), "doc": ds, "entry": e.name, "stratum": "map key types (open candidates)"})
				sv := reflect.New(t)
				serr := e.std([]byte(ds), sv.Interface())
				gv := reflect.New(t)
				gerr := c04SafeErr(func() error { return e.goj([]byte(ds), gv.Interface()) })
				o.count("audit_map_key_type_open_candidate_decodes", 1)
				same := (serr == nil) == (gerr == nil)
				if same && serr == nil && tag == "MapKeyBothUnmarshalers" {
					same = reflect.DeepEqual(sv.Elem().Interface(), gv.Elem().Interface())
				}
				if same {
					continue
				}
				what := "error in one library only"
				if (serr == nil) == (gerr == nil) {
					what = "destinations differ"
				}
				o.violation("C02", what+" [audit stratum: map key types; candidate finding "+tag+"]", map[string]string{
					"entry": e.name, "type": t.String(), "doc": ds, "initial": "zero", "encoding_json_err": fmt.Sprint(serr), "go_json_err": fmt.Sprint(gerr)})
			}
		}
	}
}

// ---- the struct key matchers at their boundaries ----

// names for a struct of n fields: shared prefixes, a name that differs from another in one position only, mixed letter
// case (no two names equal under case folding: that is C15's finding FoldTieOrder), '/', characters of two, three and
// four bytes; long > 0 puts a name of exactly that many bytes first (the matcher by bitmap is used up to 64)
func c02SweepNames(n, long int) []string {
	pool := []string{"a", "ab", "abc", "abd", "aBe", "b", "Bc", "bcd", "x/y", "/", "é1", "日本", "\U0001d49cz", "Zz", "zy", "z"}
	for i := 0; len(pool) < n+1; i++ {
		pool = append(pool, fmt.Sprintf("n%dq", i))
	}
	names := append([]string{}, pool[:n]...)
	if long > 0 {
		names[0] = "L" + strings.Repeat("o", long-3) + "nG"
	}
	return names
}

func c02AltCase(s string) string {
	b := []byte(s)
	k := 0
	for i, c := range b {
		if 'a' <= c && c <= 'z' || 'A' <= c && c <= 'Z' {
			if k%2 == 0 {
				b[i] = c ^ 0x20
			}
			k++
		}
	}
	return string(b)
}

func c02KeySweep(o *Out) {
	r := o.rng
	c02Stratum = "audit stratum: struct key matcher boundaries"
	defer func() { c02Stratum = "" }()
	entries := c02Entries()
	use := []c02Entry{entries[0], entries[3], entries[4]}
	for _, n := range []int{1, 2, 7, 8, 9, 15, 16, 17, 18, 40} {
		for _, long := range []int{0, 63, 64, 65} {
			names := c02SweepNames(n, long)
			var fs []reflect.StructField
			for i, name := range names {
				fs = append(fs, reflect.StructField{Name: fmt.Sprintf("F%d", i), Type: reflect.TypeOf(0), Tag: reflect.StructTag(`json:"` + name + `"`)})
			}
			t := reflect.StructOf(fs)
			o.current(map[string]string{"property": "C02", "type": clipN(t.String(), 600), "stratum": "struct key matcher boundaries"})
			var docs []string
			var all, allEsc []string
			for i, name := range names {
				val := strconv.Itoa(i + 1)
				rs := []rune(name)
				sp := []string{strconvQuote(name), strconvQuote(c02ASCIICase(name, true)), strconvQuote(c02ASCIICase(name, false)), strconvQuote(c02AltCase(name)),
					c02EscapeSome(r, name, true), c02EscapeSome(r, name, false), c02EscapeSome(r, c02AltCase(name), false),
					strconvQuote(string(rs[:len(rs)-1])), strconvQuote(name + "x"), strconvQuote(name + name), strconvQuote(" " + name), strconvQuote(name + "\x00"),
					// the first / last character alone as an escape
					`"` + c02EscapeSome(r, string(rs[:1]), true)[1:len(c02EscapeSome(r, string(rs[:1]), true))-1] + strconvQuote(string(rs[1:]))[1:],
					strconvQuote(string(rs[:len(rs)-1]))[:len(strconvQuote(string(rs[:len(rs)-1])))-1] + c02EscapeSome(r, string(rs[len(rs)-1:]), true)[1:],
				}
				// the last byte replaced by the byte another name has at that position
				other := names[(i+1)%len(names)]
				if len(other) >= len(name) && other != name && name[len(name)-1] < 0x80 && other[len(name)-1] < 0x80 {
					sp = append(sp, strconvQuote(name[:len(name)-1]+other[len(name)-1:len(name)]))
				}
				for _, k := range sp {
					docs = append(docs, `{`+k+`:`+val+`}`)
				}
				all = append(all, strconvQuote(name)+":"+val)
				allEsc = append(allEsc, c02EscapeSome(r, c02AltCase(name), false)+" : "+val)
			}
			docs = append(docs, "{"+strings.Join(all, ",")+"}", "{"+strings.Join(allEsc, " , ")+`,"unknown":[{"a":"}"}]}`)
			for i, j := 0, len(all)-1; i < j; i, j = i+1, j-1 {
				all[i], all[j] = all[j], all[i]
			}
			docs = append(docs, `{"":0,`+strings.Join(all, ",")+","+strings.Join(allEsc, ",")+"}")
			mk := func() reflect.Value { return reflect.New(t) }
			for _, ds := range docs {
				doc := []byte(ds)
				if !utf8.Valid(doc) || !stdjson.Valid(doc) {
					o.count("generated_documents_not_valid_skipped", 1)
					continue
				}
				for _, e := range use {
					sv, gv := mk(), mk()
					serr := e.std(doc, sv.Interface())
					gerr := c04SafeErr(func() error { return e.goj(doc, gv.Interface()) })
					o.count("audit_key_matcher_sweep_decodes", 1)
					if (serr == nil) == (gerr == nil) && (serr != nil || reflect.DeepEqual(sv.Elem().Interface(), gv.Elem().Interface())) {
						continue
					}
					c02One(o, t, doc, mk, e, false) // reports it (and classifies it) with everything needed to replay
				}
			}
			o.hist("audit_key_matcher_sweep_fields", fmt.Sprintf("%d fields, long name %d bytes", n, long))
			o.count("audit_key_matcher_sweep_struct_types", 1)
		}
	}
}

// ---- a document written along the initial value ----

func c02FieldValueByName(v reflect.Value, name string) reflect.Value {
	t := v.Type()
	for i := 0; i < t.NumField(); i++ {
		f := t.Field(i)
		n := f.Name
		if tag := f.Tag.Get("json"); tag != "" {
			if p := strings.Split(tag, ",")[0]; p != "" {
				n = p
			}
		}
		if f.Anonymous && f.Tag.Get("json") == "" {
			ev := v.Field(i)
			if ev.Kind() == reflect.Ptr {
				if ev.IsNil() {
					if ev.Type().Elem().Kind() == reflect.Struct && c02FieldTypeByName(ev.Type().Elem(), name) != nil {
						return reflect.Value{}
					}
					continue
				}
				ev = ev.Elem()
			}
			if ev.Kind() == reflect.Struct {
				if c02FieldTypeByName(ev.Type(), name) != nil {
					return c02FieldValueByName(ev, name)
				}
				continue
			}
		}
		if n == name {
			return v.Field(i)
		}
	}
	return reflect.Value{}
}

func c02EmbedCycle(t reflect.Type, path map[reflect.Type]bool) bool {
	if t.Kind() == reflect.Ptr {
		t = t.Elem()
	}
	if t.Kind() != reflect.Struct {
		return false
	}
	if path[t] {
		return true
	}
	path[t] = true
	defer delete(path, t)
	for i := 0; i < t.NumField(); i++ {
		if f := t.Field(i); f.Anonymous && f.Tag.Get("json") == "" && c02EmbedCycle(f.Type, path) {
			return true
		}
	}
	return false
}

func c02DocAlong(r *rand.Rand, t reflect.Type, v reflect.Value, depth int, o *Out) string {
	if depth > 6 || !v.IsValid() {
		return c02Doc(r, t, depth, false)
	}
	switch r.Intn(14) {
	case 0:
		return "null"
	case 1:
		return c02Doc(r, t, depth, false)
	}
	if pt := reflect.PtrTo(t); pt.Implements(c02UnmarshalerIface) || pt.Implements(c02TextUnmarshalerIface) || t == reflect.TypeOf(stdjson.Number("")) || t == reflect.TypeOf(stdjson.RawMessage(nil)) {
		return c02Doc(r, t, depth, false)
	}
	switch t.Kind() {
	case reflect.Ptr:
		if v.IsNil() {
			return c02Doc(r, t, depth, false)
		}
		o.count("along:set_pointer_entered", 1)
		return c02DocAlong(r, t.Elem(), v.Elem(), depth+1, o)
	case reflect.Interface:
		if v.IsNil() || t.NumMethod() > 0 {
			return genValue(r, 2)
		}
		e := v.Elem()
		switch {
		case e.Kind() == reflect.Ptr && !e.IsNil():
			if !c02Open && c02HasEmbeddedPtrCycle(e.Type()) {
				// candidate finding EmbeddedPointerToTypeInProgress (see c02EmbedCycleStratum): not addressed member by member by default
				o.count("along:embedded_pointer_cycle_not_entered", 1)
				return genValue(r, 2)
			}
			o.count("along:pointer_in_interface_entered", 1)
			return c02DocAlong(r, e.Type().Elem(), e.Elem(), depth+1, o)
		case e.Kind() == reflect.Map && e.Type().Key().Kind() == reflect.String:
			var parts []string
			for _, k := range e.MapKeys() {
				if utf8.ValidString(k.String()) {
					parts = append(parts, strconvQuote(k.String())+":"+genValue(r, 1))
				}
			}
			o.count("along:map_in_interface_same_keys", 1)
			return "{" + strings.Join(parts, ",") + "}"
		case e.Kind() == reflect.Slice:
			var parts []string
			for i := 0; i < e.Len()+r.Intn(2); i++ {
				parts = append(parts, genValue(r, 1))
			}
			return "[" + strings.Join(parts, ",") + "]"
		}
		return genValue(r, 2)
	case reflect.Slice, reflect.Array:
		if t.Kind() == reflect.Slice && (v.IsNil() || t.Elem().Kind() == reflect.Uint8) {
			return c02Doc(r, t, depth, false)
		}
		n := v.Len() + r.Intn(3) - 1
		if n < 0 || r.Intn(8) == 0 {
			n = 0
		}
		c02Hist(o, "along:array_length_against_initial", []string{"shorter", "equal", "longer"}[map[bool]int{true: 0, false: 1}[n < v.Len()]+map[bool]int{true: 1, false: 0}[n > v.Len()]])
		var parts []string
		for i := 0; i < n; i++ {
			if i < v.Len() {
				parts = append(parts, c02WS(r)+c02DocAlong(r, t.Elem(), v.Index(i), depth+1, o))
			} else {
				parts = append(parts, c02Doc(r, t.Elem(), depth+1, false)+c02WS(r))
			}
		}
		return "[" + strings.Join(parts, ",") + "]"
	case reflect.Map:
		if v.IsNil() {
			return c02Doc(r, t, depth, false)
		}
		keys := v.MapKeys()
		sort.Slice(keys, func(i, j int) bool { return fmt.Sprint(keys[i].Interface()) < fmt.Sprint(keys[j].Interface()) })
		var parts []string
		for _, k := range keys {
			if r.Intn(3) == 0 {
				continue
			}
			var ks string
			switch k.Kind() {
			case reflect.String:
				if !utf8.ValidString(k.String()) || reflect.PtrTo(k.Type()).Implements(c02TextUnmarshalerIface) {
					continue
				}
				ks = strconvQuote(k.String())
				if r.Intn(4) == 0 {
					ks = c02EscapeSome(r, k.String(), false)
				}
			case reflect.Int, reflect.Int8, reflect.Int16, reflect.Int32, reflect.Int64:
				ks = `"` + strconv.FormatInt(k.Int(), 10) + `"`
			case reflect.Uint, reflect.Uint8, reflect.Uint16, reflect.Uint32, reflect.Uint64, reflect.Uintptr:
				ks = `"` + strconv.FormatUint(k.Uint(), 10) + `"`
			default:
				continue
			}
			o.count("along:key_the_map_already_holds", 1)
			parts = append(parts, ks+c02WS(r)+":"+c02DocAlong(r, t.Elem(), v.MapIndex(k), depth+1, o))
		}
		for k := r.Intn(3); k > 0; k-- {
			parts = append(parts, c02KeyFor(r, t.Key())+":"+c02Doc(r, t.Elem(), depth+1, false))
		}
		r.Shuffle(len(parts), func(i, j int) { parts[i], parts[j] = parts[j], parts[i] })
		return "{" + strings.Join(parts, c02WS(r)+",") + c02WS(r) + "}"
	case reflect.Struct:
		if c02EmbedCycle(t, map[reflect.Type]bool{}) {
			return genValue(r, 2) // a type that embeds itself (reached as the dynamic type of an interface): its names cannot be listed by recursion
		}
		var parts []string
		for _, name := range c02FieldNames(t) {
			if r.Intn(4) == 0 {
				continue
			}
			ft := c02FieldTypeByName(t, name)
			val := genValue(r, 1)
			if ft != nil {
				fv := c02FieldValueByName(v, name)
				if fv.IsValid() && fv.Type() == ft {
					val = c02DocAlong(r, ft, fv, depth+1, o)
				} else {
					val = c02Doc(r, ft, depth+1, false)
				}
				if c02FieldHasStringOption(t, name) && r.Intn(4) != 0 {
					val = c02QuoteValue(r, val)
				}
			}
			parts = append(parts, c02KeySpelling(r, name)+":"+c02WS(r)+val)
		}
		if r.Intn(4) == 0 {
			parts = append(parts, `"unknown":`+genValue(r, 2))
		}
		r.Shuffle(len(parts), func(i, j int) { parts[i], parts[j] = parts[j], parts[i] })
		return "{" + strings.Join(parts, ","+c02WS(r)) + "}"
	}
	return c02Doc(r, t, depth, false)
}

// ---- what is passed as the destination; white space around the value; nesting at the limit ----

func c02TopLevelStratum(o *Out) {
	c02Stratum = "audit stratum: destination forms, outer white space, nesting limit"
	defer func() { c02Stratum = "" }()
	entries := c02Entries()
	type form struct {
		name string
		mk   func() interface{}
	}
	forms := []form{
		{"untyped nil", func() interface{} { return nil }},
		{"an int, not a pointer", func() interface{} { return 5 }},
		{"a struct, not a pointer", func() interface{} { return C02Sw{A: 1} }},
		{"a map, not a pointer", func() interface{} { return map[string]int{"a": 1} }},
		{"a slice, not a pointer", func() interface{} { return []int{1} }},
		{"nil *int", func() interface{} { return (*int)(nil) }},
		{"nil *struct", func() interface{} { return (*C02Sw)(nil) }},
		{"nil *C02UJ", func() interface{} { return (*C02UJ)(nil) }},
		{"**int, inner nil", func() interface{} { return new(*int) }},
		{"**int, inner set", func() interface{} { x := 7; p := &x; return &p }},
		{"***string, all set", func() interface{} { x := "s"; p := &x; pp := &p; return &pp }},
		{"**struct, inner set", func() interface{} { p := &C02Sw{A: 1, D: map[string]int{"x": 1}}; return &p }},
		{"*interface{} holding *int", func() interface{} { x := 7; var i interface{} = &x; return &i }},
		{"*interface{} holding *struct", func() interface{} { var i interface{} = &C02Sw{A: 1}; return &i }},
		{"*interface{} holding nil *int", func() interface{} { var i interface{} = (*int)(nil); return &i }},
		{"*interface{} holding a map", func() interface{} { var i interface{} = map[string]interface{}{"A": 1.0}; return &i }},
		{"*interface{} holding *map", func() interface{} { m := map[string]int{"old": 1}; var i interface{} = &m; return &i }},
		{"*interface{} holding *[]int", func() interface{} { s := []int{1, 2, 3}; var i interface{} = &s; return &i }},
		{"*interface{} holding *C02UJ", func() interface{} { var i interface{} = &C02UJ{Raw: "old"}; return &i }},
		{"*interface{} holding a struct", func() interface{} { var i interface{} = C02Sw{A: 1}; return &i }},
		{"*C02UJ", func() interface{} { return &C02UJ{} }},
		{"**C02UT, inner nil", func() interface{} { return new(*C02UT) }},
		{"*[2]int", func() interface{} { return &[2]int{8, 9} }},
		{"*int", func() interface{} { return new(int) }},
		{"*string", func() interface{} { return new(string) }},
		{"*bool", func() interface{} { return new(bool) }},
		{"*float64", func() interface{} { return new(float64) }},
		{"*[]byte", func() interface{} { return new([]byte) }},
		{"*json.Number", func() interface{} { return new(stdjson.Number) }},
		{"*json.RawMessage", func() interface{} { return new(stdjson.RawMessage) }},
		{"*map[string]int", func() interface{} { return new(map[string]int) }},
		{"*struct", func() interface{} { return new(C02Sw) }},
	}
	cores := []string{"null", "1", "-0", "1.5e1", `"s"`, `"AQID"`, "true", "false", "[]", "[1,2,3]", "{}", `{"A":2,"D":{"y":2}}`, `{"old":null,"new":3}`}
	wss := []string{"", " ", "\n", "\t", "\r", "\r\n", " \t\n\r ", strings.Repeat(" ", 64), strings.Repeat("\n", 513)}
	use := []c02Entry{entries[0], entries[1], entries[2], entries[3], entries[6]}
	for _, f := range forms {
		for _, core := range cores {
			for wi, ws := range wss {
				doc := []byte(ws + core + wss[(wi*5+3)%len(wss)])
				for _, e := range use {
					o.count("audit_destination_form_decodes", 1)
					sv, gv := f.mk(), f.mk()
					serr := e.std(doc, sv)
					gerr := c04SafeErr(func() error { return e.goj(doc, gv) })
					if (serr == nil) == (gerr == nil) && (serr != nil || reflect.DeepEqual(sv, gv)) {
						continue
					}
					o.violation("C02", "destination form: differs from encoding/json ["+c02Stratum+"]", map[string]string{
						"entry": e.name, "destination": f.name, "doc": clipN(strconv.Quote(string(doc)), 300), "encoding_json_err": fmt.Sprint(serr), "go_json_err": fmt.Sprint(gerr),
						"encoding_json": clipN(fmt.Sprintf("%#v", sv), 300), "go_json": clipN(fmt.Sprintf("%#v", gv), 300)})
				}
			}
		}
		o.hist("audit_destination_form", f.name)
		o.count("audit_destination_forms", 1)
	}
	// nesting around the limit of 10000, through every decoder that counts depth and through the code that steps over values
	type deep struct {
		name string
		mk   func() interface{}
		doc  func(d int) string
	}
	arr := func(d int) string { return strings.Repeat("[", d) + strings.Repeat("]", d) }
	obj := func(d int) string { return strings.Repeat(`{"next":`, d) + "null" + strings.Repeat("}", d) }
	deeps := []deep{
		{"interface{} <- arrays", func() interface{} { return new(interface{}) }, arr},
		{"interface{} <- objects", func() interface{} { return new(interface{}) }, obj},
		{"[]interface{} <- arrays", func() interface{} { return new([]interface{}) }, arr},
		{"map[string]interface{} <- objects", func() interface{} { return new(map[string]interface{}) }, obj},
		{"TgRec <- next", func() interface{} { return new(TgRec) }, obj},
		{"TgRec <- kids", func() interface{} { return new(TgRec) }, func(d int) string {
			return strings.Repeat(`{"kids":[`, d/2) + strings.Repeat(`]}`, d/2)
		}},
		{"TgRec <- m", func() interface{} { return new(TgRec) }, func(d int) string {
			return strings.Repeat(`{"m":{"k":`, d/2) + "{}" + strings.Repeat(`}}`, d/2)
		}},
		{"RawMessage", func() interface{} { return new(stdjson.RawMessage) }, arr},
		{"C02UJ", func() interface{} { return new(C02UJ) }, obj},
		{"unknown member stepped over", func() interface{} { return new(C02Sw) }, func(d int) string { return `{"unknown":` + arr(d-1) + `,"A":1}` }},
		{"surplus array element stepped over", func() interface{} { return new([1]int) }, func(d int) string { return `[1,` + obj(d-1) + `]` }},
		{"[][][]int prefix", func() interface{} { return new([][][]interface{}) }, arr},
	}
	for _, dp := range deeps {
		for _, d := range []int{9998, 9999, 10000, 10001, 10002, 10004} {
			doc := []byte(dp.doc(d))
			for _, e := range []c02Entry{entries[0], entries[3]} {
				o.current(map[string]string{"property": "C02", "destination": dp.name, "nesting": strconv.Itoa(d), "entry": e.name})
				o.count("audit_nesting_limit_decodes", 1)
				sv, gv := dp.mk(), dp.mk()
				serr := e.std(doc, sv)
				gerr := c04SafeErr(func() error { return e.goj(doc, gv) })
				if (serr == nil) == (gerr == nil) && (serr != nil || reflect.DeepEqual(sv, gv)) {
					if serr != nil {
						c02Hist(o, "audit_nesting_limit", "both refuse")
					} else {
						c02Hist(o, "audit_nesting_limit", "both accept")
					}
					continue
				}
				o.violation("C02", "nesting limit: differs from encoding/json ["+c02Stratum+"]", map[string]string{
					"entry": e.name, "destination": dp.name, "nesting": strconv.Itoa(d), "encoding_json_err": fmt.Sprint(serr), "go_json_err": fmt.Sprint(gerr)})
			}
		}
	}
}

// ---- a struct that embeds a pointer to a struct type that contains it again ----

type C02CycA struct {
	X    int
	Kids []C02CycB
}
type C02CycB struct {
	*C02CycA
	Rel string
}

// reaches: t contains (through fields, elements, pointers) the struct type target
func c02Reaches(t, target reflect.Type, seen map[reflect.Type]bool) bool {
	if seen[t] {
		return false
	}
	seen[t] = true
	switch t.Kind() {
	case reflect.Ptr, reflect.Slice, reflect.Array, reflect.Map:
		return c02Reaches(t.Elem(), target, seen)
	case reflect.Struct:
		if t == target {
			return true
		}
		for i := 0; i < t.NumField(); i++ {
			if c02Reaches(t.Field(i).Type, target, seen) {
				return true
			}
		}
	}
	return false
}

// c02HasEmbeddedPtrCycle: somewhere in t a struct S embeds (without a tag) a pointer to a struct E other than S, and E contains S again
func c02HasEmbeddedPtrCycle(t reflect.Type) bool {
	found := false
	seen := map[reflect.Type]bool{}
	var walk func(t reflect.Type)
	walk = func(t reflect.Type) {
		if seen[t] || found {
			return
		}
		seen[t] = true
		switch t.Kind() {
		case reflect.Ptr, reflect.Slice, reflect.Array, reflect.Map:
			walk(t.Elem())
		case reflect.Struct:
			for i := 0; i < t.NumField(); i++ {
				f := t.Field(i)
				if f.Anonymous && f.Tag.Get("json") == "" && f.Type.Kind() == reflect.Ptr && f.Type.Elem().Kind() == reflect.Struct && f.Type.Elem() != t &&
					c02Reaches(f.Type.Elem(), t, map[reflect.Type]bool{}) {
					found = true
					return
				}
				walk(f.Type)
			}
		}
	}
	walk(t)
	return found
}

// c02EmbedCycleStratum: candidate finding EmbeddedPointerToTypeInProgress.  type A struct{ X int; Kids []B }; type B struct{ *A; Rel string }:
// decoding into A compiles B while A is still being compiled, B takes over none of A's members, and {"Kids":[{"X":1}]}
// loses X (and a wrong value for X is no error); decoding into B directly is right.  Runs only with AUDIT_OPEN=1.
func c02EmbedCycleStratum(o *Out) {
	types := []reflect.Type{reflect.TypeOf(C02CycA{}), reflect.TypeOf(C02CycB{}), reflect.TypeOf(TgItem{}), reflect.TypeOf(TgItemLink{}), reflect.TypeOf(TgMutEmbA{}), reflect.TypeOf(TgMutEmbB{}),
		reflect.TypeOf([]C02CycA(nil)), reflect.TypeOf(map[string]*TgItem(nil))}
	if !c02Open {
		o.count("audit_embedded_pointer_cycle_types_of_open_candidate_not_run", int64(len(types)))
		return
	}
	r := o.rng
	c02Stratum = "audit stratum: embedded pointer to a type in progress (repaired in /repo: ace1a72)"
	defer func() { c02Stratum = "" }()
	entries := c02Entries()
	fixed := map[reflect.Type][]string{
		reflect.TypeOf(C02CycA{}):   {`{"Kids":[{"X":1,"Rel":"r"}]}`, `{"Kids":[{"Kids":[{"X":"not a number"}]}]}`},
		reflect.TypeOf(C02CycB{}):   {`{"X":1,"Kids":[{"X":2}],"Rel":"r"}`, `{"Kids":[{"Kids":[{"X":3}]}]}`},
		reflect.TypeOf(TgItem{}):    {`{"Next":{"ID":5,"Name":"n","Rel":"r"}}`, `{"Links":[{"ID":5}]}`, `{"Next":{"Links":[{"Rel":1.5}]}}`},
		reflect.TypeOf(TgMutEmbA{}): {`{"B":{"X":1,"Y":2}}`},
	}
	per := 40
	if o.tier == "thorough" {
		per = 800
	}
	for _, t := range types {
		docs := append([]string{}, fixed[t]...)
		for i := 0; i < per; i++ {
			docs = append(docs, c02Doc(r, t, 0, false))
		}
		for i, ds := range docs {
			doc := []byte(ds)
			if !utf8.Valid(doc) || !stdjson.Valid(doc) {
				continue
			}
			seed := r.Int63()
			populated := i%2 == 1 && i >= len(fixed[t])
			mk := func() reflect.Value {
				v := reflect.New(t)
				if populated {
					tgValue(rand.New(rand.NewSource(seed)), v.Elem(), 0, 30, false)
				}
				return v
			}
			c02One(o, t, doc, mk, entries[r.Intn(len(entries))], populated)
			o.count("audit_embedded_pointer_cycle_decodes", 1)
		}
	}
}

// ---- kinds that cannot be decoded ----

type C02Unsup struct {
	A  int
	F  func()
	C  chan int
	X  complex128
	UP unsafe.Pointer
	PF *func()
	SF []func()
	MC map[string]chan int
	AX [1]complex64
}

// c02UnsupportedKindStratum: fields of kinds no JSON value can be stored in (func, chan, complex, unsafe.Pointer; behind a
// pointer, in a slice, a map, an array).  encoding/json refuses every value but null for them and ignores them when the document
// does not name them.  Candidate finding NullIntoUndecodableKind (null into chan / complex / unsafe.Pointer is an error in
// go-json, accepted by encoding/json; null into a func is an error in Decoder.Decode only): those documents only with AUDIT_OPEN=1.
func c02UnsupportedKindStratum(o *Out) {
	c02Stratum = "audit stratum: kinds that cannot be decoded"
	defer func() { c02Stratum = "" }()
	entries := c02Entries()
	t := reflect.TypeOf(C02Unsup{})
	mk := func() reflect.Value { return reflect.New(t) }
	docs := []string{`{"A":1}`, `{}`, `null`}
	var open []bool
	for range docs {
		open = append(open, false)
	}
	for _, f := range []string{"F", "C", "X", "UP", "PF", "SF", "MC", "AX"} {
		for _, v := range []string{"null", "1", `"s"`, "{}", "[]", "[null]", `{"k":null}`, "true", "1.5", "[1]"} {
			docs = append(docs, `{"A":1,"`+f+`":`+v+`}`)
			// (for a func the buffer mode agrees with encoding/json and the Decoder does not: its funcDecoder reads the null twice)
			open = append(open, (f == "C" || f == "X" || f == "UP" || f == "F") && v == "null" || f == "MC" && v == `{"k":null}` || (f == "AX" || f == "SF") && v == "[null]")
		}
	}
	for i, ds := range docs {
		if open[i] && !c02Open {
			o.count("audit_undecodable_kind_cases_of_open_candidate_not_run", 1)
			continue
		}
		for _, e := range []c02Entry{entries[0], entries[3], entries[4]} {
			if open[i] {
				c02Stratum = "audit stratum: kinds that cannot be decoded; candidate finding NullIntoUndecodableKind"
			}
			c02One(o, t, []byte(ds), mk, e, false)
			c02Stratum = "audit stratum: kinds that cannot be decoded"
			o.count("audit_undecodable_kind_decodes", 1)
		}
	}
}

// ---- an unmarshal method promoted into an unnamed struct type ----

type C02Prom struct {
	In struct {
		C02UJ
		V int
	}
	When struct {
		time.Time
		Zone string
	}
	L []struct {
		C02UT
		V int
	}
	M map[string]struct {
		C02UJ
		V int
	}
	A [1]struct {
		C02UJ
		V int
	}
	P *struct { // behind a pointer the method is found by both libraries
		C02UJ
		V int
	}
	Z int
}

// c02PromotedStratum: candidate finding UnnamedStructPromotedUnmarshaler.  A struct field, slice element, map value or array
// element whose type is an UNNAMED struct type that has UnmarshalJSON / UnmarshalText by embedding: encoding/json looks for the
// method on pointers only and takes the address of named types only, so it decodes such a value member by member; go-json
// calls the promoted method.  Behind a pointer and at top level the two agree (run by default).  The rest only with AUDIT_OPEN=1.
func c02PromotedStratum(o *Out) {
	c02Stratum = "audit stratum: promoted unmarshal method on an unnamed struct type"
	defer func() { c02Stratum = "" }()
	entries := c02Entries()
	t := reflect.TypeOf(C02Prom{})
	vals := []string{`{"V":1}`, `{"V":1,"Raw":"r","N":2}`, `{"V":2,"Text":"t"}`, `{"Zone":"x"}`, `"2006-01-02T15:04:05Z"`, `"text"`, `null`, `{}`, `1`, `[1]`}
	for _, field := range []string{"In", "When", "L", "M", "A", "P", "Z"} {
		for _, val := range vals {
			open := ""
			if field != "P" && field != "Z" {
				open = "UnnamedStructPromotedUnmarshaler"
			}
			if open != "" && !c02Open {
				o.count("audit_promoted_method_cases_of_open_candidate_not_run", 1)
				continue
			}
			switch field {
			case "L", "A":
				val = "[" + val + "]"
			case "M":
				val = `{"k":` + val + `}`
			}
			doc := []byte(`{"` + field + `":` + val + `,"Z":3}`)
			for pi, populated := range []bool{false, true} {
				mk := func() reflect.Value {
					v := reflect.New(t)
					if populated {
						tgValue(rand.New(rand.NewSource(77)), v.Elem(), 0, 0, false)
					}
					return v
				}
				if open != "" {
					c02Stratum = "audit stratum: promoted unmarshal method on an unnamed struct type; candidate finding " + open
				}
				c02One(o, t, doc, mk, entries[[]int{0, 3}[pi]], populated)
				c02Stratum = "audit stratum: promoted unmarshal method on an unnamed struct type"
				o.count("audit_promoted_method_decodes", 1)
			}
		}
	}
	// at top level: a pointer to the unnamed type is what the caller passes
	for _, ds := range []string{`{"V":1}`, `null`, `"s"`} {
		mk := func() reflect.Value {
			return reflect.ValueOf(new(struct {
				C02UJ
				V int
			}))
		}
		c02One(o, mk().Type().Elem(), []byte(ds), mk, entries[0], false)
		o.count("audit_promoted_method_decodes", 1)
	}
}

func c02AuditStrata(o *Out) {
	for _, st := range []struct {
		name string
		run  func(*Out)
	}{{"quoted_option", c02QuotedStratum}, {"interfaces_with_methods", c02IfaceStratum}, {"map_key_types", c02MapKeyStratum},
		{"key_matcher_sweep", c02KeySweep}, {"destination_forms", c02TopLevelStratum}, {"embedded_pointer_cycle", c02EmbedCycleStratum},
		{"promoted_method", c02PromotedStratum}, {"undecodable_kinds", c02UnsupportedKindStratum}} {
		start := time.Now()
		st.run(o)
		o.count("audit_milliseconds_"+st.name, time.Since(start).Milliseconds())
		o.checkpoint()
	}
}
