package main

// C13: all encoder variants and options describe the same document.  For
// values of the C01 type grammar:
//   MarshalIndent(v,p,i) == encoding/json.Indent(Marshal(v),p,i) for prefixes and indents over "", " ", "\t", multi-byte;
//   Colorize with an empty scheme == uncoloured; with a scheme of unique markers == uncoloured once the markers are removed;
//   UnorderedMap changes only the order of map members;
//   DisableHTMLEscape changes only the spelling of < > &;
//   Encoder.Encode, MarshalNoEscape, MarshalContext (no query), Debug == Marshal (+ the Encoder's newline);
//   a value encodes identically at top level, behind a pointer and inside interface{}.

import (
	"bytes"
	"context"
	stdjson "encoding/json"
	"fmt"
	"os"
	"os/exec"
	"reflect"
	"strconv"
	"strings"
	"time"

	gojson "github.com/goccy/go-json"
)

func init() {
	props["C13"] = runC13
	props["C13child"] = runC13Child
}

var c13Indents = [][2]string{{"", " "}, {"", "\t"}, {">", "  "}, {"é ", "→"}, {"", ""}, {"pfx", ""}, {" ", "    "}}

func c13Scheme() *gojson.ColorScheme {
	mk := func(i int) gojson.ColorFormat {
		return gojson.ColorFormat{Header: fmt.Sprintf("\x01H%d\x02", i), Footer: fmt.Sprintf("\x01F%d\x02", i)}
	}
	return &gojson.ColorScheme{Int: mk(1), Uint: mk(2), Float: mk(3), Bool: mk(4), String: mk(5), Binary: mk(6), ObjectKey: mk(7), Null: mk(8)}
}

func c13StripMarkers(b []byte) []byte {
	var out []byte
	for i := 0; i < len(b); i++ {
		if b[i] == 0x01 {
			j := bytes.IndexByte(b[i:], 0x02)
			if j > 0 {
				i += j
				continue
			}
		}
		out = append(out, b[i])
	}
	return out
}

// unescape exactly the HTML escapes (< > &) inside string tokens
func c13UnescapeHTML(b []byte) []byte {
	var out []byte
	in := false
	for i := 0; i < len(b); i++ {
		c := b[i]
		if !in {
			if c == '"' {
				in = true
			}
			out = append(out, c)
			continue
		}
		if c == '\\' && i+1 < len(b) {
			if b[i+1] == 'u' && i+5 < len(b) {
				switch strings.ToLower(string(b[i+2 : i+6])) {
				case "003c":
					out = append(out, '<')
					i += 5
					continue
				case "003e":
					out = append(out, '>')
					i += 5
					continue
				case "0026":
					out = append(out, '&')
					i += 5
					continue
				}
			}
			if b[i+1] == '\\' && i+6 < len(b) && b[i+2] == 'u' {
				// a string inside a string (",string"): the inner escape, one level down (the generated data holds no literal \u003c text)
				switch strings.ToLower(string(b[i+3 : i+7])) {
				case "003c":
					out = append(out, '<')
					i += 6
					continue
				case "003e":
					out = append(out, '>')
					i += 6
					continue
				case "0026":
					out = append(out, '&')
					i += 6
					continue
				}
			}
			out = append(out, c, b[i+1])
			i++
			continue
		}
		if c == '"' {
			in = false
		}
		out = append(out, c)
	}
	return out
}

func c13SameUnordered(a, b []byte) bool {
	var x, y interface{}
	da := stdjson.NewDecoder(bytes.NewReader(a))
	da.UseNumber()
	db := stdjson.NewDecoder(bytes.NewReader(b))
	db.UseNumber()
	if da.Decode(&x) != nil || db.Decode(&y) != nil {
		return false
	}
	p, _ := stdjson.Marshal(x)
	q, _ := stdjson.Marshal(y)
	return bytes.Equal(p, q) && len(a) == len(b)
}

func runC13Child(o *Out) {
	r := o.rng
	ntypes := 900
	if o.tier == "thorough" {
		ntypes = 12000
	}
	skip, _ := strconv.Atoi(os.Getenv("C13_SKIP_TYPES"))
	reported := map[string]bool{}
	report := func(t reflect.Type, v reflect.Value, rule string, det map[string]string) {
		key := t.String() + "|" + rule
		if reported[key] {
			o.count("repeat_disagreements", 1)
			return
		}
		reported[key] = true
		if cls := c13Classify(t, v, rule, det); cls != "" {
			o.known(cls, fmt.Sprintf("%s: %s", rule, clipN(t.String(), 200)))
			return
		}
		delete(det, "_got_full")
		det["type"] = clipN(t.String(), 400)
		det["value"] = c01Describe(t, v)
		det["rule"] = rule
		o.violation("C13", "encoder variants disagree: "+rule, det)
	}
	for ti := 0; ti < ntypes; ti++ {
		t := tgType(r, 3, tgOpts{named: true})
		if t.Kind() == reflect.Interface {
			t = reflect.TypeOf(c01Wrap{})
		}
		v := reflect.New(t)
		tgValue(r, v.Elem(), 0, []int{0, 20, 50}[ti%3], false)
		if cls := tgKnownBadAnywhere(reflect.PtrTo(t), 0); cls != "" {
			o.count("types_skipped_for_recorded_finding:"+cls, 1)
			continue
		}
		if ti < skip {
			continue
		}
		os.WriteFile(o.dir+"/progress", []byte(strconv.Itoa(ti)), 0o644)
		o.current(map[string]string{"property": "C13", "type": t.String(), "value": c01Describe(t, v), "crash_class": c01CrashClass(t, v, 0)})
		arg := v.Elem().Interface()
		base, err := c01Safe(func() ([]byte, error) { return gojson.Marshal(arg) })
		o.count("values", 1)
		if err != nil {
			// every other entry point must fail too
			for name, f := range map[string]func() ([]byte, error){
				"MarshalIndent":   func() ([]byte, error) { return gojson.MarshalIndent(arg, "", " ") },
				"MarshalNoEscape": func() ([]byte, error) { return gojson.MarshalNoEscape(arg) },
				"MarshalContext":  func() ([]byte, error) { return gojson.MarshalContext(context.Background(), arg) },
			} {
				if _, e2 := c01Safe(f); e2 == nil {
					report(t, v, name+" succeeds where Marshal fails", map[string]string{"marshal_error": err.Error()})
				}
			}
			continue
		}
		cmp := func(rule string, got []byte, e error, want []byte) {
			o.count("comparisons", 1)
			if e != nil || !bytes.Equal(got, want) {
				report(t, v, rule, map[string]string{"got": clipN(string(got), 300), "want": clipN(string(want), 300), "err": fmt.Sprint(e), "_got_full": string(got),
					"got_at_difference": around(got, firstDiff(got, want)), "want_at_difference": around(want, firstDiff(got, want))})
			}
		}
		// 1. indent
		for _, pi := range c13Indents {
			var want bytes.Buffer
			if stdjson.Indent(&want, base, pi[0], pi[1]) != nil {
				continue
			}
			got, e := c01Safe(func() ([]byte, error) { return gojson.MarshalIndent(arg, pi[0], pi[1]) })
			cmp(fmt.Sprintf("MarshalIndent(%q,%q) = Indent(Marshal)", pi[0], pi[1]), got, e, want.Bytes())
		}
		{
			var b bytes.Buffer
			e := gojson.NewEncoder(&b)
			e.SetIndent(">", "\t")
			err := e.Encode(arg)
			var want bytes.Buffer
			stdjson.Indent(&want, base, ">", "\t")
			want.WriteByte('\n')
			cmp("Encoder.SetIndent = Indent(Marshal)+newline", b.Bytes(), err, want.Bytes())
		}
		// 2. colour
		got, e := c01Safe(func() ([]byte, error) { return gojson.MarshalWithOption(arg, gojson.Colorize(&gojson.ColorScheme{})) })
		cmp("Colorize(empty scheme) = Marshal", got, e, base)
		got, e = c01Safe(func() ([]byte, error) { return gojson.MarshalWithOption(arg, gojson.Colorize(c13Scheme())) })
		cmp("Colorize(markers) minus markers = Marshal", c13StripMarkers(got), e, base)
		got, e = c01Safe(func() ([]byte, error) {
			return gojson.MarshalIndentWithOption(arg, "", "  ", gojson.Colorize(c13Scheme()))
		})
		{
			var want bytes.Buffer
			stdjson.Indent(&want, base, "", "  ")
			cmp("MarshalIndent+Colorize(markers) minus markers = Indent(Marshal)", c13StripMarkers(got), e, want.Bytes())
		}
		// 3. unordered maps
		got, e = c01Safe(func() ([]byte, error) { return gojson.MarshalWithOption(arg, gojson.UnorderedMap()) })
		o.count("comparisons", 1)
		if e != nil || !c13SameUnordered(got, base) {
			report(t, v, "UnorderedMap changes more than the order of map members", map[string]string{"got": clipN(string(got), 300), "want": clipN(string(base), 300), "err": fmt.Sprint(e)})
		}
		// 4. HTML escape
		got, e = c01Safe(func() ([]byte, error) { return gojson.MarshalWithOption(arg, gojson.DisableHTMLEscape()) })
		cmp("DisableHTMLEscape = Marshal with \\u003c \\u003e \\u0026 spelled out", got, e, c13UnescapeHTML(base))
		// 5. entry points
		{
			var b bytes.Buffer
			err := gojson.NewEncoder(&b).Encode(arg)
			cmp("Encoder.Encode = Marshal+newline", b.Bytes(), err, append(append([]byte(nil), base...), '\n'))
		}
		got, e = c01Safe(func() ([]byte, error) { return gojson.MarshalNoEscape(arg) })
		cmp("MarshalNoEscape = Marshal", got, e, base)
		got, e = c01Safe(func() ([]byte, error) { return gojson.MarshalContext(context.Background(), arg) })
		cmp("MarshalContext(no query) = Marshal", got, e, base)
		var dbg bytes.Buffer
		got, e = c01Safe(func() ([]byte, error) { return gojson.MarshalWithOption(arg, gojson.Debug(), gojson.DebugWith(&dbg)) })
		cmp("Debug = Marshal", got, e, base)
		// 6. reached through a pointer and inside interface{}; a pointer makes the value addressable, which matters to
		// encoding/json too when a method has a pointer receiver: compared only where encoding/json itself does not distinguish
		sv, e1 := stdjson.Marshal(arg)
		sp, e2 := stdjson.Marshal(v.Interface())
		if e1 == nil && e2 == nil && bytes.Equal(sv, sp) {
			got, e = c01Safe(func() ([]byte, error) { return gojson.Marshal(v.Interface()) })
			cmp("Marshal(&v) = Marshal(v)", got, e, base)
		}
		got, e = c01Safe(func() ([]byte, error) { return gojson.Marshal([]interface{}{arg}) })
		cmp("Marshal([]interface{}{v}) = [Marshal(v)]", got, e, append(append([]byte("["), base...), ']'))
		got, e = c01Safe(func() ([]byte, error) { return gojson.Marshal(c01Wrap{I: arg}) })
		cmp("Marshal(struct{I interface{}}{v}) = {\"i\":Marshal(v)}", got, e, append(append([]byte(`{"i":`), base...), '}'))
		// 7. the same value below interface{} members, indented: every line of what lies below an interface (marshaler
		// results included) carries the indentation of the levels above it
		for wi, wrapped := range []interface{}{c01Wrap{I: arg}, []interface{}{arg}, map[string]interface{}{"k": []interface{}{arg}}} {
			wbase, werr := c01Safe(func() ([]byte, error) { return gojson.Marshal(wrapped) })
			if werr != nil {
				continue
			}
			pi := c13Indents[(ti+wi)%len(c13Indents)]
			var want bytes.Buffer
			if stdjson.Indent(&want, wbase, pi[0], pi[1]) != nil {
				continue
			}
			got, e := c01Safe(func() ([]byte, error) { return gojson.MarshalIndent(wrapped, pi[0], pi[1]) })
			cmp(fmt.Sprintf("MarshalIndent(%q,%q) of the value below interface{} (wrapping %d) = Indent(Marshal)", pi[0], pi[1], wi), got, e, want.Bytes())
		}
	}
}

// frozen classes of recorded findings for C13
func c13Classify(t reflect.Type, v reflect.Value, rule string, det map[string]string) string {
	ts := c01Shape(t, v)
	if strings.Contains(ts, "<ptrshaped>") {
		return "PointerShapedAggregate"
	}
	for _, n := range []string{"*main.TgTV", "*main.TgIntKey", "*main.TgMV", "*time.Time", "*main.TgMErr", "*json.Number", "*json.RawMessage"} {
		if strings.Contains(ts, n) && (strings.Contains(det["err"], "called using nil *") || strings.Contains(rule, "succeeds where Marshal fails")) {
			return "NilPtrToValueReceiverMarshaler"
		}
	}
	if strings.Contains(rule, "Colorize(markers)") && strings.Contains(ts, ",string") && strings.Contains(det["_got_full"], `\u0001H5\u0002`) {
		// the colour codes of a string field with the ,string option are written before the second quoting and get escaped with it
		return "ColorizeStringOptionEscapesMarkers"
	}
	return ""
}

// the indenting interpreter beside its model (op c13.indent): generated value trees realised as Go values,
// MarshalIndent with white-space and other prefixes / indents, byte for byte
func c13ModelCases(o *Out) {
	r := o.rng
	n := 1500
	if o.tier == "thorough" {
		n = 20000
	}
	pairs := [][2]string{{"", "  "}, {"", "\t"}, {" ", " "}, {"", ""}, {"\t\t", "   "}, {">", "--"}, {"", "\n"}, {"p", ""}}
	for i := 0; i < n; i++ {
		j := c01GenJ(r, 3)
		if j.kind == 'Z' {
			continue
		}
		_, v := j.realise(false)
		var w strings.Builder
		j.wire(&w)
		pi := pairs[r.Intn(len(pairs))]
		for how := 0; how < 2; how++ {
			var arg interface{} = v.Interface()
			if how == 1 {
				p := reflect.New(v.Type())
				p.Elem().Set(v)
				arg = p.Interface()
			}
			got, err := c01Safe(func() ([]byte, error) { return gojson.MarshalIndentWithOption(arg, pi[0], pi[1], gojson.DisableHTMLEscape()) })
			res := string(got)
			if err != nil {
				res = "ERR " + err.Error()
			}
			o.emit("A", "c13.indent", [][]byte{[]byte(w.String()), []byte(pi[0]), []byte(pi[1]), []byte(strconv.Itoa(how))}, []byte(res), nil, false)
			o.count("indent_model_cases", 1)
		}
		// the colouring interpreter beside its model (op c13.color): markers of two shapes, and the empty scheme
		mk := func(h, f string) gojson.ColorFormat { return gojson.ColorFormat{Header: h, Footer: f} }
		var marks [10]string
		switch i % 3 {
		case 0:
			marks = [10]string{"\x01H1\x02", "\x01F1\x02", "\x01H5\x02", "\x01F5\x02", "\x01H4\x02", "\x01F4\x02", "\x01H8\x02", "\x01F8\x02", "\x01H7\x02", "\x01F7\x02"}
		case 1:
			marks = [10]string{"<", ">", "\"", "\"", ",", ":", "}", "", "", "{"} // markers made of JSON's own punctuation
		}
		sch := &gojson.ColorScheme{Int: mk(marks[0], marks[1]), Uint: mk(marks[0], marks[1]), Float: mk(marks[0], marks[1]), String: mk(marks[2], marks[3]),
			Bool: mk(marks[4], marks[5]), Null: mk(marks[6], marks[7]), ObjectKey: mk(marks[8], marks[9]), Binary: mk("B", "b")}
		got, err := c01Safe(func() ([]byte, error) { return gojson.MarshalWithOption(v.Interface(), gojson.Colorize(sch), gojson.DisableHTMLEscape()) })
		res := string(got)
		if err != nil {
			res = "ERR " + err.Error()
		}
		args := [][]byte{[]byte(w.String())}
		for _, m := range marks {
			args = append(args, []byte(m))
		}
		o.emit("A", "c13.color", args, []byte(res), nil, false)
		o.count("colour_model_cases", 1)
	}
}

func runC13(o *Out) {
	c13ModelCases(o)
	self, _ := os.Executable()
	startAll := time.Now()
	skip := 0
	for attempt := 0; attempt < 25; attempt++ {
		dir := o.dir + "/run" + strconv.Itoa(attempt)
		limit := 180 * time.Second
		if o.tier == "thorough" {
			limit = 1800 * time.Second
		}
		cctx, cancel := context.WithTimeout(context.Background(), limit)
		cmd := exec.CommandContext(cctx, self, "C13child", o.tier, strconv.FormatInt(o.seed, 10), dir)
		cmd.Env = append(os.Environ(), "C13_SKIP_TYPES="+strconv.Itoa(skip), "VERIF_AS_LIMIT_MB=6000")
		var eb bytes.Buffer
		cmd.Stdout, cmd.Stderr = &eb, &eb
		err := cmd.Run()
		cancel()
		if err == nil {
			mergeChild(o, dir)
			break
		}
		det := map[string]string{"detail": err.Error(), "output": clipN(eb.String(), 700)}
		cls := ""
		if b, e := os.ReadFile(dir + "/current.json"); e == nil {
			det["case"] = string(b)
			var cur map[string]string
			if stdjson.Unmarshal(b, &cur) == nil {
				cls = cur["crash_class"]
			}
		}
		if cls != "" {
			o.known(cls, "crash: "+clipN(det["case"], 300))
		} else {
			o.violation("C13", "the encoder crashed the process", det)
		}
		if time.Since(startAll) > 2*limit {
			break
		}
		b, e := os.ReadFile(dir + "/progress")
		if e != nil {
			break
		}
		n, _ := strconv.Atoi(string(b))
		skip = n + 1
	}
}
