package main

// C13: all encoder variants and options describe the same document.  For
// values of the C01 type grammar:
//   MarshalIndent(v,p,i) == encoding/json.Indent(Marshal(v),p,i) for prefixes and indents over "", " ", "\t", multi-byte;
//   Colorize with an empty scheme == uncoloured; with a scheme of unique markers == uncoloured once the markers are removed;
//   UnorderedMap changes only the order of map members;
//   DisableHTMLEscape changes only the spelling of < > &;
//   Encoder.Encode, MarshalNoEscape, MarshalContext (no query), Debug == Marshal (+ the Encoder's newline);
//   a value encodes identically at top level, behind a pointer and inside interface{}.

import (
	"bytes"
	"context"
	stdjson "encoding/json"
	"fmt"
	"math"
	"math/rand"
	"os"
	"os/exec"
	"reflect"
	"regexp"
	"sort"
	"strconv"
	"strings"
	"time"

	gojson "github.com/goccy/go-json"
)

func init() {
	props["C13"] = runC13
	props["C13child"] = runC13Child
}

var c13Indents = [][2]string{{"", " "}, {"", "\t"}, {">", "  "}, {"é ", "→"}, {"", ""}, {"pfx", ""}, {" ", "    "}}

func c13Scheme() *gojson.ColorScheme {
	mk := func(i int) gojson.ColorFormat {
		return gojson.ColorFormat{Header: fmt.Sprintf("\x01H%d\x02", i), Footer: fmt.Sprintf("\x01F%d\x02", i)}
	}
	return &gojson.ColorScheme{Int: mk(1), Uint: mk(2), Float: mk(3), Bool: mk(4), String: mk(5), Binary: mk(6), ObjectKey: mk(7), Null: mk(8)}
}

func c13StripMarkers(b []byte) []byte {
	var out []byte
	for i := 0; i < len(b); i++ {
		if b[i] == 0x01 {
			j := bytes.IndexByte(b[i:], 0x02)
			if j > 0 {
				i += j
				continue
			}
		}
		out = append(out, b[i])
	}
	return out
}

// unescape exactly the HTML escapes (< > &) inside string tokens
func c13UnescapeHTML(b []byte) []byte {
	var out []byte
	in := false
	for i := 0; i < len(b); i++ {
		c := b[i]
		if !in {
			if c == '"' {
				in = true
			}
			out = append(out, c)
			continue
		}
		if c == '\\' && i+1 < len(b) {
			if b[i+1] == 'u' && i+5 < len(b) {
				switch strings.ToLower(string(b[i+2 : i+6])) {
				case "003c":
					out = append(out, '<')
					i += 5
					continue
				case "003e":
					out = append(out, '>')
					i += 5
					continue
				case "0026":
					out = append(out, '&')
					i += 5
					continue
				}
			}
			if b[i+1] == '\\' && i+6 < len(b) && b[i+2] == 'u' {
				// a string inside a string (",string"): the inner escape, one level down (the generated data holds no literal \u003c text)
				switch strings.ToLower(string(b[i+3 : i+7])) {
				case "003c":
					out = append(out, '<')
					i += 6
					continue
				case "003e":
					out = append(out, '>')
					i += 6
					continue
				case "0026":
					out = append(out, '&')
					i += 6
					continue
				}
			}
			out = append(out, c, b[i+1])
			i++
			continue
		}
		if c == '"' {
			in = false
		}
		out = append(out, c)
	}
	return out
}

func c13SameUnordered(a, b []byte) bool {
	var x, y interface{}
	da := stdjson.NewDecoder(bytes.NewReader(a))
	da.UseNumber()
	db := stdjson.NewDecoder(bytes.NewReader(b))
	db.UseNumber()
	if da.Decode(&x) != nil || db.Decode(&y) != nil {
		return false
	}
	p, _ := stdjson.Marshal(x)
	q, _ := stdjson.Marshal(y)
	return bytes.Equal(p, q) && len(a) == len(b)
}

func runC13Child(o *Out) {
	r := o.rng
	ntypes := 900
	if o.tier == "thorough" {
		ntypes = 12000
	}
	skip, _ := strconv.Atoi(os.Getenv("C13_SKIP_TYPES"))
	reported := map[string]bool{}
	report := func(t reflect.Type, v reflect.Value, rule string, det map[string]string) {
		key := t.String() + "|" + rule
		if reported[key] {
			o.count("repeat_disagreements", 1)
			return
		}
		reported[key] = true
		if cls := c13Classify(t, v, rule, det); cls != "" {
			o.known(cls, fmt.Sprintf("%s: %s", rule, clipN(t.String(), 200)))
			return
		}
		delete(det, "_got_full")
		det["type"] = clipN(t.String(), 400)
		det["value"] = c01Describe(t, v)
		det["rule"] = rule
		o.violation("C13", "encoder variants disagree: "+rule, det)
	}
	sr := rand.New(rand.NewSource(o.seed*1000003 + 0xA7)) // the option subsets draw from their own stream: the generated types stay the ones of the seed
	// check: every rule of the property on one value (ti = its number in the run: progress, choice of the indentation)
	check := func(t reflect.Type, v reflect.Value, ti int, source string) {
		os.WriteFile(o.dir+"/progress", []byte(strconv.Itoa(ti)), 0o644)
		o.current(map[string]string{"property": "C13", "source": source, "type": clipN(t.String(), 600), "value": c01Describe(t, v), "crash_class": c01CrashClass(t, v, 0)})
		arg := v.Elem().Interface()
		base, err := c01Safe(func() ([]byte, error) { return gojson.Marshal(arg) })
		o.count("values", 1)
		if err != nil {
			// every other entry point must fail too
			for name, f := range map[string]func() ([]byte, error){
				"MarshalIndent":   func() ([]byte, error) { return gojson.MarshalIndent(arg, "", " ") },
				"MarshalNoEscape": func() ([]byte, error) { return gojson.MarshalNoEscape(arg) },
				"MarshalContext":  func() ([]byte, error) { return gojson.MarshalContext(context.Background(), arg) },
			} {
				if _, e2 := c01Safe(f); e2 == nil {
					report(t, v, name+" succeeds where Marshal fails", map[string]string{"marshal_error": err.Error()})
				}
			}
			return
		}
		cmp := func(rule string, got []byte, e error, want []byte) {
			o.count("comparisons", 1)
			if e != nil || !bytes.Equal(got, want) {
				report(t, v, rule, map[string]string{"got": clipN(string(got), 300), "want": clipN(string(want), 300), "err": fmt.Sprint(e), "_got_full": string(got),
					"got_at_difference": around(got, firstDiff(got, want)), "want_at_difference": around(want, firstDiff(got, want))})
			}
		}
		// 1. indent
		for _, pi := range c13Indents {
			var want bytes.Buffer
			if stdjson.Indent(&want, base, pi[0], pi[1]) != nil {
				continue
			}
			got, e := c01Safe(func() ([]byte, error) { return gojson.MarshalIndent(arg, pi[0], pi[1]) })
			cmp(fmt.Sprintf("MarshalIndent(%q,%q) = Indent(Marshal)", pi[0], pi[1]), got, e, want.Bytes())
		}
		{
			var b bytes.Buffer
			e := gojson.NewEncoder(&b)
			e.SetIndent(">", "\t")
			err := e.Encode(arg)
			var want bytes.Buffer
			stdjson.Indent(&want, base, ">", "\t")
			want.WriteByte('\n')
			cmp("Encoder.SetIndent = Indent(Marshal)+newline", b.Bytes(), err, want.Bytes())
		}
		// 2. colour
		got, e := c01Safe(func() ([]byte, error) { return gojson.MarshalWithOption(arg, gojson.Colorize(&gojson.ColorScheme{})) })
		cmp("Colorize(empty scheme) = Marshal", got, e, base)
		got, e = c01Safe(func() ([]byte, error) { return gojson.MarshalWithOption(arg, gojson.Colorize(c13Scheme())) })
		cmp("Colorize(markers) minus markers = Marshal", c13StripMarkers(got), e, base)
		got, e = c01Safe(func() ([]byte, error) {
			return gojson.MarshalIndentWithOption(arg, "", "  ", gojson.Colorize(c13Scheme()))
		})
		{
			var want bytes.Buffer
			stdjson.Indent(&want, base, "", "  ")
			cmp("MarshalIndent+Colorize(markers) minus markers = Indent(Marshal)", c13StripMarkers(got), e, want.Bytes())
		}
		// 3. unordered maps
		got, e = c01Safe(func() ([]byte, error) { return gojson.MarshalWithOption(arg, gojson.UnorderedMap()) })
		o.count("comparisons", 1)
		if e != nil || !c13SameUnordered(got, base) {
			report(t, v, "UnorderedMap changes more than the order of map members", map[string]string{"got": clipN(string(got), 300), "want": clipN(string(base), 300), "err": fmt.Sprint(e)})
		}
		// 4. HTML escape
		got, e = c01Safe(func() ([]byte, error) { return gojson.MarshalWithOption(arg, gojson.DisableHTMLEscape()) })
		cmp("DisableHTMLEscape = Marshal with \\u003c \\u003e \\u0026 spelled out", got, e, c13UnescapeHTML(base))
		// 5. entry points
		{
			var b bytes.Buffer
			err := gojson.NewEncoder(&b).Encode(arg)
			cmp("Encoder.Encode = Marshal+newline", b.Bytes(), err, append(append([]byte(nil), base...), '\n'))
		}
		got, e = c01Safe(func() ([]byte, error) { return gojson.MarshalNoEscape(arg) })
		cmp("MarshalNoEscape = Marshal", got, e, base)
		got, e = c01Safe(func() ([]byte, error) { return gojson.MarshalContext(context.Background(), arg) })
		cmp("MarshalContext(no query) = Marshal", got, e, base)
		var dbg bytes.Buffer
		got, e = c01Safe(func() ([]byte, error) { return gojson.MarshalWithOption(arg, gojson.Debug(), gojson.DebugWith(&dbg)) })
		cmp("Debug = Marshal", got, e, base)
		// 6. reached through a pointer and inside interface{}; a pointer makes the value addressable, which matters to
		// encoding/json too when a method has a pointer receiver: compared only where encoding/json itself does not distinguish
		sv, e1 := stdjson.Marshal(arg)
		sp, e2 := stdjson.Marshal(v.Interface())
		if e1 == nil && e2 == nil && bytes.Equal(sv, sp) {
			got, e = c01Safe(func() ([]byte, error) { return gojson.Marshal(v.Interface()) })
			cmp("Marshal(&v) = Marshal(v)", got, e, base)
		}
		got, e = c01Safe(func() ([]byte, error) { return gojson.Marshal([]interface{}{arg}) })
		cmp("Marshal([]interface{}{v}) = [Marshal(v)]", got, e, append(append([]byte("["), base...), ']'))
		got, e = c01Safe(func() ([]byte, error) { return gojson.Marshal(c01Wrap{I: arg}) })
		cmp("Marshal(struct{I interface{}}{v}) = {\"i\":Marshal(v)}", got, e, append(append([]byte(`{"i":`), base...), '}'))
		// 7. the same value below interface{} members, indented: every line of what lies below an interface (marshaler
		// results included) carries the indentation of the levels above it
		for wi, wrapped := range []interface{}{c01Wrap{I: arg}, []interface{}{arg}, map[string]interface{}{"k": []interface{}{arg}}} {
			wbase, werr := c01Safe(func() ([]byte, error) { return gojson.Marshal(wrapped) })
			if werr != nil {
				continue
			}
			pi := c13Indents[(ti+wi)%len(c13Indents)]
			var want bytes.Buffer
			if stdjson.Indent(&want, wbase, pi[0], pi[1]) != nil {
				continue
			}
			got, e := c01Safe(func() ([]byte, error) { return gojson.MarshalIndent(wrapped, pi[0], pi[1]) })
			cmp(fmt.Sprintf("MarshalIndent(%q,%q) of the value below interface{} (wrapping %d) = Indent(Marshal)", pi[0], pi[1], wi), got, e, want.Bytes())
		}
		// 8. subsets of the options on every entry point that takes them, against the composition of the single rules
		c13OptionSubsets(o, sr, t, v, arg, base, report)
	}
	for ti := 0; ti < ntypes; ti++ {
		t := tgType(r, 3, tgOpts{named: true})
		if t.Kind() == reflect.Interface {
			t = reflect.TypeOf(c01Wrap{})
		}
		v := reflect.New(t)
		tgValue(r, v.Elem(), 0, []int{0, 20, 50}[ti%3], false)
		if cls := tgKnownBadAnywhere(reflect.PtrTo(t), 0); cls != "" {
			o.count("types_skipped_for_recorded_finding:"+cls, 1)
			continue
		}
		if ti < skip {
			continue
		}
		if c13CollidingInvalidKeys(v, 0) {
			// (audit A7) two keys of one map that are not valid UTF-8 and are written as the same replacement characters come in no
			// defined order (they compare equal, see C01 finding MapKeyInvalidUTF8Order): two encodings of the same value need not
			// agree, and the rules below failed or not from run to run (seed 4: main.TgNamedMap{"\xed\xa0\x80":..., "\xf3\x80\x80":...})
			o.count("values_left_out_for_keys_written_alike", 1)
			continue
		}
		check(t, v, ti, "generated type")
	}
	// the shapes and sizes of C01's audit strata (c01.go: map key types, non-empty interfaces, embedding shapes, deep / long /
	// wide values, marshaler payloads): the four interpreters and their helper twins on values the type grammar does not build
	ar := rand.New(rand.NewSource(o.seed*1000003 + 0xA713))
	var cases []c01AuditCase
	cases = append(cases, c01AuditMapKeys(ar, o.tier)...)
	cases = append(cases, c01AuditIfaces(ar, o.tier)...)
	cases = append(cases, c01AuditEmbedded(ar, o.tier)...)
	cases = append(cases, c01AuditSizes(ar, o.tier)...)
	cases = append(cases, c01AuditPayloads(ar, o.tier)...)
	n := ntypes
	for _, c := range cases {
		n++
		t := c.v.Type().Elem()
		if c.open != "" && os.Getenv("AUDIT_OPEN") != "1" || strings.HasSuffix(c.open, "(crash)") {
			o.count("audit_open_defect_cases:"+c.open, 1)
			continue
		}
		if n < skip || tgKnownBadAnywhere(reflect.PtrTo(t), 0) != "" || c01CrashClass(t, c.v, 0) != "" {
			continue
		}
		if c.reaches != nil && c.reaches[0] != 0 {
			continue // (the same value reached another way: C13 reaches it in its own ways)
		}
		if t.Kind() == reflect.Interface && (t.Implements(tgMarshalerIface) || t.Implements(tgTextMarshalerIface)) && os.Getenv("AUDIT_OPEN") != "1" {
			// rule 6 takes the address of the interface variable: the unlisted defect PtrToMarshalerInterface of c01.go
			o.count("audit_open_defect_cases:PtrToMarshalerInterface", 1)
			continue
		}
		if sb, _ := stdjson.Marshal(c.v.Interface()); c.stratum == "payload" && (bytes.Contains(sb, []byte(`\u2028`)) || bytes.Contains(sb, []byte(`\u2029`))) {
			// like encoding/json, the compaction of a MarshalJSON result escapes U+2028 / U+2029 only while HTML escaping is on: the
			// rule "DisableHTMLEscape changes only < > &" is stated for what the encoder itself writes
			o.count("audit_values_left_out_for_line_separators_in_marshaler_output", 1)
			continue
		}
		if c01HasInvalidUTF8MapKey(c.v, 0) {
			// keys that are not valid UTF-8 are ordered by their replacement characters (C01 finding MapKeyInvalidUTF8Order): two of them
			// that are written alike come in no defined order, so two encodings of the same map need not agree
			o.count("audit_values_left_out_for_invalid_utf8_keys", 1)
			continue
		}
		o.count("audit_values:"+c.stratum, 1)
		check(t, c.v, n, "audit stratum "+c.stratum+": "+c.name)
	}
	c13SpecialValues(o, r, n+1, skip, report)
}

// frozen classes of recorded findings for C13
func c13Classify(t reflect.Type, v reflect.Value, rule string, det map[string]string) string {
	ts := c01Shape(t, v)
	if strings.Contains(ts, "<ptrshaped>") {
		return "PointerShapedAggregate"
	}
	for _, n := range []string{"*main.TgTV", "*main.TgIntKey", "*main.TgMV", "*time.Time", "*main.TgMErr", "*json.Number", "*json.RawMessage"} {
		if strings.Contains(ts, n) && (strings.Contains(det["err"], "called using nil *") || strings.Contains(rule, "succeeds where Marshal fails")) {
			return "NilPtrToValueReceiverMarshaler"
		}
	}
	if strings.Contains(rule, "Colorize(markers)") && strings.Contains(ts, ",string") && strings.Contains(det["_got_full"], `\u0001H5\u0002`) {
		// the colour codes of a string field with the ,string option are written before the second quoting and get escaped with it
		return "ColorizeStringOptionEscapesMarkers"
	}
	return ""
}

// the indenting interpreter beside its model (op c13.indent): generated value trees realised as Go values,
// MarshalIndent with white-space and other prefixes / indents, byte for byte
func c13ModelCases(o *Out) {
	r := o.rng
	n := 1500
	if o.tier == "thorough" {
		n = 20000
	}
	pairs := [][2]string{{"", "  "}, {"", "\t"}, {" ", " "}, {"", ""}, {"\t\t", "   "}, {">", "--"}, {"", "\n"}, {"p", ""}}
	for i := 0; i < n; i++ {
		j := c01GenJ(r, 3)
		if j.kind == 'Z' {
			continue
		}
		_, v := j.realise(false)
		var w strings.Builder
		j.wire(&w)
		pi := pairs[r.Intn(len(pairs))]
		for how := 0; how < 2; how++ {
			var arg interface{} = v.Interface()
			if how == 1 {
				p := reflect.New(v.Type())
				p.Elem().Set(v)
				arg = p.Interface()
			}
			got, err := c01Safe(func() ([]byte, error) {
				return gojson.MarshalIndentWithOption(arg, pi[0], pi[1], gojson.DisableHTMLEscape())
			})
			res := string(got)
			if err != nil {
				res = "ERR " + err.Error()
			}
			o.emit("A", "c13.indent", [][]byte{[]byte(w.String()), []byte(pi[0]), []byte(pi[1]), []byte(strconv.Itoa(how))}, []byte(res), nil, false)
			o.count("indent_model_cases", 1)
		}
		// the colouring interpreter beside its model (op c13.color): markers of two shapes, and the empty scheme
		mk := func(h, f string) gojson.ColorFormat { return gojson.ColorFormat{Header: h, Footer: f} }
		var marks [10]string
		switch i % 3 {
		case 0:
			marks = [10]string{"\x01H1\x02", "\x01F1\x02", "\x01H5\x02", "\x01F5\x02", "\x01H4\x02", "\x01F4\x02", "\x01H8\x02", "\x01F8\x02", "\x01H7\x02", "\x01F7\x02"}
		case 1:
			marks = [10]string{"<", ">", "\"", "\"", ",", ":", "}", "", "", "{"} // markers made of JSON's own punctuation
		}
		sch := &gojson.ColorScheme{Int: mk(marks[0], marks[1]), Uint: mk(marks[0], marks[1]), Float: mk(marks[0], marks[1]), String: mk(marks[2], marks[3]),
			Bool: mk(marks[4], marks[5]), Null: mk(marks[6], marks[7]), ObjectKey: mk(marks[8], marks[9]), Binary: mk("B", "b")}
		got, err := c01Safe(func() ([]byte, error) {
			return gojson.MarshalWithOption(v.Interface(), gojson.Colorize(sch), gojson.DisableHTMLEscape())
		})
		res := string(got)
		if err != nil {
			res = "ERR " + err.Error()
		}
		args := [][]byte{[]byte(w.String())}
		for _, m := range marks {
			args = append(args, []byte(m))
		}
		o.emit("A", "c13.color", args, []byte(res), nil, false)
		o.count("colour_model_cases", 1)
	}
}

func runC13(o *Out) {
	c13ModelCases(o)
	self, _ := os.Executable()
	startAll := time.Now()
	skip := 0
	for attempt := 0; attempt < 25; attempt++ {
		dir := o.dir + "/run" + strconv.Itoa(attempt)
		limit := 180 * time.Second
		if o.tier == "thorough" {
			limit = 1800 * time.Second
		}
		cctx, cancel := context.WithTimeout(context.Background(), limit)
		cmd := exec.CommandContext(cctx, self, "C13child", o.tier, strconv.FormatInt(o.seed, 10), dir)
		cmd.Env = append(os.Environ(), "C13_SKIP_TYPES="+strconv.Itoa(skip), "VERIF_AS_LIMIT_MB=6000")
		var eb bytes.Buffer
		cmd.Stdout, cmd.Stderr = &eb, &eb
		err := cmd.Run()
		cancel()
		if err == nil {
			mergeChild(o, dir)
			break
		}
		det := map[string]string{"detail": err.Error(), "output": clipN(eb.String(), 700)}
		cls := ""
		if b, e := os.ReadFile(dir + "/current.json"); e == nil {
			det["case"] = string(b)
			var cur map[string]string
			if stdjson.Unmarshal(b, &cur) == nil {
				cls = cur["crash_class"]
			}
		}
		if cls != "" {
			o.known(cls, "crash: "+clipN(det["case"], 300))
		} else {
			o.violation("C13", "the encoder crashed the process", det)
		}
		if time.Since(startAll) > 2*limit {
			break
		}
		b, e := os.ReadFile(dir + "/progress")
		if e != nil {
			break
		}
		n, _ := strconv.Atoi(string(b))
		skip = n + 1
	}
}

// ---- audit strata (A7) ----

var c13ANSI = regexp.MustCompile("\x1b\\[[0-9;]*m")

// c13RandomScheme: markers of random length and content inside the \x01 .. \x02 brackets c13StripMarkers removes; some kinds without colour.
// No double quote in a marker: the sorted-map code finds the start of a coloured key by looking for the first quote (encoder.go
// newMapKeyIter), so a header holding one changes the order of the members -- noted in the audit report, not generated
func c13RandomScheme(r *rand.Rand) *gojson.ColorScheme {
	mk := func() gojson.ColorFormat {
		if r.Intn(5) == 0 {
			return gojson.ColorFormat{}
		}
		w := func() string {
			b := []byte{0x01}
			for i := r.Intn(6); i > 0; i-- {
				b = append(b, []string{"h", "f", "0", "12", ";", "[", "m", "]", ",", ":", "{", "}", "é", " ", "\\"}[r.Intn(15)]...)
			}
			return string(append(b, 0x02))
		}
		return gojson.ColorFormat{Header: w(), Footer: w()}
	}
	return &gojson.ColorScheme{Int: mk(), Uint: mk(), Float: mk(), Bool: mk(), String: mk(), Binary: mk(), ObjectKey: mk(), Null: mk()}
}

// c13OptionSubsets: a few random subsets of {indentation, DisableHTMLEscape, UnorderedMap, Colorize (empty / marker / default ANSI / random
// scheme), Debug} on MarshalWithOption / MarshalIndentWithOption, Encoder.EncodeWithOption, MarshalContext / Encoder.EncodeContext.
// Expected: Marshal's bytes with the HTML escapes spelled out (if disabled), indented by encoding/json.Indent (if indented), plus the
// Encoder's newline; the colour markers removed first; under UnorderedMap the same members in any order.
func c13OptionSubsets(o *Out, r *rand.Rand, t reflect.Type, v reflect.Value, arg interface{}, base []byte, report func(reflect.Type, reflect.Value, string, map[string]string)) {
	hasStringTag := strings.Contains(c01Shape(t, v), ",string")
	for k := 0; k < 3; k++ {
		indent, noescape, unordered, debug := r.Intn(2) == 0, r.Intn(2) == 0, r.Intn(3) == 0, r.Intn(4) == 0
		colour := r.Intn(5)          // 0 none, 1 empty scheme, 2 fixed markers, 3 default scheme, 4 random markers
		entry := r.Intn(3)           // 0 Marshal(Indent)WithOption, 1 Encoder.EncodeWithOption, 2 MarshalContext / Encoder.EncodeContext
		viaContext := r.Intn(2) == 0 // entry 2 without indentation: MarshalContext instead of Encoder.EncodeContext
		viaSetter := r.Intn(2) == 0  // Encoder: SetEscapeHTML(false) instead of the option
		pi := c13Indents[r.Intn(len(c13Indents))]
		if pi[0] == "" && pi[1] == "" && entry != 0 {
			pi = [2]string{"", " "} // Encoder.SetIndent("","") switches indentation off
		}
		useMarshalContext := entry == 2 && !indent && viaContext
		viaSetter = viaSetter && entry != 0 && !useMarshalContext
		if hasStringTag && colour > 2 {
			colour = 2 // recorded finding ColorizeStringOptionEscapesMarkers: left to its frozen predicate (fixed marker scheme)
		}
		if unordered && indent && c13HasNonEmptyMap(v, 0) {
			// found by this stratum on the unchanged library and not in KNOWN_FINDINGS.txt: with UnorderedMap the indenting
			// interpreters write the members of a map one level too shallow ({\n"a": 1\n  } inside an object); runs with AUDIT_OPEN=1
			o.count("unordered_map_with_indentation_cases", 1) // was the finding UnorderedMapIndentLosesMemberIndentation: repaired in /repo
		}
		var opts []gojson.EncodeOptionFunc
		var names []string
		if noescape && !viaSetter {
			opts = append(opts, gojson.DisableHTMLEscape())
		}
		if noescape {
			names = append(names, "DisableHTMLEscape")
		}
		if unordered {
			opts = append(opts, gojson.UnorderedMap())
			names = append(names, "UnorderedMap")
		}
		strip := func(b []byte) []byte { return b }
		switch colour {
		case 1:
			opts = append(opts, gojson.Colorize(&gojson.ColorScheme{}))
			names = append(names, "Colorize(empty scheme)")
		case 2:
			opts = append(opts, gojson.Colorize(c13Scheme()))
			names = append(names, "Colorize(markers)")
			strip = c13StripMarkers
		case 3:
			opts = append(opts, gojson.Colorize(gojson.DefaultColorScheme))
			names = append(names, "Colorize(default scheme)")
			strip = func(b []byte) []byte { return c13ANSI.ReplaceAll(b, nil) }
		case 4:
			opts = append(opts, gojson.Colorize(c13RandomScheme(r)))
			names = append(names, "Colorize(random markers)")
			strip = c13StripMarkers
		}
		var dbg bytes.Buffer
		if debug {
			opts = append(opts, gojson.Debug(), gojson.DebugWith(&dbg))
			names = append(names, "Debug")
		}
		want := base
		if noescape {
			want = c13UnescapeHTML(want)
		}
		if indent {
			var w bytes.Buffer
			if stdjson.Indent(&w, want, pi[0], pi[1]) != nil {
				continue
			}
			want = w.Bytes()
			names = append(names, fmt.Sprintf("indent(%q,%q)", pi[0], pi[1]))
		}
		var got []byte
		var e error
		entryName := ""
		switch entry {
		case 0:
			if indent {
				entryName = "MarshalIndentWithOption"
				got, e = c01Safe(func() ([]byte, error) { return gojson.MarshalIndentWithOption(arg, pi[0], pi[1], opts...) })
			} else {
				entryName = "MarshalWithOption"
				got, e = c01Safe(func() ([]byte, error) { return gojson.MarshalWithOption(arg, opts...) })
			}
		case 1, 2:
			var b bytes.Buffer
			enc := gojson.NewEncoder(&b)
			if indent {
				enc.SetIndent(pi[0], pi[1])
			}
			if noescape && viaSetter {
				enc.SetEscapeHTML(false)
			}
			if entry == 1 {
				entryName = "Encoder.EncodeWithOption"
				_, e = c01Safe(func() ([]byte, error) { return nil, enc.EncodeWithOption(arg, opts...) })
			} else if !useMarshalContext {
				entryName = "Encoder.EncodeContext"
				_, e = c01Safe(func() ([]byte, error) { return nil, enc.EncodeContext(context.Background(), arg, opts...) })
			} else {
				entryName = "MarshalContext"
				var gb []byte
				gb, e = c01Safe(func() ([]byte, error) { return gojson.MarshalContext(context.Background(), arg, opts...) })
				b.Write(gb)
				b.WriteByte('\n')
			}
			got = b.Bytes()
			want = append(append([]byte(nil), want...), '\n')
		}
		o.count("option_subset_comparisons", 1)
		o.count(fmt.Sprintf("option_subset_size_%d", len(names)), 1)
		o.count("option_subset_entry:"+entryName, 1)
		plain := strip(got)
		ok := e == nil
		if ok && unordered && indent {
			ok = c13SameUnorderedLines(plain, want)
		} else if ok && unordered {
			ok = c13SameUnordered(bytes.TrimSuffix(plain, []byte("\n")), bytes.TrimSuffix(want, []byte("\n")))
		} else if ok {
			ok = bytes.Equal(plain, want)
		}
		if !ok {
			rule := entryName + " with {" + strings.Join(names, ", ") + "} = the composition of the single rules on Marshal's bytes"
			report(t, v, rule, map[string]string{"got": clipN(string(got), 300), "want": clipN(string(want), 300), "err": fmt.Sprint(e), "_got_full": string(got),
				"got_at_difference": around(plain, firstDiff(plain, want)), "want_at_difference": around(want, firstDiff(plain, want))})
		}
	}
}

type c13RefInner struct {
	A []int          `json:"a"`
	M map[string]int `json:"m,omitempty"`
}

// c13SpecialValues: values some part of which cannot be encoded (non-finite floats, ill-formed json.Number, failing or ill-formed
// marshalers, at any depth): every entry point and interpreter gives the same verdict, and a failed encode leaves nothing behind:
// a reference value encoded right after it by the four interpreters gives the bytes it gave before
func c13SpecialValues(o *Out, r *rand.Rand, first, skip int, report func(reflect.Type, reflect.Value, string, map[string]string)) {
	n := 400
	if o.tier == "thorough" {
		n = 8000
	}
	ref := &TgRec{V: 1, Next: &TgRec{V: 2, I: map[string]interface{}{"b": []int{1}, "a": c13RefInner{A: []int{}, M: map[string]int{"z": 1, "y": 2}}}, Kids: []TgRec{{V: 4}, {V: 5, Next: &TgRec{V: 6}}}},
		M: map[string]TgRec{"k": {V: 3, I: "<s>"}}}
	type path struct {
		name string
		f    func(v interface{}) ([]byte, error)
	}
	paths := []path{
		{"Marshal", func(v interface{}) ([]byte, error) { return gojson.Marshal(v) }},
		{"MarshalIndent", func(v interface{}) ([]byte, error) { return gojson.MarshalIndent(v, ">", "  ") }},
		{"MarshalNoEscape", func(v interface{}) ([]byte, error) { return gojson.MarshalNoEscape(v) }},
		{"MarshalContext", func(v interface{}) ([]byte, error) { return gojson.MarshalContext(context.Background(), v) }},
		{"Colorize", func(v interface{}) ([]byte, error) { return gojson.MarshalWithOption(v, gojson.Colorize(c13Scheme())) }},
		{"MarshalIndent+Colorize", func(v interface{}) ([]byte, error) {
			return gojson.MarshalIndentWithOption(v, "", "\t", gojson.Colorize(gojson.DefaultColorScheme))
		}},
		{"UnorderedMap", func(v interface{}) ([]byte, error) { return gojson.MarshalWithOption(v, gojson.UnorderedMap()) }},
		{"Debug", func(v interface{}) ([]byte, error) {
			var dbg bytes.Buffer
			return gojson.MarshalWithOption(v, gojson.Debug(), gojson.DebugWith(&dbg))
		}},
		{"Encoder", func(v interface{}) ([]byte, error) {
			var b bytes.Buffer
			err := gojson.NewEncoder(&b).Encode(v)
			return b.Bytes(), err
		}},
		{"Encoder+SetIndent", func(v interface{}) ([]byte, error) {
			var b bytes.Buffer
			e := gojson.NewEncoder(&b)
			e.SetIndent("", " ")
			err := e.Encode(v)
			return b.Bytes(), err
		}},
	}
	refWant := make([][]byte, len(paths))
	for i, p := range paths {
		if p.name == "UnorderedMap" {
			continue // (its bytes are not determined)
		}
		b, err := c01Safe(func() ([]byte, error) { return p.f(ref) })
		if err != nil {
			o.violation("C13", "the reference value cannot be encoded", map[string]string{"path": p.name, "err": err.Error()})
			return
		}
		refWant[i] = append([]byte(nil), b...)
	}
	for i := 0; i < n; i++ {
		t := tgType(r, 3, tgOpts{named: true})
		if t.Kind() == reflect.Interface {
			t = reflect.TypeOf(c01Wrap{})
		}
		v := reflect.New(t)
		tgValue(r, v.Elem(), 0, []int{0, 20, 50}[i%3], true)
		c03Fill(r, v.Elem(), 0)
		if tgKnownBadAnywhere(reflect.PtrTo(t), 0) != "" || c01CrashClass(t, v, 0) != "" || first+i < skip {
			continue
		}
		os.WriteFile(o.dir+"/progress", []byte(strconv.Itoa(first+i)), 0o644)
		o.current(map[string]string{"property": "C13", "source": "special values", "type": clipN(t.String(), 600), "value": c01Describe(t, v), "crash_class": c01CrashClass(t, v, 0)})
		arg := v.Elem().Interface()
		_, err := c01Safe(func() ([]byte, error) { return gojson.Marshal(arg) })
		if err == nil && i%3 != 0 {
			// the value can be encoded: the failure comes behind it, inside a map inside a slice inside a map, when part of the output
			// is written and the frames of the value have been used
			bad := []interface{}{math.NaN(), float32(math.Inf(1)), stdjson.Number("1x"), TgMErr{Fail: true}, make(chan int), C03MBytes{B: "[1,"}}[r.Intn(6)]
			arg = map[string]interface{}{"a": arg, "m": []interface{}{arg, map[string]interface{}{"k": arg, "z": bad}}}
			_, err = c01Safe(func() ([]byte, error) { return gojson.Marshal(arg) })
			if err == nil {
				report(t, v, "a value that cannot be encoded is encoded", map[string]string{"bad": fmt.Sprintf("%#v", bad)})
			}
		}
		o.count("special_values", 1)
		if err != nil {
			o.count("special_values_refused", 1)
		}
		for pi, p := range paths[1:] {
			_, e := c01Safe(func() ([]byte, error) { return p.f(arg) })
			o.count("special_verdict_comparisons", 1)
			if (e != nil) != (err != nil) {
				report(t, v, fmt.Sprintf("%s and Marshal give different verdicts", p.name), map[string]string{"err": fmt.Sprint(e), "marshal_error": fmt.Sprint(err)})
			}
			if e == nil {
				continue
			}
			// right after the failure: the reference value through the same interpreter and through the plain one
			for _, qi := range []int{pi + 1, 0} {
				if refWant[qi] == nil {
					continue
				}
				got, e2 := c01Safe(func() ([]byte, error) { return paths[qi].f(ref) })
				o.count("reference_encodes_after_a_failure", 1)
				if e2 != nil || !bytes.Equal(got, refWant[qi]) {
					report(t, v, fmt.Sprintf("after a failed %s the reference value encodes differently with %s", p.name, paths[qi].name),
						map[string]string{"got": clipN(string(got), 300), "want": clipN(string(refWant[qi]), 300), "err": fmt.Sprint(e2)})
				}
			}
		}
	}
}

// c13SameUnorderedLines: two indented texts (any prefix) hold the same lines up to the order of members: the same multiset of lines once
// the separating commas are taken off, and the same length
func c13SameUnorderedLines(a, b []byte) bool {
	if len(a) != len(b) {
		return false
	}
	lines := func(x []byte) []string {
		ls := strings.Split(string(x), "\n")
		for i := range ls {
			ls[i] = strings.TrimSuffix(ls[i], ",")
		}
		sort.Strings(ls)
		return ls
	}
	return reflect.DeepEqual(lines(a), lines(b))
}

func c13HasNonEmptyMap(v reflect.Value, depth int) bool {
	if depth > 40 || !v.IsValid() {
		return depth > 40
	}
	switch v.Kind() {
	case reflect.Ptr, reflect.Interface:
		return !v.IsNil() && c13HasNonEmptyMap(v.Elem(), depth+1)
	case reflect.Map:
		return v.Len() > 0
	case reflect.Slice, reflect.Array:
		for i := 0; i < v.Len(); i++ {
			if c13HasNonEmptyMap(v.Index(i), depth+1) {
				return true
			}
		}
	case reflect.Struct:
		for i := 0; i < v.NumField(); i++ {
			if c13HasNonEmptyMap(v.Field(i), depth+1) {
				return true
			}
		}
	}
	return false
}

// c13CollidingInvalidKeys: some map in the value has two different string keys that are the same once every byte that is not
// valid UTF-8 is replaced by U+FFFD
func c13CollidingInvalidKeys(v reflect.Value, depth int) bool {
	if depth > 40 || !v.IsValid() {
		return false
	}
	switch v.Kind() {
	case reflect.Ptr, reflect.Interface:
		return !v.IsNil() && c13CollidingInvalidKeys(v.Elem(), depth+1)
	case reflect.Map:
		seen := map[string]bool{}
		it := v.MapRange()
		for it.Next() {
			if it.Key().Kind() == reflect.String {
				k := string([]rune(it.Key().String()))
				if seen[k] {
					return true
				}
				seen[k] = true
			}
			if c13CollidingInvalidKeys(it.Value(), depth+1) {
				return true
			}
		}
	case reflect.Slice, reflect.Array:
		for i := 0; i < v.Len(); i++ {
			if c13CollidingInvalidKeys(v.Index(i), depth+1) {
				return true
			}
		}
	case reflect.Struct:
		for i := 0; i < v.NumField(); i++ {
			if c13CollidingInvalidKeys(v.Field(i), depth+1) {
				return true
			}
		}
	}
	return false
}
