package main

import (
	"math/rand"
	"strings"
)

// the property's alphabet: every structurally significant byte
var alphabet27 = []byte{'[', ']', '{', '}', ',', ':', '"', '\\', 'u', '0', '1', '-', '+', '.', 'e', 'E',
	't', 'r', 'f', 'a', 'l', 's', 'n', ' ', 0x00, 0x01, 0xc3}

// enumStrings calls f on every string of length 0..maxLen over alpha.
func enumStrings(alpha []byte, maxLen int, f func([]byte)) {
	buf := make([]byte, 0, maxLen)
	var rec func(n int)
	rec = func(n int) {
		f(buf)
		if n == maxLen {
			return
		}
		for _, c := range alpha {
			buf = append(buf, c)
			rec(n + 1)
			buf = buf[:len(buf)-1]
		}
	}
	rec(0)
}

var wsChoices = []string{"", "", "", " ", "\n", "\t", "\r", "  ", " \n\t"}

func genWS(r *rand.Rand) string { return wsChoices[r.Intn(len(wsChoices))] }

var genNumbers = []string{"0", "-0", "1", "-1", "12", "1.5", "-0.5", "1e2", "1E+2", "1e-2", "0.0e0", "123456789012345678901234567890",
	"1e999", "-1e-999", "0.1000000000000000055511151231257827", "9007199254740993", "18446744073709551615", "1.0E5"}
var genStrings = []string{`"\ud83d\ude00"`, `"x\ud83d\ude00y"`, `""`, `"a"`, `"abc"`, `"a b"`, `"\""`, `"\\"`, `"\/"`, `"\b\f\n\r\t"`, `"A"`, `"é"`, `"😀"`, `"\ud800"`,
	"\"é\"", "\"€\"", "\"\U0001F600\"", `"<>&"`, "\"  \"", `" "`, `"k"`, `"key with space"`, `"0"`, `"\u0000"`, `"\u001f"`, "\"\x7f\""}

// genValue produces a valid JSON value with random white space.
func genValue(r *rand.Rand, depth int) string {
	k := r.Intn(10)
	if depth <= 0 && k < 4 {
		k = 4 + r.Intn(6)
	}
	switch {
	case k < 2: // object
		n := r.Intn(4)
		var sb strings.Builder
		sb.WriteString("{" + genWS(r))
		for i := 0; i < n; i++ {
			if i > 0 {
				sb.WriteString("," + genWS(r))
			}
			sb.WriteString(genStrings[r.Intn(len(genStrings))] + genWS(r) + ":" + genWS(r) + genValue(r, depth-1) + genWS(r))
		}
		sb.WriteString("}")
		return sb.String()
	case k < 4: // array
		n := r.Intn(4)
		var sb strings.Builder
		sb.WriteString("[" + genWS(r))
		for i := 0; i < n; i++ {
			if i > 0 {
				sb.WriteString("," + genWS(r))
			}
			sb.WriteString(genValue(r, depth-1) + genWS(r))
		}
		sb.WriteString("]")
		return sb.String()
	case k < 6:
		return genNumbers[r.Intn(len(genNumbers))]
	case k < 8:
		return genStrings[r.Intn(len(genStrings))]
	case k == 8:
		return []string{"true", "false"}[r.Intn(2)]
	default:
		return "null"
	}
}

func genDoc(r *rand.Rand, depth int) string {
	return genWS(r) + genValue(r, depth) + genWS(r)
}

// mutations: every single-byte deletion, and substitution/insertion of bytes
// from the alphabet at every position (sub-sampled by stride).
func mutations(doc string, alpha []byte, stride int, f func(string)) {
	b := []byte(doc)
	k := 0
	for i := 0; i <= len(b); i++ {
		if i < len(b) {
			f(string(append(append([]byte{}, b[:i]...), b[i+1:]...)))
		}
		for _, c := range alpha {
			k++
			if k%stride != 0 {
				continue
			}
			f(string(append(append(append([]byte{}, b[:i]...), c), b[i:]...)))
			if i < len(b) {
				m := append([]byte{}, b...)
				m[i] = c
				f(string(m))
			}
		}
	}
}

// fixed corpus of interesting texts
var corpusDocs = []string{
	`{}`, `[]`, ` {} `, `[ ]`, `{"a":1}`, `{"a" : [1, 2, {"b":null}], "c":"x"}`, `[[[[]]]]`, `[{},{}]`, `{"a":{}}`, `{"a":[]}`,
	`[1,]`, `[,1]`, `{"a":1,}`, `{,}`, `{"a"}`, `{"a":}`, `{:1}`, `{"a":1 "b":2}`, `[1 2]`, `[1,,2]`, `]`, `}`, `[`, `{`, `[}`, `{]`, `[]]`, `{}}`, `[]}`, `{}]`,
	`tru`, `nul`, `fals`, `truee`, `nulll`, `TRUE`, `nan`, `NaN`, `Infinity`, `-`, `+1`, `01`, `1.`, `.5`, `-.5`, `1e`, `1e+`, `1.e1`, `0x1`, `1e999`, `-0`, `0e0`, `1E5`, `--1`, `1-1`, `1+1`, `1..2`,
	`"`, `"a`, `"\`, `"\"`, `"\x"`, `"\u"`, `"\u1"`, `"\u12"`, `"\u123"`, `"\u123g"`, `"\uZZZZ"`, `"ሴ"`, "\"a\nb\"", "\"a\tb\"", "\"\x00\"", "\"\x1f\"", "\"\x7f\"", "\"\xff\"", "\"\xc3\"", "\"\xc3\xa9\"",
	"1\x00", "1\x002", "[1\x00]", "\x00", "\x001", " ", "", "\n", "1 2", "1,2", `"a""b"`, `{} {}`, `[][]`, `nullnull`, `1 x`, `truefalse`,
	`{"\ud83d\ude00":1}`, `{"a\ud83d\ude00":{"\u00e9":[1]}}`, `{"a":1,"a":2}`, `{"":0}`, `[""]`, `"<script>&amp;"`, "\" \"", `{"<":">"}`,
}

// byteSweep: every byte value in every kind of position of a small document
// (between tokens, inside a string, inside a number, a literal, a key, after
// the value, in a skipped member).  256 x len(contexts) texts.
var sweepContexts = []string{"%s", "%s1", "1%s", " %s ", "[1%s,2]", "[1,%s2]", "[%s]", "{\"a\"%s:1}", "{\"a\":%s1}", "{%s\"a\":1}",
	"{\"a\":1%s}", "\"%s\"", "\"a%sb\"", "\"\\%s\"", "\"\\u00%s0\"", "1%s2", "-%s", "1.%s", "1e%s", "tru%s", "nul%sl", "{\"k%s\":1}",
	"{\"x\":[%s],\"A\":1}", "{\"x\":\"%s\",\"A\":1}", "{\"x\":1%s,\"A\":1}", "[1,2]%s", "{}%s"}

func byteSweep(f func([]byte)) {
	for c := 0; c < 256; c++ {
		for _, ctx := range sweepContexts {
			i := strings.Index(ctx, "%s")
			b := append([]byte(ctx[:i]), byte(c))
			b = append(b, ctx[i+2:]...)
			f(b)
		}
	}
}
