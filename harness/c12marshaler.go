package main

// C12, encode side: bytes a user marshaler hands to the library stay the user's.  MarshalJSON / MarshalText
// results that are windows into a larger live buffer (json.RawMessage cut out of an earlier result or out of an
// input document, a marshaler that formats into its own scratch space) must come back unchanged, and so must the
// bytes behind them up to the capacity.

import (
	"bytes"
	"context"
	"fmt"

	gojson "github.com/goccy/go-json"
)

type c12Window struct{ buf []byte } // MarshalJSON returns buf as it is (length < capacity)

func (w c12Window) MarshalJSON() ([]byte, error) { return w.buf, nil }

type c12TextWindow struct{ buf []byte }

func (w c12TextWindow) MarshalText() ([]byte, error) { return w.buf, nil }

type c12PtrWindow struct{ buf []byte }

func (w *c12PtrWindow) MarshalJSON() ([]byte, error) { return w.buf, nil }

func c12MarshalerWindows(o *Out) {
	r := o.rng
	n := 400
	if o.tier == "thorough" {
		n = 6000
	}
	jsonParts := []string{`{"a":1}`, `[1,2,3]`, `"str"`, `12`, `true`, `null`, `{"b":[2,3],"c":{"d":"e"}}`, `[]`, `{}`, `"<&>"`}
	textParts := []string{"plain", "a b", "", "x\"y", "<tag>", "0"}
	apis := []string{"Marshal", "MarshalNoEscape", "MarshalContext", "MarshalIndent", "Encoder", "EncoderIndent"}
	for i := 0; i < n; i++ {
		// a backing buffer: several parts one after the other, separated by commas, as inside a larger document
		var backing []byte
		type win struct{ lo, hi int }
		var wins []win
		text := r.Intn(4) == 0
		k := 1 + r.Intn(4)
		backing = append(backing, '[')
		for j := 0; j < k; j++ {
			if j > 0 {
				backing = append(backing, ',')
			}
			lo := len(backing)
			if text {
				backing = append(backing, textParts[r.Intn(len(textParts))]...)
			} else {
				backing = append(backing, jsonParts[r.Intn(len(jsonParts))]...)
			}
			wins = append(wins, win{lo, len(backing)})
		}
		backing = append(backing, ']')
		backing = append(backing, bytes.Repeat([]byte{0xA5}, []int{0, 1, 8, 300}[r.Intn(4)])...)
		before := append([]byte(nil), backing...)
		// the value: marshalers whose results are windows of backing, in several positions
		var items []interface{}
		for _, w := range wins {
			b := backing[w.lo:w.hi] // capacity reaches to the end of backing
			switch {
			case text:
				items = append(items, c12TextWindow{b}, map[c12TextWindowKey]int{})
			case r.Intn(3) == 0:
				items = append(items, gojson.RawMessage(b))
			case r.Intn(2) == 0:
				items = append(items, c12Window{b})
			default:
				items = append(items, &c12PtrWindow{b})
			}
		}
		var v interface{}
		switch r.Intn(4) {
		case 0:
			v = items
		case 1:
			v = map[string]interface{}{"k": items, "first": items[0]}
		case 2:
			v = struct {
				A interface{}   `json:"a"`
				L []interface{} `json:"l"`
			}{items[0], items}
		default:
			v = items[0]
		}
		api := apis[r.Intn(len(apis))]
		o.current(map[string]string{"property": "C12", "api": api, "what": "marshaler windows", "backing": clip(string(backing))})
		err := safeCall(func() error {
			var e error
			switch api {
			case "Marshal":
				_, e = gojson.Marshal(v)
			case "MarshalNoEscape":
				_, e = gojson.MarshalNoEscape(v)
			case "MarshalContext":
				_, e = gojson.MarshalContext(context.Background(), v)
			case "MarshalIndent":
				_, e = gojson.MarshalIndent(v, ">", "  ")
			case "Encoder":
				var sink bytes.Buffer
				e = gojson.NewEncoder(&sink).Encode(v)
			case "EncoderIndent":
				var sink bytes.Buffer
				enc := gojson.NewEncoder(&sink)
				enc.SetIndent("", "\t")
				e = enc.Encode(v)
			}
			return e
		})
		o.count("marshaler_window_calls", 1)
		o.hist("marshaler_window_api", api)
		if err != nil {
			o.count("marshaler_window_errors", 1)
		}
		if !bytes.Equal(before, backing) {
			at := 0
			for at < len(before) && before[at] == backing[at] {
				at++
			}
			o.violation("C12", "encoding wrote into bytes a marshaler returned (or into the capacity behind them)", map[string]string{
				"api": api, "text_marshaler": fmt.Sprint(text), "backing_before": clip(string(before)), "backing_after": clip(string(backing)),
				"first_changed_offset": fmt.Sprint(at), "value": fmt.Sprintf("%T", v)})
		}
	}
}

type c12TextWindowKey string
