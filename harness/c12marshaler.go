package main

// C12, encode side: bytes a user marshaler hands to the library stay the user's.  MarshalJSON / MarshalText
// results that are windows into a larger live buffer (json.RawMessage cut out of an earlier result or out of an
// input document, a marshaler that formats into its own scratch space) must come back unchanged, and so must the
// bytes behind them up to the capacity.

import (
	"bytes"
	"context"
	stdjson "encoding/json"
	"fmt"
	"strconv"
	"strings"

	gojson "github.com/goccy/go-json"
)

type c12Window struct{ buf []byte } // MarshalJSON returns buf as it is (length < capacity)

func (w c12Window) MarshalJSON() ([]byte, error) { return w.buf, nil }

type c12TextWindow struct{ buf []byte }

func (w c12TextWindow) MarshalText() ([]byte, error) { return w.buf, nil }

type c12PtrWindow struct{ buf []byte }

func (w *c12PtrWindow) MarshalJSON() ([]byte, error) { return w.buf, nil }

func c12MarshalerWindows(o *Out) {
	r := o.rng
	n := 400
	if o.tier == "thorough" {
		n = 6000
	}
	jsonParts := []string{`{"a":1}`, `[1,2,3]`, `"str"`, `12`, `true`, `null`, `{"b":[2,3],"c":{"d":"e"}}`, `[]`, `{}`, `"<&>"`}
	textParts := []string{"plain", "a b", "", "x\"y", "<tag>", "0"}
	apis := []string{"Marshal", "MarshalNoEscape", "MarshalContext", "MarshalIndent", "Encoder", "EncoderIndent"}
	for i := 0; i < n; i++ {
		// a backing buffer: several parts one after the other, separated by commas, as inside a larger document
		var backing []byte
		type win struct{ lo, hi int }
		var wins []win
		text := r.Intn(4) == 0
		k := 1 + r.Intn(4)
		backing = append(backing, '[')
		for j := 0; j < k; j++ {
			if j > 0 {
				backing = append(backing, ',')
			}
			lo := len(backing)
			if text {
				backing = append(backing, textParts[r.Intn(len(textParts))]...)
			} else {
				backing = append(backing, jsonParts[r.Intn(len(jsonParts))]...)
			}
			wins = append(wins, win{lo, len(backing)})
		}
		backing = append(backing, ']')
		backing = append(backing, bytes.Repeat([]byte{0xA5}, []int{0, 1, 8, 300}[r.Intn(4)])...)
		before := append([]byte(nil), backing...)
		// the value: marshalers whose results are windows of backing, in several positions
		var items []interface{}
		for _, w := range wins {
			b := backing[w.lo:w.hi] // capacity reaches to the end of backing
			switch {
			case text:
				items = append(items, c12TextWindow{b}, map[c12TextWindowKey]int{})
			case r.Intn(3) == 0:
				items = append(items, gojson.RawMessage(b))
			case r.Intn(2) == 0:
				items = append(items, c12Window{b})
			default:
				items = append(items, &c12PtrWindow{b})
			}
		}
		var v interface{}
		switch r.Intn(4) {
		case 0:
			v = items
		case 1:
			v = map[string]interface{}{"k": items, "first": items[0]}
		case 2:
			v = struct {
				A interface{}   `json:"a"`
				L []interface{} `json:"l"`
			}{items[0], items}
		default:
			v = items[0]
		}
		api := apis[r.Intn(len(apis))]
		o.current(map[string]string{"property": "C12", "api": api, "what": "marshaler windows", "backing": clip(string(backing))})
		err := safeCall(func() error {
			var e error
			switch api {
			case "Marshal":
				_, e = gojson.Marshal(v)
			case "MarshalNoEscape":
				_, e = gojson.MarshalNoEscape(v)
			case "MarshalContext":
				_, e = gojson.MarshalContext(context.Background(), v)
			case "MarshalIndent":
				_, e = gojson.MarshalIndent(v, ">", "  ")
			case "Encoder":
				var sink bytes.Buffer
				e = gojson.NewEncoder(&sink).Encode(v)
			case "EncoderIndent":
				var sink bytes.Buffer
				enc := gojson.NewEncoder(&sink)
				enc.SetIndent("", "\t")
				e = enc.Encode(v)
			}
			return e
		})
		o.count("marshaler_window_calls", 1)
		o.hist("marshaler_window_api", api)
		if err != nil {
			o.count("marshaler_window_errors", 1)
		}
		if !bytes.Equal(before, backing) {
			at := 0
			for at < len(before) && before[at] == backing[at] {
				at++
			}
			o.violation("C12", "encoding wrote into bytes a marshaler returned (or into the capacity behind them)", map[string]string{
				"api": api, "text_marshaler": fmt.Sprint(text), "backing_before": clip(string(before)), "backing_after": clip(string(backing)),
				"first_changed_offset": fmt.Sprint(at), "value": fmt.Sprintf("%T", v)})
		}
	}
}

type c12TextWindowKey string

// ---- audit A8: the history of the encode side with more than one kind of value ----
// Values with strings that need escaping, byte slices, raw messages, numbers, nested maps and marshal callbacks that call
// the library again and keep what they got; result lengths on both sides of the initial size of the pooled buffer (1024)
// and of its doublings; the remaining option combinations and the Encoder in between.  Every result (also those of
// the inner calls) is kept and compared with a copy after every later call; results are overwritten by the caller.

type c12Nest struct {
	V    interface{}
	Mode int
}

var c12NestHeld []c12Held

func (n c12Nest) MarshalJSON() ([]byte, error) {
	var b []byte
	var err error
	switch n.Mode % 4 {
	case 0:
		b, err = gojson.Marshal(n.V)
	case 1:
		b, err = gojson.MarshalNoEscape(n.V)
	case 2:
		b, err = gojson.MarshalContext(context.Background(), n.V)
	default:
		b, err = gojson.MarshalWithOption(n.V, gojson.DisableHTMLEscape()) // the outer call escapes what it takes over
	}
	if err == nil && len(c12NestHeld) < 64 {
		c12NestHeld = append(c12NestHeld, c12Held{b, append([]byte(nil), b...), "inner call of a marshal callback"})
	}
	return b, err
}

type c12Rec struct {
	ID   int               `json:"id"`
	S    string            `json:"s"`
	B    []byte            `json:"b"`
	R    gojson.RawMessage `json:"r"`
	N    gojson.Number     `json:"n"`
	M    map[string]interface{}
	L    []c12Sub
	W    interface{} `json:"w"`
	Next *c12Rec     `json:"next,omitempty"`
}

func c12EncodeKinds(o *Out) {
	r := o.rng
	n := 500
	if o.tier == "thorough" {
		n = 8000
	}
	var held []c12Held
	apis := []string{"Marshal", "MarshalNoEscape", "MarshalContext", "MarshalIndent", "MarshalWithOption(DisableHTMLEscape)", "MarshalWithOption(DisableNormalizeUTF8)",
		"MarshalWithOption(Colorize)", "MarshalIndentWithOption(UnorderedMap)", "MarshalContext(UnorderedMap)"}
	check := func(after string) {
		all := append(append([]c12Held(nil), held...), c12NestHeld...)
		for j := range all {
			if !bytes.Equal(all[j].got, all[j].copy) {
				o.violation("C12", "a slice returned by Marshal was changed by a later library call", map[string]string{
					"result_of": all[j].desc, "changed_after": after, "first_difference": fmt.Sprint(firstDiff(all[j].got, all[j].copy)),
					"now": clip(string(all[j].got)), "was": clip(string(all[j].copy))})
				copy(all[j].copy, all[j].got)
			}
		}
	}
	for i := 0; i < n; i++ {
		// the length of the result is steered by the length of one string: around 1024 and its doublings, and anywhere
		target := []int{0, 3, 40, 1000 + r.Intn(50), 2030 + r.Intn(40), 4080 + r.Intn(30), r.Intn(3000), 9000, 66000}[r.Intn(9)]
		s := strings.Repeat(string(rune('a'+i%26)), target)
		if target > 0 && r.Intn(3) == 0 {
			s = s[:target/2] + []string{"<&>", "é", " ", "\"\\", "\xff", "😀"}[r.Intn(6)] + s[target/2:]
		}
		var v interface{}
		kind := r.Intn(6)
		if r.Intn(5) == 0 {
			// a plain string: the length of the result is the length of the string plus two, so the boundary is hit exactly
			kind = 5
			s = strings.Repeat("b", []int{1024, 2048, 4096, 8192}[r.Intn(4)]-2+r.Intn(7)-3)
		}
		switch kind {
		case 0:
			v = &c12Rec{ID: i, S: s, B: []byte(s[:len(s)/4]), R: gojson.RawMessage(`{"raw": [1, "` + string(rune('a'+i%26)) + `"]}`), N: gojson.Number(strconv.Itoa(i) + ".5")}
		case 1:
			v = c12Rec{ID: i, M: map[string]interface{}{"s": s, "l": []interface{}{i, "x", nil}, "m": map[string]interface{}{"k": s[:len(s)/8]}}, L: []c12Sub{{A: i, B: s[:len(s)/2]}, {A: -i}}}
		case 2:
			v = []interface{}{c12Nest{V: map[string]interface{}{"inner": s, "i": i}, Mode: i}, i, c12Nest{V: []string{s[:len(s)/3], "<>"}, Mode: i + 1}}
		case 3:
			v = &c12Rec{ID: i, W: c12Nest{V: &c12Rec{ID: -i, S: s}, Mode: i}, Next: &c12Rec{ID: i + 1, W: c12Window{[]byte(`{"w": "` + string(rune('a'+i%26)) + `"}`)}}}
		case 4:
			v = map[string][]byte{"a": []byte(s), "b": nil, "c": {}}
		default:
			v = s
		}
		api := apis[r.Intn(len(apis))]
		o.hist("encode_kinds_api", api)
		o.hist("encode_kinds_value", []string{"struct pointer", "struct with maps", "callbacks that call the library", "callbacks in a recursive struct", "map of byte slices", "string"}[kind])
		o.current(map[string]string{"property": "C12", "what": "encode kinds", "api": api, "kind": strconv.Itoa(kind), "target": strconv.Itoa(target), "call": strconv.Itoa(i)})
		var got, want []byte
		var err error
		exact := true
		switch api {
		case "Marshal":
			got, err = gojson.Marshal(v)
			want, _ = stdjson.Marshal(v)
		case "MarshalNoEscape":
			got, err = gojson.MarshalNoEscape(v)
			want, _ = stdjson.Marshal(v)
		case "MarshalContext":
			got, err = gojson.MarshalContext(context.Background(), v)
			want, _ = stdjson.Marshal(v)
		case "MarshalIndent":
			got, err = gojson.MarshalIndent(v, "", " ")
			want, _ = stdjson.MarshalIndent(v, "", " ")
		case "MarshalWithOption(DisableHTMLEscape)":
			got, err = gojson.MarshalWithOption(v, gojson.DisableHTMLEscape())
			var sb bytes.Buffer
			e := stdjson.NewEncoder(&sb)
			e.SetEscapeHTML(false)
			e.Encode(v)
			want = bytes.TrimSuffix(sb.Bytes(), []byte("\n"))
		case "MarshalWithOption(DisableNormalizeUTF8)":
			got, err = gojson.MarshalWithOption(v, gojson.DisableNormalizeUTF8())
			want, _ = stdjson.Marshal(v)
			exact = false // U+2028 and invalid bytes are written as they are: the value is compared, not the text
		case "MarshalWithOption(Colorize)":
			got, err = gojson.MarshalWithOption(v, gojson.Colorize(c13Scheme()))
			want, _ = stdjson.Marshal(v)
			exact = false
		case "MarshalIndentWithOption(UnorderedMap)":
			got, err = gojson.MarshalIndentWithOption(v, "", " ", gojson.UnorderedMap())
			want, _ = stdjson.Marshal(v)
			exact = false
		default:
			got, err = gojson.MarshalContext(context.Background(), v, gojson.UnorderedMap())
			want, _ = stdjson.Marshal(v)
			exact = false
		}
		o.count("encode_kinds_calls", 1)
		if err != nil {
			o.violation("C12", "Marshal failed", map[string]string{"api": api, "err": err.Error(), "kind": strconv.Itoa(kind)})
			continue
		}
		o.hist("encode_kinds_result_length", func() string {
			l := len(got)
			for _, b := range []int{1024, 2048, 4096, 8192} {
				if l >= b-8 && l <= b+8 {
					return fmt.Sprintf("within 8 of %d", b)
				}
			}
			switch {
			case l < 1024:
				return "below 1024"
			case l < 8192:
				return "1024..8192"
			}
			return "above 8192"
		}())
		ok := true
		if exact {
			ok = tgSameJSON(got, want)
		} else {
			cmp := got
			if api == "MarshalWithOption(Colorize)" {
				cmp = c13StripMarkers(got)
			}
			var x, y interface{}
			if stdjson.Unmarshal(cmp, &x) != nil || stdjson.Unmarshal(want, &y) != nil {
				ok = false
			} else {
				a, _ := stdjson.Marshal(x)
				b, _ := stdjson.Marshal(y)
				ok = bytes.Equal(a, b)
			}
		}
		if !ok {
			o.violation("C12", "a Marshal result is wrong after earlier results were overwritten by the caller or buffers were recycled", map[string]string{
				"api": api, "call": strconv.Itoa(i), "kind": strconv.Itoa(kind), "first_difference": strconv.Itoa(firstDiff(got, want)),
				"got": around(got, firstDiff(got, want)), "want": around(want, firstDiff(got, want))})
		}
		held = append(held, c12Held{got, append([]byte(nil), got...), fmt.Sprintf("%s call %d kind %d length %d", api, i, kind, len(got))})
		switch r.Intn(6) {
		case 0:
			c12Churn(r)
		case 1:
			var b bytes.Buffer
			e := gojson.NewEncoder(&b)
			if r.Intn(2) == 0 {
				e.SetIndent(">", " ")
			}
			e.Encode(v)
			e.Encode(i)
		case 2:
			gojson.Marshal(make(chan int)) // a call that fails gives its context back, too
			gojson.Marshal(c12Nest{V: func() {}})
		}
		check(fmt.Sprintf("%s call %d kind %d", api, i, kind))
		if r.Intn(3) == 0 {
			all := [][]c12Held{held, c12NestHeld}[r.Intn(2)]
			if len(all) > 0 {
				h := &all[r.Intn(len(all))]
				for j := range h.got {
					h.got[j] = 'Z'
				}
				copy(h.copy, h.got)
				full := h.got[:cap(h.got)]
				for j := len(h.got); j < len(full); j++ {
					full[j] = 'Y'
				}
				o.count("encode_kinds_caller_overwrites", 1)
			}
		}
		if len(held) > 40 {
			held = held[len(held)-25:]
		}
		if len(c12NestHeld) > 40 {
			c12NestHeld = c12NestHeld[len(c12NestHeld)-20:]
		}
	}
	o.count("encode_kinds_inner_results_held", int64(len(c12NestHeld)))
}
