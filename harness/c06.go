package main

import (
	"bytes"
	"context"
	stdjson "encoding/json"
	"errors"
	"fmt"
	"io"
	"math/rand"
	"os"
	"os/exec"
	"reflect"
	"regexp"
	"strconv"
	"strings"
	"sync"
	"time"

	gojson "github.com/goccy/go-json"
)

func init() {
	props["C06"] = runC06
	props["C06child"] = runC06Child
}

type c06S struct {
	A int                `json:"a"`
	B string             `json:"b"`
	C []int              `json:"c"`
	D map[string]c06S    `json:"d"`
	E *c06S              `json:"e"`
	F interface{}        `json:"f"`
	G [2]int             `json:"g"`
	H stdjson.RawMessage `json:"h"`
	I float64            `json:"i,string"`
}

// a reader that delivers pieces of the given size and fails at failAt
type pieceReader struct {
	b      []byte
	size   int
	failAt int
	pos    int
}

func (r *pieceReader) Read(p []byte) (int, error) {
	if r.failAt >= 0 && r.pos >= r.failAt {
		return 0, errors.New("injected reader failure")
	}
	if r.pos >= len(r.b) {
		return 0, io.EOF
	}
	n := r.size
	if n > len(p) {
		n = len(p)
	}
	if r.pos+n > len(r.b) {
		n = len(r.b) - r.pos
	}
	if r.failAt >= 0 && r.pos+n > r.failAt {
		n = r.failAt - r.pos
	}
	copy(p, r.b[r.pos:r.pos+n])
	r.pos += n
	return n, nil
}

// every decoding / utility entry point on one input; returns the names that panicked
var c06Entries = []struct {
	name string
	run  func(b []byte)
}{
	{"Unmarshal(iface)", func(b []byte) { var v interface{}; gojson.Unmarshal(b, &v) }},
	{"Unmarshal(struct)", func(b []byte) { var v c06S; gojson.Unmarshal(b, &v) }},
	{"Unmarshal(slice)", func(b []byte) { var v []c06S; gojson.Unmarshal(b, &v) }},
	{"Unmarshal(map)", func(b []byte) { var v map[string][]interface{}; gojson.Unmarshal(b, &v) }},
	{"UnmarshalNoEscape", func(b []byte) { var v c06S; gojson.UnmarshalNoEscape(b, &v) }},
	{"Decode(iface,3)", func(b []byte) {
		d := gojson.NewDecoder(&pieceReader{b: b, size: 3, failAt: -1})
		for i := 0; i < 4; i++ {
			var v interface{}
			if d.Decode(&v) != nil {
				break
			}
		}
	}},
	{"Decode(struct,1)", func(b []byte) {
		d := gojson.NewDecoder(&pieceReader{b: b, size: 1, failAt: -1})
		var v c06S
		d.Decode(&v)
		d.More()
		io.ReadAll(d.Buffered())
		d.InputOffset()
	}},
	{"Decode(failing reader)", func(b []byte) {
		d := gojson.NewDecoder(&pieceReader{b: b, size: 2, failAt: len(b) / 2})
		var v c06S
		d.Decode(&v)
	}},
	{"Token", func(b []byte) {
		d := gojson.NewDecoder(&pieceReader{b: b, size: 5, failAt: -1})
		for i := 0; i < 64; i++ {
			if _, err := d.Token(); err != nil {
				break
			}
			d.More()
		}
	}},
	{"Valid", func(b []byte) { gojson.Valid(b) }},
	{"Compact", func(b []byte) { var o bytes.Buffer; gojson.Compact(&o, b) }},
	{"Indent", func(b []byte) { var o bytes.Buffer; gojson.Indent(&o, b, ">", " ") }},
	{"HTMLEscape", func(b []byte) { var o bytes.Buffer; gojson.HTMLEscape(&o, b) }},
	{"CreatePath", func(b []byte) { gojson.CreatePath(string(b)) }},
	{"Path.Extract", func(b []byte) {
		for _, ps := range []string{"$.a", "$.d.x.c[1]", "$[0].a", "$[*]", "$..a", "$.e.e.f"} {
			p, _ := gojson.CreatePath(ps)
			p.Extract(b)
			var v interface{}
			p.Unmarshal(b, &v)
		}
	}},
	{"Path.Get", func(b []byte) {
		var src interface{}
		if stdjson.Unmarshal(b, &src) == nil {
			for _, ps := range []string{"$.a", "$[0]", "$[*].a", "$..a"} {
				p, _ := gojson.CreatePath(ps)
				var dst interface{}
				p.Get(src, &dst)
			}
		}
	}},
}

func c06Run(o *Out, b []byte) {
	for _, e := range c06Entries {
		err := safeCall(func() error { e.run(b); return nil })
		o.count("entry_calls", 1)
		if err != nil {
			o.violation("C06", "panic in "+e.name, map[string]string{"input": fmt.Sprintf("%q", b), "err": err.Error()})
		}
	}
}

func nested(kind string, depth int) []byte {
	switch kind {
	case "array":
		return append(bytes.Repeat([]byte("["), depth), bytes.Repeat([]byte("]"), depth)...)
	case "object":
		b := bytes.Repeat([]byte(`{"a":`), depth)
		b = append(b, '1')
		return append(b, bytes.Repeat([]byte("}"), depth)...)
	case "e-chain": // follows the recursive pointer field of c06S
		b := bytes.Repeat([]byte(`{"e":`), depth)
		b = append(b, []byte("null")...)
		return append(b, bytes.Repeat([]byte("}"), depth)...)
	case "open-array":
		return bytes.Repeat([]byte("["), depth)
	case "mixed":
		b := bytes.Repeat([]byte(`[{"a":`), depth/2)
		b = append(b, '0')
		return append(b, bytes.Repeat([]byte("}]"), depth/2)...)
	}
	return nil
}

// child mode: harness C06child quick <entry index> <dir>  with dir = "<kind>:<depth>"
func runC06Child(o *Out) {
	parts := strings.Split(o.dir[strings.LastIndex(o.dir, "/")+1:], ":")
	_ = parts
}

// verdict of the depth-sensitive entry points on a nested document
func c06DepthVerdicts(b []byte) string {
	var sb strings.Builder
	v := func(f func() error) {
		if safeCall(f) == nil {
			sb.WriteByte('A')
		} else {
			sb.WriteByte('R')
		}
	}
	v(func() error { var x interface{}; return gojson.Unmarshal(b, &x) })
	v(func() error { var x c06S; return gojson.Unmarshal(b, &x) }) // skips or follows e
	v(func() error {
		var x interface{}
		return gojson.NewDecoder(&pieceReader{b: b, size: 4096, failAt: -1}).Decode(&x)
	})
	v(func() error {
		var x c06S
		return gojson.NewDecoder(&pieceReader{b: b, size: 4096, failAt: -1}).Decode(&x)
	})
	v(func() error { var o bytes.Buffer; return gojson.Compact(&o, b) })
	v(func() error { var o bytes.Buffer; return gojson.Indent(&o, b, "", " ") })
	v(func() error {
		if !gojson.Valid(b) {
			return errors.New("invalid")
		}
		return nil
	})
	for _, ps := range []string{"$..a", "$[0][0]", "$.a.a", "$[*]"} {
		p, _ := gojson.CreatePath(ps)
		v(func() error { _, err := p.Extract(b); return err })
	}
	return sb.String()
}

func c06StdVerdicts(b []byte) string {
	var sb strings.Builder
	v := func(ok bool) {
		if ok {
			sb.WriteByte('A')
		} else {
			sb.WriteByte('R')
		}
	}
	var x interface{}
	var s c06S
	v(stdjson.Unmarshal(b, &x) == nil)
	v(stdjson.Unmarshal(b, &s) == nil)
	v(stdjson.Unmarshal(b, &x) == nil)
	v(stdjson.Unmarshal(b, &s) == nil)
	var o bytes.Buffer
	v(stdjson.Compact(&o, b) == nil)
	o.Reset()
	v(stdjson.Indent(&o, b, "", " ") == nil)
	v(stdjson.Valid(b))
	return sb.String()
}

func runC06(o *Out) {
	thorough := o.tier == "thorough"
	if len(os.Args) > 5 && os.Args[5] == "--child" {
		// child: one nested document through every entry point; a fatal error kills this process
		kind, depth := os.Args[6], 0
		depth, _ = strconv.Atoi(os.Args[7])
		b := nested(kind, depth)
		for _, e := range c06Entries {
			func() {
				defer func() { recover() }()
				e.run(b)
			}()
		}
		fmt.Println("child-ok")
		return
	}
	if os.Getenv("AUDIT_ONLY") == "extra" { // for working on the added strata alone
		c06Extra(o)
		return
	}
	// 1. corpus, prefixes and single-byte mutations through every entry point
	for _, d := range corpusDocs {
		c06Run(o, []byte(d))
		for k := 0; k < len(d); k++ { // every truncation
			c06Run(o, []byte(d[:k]))
		}
	}
	byteSweep(func(b []byte) { c06Run(o, b) })
	ndocs := 120
	if thorough {
		ndocs = 2500
	}
	for i := 0; i < ndocs; i++ {
		d := genDoc(o.rng, 4)
		c06Run(o, []byte(d))
		for k := 0; k <= len(d); k++ { // every truncation
			c06Run(o, []byte(d[:k]))
		}
		k := 0
		mutations(d, alphabet27, 11, func(m string) {
			k++
			if k%2 == 0 {
				c06Run(o, []byte(m))
			}
		})
		w := `{"a":1,"b":"x","c":[1,2],"d":{"x":{"c":[3,4]}},"e":{"f":` + d + `},"g":[1,2,3],"h":` + d + `,"i":"1.5"}`
		c06Run(o, []byte(w))
		for k := 0; k < len(w); k += 3 {
			c06Run(o, []byte(w[:k]))
		}
	}
	// path strings
	enumStrings(pathAlphabet, 4, func(b []byte) {
		err := safeCall(func() error { gojson.CreatePath(string(b)); return nil })
		o.count("entry_calls", 1)
		if err != nil {
			o.violation("C06", "panic in CreatePath", map[string]string{"input": fmt.Sprintf("%q", b)})
		}
	})
	// 1b. the strata of audit A1 (destination types of the C02 grammar, long tokens,
	// reader behaviours, call sequences, paths)
	c06Extra(o)
	// 2. the nesting limit: at the limit everything agrees with encoding/json,
	// one level deeper every depth-sensitive entry point must return an error
	for _, kind := range []string{"array", "object", "e-chain", "mixed"} {
		for _, depth := range []int{9999, 10000, 10001, 10002, 20001} {
			b := nested(kind, depth)
			got := c06DepthVerdicts(b)
			want := c06StdVerdicts(b)
			o.count("depth_cases", 1)
			if got[:len(want)] != want {
				o.violation("C06", "nesting-limit verdicts differ from encoding/json", map[string]string{"kind": kind, "depth": fmt.Sprint(depth), "got": got, "want": want})
			}
			if depth >= 10002 && strings.Contains(got, "A") {
				// beyond the limit nothing may succeed, path evaluation included: a
				// missing depth check shows here long before the stack overflows
				o.violation("C06", "an entry point accepted nesting beyond the limit", map[string]string{"kind": kind, "depth": fmt.Sprint(depth), "got": got})
			}
			if depth > 10001 && kind != "e-chain" {
				// Path evaluation must refuse too (it never needs more than the limit)
				for i, c := range got[len(want):] {
					if c == 'A' && (kind == "array" || kind == "mixed") && i != 2 {
						o.hist("deep_path_accept", fmt.Sprintf("%s/%d/path%d", kind, depth, i))
					}
				}
			}
			o.hist("depth_verdicts", fmt.Sprintf("%s/%d %s", kind, depth, got))
		}
	}
	// 3. very deep nesting in child processes: a fatal stack overflow or a hang
	// is an exit status, not a Go error
	depths := []int{100000, 1000000}
	if thorough {
		depths = append(depths, 10000000)
	}
	self, _ := os.Executable()
	for _, kind := range []string{"array", "object", "open-array", "mixed"} {
		for _, depth := range depths {
			cmd := exec.Command(self, "C06", o.tier, "1", o.dir+"/child", "--child", kind, fmt.Sprint(depth))
			done := make(chan error, 1)
			var out bytes.Buffer
			cmd.Stdout = &out
			cmd.Stderr = &out
			cmd.Start()
			go func() { done <- cmd.Wait() }()
			var err error
			select {
			case err = <-done:
			case <-time.After(120 * time.Second):
				cmd.Process.Kill()
				err = errors.New("timeout (hang)")
			}
			o.count("child_runs", 1)
			if err != nil || !strings.Contains(out.String(), "child-ok") {
				tail := out.String()
				if len(tail) > 300 {
					tail = tail[:300]
				}
				o.violation("C06", "process died or hung on deep nesting", map[string]string{"kind": kind, "depth": fmt.Sprint(depth), "err": fmt.Sprint(err), "output": tail})
			}
		}
	}
}

// ===========================================================================
// Audit A1: strata for dimensions of the quantifier that the generators above
// do not reach (see c06Extra).  Every stratum counts what it ran
// (x_* counters, x_* histograms) and names the input of a violation.
// ===========================================================================

// watchdog: "never loops forever".  The new strata announce the input they
// are about to run; when a batch of calls on one input does not return within
// c06HangLimit the harness writes the input to current.json (bin/check reports
// it as the failing case) and exits.
const c06HangLimit = 90 * time.Second

var c06wd struct {
	mu     sync.Mutex
	start  time.Time
	detail func() map[string]string
	once   sync.Once
}

// c06Current names the input about to be run in <outdir>/current.json, like Out.current, through
// one file that stays open (the strata call it a few thousand times): if the process dies of
// something recover cannot catch, bin/check reports this input
var c06CurFile *os.File

func c06Current(o *Out, detail map[string]string) {
	if c06CurFile == nil {
		f, err := os.OpenFile(o.dir+"/current.json", os.O_RDWR|os.O_CREATE|os.O_TRUNC, 0o644)
		if err != nil {
			o.current(detail)
			return
		}
		c06CurFile = f
	}
	b, _ := stdjson.Marshal(detail)
	c06CurFile.Truncate(0)
	c06CurFile.WriteAt(b, 0)
}

// c06Guarded runs f; detail is evaluated only if f does not return in time
func c06Guarded(o *Out, detail func() map[string]string, f func()) {
	c06wd.once.Do(func() {
		go func() {
			for {
				time.Sleep(time.Second)
				c06wd.mu.Lock()
				st, d := c06wd.start, c06wd.detail
				c06wd.mu.Unlock()
				if !st.IsZero() && time.Since(st) > c06HangLimit {
					cur := map[string]string{"property": "C06", "hang": fmt.Sprintf("a call did not return within %s", c06HangLimit)}
					for k, v := range d() {
						cur[k] = v
					}
					o.current(cur)
					fmt.Fprintf(os.Stderr, "C06: hang: %v\n", cur)
					os.Exit(3)
				}
			}
		}()
	})
	c06wd.mu.Lock()
	c06wd.start, c06wd.detail = time.Now(), detail
	c06wd.mu.Unlock()
	f()
	c06wd.mu.Lock()
	c06wd.start = time.Time{}
	c06wd.mu.Unlock()
}

var c06Digits = regexp.MustCompile(`[0-9]+`)

// the kind of a panic, for the histogram only (every panic is a violation whatever its kind)
func c06PanicKind(msg string) string {
	switch {
	case strings.Contains(msg, "slice bounds out of range"), strings.Contains(msg, "index out of range"):
		return "index or slice bounds out of range"
	case strings.Contains(msg, "Len of non-array type"):
		return "reflect: Len of non-array type"
	case strings.Contains(msg, "on zero Value"):
		return "reflect: call on zero Value"
	case strings.Contains(msg, "not assignable"), strings.Contains(msg, "unexported field"):
		return "reflect: value not assignable"
	case strings.Contains(msg, "nil pointer dereference"):
		return "nil pointer dereference"
	}
	return clipN(c06Digits.ReplaceAllString(msg, "#"), 80)
}

// c06Try runs one call; a panic is a violation that carries the input and the stratum
func c06Try(o *Out, stratum, entry string, b []byte, extra map[string]string, f func()) {
	detail := func() map[string]string {
		d := map[string]string{"stratum": stratum, "entry": entry, "input_len": fmt.Sprint(len(b)), "input": clipN(fmt.Sprintf("%q", b), 1500)}
		for k, v := range extra {
			d[k] = v
		}
		return d
	}
	var err error
	c06Guarded(o, detail, func() { err = safeCall(func() error { f(); return nil }) })
	o.count("x_"+stratum+"_calls", 1)
	if err != nil {
		d := detail()
		d["err"] = err.Error()
		o.hist("x_panics", stratum+"/"+c06Digits.ReplaceAllString(entry, "#")+"/"+c06PanicKind(err.Error()))
		o.violation("C06", "panic in "+entry, d)
	}
}

// a reader that follows a script: sizes of the pieces (0 = an empty read that
// returns 0, nil), then optionally an error that arrives together with the last
// piece (io.EOF or another error), or alone
type c06ScriptReader struct {
	b       []byte
	sizes   []int
	i       int
	pos     int
	failAt  int   // -1: never
	failErr error // what the failure returns
	withEOF bool  // the last piece arrives together with io.EOF
	flaky   bool  // after the failure the reader goes on delivering
	failed  bool
}

func (r *c06ScriptReader) Read(p []byte) (int, error) {
	if r.failAt >= 0 && r.pos >= r.failAt && !r.failed {
		r.failed = true
		return 0, r.failErr
	}
	if r.failed && !r.flaky {
		return 0, r.failErr
	}
	if r.pos >= len(r.b) {
		return 0, io.EOF
	}
	n := 1
	if len(r.sizes) > 0 {
		n = r.sizes[r.i%len(r.sizes)]
		r.i++
	}
	if n > len(p) {
		n = len(p)
	}
	if r.pos+n > len(r.b) {
		n = len(r.b) - r.pos
	}
	if r.failAt >= 0 && !r.failed && r.pos+n > r.failAt {
		n = r.failAt - r.pos
	}
	copy(p, r.b[r.pos:r.pos+n])
	r.pos += n
	if r.withEOF && r.pos >= len(r.b) {
		return n, io.EOF
	}
	return n, nil
}

// --- 1. destination types of the C02 grammar x documents for the type, cut and mutated ---

func c06TypedCalls(o *Out, t reflect.Type, b []byte, seed int64, k int) {
	ex := map[string]string{"type": clipN(t.String(), 700)}
	zero := func() interface{} { return reflect.New(t).Interface() }
	pop := func() interface{} {
		v := reflect.New(t)
		tgValue(rand.New(rand.NewSource(seed)), v.Elem(), 0, 30, false)
		return v.Interface()
	}
	c06Try(o, "typed", "Unmarshal(zero)", b, ex, func() { gojson.Unmarshal(b, zero()) })
	sizes := []int{1, 2, 3, 7, 64, 4096}
	c06Try(o, "typed", "Decode(zero,pieces)", b, ex, func() {
		d := gojson.NewDecoder(&pieceReader{b: b, size: sizes[k%len(sizes)], failAt: -1})
		if d.Decode(zero()) == nil {
			d.More()
			d.Decode(zero())
		}
		io.ReadAll(d.Buffered())
		d.InputOffset()
	})
	switch k % 8 {
	case 0:
		c06Try(o, "typed", "Unmarshal(populated)", b, ex, func() { gojson.Unmarshal(b, pop()) })
	case 1:
		c06Try(o, "typed", "Decode(populated,pieces)", b, ex, func() {
			gojson.NewDecoder(&pieceReader{b: b, size: sizes[(k/8)%len(sizes)], failAt: -1}).Decode(pop())
		})
	case 2:
		c06Try(o, "typed", "Decode(failing reader)", b, ex, func() {
			fail := 0
			if len(b) > 0 {
				fail = (k / 8) % (len(b) + 1)
			}
			d := gojson.NewDecoder(&pieceReader{b: b, size: 3, failAt: fail})
			d.Decode(zero())
			d.Decode(zero())
		})
	case 3:
		c06Try(o, "typed", "UnmarshalContext", b, ex, func() { gojson.UnmarshalContext(context.Background(), b, zero()) })
	case 4:
		c06Try(o, "typed", "UnmarshalNoEscape", b, ex, func() { gojson.UnmarshalNoEscape(b, zero()) })
	case 5:
		c06Try(o, "typed", "UnmarshalWithOption(FirstWin)", b, ex, func() {
			gojson.UnmarshalWithOption(b, pop(), gojson.DecodeFieldPriorityFirstWin())
		})
	case 6:
		c06Try(o, "typed", "Decoder(UseNumber,DisallowUnknownFields)", b, ex, func() {
			d := gojson.NewDecoder(bytes.NewReader(b))
			d.UseNumber()
			d.DisallowUnknownFields()
			d.Decode(zero())
		})
	default:
		c06Try(o, "typed", "DecodeContext/DecodeWithOption", b, ex, func() {
			d := gojson.NewDecoder(iotestOneByte(b))
			if d.DecodeContext(context.Background(), zero()) == nil {
				d.DecodeWithOption(zero(), gojson.DecodeFieldPriorityFirstWin())
			}
		})
	}
}

func iotestOneByte(b []byte) io.Reader { return &pieceReader{b: b, size: 1, failAt: -1} }

// a struct type none of whose fields takes a key (no fields, or all of them tagged "-"):
// Unmarshal of {"\q":1} into it panics today (see the notes, FieldlessStructKeyEscape);
// such types are run with AUDIT_OPEN=1 only
func c06HasFieldlessStruct(t reflect.Type, depth int) bool {
	if depth > 8 {
		return false
	}
	switch t.Kind() {
	case reflect.Struct:
		if reflect.PtrTo(t).Implements(reflect.TypeOf((*stdjson.Unmarshaler)(nil)).Elem()) {
			return false
		}
		keys := 0
		for _, n := range c02FieldNames(t) {
			if n != "-" {
				keys++
			}
		}
		if keys == 0 {
			return true
		}
		for i := 0; i < t.NumField(); i++ {
			if c06HasFieldlessStruct(t.Field(i).Type, depth+1) {
				return true
			}
		}
	case reflect.Ptr, reflect.Slice, reflect.Array, reflect.Map:
		return c06HasFieldlessStruct(t.Elem(), depth+1)
	}
	return false
}

type c06Ignored struct {
	A int `json:"-"`
	b int
}

type c06Prefixes struct {
	A    int
	AB   string
	ABC  []int
	ABCD *c06Prefixes
	E    int `json:"é"`
	Sp   int `json:"a b"`
	Lt   int `json:"<"`
}

// the struct key matcher changes form with the number of fields (8 | 9, 16 | 17) and with the
// length of the longest key (64 | 65); a key is matched byte by byte against all field names at
// once, so names that are prefixes of each other, keys that stop early, go on too long or are
// spelled with escapes take different exits
func c06MatcherTypes(open bool) []reflect.Type {
	nf := func(n int, long int) reflect.Type {
		var fs []reflect.StructField
		for i := 0; i < n; i++ {
			f := reflect.StructField{Name: fmt.Sprintf("F%d", i), Type: []reflect.Type{reflect.TypeOf(0), reflect.TypeOf(""), reflect.TypeOf([]int(nil)), tgIface}[i%4]}
			if i == 0 && long > 0 {
				f.Tag = reflect.StructTag(`json:"` + strings.Repeat("k", long) + `"`)
			}
			fs = append(fs, f)
		}
		return reflect.StructOf(fs)
	}
	ts := []reflect.Type{nf(1, 0), nf(8, 0), nf(9, 0), nf(16, 0), nf(17, 0), nf(2, 64), nf(2, 65), nf(9, 64), reflect.TypeOf(c06Prefixes{}), reflect.TypeOf([]c06Prefixes{}), reflect.TypeOf(map[string]*c06Prefixes{})}
	if open {
		ts = append(ts, reflect.TypeOf(struct{}{}), reflect.TypeOf(c06Ignored{}), reflect.TypeOf([]struct{}{}), reflect.TypeOf(map[string]c06Ignored{}))
	}
	return ts
}

func c06MatcherDocs(t reflect.Type) []string {
	for t.Kind() != reflect.Struct {
		t = t.Elem()
	}
	names := c02FieldNames(t)
	names = append(names, "", "F", "x")
	var keys []string
	esc := func(s string, every int) string {
		var sb strings.Builder
		for i, c := range []byte(s) {
			if i%every == 0 && c < 0x80 {
				fmt.Fprintf(&sb, `\u%04x`, c)
			} else {
				sb.WriteByte(c)
			}
		}
		return sb.String()
	}
	for _, n := range names {
		if len(n) > 70 {
			continue
		}
		keys = append(keys, n, strings.ToLower(n), n+"x", esc(n, 1), esc(n, 2), n+`\q`, `\q`+n, n+`\`, n+`\u00`, n+`\ud83d\ude00`, n+"\x00")
		if len(n) > 1 {
			keys = append(keys, n[:len(n)-1], n[:1]+`\"`+n[1:])
		}
	}
	keys = append(keys, `\q`, `\q\q`, `\0`, `\`, `\u`, `\u0`, `\ud800`, `\"`, `\\`, strings.Repeat("k", 63), strings.Repeat("k", 64), strings.Repeat("k", 65), strings.Repeat("k", 66), strings.Repeat(`\u006b`, 65))
	var docs []string
	for i, k := range keys {
		v := []string{"1", `"s"`, "[1,2]", "null", `{"F0":1}`}[i%5]
		docs = append(docs, `{"`+k+`":`+v+`}`, `{"F0":0,"`+k+`":`+v+`,"`+k+`":null}`)
	}
	return docs
}

func c06Matcher(o *Out) {
	open := true
	if !open {
		o.count("x_matcher_types_held_back_AUDIT_OPEN", 4)
	}
	k := 0
	for _, t := range c06MatcherTypes(open) {
		o.count("x_matcher_types", 1)
		for _, doc := range c06MatcherDocs(t) {
			if t.Kind() == reflect.Slice {
				doc = "[" + doc + "," + doc + "]"
			} else if t.Kind() == reflect.Map {
				doc = `{"m":` + doc + "}"
			}
			o.count("x_matcher_docs", 1)
			for c := 0; c <= len(doc); c++ {
				if c < len(doc) && len(doc) > 80 && c%3 != 0 {
					continue
				}
				k++
				c06TypedCalls(o, t, []byte(doc[:c]), int64(k), k)
			}
		}
	}
}

func c06TypedGrammar(o *Out) {
	c06Matcher(o)
	open := true
	r := o.rng
	ntypes := 110
	if o.tier == "thorough" {
		ntypes = 4000
	}
	for i := 0; i < ntypes; i++ {
		var t reflect.Type
		if i%3 == 0 {
			t = c02Type(r, 3)
		} else {
			t = c02Struct(r, 2)
		}
		o.hist("x_typed_kind", t.Kind().String())
		if !open && c06HasFieldlessStruct(t, 0) {
			o.count("x_typed_types_held_back_AUDIT_OPEN", 1)
			continue
		}
		for j := 0; j < 2; j++ {
			doc := c02Doc(r, t, 0, false)
			if len(doc) > 1500 {
				doc = doc[:1500]
			}
			seed := r.Int63()
			o.count("x_typed_docs", 1)
			c06Current(o, map[string]string{"property": "C06", "stratum": "typed", "type": clipN(t.String(), 700), "doc": doc})
			k := 0
			c06TypedCalls(o, t, []byte(doc), seed, k)
			step := 1
			if len(doc) > 300 {
				step = 1 + len(doc)/300
			}
			for c := 0; c < len(doc); c += step { // truncations
				k++
				c06TypedCalls(o, t, []byte(doc[:c]), seed, k)
			}
			stride := 7
			if len(doc) > 120 {
				stride = 7 * (1 + len(doc)/120)
			}
			mutations(doc, alphabet27, stride, func(m string) {
				k++
				if k%2 == 0 {
					c06TypedCalls(o, t, []byte(m), seed, k)
				}
			})
		}
	}
}

// --- 2. tokens longer than the stream decoder's window (512 bytes, doubled on demand) ---
//
// Nothing above produces a token of more than a few dozen bytes, so the code that
// grows the window in the middle of a token (Stream.readBuf), that rewrites the window
// while a string is scanned (escapes shrink it, ill-formed UTF-8 widens it by two
// bytes per byte) and that re-reads a position after a refill only ever runs with
// the first window.  Valid and HTMLEscape are built on the stream decoder too.

type c06LongDoc struct {
	class string
	doc   []byte
	grow  int // bytes by which scanning widens the window (2 per ill-formed byte)
}

func rep(s string, n int) string { return strings.Repeat(s, n) }

// token classes; n is the number of repetitions of the unit
func c06LongTokens(n int) []c06LongDoc {
	q := func(s string) []byte { return []byte(`"` + s + `"`) }
	return []c06LongDoc{
		{"string-ascii", q(rep("a", n)), 0},
		{"string-escape-n", q(rep(`\n`, n)), 0},
		{"string-escape-quote", q(rep(`\"`, n)), 0},
		{"string-escape-backslash", q(rep(`\\`, n)), 0},
		{"string-u-escape", q(rep(`é`, n)), 0},
		{"string-u-escape-pair", q(rep(`😀`, n)), 0},
		{"string-u-escape-lone-surrogate", q(rep(`\ud800`, n)), 0},
		{"string-u-escape-lone-low-high", q(rep(`\ude00\ud83d`, n)), 0},
		{"string-2byte", q(rep("é", n)), 0},
		{"string-3byte", q(rep("€", n)), 0},
		{"string-4byte", q(rep("😀", n)), 0},
		{"string-replacement-char", q(rep("\xef\xbf\xbd", n)), 0},
		{"string-mixed", q(rep(`a\né€😀é\\`, n)), 0},
		{"number-digits", []byte(rep("1", n)), 0},
		{"number-fraction", []byte("0." + rep("1", n)), 0},
		{"number-exponent", []byte("1e" + rep("0", n) + "1"), 0},
		{"number-negative-zero-fraction", []byte("-0." + rep("0", n) + "1"), 0},
		{"whitespace-before", []byte(rep(" ", n) + "1"), 0},
		{"whitespace-mixed-before", []byte(rep(" \n\t\r", n) + `"x"`), 0},
		{"whitespace-after", []byte("1" + rep(" ", n)), 0},
		{"whitespace-in-array", []byte("[" + rep(" ", n) + "1" + rep("\n", n) + "," + rep("\t", n) + "2" + rep(" ", n) + "]"), 0},
		{"whitespace-in-object", []byte("{" + rep(" ", n) + `"a"` + rep(" ", n) + ":" + rep(" ", n) + "1" + rep(" ", n) + "}"), 0},
		{"key-ascii", []byte(`{"` + rep("k", n) + `":1}`), 0},
		{"key-escaped", []byte(`{"` + rep(`k`, n) + `":1}`), 0},
		{"key-prefix-of-field", []byte(`{"a` + rep("a", n) + `":1,"b` + rep(`\n`, n) + `":"x"}`), 0},
		{"key-multibyte", []byte(`{"` + rep("é", n) + `":[1]}`), 0},
		{"base64", q(rep("QUJD", n)), 0},
		{"base64-padded", q(rep("QUJD", n) + "QQ=="), 0},
		{"array-of-true", []byte("[" + rep("true,", n) + "false]"), 0},
		{"array-of-null", []byte("[" + rep("null,", n) + "null]"), 0},
		{"array-of-numbers", []byte("[" + rep("-1.5e1,", n) + "0]"), 0},
		{"array-of-strings", []byte("[" + rep(`"é\n",`, n) + `""]`), 0},
		{"object-members", []byte("{" + rep(`"a":1,"b":"x",`, n) + `"c":[1,2]}`), 0},
		{"nesting-array", []byte(rep("[", n) + rep("]", n)), 0},
		{"nesting-object", []byte(rep(`{"e":`, n) + "null" + rep("}", n)), 0},
		// ill-formed UTF-8: every such byte becomes U+FFFD, three bytes, in the window
		{"string-illformed-ff", q(rep("\xff", n)), 2 * n},
		{"string-illformed-continuation", q(rep("\x80", n)), 2 * n},
		{"string-illformed-truncated-3byte", q(rep("\xe2\x82", n)), 4 * n},
		{"string-illformed-ef-bf", q(rep("\xef\xbf", n)), 4 * n},
		{"string-illformed-surrogate-bytes", q(rep("\xed\xa0\x80", n)), 6 * n},
		{"string-illformed-mixed", q(rep("a\xffé\xc3", n)), 4 * n},
		{"key-illformed", []byte(`{"` + rep("\xff", n) + `":1}`), 2 * n},
	}
}

// an ill-formed run of k bytes laid across the window edge at input offset edge
func c06IllFormedAtEdge(k, edge, shift int) c06LongDoc {
	lead := edge - 1 - k/2 - shift
	if lead < 0 {
		lead = 0
	}
	return c06LongDoc{"string-illformed-at-edge", []byte(`"` + rep("a", lead) + rep("\xff", k) + rep("b", 700) + `"`), 2 * k}
}

var c06Wrappers = []string{"%s", "[%s]", `{"b":%s}`, `{"h":%s}`, `{"zz":%s,"a":1}`, `{"f":[%s]}`, `[0,%s,1]`, ` %s `}

// the widest total widening of the window (see c06LongDoc.grow) the default run
// sends: beyond it the library panics today (finding StreamWindowGrowthOverrun,
// see the notes); AUDIT_OPEN=1 lifts the cap.
const c06GrowCap = 500

func c06LongCalls(o *Out, ld c06LongDoc, b []byte, k int) {
	ex := map[string]string{"class": ld.class}
	streamy := []struct {
		name string
		mk   func() interface{}
	}{
		{"iface", func() interface{} { var v interface{}; return &v }},
		{"c06S", func() interface{} { return &c06S{} }},
		{"string", func() interface{} { var v string; return &v }},
		{"bytes", func() interface{} { var v []byte; return &v }},
		{"Number", func() interface{} { var v stdjson.Number; return &v }},
		{"float64", func() interface{} { var v float64; return &v }},
		{"int64", func() interface{} { var v int64; return &v }},
		{"RawMessage", func() interface{} { var v stdjson.RawMessage; return &v }},
		{"map-iface", func() interface{} { var v map[string]interface{}; return &v }},
		{"slice-string", func() interface{} { var v []string; return &v }},
		{"slice-bool-ptr", func() interface{} { var v []*bool; return &v }},
		{"text", func() interface{} { return &c05TextU{} }},
		{"map-text-key", func() interface{} { var v map[C02Key][]byte; return &v }},
	}
	sizes := []int{4096, 1, 7, 511, 512, 513, 100, 2}
	for di, d := range streamy {
		c06Try(o, "window", "Unmarshal("+d.name+")", b, ex, func() { gojson.Unmarshal(b, d.mk()) })
		// two readers per destination, rotating so that every pair occurs
		for _, sz := range []int{sizes[(k+di)%len(sizes)], sizes[(k+di+3)%len(sizes)]} {
			c06Try(o, "window", fmt.Sprintf("Decode(%s,%d)", d.name, sz), b, ex, func() {
				dec := gojson.NewDecoder(&pieceReader{b: b, size: sz, failAt: -1})
				if k%2 == 0 {
					dec.UseNumber()
				}
				if dec.Decode(d.mk()) == nil {
					dec.More()
					dec.Decode(d.mk())
				}
				io.ReadAll(dec.Buffered())
				dec.InputOffset()
			})
		}
	}
	for _, sz := range []int{4096, 1, sizes[k%len(sizes)]} {
		c06Try(o, "window", fmt.Sprintf("Token(%d)", sz), b, ex, func() {
			dec := gojson.NewDecoder(&pieceReader{b: b, size: sz, failAt: -1})
			for i := 0; i < 5000; i++ {
				if _, err := dec.Token(); err != nil {
					break
				}
				dec.More()
			}
		})
	}
	c06Try(o, "window", "Valid", b, ex, func() { gojson.Valid(b) })
	c06Try(o, "window", "HTMLEscape", b, ex, func() { var w bytes.Buffer; gojson.HTMLEscape(&w, b) })
	c06Try(o, "window", "Compact", b, ex, func() { var w bytes.Buffer; gojson.Compact(&w, b) })
	c06Try(o, "window", "Indent", b, ex, func() { var w bytes.Buffer; gojson.Indent(&w, b, "", "\t") })
	c06Try(o, "window", "Path.Extract", b, ex, func() {
		for _, ps := range []string{"$.b", "$[0]", "$..a", "$.f[0]"} {
			p, _ := gojson.CreatePath(ps)
			p.Extract(b)
		}
	})
}

func c06Window(o *Out) {
	open := true
	// lengths whose tokens end around the first three window edges (511, 1023, 2047
	// bytes of input), for units of 1..12 bytes
	var ns []int
	if o.tier == "thorough" {
		for _, c := range []int{42, 85, 102, 128, 170, 256, 341, 512, 1024, 2048} {
			for d := -4; d <= 4; d++ {
				ns = append(ns, c+d)
			}
		}
	} else {
		ns = []int{41, 43, 84, 86, 101, 103, 127, 128, 170, 171, 254, 255, 256, 257, 340, 342, 509, 510, 511, 512, 513, 1021, 1022, 1023, 1024, 2047}
	}
	k := 0
	run := func(ld c06LongDoc) {
		if ld.grow > c06GrowCap && !open {
			o.count("x_window_docs_held_back_AUDIT_OPEN", 1)
			return
		}
		o.count("x_window_docs", 1)
		o.hist("x_window_class", ld.class)
		o.hist("x_window_len", fmt.Sprintf("%04d..", len(ld.doc)/256*256))
		w := c06Wrappers[k%len(c06Wrappers)]
		k++
		i := strings.Index(w, "%s")
		b := append(append([]byte(w[:i]), ld.doc...), w[i+2:]...)
		c06Current(o, map[string]string{"property": "C06", "stratum": "window", "class": ld.class, "len": fmt.Sprint(len(b)), "head": clipN(fmt.Sprintf("%q", b), 300)})
		c06LongCalls(o, ld, b, k)
		if k%3 == 0 {
			// the same, cut or damaged next to a window edge
			for _, edge := range []int{511, 1023} {
				if len(b) <= edge+2 {
					continue
				}
				at := edge - 2 + k%5
				c06LongCalls(o, ld, b[:at], k+1)
				for _, c := range []byte{0, '"', '\\', 0xff, 'u'} {
					m := append([]byte{}, b...)
					m[at] = c
					c06LongCalls(o, ld, m, k+2)
				}
			}
		}
	}
	for _, n := range ns {
		for _, ld := range c06LongTokens(n) {
			if len(ld.doc) > 9000 {
				continue
			}
			if strings.HasPrefix(ld.class, "nesting") && n > 1100 {
				continue
			}
			run(ld)
		}
	}
	ks := []int{1, 2, 3, 8, 64, 250}
	if open {
		ks = append(ks, 256, 257, 300, 510, 600, 2000)
	} else {
		o.count("x_window_docs_held_back_AUDIT_OPEN", 6*2*3)
	}
	for _, kk := range ks {
		for _, edge := range []int{511, 1023} {
			for shift := 0; shift < 3; shift++ {
				run(c06IllFormedAtEdge(kk, edge, shift))
			}
		}
	}
}

// --- 3. reader behaviours: pieces of any size incl. empty reads, data together with
// io.EOF or with an error, failure at every point, a reader that recovers; and what
// the Decoder's other methods do after the failure ---

var c06ReaderDocs = []string{
	`{"a":1,"b":"xéy","c":[1,2,3],"d":{"k":{"a":2}},"e":{"a":3},"f":[true,null,1.5e3,"s"],"g":[1,2],"h":{"raw":[1]},"i":"2.5"}`,
	`[{"a":1},{"b":"two"},{"c":[3]}]`, `"a string with \"escapes\" \\ and é€😀 and 😀"`, `-123.456e-7`, `true`, `null`,
	`  [1, 2, 3]  `, `{"a":1} {"a":2}`, `[1,2`, `{"a":"x`, `"\ud83d`, `nul`, `{"b":"\u00`,
}

func c06ReaderBehaviours(o *Out) {
	r := o.rng
	errBoom := errors.New("injected reader failure")
	dests := []struct {
		name string
		mk   func() interface{}
	}{
		{"iface", func() interface{} { var v interface{}; return &v }},
		{"c06S", func() interface{} { return &c06S{} }},
		{"slice-c06S", func() interface{} { var v []c06S; return &v }},
		{"string", func() interface{} { var v string; return &v }},
		{"RawMessage", func() interface{} { var v stdjson.RawMessage; return &v }},
		{"float64", func() interface{} { var v float64; return &v }},
	}
	docs := append([]string{}, c06ReaderDocs...)
	n := 250
	if o.tier == "thorough" {
		n = 5000
	}
	for i := 0; i < n; i++ {
		docs = append(docs, genDoc(r, 3))
	}
	after := func(d *gojson.Decoder, mk func() interface{}, k int) {
		// whatever the caller does next must return as well
		switch k % 5 {
		case 0:
			d.Decode(mk())
		case 1:
			d.Token()
			d.Token()
		case 2:
			d.More()
			d.Decode(mk())
		case 3:
			io.ReadAll(d.Buffered())
			d.InputOffset()
		default:
			d.More()
			io.ReadAll(d.Buffered())
			d.Token()
		}
	}
	k := 0
	for _, doc := range docs {
		b := []byte(doc)
		c06Current(o, map[string]string{"property": "C06", "stratum": "reader", "doc": clipN(doc, 600)})
		for di, d := range dests {
			// failure at every point, three kinds of failure
			stepFail := 1
			if len(b) > 160 {
				stepFail = 1 + len(b)/160
			}
			for at := 0; at <= len(b); at += stepFail {
				k++
				kind := (k + di) % 3
				rd := &c06ScriptReader{b: b, sizes: []int{1 + k%5}, failAt: at, failErr: errBoom}
				switch kind {
				case 1:
					rd.flaky = true
				case 2:
					rd.failErr = io.ErrUnexpectedEOF
				}
				o.hist("x_reader_kind", []string{"fail-for-good", "fail-once-then-deliver", "fail-with-ErrUnexpectedEOF"}[kind])
				c06Try(o, "reader", "Decode("+d.name+") with a reader failing at "+fmt.Sprint(at), b, map[string]string{"reader": fmt.Sprintf("%+v", *rd)}, func() {
					dec := gojson.NewDecoder(rd)
					dec.Decode(d.mk())
					after(dec, d.mk, k)
				})
			}
			// scripted piece sizes with empty reads and data+EOF
			for rep := 0; rep < 6; rep++ {
				k++
				var sizes []int
				for j := 0; j < 1+r.Intn(6); j++ {
					sizes = append(sizes, []int{0, 1, 1, 2, 3, 5, 8, 64, 511, 512}[r.Intn(10)])
				}
				if !containsInt(sizes, 1) {
					sizes = append(sizes, 1) // a reader that never delivers is not a reader
				}
				rd := &c06ScriptReader{b: b, sizes: sizes, failAt: -1, withEOF: rep%2 == 0}
				o.hist("x_reader_kind", fmt.Sprintf("scripted(empty reads=%v,data+EOF=%v)", containsInt(sizes, 0), rd.withEOF))
				c06Try(o, "reader", "Decode("+d.name+") scripted", b, map[string]string{"reader": fmt.Sprintf("%+v", *rd)}, func() {
					dec := gojson.NewDecoder(rd)
					if k%3 == 0 {
						dec.UseNumber()
					}
					dec.Decode(d.mk())
					after(dec, d.mk, k)
				})
			}
		}
	}
}

func containsInt(l []int, x int) bool {
	for _, v := range l {
		if v == x {
			return true
		}
	}
	return false
}

// --- 4. call sequences on one Decoder: Decode / Token / More / Buffered / InputOffset in
// any order over a stream of several texts (the usual idiom reads '[' with Token, the
// elements with Decode while More, then ']'); values that end exactly where the window ends ---

func c06Sequences(o *Out) {
	r := o.rng
	n := 6000
	if o.tier == "thorough" {
		n = 150000
	}
	seps := []string{"", " ", "\n", ",", "  \n", ":", "\x00", "]"}
	ops := []string{"Decode(iface)", "Decode(c06S)", "Decode(Raw)", "Decode(string)", "Decode(int)", "Token", "More", "Buffered", "InputOffset", "UseNumber", "DisallowUnknownFields", "Decode(map)"}
	for i := 0; i < n; i++ {
		var sb strings.Builder
		nv := 1 + r.Intn(6)
		wrapArray := r.Intn(3) == 0
		if wrapArray {
			sb.WriteString("[")
		}
		for j := 0; j < nv; j++ {
			if j > 0 {
				if wrapArray {
					sb.WriteString(",")
				} else {
					sb.WriteString(seps[r.Intn(len(seps))])
				}
			}
			switch r.Intn(8) {
			case 0:
				sb.WriteString(`{"a":1,"b":"x","c":[1,2],"zz":{"q":[1,{"r":"s"}]}}`)
			case 1:
				d := genDoc(r, 2)
				if len(d) > 0 {
					sb.WriteString(d[:r.Intn(len(d)+1)]) // cut short
				}
			case 2:
				// a value that ends at, just before or just after the end of a window
				end := []int{511, 1023}[r.Intn(2)] - sb.Len() + r.Intn(5) - 2
				if end > 4 {
					sb.WriteString(`"` + rep("p", end-2) + `"`)
				} else {
					sb.WriteString("12")
				}
			default:
				sb.WriteString(genDoc(r, 2))
			}
		}
		if wrapArray && r.Intn(4) > 0 {
			sb.WriteString("]")
		}
		b := []byte(sb.String())
		var prog []int
		if wrapArray && r.Intn(2) == 0 {
			prog = []int{5, 6} // Token, More, then a random tail
		}
		for j := 0; j < 2+r.Intn(10); j++ {
			prog = append(prog, r.Intn(len(ops)))
		}
		size := []int{1, 2, 3, 7, 64, 511, 512, 4096}[r.Intn(8)]
		var names []string
		for _, p := range prog {
			names = append(names, ops[p])
			o.hist("x_sequence_ops", ops[p])
		}
		ex := map[string]string{"program": strings.Join(names, " "), "piece": fmt.Sprint(size)}
		c06Current(o, map[string]string{"property": "C06", "stratum": "sequence", "doc": clipN(string(b), 1200), "program": ex["program"], "piece": ex["piece"]})
		c06Try(o, "sequence", "Decoder call sequence", b, ex, func() {
			d := gojson.NewDecoder(&pieceReader{b: b, size: size, failAt: -1})
			for _, p := range prog {
				switch ops[p] {
				case "Decode(iface)":
					var v interface{}
					d.Decode(&v)
				case "Decode(c06S)":
					var v c06S
					d.Decode(&v)
				case "Decode(Raw)":
					var v stdjson.RawMessage
					d.Decode(&v)
				case "Decode(string)":
					var v string
					d.Decode(&v)
				case "Decode(int)":
					var v int
					d.Decode(&v)
				case "Decode(map)":
					var v map[string][]interface{}
					d.Decode(&v)
				case "Token":
					d.Token()
				case "More":
					d.More()
				case "Buffered":
					io.ReadAll(d.Buffered())
				case "InputOffset":
					d.InputOffset()
				case "UseNumber":
					d.UseNumber()
				case "DisallowUnknownFields":
					d.DisallowUnknownFields()
				}
			}
		})
	}
}

// --- 5. paths: every well-formed path of the path alphabet (up to length 4, 5 in thorough)
// on documents whose keys the paths can name, cut and mutated; Path.Unmarshal into
// destinations of several types; Path.Get on sources that are not what Unmarshal into
// interface{} yields (typed maps, slices, arrays, pointers, structs) ---
//
// Four kinds of call panic today (see the notes: PathGetStructSource, PathAssignNull,
// PathAssignMismatch, PathGetInvalidDst).  The default run keeps to the calls around
// them; AUDIT_OPEN=1 runs everything.

type c06PathSrc struct {
	A  int                    `json:"a"`
	B  *c06PathSrc            `json:"b"`
	L  []c06PathSrc           `json:"0"`
	M  map[string]interface{} `json:"1"`
	P  *int
	I  interface{}
	Ar [2]*c06PathSrc
	mi map[int]string
}

func c06Paths(o *Out) {
	r := o.rng
	open := true
	var paths []*gojson.Path
	var texts []string
	maxLen := 4
	if o.tier == "thorough" {
		maxLen = 5
	}
	enumStrings(pathAlphabet, maxLen, func(b []byte) {
		if len(b) == 0 || b[0] != '$' {
			return
		}
		var p *gojson.Path
		if safeCall(func() error { var err error; p, err = gojson.CreatePath(string(b)); return err }) == nil && p != nil {
			paths = append(paths, p)
			texts = append(texts, string(b))
		}
	})
	for _, s := range []string{"$.a.b", "$.a[0].b", "$['a']['b']", `$."a"."b"`, "$..a..b", "$..a[*]", "$[*][*]", "$[0][1][0]", "$.a[*].b[*]", "$[*]..a", "$.b.b.b.b", "$.1.a", "$.0[1].a", "$..0..a",
		"$[1].a[1].b[0]", "$.b[1][0].a", "$..b.a", "$[*].a", "$.a.a.a", "$[-1]", "$[99999999999999999999]", "$[1][-1]"} {
		if p, err := gojson.CreatePath(s); err == nil {
			paths = append(paths, p)
			texts = append(texts, s)
		}
	}
	o.count("x_path_wellformed_paths", int64(len(paths)))
	docs := []string{
		`{"a":{"b":[1,{"a":2}],"a":{"a":null}},"b":[[0,1],[{"a":[]}]],"0":"zero","1":{"a":"é","b":{}},"":1}`,
		`[[1,[2,{"a":3}]],{"a":[{"b":1},{"b":[true,false]}],"b":{"a":{"a":{"a":1}}}},"a",null,1.5]`,
		`{"a":"\"","b":"\\","a b":{"-":1},"'":2,"\"":3,"*":[1],"$":{"a":1}}`, `null`, `"a"`, `0`, `[]`, `{}`, `[null]`, `{"a":null}`, `{"a":[null,{"b":null}]}`,
	}
	n := 25
	if o.tier == "thorough" {
		n = 400
	}
	keys := []string{`"a"`, `"b"`, `"0"`, `"1"`, `"a b"`, `"-"`, `""`, `"\u0061"`}
	var gen func(d int) string
	gen = func(d int) string {
		switch k := r.Intn(7); {
		case d > 0 && k < 2:
			var parts []string
			for j := r.Intn(4); j > 0; j-- {
				parts = append(parts, keys[r.Intn(len(keys))]+":"+gen(d-1))
			}
			return "{" + strings.Join(parts, ",") + "}"
		case d > 0 && k < 4:
			var parts []string
			for j := r.Intn(4); j > 0; j-- {
				parts = append(parts, gen(d-1))
			}
			return "[" + strings.Join(parts, ",") + "]"
		default:
			return genValue(r, 0)
		}
	}
	for i := 0; i < n; i++ {
		docs = append(docs, gen(4))
	}
	// destinations of Path.Unmarshal and Path.Get.  What is selected is a list of
	// values; when a selected value is null, or does not fit the destination, the
	// assignment panics today for every destination but *interface{}.
	typedDsts := []struct {
		name string
		mk   func() interface{}
	}{
		{"*[]interface{}", func() interface{} { var v []interface{}; return &v }},
		{"*string", func() interface{} { var v string; return &v }},
		{"*int", func() interface{} { var v int; return &v }},
		{"**int", func() interface{} { var v *int; return &v }},
		{"*map[string]interface{}", func() interface{} { var v map[string]interface{}; return &v }},
		{"*c06PathSrc", func() interface{} { return &c06PathSrc{} }},
		{"*[]c06PathSrc", func() interface{} { var v []c06PathSrc; return &v }},
		{"*[1]float64", func() interface{} { var v [1]float64; return &v }},
	}
	if !open {
		o.count("x_path_held_back_AUDIT_OPEN:typed destinations (PathAssignNull, PathAssignMismatch)", int64(len(typedDsts)))
	}
	one := func(b []byte, pi int, k int) {
		p := paths[pi]
		ex := map[string]string{"path": texts[pi]}
		c06Try(o, "path", "Path.Extract", b, ex, func() { p.Extract(b) })
		c06Try(o, "path", "Path.Unmarshal(*interface{})", b, ex, func() {
			var v interface{}
			p.Unmarshal(b, &v)
		})
		if open {
			d := typedDsts[k%len(typedDsts)]
			c06Try(o, "path", "Path.Unmarshal("+d.name+")", b, ex, func() { p.Unmarshal(b, d.mk()) })
		}
	}
	k := 0
	for _, doc := range docs {
		b := []byte(doc)
		var src interface{}
		parsed := stdjson.Unmarshal(b, &src) == nil
		for pi := range paths {
			k++
			one(b, pi, k)
			if parsed {
				c06Try(o, "path", "Path.Get(decoded document,*interface{})", b, map[string]string{"path": texts[pi]}, func() {
					var dst interface{}
					paths[pi].Get(src, &dst)
				})
				if open {
					d := typedDsts[k%len(typedDsts)]
					c06Try(o, "path", "Path.Get(decoded document,"+d.name+")", b, map[string]string{"path": texts[pi]}, func() { paths[pi].Get(src, d.mk()) })
				}
			}
			// cut and damaged
			if len(b) > 2 {
				at := k % len(b)
				one(b[:at], pi, k)
				m := append([]byte{}, b...)
				m[at] = alphabet27[k%len(alphabet27)]
				one(m, pi, k)
			}
		}
	}
	// sources that Unmarshal into interface{} does not produce
	seven := 7
	f := 1.5
	var nilIface interface{}
	plain := []interface{}{
		map[string]map[string][]int{"a": {"b": {1, 2}, "a": nil}, "b": nil}, map[string][]string{"a": {"x", "y"}, "0": {}}, map[string]*int{"a": &seven, "b": nil},
		[]map[string]interface{}{{"a": 1}, nil, {"b": []interface{}{1.5, "s", nil}}}, [][]int{{1, 2}, nil, {}}, [2][]string{{"a"}, nil}, &[]interface{}{1.0, "s"},
		[]*float64{&f, nil}, []interface{}{nil, 1.0, "s", []string{"a"}, map[string]string{"a": "b"}, &seven}, map[string]interface{}{"a": (*int)(nil), "b": (map[string]int)(nil), "0": ([]int)(nil), "1": &nilIface},
		map[int]string{0: "a", 1: "b"}, map[C02Key]int{"a": 1}, map[TgNamedStr][]int{"a": {1}}, TgNamedMap{"a": true}, TgNamedSlice{1, 2},
		nil, 1, 1.5, "s", true, []byte("ab"), stdjson.RawMessage(`{"a":1}`), stdjson.Number("1"), uint8(1), &seven, (*int)(nil), &nilIface, func() {}, make(chan int), complex(1, 2),
	}
	leaf := &c06PathSrc{A: 2, P: &seven, I: []int{1, 2}}
	withStruct := []interface{}{
		c06PathSrc{A: 1, B: leaf, L: []c06PathSrc{{A: 3}, {B: leaf}}, M: map[string]interface{}{"a": 1, "b": []interface{}{nil, map[string]interface{}{"a": nil}}}, I: leaf, Ar: [2]*c06PathSrc{nil, leaf}},
		&c06PathSrc{}, (*c06PathSrc)(nil), leaf, []*c06PathSrc{nil, leaf}, [2]c06PathSrc{}, map[string]*c06PathSrc{"a": nil, "b": leaf}, map[string]interface{}{"a": leaf, "b": c06PathSrc{}},
		struct{ a int }{1}, struct{}{}, TgEmbed{}, &TgRec{},
	}
	if !open {
		o.count("x_path_held_back_AUDIT_OPEN:struct sources (PathGetStructSource)", int64(len(withStruct)))
		o.count("x_path_held_back_AUDIT_OPEN:invalid destinations (PathGetInvalidDst)", 3)
	}
	get := func(kind string, si int, src interface{}) {
		for pi := range paths {
			ex := map[string]string{"path": texts[pi], "source": clipN(fmt.Sprintf("%s #%d %T %+v", kind, si, src, src), 300)}
			c06Try(o, "path", "Path.Get("+kind+" source,*interface{})", nil, ex, func() {
				var dst interface{}
				paths[pi].Get(src, &dst)
			})
			if open {
				for _, d := range typedDsts {
					c06Try(o, "path", "Path.Get("+kind+" source,"+d.name+")", nil, ex, func() { paths[pi].Get(src, d.mk()) })
				}
				c06Try(o, "path", "Path.Get("+kind+" source,nil)", nil, ex, func() { paths[pi].Get(src, nil) })
				c06Try(o, "path", "Path.Get("+kind+" source,not a pointer)", nil, ex, func() { paths[pi].Get(src, 1) })
				c06Try(o, "path", "Path.Get("+kind+" source,nil pointer)", nil, ex, func() { paths[pi].Get(src, (*interface{})(nil)) })
			}
		}
	}
	for si, src := range plain {
		get("struct-free", si, src)
	}
	if open {
		for si, src := range withStruct {
			get("struct", si, src)
		}
	}
}

// --- 6. the nesting limit where the destination does not follow the nesting: the depth is then
// counted by the skip functions (two copies: buffer and stream), by the RawMessage and
// interface{} members, and it must be counted per level, not per bracket met: twenty
// thousand siblings are not nesting.  Same judgement as for the kinds above: at the limit
// the verdicts are encoding/json's, well beyond it nothing succeeds.

func c06Nested2(kind string, depth int) []byte {
	wrap := func(pre string, inner []byte, post string) []byte {
		return append(append([]byte(pre), inner...), post...)
	}
	switch kind {
	case "array in skipped member": // total depth = depth
		return wrap(`{"zz":`, nested("array", depth-1), `,"a":1}`)
	case "object in skipped member":
		return wrap(`{"a":1,"zz":`, nested("object", depth-1), `}`)
	case "mixed in skipped member":
		return wrap(`{"zz":`, nested("mixed", depth-1), `}`)
	case "array in RawMessage member":
		return wrap(`{"h":`, nested("array", depth-1), `}`)
	case "object in interface member":
		return wrap(`{"f":`, nested("object", depth-1), `}`)
	case "array in slice of skipped":
		return wrap(`{"c":[],"d":{"k":{"zz":`, nested("array", depth-3), `}}}`)
	case "array behind strings with brackets": // brackets inside strings are not nesting
		return wrap(`{"zz":["[[[[","]]\\\"[[",`, nested("array", depth-2), `,"]"]}`)
	case "siblings": // depth 2 whatever the width
		return wrap(`[`, bytes.Repeat([]byte("[],{},"), depth), `[]]`)
	case "siblings in skipped member": // depth 3
		return wrap(`{"zz":[`, bytes.Repeat([]byte(`[],{"a":[]},`), depth), `0]}`)
	}
	return nil
}

// the verdicts that depend on the destination or on the mode (Indent and the paths, whose
// output is quadratic in the depth, are judged on the kinds above)
func c06DepthVerdictsLite(b []byte) (string, string) {
	var g, w strings.Builder
	v := func(sb *strings.Builder, err error) {
		if err == nil {
			sb.WriteByte('A')
		} else {
			sb.WriteByte('R')
		}
	}
	for _, mk := range []func() interface{}{func() interface{} { var x interface{}; return &x }, func() interface{} { return &c06S{} }, func() interface{} { return &c05Skip16{} },
		func() interface{} { return &c05SkipMap{} }, func() interface{} { var x map[string]stdjson.RawMessage; return &x }, func() interface{} { var x map[string]c05U; return &x }} {
		v(&g, safeCall(func() error { return gojson.Unmarshal(b, mk()) }))
		v(&w, stdjson.Unmarshal(b, mk()))
		v(&g, safeCall(func() error { return gojson.NewDecoder(&pieceReader{b: b, size: 4096, failAt: -1}).Decode(mk()) }))
		v(&w, stdjson.NewDecoder(bytes.NewReader(b)).Decode(mk()))
		v(&g, safeCall(func() error { return gojson.NewDecoder(&pieceReader{b: b, size: 1000, failAt: -1}).Decode(mk()) }))
		v(&w, stdjson.NewDecoder(bytes.NewReader(b)).Decode(mk()))
	}
	var o bytes.Buffer
	v(&g, safeCall(func() error { return gojson.Compact(&o, b) }))
	o.Reset()
	v(&w, stdjson.Compact(&o, b))
	if gojson.Valid(b) {
		g.WriteByte('A')
	} else {
		g.WriteByte('R')
	}
	if stdjson.Valid(b) {
		w.WriteByte('A')
	} else {
		w.WriteByte('R')
	}
	return g.String(), w.String()
}

func c06DepthExtra(o *Out) {
	for _, kind := range []string{"array in skipped member", "object in skipped member", "mixed in skipped member", "array in RawMessage member", "object in interface member",
		"array in slice of skipped", "array behind strings with brackets", "siblings", "siblings in skipped member"} {
		depths := []int{10000, 10001, 20001}
		if o.tier == "thorough" {
			depths = []int{9999, 10000, 10001, 10002, 20001}
		}
		for _, depth := range depths {
			b := c06Nested2(kind, depth)
			var got, want string
			c06Guarded(o, func() map[string]string {
				return map[string]string{"stratum": "depth", "kind": kind, "depth": fmt.Sprint(depth)}
			}, func() { got, want = c06DepthVerdictsLite(b) })
			o.count("x_depth_cases", 1)
			if got != want {
				o.violation("C06", "nesting-limit verdicts differ from encoding/json", map[string]string{"kind": kind, "depth": fmt.Sprint(depth), "got": got, "want": want,
					"order": "for interface{}, c06S, c05Skip16, c05SkipMap, map[string]RawMessage, map[string]Unmarshaler: Unmarshal, Decode(4096), Decode(1000); then Compact, Valid"})
			}
			if depth >= 10002 && !strings.HasPrefix(kind, "siblings") && strings.Contains(got[:len(want)], "A") {
				o.violation("C06", "an entry point accepted nesting beyond the limit", map[string]string{"kind": kind, "depth": fmt.Sprint(depth), "got": got})
			}
			o.hist("x_depth_verdicts", fmt.Sprintf("%s/%d %s", kind, depth, got))
		}
	}
}

// c06Extra runs the added strata and records how long each took
func c06Extra(o *Out) {
	for _, s := range []struct {
		name string
		run  func(*Out)
	}{
		{"typed (C02 type grammar x cut and mutated documents for the type)", c06TypedGrammar},
		{"window (tokens longer than the stream window)", c06Window},
		{"reader (scripted and failing readers, calls after the failure)", c06ReaderBehaviours},
		{"sequence (Decode/Token/More/Buffered in any order)", c06Sequences},
		{"path (well-formed paths x documents, Get on typed sources)", c06Paths},
		{"depth (the nesting limit in skipped, raw and interface members; siblings)", c06DepthExtra},
	} {
		t0 := time.Now()
		v0 := o.Stats["harness_violations"]
		s.run(o)
		o.Notes = append(o.Notes, fmt.Sprintf("audit stratum %s: %.1fs, %d violations", s.name, time.Since(t0).Seconds(), o.Stats["harness_violations"]-v0))
	}
	c06Current(o, map[string]string{"property": "C06", "stratum": "(the strata of audit A1 have finished)"})
}
