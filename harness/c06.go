package main

import (
	"bytes"
	stdjson "encoding/json"
	"errors"
	"fmt"
	"io"
	"os"
	"os/exec"
	"strconv"
	"strings"
	"time"

	gojson "github.com/goccy/go-json"
)

func init() {
	props["C06"] = runC06
	props["C06child"] = runC06Child
}

type c06S struct {
	A int               `json:"a"`
	B string            `json:"b"`
	C []int             `json:"c"`
	D map[string]c06S   `json:"d"`
	E *c06S             `json:"e"`
	F interface{}       `json:"f"`
	G [2]int            `json:"g"`
	H stdjson.RawMessage `json:"h"`
	I float64           `json:"i,string"`
}

// a reader that delivers pieces of the given size and fails at failAt
type pieceReader struct {
	b      []byte
	size   int
	failAt int
	pos    int
}

func (r *pieceReader) Read(p []byte) (int, error) {
	if r.failAt >= 0 && r.pos >= r.failAt {
		return 0, errors.New("injected reader failure")
	}
	if r.pos >= len(r.b) {
		return 0, io.EOF
	}
	n := r.size
	if n > len(p) {
		n = len(p)
	}
	if r.pos+n > len(r.b) {
		n = len(r.b) - r.pos
	}
	if r.failAt >= 0 && r.pos+n > r.failAt {
		n = r.failAt - r.pos
	}
	copy(p, r.b[r.pos:r.pos+n])
	r.pos += n
	return n, nil
}

// every decoding / utility entry point on one input; returns the names that panicked
var c06Entries = []struct {
	name string
	run  func(b []byte)
}{
	{"Unmarshal(iface)", func(b []byte) { var v interface{}; gojson.Unmarshal(b, &v) }},
	{"Unmarshal(struct)", func(b []byte) { var v c06S; gojson.Unmarshal(b, &v) }},
	{"Unmarshal(slice)", func(b []byte) { var v []c06S; gojson.Unmarshal(b, &v) }},
	{"Unmarshal(map)", func(b []byte) { var v map[string][]interface{}; gojson.Unmarshal(b, &v) }},
	{"UnmarshalNoEscape", func(b []byte) { var v c06S; gojson.UnmarshalNoEscape(b, &v) }},
	{"Decode(iface,3)", func(b []byte) {
		d := gojson.NewDecoder(&pieceReader{b: b, size: 3, failAt: -1})
		for i := 0; i < 4; i++ {
			var v interface{}
			if d.Decode(&v) != nil {
				break
			}
		}
	}},
	{"Decode(struct,1)", func(b []byte) {
		d := gojson.NewDecoder(&pieceReader{b: b, size: 1, failAt: -1})
		var v c06S
		d.Decode(&v)
		d.More()
		io.ReadAll(d.Buffered())
		d.InputOffset()
	}},
	{"Decode(failing reader)", func(b []byte) {
		d := gojson.NewDecoder(&pieceReader{b: b, size: 2, failAt: len(b) / 2})
		var v c06S
		d.Decode(&v)
	}},
	{"Token", func(b []byte) {
		d := gojson.NewDecoder(&pieceReader{b: b, size: 5, failAt: -1})
		for i := 0; i < 64; i++ {
			if _, err := d.Token(); err != nil {
				break
			}
			d.More()
		}
	}},
	{"Valid", func(b []byte) { gojson.Valid(b) }},
	{"Compact", func(b []byte) { var o bytes.Buffer; gojson.Compact(&o, b) }},
	{"Indent", func(b []byte) { var o bytes.Buffer; gojson.Indent(&o, b, ">", " ") }},
	{"HTMLEscape", func(b []byte) { var o bytes.Buffer; gojson.HTMLEscape(&o, b) }},
	{"CreatePath", func(b []byte) { gojson.CreatePath(string(b)) }},
	{"Path.Extract", func(b []byte) {
		for _, ps := range []string{"$.a", "$.d.x.c[1]", "$[0].a", "$[*]", "$..a", "$.e.e.f"} {
			p, _ := gojson.CreatePath(ps)
			p.Extract(b)
			var v interface{}
			p.Unmarshal(b, &v)
		}
	}},
	{"Path.Get", func(b []byte) {
		var src interface{}
		if stdjson.Unmarshal(b, &src) == nil {
			for _, ps := range []string{"$.a", "$[0]", "$[*].a", "$..a"} {
				p, _ := gojson.CreatePath(ps)
				var dst interface{}
				p.Get(src, &dst)
			}
		}
	}},
}

func c06Run(o *Out, b []byte) {
	for _, e := range c06Entries {
		err := safeCall(func() error { e.run(b); return nil })
		o.count("entry_calls", 1)
		if err != nil {
			o.violation("C06", "panic in "+e.name, map[string]string{"input": fmt.Sprintf("%q", b), "err": err.Error()})
		}
	}
}

func nested(kind string, depth int) []byte {
	switch kind {
	case "array":
		return append(bytes.Repeat([]byte("["), depth), bytes.Repeat([]byte("]"), depth)...)
	case "object":
		b := bytes.Repeat([]byte(`{"a":`), depth)
		b = append(b, '1')
		return append(b, bytes.Repeat([]byte("}"), depth)...)
	case "e-chain": // follows the recursive pointer field of c06S
		b := bytes.Repeat([]byte(`{"e":`), depth)
		b = append(b, []byte("null")...)
		return append(b, bytes.Repeat([]byte("}"), depth)...)
	case "open-array":
		return bytes.Repeat([]byte("["), depth)
	case "mixed":
		b := bytes.Repeat([]byte(`[{"a":`), depth/2)
		b = append(b, '0')
		return append(b, bytes.Repeat([]byte("}]"), depth/2)...)
	}
	return nil
}

// child mode: harness C06child quick <entry index> <dir>  with dir = "<kind>:<depth>"
func runC06Child(o *Out) {
	parts := strings.Split(o.dir[strings.LastIndex(o.dir, "/")+1:], ":")
	_ = parts
}

// verdict of the depth-sensitive entry points on a nested document
func c06DepthVerdicts(b []byte) string {
	var sb strings.Builder
	v := func(f func() error) {
		if safeCall(f) == nil {
			sb.WriteByte('A')
		} else {
			sb.WriteByte('R')
		}
	}
	v(func() error { var x interface{}; return gojson.Unmarshal(b, &x) })
	v(func() error { var x c06S; return gojson.Unmarshal(b, &x) }) // skips or follows e
	v(func() error { var x interface{}; return gojson.NewDecoder(&pieceReader{b: b, size: 4096, failAt: -1}).Decode(&x) })
	v(func() error { var x c06S; return gojson.NewDecoder(&pieceReader{b: b, size: 4096, failAt: -1}).Decode(&x) })
	v(func() error { var o bytes.Buffer; return gojson.Compact(&o, b) })
	v(func() error { var o bytes.Buffer; return gojson.Indent(&o, b, "", " ") })
	v(func() error {
		if !gojson.Valid(b) {
			return errors.New("invalid")
		}
		return nil
	})
	for _, ps := range []string{"$..a", "$[0][0]", "$.a.a", "$[*]"} {
		p, _ := gojson.CreatePath(ps)
		v(func() error { _, err := p.Extract(b); return err })
	}
	return sb.String()
}

func c06StdVerdicts(b []byte) string {
	var sb strings.Builder
	v := func(ok bool) {
		if ok {
			sb.WriteByte('A')
		} else {
			sb.WriteByte('R')
		}
	}
	var x interface{}
	var s c06S
	v(stdjson.Unmarshal(b, &x) == nil)
	v(stdjson.Unmarshal(b, &s) == nil)
	v(stdjson.Unmarshal(b, &x) == nil)
	v(stdjson.Unmarshal(b, &s) == nil)
	var o bytes.Buffer
	v(stdjson.Compact(&o, b) == nil)
	o.Reset()
	v(stdjson.Indent(&o, b, "", " ") == nil)
	v(stdjson.Valid(b))
	return sb.String()
}

func runC06(o *Out) {
	thorough := o.tier == "thorough"
	if len(os.Args) > 5 && os.Args[5] == "--child" {
		// child: one nested document through every entry point; a fatal error kills this process
		kind, depth := os.Args[6], 0
		depth, _ = strconv.Atoi(os.Args[7])
		b := nested(kind, depth)
		for _, e := range c06Entries {
			func() {
				defer func() { recover() }()
				e.run(b)
			}()
		}
		fmt.Println("child-ok")
		return
	}
	// 1. corpus, prefixes and single-byte mutations through every entry point
	for _, d := range corpusDocs {
		c06Run(o, []byte(d))
		for k := 0; k < len(d); k++ { // every truncation
			c06Run(o, []byte(d[:k]))
		}
	}
	byteSweep(func(b []byte) { c06Run(o, b) })
	ndocs := 120
	if thorough {
		ndocs = 2500
	}
	for i := 0; i < ndocs; i++ {
		d := genDoc(o.rng, 4)
		c06Run(o, []byte(d))
		for k := 0; k <= len(d); k++ { // every truncation
			c06Run(o, []byte(d[:k]))
		}
		k := 0
		mutations(d, alphabet27, 11, func(m string) {
			k++
			if k%2 == 0 {
				c06Run(o, []byte(m))
			}
		})
		w := `{"a":1,"b":"x","c":[1,2],"d":{"x":{"c":[3,4]}},"e":{"f":` + d + `},"g":[1,2,3],"h":` + d + `,"i":"1.5"}`
		c06Run(o, []byte(w))
		for k := 0; k < len(w); k += 3 {
			c06Run(o, []byte(w[:k]))
		}
	}
	// path strings
	enumStrings(pathAlphabet, 4, func(b []byte) {
		err := safeCall(func() error { gojson.CreatePath(string(b)); return nil })
		o.count("entry_calls", 1)
		if err != nil {
			o.violation("C06", "panic in CreatePath", map[string]string{"input": fmt.Sprintf("%q", b)})
		}
	})
	// 2. the nesting limit: at the limit everything agrees with encoding/json,
	// one level deeper every depth-sensitive entry point must return an error
	for _, kind := range []string{"array", "object", "e-chain", "mixed"} {
		for _, depth := range []int{9999, 10000, 10001, 10002, 20001} {
			b := nested(kind, depth)
			got := c06DepthVerdicts(b)
			want := c06StdVerdicts(b)
			o.count("depth_cases", 1)
			if got[:len(want)] != want {
				o.violation("C06", "nesting-limit verdicts differ from encoding/json", map[string]string{"kind": kind, "depth": fmt.Sprint(depth), "got": got, "want": want})
			}
			if depth >= 10002 && strings.Contains(got, "A") {
				// beyond the limit nothing may succeed, path evaluation included: a
				// missing depth check shows here long before the stack overflows
				o.violation("C06", "an entry point accepted nesting beyond the limit", map[string]string{"kind": kind, "depth": fmt.Sprint(depth), "got": got})
			}
			if depth > 10001 && kind != "e-chain" {
				// Path evaluation must refuse too (it never needs more than the limit)
				for i, c := range got[len(want):] {
					if c == 'A' && (kind == "array" || kind == "mixed") && i != 2 {
						o.hist("deep_path_accept", fmt.Sprintf("%s/%d/path%d", kind, depth, i))
					}
				}
			}
			o.hist("depth_verdicts", fmt.Sprintf("%s/%d %s", kind, depth, got))
		}
	}
	// 3. very deep nesting in child processes: a fatal stack overflow or a hang
	// is an exit status, not a Go error
	depths := []int{100000, 1000000}
	if thorough {
		depths = append(depths, 10000000)
	}
	self, _ := os.Executable()
	for _, kind := range []string{"array", "object", "open-array", "mixed"} {
		for _, depth := range depths {
			cmd := exec.Command(self, "C06", o.tier, "1", o.dir+"/child", "--child", kind, fmt.Sprint(depth))
			done := make(chan error, 1)
			var out bytes.Buffer
			cmd.Stdout = &out
			cmd.Stderr = &out
			cmd.Start()
			go func() { done <- cmd.Wait() }()
			var err error
			select {
			case err = <-done:
			case <-time.After(120 * time.Second):
				cmd.Process.Kill()
				err = errors.New("timeout (hang)")
			}
			o.count("child_runs", 1)
			if err != nil || !strings.Contains(out.String(), "child-ok") {
				tail := out.String()
				if len(tail) > 300 {
					tail = tail[:300]
				}
				o.violation("C06", "process died or hung on deep nesting", map[string]string{"kind": kind, "depth": fmt.Sprint(depth), "err": fmt.Sprint(err), "output": tail})
			}
		}
	}
}
