package main

// The pooled working array of the slice decoders (internal/decoder/slice.go, coq/Model/SlicePool.v): sequences
// of calls through one slice decoder, every destination fresh.  What a call stores must not depend on what an
// earlier call -- longer, shorter, failed between two elements -- left in the pool.
//
//   * []int through the Coq model (op c11.slice): the implementation's answers are the model's answers;
//   * a family of element types against encoding/json on fresh destinations: elements that a document leaves
//     partly or wholly untouched (null into scalars, objects naming some members, inner slices, maps, pointers).
//
// Shared by the checks of C02, C04, C07 and C11 (each reports under its own property).

import (
	"bytes"
	stdjson "encoding/json"
	"fmt"
	"reflect"
	"runtime/debug"
	"strings"

	gojson "github.com/goccy/go-json"
)

type spElem struct {
	A int               `json:"a,omitempty"`
	B string            `json:"b,omitempty"`
	P *int              `json:"p,omitempty"`
	M map[string]int    `json:"m,omitempty"`
	S []int             `json:"s,omitempty"`
	I interface{}       `json:"i,omitempty"`
	R [2]int8           `json:"r"`
	N stdjson.Number    `json:"n,omitempty"`
	F float32           `json:"f,omitempty"`
	U uint16            `json:"u,omitempty"`
	T bool              `json:"t,omitempty"`
	X map[string]string `json:"x,omitempty"`
}

type spFamily struct {
	name  string
	typ   reflect.Type
	full  []string // element texts that write the whole element
	light []string // element texts that leave (part of) the element as it is
}

var spFamilies = []spFamily{
	{"[]int", reflect.TypeOf([]int{}), []string{"11", "22", "33", "-44", "55", "66"}, []string{"null"}},
	{"[]uint8arr", reflect.TypeOf([]uint16{}), []string{"11", "22", "33", "44", "55"}, []string{"null"}},
	{"[]string", reflect.TypeOf([]string{}), []string{`"alice"`, `"bob"`, `"carol"`, `"dave"`, `"eve"`}, []string{"null"}},
	{"[]bool", reflect.TypeOf([]bool{}), []string{"true", "true", "true", "true"}, []string{"null", "false"}},
	{"[]float64", reflect.TypeOf([]float64{}), []string{"1.5", "2.5", "3.5", "4.5"}, []string{"null"}},
	{"[]struct", reflect.TypeOf([]spElem{}),
		[]string{`{"a":1,"b":"x","p":5,"m":{"k":1},"s":[1,2],"i":"v","r":[1,2],"n":7,"f":1.5,"u":9,"t":true,"x":{"q":"w"}}`,
			`{"a":2,"b":"y","p":6,"m":{"l":2},"s":[3],"i":[1],"r":[3,4],"n":8,"f":2.5,"u":8,"t":true,"x":{"r":"z"}}`,
			`{"a":3,"b":"z","p":7,"m":{"j":3},"s":[4,5,6],"i":{"o":1},"r":[5,6],"n":9,"f":3.5,"u":7,"t":true,"x":{"s":"y"}}`},
		[]string{`{}`, `{"a":9}`, `{"b":"only b"}`, `null`, `{"m":{"new":1}}`, `{"s":[7]}`, `{"r":[9]}`, `{"x":{}}`, `{"p":null}`}},
	{"[][]int", reflect.TypeOf([][]int{}), []string{"[1]", "[2,3]", "[4,5,6]", "[7,8,9,10]"}, []string{"null", "[]", "[9]"}},
	{"[]map", reflect.TypeOf([]map[string]int{}), []string{`{"x":1}`, `{"y":2}`, `{"z":3,"w":4}`}, []string{"null", `{}`, `{"n":0}`}},
	{"[]*int", reflect.TypeOf([]*int{}), []string{"1", "2", "3", "4"}, []string{"null"}},
	{"[][2]int", reflect.TypeOf([][2]int{}), []string{"[1,2]", "[3,4]", "[5,6]", "[7,8]"}, []string{"null", "[]", "[9]"}},
	{"[]interface", reflect.TypeOf([]interface{}{}), []string{`"s"`, `[1]`, `{"a":1}`, `4`}, []string{"null"}},
	{"[]byte-as-array", reflect.TypeOf([]byte{}), []string{"65", "66", "67", "68"}, []string{"null"}},
	{"[]*struct", reflect.TypeOf([]*spElem{}), []string{`{"a":1,"b":"x"}`, `{"a":2,"b":"y"}`, `{"a":3,"b":"z"}`}, []string{`{}`, `null`, `{"b":"q"}`}},
}

// how a document ends: closed, or broken between two elements (the error exits that put the array back)
var spEnds = []string{"]", "]", "]", " ", "", " x", " 1"}

func spDecode(lib string, stream bool, typ reflect.Type, doc string) (string, bool) {
	dst := reflect.New(typ)
	var err error
	err2 := safeCall(func() error {
		switch {
		case lib == "go" && !stream:
			err = gojson.Unmarshal([]byte(doc), dst.Interface())
		case lib == "go":
			err = gojson.NewDecoder(strings.NewReader(doc)).Decode(dst.Interface())
		case !stream:
			err = stdjson.Unmarshal([]byte(doc), dst.Interface())
		default:
			err = stdjson.NewDecoder(strings.NewReader(doc)).Decode(dst.Interface())
		}
		return nil
	})
	if err2 != nil {
		return "panic: " + err2.Error(), false
	}
	if err != nil {
		return "E", false
	}
	b, _ := stdjson.Marshal(dst.Elem().Interface())
	return string(b), true
}

func slicePoolProbe(o *Out, prop string) {
	// the pools are emptied by a garbage collection: none while a sequence runs
	old := debug.SetGCPercent(-1)
	defer debug.SetGCPercent(old)
	thorough := o.tier == "thorough"
	rounds := 120
	if thorough {
		rounds = 1500
	}
	for _, fam := range spFamilies {
		for r := 0; r < rounds; r++ {
			stream := o.rng.Intn(2) == 0
			k := 2 + o.rng.Intn(3)
			var docs []string
			for j := 0; j < k; j++ {
				n := 1 + o.rng.Intn(6)
				elems := make([]string, n)
				for i := range elems {
					if j == 0 || o.rng.Intn(3) == 0 {
						elems[i] = fam.full[o.rng.Intn(len(fam.full))]
					} else {
						elems[i] = fam.light[o.rng.Intn(len(fam.light))]
					}
				}
				end := "]"
				if j < k-1 {
					end = spEnds[o.rng.Intn(len(spEnds))]
				}
				docs = append(docs, "["+strings.Join(elems, ",")+end)
			}
			// deterministic corner first: a long full document, then as many light elements
			if r == 0 {
				f := make([]string, 5)
				l := make([]string, 5)
				for i := range f {
					f[i] = fam.full[i%len(fam.full)]
					l[i] = fam.light[i%len(fam.light)]
				}
				docs = []string{"[" + strings.Join(f, ",") + "]", "[" + strings.Join(l, ",") + "]"}
			}
			if r == 1 {
				f := make([]string, 4)
				l := make([]string, 4)
				for i := range f {
					f[i] = fam.full[i%len(fam.full)]
					l[i] = fam.light[(i+1)%len(fam.light)]
				}
				docs = []string{"[" + strings.Join(f, ",") + " ", "[" + strings.Join(l, ",") + "]"}
			}
			o.current(map[string]string{"property": prop, "what": "slice pool sequence", "type": fam.name, "docs": strings.Join(docs, " ; ")})
			for j, doc := range docs {
				got, _ := spDecode("go", stream, fam.typ, doc)
				want, _ := spDecode("std", stream, fam.typ, doc)
				o.count("slice_pool_calls", 1)
				if got != want {
					// a text both reject is reported with different words only
					o.violation(prop, "a slice decoded into a fresh destination differs from encoding/json after earlier calls through the same decoder",
						map[string]string{"type": fam.name, "stream": fmt.Sprint(stream), "sequence": strings.Join(docs[:j+1], " ; "), "got": got, "want": want})
					break
				}
				o.hist("slice_pool", fam.name)
			}
		}
	}
	// destinations that hold something and have room to spare: what a slice decoded EARLIER through the same decoder
	// holds is another object graph (it must stay as it is, and nothing of it may be reachable from the new result), and
	// the elements between the destination's length and its capacity are the destination's own (zero from make)
	for _, fam := range spFamilies {
		for r := 0; r < rounds/4+2; r++ {
			stream := o.rng.Intn(2) == 0
			mk := func(lib string, doc string, dst reflect.Value) (string, bool) {
				var err error
				perr := safeCall(func() error {
					switch {
					case lib == "go" && !stream:
						err = gojson.Unmarshal([]byte(doc), dst.Interface())
					case lib == "go":
						err = gojson.NewDecoder(strings.NewReader(doc)).Decode(dst.Interface())
					case !stream:
						err = stdjson.Unmarshal([]byte(doc), dst.Interface())
					default:
						err = stdjson.NewDecoder(strings.NewReader(doc)).Decode(dst.Interface())
					}
					return nil
				})
				if perr != nil {
					return "panic: " + perr.Error(), false
				}
				if err != nil {
					return "E", false
				}
				b, _ := stdjson.Marshal(dst.Elem().Interface())
				return string(b), true
			}
			elems := func(from []string, n int) string {
				e := make([]string, n)
				for i := range e {
					e[i] = from[o.rng.Intn(len(from))]
				}
				return "[" + strings.Join(e, ",") + "]"
			}
			// an earlier, longer result that the caller keeps
			docA := elems(fam.full, 4+o.rng.Intn(3))
			a := reflect.New(fam.typ)
			snapA, okA := mk("go", docA, a)
			if !okA {
				continue
			}
			// the destination: length l, capacity c, its first l elements decoded from full element texts
			l := o.rng.Intn(3)
			c := l + 1 + o.rng.Intn(4)
			docInit := elems(fam.full, l)
			docB := elems(append(append([]string{}, fam.light...), fam.full[0]), l+1+o.rng.Intn(c-l+1))
			build := func() reflect.Value {
				d := reflect.New(fam.typ)
				stdjson.Unmarshal([]byte(docInit), d.Interface())
				grown := reflect.MakeSlice(fam.typ, l, c)
				reflect.Copy(grown, d.Elem())
				d.Elem().Set(grown)
				return d
			}
			bGo, bStd := build(), build()
			o.current(map[string]string{"property": prop, "what": "slice pool, populated destination with spare capacity", "type": fam.name, "earlier": docA, "init": docInit, "len_cap": fmt.Sprintf("%d/%d", l, c), "doc": docB})
			got, _ := mk("go", docB, bGo)
			want, _ := mk("std", docB, bStd)
			o.count("slice_pool_populated_destinations", 1)
			det := map[string]string{"type": fam.name, "stream": fmt.Sprint(stream), "earlier_document": docA, "destination_before": docInit, "len_cap": fmt.Sprintf("%d/%d", l, c), "document": docB}
			if now, _ := stdjson.Marshal(a.Elem().Interface()); string(now) != snapA {
				det["earlier_result_was"], det["earlier_result_now"] = clip(snapA), clip(string(now))
				o.violation(prop, "decoding into one slice changed a slice decoded earlier through the same decoder (another object graph)", det)
				continue
			}
			if got != want {
				det["got"], det["want"] = clip(got), clip(want)
				o.violation(prop, "a slice decoded into a destination with elements and spare capacity differs from encoding/json", det)
			}
		}
	}
	// []int through the model
	n := 400
	if thorough {
		n = 4000
	}
	for r := 0; r < n; r++ {
		k := 2 + o.rng.Intn(3)
		var args [][]byte
		var obs bytes.Buffer
		for j := 0; j < k; j++ {
			m := 1 + o.rng.Intn(7)
			elems := make([]string, m)
			marg := make([]string, m)
			for i := range elems {
				if j > 0 && o.rng.Intn(2) == 0 {
					elems[i], marg[i] = "null", "n"
				} else {
					v := fmt.Sprint(1 + o.rng.Intn(99))
					elems[i], marg[i] = v, v
				}
			}
			closed := j == k-1 || o.rng.Intn(3) > 0
			doc := "[" + strings.Join(elems, ",")
			if closed {
				doc += "]"
				args = append(args, []byte(strings.Join(marg, ",")+"]"))
			} else {
				doc += " "
				args = append(args, []byte(strings.Join(marg, ",")+"!"))
			}
			var dst []int
			var err error
			if r%2 == 0 {
				err = gojson.Unmarshal([]byte(doc), &dst)
			} else {
				err = gojson.NewDecoder(strings.NewReader(doc)).Decode(&dst)
			}
			if err != nil {
				obs.WriteString("E;")
				continue
			}
			for _, x := range dst {
				fmt.Fprintf(&obs, "%d,", x)
			}
			obs.WriteByte(';')
		}
		o.emit("A", "c11.slice", args, obs.Bytes(), nil, false)
		o.count("slice_pool_model_cases", 1)
	}
}
