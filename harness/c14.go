package main

// C14: a value is processed by the program compiled for its own type.
// Thousands of compiled-in named and unnamed types (c14_types_gen.go) plus
// run-time types made with reflect are encoded and decoded in a shuffled order
// on cold caches and compared with encoding/json; the verif hook in the
// library reports every cache slot's first owner and the type each program
// was compiled for; the typelinks sample, the analysis result and the slot
// used for every type are compared with the translated model (c14.analyze,
// c14.slot); and the layout hypotheses of the theorems are checked on the
// running binary.  C14child is the same run inside the race build (which
// selects compiler_race.go / compile_race.go).

import (
	"bytes"
	"context"
	stdjson "encoding/json"
	"fmt"
	"math/rand"
	"os"
	"os/exec"
	"reflect"
	"sort"
	"strconv"
	"strings"
	"unsafe"

	gojson "github.com/goccy/go-json"
)

func init() {
	props["C14"] = runC14
	props["C14child"] = runC14
	props["C14spread"] = runC14Spread
}

// run-time types whose descriptors are spread over the heap (a filler allocation
// between two types moves the allocation frontier), so that address-dependent
// slot computations meet many different high address bits
var c14Keep [][]byte

func runC14Spread(o *Out) {
	r := o.rng
	n := 1500
	if o.tier == "thorough" {
		n = 12000
	}
	// warm some compiled-in types first so that their slots are owned
	for i := 0; i < len(c14Compiled); i += 2 {
		v := reflect.New(c14Compiled[i])
		gojson.Marshal(v.Interface())
		gojson.Unmarshal([]byte("{}"), v.Interface())
	}
	for i := 0; i < n; i++ {
		c14Keep = append(c14Keep, make([]byte, 8192+r.Intn(65536)))
		base := c14Compiled[r.Intn(len(c14Compiled))]
		t := reflect.StructOf([]reflect.StructField{
			{Name: "R", Type: base, Tag: reflect.StructTag(fmt.Sprintf(`json:"sr%d"`, i))},
			{Name: "N", Type: reflect.TypeOf(0), Tag: reflect.StructTag(fmt.Sprintf(`json:"sn%d"`, i))},
		})
		v := reflect.New(t)
		c14Fill(v.Elem(), r, 0)
		if cur, err := stdjson.Marshal(v.Interface()); err == nil {
			o.current(map[string]string{"property": "C14", "phase": "heap spread", "type": t.String(), "typeptr": fmt.Sprintf("%#x", c14Addr(t)), "value": clip(string(cur))})
		}
		o.hist("descriptor_address_mb", strconv.Itoa(int((c14Addr(t)&0xffffffff)>>20)))
		for variant := 0; variant < 2; variant++ {
			arg := v.Interface()
			if variant == 0 {
				arg = v.Elem().Interface()
			}
			a, errA := gojson.Marshal(arg)
			b, _ := stdjson.Marshal(arg)
			o.count("spread_encodings", 1)
			if errA != nil || !bytes.Equal(a, b) {
				o.violation("C14", "a run-time type is not encoded as its own type prescribes (differs from encoding/json)", map[string]string{
					"type": t.String(), "typeptr": fmt.Sprintf("%#x", c14Addr(t)), "got": clip(string(a)), "want": clip(string(b)), "err": fmt.Sprint(errA)})
			}
		}
		doc, _ := stdjson.Marshal(v.Interface())
		x, y := reflect.New(t), reflect.New(t)
		errX := gojson.Unmarshal(doc, x.Interface())
		stdjson.Unmarshal(doc, y.Interface())
		o.count("spread_decodings", 1)
		if errX != nil || !reflect.DeepEqual(x.Interface(), y.Interface()) {
			o.violation("C14", "a run-time type is not decoded as its own type prescribes (differs from encoding/json)", map[string]string{
				"type": t.String(), "typeptr": fmt.Sprintf("%#x", c14Addr(t)), "doc": clip(string(doc)), "err": fmt.Sprint(errX)})
		}
	}
	info := gojson.VerifCacheReport()
	for _, p := range append(info.EncProblems, info.DecProblems...) {
		o.violation("C14", "hook: "+p, nil)
	}
}

type c14Eface struct{ typ, data unsafe.Pointer }

func c14Addr(t reflect.Type) uintptr { return uintptr((*c14Eface)(unsafe.Pointer(&t)).data) }

func c14Fill(v reflect.Value, r *rand.Rand, depth int) {
	switch v.Kind() {
	case reflect.Bool:
		v.SetBool(r.Intn(2) == 0)
	case reflect.Int, reflect.Int8, reflect.Int16, reflect.Int32, reflect.Int64:
		v.SetInt(int64(r.Intn(100)))
	case reflect.Uint, reflect.Uint8, reflect.Uint16, reflect.Uint32, reflect.Uint64:
		v.SetUint(uint64(r.Intn(100)))
	case reflect.Float32, reflect.Float64:
		v.SetFloat(float64(r.Intn(64)) / 4)
	case reflect.String:
		v.SetString("s" + strconv.Itoa(r.Intn(1000)))
	case reflect.Slice:
		n := r.Intn(3)
		s := reflect.MakeSlice(v.Type(), n, n)
		for i := 0; i < n; i++ {
			c14Fill(s.Index(i), r, depth+1)
		}
		v.Set(s)
	case reflect.Array:
		for i := 0; i < v.Len(); i++ {
			c14Fill(v.Index(i), r, depth+1)
		}
	case reflect.Map:
		m := reflect.MakeMap(v.Type())
		for i := 0; i < 1+r.Intn(2); i++ {
			e := reflect.New(v.Type().Elem()).Elem()
			c14Fill(e, r, depth+1)
			m.SetMapIndex(reflect.ValueOf("k"+strconv.Itoa(i)).Convert(v.Type().Key()), e)
		}
		v.Set(m)
	case reflect.Ptr:
		if depth < 6 {
			n := reflect.New(v.Type().Elem())
			c14Fill(n.Elem(), r, depth+1)
			v.Set(n)
		}
	case reflect.Struct:
		for i := 0; i < v.NumField(); i++ {
			c14Fill(v.Field(i), r, depth+1)
		}
	}
}

func c14RuntimeTypes(r *rand.Rand, n int) []reflect.Type {
	var res []reflect.Type
	for i := 0; i < n; i++ {
		base := c14Compiled[r.Intn(len(c14Compiled))]
		switch r.Intn(6) {
		case 0:
			res = append(res, reflect.SliceOf(reflect.SliceOf(base)))
		case 1:
			res = append(res, reflect.MapOf(reflect.TypeOf(""), reflect.SliceOf(base)))
		case 2:
			res = append(res, reflect.ArrayOf(5+r.Intn(40), base))
		case 3:
			res = append(res, reflect.PtrTo(reflect.PtrTo(base)))
		default:
			other := c14Compiled[r.Intn(len(c14Compiled))]
			res = append(res, reflect.StructOf([]reflect.StructField{
				{Name: "R", Type: base, Tag: reflect.StructTag(fmt.Sprintf(`json:"r%d"`, i))},
				{Name: "S", Type: other, Tag: reflect.StructTag(fmt.Sprintf(`json:"s%d"`, i))},
				{Name: "N", Type: reflect.TypeOf(0), Tag: reflect.StructTag(fmt.Sprintf(`json:"n%d"`, i))},
			}))
		}
	}
	return res
}

func runC14(o *Out) {
	child := os.Args[1] == "C14child"
	r := o.rng
	nrt := 600
	if o.tier == "thorough" {
		nrt = 6000
	}
	types := append([]reflect.Type{}, c14Compiled...)
	types = append(types, c14RuntimeTypes(r, nrt)...)
	o.count("types_compiled_in", int64(len(c14Compiled)))
	o.count("types_created_at_run_time", int64(nrt))
	valueSeed := r.Int63()
	passes := 2
	for pass := 0; pass < passes; pass++ {
		order := r.Perm(len(types))
		for _, k := range order {
			t := types[k]
			vr := rand.New(rand.NewSource(valueSeed + int64(k)))
			v := reflect.New(t)
			c14Fill(v.Elem(), vr, 0)
			if cur, err := stdjson.Marshal(v.Interface()); err == nil {
				o.current(map[string]string{"property": "C14", "type": t.String(), "typeptr": fmt.Sprintf("%#x", c14Addr(t)), "pass": strconv.Itoa(pass), "value": clip(string(cur))})
			}
			for variant := 0; variant < 2; variant++ {
				var arg interface{}
				if variant == 0 {
					arg = v.Elem().Interface() // the type itself
				} else {
					arg = v.Interface() // pointer to it
				}
				var a []byte
				var errA error
				if os.Getenv("C14_TRACE") != "" {
					fmt.Fprintf(os.Stderr, "T %s v%d %#x\n", t.String(), variant, c14Addr(t))
				}
				func() {
					defer func() {
						if rec := recover(); rec != nil {
							errA = fmt.Errorf("panic: %v", rec)
						}
					}()
					a, errA = gojson.Marshal(arg)
				}()
				b, errB := stdjson.Marshal(arg)
				o.count("encodings", 1)
				if (errA != nil) != (errB != nil) || !bytes.Equal(a, b) {
					o.violation("C14", "a value is not encoded as its own type prescribes (differs from encoding/json)", map[string]string{
						"type": t.String(), "variant": strconv.Itoa(variant), "pass": strconv.Itoa(pass), "typeptr": fmt.Sprintf("%#x", c14Addr(t)),
						"got": clip(string(a)), "want": clip(string(b)), "err": fmt.Sprint(errA)})
				}
			}
			doc, _ := stdjson.Marshal(v.Interface())
			x, y := reflect.New(t), reflect.New(t)
			var errX error
			func() {
				defer func() {
					if rec := recover(); rec != nil {
						errX = fmt.Errorf("panic: %v", rec)
					}
				}()
				errX = gojson.Unmarshal(doc, x.Interface())
			}()
			errY := stdjson.Unmarshal(doc, y.Interface())
			o.count("decodings", 1)
			if (errX != nil) != (errY != nil) || (errX == nil && !reflect.DeepEqual(x.Interface(), y.Interface())) {
				o.violation("C14", "a document is not decoded as the destination's own type prescribes (differs from encoding/json)", map[string]string{
					"type": t.String(), "pass": strconv.Itoa(pass), "typeptr": fmt.Sprintf("%#x", c14Addr(t)), "doc": clip(string(doc)), "err": fmt.Sprint(errX)})
			}
		}
	}
	// field queries: the same query on many types that share JSON names, cold then warm
	queries := [][]string{{"a", "c"}, {"b"}, {"a", "b", "c", "d"}, {"d", "a"}}
	for pass := 0; pass < 2; pass++ {
		for _, k := range r.Perm(len(c14Query)) {
			t := c14Query[k]
			v := reflect.New(t)
			c14Fill(v.Elem(), rand.New(rand.NewSource(valueSeed+int64(k))), 0)
			for qi, names := range queries {
				var qs []gojson.FieldQueryString
				for _, n := range names {
					qs = append(qs, gojson.FieldQueryString(n))
				}
				q, err := gojson.BuildFieldQuery(qs...)
				if err != nil {
					o.violation("C14", "BuildFieldQuery failed", map[string]string{"err": err.Error()})
					continue
				}
				ctx := gojson.SetFieldQueryToContext(context.Background(), q)
				var a []byte
				var errA error
				func() {
					defer func() {
						if rec := recover(); rec != nil {
							errA = fmt.Errorf("panic: %v", rec)
						}
					}()
					a, errA = gojson.MarshalContext(ctx, v.Interface())
				}()
				// oracle: encoding/json on a struct holding only the selected fields, in declaration order
				var fs []reflect.StructField
				var idx []int
				for i := 0; i < t.NumField(); i++ {
					for _, n := range names {
						if t.Field(i).Tag.Get("json") == n {
							fs = append(fs, t.Field(i))
							idx = append(idx, i)
						}
					}
				}
				want := []byte("{}")
				if len(fs) > 0 {
					for i := range fs {
						fs[i].Offset = 0
						fs[i].Index = nil
					}
					w := reflect.New(reflect.StructOf(fs)).Elem()
					for i, j := range idx {
						w.Field(i).Set(v.Elem().Field(j))
					}
					want, _ = stdjson.Marshal(w.Interface())
				}
				o.count("field_query_encodings", 1)
				if errA != nil || !bytes.Equal(a, want) {
					o.violation("C14", "a value encoded with a field query is not encoded by its own type's filtered program", map[string]string{
						"type": t.String(), "query": strings.Join(names, ","), "pass": strconv.Itoa(pass), "q": strconv.Itoa(qi), "got": clip(string(a)), "want": clip(string(want)), "err": fmt.Sprint(errA)})
				}
			}
		}
	}
	info := gojson.VerifCacheReport()
	for _, p := range info.EncProblems {
		o.violation("C14", "hook: "+p, nil)
	}
	for _, p := range info.DecProblems {
		o.violation("C14", "hook: "+p, nil)
	}
	o.count("typelinks_sample", int64(len(info.Links)))
	o.count("enc_fast_slots", int64(len(info.EncSlots)))
	o.count("dec_fast_slots", int64(len(info.DecSlots)))
	o.hist("addr_shift", strconv.Itoa(int(info.Shift)))
	o.Notes = append(o.Notes, fmt.Sprintf("child=%v analysed=%v base=%#x max=%#x range=%d shift=%d sections=%d", child, info.Analysed, info.Base, info.Max, info.Range, info.Shift, info.Sections))

	// model correspondence: analysis result and slot of every type seen
	tag := "norace"
	if child {
		tag = "race"
	}
	if info.Sections == 1 {
		var sb strings.Builder
		for i, l := range info.Links {
			if i > 0 {
				sb.WriteByte('\n')
			}
			p := 0
			if l.IsPtr {
				p = 1
			}
			fmt.Fprintf(&sb, "%d %d %d", l.Addr, p, l.Elem)
		}
		res := "nil"
		if info.Analysed {
			res = fmt.Sprintf("%d %d %d %d", info.Base, info.Max, info.Range, info.Shift)
		}
		o.emit("A", "c14.analyze", [][]byte{[]byte(sb.String()), []byte(tag)}, []byte(res), nil, false)
	}
	taTxt := fmt.Sprintf("%d %d %d %d", info.Base, info.Max, info.Range, info.Shift)
	seen := map[uintptr]bool{}
	var addrs []uintptr
	addT := func(t reflect.Type) {
		a := c14Addr(t)
		if !seen[a] {
			seen[a] = true
			addrs = append(addrs, a)
		}
	}
	for _, t := range types {
		addT(t)
		addT(reflect.PtrTo(t))
	}
	for a := range info.EncSlots {
		if !seen[a] {
			seen[a] = true
			addrs = append(addrs, a)
		}
	}
	for a := range info.DecSlots {
		if !seen[a] {
			seen[a] = true
			addrs = append(addrs, a)
		}
	}
	sort.Slice(addrs, func(i, j int) bool { return addrs[i] < addrs[j] })
	slotTxt := func(m map[uintptr]uintptr, a uintptr) (string, string) {
		s, ok := m[a]
		if !ok {
			return "-", "0"
		}
		if s == ^uintptr(0) {
			return "slow", "1"
		}
		return strconv.FormatUint(uint64(s), 10), "1"
	}
	nslot := 0
	for _, a := range addrs {
		e, fe := slotTxt(info.EncSlots, a)
		d, fd := slotTxt(info.DecSlots, a)
		if fe == "0" && fd == "0" {
			continue
		}
		o.emit("A", "c14.slot", [][]byte{[]byte(taTxt), []byte(strconv.FormatUint(uint64(a), 10)), []byte(tag), []byte(fe + fd)},
			[]byte(e+" "+d), nil, false)
		nslot++
	}
	o.count("slot_cases", int64(nslot))

	// hypotheses of the theorems on this binary
	for i := 1; i < len(addrs); i++ {
		if addrs[i]-addrs[i-1] < 48 {
			o.violation("C14", "layout hypothesis fails: two type descriptors closer than 48 bytes", map[string]string{
				"a": fmt.Sprintf("%#x", addrs[i-1]), "b": fmt.Sprintf("%#x", addrs[i])})
		}
	}
	if info.Analysed {
		for _, a := range addrs {
			if a <= info.Max && a < info.Base {
				o.violation("C14", "layout hypothesis fails: a type descriptor lies below the lowest sampled one (decoder lookup has no lower bound)", map[string]string{
					"typeptr": fmt.Sprintf("%#x", a), "base": fmt.Sprintf("%#x", info.Base)})
			}
			if info.Shift == 6 && a >= info.Base && a <= info.Max && (a-info.Base)%64 != 0 {
				o.violation("C14", "layout hypothesis fails: shift 6 chosen but a descriptor is not congruent to base modulo 64", map[string]string{
					"typeptr": fmt.Sprintf("%#x", a), "base": fmt.Sprintf("%#x", info.Base)})
			}
		}
	}

	if !child {
		self, _ := os.Executable()
		sdir := o.dir + "/spread"
		cmd := exec.Command(self, "C14spread", o.tier, strconv.FormatInt(o.seed, 10), sdir)
		var sb bytes.Buffer
		cmd.Stderr, cmd.Stdout = &sb, &sb
		if err := cmd.Run(); err != nil {
			o.violation("C14", "heap-spread child crashed", map[string]string{"detail": err.Error(), "output": clip(sb.String())})
		}
		mergeChild(o, sdir)
		if bin := os.Getenv("VERIF_RACE_BIN"); bin != "" {
			cdir := o.dir + "/race"
			cmd := exec.Command(bin, "C14child", o.tier, strconv.FormatInt(o.seed, 10), cdir)
			var eb bytes.Buffer
			cmd.Stderr, cmd.Stdout = &eb, &eb
			err := cmd.Run()
			o.count("race_build_child_runs", 1)
			if err != nil {
				o.violation("C14", "race-build child failed", map[string]string{"detail": err.Error(), "output": clip(eb.String())})
			}
			mergeChild(o, cdir)
		} else {
			o.Notes = append(o.Notes, "VERIF_RACE_BIN not set: race build not exercised")
		}
	}
}
