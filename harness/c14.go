package main

// C14: a value is processed by the program compiled for its own type.
// Thousands of compiled-in named and unnamed types (c14_types_gen.go) plus
// run-time types made with reflect are encoded and decoded in a shuffled order
// on cold caches and compared with encoding/json; the verif hook in the
// library reports every cache slot's first owner and the type each program
// was compiled for; the typelinks sample, the analysis result and the slot
// used for every type are compared with the translated model (c14.analyze,
// c14.slot); and the layout hypotheses of the theorems are checked on the
// running binary.  C14child is the same run inside the race build (which
// selects compiler_race.go / compile_race.go).

import (
	"bytes"
	"context"
	stdjson "encoding/json"
	"fmt"
	"math/rand"
	"os"
	"os/exec"
	"path/filepath"
	"reflect"
	"regexp"
	"sort"
	"strconv"
	"strings"
	"sync"
	"unsafe"

	gojson "github.com/goccy/go-json"
)

func init() {
	props["C14"] = runC14
	props["C14child"] = runC14
	props["C14spread"] = runC14Spread
}

// run-time types whose descriptors are spread over the heap (a filler allocation
// between two types moves the allocation frontier), so that address-dependent
// slot computations meet many different high address bits
var c14Keep [][]byte

func runC14Spread(o *Out) {
	r := o.rng
	n := 1500
	if o.tier == "thorough" {
		n = 12000
	}
	// warm some compiled-in types first so that their slots are owned
	for i := 0; i < len(c14Compiled); i += 2 {
		v := reflect.New(c14Compiled[i])
		gojson.Marshal(v.Interface())
		gojson.Unmarshal([]byte("{}"), v.Interface())
	}
	for i := 0; i < n; i++ {
		c14Keep = append(c14Keep, make([]byte, 8192+r.Intn(65536)))
		base := c14Compiled[r.Intn(len(c14Compiled))]
		t := reflect.StructOf([]reflect.StructField{
			{Name: "R", Type: base, Tag: reflect.StructTag(fmt.Sprintf(`json:"sr%d"`, i))},
			{Name: "N", Type: reflect.TypeOf(0), Tag: reflect.StructTag(fmt.Sprintf(`json:"sn%d"`, i))},
		})
		v := reflect.New(t)
		c14Fill(v.Elem(), r, 0)
		if cur, err := stdjson.Marshal(v.Interface()); err == nil {
			c14Current(o, map[string]string{"property": "C14", "phase": "heap spread", "type": t.String(), "typeptr": fmt.Sprintf("%#x", c14Addr(t)), "value": clip(string(cur))})
		}
		o.hist("descriptor_address_mb", strconv.Itoa(int((c14Addr(t)&0xffffffff)>>20)))
		for variant := 0; variant < 2; variant++ {
			arg := v.Interface()
			if variant == 0 {
				arg = v.Elem().Interface()
			}
			a, errA := gojson.Marshal(arg)
			b, _ := stdjson.Marshal(arg)
			o.count("spread_encodings", 1)
			if errA != nil || !bytes.Equal(a, b) {
				o.violation("C14", "a run-time type is not encoded as its own type prescribes (differs from encoding/json)", map[string]string{
					"type": t.String(), "typeptr": fmt.Sprintf("%#x", c14Addr(t)), "got": clip(string(a)), "want": clip(string(b)), "err": fmt.Sprint(errA)})
			}
		}
		doc, _ := stdjson.Marshal(v.Interface())
		x, y := reflect.New(t), reflect.New(t)
		errX := gojson.Unmarshal(doc, x.Interface())
		stdjson.Unmarshal(doc, y.Interface())
		o.count("spread_decodings", 1)
		if errX != nil || !reflect.DeepEqual(x.Interface(), y.Interface()) {
			o.violation("C14", "a run-time type is not decoded as its own type prescribes (differs from encoding/json)", map[string]string{
				"type": t.String(), "typeptr": fmt.Sprintf("%#x", c14Addr(t)), "doc": clip(string(doc)), "err": fmt.Sprint(errX)})
		}
	}
	info := gojson.VerifCacheReport()
	for _, p := range append(info.EncProblems, info.DecProblems...) {
		o.violation("C14", "hook: "+p, nil)
	}
}

type c14Eface struct{ typ, data unsafe.Pointer }

func c14Addr(t reflect.Type) uintptr { return uintptr((*c14Eface)(unsafe.Pointer(&t)).data) }

func c14Fill(v reflect.Value, r *rand.Rand, depth int) {
	switch v.Kind() {
	case reflect.Bool:
		v.SetBool(r.Intn(2) == 0)
	case reflect.Int, reflect.Int8, reflect.Int16, reflect.Int32, reflect.Int64:
		v.SetInt(int64(r.Intn(100)))
	case reflect.Uint, reflect.Uint8, reflect.Uint16, reflect.Uint32, reflect.Uint64:
		v.SetUint(uint64(r.Intn(100)))
	case reflect.Float32, reflect.Float64:
		v.SetFloat(float64(r.Intn(64)) / 4)
	case reflect.String:
		v.SetString("s" + strconv.Itoa(r.Intn(1000)))
	case reflect.Slice:
		n := r.Intn(3)
		s := reflect.MakeSlice(v.Type(), n, n)
		for i := 0; i < n; i++ {
			c14Fill(s.Index(i), r, depth+1)
		}
		v.Set(s)
	case reflect.Array:
		for i := 0; i < v.Len(); i++ {
			c14Fill(v.Index(i), r, depth+1)
		}
	case reflect.Map:
		m := reflect.MakeMap(v.Type())
		for i := 0; i < 1+r.Intn(2); i++ {
			e := reflect.New(v.Type().Elem()).Elem()
			c14Fill(e, r, depth+1)
			m.SetMapIndex(reflect.ValueOf("k"+strconv.Itoa(i)).Convert(v.Type().Key()), e)
		}
		v.Set(m)
	case reflect.Ptr:
		if depth < 6 {
			n := reflect.New(v.Type().Elem())
			c14Fill(n.Elem(), r, depth+1)
			v.Set(n)
		}
	case reflect.Struct:
		for i := 0; i < v.NumField(); i++ {
			c14Fill(v.Field(i), r, depth+1)
		}
	}
}

func c14RuntimeTypes(r *rand.Rand, n int) []reflect.Type {
	var res []reflect.Type
	for i := 0; i < n; i++ {
		base := c14Compiled[r.Intn(len(c14Compiled))]
		switch r.Intn(6) {
		case 0:
			res = append(res, reflect.SliceOf(reflect.SliceOf(base)))
		case 1:
			res = append(res, reflect.MapOf(reflect.TypeOf(""), reflect.SliceOf(base)))
		case 2:
			res = append(res, reflect.ArrayOf(5+r.Intn(40), base))
		case 3:
			res = append(res, reflect.PtrTo(reflect.PtrTo(base)))
		default:
			other := c14Compiled[r.Intn(len(c14Compiled))]
			res = append(res, reflect.StructOf([]reflect.StructField{
				{Name: "R", Type: base, Tag: reflect.StructTag(fmt.Sprintf(`json:"r%d"`, i))},
				{Name: "S", Type: other, Tag: reflect.StructTag(fmt.Sprintf(`json:"s%d"`, i))},
				{Name: "N", Type: reflect.TypeOf(0), Tag: reflect.StructTag(fmt.Sprintf(`json:"n%d"`, i))},
			}))
		}
	}
	return res
}

func runC14(o *Out) {
	child := os.Args[1] == "C14child"
	r := o.rng
	nrt := 600
	if o.tier == "thorough" {
		nrt = 6000
	}
	types := append([]reflect.Type{}, c14Compiled...)
	types = append(types, c14RuntimeTypes(r, nrt)...)
	o.count("types_compiled_in", int64(len(c14Compiled)))
	o.count("types_created_at_run_time", int64(nrt))
	valueSeed := r.Int63()
	// generator audit: a generator of its own, so that the cases above and below stay what they were
	auditRng := rand.New(rand.NewSource(o.seed ^ 0x5a5a14))
	// a fifth of the types is used for the first time through the other entry points and behind interfaces, a
	// tenth by eight goroutines at once; the passes below then meet them warm
	auditOrder := auditRng.Perm(len(types))
	c14ColdEntryPoints(o, types, auditOrder[:len(types)/5], valueSeed, auditRng)
	c14Concurrent(o, types, auditOrder[len(types)/5:len(types)/5+len(types)/10], valueSeed, auditRng)
	passes := 2
	for pass := 0; pass < passes; pass++ {
		order := r.Perm(len(types))
		for _, k := range order {
			t := types[k]
			vr := rand.New(rand.NewSource(valueSeed + int64(k)))
			v := reflect.New(t)
			c14Fill(v.Elem(), vr, 0)
			if cur, err := stdjson.Marshal(v.Interface()); err == nil {
				c14Current(o, map[string]string{"property": "C14", "type": t.String(), "typeptr": fmt.Sprintf("%#x", c14Addr(t)), "pass": strconv.Itoa(pass), "value": clip(string(cur))})
			}
			for variant := 0; variant < 2; variant++ {
				var arg interface{}
				if variant == 0 {
					arg = v.Elem().Interface() // the type itself
				} else {
					arg = v.Interface() // pointer to it
				}
				var a []byte
				var errA error
				if os.Getenv("C14_TRACE") != "" {
					fmt.Fprintf(os.Stderr, "T %s v%d %#x\n", t.String(), variant, c14Addr(t))
				}
				func() {
					defer func() {
						if rec := recover(); rec != nil {
							errA = fmt.Errorf("panic: %v", rec)
						}
					}()
					a, errA = gojson.Marshal(arg)
				}()
				b, errB := stdjson.Marshal(arg)
				o.count("encodings", 1)
				if (errA != nil) != (errB != nil) || !bytes.Equal(a, b) {
					o.violation("C14", "a value is not encoded as its own type prescribes (differs from encoding/json)", map[string]string{
						"type": t.String(), "variant": strconv.Itoa(variant), "pass": strconv.Itoa(pass), "typeptr": fmt.Sprintf("%#x", c14Addr(t)),
						"got": clip(string(a)), "want": clip(string(b)), "err": fmt.Sprint(errA)})
				}
			}
			doc, _ := stdjson.Marshal(v.Interface())
			x, y := reflect.New(t), reflect.New(t)
			var errX error
			func() {
				defer func() {
					if rec := recover(); rec != nil {
						errX = fmt.Errorf("panic: %v", rec)
					}
				}()
				errX = gojson.Unmarshal(doc, x.Interface())
			}()
			errY := stdjson.Unmarshal(doc, y.Interface())
			o.count("decodings", 1)
			if (errX != nil) != (errY != nil) || (errX == nil && !reflect.DeepEqual(x.Interface(), y.Interface())) {
				o.violation("C14", "a document is not decoded as the destination's own type prescribes (differs from encoding/json)", map[string]string{
					"type": t.String(), "pass": strconv.Itoa(pass), "typeptr": fmt.Sprintf("%#x", c14Addr(t)), "doc": clip(string(doc)), "err": fmt.Sprint(errX)})
			}
		}
	}
	// field queries: the same query on many types that share JSON names, cold then warm
	queries := [][]string{{"a", "c"}, {"b"}, {"a", "b", "c", "d"}, {"d", "a"}}
	for pass := 0; pass < 2; pass++ {
		for _, k := range r.Perm(len(c14Query)) {
			t := c14Query[k]
			v := reflect.New(t)
			c14Fill(v.Elem(), rand.New(rand.NewSource(valueSeed+int64(k))), 0)
			for qi, names := range queries {
				var qs []gojson.FieldQueryString
				for _, n := range names {
					qs = append(qs, gojson.FieldQueryString(n))
				}
				q, err := gojson.BuildFieldQuery(qs...)
				if err != nil {
					o.violation("C14", "BuildFieldQuery failed", map[string]string{"err": err.Error()})
					continue
				}
				ctx := gojson.SetFieldQueryToContext(context.Background(), q)
				var a []byte
				var errA error
				func() {
					defer func() {
						if rec := recover(); rec != nil {
							errA = fmt.Errorf("panic: %v", rec)
						}
					}()
					a, errA = gojson.MarshalContext(ctx, v.Interface())
				}()
				// oracle: encoding/json on a struct holding only the selected fields, in declaration order
				var fs []reflect.StructField
				var idx []int
				for i := 0; i < t.NumField(); i++ {
					for _, n := range names {
						if t.Field(i).Tag.Get("json") == n {
							fs = append(fs, t.Field(i))
							idx = append(idx, i)
						}
					}
				}
				want := []byte("{}")
				if len(fs) > 0 {
					for i := range fs {
						fs[i].Offset = 0
						fs[i].Index = nil
					}
					w := reflect.New(reflect.StructOf(fs)).Elem()
					for i, j := range idx {
						w.Field(i).Set(v.Elem().Field(j))
					}
					want, _ = stdjson.Marshal(w.Interface())
				}
				o.count("field_query_encodings", 1)
				if errA != nil || !bytes.Equal(a, want) {
					o.violation("C14", "a value encoded with a field query is not encoded by its own type's filtered program", map[string]string{
						"type": t.String(), "query": strings.Join(names, ","), "pass": strconv.Itoa(pass), "q": strconv.Itoa(qi), "got": clip(string(a)), "want": clip(string(want)), "err": fmt.Sprint(errA)})
				}
			}
		}
	}
	// generator audit: every type the linker listed, the ends of the window among them
	c14TypelinksSweep(o, auditRng)
	info := gojson.VerifCacheReport()
	for _, p := range info.EncProblems {
		o.violation("C14", "hook: "+p, nil)
	}
	for _, p := range info.DecProblems {
		o.violation("C14", "hook: "+p, nil)
	}
	o.count("typelinks_sample", int64(len(info.Links)))
	o.count("enc_fast_slots", int64(len(info.EncSlots)))
	o.count("dec_fast_slots", int64(len(info.DecSlots)))
	o.hist("addr_shift", strconv.Itoa(int(info.Shift)))
	o.Notes = append(o.Notes, fmt.Sprintf("child=%v analysed=%v base=%#x max=%#x range=%d shift=%d sections=%d", child, info.Analysed, info.Base, info.Max, info.Range, info.Shift, info.Sections))

	// model correspondence: analysis result and slot of every type seen
	tag := "norace"
	if child {
		tag = "race"
	}
	if info.Sections == 1 {
		var sb strings.Builder
		for i, l := range info.Links {
			if i > 0 {
				sb.WriteByte('\n')
			}
			p := 0
			if l.IsPtr {
				p = 1
			}
			fmt.Fprintf(&sb, "%d %d %d", l.Addr, p, l.Elem)
		}
		res := "nil"
		if info.Analysed {
			res = fmt.Sprintf("%d %d %d %d", info.Base, info.Max, info.Range, info.Shift)
		}
		o.emit("A", "c14.analyze", [][]byte{[]byte(sb.String()), []byte(tag)}, []byte(res), nil, false)
	}
	taTxt := fmt.Sprintf("%d %d %d %d", info.Base, info.Max, info.Range, info.Shift)
	seen := map[uintptr]bool{}
	var addrs []uintptr
	addT := func(t reflect.Type) {
		a := c14Addr(t)
		if !seen[a] {
			seen[a] = true
			addrs = append(addrs, a)
		}
	}
	for _, t := range types {
		addT(t)
		addT(reflect.PtrTo(t))
	}
	for a := range info.EncSlots {
		if !seen[a] {
			seen[a] = true
			addrs = append(addrs, a)
		}
	}
	for a := range info.DecSlots {
		if !seen[a] {
			seen[a] = true
			addrs = append(addrs, a)
		}
	}
	sort.Slice(addrs, func(i, j int) bool { return addrs[i] < addrs[j] })
	slotTxt := func(m map[uintptr]uintptr, a uintptr) (string, string) {
		s, ok := m[a]
		if !ok {
			return "-", "0"
		}
		if s == ^uintptr(0) {
			return "slow", "1"
		}
		return strconv.FormatUint(uint64(s), 10), "1"
	}
	nslot := 0
	for _, a := range addrs {
		e, fe := slotTxt(info.EncSlots, a)
		d, fd := slotTxt(info.DecSlots, a)
		if fe == "0" && fd == "0" {
			continue
		}
		o.emit("A", "c14.slot", [][]byte{[]byte(taTxt), []byte(strconv.FormatUint(uint64(a), 10)), []byte(tag), []byte(fe + fd)},
			[]byte(e+" "+d), nil, false)
		nslot++
	}
	o.count("slot_cases", int64(nslot))

	// hypotheses of the theorems on this binary
	for i := 1; i < len(addrs); i++ {
		if addrs[i]-addrs[i-1] < 48 {
			o.violation("C14", "layout hypothesis fails: two type descriptors closer than 48 bytes", map[string]string{
				"a": fmt.Sprintf("%#x", addrs[i-1]), "b": fmt.Sprintf("%#x", addrs[i])})
		}
	}
	if info.Analysed {
		for _, a := range addrs {
			if a <= info.Max && a < info.Base {
				o.violation("C14", "layout hypothesis fails: a type descriptor lies below the lowest sampled one (decoder lookup has no lower bound)", map[string]string{
					"typeptr": fmt.Sprintf("%#x", a), "base": fmt.Sprintf("%#x", info.Base)})
			}
			if info.Shift == 6 && a >= info.Base && a <= info.Max && (a-info.Base)%64 != 0 {
				o.violation("C14", "layout hypothesis fails: shift 6 chosen but a descriptor is not congruent to base modulo 64", map[string]string{
					"typeptr": fmt.Sprintf("%#x", a), "base": fmt.Sprintf("%#x", info.Base)})
			}
		}
	}

	if !child {
		self, _ := os.Executable()
		sdir := o.dir + "/spread"
		cmd := exec.Command(self, "C14spread", o.tier, strconv.FormatInt(o.seed, 10), sdir)
		var sb bytes.Buffer
		cmd.Stderr, cmd.Stdout = &sb, &sb
		if err := cmd.Run(); err != nil {
			o.violation("C14", "heap-spread child crashed", map[string]string{"detail": err.Error(), "output": clip(sb.String())})
		}
		mergeChild(o, sdir)
		if bin := os.Getenv("VERIF_RACE_BIN"); bin != "" {
			cdir := o.dir + "/race"
			cmd := exec.Command(bin, "C14child", o.tier, strconv.FormatInt(o.seed, 10), cdir)
			var eb bytes.Buffer
			cmd.Stderr, cmd.Stdout = &eb, &eb
			err := cmd.Run()
			o.count("race_build_child_runs", 1)
			if err != nil {
				o.violation("C14", "race-build child failed", map[string]string{"detail": err.Error(), "output": clip(eb.String())})
			}
			mergeChild(o, cdir)
		} else {
			o.Notes = append(o.Notes, "VERIF_RACE_BIN not set: race build not exercised")
		}
	}
}

// ---------------------------------------------------------------------------
// Added by the generator audit (wave 6).

// the type whose descriptor is at addr (a descriptor of this binary: from the typelinks sample)
func c14TypeAt(addr uintptr) reflect.Type {
	var i interface{}
	(*c14Eface)(unsafe.Pointer(&i)).typ = *(*unsafe.Pointer)(unsafe.Pointer(&addr))
	return reflect.TypeOf(i)
}

var c14MethodNames = []string{"MarshalJSON", "UnmarshalJSON", "MarshalText", "UnmarshalText"}

// The types of the binary as a graph (element, key and field types), to sort them for the sweep below:
//
//	class 2  plain data: booleans, integers, floats, strings, interfaces (nil in a zero value), and pointers, slices,
//	         small arrays, maps with string or integer keys and structs of these; nothing with a Marshal/Unmarshal
//	         method inside: the zero value, and the document encoding/json prints for it, are compared with encoding/json
//	class 1  everything else that can be handed to the library (func, chan, complex, unsafe.Pointer inside, methods of
//	         the JSON interfaces, big arrays and structs, a struct or [1] array stored as a single pointer, which is
//	         the recorded family PointerShapedAggregate of C01): the cache lookup is exercised, the result is not judged
//	class 0  reaches a named map, slice, array or pointer type that contains itself without a struct in between
//	         (recorded finding RecursiveNonStructType of C08: compiling it does not terminate): never handed over
type c14Edge struct {
	to   int
	live bool // false: through a struct field both libraries ignore (unexported, not embedded)
}

type c14Graph struct {
	nodes []reflect.Type
	id    map[reflect.Type]int
	out   [][]c14Edge
	class []int
}

func (g *c14Graph) add(t reflect.Type) int {
	if i, ok := g.id[t]; ok {
		return i
	}
	i := len(g.nodes)
	g.id[t] = i
	g.nodes = append(g.nodes, t)
	g.out = append(g.out, nil)
	var out []c14Edge
	switch t.Kind() {
	case reflect.Ptr, reflect.Slice, reflect.Array:
		out = append(out, c14Edge{g.add(t.Elem()), true})
	case reflect.Map:
		out = append(out, c14Edge{g.add(t.Key()), true}, c14Edge{g.add(t.Elem()), true})
	case reflect.Struct:
		for f := 0; f < t.NumField(); f++ {
			sf := t.Field(f)
			out = append(out, c14Edge{g.add(sf.Type), sf.PkgPath == "" || sf.Anonymous})
		}
	}
	g.out[i] = out
	return i
}

func c14PointerShaped(t reflect.Type) bool {
	switch t.Kind() {
	case reflect.Ptr, reflect.Map, reflect.Chan, reflect.Func, reflect.UnsafePointer:
		return true
	case reflect.Struct:
		return t.NumField() == 1 && c14PointerShaped(t.Field(0).Type)
	case reflect.Array:
		return t.Len() == 1 && c14PointerShaped(t.Elem())
	}
	return false
}

func (g *c14Graph) classify() {
	n := len(g.nodes)
	g.class = make([]int, n)
	rev := make([][]c14Edge, n)
	for i, es := range g.out {
		for _, e := range es {
			rev[e.to] = append(rev[e.to], c14Edge{i, e.live})
		}
	}
	var bad0, bad1 []int
	for i, t := range g.nodes {
		g.class[i] = 2
		k := t.Kind()
		// a named non-struct type that reaches itself through non-struct types only
		if t.Name() != "" && (k == reflect.Ptr || k == reflect.Slice || k == reflect.Array || k == reflect.Map) {
			seen := map[int]bool{}
			stack := []int{i}
			for len(stack) > 0 && g.class[i] != 0 {
				c := stack[len(stack)-1]
				stack = stack[:len(stack)-1]
				for _, e := range g.out[c] {
					if e.to == i {
						g.class[i] = 0
						bad0 = append(bad0, i)
						break
					}
					if !seen[e.to] && g.nodes[e.to].Kind() != reflect.Struct {
						seen[e.to] = true
						stack = append(stack, e.to)
					}
				}
			}
			if g.class[i] == 0 {
				continue
			}
		}
		local := false
		for _, m := range c14MethodNames {
			if _, ok := t.MethodByName(m); ok {
				local = true
			}
			if t.Name() != "" && k != reflect.Ptr && k != reflect.Interface {
				if _, ok := reflect.PtrTo(t).MethodByName(m); ok {
					local = true
				}
			}
		}
		switch k {
		case reflect.Func, reflect.Chan, reflect.Complex64, reflect.Complex128, reflect.UnsafePointer:
			local = true
		case reflect.Array:
			local = local || t.Len() > 32 || t.Size() > 1024
		case reflect.Struct:
			local = local || t.Size() > 4096
		case reflect.Map:
			switch t.Key().Kind() {
			case reflect.String, reflect.Int, reflect.Int8, reflect.Int16, reflect.Int32, reflect.Int64,
				reflect.Uint, reflect.Uint8, reflect.Uint16, reflect.Uint32, reflect.Uint64:
			default:
				local = true
			}
		}
		// a struct or [1] array stored as a single pointer: recorded findings PointerShapedAggregate / PointerShapedArray (C01)
		if (k == reflect.Struct || k == reflect.Array) && c14PointerShaped(t) {
			local = true
		}
		if local {
			bad1 = append(bad1, i)
		}
	}
	spread := func(start []int, class int, liveOnly bool) {
		stack := append([]int{}, start...)
		for _, i := range start {
			if g.class[i] > class {
				g.class[i] = class
			}
		}
		seen := map[int]bool{}
		for len(stack) > 0 {
			c := stack[len(stack)-1]
			stack = stack[:len(stack)-1]
			for _, e := range rev[c] {
				if (liveOnly && !e.live) || seen[e.to] {
					continue
				}
				seen[e.to] = true
				if g.class[e.to] > class {
					g.class[e.to] = class
				}
				stack = append(stack, e.to)
			}
		}
	}
	spread(bad1, 1, true)
	spread(bad0, 0, false)
}

// o.current without opening the file every time (the sweep names thousands of types, one before each call)
var (
	c14CurFile *os.File
	c14CurLen  int
)

func c14Current(o *Out, detail map[string]string) {
	if c14CurFile == nil {
		f, err := os.OpenFile(filepath.Join(o.dir, "current.json"), os.O_RDWR|os.O_CREATE|os.O_TRUNC, 0o644)
		if err != nil {
			o.current(detail)
			return
		}
		c14CurFile = f
	}
	b, _ := stdjson.Marshal(detail)
	// padded to a fixed length with spaces (still JSON), so that one write replaces the previous text
	for len(b) < 512 {
		b = append(b, ' ')
	}
	c14CurFile.WriteAt(b, 0)
	if len(b) != c14CurLen {
		c14CurFile.Truncate(int64(len(b)))
		c14CurLen = len(b)
	}
}

func c14Recover(f func() error) (err error) {
	defer func() {
		if rec := recover(); rec != nil {
			err = fmt.Errorf("panic: %v", rec)
		}
	}()
	return f()
}

// Every type the linker listed (the sample AnalyzeTypeAddr draws the window from) and the element types of the
// listed pointer types: among them the types with the lowest and the highest descriptor address, i.e. the first and
// the last slot of both caches, which none of the generated types can be, and thousands of neighbours that collide
// if the inferred shift is too big.  The hook reports a slot used by two types or a program of another type.
func c14TypelinksSweep(o *Out, r *rand.Rand) {
	info := gojson.VerifCacheReport()
	if info.Sections != 1 || len(info.Links) == 0 {
		o.Notes = append(o.Notes, "typelinks sweep: no single typelinks section")
		return
	}
	g := &c14Graph{id: map[reflect.Type]int{}}
	seen := map[uintptr]bool{}
	var addrs []uintptr
	for _, l := range info.Links {
		for _, a := range []uintptr{l.Addr, l.Elem} {
			if a != 0 && !seen[a] {
				seen[a] = true
				addrs = append(addrs, a)
				g.add(c14TypeAt(a))
			}
		}
	}
	g.classify()
	sort.Slice(addrs, func(i, j int) bool { return addrs[i] < addrs[j] })
	lo, hi := addrs[0], addrs[len(addrs)-1]
	o.Notes = append(o.Notes, fmt.Sprintf("typelinks sweep: lowest descriptor %#x %s, highest %#x %s", lo, c14TypeAt(lo).String(), hi, c14TypeAt(hi).String()))
	o.count("sweep_types_in_graph", int64(len(g.nodes)))
	for _, k := range r.Perm(len(addrs)) {
		a := addrs[k]
		t := c14TypeAt(a)
		class := g.class[g.id[t]]
		where := ""
		switch {
		case a == lo:
			where = "lowest descriptor address (first slot)"
		case a == hi:
			where = "highest descriptor address (last slot)"
		case k < 4 || k >= len(addrs)-4:
			where = "next to the ends of the window"
		}
		if class == 0 || t.Kind() == reflect.Interface || t.Size() > 1<<14 {
			o.hist("sweep_type_class", "not handed to the library (self-containing non-struct type, interface type or very big)")
			if where != "" {
				o.hist("sweep_window_ends", where+": not handed to the library")
			}
			continue
		}
		o.hist("sweep_type_class", []string{"", "cache lookup only", "compared with encoding/json"}[class])
		if where != "" {
			o.hist("sweep_window_ends", where+": "+[]string{"", "cache lookup only", "compared with encoding/json"}[class])
		}
		c14Current(o, map[string]string{"property": "C14", "phase": "sweep over the types the linker listed", "type": t.String(), "typeptr": fmt.Sprintf("%#x", a)})
		det := func(m map[string]string) map[string]string {
			m["type"], m["typeptr"], m["where"] = t.String(), fmt.Sprintf("%#x", a), where
			return m
		}
		unjudged := func(what string, err error) {
			if err == nil || !strings.HasPrefix(err.Error(), "panic:") {
				return
			}
			if strings.Contains(err.Error(), "index out of range") {
				o.violation("C14", "cache lookup for a type of the binary panicked ("+what+")", det(map[string]string{"err": err.Error()}))
				return
			}
			o.count("sweep_panics_not_judged", 1)
			o.Notes = appendNote(o.Notes, fmt.Sprintf("typelinks sweep, %s of %s (not plain data, not judged): %v", what, t.String(), err))
		}
		var z interface{}
		var x reflect.Value
		if c14Recover(func() error {
			z = reflect.Zero(t).Interface()
			if t.Kind() == reflect.Ptr {
				x = reflect.New(t.Elem())
			}
			return nil
		}) != nil {
			o.count("sweep_types_reflect_cannot_allocate", 1)
			continue
		}
		var gb []byte
		gerr := c14Recover(func() error { var e error; gb, e = gojson.Marshal(z); return e })
		o.count("sweep_encodings", 1)
		if class == 2 {
			wb, werr := stdjson.Marshal(z)
			if (gerr != nil) != (werr != nil) || (gerr == nil && !bytes.Equal(gb, wb)) {
				if c14EmbedsPtrToRecursive(t) {
					// C01's recorded finding (a struct that embeds a pointer to a struct type containing itself): compiling it panics
					o.known("EmbeddedPtrToRecursiveStruct", t.String())
					continue
				}
				o.violation("C14", "the zero value of a type of the binary is not encoded as its own type prescribes (differs from encoding/json)",
					det(map[string]string{"got": clip(string(gb)), "want": clip(string(wb)), "err": fmt.Sprint(gerr), "werr": fmt.Sprint(werr)}))
			}
		} else {
			unjudged("Marshal", gerr)
		}
		if t.Kind() != reflect.Ptr {
			continue
		}
		// the decoder's cache is indexed by the pointer type handed to Unmarshal
		doc := []byte("null")
		if class == 2 {
			if b, err := stdjson.Marshal(reflect.Zero(t.Elem()).Interface()); err == nil {
				doc = b
			}
		}
		xerr := c14Recover(func() error { return gojson.Unmarshal(doc, x.Interface()) })
		o.count("sweep_decodings", 1)
		if class == 2 {
			y := reflect.New(t.Elem())
			yerr := stdjson.Unmarshal(doc, y.Interface())
			if (xerr != nil) != (yerr != nil) || (xerr == nil && !reflect.DeepEqual(x.Interface(), y.Interface())) {
				o.violation("C14", "a document is not decoded as the destination's own type prescribes (a type of the binary; differs from encoding/json)",
					det(map[string]string{"doc": clip(string(doc)), "err": fmt.Sprint(xerr), "werr": fmt.Sprint(yerr)}))
			}
		} else {
			unjudged("Unmarshal", xerr)
		}
	}
}

var c14Ansi = regexp.MustCompile("\x1b\\[[0-9;]*m")

type c14Holder struct {
	I interface{}
}

// First use of a type through the other ways into the two caches: the other entry points (indent, no-escape,
// context, Encoder, Decoder, colour) and, inside a running program, a value met behind an interface{} (the four
// interpreters look the dynamic type up themselves; the interface decoder does for a pointer it finds in the
// destination).  Called before anything else has used these types, so the lookup compiles and stores.
func c14ColdEntryPoints(o *Out, types []reflect.Type, picks []int, valueSeed int64, r *rand.Rand) {
	encNames := []string{"MarshalIndent", "Encoder.Encode", "MarshalNoEscape", "MarshalContext", "inside []interface{}", "inside map[string]interface{}",
		"MarshalIndent, inside struct{I interface{}}", "colour, inside []interface{}", "colour and indent, inside []interface{}", "Encoder no HTML escape, inside []interface{}"}
	decNames := []string{"Decoder.Decode", "UnmarshalNoEscape", "UnmarshalContext", "Unmarshal, pointer held by interface{}", "Decoder.Decode, pointer held by interface{}"}
	for _, k := range picks {
		t := types[k]
		v := reflect.New(t)
		c14Fill(v.Elem(), rand.New(rand.NewSource(valueSeed+int64(k))), 0)
		elem, ptr := v.Elem().Interface(), v.Interface()
		e := r.Intn(len(encNames))
		c14Current(o, map[string]string{"property": "C14", "phase": "first use through " + encNames[e], "type": t.String(), "typeptr": fmt.Sprintf("%#x", c14Addr(t))})
		var g, w []byte
		var werr error
		gerr := c14Recover(func() error {
			var err error
			var buf bytes.Buffer
			switch e {
			case 0:
				g, err = gojson.MarshalIndent(ptr, "", "  ")
				w, werr = stdjson.MarshalIndent(ptr, "", "  ")
			case 1:
				err = gojson.NewEncoder(&buf).Encode(elem)
				g = append([]byte{}, buf.Bytes()...)
				buf.Reset()
				werr = stdjson.NewEncoder(&buf).Encode(elem)
				w = buf.Bytes()
			case 2:
				g, err = gojson.MarshalNoEscape(elem)
				w, werr = stdjson.Marshal(elem)
			case 3:
				g, err = gojson.MarshalContext(context.Background(), ptr)
				w, werr = stdjson.Marshal(ptr)
			case 4:
				x := []interface{}{elem, ptr, 1}
				g, err = gojson.Marshal(x)
				w, werr = stdjson.Marshal(x)
			case 5:
				x := map[string]interface{}{"e": elem, "p": ptr}
				g, err = gojson.Marshal(x)
				w, werr = stdjson.Marshal(x)
			case 6:
				x := []c14Holder{{ptr}, {elem}}
				g, err = gojson.MarshalIndent(x, "", " ")
				w, werr = stdjson.MarshalIndent(x, "", " ")
			case 7:
				x := []interface{}{ptr, elem}
				g, err = gojson.MarshalWithOption(x, gojson.Colorize(gojson.DefaultColorScheme))
				g = c14Ansi.ReplaceAll(g, nil)
				w, werr = stdjson.Marshal(x)
			case 8:
				x := []interface{}{elem, ptr}
				g, err = gojson.MarshalIndentWithOption(x, "", " ", gojson.Colorize(gojson.DefaultColorScheme))
				g = c14Ansi.ReplaceAll(g, nil)
				w, werr = stdjson.MarshalIndent(x, "", " ")
			default:
				x := []interface{}{elem, ptr}
				ge := gojson.NewEncoder(&buf)
				ge.SetEscapeHTML(false)
				err = ge.Encode(x)
				g = append([]byte{}, buf.Bytes()...)
				buf.Reset()
				we := stdjson.NewEncoder(&buf)
				we.SetEscapeHTML(false)
				werr = we.Encode(x)
				w = buf.Bytes()
			}
			return err
		})
		o.count("cold_entry_encodings", 1)
		o.hist("cold_first_use_encode", encNames[e])
		if (gerr != nil) != (werr != nil) || (gerr == nil && !bytes.Equal(g, w)) {
			o.violation("C14", "a value first met through another entry point or behind an interface is not encoded as its own type prescribes (differs from encoding/json)", map[string]string{
				"type": t.String(), "typeptr": fmt.Sprintf("%#x", c14Addr(t)), "entry": encNames[e], "got": clip(string(g)), "want": clip(string(w)), "err": fmt.Sprint(gerr)})
		}
		doc, derr := stdjson.Marshal(ptr)
		if derr != nil {
			continue
		}
		d := r.Intn(len(decNames))
		c14Current(o, map[string]string{"property": "C14", "phase": "first use through " + decNames[d], "type": t.String(), "typeptr": fmt.Sprintf("%#x", c14Addr(t)), "doc": clip(string(doc))})
		x, y := reflect.New(t), reflect.New(t)
		var yerr error
		xerr := c14Recover(func() error {
			switch d {
			case 0:
				yerr = stdjson.Unmarshal(doc, y.Interface())
				return gojson.NewDecoder(bytes.NewReader(doc)).Decode(x.Interface())
			case 1:
				yerr = stdjson.Unmarshal(doc, y.Interface())
				return gojson.UnmarshalNoEscape(doc, x.Interface())
			case 2:
				yerr = stdjson.Unmarshal(doc, y.Interface())
				return gojson.UnmarshalContext(context.Background(), doc, x.Interface())
			}
			hx, hy := &c14Holder{I: x.Interface()}, &c14Holder{I: y.Interface()}
			hdoc := append(append([]byte(`{"I":`), doc...), '}')
			yerr = stdjson.Unmarshal(hdoc, hy)
			var err error
			if d == 3 {
				err = gojson.Unmarshal(hdoc, hx)
			} else {
				err = gojson.NewDecoder(bytes.NewReader(hdoc)).Decode(hx)
			}
			if err == nil && yerr == nil && (hx.I != x.Interface()) != (hy.I != y.Interface()) {
				return fmt.Errorf("the pointer held by the interface was replaced by one library only")
			}
			return err
		})
		o.count("cold_entry_decodings", 1)
		o.hist("cold_first_use_decode", decNames[d])
		if (xerr != nil) != (yerr != nil) || (xerr == nil && !reflect.DeepEqual(x.Interface(), y.Interface())) {
			gs, _ := stdjson.Marshal(x.Interface())
			o.violation("C14", "a document first decoded through another entry point or into a pointer held by an interface is not decoded as the destination's own type prescribes (differs from encoding/json)", map[string]string{
				"type": t.String(), "typeptr": fmt.Sprintf("%#x", c14Addr(t)), "entry": decNames[d], "doc": clip(string(doc)), "got": clip(string(gs)), "err": fmt.Sprint(xerr), "werr": fmt.Sprint(yerr)})
		}
	}
}

// First use of the same types by several goroutines at once, each in an order of its own: whichever goroutine fills
// a slot (or adds to the fallback map), every goroutine must get the program of the type it asked for
func c14Concurrent(o *Out, types []reflect.Type, picks []int, valueSeed int64, r *rand.Rand) {
	type job struct {
		t    reflect.Type
		arg  interface{}
		want []byte
		werr error
		doc  []byte
		dst  reflect.Value // what encoding/json decodes doc to
	}
	var jobs []job
	for _, k := range picks {
		t := types[k]
		v := reflect.New(t)
		c14Fill(v.Elem(), rand.New(rand.NewSource(valueSeed+int64(k))), 0)
		j := job{t: t, arg: v.Interface()}
		j.want, j.werr = stdjson.Marshal(j.arg)
		if j.werr == nil {
			j.doc = j.want
			j.dst = reflect.New(t)
			if stdjson.Unmarshal(j.doc, j.dst.Interface()) != nil {
				j.doc = nil
			}
		}
		jobs = append(jobs, j)
	}
	const workers = 8
	type bad struct {
		j    int
		what string
		got  string
		err  error
	}
	var mu sync.Mutex
	var bads []bad
	var wg sync.WaitGroup
	orders := make([][]int, workers)
	for w := range orders {
		orders[w] = r.Perm(len(jobs))
	}
	c14Current(o, map[string]string{"property": "C14", "phase": "first use by several goroutines at once", "types": strconv.Itoa(len(jobs))})
	for w := 0; w < workers; w++ {
		wg.Add(1)
		go func(order []int) {
			defer wg.Done()
			for _, ji := range order {
				j := jobs[ji]
				var g []byte
				gerr := c14Recover(func() error { var e error; g, e = gojson.Marshal(j.arg); return e })
				if (gerr != nil) != (j.werr != nil) || (gerr == nil && !bytes.Equal(g, j.want)) {
					mu.Lock()
					bads = append(bads, bad{ji, "encoded", clip(string(g)), gerr})
					mu.Unlock()
				}
				if j.doc == nil {
					continue
				}
				x := reflect.New(j.t)
				xerr := c14Recover(func() error { return gojson.Unmarshal(j.doc, x.Interface()) })
				if xerr != nil || !reflect.DeepEqual(x.Interface(), j.dst.Interface()) {
					gs, _ := stdjson.Marshal(x.Interface())
					mu.Lock()
					bads = append(bads, bad{ji, "decoded", clip(string(gs)), xerr})
					mu.Unlock()
				}
			}
		}(orders[w])
	}
	wg.Wait()
	o.count("concurrent_first_use_types", int64(len(jobs)))
	o.count("concurrent_first_use_calls", int64(2*workers*len(jobs)))
	for _, b := range bads {
		j := jobs[b.j]
		o.violation("C14", "with several goroutines using types for the first time, a value is not "+b.what+" as its own type prescribes (differs from encoding/json)", map[string]string{
			"type": j.t.String(), "typeptr": fmt.Sprintf("%#x", c14Addr(j.t)), "got": b.got, "want": clip(string(j.want)), "err": fmt.Sprint(b.err)})
	}
}

// c14EmbedsPtrToRecursive: t (or what it points to) is a struct with an embedded field of type *S, S a struct type that
// contains itself through pointers, slices, arrays, maps or struct fields
func c14EmbedsPtrToRecursive(t reflect.Type) bool {
	for t.Kind() == reflect.Ptr {
		t = t.Elem()
	}
	if t.Kind() != reflect.Struct {
		return false
	}
	for i := 0; i < t.NumField(); i++ {
		f := t.Field(i)
		if f.Anonymous && f.Type.Kind() == reflect.Ptr && f.Type.Elem().Kind() == reflect.Struct && c14ContainsItself(f.Type.Elem()) {
			return true
		}
	}
	return false
}

func c14ContainsItself(s reflect.Type) bool {
	seen := map[reflect.Type]bool{}
	var walk func(t reflect.Type, depth int) bool
	walk = func(t reflect.Type, depth int) bool {
		if depth > 12 {
			return false
		}
		switch t.Kind() {
		case reflect.Ptr, reflect.Slice, reflect.Array:
			return walk(t.Elem(), depth+1)
		case reflect.Map:
			return walk(t.Elem(), depth+1)
		case reflect.Struct:
			if t == s && depth > 0 {
				return true
			}
			if seen[t] {
				return false
			}
			seen[t] = true
			for i := 0; i < t.NumField(); i++ {
				if walk(t.Field(i).Type, depth+1) {
					return true
				}
			}
		}
		return false
	}
	return walk(s, 0)
}
