package main

// C11: results depend only on the arguments, never on earlier calls.
// A table of distinct calls over the public API (values, documents, option
// sets, failing calls included).  The cold oracle of a call is its result when
// it is the first library call of a fresh process (C11cold <index>, one child
// process per call).  Random histories of several hundred calls are then run
// in one process, with long-lived handles (Path, FieldQuery, Encoder, Decoder)
// kept across calls, and every result is compared with the cold one.  A
// mismatch is minimised to a two-call history when one exists.

import (
	"bytes"
	"context"
	"encoding/hex"
	stdjson "encoding/json"
	"errors"
	"fmt"
	"hash/fnv"
	"os"
	"os/exec"
	"strconv"
	"strings"
	"sync"

	gojson "github.com/goccy/go-json"
)

func init() {
	props["C11"] = runC11
	props["C11cold"] = runC11Cold
	props["C11seq"] = runC11Seq
}

type c11Inner struct {
	X int    `json:"x"`
	Y string `json:"y,omitempty"`
}

type c11T struct {
	A int                    `json:"a"`
	B string                 `json:"b"`
	C []int                  `json:"c"`
	D map[string]int         `json:"d"`
	E *c11T                  `json:"e,omitempty"`
	F interface{}            `json:"f"`
	G c11Inner               `json:"g"`
	H []c11Inner             `json:"h"`
	I map[string]interface{} `json:"i"`
}

// marshalers that fail on demand
type c11MErr struct{ Fail bool }

func (m c11MErr) MarshalJSON() ([]byte, error) {
	if m.Fail {
		return nil, errors.New("marshaler refused")
	}
	return []byte(`{"ok":true}`), nil
}

type c11MPanic struct{ Boom bool }

func (m c11MPanic) MarshalJSON() ([]byte, error) {
	if m.Boom {
		panic("marshaler panicked")
	}
	return []byte(`"calm"`), nil
}

type c11MBad struct{}

func (c11MBad) MarshalJSON() ([]byte, error) { return []byte(`{"unterminated":`), nil }

type c11Ctx struct{ V int }

func (c c11Ctx) MarshalJSON(ctx context.Context) ([]byte, error) {
	k, _ := ctx.Value(c11Key{}).(string)
	return []byte(fmt.Sprintf(`{"v":%d,"k":%q}`, c.V, k)), nil
}

type c11Key struct{}

type c11UErr struct{ S string }

func (u *c11UErr) UnmarshalJSON(b []byte) error {
	if bytes.Contains(b, []byte("bad")) {
		return errors.New("unmarshaler refused")
	}
	u.S = string(b)
	return nil
}

type c11WithM struct {
	P int         `json:"p"`
	M c11MErr     `json:"m"`
	Q c11MPanic   `json:"q"`
	R string      `json:"r"`
	S interface{} `json:"s"`
}

type c11Dst struct {
	A int               `json:"a"`
	B string            `json:"b"`
	C []int             `json:"c"`
	D map[string]string `json:"d"`
	U c11UErr           `json:"u"`
	N interface{}       `json:"n"`
}

func c11Values() []interface{} {
	deep := &c11T{A: 3, B: "deep"}
	rec := &c11T{A: 1, B: "<rec&>", C: []int{1, 2, 3}, D: map[string]int{"z": 26, "a": 1, "m": 13}, E: &c11T{A: 2, E: deep}, F: []interface{}{1.5, "s", nil, map[string]interface{}{"k": "v"}},
		G: c11Inner{7, "y"}, H: []c11Inner{{1, ""}, {2, "two"}}, I: map[string]interface{}{"b": 1, "a": []int{1}}}
	return []interface{}{
		rec,
		c11T{B: "plain   \xff tail"},
		map[string]interface{}{"zeta": 1, "alpha": map[string]int{"y": 2, "x": 1}, "mid": []string{"<", ">"}},
		[]interface{}{1, "two", 3.5, nil, true, map[string]string{"k": "v"}},
		c11WithM{P: 1, R: "fine"},
		c11WithM{P: 2, M: c11MErr{true}, R: "marshaler error"},
		c11WithM{P: 3, Q: c11MPanic{true}, R: "marshaler panic"},
		c11WithM{P: 4, S: c11MBad{}, R: "marshaler returns invalid JSON"},
		[]interface{}{c11Ctx{5}, map[string]interface{}{"c": c11Ctx{6}}},
		strings.Repeat("long string ", 300),
		map[string]interface{}{"big": strings.Repeat("x", 5000), "n": []int{1, 2, 3}},
		make(chan int), // unsupported type
		[]interface{}{[]interface{}{[]interface{}{[]interface{}{}}}, map[string]interface{}{}},
	}
}

var c11Docs = []string{
	`{"a":1,"b":"x","c":[1,2,3],"d":{"k":"v"},"u":{"p":1},"n":[1,"two",{"three":3}]}`,
	`{"a":1,"a":2,"b":"first","b":"second"}`,
	` { "b" : "spécial \n 😀" , "c" : [ ] , "unknown" : { "x" : [ 1 , 2 ] } } `,
	`{"a":"not a number"}`,
	`{"a":1,"b":"x"`,
	`{"a":1,,}`,
	`{"u":"bad"}`,
	`[1,2,3]`,
	`{"c":[1,2,"x"]}`,
	`{"n":123456789012345678901234567890,"a":9223372036854775808}`,
	`"just a string"`,
	`{"d":{"k":1}}`,
	`{"b":"` + strings.Repeat("y", 6000) + `","c":[` + strings.Repeat("1,", 800) + `1]}`,
	``,
	`nul`,
	`{"a":1} trailing`,
}

// long-lived handles, created lazily and kept for the life of the process
type c11Handles struct {
	paths   map[string]*gojson.Path
	queries map[string]*gojson.FieldQuery
	sink    bytes.Buffer // where DebugWith / DebugDOT calls of this process send their output
	encBuf  bytes.Buffer
	enc     *gojson.Encoder
	decSrc  *c11Feed
	dec     *gojson.Decoder
}

// a reader the test can refill: the same Decoder keeps reading what is appended
type c11Feed struct{ pending []byte }

func (f *c11Feed) Read(p []byte) (int, error) {
	if len(f.pending) == 0 {
		return 0, errors.New("feed empty")
	}
	n := copy(p, f.pending)
	f.pending = f.pending[n:]
	return n, nil
}

type c11NopCloser struct{ w *bytes.Buffer }

func (c c11NopCloser) Write(p []byte) (int, error) { return c.w.Write(p) }
func (c c11NopCloser) Close() error                { return nil }

type c11Call struct {
	name string
	run  func(h *c11Handles) string
	// equiv names a call that does the last step of this one without the failing call before it: in a fresh
	// process both must return the same (a history of two steps with its own oracle)
	equiv string
}

// a list deeper than the encoder's cycle-detection threshold whose last node can be told to fail
type c11Node struct {
	V    int         `json:"v"`
	M    *c11MErr    `json:"m,omitempty"`
	I    interface{} `json:"i,omitempty"`
	Next *c11Node    `json:"next,omitempty"`
}

var (
	c11DeepOnce sync.Once
	c11DeepHead *c11Node
	c11DeepTail *c11MErr
)

func c11Deep() (*c11Node, *c11MErr) {
	c11DeepOnce.Do(func() {
		c11DeepTail = &c11MErr{}
		var head *c11Node
		for i := 0; i < 1300; i++ {
			n := &c11Node{V: i, Next: head}
			if i == 0 {
				n.M = c11DeepTail
			}
			if i%100 == 0 {
				n.I = &c11Node{V: -i} // an interface level on the way
			}
			head = n
		}
		c11DeepHead = head
	})
	return c11DeepHead, c11DeepTail
}

func c11Sum(b []byte, err error) string {
	if err != nil {
		return "ERR " + fmt.Sprintf("%T: %v", err, err)
	}
	h := fnv.New64a()
	h.Write(b)
	return "OKLEN " + strconv.Itoa(len(b)) + " " + strconv.FormatUint(h.Sum64(), 16)
}

// an Unmarshaler that sees the context of the call
type c11UCtx struct{ K string }

func (u *c11UCtx) UnmarshalJSON(ctx context.Context, b []byte) error {
	k, _ := ctx.Value(c11Key{}).(string)
	u.K = "ctx=" + k + " doc=" + string(b)
	return nil
}

func c11Res(b []byte, err error) string {
	if err != nil {
		return "ERR " + fmt.Sprintf("%T: %v", err, err) + " OUT " + string(b)
	}
	return "OK " + string(b)
}

func c11Guard(f func() string) (res string) {
	defer func() {
		if r := recover(); r != nil {
			res = "PANIC " + fmt.Sprint(r)
		}
	}()
	return f()
}

func c11Calls() []c11Call {
	var calls []c11Call
	vals := c11Values()
	add := func(name string, f func(h *c11Handles) string) {
		calls = append(calls, c11Call{name: name, run: func(h *c11Handles) string { return c11Guard(func() string { return f(h) }) }})
	}
	ctxWith := func(k string) context.Context { return context.WithValue(context.Background(), c11Key{}, k) }
	for vi := range vals {
		vi := vi
		v := vals[vi]
		n := "v" + strconv.Itoa(vi)
		add("Marshal "+n, func(*c11Handles) string { return c11Res(gojson.Marshal(v)) })
		add("MarshalNoEscape "+n, func(*c11Handles) string { return c11Res(gojson.MarshalNoEscape(v)) })
		add("MarshalIndent '' '  ' "+n, func(*c11Handles) string { return c11Res(gojson.MarshalIndent(v, "", "  ")) })
		add("MarshalIndent 'pfx' '\\t' "+n, func(*c11Handles) string { return c11Res(gojson.MarshalIndent(v, "pfx", "\t")) })
		add("MarshalWithOption UnorderedMap "+n, func(*c11Handles) string {
			b, err := gojson.MarshalWithOption(v, gojson.UnorderedMap())
			if err != nil {
				return c11Res(b, err)
			}
			return "OKLEN " + strconv.Itoa(len(b)) // key order is free: only the length is an observable here
		})
		add("MarshalWithOption DisableHTMLEscape+DisableNormalizeUTF8 "+n, func(*c11Handles) string {
			return c11Res(gojson.MarshalWithOption(v, gojson.DisableHTMLEscape(), gojson.DisableNormalizeUTF8()))
		})
		add("MarshalWithOption Colorize "+n, func(*c11Handles) string {
			return c11Res(gojson.MarshalWithOption(v, gojson.Colorize(gojson.DefaultColorScheme)))
		})
		add("MarshalIndentWithOption Colorize "+n, func(*c11Handles) string {
			return c11Res(gojson.MarshalIndentWithOption(v, ">", " ", gojson.Colorize(gojson.DefaultColorScheme)))
		})
		add("MarshalWithOption DebugWith "+n, func(*c11Handles) string {
			var dbg bytes.Buffer
			b, err := gojson.MarshalWithOption(v, gojson.DebugWith(&dbg))
			return c11Res(b, err)
		})
		add("MarshalWithOption DebugWith(sink)+DebugDOT(sink), no Debug "+n, func(h *c11Handles) string {
			before := h.sink.Len()
			b, err := gojson.MarshalWithOption(v, gojson.DebugWith(&h.sink), gojson.DebugDOT(c11NopCloser{&h.sink}))
			return c11Res(b, err) + " SINK+" + strconv.Itoa(h.sink.Len()-before)
		})
		add("MarshalWithOption Debug "+n, func(h *c11Handles) string {
			before := h.sink.Len()
			b, err := gojson.MarshalWithOption(v, gojson.Debug())
			return c11Res(b, err) + " SINK+" + strconv.Itoa(h.sink.Len()-before)
		})
		add("MarshalContext k1 "+n, func(*c11Handles) string { return c11Res(gojson.MarshalContext(ctxWith("k1"), v)) })
		add("MarshalContext k2 "+n, func(*c11Handles) string { return c11Res(gojson.MarshalContext(ctxWith("k2"), v)) })
		if vi < 5 {
			add("MarshalContext FieldQuery a,c "+n, func(h *c11Handles) string {
				q := h.queries["a,c"]
				if q == nil {
					q, _ = gojson.BuildFieldQuery("a", "c")
					h.queries["a,c"] = q
				}
				return c11Res(gojson.MarshalContext(gojson.SetFieldQueryToContext(context.Background(), q), v))
			})
			add("MarshalContext FieldQuery b,g.x "+n, func(h *c11Handles) string {
				q := h.queries["b,g"]
				if q == nil {
					q, _ = gojson.BuildFieldQuery("b", gojson.BuildSubFieldQuery("g").Fields("x"))
					h.queries["b,g"] = q
				}
				return c11Res(gojson.MarshalContext(gojson.SetFieldQueryToContext(context.Background(), q), v))
			})
		}
		add("Encoder(shared).Encode "+n, func(h *c11Handles) string {
			if h.enc == nil {
				h.enc = gojson.NewEncoder(&h.encBuf)
			}
			h.encBuf.Reset()
			err := h.enc.Encode(v)
			return c11Res(append([]byte(nil), h.encBuf.Bytes()...), err)
		})
		add("Encoder(fresh).SetIndent.Encode "+n, func(*c11Handles) string {
			var b bytes.Buffer
			e := gojson.NewEncoder(&b)
			e.SetIndent("", " ")
			err := e.Encode(v)
			return c11Res(b.Bytes(), err)
		})
		add("Encoder(fresh).SetEscapeHTML(false).EncodeContext "+n, func(*c11Handles) string {
			var b bytes.Buffer
			e := gojson.NewEncoder(&b)
			e.SetEscapeHTML(false)
			err := e.EncodeContext(ctxWith("ke"), v)
			return c11Res(b.Bytes(), err)
		})
	}
	// ---- two-step histories with their own oracle: a failing call, then a call that must not notice ----
	deepEnc := []struct {
		name string
		f    func(v interface{}) ([]byte, error)
	}{
		{"Marshal", func(v interface{}) ([]byte, error) { return gojson.Marshal(v) }},
		{"MarshalIndent", func(v interface{}) ([]byte, error) { return gojson.MarshalIndent(v, "", " ") }},
		{"MarshalContext", func(v interface{}) ([]byte, error) { return gojson.MarshalContext(ctxWith("kq"), v) }},
	}
	for _, de := range deepEnc {
		de := de
		add(de.name+" deep list", func(*c11Handles) string {
			head, tail := c11Deep()
			tail.Fail = false
			return c11Sum(de.f(head))
		})
		add(de.name+" deep list whose last node fails", func(*c11Handles) string {
			head, tail := c11Deep()
			tail.Fail = true
			defer func() { tail.Fail = false }()
			return c11Sum(de.f(head))
		})
		add(de.name+" deep list after a failed encoding of it", func(*c11Handles) string {
			head, tail := c11Deep()
			tail.Fail = true
			de.f(head)
			tail.Fail = false
			return c11Sum(de.f(head))
		})
		calls[len(calls)-1].equiv = de.name + " deep list"
	}
	dupDoc := `{"a":1,"a":2,"b":"first","b":"second"}`
	plainDup := func(dec *gojson.Decoder) string {
		var d c11Dst
		err := dec.Decode(&d)
		return c11Res([]byte(fmt.Sprintf("%+v", d)), err)
	}
	plainCtx := func(dec *gojson.Decoder) string {
		var u c11UCtx
		err := dec.Decode(&u)
		return c11Res([]byte(u.K), err)
	}
	add("Decoder(fresh) plain Decode of duplicate keys", func(*c11Handles) string {
		return plainDup(gojson.NewDecoder(&c11Feed{pending: []byte(dupDoc + "\n")}))
	})
	add("Decoder(fresh) plain Decode into a context-aware Unmarshaler", func(*c11Handles) string {
		return plainCtx(gojson.NewDecoder(&c11Feed{pending: []byte(dupDoc + "\n")}))
	})
	for _, fail := range []struct {
		name string
		call func(dec *gojson.Decoder) error
	}{
		{"DecodeWithOption(FirstWin) refused by the destination's UnmarshalJSON", func(dec *gojson.Decoder) error {
			return dec.DecodeWithOption(&c11UErr{}, gojson.DecodeFieldPriorityFirstWin())
		}},
		{"DecodeContext refused by the destination's UnmarshalJSON", func(dec *gojson.Decoder) error {
			return dec.DecodeContext(ctxWith("kf"), &c11UErr{})
		}},
		{"DecodeContext with a destination that is no pointer", func(dec *gojson.Decoder) error {
			return dec.DecodeContext(ctxWith("kf"), 5)
		}},
	} {
		fail := fail
		for _, then := range []struct {
			name  string
			f     func(dec *gojson.Decoder) string
			equiv string
		}{
			{"plain Decode of duplicate keys", plainDup, "Decoder(fresh) plain Decode of duplicate keys"},
			{"plain Decode into a context-aware Unmarshaler", plainCtx, "Decoder(fresh) plain Decode into a context-aware Unmarshaler"},
		} {
			then := then
			add("Decoder: "+fail.name+", then "+then.name, func(*c11Handles) string {
				feed := &c11Feed{pending: []byte("\"bad\"\n")}
				dec := gojson.NewDecoder(feed)
				if err := fail.call(dec); err == nil {
					return "the first call did not fail"
				}
				if strings.Contains(fail.name, "no pointer") {
					feed.pending = nil // nothing was read
				}
				feed.pending = append(feed.pending, []byte(dupDoc+"\n")...)
				return then.f(dec)
			})
			calls[len(calls)-1].equiv = then.equiv
		}
	}
	for di := range c11Docs {
		di := di
		doc := c11Docs[di]
		n := "d" + strconv.Itoa(di)
		show := func(d *c11Dst, err error) string {
			return c11Res([]byte(fmt.Sprintf("%+v", *d)), err)
		}
		add("Unmarshal "+n, func(*c11Handles) string { var d c11Dst; err := gojson.Unmarshal([]byte(doc), &d); return show(&d, err) })
		add("UnmarshalContext "+n, func(*c11Handles) string {
			var d c11Dst
			err := gojson.UnmarshalContext(ctxWith("ku"), []byte(doc), &d)
			return show(&d, err)
		})
		add("UnmarshalNoEscape "+n, func(*c11Handles) string {
			var d c11Dst
			err := gojson.UnmarshalNoEscape([]byte(doc), &d)
			return show(&d, err)
		})
		add("UnmarshalWithOption FirstWin "+n, func(*c11Handles) string {
			var d c11Dst
			err := gojson.UnmarshalWithOption([]byte(doc), &d, gojson.DecodeFieldPriorityFirstWin())
			return show(&d, err)
		})
		add("Unmarshal interface "+n, func(*c11Handles) string {
			var x interface{}
			err := gojson.Unmarshal([]byte(doc), &x)
			return c11Res([]byte(fmt.Sprintf("%#v", x)), err)
		})
		add("Decoder(fresh) UseNumber DisallowUnknownFields "+n, func(*c11Handles) string {
			var d c11Dst
			dec := gojson.NewDecoder(strings.NewReader(doc))
			dec.UseNumber()
			dec.DisallowUnknownFields()
			err := dec.Decode(&d)
			return show(&d, err)
		})
		if stdValid(doc) {
			add("Decoder(shared) "+n, func(h *c11Handles) string {
				if h.dec == nil {
					h.decSrc = &c11Feed{}
					h.dec = gojson.NewDecoder(h.decSrc)
				}
				h.decSrc.pending = append(h.decSrc.pending, []byte(doc+"\n")...)
				var d c11Dst
				err := h.dec.Decode(&d)
				if err != nil {
					// like a fresh one after an error: the property speaks about reuse after an error
					h.dec, h.decSrc = nil, nil
				}
				return show(&d, err)
			})
		}
		if stdValid(doc) {
			// per-call options on the long-lived Decoder belong to that call only
			sharedWith := func(name string, call func(dec *gojson.Decoder, d *c11Dst) error) {
				add("Decoder(shared) "+name+" "+n, func(h *c11Handles) string {
					if h.dec == nil {
						h.decSrc = &c11Feed{}
						h.dec = gojson.NewDecoder(h.decSrc)
					}
					h.decSrc.pending = append(h.decSrc.pending, []byte(doc+"\n")...)
					var d c11Dst
					err := call(h.dec, &d)
					if err != nil {
						h.dec, h.decSrc = nil, nil
					}
					return show(&d, err)
				})
			}
			sharedWith("DecodeWithOption FirstWin", func(dec *gojson.Decoder, d *c11Dst) error {
				return dec.DecodeWithOption(d, gojson.DecodeFieldPriorityFirstWin())
			})
			sharedWith("DecodeContext", func(dec *gojson.Decoder, d *c11Dst) error { return dec.DecodeContext(ctxWith("kd"), d) })
		}
		add("Valid "+n, func(*c11Handles) string { return strconv.FormatBool(gojson.Valid([]byte(doc))) })
		add("Compact "+n, func(*c11Handles) string {
			var b bytes.Buffer
			err := gojson.Compact(&b, []byte(doc))
			return c11Res(b.Bytes(), err)
		})
		add("Indent "+n, func(*c11Handles) string {
			var b bytes.Buffer
			err := gojson.Indent(&b, []byte(doc), "p", " ")
			return c11Res(b.Bytes(), err)
		})
		for _, ps := range []string{"$.c[1]", "$.n[2].three", "$..k", "$.d.k", "$.c[*]"} {
			ps := ps
			add("Path(shared "+ps+").Extract "+n, func(h *c11Handles) string {
				p := h.paths[ps]
				if p == nil {
					var err error
					p, err = gojson.CreatePath(ps)
					if err != nil {
						return "ERR create " + err.Error()
					}
					h.paths[ps] = p
				}
				out, err := p.Extract([]byte(doc))
				return c11Res(bytes.Join(out, []byte(" | ")), err)
			})
			add("Path(shared "+ps+").Unmarshal "+n, func(h *c11Handles) string {
				p := h.paths[ps]
				if p == nil {
					var err error
					p, err = gojson.CreatePath(ps)
					if err != nil {
						return "ERR create " + err.Error()
					}
					h.paths[ps] = p
				}
				var x interface{}
				err := p.Unmarshal([]byte(doc), &x)
				return c11Res([]byte(fmt.Sprintf("%#v", x)), err)
			})
		}
	}
	return calls
}

// only complete values are fed to the long-lived Decoder: what a document leaves unread belongs to the next Decode by design
func stdValid(doc string) bool { return stdjson.Valid([]byte(doc)) }

func c11NewHandles() *c11Handles {
	return &c11Handles{paths: map[string]*gojson.Path{}, queries: map[string]*gojson.FieldQuery{}}
}

// child: run exactly the calls named on the command line (indices, comma separated) in this fresh process; print the result of the last one
func runC11Cold(o *Out) {
	calls := c11Calls()
	h := c11NewHandles()
	// os.Args: harness C11cold <tier> <seed=indices joined by _> <dir>
	idxs := strings.Split(os.Getenv("C11_CALLS"), ",")
	res := ""
	for _, s := range idxs {
		i, err := strconv.Atoi(s)
		if err != nil || i < 0 || i >= len(calls) {
			fmt.Println("BADINDEX")
			return
		}
		res = calls[i].run(h)
	}
	os.Stdout.WriteString("RESULT " + hx([]byte(res)) + "\n")
}

func c11RunChild(idxs []int) (string, error) {
	self, _ := os.Executable()
	var ss []string
	for _, i := range idxs {
		ss = append(ss, strconv.Itoa(i))
	}
	cmd := exec.Command(self, "C11cold", "quick", "0", os.TempDir()+"/c11cold-"+strconv.Itoa(os.Getpid())+"-"+ss[len(ss)-1])
	cmd.Env = append(os.Environ(), "C11_CALLS="+strings.Join(ss, ","))
	out, err := cmd.Output()
	os.RemoveAll(os.TempDir() + "/c11cold-" + strconv.Itoa(os.Getpid()) + "-" + ss[len(ss)-1])
	if err != nil {
		return "", fmt.Errorf("%v: %s", err, clip(string(out)))
	}
	for _, ln := range strings.Split(string(out), "\n") {
		if strings.HasPrefix(ln, "RESULT ") {
			h := strings.TrimPrefix(ln, "RESULT ")
			if h == "-" {
				return "", nil
			}
			b := make([]byte, len(h)/2)
			for i := range b {
				v, _ := strconv.ParseUint(h[2*i:2*i+2], 16, 8)
				b[i] = byte(v)
			}
			return string(b), nil
		}
	}
	return "", fmt.Errorf("no result line: %s", clip(string(out)))
}

// child: one history from a cold start; the cold results come from the parent
func runC11Seq(o *Out) {
	calls := c11Calls()
	var cold []string
	if b, err := os.ReadFile(os.Getenv("C11_COLD")); err != nil || stdjson.Unmarshal(b, &cold) != nil || len(cold) != len(calls) {
		o.violation("C11", "cold table unreadable in the history process", nil)
		return
	}
	for i := range cold { // hex: results are bytes, not necessarily UTF-8
		b, _ := hex.DecodeString(cold[i])
		cold[i] = string(b)
	}
	seqlen := 300
	if o.tier == "thorough" {
		seqlen = 400
	}
	r := o.rng
	reported := map[string]bool{}
	h := c11NewHandles()
	var hist []int
	// some histories dwell on a small subset so that the same handles and types meet many option sets
	focus := []int(nil)
	if o.seed%3 == 1 {
		for k := 0; k < 25; k++ {
			focus = append(focus, r.Intn(len(calls)))
		}
	}
	for k := 0; k < seqlen; k++ {
		i := r.Intn(len(calls))
		if focus != nil {
			i = focus[r.Intn(len(focus))]
		}
		hist = append(hist, i)
		o.current(map[string]string{"property": "C11", "call": calls[i].name, "history_seed": strconv.FormatInt(o.seed, 10), "position": strconv.Itoa(k)})
		got := calls[i].run(h)
		o.count("calls_in_histories", 1)
		if strings.HasPrefix(got, "ERR") || strings.HasPrefix(got, "PANIC") {
			o.count("failing_calls_in_histories", 1)
		}
		if cold[i] == "\x00unavailable" || got == cold[i] {
			continue
		}
		key := calls[i].name
		if reported[key] {
			o.count("repeat_mismatches", 1)
			continue
		}
		reported[key] = true
		det := map[string]string{"call": calls[i].name, "warm_result": clip(got), "cold_result": clip(cold[i]),
			"first_difference": strconv.Itoa(firstDiff([]byte(got), []byte(cold[i]))), "history_seed": strconv.FormatInt(o.seed, 10), "position": strconv.Itoa(k)}
		// minimise: is there one earlier call after which the call already differs (in a fresh process)?
		found := false
		seen := map[int]bool{}
		for back := len(hist) - 2; back >= 0 && !found && len(seen) < 60; back-- {
			j := hist[back]
			if seen[j] {
				continue
			}
			seen[j] = true
			if res, err := c11RunChild([]int{j, i}); err == nil && res != cold[i] {
				det["minimal_history"] = calls[j].name + "  THEN  " + calls[i].name
				det["replay_indices"] = fmt.Sprintf("%d,%d", j, i)
				found = true
			}
		}
		if !found {
			var hs []string
			for _, x := range hist[maxInt(0, len(hist)-12):] {
				hs = append(hs, calls[x].name)
			}
			det["history_tail"] = strings.Join(hs, " ; ")
			var all []string
			for _, x := range hist {
				all = append(all, strconv.Itoa(x))
			}
			det["replay_indices"] = strings.Join(all, ",")
		}
		o.violation("C11", "a call returned something else than the same call made first in a fresh process", det)
	}
}

func runC11(o *Out) {
	slicePoolProbe(o, "C11")
	calls := c11Calls()
	o.count("distinct_calls", int64(len(calls)))
	// cold oracle: one fresh process per call
	cold := make([]string, len(calls))
	coldErr := make([]error, len(calls))
	var wg sync.WaitGroup
	sem := make(chan struct{}, 16)
	for i := range calls {
		wg.Add(1)
		sem <- struct{}{}
		go func(i int) {
			defer wg.Done()
			defer func() { <-sem }()
			cold[i], coldErr[i] = c11RunChild([]int{i})
		}(i)
	}
	wg.Wait()
	for i, e := range coldErr {
		if e != nil {
			o.violation("C11", "the cold oracle process failed for "+calls[i].name, map[string]string{"detail": e.Error()})
			cold[i] = "\x00unavailable"
		}
	}
	o.count("cold_oracle_processes", int64(len(calls)))
	byName := map[string]int{}
	for i := range calls {
		byName[calls[i].name] = i
	}
	for i := range calls {
		if calls[i].equiv == "" {
			continue
		}
		j, ok := byName[calls[i].equiv]
		o.count("two_step_histories", 1)
		if !ok || cold[i] == "\x00unavailable" || cold[j] == "\x00unavailable" {
			continue
		}
		if cold[i] != cold[j] {
			o.violation("C11", "a call made after a failing call returned something else than the same call made first", map[string]string{
				"history": calls[i].name, "same_as": calls[j].name, "after_the_failing_call": clip(cold[i]), "made_first": clip(cold[j]),
				"replay_indices": strconv.Itoa(i) + " against " + strconv.Itoa(j)})
		}
	}
	coldPath := o.dir + "/cold.json"
	hexed := make([]string, len(cold))
	for i := range cold {
		hexed[i] = hex.EncodeToString([]byte(cold[i]))
	}
	cb, _ := stdjson.Marshal(hexed)
	os.WriteFile(coldPath, cb, 0o644)
	nseq := 16
	if o.tier == "thorough" {
		nseq = 200
	}
	// every history starts in its own fresh process: the order in which types, handles and options are first met differs per history
	self, _ := os.Executable()
	var mu sync.Mutex
	for s := 0; s < nseq; s++ {
		wg.Add(1)
		sem <- struct{}{}
		go func(s int) {
			defer wg.Done()
			defer func() { <-sem }()
			dir := o.dir + "/hist" + strconv.Itoa(s)
			cmd := exec.Command(self, "C11seq", o.tier, strconv.FormatInt(o.seed*1000+int64(s), 10), dir)
			cmd.Env = append(os.Environ(), "C11_COLD="+coldPath)
			out, err := cmd.CombinedOutput()
			mu.Lock()
			defer mu.Unlock()
			if err != nil {
				o.violation("C11", "a history process died", map[string]string{"detail": err.Error(), "output": clip(string(out)), "history": strconv.Itoa(s)})
			}
			mergeChild(o, dir)
			o.count("histories", 1)
		}(s)
	}
	wg.Wait()
}

func maxInt(a, b int) int {
	if a > b {
		return a
	}
	return b
}
