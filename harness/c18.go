package main

import (
	"bytes"
	stdjson "encoding/json"
	"fmt"
	"reflect"
	"strings"
	"time"

	gojson "github.com/goccy/go-json"
)

func init() { props["C18"] = runC18 }

func obsBuf(err error, b *bytes.Buffer, pre string) []byte {
	if err != nil {
		if b.String() != pre {
			return []byte("E!dst-changed:" + b.String())
		}
		return []byte("E")
	}
	out := b.Bytes()
	if !bytes.HasPrefix(out, []byte(pre)) {
		return []byte("O!prefix-lost:" + string(out))
	}
	return append([]byte("O"), out[len(pre):]...)
}

func safeCall(f func() error) (err error) {
	defer func() {
		if r := recover(); r != nil {
			err = fmt.Errorf("PANIC: %v", r)
		}
	}()
	return f()
}

func compactObs(src []byte, pre string, impl bool) []byte {
	var b bytes.Buffer
	b.WriteString(pre)
	var err error
	if impl {
		err = safeCall(func() error { return gojson.Compact(&b, src) })
	} else {
		err = stdjson.Compact(&b, src)
	}
	if err != nil && len(err.Error()) > 5 && err.Error()[:5] == "PANIC" {
		return []byte("panic")
	}
	return obsBuf(err, &b, pre)
}

func indentObs(src []byte, prefix, indent, pre string, impl bool) []byte {
	var b bytes.Buffer
	b.WriteString(pre)
	var err error
	if impl {
		err = safeCall(func() error { return gojson.Indent(&b, src, prefix, indent) })
	} else {
		err = stdjson.Indent(&b, src, prefix, indent)
	}
	if err != nil && len(err.Error()) > 5 && err.Error()[:5] == "PANIC" {
		return []byte("panic")
	}
	return obsBuf(err, &b, pre)
}

var indentSets = [][2]string{{"", ""}, {"", " "}, {"", "\t"}, {">", "  "}, {"é", "€"}, {" ", ""}, {"\t\t", " \t"}}

func c18Text(o *Out, src []byte, toModel bool, allIndents bool) {
	// Compact, empty and pre-filled destination
	gi := compactObs(src, "", true)
	gs := compactObs(src, "", false)
	o.count("compact_cases", 1)
	if toModel {
		o.emit("A", "c18.compact", [][]byte{[]byte("0"), src}, gi, gs, true)
		// (B) the Coq specification against the real encoding/json
		o.emit("A", "spec.compact", [][]byte{src}, gs, gs, true)
	} else if !bytes.Equal(gi, gs) {
		o.emit("C", "c18.compact", [][]byte{[]byte("0"), src}, gi, gs, true)
	}
	gp := compactObs(src, "PRE", true)
	if !bytes.Equal(gp, gi) {
		o.violation("C18", "Compact with a pre-filled destination differs from the empty-destination result",
			map[string]string{"src": fmt.Sprintf("%q", src), "empty": fmt.Sprintf("%q", gi), "prefilled": fmt.Sprintf("%q", gp)})
	}
	// idempotence
	if gi[0] == 'O' {
		again := compactObs(gi[1:], "", true)
		if !bytes.Equal(again, gi) {
			o.violation("C18", "Compact is not idempotent", map[string]string{"src": fmt.Sprintf("%q", src), "once": fmt.Sprintf("%q", gi), "twice": fmt.Sprintf("%q", again)})
		}
	}
	sets := indentSets[:2]
	if allIndents {
		sets = indentSets
	}
	for _, ps := range sets {
		ii := indentObs(src, ps[0], ps[1], "", true)
		is := indentObs(src, ps[0], ps[1], "", false)
		o.count("indent_cases", 1)
		if toModel {
			o.emit("A", "c18.indent", [][]byte{[]byte(ps[0]), []byte(ps[1]), src}, ii, is, true)
			o.emit("A", "spec.indent", [][]byte{[]byte(ps[0]), []byte(ps[1]), src}, is, is, true)
		} else if !bytes.Equal(ii, is) {
			o.emit("C", "c18.indent", [][]byte{[]byte(ps[0]), []byte(ps[1]), src}, ii, is, true)
		}
		ip := indentObs(src, ps[0], ps[1], "PRE", true)
		if !bytes.Equal(ip, ii) {
			o.violation("C18", "Indent with a pre-filled destination differs", map[string]string{"src": fmt.Sprintf("%q", src), "empty": fmt.Sprintf("%q", ii), "prefilled": fmt.Sprintf("%q", ip)})
		}
		if ii[0] == 'O' && allIndents && isWS(ps[0]) && isWS(ps[1]) {
			again := indentObs(ii[1:], ps[0], ps[1], "", true)
			if !bytes.Equal(again, ii) {
				o.violation("C18", "Indent is not idempotent", map[string]string{"src": fmt.Sprintf("%q", src), "once": fmt.Sprintf("%q", ii), "twice": fmt.Sprintf("%q", again)})
			}
		}
	}
}

func c18HTMLEscape(o *Out, src []byte) {
	if !stdjson.Valid(src) {
		return
	}
	var b bytes.Buffer
	b.WriteString("PRE")
	err := safeCall(func() error { gojson.HTMLEscape(&b, src); return nil })
	o.count("htmlescape_cases", 1)
	if err != nil {
		o.violation("C18", "HTMLEscape panicked", map[string]string{"src": fmt.Sprintf("%q", src), "err": err.Error()})
		return
	}
	out := b.Bytes()
	if !bytes.HasPrefix(out, []byte("PRE")) {
		o.violation("C18", "HTMLEscape lost the destination prefix", map[string]string{"src": fmt.Sprintf("%q", src)})
		return
	}
	out = out[3:]
	if bytes.ContainsAny(out, "<>&") || bytes.Contains(out, []byte(" ")) || bytes.Contains(out, []byte(" ")) {
		o.violation("C18", "HTMLEscape left a raw special character", map[string]string{"src": fmt.Sprintf("%q", src), "out": fmt.Sprintf("%q", out)})
	}
	var a, c interface{}
	d1 := stdjson.NewDecoder(bytes.NewReader(src))
	d1.UseNumber()
	e1 := d1.Decode(&a)
	d2 := stdjson.NewDecoder(bytes.NewReader(out))
	d2.UseNumber()
	e2 := d2.Decode(&c)
	if e1 != nil || e2 != nil || !reflect.DeepEqual(a, c) {
		o.violation("C18", "HTMLEscape output is not equivalent to its input", map[string]string{"src": fmt.Sprintf("%q", src), "out": fmt.Sprintf("%q", out)})
	}
}

func runC18(o *Out) {
	thorough := o.tier == "thorough"
	for _, d := range corpusDocs {
		c18Text(o, []byte(d), true, true)
		c18HTMLEscape(o, []byte(d))
	}
	byteSweep(func(b []byte) { c18Text(o, b, true, false) })
	// exhaustive small strings over the property's alphabet
	maxLen, modelLen := 4, 3
	if thorough {
		maxLen, modelLen = 5, 3
	}
	n := 0
	enumStrings(alphabet27, maxLen, func(b []byte) {
		n++
		c18Text(o, append([]byte{}, b...), len(b) <= modelLen || n%211 == 0, false)
	})
	// grammar-generated valid texts, all white-space placements, and single-byte edits
	ndocs := 1500
	if thorough {
		ndocs = 20000
	}
	for i := 0; i < ndocs; i++ {
		d := genDoc(o.rng, 3)
		c18Text(o, []byte(d), true, i%4 == 0)
		c18HTMLEscape(o, []byte(d))
		if i%5 == 0 {
			k := 0
			mutations(d, alphabet27, 7, func(m string) {
				k++
				c18Text(o, []byte(m), k%9 == 0, false)
			})
		}
	}
	// deep nesting within the depth the utilities can take
	for _, depth := range []int{10, 100, 1000} {
		d := bytes.Repeat([]byte("["), depth)
		d = append(d, bytes.Repeat([]byte("]"), depth)...)
		c18Text(o, d, depth <= 100, false)
		d2 := append(bytes.Repeat([]byte(`{"a":`), depth), '1')
		d2 = append(d2, bytes.Repeat([]byte("}"), depth)...)
		c18Text(o, d2, depth <= 100, false)
	}
	// audit wave 6 strata (after the older ones, whose random inputs stay what they were)
	t0 := time.Now()
	c18Strata(o)
	o.Notes = append(o.Notes, fmt.Sprintf("audit strata: %.1fs", time.Since(t0).Seconds()))
}

func isWS(s string) bool {
	for i := 0; i < len(s); i++ {
		if s[i] != ' ' && s[i] != '\t' && s[i] != '\n' && s[i] != '\r' {
			return false
		}
	}
	return true
}

// ---------------------------------------------------------------------------
// audit wave 6: additional strata (see the notes of audit A6)
// ---------------------------------------------------------------------------

// c18Valid: Valid is named in the property and was not observed here.  It is built on
// the stream decoder, which skips one leading ',' or ':' (StreamLeadingSeparator,
// recorded under C05): texts beginning with one are left to C05.
func c18Valid(o *Out, src []byte) {
	for _, c := range src {
		if c == ' ' || c == '\t' || c == '\n' || c == '\r' {
			continue
		}
		if c == ',' || c == ':' {
			o.count("valid_left_to_C05_leading_separator", 1)
			return
		}
		break
	}
	want := stdjson.Valid(src)
	var got bool
	err := safeCall(func() error { got = gojson.Valid(src); return nil })
	o.count("valid_cases", 1)
	if want {
		o.count("valid_cases_valid_text", 1)
	}
	if err != nil || got != want {
		o.violation("C18", "Valid differs from encoding/json", map[string]string{"src": fmt.Sprintf("%q", clipC18(src)), "len": fmt.Sprint(len(src)),
			"impl": fmt.Sprintf("%v err=%v", got, err), "oracle": fmt.Sprint(want)})
	}
}

func clipC18(b []byte) []byte {
	if len(b) > 400 {
		return append(append([]byte{}, b[:200]...), append([]byte(" ... "), b[len(b)-150:]...)...)
	}
	return b
}

// c18Plain compares Compact and Indent (one setting) with encoding/json without sending
// the text to the model: for texts that are too long or too many for it.
func c18Plain(o *Out, src []byte, what string, ps [2]string) {
	c18CompactValid(o, src, what)
	ii, is := indentObs(src, ps[0], ps[1], "PRE", true), indentObs(src, ps[0], ps[1], "PRE", false)
	o.count("indent_cases", 1)
	if !bytes.Equal(ii, is) {
		o.violation("C18", "Indent differs from encoding/json ("+what+")", map[string]string{"src": fmt.Sprintf("%q", clipC18(src)), "len": fmt.Sprint(len(src)),
			"prefix": ps[0], "indent": ps[1], "impl": fmt.Sprintf("%q", clipC18(ii)), "oracle": fmt.Sprintf("%q", clipC18(is))})
	}
}

// c18DepthLimit: nesting at the limit of 10000 (encoding/json's scanner and the
// library's maxNestingDepth) and one or two beyond it, for arrays, objects and a mix,
// with an empty and a non-empty innermost value: the counters of compact.go and
// indent.go are kept differently (depth+1 on entry / indentNum raised only for a
// non-empty container) and the decoder behind Valid and HTMLEscape has its own.
func c18DepthLimit(o *Out) {
	nest := func(depth int, kind int, inner string) []byte {
		var open, close []byte
		for i := 0; i < depth; i++ {
			obj := kind == 1 || (kind == 2 && i%2 == 1)
			if obj {
				open = append(open, `{"a":`...)
				close = append(close, '}')
			} else {
				open = append(open, '[')
				close = append(close, ']')
			}
		}
		for i, j := 0, len(close)-1; i < j; i, j = i+1, j-1 {
			close[i], close[j] = close[j], close[i]
		}
		return append(append(open, inner...), close...)
	}
	depths := []int{9999, 10000, 10001}
	if o.tier == "thorough" {
		depths = []int{9998, 9999, 10000, 10001, 10002}
	}
	for _, depth := range depths {
		for kind, kn := range []string{"arrays", "objects", "alternating"} {
			for _, inner := range []string{"[]", "{}", "1", `[1]`, `{"a":1}`, " [ ] ", `""`} {
				// the innermost container counts as a level: depth-1 around it
				d := depth
				if inner[0] == '[' || inner[0] == '{' || inner[0] == ' ' {
					d = depth - 1
				}
				src := nest(d, kind, inner)
				o.hist("depth_limit", fmt.Sprintf("%d %s", depth, kn))
				// Indent writes (and encoding/json's Indent loops over) depth indents per line: some
				// 0.4 s per text at this depth, so the quick tier indents the texts that decide the
				// two counters (indentObject/indentArray, empty and non-empty innermost) only
				what := fmt.Sprintf("nesting depth %d, %s, innermost %s", depth, kn, inner)
				if o.tier == "thorough" || ((depth == 10000 || depth == 10001) && kind < 2 && (inner == "1" || inner == []string{"[]", "{}"}[kind])) {
					o.count("depth_limit_indent_texts", 1)
					c18Plain(o, src, what, [2]string{"", ""})
				} else {
					c18CompactValid(o, src, what)
				}
				if stdjson.Valid(src) && inner == "1" {
					c18HTMLEscape(o, src)
				}
			}
		}
	}
	// siblings do not add to the depth
	src := []byte("[" + strings.Repeat("[[]],", 6000) + string(nest(9998, 0, "[]")) + "]")
	c18CompactValid(o, src, "6000 shallow siblings before a nest of 9999")
}

func c18CompactValid(o *Out, src []byte, what string) {
	gi, gs := compactObs(src, "PRE", true), compactObs(src, "PRE", false)
	o.count("compact_cases", 1)
	if !bytes.Equal(gi, gs) {
		o.violation("C18", "Compact differs from encoding/json ("+what+")", map[string]string{"src": fmt.Sprintf("%q", clipC18(src)), "len": fmt.Sprint(len(src)),
			"impl": fmt.Sprintf("%q", clipC18(gi)), "oracle": fmt.Sprintf("%q", clipC18(gs))})
	}
	c18Valid(o, src)
}

// c18StringLiterals: string tokens built from the escape items of C17 (every simple
// escape, \u of every class, surrogates paired and alone, broken escapes, raw control
// bytes, multi-byte characters) and the HTML-special characters, as value, as key and
// as array element next to other tokens.
func c18StringLiterals(o *Out) {
	items := append([]string{}, c17Items...)
	items = append(items, "<", ">", "&", "\u2028", "\u2029", "\\u003c", "\\u2029", "\xff", "\xe2\x80", "\xe2\x80\xa8x", "\xe2")
	n := 0
	try := func(lit string) {
		n++
		for i, doc := range []string{`"` + lit + `"`, `{"` + lit + `":"` + lit + `"}`, `[1,"` + lit + `" ,"` + lit + `"]`} {
			c18Text(o, []byte(doc), i == 0 && n%5 == 0, n%50 == 0)
			c18Valid(o, []byte(doc))
			c18HTMLEscape(o, []byte(doc))
		}
		o.count("string_literal_texts", 3)
	}
	for _, a := range items {
		try(a)
		for _, b := range items {
			try(a + b)
		}
	}
	nr := 1500
	if o.tier == "thorough" {
		nr = 60000
	}
	for i := 0; i < nr; i++ {
		lit := ""
		for j, k := 0, 3+o.rng.Intn(6); j < k; j++ {
			lit += items[o.rng.Intn(len(items))]
		}
		try(lit)
	}
}

// c18Numbers: every text of up to 5 (thorough: 6) bytes over the number alphabet, alone,
// inside an array and as a member value (the byte that ends the token differs), and
// as the second of two numbers.
func c18Numbers(o *Out) {
	maxLen := 5
	if o.tier == "thorough" {
		maxLen = 6
	}
	n := 0
	enumStrings([]byte("019-+.eE"), maxLen, func(b []byte) {
		if len(b) == 0 {
			return
		}
		n++
		s := string(b)
		ctxs := []string{s, "[" + s + "]", `{"a":` + s + "}", "[0," + s + " ]"}
		if len(b) <= 4 {
			return // the older enumeration over the 27-byte alphabet has these alone; keep the contexts for longer ones only
		}
		for i, c := range ctxs {
			if i > 0 && n%3 != i-1 && o.tier != "thorough" {
				continue
			}
			gi, gs := compactObs([]byte(c), "", true), compactObs([]byte(c), "", false)
			o.count("compact_cases", 1)
			o.count("number_form_texts", 1)
			if gs[0] == 'O' {
				o.count("number_form_texts_valid", 1)
			}
			if !bytes.Equal(gi, gs) {
				o.emit("C", "c18.compact", [][]byte{[]byte("0"), []byte(c)}, gi, gs, true)
			}
			ii, is := indentObs([]byte(c), "", " ", "", true), indentObs([]byte(c), "", " ", "", false)
			o.count("indent_cases", 1)
			if !bytes.Equal(ii, is) {
				o.emit("C", "c18.indent", [][]byte{[]byte(""), []byte(" "), []byte(c)}, ii, is, true)
			}
			c18Valid(o, []byte(c))
		}
	})
}

// c18Destinations: the destination buffer in other states than empty or "PRE": filled
// beyond bytes.Buffer's small-buffer size, with spare capacity smaller and larger
// than the output, partly read (read offset > 0), and reused for a second call.
func c18Destinations(o *Out, src []byte) {
	type call struct {
		name string
		goj  func(b *bytes.Buffer) error
		std  func(b *bytes.Buffer) error
	}
	calls := []call{
		{"Compact", func(b *bytes.Buffer) error { return gojson.Compact(b, src) }, func(b *bytes.Buffer) error { return stdjson.Compact(b, src) }},
		{"Indent", func(b *bytes.Buffer) error { return gojson.Indent(b, src, "\t", "  ") }, func(b *bytes.Buffer) error { return stdjson.Indent(b, src, "\t", "  ") }},
	}
	for _, c := range calls {
		for _, st := range []struct{ fill, capacity, read int }{{1, 0, 0}, {63, 0, 0}, {64, 0, 0}, {65, 64, 0}, {10, 16, 0}, {10, 11, 0}, {100, 4096, 0},
			{600, 0, 0}, {40, 0, 7}, {40, 64, 40}, {5000, 0, 4999}, {0, 1, 0}, {0, 1 << 16, 0}} {
			mk := func() *bytes.Buffer {
				data := make([]byte, st.fill, st.fill+st.capacity)
				for i := range data {
					data[i] = "0123456789"[i%10]
				}
				b := bytes.NewBuffer(data)
				b.Next(st.read)
				return b
			}
			gb, wb := mk(), mk()
			gerr := safeCall(func() error { return c.goj(gb) })
			werr := c.std(wb)
			o.count("destination_state_cases", 1)
			det := map[string]string{"call": c.name, "src": fmt.Sprintf("%q", clipC18(src)), "filled": fmt.Sprint(st.fill), "spare_capacity": fmt.Sprint(st.capacity), "already_read": fmt.Sprint(st.read)}
			if (gerr != nil) != (werr != nil) || !bytes.Equal(gb.Bytes(), wb.Bytes()) {
				det["impl"] = fmt.Sprintf("err=%v %q", gerr, clipC18(gb.Bytes()))
				det["oracle"] = fmt.Sprintf("err=%v %q", werr, clipC18(wb.Bytes()))
				o.violation("C18", "destination buffer differs from encoding/json's for a destination that is not empty", det)
				continue
			}
			// a second call appends to what the first left, error or not
			gerr2 := safeCall(func() error { return c.goj(gb) })
			werr2 := c.std(wb)
			if (gerr2 != nil) != (werr2 != nil) || !bytes.Equal(gb.Bytes(), wb.Bytes()) {
				det["impl"] = fmt.Sprintf("err=%v %q", gerr2, clipC18(gb.Bytes()))
				det["oracle"] = fmt.Sprintf("err=%v %q", werr2, clipC18(wb.Bytes()))
				o.violation("C18", "second call on the same destination differs from encoding/json", det)
			}
		}
	}
}

// c18Large: texts larger than the pooled source/destination buffers start with, then
// small ones again (the pooled buffers keep the long text behind the new sentinel).
func c18Large(o *Out) {
	long := strings.Repeat("x<y\\u00e9\\n", 8000)
	var arr, obj strings.Builder
	arr.WriteString("[")
	obj.WriteString("{")
	for i := 0; i < 6000; i++ {
		if i > 0 {
			arr.WriteString(" ,\n")
			obj.WriteString(",")
		}
		fmt.Fprintf(&arr, "%d.5e-%d", i, i%300)
		fmt.Fprintf(&obj, "\"k%d\" : [ %d , {\"a\":null} ]\t", i, i)
	}
	arr.WriteString("]")
	obj.WriteString("}")
	texts := []string{`"` + long + `"`, `{"` + long + `":"` + long + `"}`, arr.String(), obj.String(),
		arr.String()[:len(arr.String())-1], `"` + long, obj.String() + "x", strings.Repeat(" ", 70000) + "1" + strings.Repeat("\n", 70000)}
	for ti, t := range texts {
		ps := [][2]string{{"", " "}, {"\t\t", "é"}}[ti%2]
		c18Plain(o, []byte(t), "large text", ps)
		o.count("large_texts", 1)
		for _, small := range []string{`{"a":[1,2]}`, `[`, `"x"`, ` 1 `} {
			c18Plain(o, []byte(small), "small text after a large one", ps)
		}
		c18HTMLEscape(o, []byte(t))
		if ti < 3 || o.tier == "thorough" {
			c18Destinations(o, []byte(t))
		}
	}
}

func c18Strata(o *Out) {
	var times []string
	lap := time.Now()
	mark := func(name string) {
		times = append(times, fmt.Sprintf("%s %.1fs", name, time.Since(lap).Seconds()))
		lap = time.Now()
	}
	c18DepthLimit(o)
	mark("depth")
	c18StringLiterals(o)
	mark("strings")
	c18Numbers(o)
	mark("numbers")
	for i, d := range corpusDocs {
		c18Valid(o, []byte(d))
		if i%3 == 0 {
			c18Destinations(o, []byte(d))
		}
	}
	byteSweep(func(b []byte) { c18Valid(o, b); c18HTMLEscape(o, b) })
	nd := 600
	if o.tier == "thorough" {
		nd = 20000
	}
	for i := 0; i < nd; i++ {
		d := genDoc(o.rng, 4)
		c18Valid(o, []byte(d))
		if i%6 == 0 {
			c18Destinations(o, []byte(d))
		}
		if i%3 == 0 {
			k := 0
			mutations(d, alphabet27, 5, func(m string) {
				k++
				if k%4 == 0 {
					c18Valid(o, []byte(m))
				}
			})
		}
	}
	mark("valid+destinations")
	c18Large(o)
	mark("large")
	o.Notes = append(o.Notes, "audit strata: "+strings.Join(times, ", "))
}
