package main

import (
	"bytes"
	stdjson "encoding/json"
	"fmt"
	"reflect"

	gojson "github.com/goccy/go-json"
)

func init() { props["C18"] = runC18 }

func obsBuf(err error, b *bytes.Buffer, pre string) []byte {
	if err != nil {
		if b.String() != pre {
			return []byte("E!dst-changed:" + b.String())
		}
		return []byte("E")
	}
	out := b.Bytes()
	if !bytes.HasPrefix(out, []byte(pre)) {
		return []byte("O!prefix-lost:" + string(out))
	}
	return append([]byte("O"), out[len(pre):]...)
}

func safeCall(f func() error) (err error) {
	defer func() {
		if r := recover(); r != nil {
			err = fmt.Errorf("PANIC: %v", r)
		}
	}()
	return f()
}

func compactObs(src []byte, pre string, impl bool) []byte {
	var b bytes.Buffer
	b.WriteString(pre)
	var err error
	if impl {
		err = safeCall(func() error { return gojson.Compact(&b, src) })
	} else {
		err = stdjson.Compact(&b, src)
	}
	if err != nil && len(err.Error()) > 5 && err.Error()[:5] == "PANIC" {
		return []byte("panic")
	}
	return obsBuf(err, &b, pre)
}

func indentObs(src []byte, prefix, indent, pre string, impl bool) []byte {
	var b bytes.Buffer
	b.WriteString(pre)
	var err error
	if impl {
		err = safeCall(func() error { return gojson.Indent(&b, src, prefix, indent) })
	} else {
		err = stdjson.Indent(&b, src, prefix, indent)
	}
	if err != nil && len(err.Error()) > 5 && err.Error()[:5] == "PANIC" {
		return []byte("panic")
	}
	return obsBuf(err, &b, pre)
}

var indentSets = [][2]string{{"", ""}, {"", " "}, {"", "\t"}, {">", "  "}, {"é", "€"}, {" ", ""}, {"\t\t", " \t"}}

func c18Text(o *Out, src []byte, toModel bool, allIndents bool) {
	// Compact, empty and pre-filled destination
	gi := compactObs(src, "", true)
	gs := compactObs(src, "", false)
	o.count("compact_cases", 1)
	if toModel {
		o.emit("A", "c18.compact", [][]byte{[]byte("0"), src}, gi, gs, true)
		// (B) the Coq specification against the real encoding/json
		o.emit("A", "spec.compact", [][]byte{src}, gs, gs, true)
	} else if !bytes.Equal(gi, gs) {
		o.emit("C", "c18.compact", [][]byte{[]byte("0"), src}, gi, gs, true)
	}
	gp := compactObs(src, "PRE", true)
	if !bytes.Equal(gp, gi) {
		o.violation("C18", "Compact with a pre-filled destination differs from the empty-destination result",
			map[string]string{"src": fmt.Sprintf("%q", src), "empty": fmt.Sprintf("%q", gi), "prefilled": fmt.Sprintf("%q", gp)})
	}
	// idempotence
	if gi[0] == 'O' {
		again := compactObs(gi[1:], "", true)
		if !bytes.Equal(again, gi) {
			o.violation("C18", "Compact is not idempotent", map[string]string{"src": fmt.Sprintf("%q", src), "once": fmt.Sprintf("%q", gi), "twice": fmt.Sprintf("%q", again)})
		}
	}
	sets := indentSets[:2]
	if allIndents {
		sets = indentSets
	}
	for _, ps := range sets {
		ii := indentObs(src, ps[0], ps[1], "", true)
		is := indentObs(src, ps[0], ps[1], "", false)
		o.count("indent_cases", 1)
		if toModel {
			o.emit("A", "c18.indent", [][]byte{[]byte(ps[0]), []byte(ps[1]), src}, ii, is, true)
			o.emit("A", "spec.indent", [][]byte{[]byte(ps[0]), []byte(ps[1]), src}, is, is, true)
		} else if !bytes.Equal(ii, is) {
			o.emit("C", "c18.indent", [][]byte{[]byte(ps[0]), []byte(ps[1]), src}, ii, is, true)
		}
		ip := indentObs(src, ps[0], ps[1], "PRE", true)
		if !bytes.Equal(ip, ii) {
			o.violation("C18", "Indent with a pre-filled destination differs", map[string]string{"src": fmt.Sprintf("%q", src), "empty": fmt.Sprintf("%q", ii), "prefilled": fmt.Sprintf("%q", ip)})
		}
		if ii[0] == 'O' && allIndents && isWS(ps[0]) && isWS(ps[1]) {
			again := indentObs(ii[1:], ps[0], ps[1], "", true)
			if !bytes.Equal(again, ii) {
				o.violation("C18", "Indent is not idempotent", map[string]string{"src": fmt.Sprintf("%q", src), "once": fmt.Sprintf("%q", ii), "twice": fmt.Sprintf("%q", again)})
			}
		}
	}
}

func c18HTMLEscape(o *Out, src []byte) {
	if !stdjson.Valid(src) {
		return
	}
	var b bytes.Buffer
	b.WriteString("PRE")
	err := safeCall(func() error { gojson.HTMLEscape(&b, src); return nil })
	o.count("htmlescape_cases", 1)
	if err != nil {
		o.violation("C18", "HTMLEscape panicked", map[string]string{"src": fmt.Sprintf("%q", src), "err": err.Error()})
		return
	}
	out := b.Bytes()
	if !bytes.HasPrefix(out, []byte("PRE")) {
		o.violation("C18", "HTMLEscape lost the destination prefix", map[string]string{"src": fmt.Sprintf("%q", src)})
		return
	}
	out = out[3:]
	if bytes.ContainsAny(out, "<>&") || bytes.Contains(out, []byte(" ")) || bytes.Contains(out, []byte(" ")) {
		o.violation("C18", "HTMLEscape left a raw special character", map[string]string{"src": fmt.Sprintf("%q", src), "out": fmt.Sprintf("%q", out)})
	}
	var a, c interface{}
	d1 := stdjson.NewDecoder(bytes.NewReader(src))
	d1.UseNumber()
	e1 := d1.Decode(&a)
	d2 := stdjson.NewDecoder(bytes.NewReader(out))
	d2.UseNumber()
	e2 := d2.Decode(&c)
	if e1 != nil || e2 != nil || !reflect.DeepEqual(a, c) {
		o.violation("C18", "HTMLEscape output is not equivalent to its input", map[string]string{"src": fmt.Sprintf("%q", src), "out": fmt.Sprintf("%q", out)})
	}
}

func runC18(o *Out) {
	thorough := o.tier == "thorough"
	for _, d := range corpusDocs {
		c18Text(o, []byte(d), true, true)
		c18HTMLEscape(o, []byte(d))
	}
	byteSweep(func(b []byte) { c18Text(o, b, true, false) })
	// exhaustive small strings over the property's alphabet
	maxLen, modelLen := 4, 3
	if thorough {
		maxLen, modelLen = 5, 3
	}
	n := 0
	enumStrings(alphabet27, maxLen, func(b []byte) {
		n++
		c18Text(o, append([]byte{}, b...), len(b) <= modelLen || n%211 == 0, false)
	})
	// grammar-generated valid texts, all white-space placements, and single-byte edits
	ndocs := 1500
	if thorough {
		ndocs = 20000
	}
	for i := 0; i < ndocs; i++ {
		d := genDoc(o.rng, 3)
		c18Text(o, []byte(d), true, i%4 == 0)
		c18HTMLEscape(o, []byte(d))
		if i%5 == 0 {
			k := 0
			mutations(d, alphabet27, 7, func(m string) {
				k++
				c18Text(o, []byte(m), k%9 == 0, false)
			})
		}
	}
	// deep nesting within the depth the utilities can take
	for _, depth := range []int{10, 100, 1000} {
		d := bytes.Repeat([]byte("["), depth)
		d = append(d, bytes.Repeat([]byte("]"), depth)...)
		c18Text(o, d, depth <= 100, false)
		d2 := append(bytes.Repeat([]byte(`{"a":`), depth), '1')
		d2 = append(d2, bytes.Repeat([]byte("}"), depth)...)
		c18Text(o, d2, depth <= 100, false)
	}
}

func isWS(s string) bool {
	for i := 0; i < len(s); i++ {
		if s[i] != ' ' && s[i] != '\t' && s[i] != '\n' && s[i] != '\r' {
			return false
		}
	}
	return true
}
