package main

import (
	stdjson "encoding/json"
	"regexp"
)

// A shape-directed acceptor used ONLY to classify a typed-destination
// acceptance of an invalid text: it follows the typed decoders strictly,
// except that positions the destination skips are consumed either strictly
// (an RFC 8259 value) or the way skipValue/skipObject/skipArray do it
// (bracket counting).  An invalid text accepted by the implementation is the
// recorded finding SkipUnvalidated iff the lenient acceptor accepts it and
// the strict one does not.

type shape struct {
	kind   string // "int", "skip", "struct", "slice", "map", "array"
	fields map[string]*shape
	elem   *shape
	n      int
}

var shInt = &shape{kind: "int"}
var shSkip = &shape{kind: "skip"}
var shSkipStruct = &shape{kind: "struct", fields: map[string]*shape{"A": shInt}}
var shRawStruct = &shape{kind: "struct", fields: map[string]*shape{"A": shInt, "x": shSkip}}
var shText = &shape{kind: "text"} // a TextUnmarshaler: a (strict) string literal or null
var shTextStruct = &shape{kind: "struct", fields: map[string]*shape{"A": shInt, "x": shText}}

// (audit A1) the destinations of the other two key matchers: the same shape, more fields
func shIntStruct(names ...string) *shape {
	f := map[string]*shape{}
	for _, n := range names {
		f[n] = shInt
	}
	return &shape{kind: "struct", fields: f}
}

var shapes = map[string]*shape{
	"skip16":      shIntStruct("A", "abc", "k", "0", "key with space", "ab", "é", "<>&", " ", "key"),
	"skipmap":     shIntStruct("A", "B", "C", "D", "E", "F", "G", "H", "I", "J", "L", "M", "N", "O", "P", "abc", "k", "0"),
	"skiplongkey": shIntStruct("A", "kkkkkkkkkkkkkkkkkkkkkkkkkkkkkkkkkkkkkkkkkkkkkkkkkkkkkkkkkkkkkkkkkkkkkkkkkkkkkkkk"),
	"skip":        shSkipStruct, "raw": shRawStruct, "unmarshaler": shRawStruct,
	"array1":        {kind: "array", elem: shInt, n: 1},
	"slice-of-skip": {kind: "slice", elem: shSkipStruct},
	"map-of-skip":   {kind: "map", elem: shSkipStruct},
	"text":          shTextStruct,
	"text-in-iface": shText,
}

type acc struct {
	b           []byte
	lenient     bool
	lenientKeys bool // struct keys are scanned to the closing quote without validation
}

// the struct key scanners' way of reading a key: up to the next unescaped quote
func (a *acc) lenientStr(i int) (int, bool) {
	if i >= len(a.b) || a.b[i] != '"' {
		return 0, false
	}
	for j := i + 1; j < len(a.b); j++ {
		if a.b[j] == '\\' {
			j++
			continue
		}
		if a.b[j] == 0 {
			return 0, false
		}
		if a.b[j] == '"' {
			return j + 1, true
		}
	}
	return 0, false
}

func (a *acc) ws(i int) int {
	for i < len(a.b) && (a.b[i] == ' ' || a.b[i] == '\t' || a.b[i] == '\n' || a.b[i] == '\r') {
		i++
	}
	return i
}

func (a *acc) lit(i int, w string) (int, bool) {
	if i+len(w) <= len(a.b) && string(a.b[i:i+len(w)]) == w {
		return i + len(w), true
	}
	return 0, false
}

// strict JSON string starting at the quote
func (a *acc) str(i int) (int, bool) {
	if i >= len(a.b) || a.b[i] != '"' {
		return 0, false
	}
	for j := i + 1; j < len(a.b); j++ {
		switch {
		case a.b[j] == '"':
			if stdjson.Valid(a.b[i : j+1]) {
				return j + 1, true
			}
			return 0, false
		case a.b[j] == '\\':
			j++
		}
	}
	return 0, false
}

var intRe = regexp.MustCompile(`^-?(0|[1-9][0-9]*)`)

// the scanners' way of skipping a value (internal/decoder/context.go)
func (a *acc) lenientSkip(i int) (int, bool) {
	i = a.ws(i)
	if i >= len(a.b) {
		return 0, false
	}
	switch c := a.b[i]; {
	case c == '{' || c == '[':
		open, close := byte('{'), byte('}')
		if c == '[' {
			open, close = '[', ']'
		}
		count := 1
		for j := i + 1; j < len(a.b); j++ {
			switch a.b[j] {
			case open:
				count++
			case close:
				count--
				if count == 0 {
					return j + 1, true
				}
			case '"':
				for j++; j < len(a.b) && a.b[j] != '"'; j++ {
					if a.b[j] == '\\' {
						j++
					}
					if j < len(a.b) && a.b[j] == 0 {
						return 0, false
					}
				}
				if j >= len(a.b) {
					return 0, false
				}
			case 0:
				return 0, false
			}
		}
		return 0, false
	case c == '"':
		for j := i + 1; j < len(a.b); j++ {
			if a.b[j] == '\\' {
				j++
				continue
			}
			if a.b[j] == 0 {
				return 0, false
			}
			if a.b[j] == '"' {
				return j + 1, true
			}
		}
		return 0, false
	case c == '-' || (c >= '0' && c <= '9'):
		j := i + 1
		for j < len(a.b) && (a.b[j] >= '0' && a.b[j] <= '9' || a.b[j] == '.' || a.b[j] == 'e' || a.b[j] == 'E' || a.b[j] == '+' || a.b[j] == '-') {
			j++
		}
		return j, true
	case c == 't':
		return a.lit(i, "true")
	case c == 'f':
		return a.lit(i, "false")
	case c == 'n':
		return a.lit(i, "null")
	}
	return 0, false
}

// strict skip: the shortest prefix at i that is one RFC value
func (a *acc) strictSkip(i int) (int, bool) {
	i = a.ws(i)
	d := stdjson.NewDecoder(bytesReader(a.b[i:]))
	var raw stdjson.RawMessage
	if err := d.Decode(&raw); err != nil {
		return 0, false
	}
	return i + int(d.InputOffset()), true
}

func (a *acc) value(sh *shape, i int) (int, bool) {
	i = a.ws(i)
	if i >= len(a.b) {
		return 0, false
	}
	if sh.kind != "skip" && sh.kind != "int" {
		if j, ok := a.lit(i, "null"); ok {
			return j, true
		}
	}
	switch sh.kind {
	case "skip":
		if a.lenient {
			return a.lenientSkip(i)
		}
		return a.strictSkip(i)
	case "text":
		return a.str(i)
	case "int":
		if j, ok := a.lit(i, "null"); ok {
			return j, true
		}
		m := intRe.Find(a.b[i:])
		if m == nil {
			return 0, false
		}
		return i + len(m), true
	case "struct", "map":
		if a.b[i] != '{' {
			return 0, false
		}
		i = a.ws(i + 1)
		if i < len(a.b) && a.b[i] == '}' {
			return i + 1, true
		}
		for {
			i = a.ws(i)
			j, ok := a.str(i)
			if !ok && a.lenientKeys && sh.kind == "struct" {
				// the key scanners do not validate, and on a mismatch they may
				// stop at an escaped quote or run over an unescaped one: try every
				// later quote that is followed by a colon as the end of the key
				if i < len(a.b) && a.b[i] == '"' {
					end := len(a.b)
					for q := i + 1; q < end; q++ {
						if a.b[q] != '"' {
							continue
						}
						k := a.ws(q + 1)
						if k < len(a.b) && a.b[k] == ':' {
							if j2, ok3 := a.membersFrom(sh, k); ok3 {
								return j2, true
							}
						}
					}
				}
				return 0, false
			}
			if !ok {
				return 0, false
			}
			var key string
			stdjson.Unmarshal(a.b[i:j], &key)
			i = a.ws(j)
			if i >= len(a.b) || a.b[i] != ':' {
				return 0, false
			}
			es := sh.elem
			if sh.kind == "struct" {
				es = sh.fields[key]
				if es == nil {
					es = shSkip
				}
			}
			if j, ok = a.value(es, i+1); !ok {
				return 0, false
			}
			i = a.ws(j)
			if i >= len(a.b) {
				return 0, false
			}
			if a.b[i] == '}' {
				return i + 1, true
			}
			if a.b[i] != ',' {
				return 0, false
			}
			i++
		}
	case "slice", "array":
		if a.b[i] != '[' {
			return 0, false
		}
		i = a.ws(i + 1)
		if i < len(a.b) && a.b[i] == ']' {
			return i + 1, true
		}
		idx := 0
		for {
			es := sh.elem
			if sh.kind == "array" && idx >= sh.n {
				es = shSkip
			}
			j, ok := a.value(es, i)
			if !ok {
				return 0, false
			}
			idx++
			i = a.ws(j)
			if i >= len(a.b) {
				return 0, false
			}
			if a.b[i] == ']' {
				return i + 1, true
			}
			if a.b[i] != ',' {
				return 0, false
			}
			i++
		}
	}
	return 0, false
}

func shapeAccepts(dest string, b []byte, lenient, lenientKeys bool) bool {
	a := &acc{b: b, lenient: lenient, lenientKeys: lenientKeys}
	j, ok := a.value(shapes[dest], 0)
	if !ok {
		return false
	}
	return a.ws(j) == len(b)
}

// membersFrom continues an object at the colon after a (leniently scanned,
// hence unknown) key: the value is skipped, then the remaining members follow.
func (a *acc) membersFrom(sh *shape, colon int) (int, bool) {
	j, ok := a.value(shSkip, colon+1)
	if !ok {
		return 0, false
	}
	i := a.ws(j)
	if i >= len(a.b) {
		return 0, false
	}
	if a.b[i] == '}' {
		return i + 1, true
	}
	if a.b[i] != ',' {
		return 0, false
	}
	// re-enter the member loop by parsing "{" + rest as an object of the same shape
	sub := &acc{b: append([]byte("{"), a.b[i+1:]...), lenient: a.lenient, lenientKeys: a.lenientKeys}
	k, ok := sub.value(sh, 0)
	if !ok {
		return 0, false
	}
	return i + k, true
}
